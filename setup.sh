#!/bin/sh
# Build the framework from files on disk only (offline): generated Lean data, the Lean library with all
# property theorems, the compiled model driver, and the Rust harness (default, constrained and fast_verify builds).
set -e
cd "$(dirname "$0")"
export CARGO_NET_OFFLINE=true
python3 tools/extract.py
(cd lean && lake build hbsdriver HbsLms)
python3 - <<'PY'
import sys
sys.path.insert(0, "tools")
from hbs import build_harness
sys.path.insert(0, "tools/props")
from props import C14, C15
ok, out = build_harness()
assert ok, out
for cfg in C14.CONFIGS_QUICK:
    ok, out = build_harness(cfg)
    assert ok, out
for cfg in C15.CFGS_QUICK:
    ok, out = build_harness(cfg, ["fast_verify"])
    assert ok, out
print("setup: ok")
PY

#!/bin/sh
# usage: tools/try_refactor.sh <patch.diff> [Cxx ...]  -- apply a behaviour-preserving change to /repo, run the quick checks, undo it
P="$1"; shift
CHECKS="${*:-C01 C02 C03 C04 C05 C06 C07 C08 C09 C10 C11 C12 C13 C14 C15 C16}"
cd /repo || exit 2
git diff --quiet || { echo "repo not clean"; exit 2; }
git apply "$P" || { echo "patch does not apply"; exit 2; }
for c in $CHECKS; do
  (cd /verif && timeout 1500 ./check "$c" --tier quick > /tmp/ref_$c.log 2>&1)
  echo "$c: $(grep -E 'VIOLATION' /tmp/ref_$c.log | cut -c1-160 | head -1) $(grep -E 'broken obligation' /tmp/ref_$c.log | cut -c1-300 | head -1)"
done
git -C /repo checkout -- .
git -C /repo status --short | head -3

#!/usr/bin/env python3
"""One-off probe (kept for the record): runs the property oracles for C02/C06/C10/C11/C13 against the real
library through the harness, before any model exists. Output is stored under /verif/findings/."""
import sys
sys.path.insert(0, "/verif/tools")
from hbs import *
ok, path = build_harness()
assert ok, path
hz = harness(path)
H = "S32"; n = 32
seed = bytes(range(32))
ps = [(3, 1), (4, 1)]
kg = hz.batch(["keygen H=%s params=%s seed=%s aux=none" % (H, params_str(ps), hx(seed))])[0]
f = dict(t.split("=") for t in kg.split()[1:])
sk, vk = unhx(f["sk"]), unhx(f["vk"])
msg = b"hello"
sg = hz.batch(["sign H=%s sk=%s msg=%s cb=accept aux=none" % (H, hx(sk), hx(msg))])[0]
sig = unhx(dict(t.split("=") for t in sg.split()[1:])["sig"])
def ver(m, s, k, entry="fn"):
    return "verify H=%s msg=%s sig=%s pk=%s entry=%s" % (H, hx(m), hx(s), hx(k), entry)
print("baseline verify:", hz.batch([ver(msg, sig, vk)]))
# C06: every prefix of sig and of pk
reqs = [ver(msg, sig[:i], vk) for i in range(len(sig))] + [ver(msg, sig, vk[:i]) for i in range(len(vk))]
res = hz.batch(reqs)
pan = [r for r in res if r.startswith("panic")]
print("C06 prefixes: %d requests, %d panics, e.g. %s" % (len(reqs), len(pan), sorted(set(pan))[:4]))
# unknown type codes
s2 = bytearray(sig); s2[8:12] = u32(9)
print("C06 unknown ots type in sig:", hz.batch([ver(msg, bytes(s2), vk)]))
# many signed public keys: repeat the first signed pk 8 times
nspk, lv = parse_hss_sig(n, sig)
spk = sig[4:lv[0]["child_pk_off"] + lms_pk_len(n)]
for k in (7, 8, 9):
    s3 = u32(k) + spk * k + sig[lv[1]["start"]:]
    print("C06 %d signed public keys:" % k, hz.batch([ver(msg, s3, vk)]))
# C02 trailing
print("C02 sig||00:", hz.batch([ver(msg, sig + b"\0", vk)]), " pk||07:", hz.batch([ver(msg, sig, vk + b"\7")]))
# C11
nine = [(3, 1)] * 9
print("C11 keygen 9 params:", hz.batch(["keygen H=%s params=%s seed=%s aux=none" % (H, params_str(nine), hx(seed))]))
print("C11 keygen 0 params:", hz.batch(["keygen H=%s params=- seed=%s aux=none" % (H, hx(seed))]))
bad = []
for v in range(256):
    if (v >> 4) in (6, 7, 8, 9) and (v & 15) in (1, 2, 3, 4):
        continue  # valid tall trees: would really be generated
    b = bytearray(sk); b[8] = v
    bad.append("sign H=%s sk=%s msg=00 cb=accept aux=none" % (H, hx(bytes(b))))
res = hz.batch(bad)
pv = [int(bad[i].split('sk=')[1][16:18],16) for i, r in enumerate(res) if r.startswith("panic")]
print("C11 sign with parameter byte 0 = v: %d values panic, e.g. %s" % (len(pv), [hex(v) for v in pv[:8]]))
print("C11 keygen empty aux:", hz.batch(["keygen H=%s params=%s seed=%s aux=-" % (H, params_str(ps), hx(seed))]))
print("C11 sign empty aux:", hz.batch(["sign H=%s sk=%s msg=00 cb=accept aux=-" % (H, hx(sk))]))
kga = hz.batch(["keygen H=%s params=%s seed=%s aux=%s" % (H, params_str([(3, 5), (3, 1)]), hx(seed), hx(bytes(2000)))])[0]
fa = dict(t.split("=") for t in kga.split()[1:])
aux = unhx(fa["aux"]); ska = unhx(fa["sk"])
a2 = bytearray(aux); a2[0:4] = b"\xff\xff\xff\xff"
print("C11 sign with corrupted level word:", hz.batch(["sign H=%s sk=%s msg=00 cb=accept aux=%s" % (H, hx(ska), hx(bytes(a2)))])[0][:60])
for ln in (1, 2, 3, 4, 5, 35, 36):
    print("C11 sign aux len %d (in use marker):" % ln, hz.batch(["sign H=%s sk=%s msg=00 cb=accept aux=%s" % (H, hx(ska), hx(b"\x80" + bytes(ln - 1)))])[0][:50])
# C10 fresh-marked garbage
g = b"\0" + bytes([0x5a]) * 1999
kgg = hz.batch(["keygen H=%s params=%s seed=%s aux=%s" % (H, params_str([(3, 5), (3, 1)]), hx(seed), hx(g))])[0]
fg = dict(t.split("=") for t in kgg.split()[1:])
print("C10 keygen(00||garbage) vk == vk(no aux):", fg["vk"] == fa["vk"])
sgg = hz.batch(["sign H=%s sk=%s msg=00 cb=accept aux=%s" % (H, hx(ska), hx(g))])[0]
fs = dict(t.split("=") for t in sgg.split()[1:] if "=" in t)
print("C10 sign(00||garbage) verifies:", hz.batch([ver(b"\0", unhx(fs["sig"]), unhx(fa["vk"]))]), "callback invoked:", fs["cb"] != "none")
# C13
print("C13 ctr H10x6,H5 (sum 65):", hz.batch(["ctr H=S32 lms=6,6,6,6,6,6,5 c=5"]))
print("C13 ctr H25x3 (sum 75):", hz.batch(["ctr H=S32 lms=9,9,9 c=5"]))
print("C13 ctr H20x3+H5 (sum 65) c=2^64-2:", hz.batch(["ctr H=S32 lms=8,8,8,5 c=18446744073709551614"]))

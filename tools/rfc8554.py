"""Independent reference implementation, written from RFC 8554 (LM-OTS Alg. 1-4b, LMS Alg. 5-6a, HSS
section 6, Appendix B formulas) and from the property statements for the hash-sigs key derivation.
Used only as an *oracle* by the checks (C02, C07, C08, C12, C13); it shares no code with the Lean model
or with the library.  Type codes are the library's (1..4 / 5..9 (+1 = the 4-leaf hook height)); n is
the selected hash's output length."""
import hashlib
import math

OTS_W = {1: 1, 2: 2, 3: 4, 4: 8}
LMS_H = {1: 2, 5: 5, 6: 10, 7: 15, 8: 20, 9: 25}
D_PBLC, D_MESG, D_LEAF, D_INTR = b"\x80\x80", b"\x81\x81", b"\x82\x82", b"\x83\x83"


def Hf(H, data):
    n = int(H[1:])
    if H[0] == "S":
        return hashlib.sha256(data).digest()[:n]
    return hashlib.shake_256(data).digest(32)[:n]


def u8(x): return int(x).to_bytes(1, "big")
def u16(x): return int(x).to_bytes(2, "big")
def u32(x): return int(x).to_bytes(4, "big")


def appendix_b(n, w):
    """(u, v, ls, p) from the Appendix B formulas"""
    u = math.ceil(8 * n / w)
    v = math.ceil((math.floor(math.log2((2 ** w - 1) * u)) + 1) / w)
    ls = 16 - v * w
    return u, v, ls, u + v


def coef(S, i, w):
    return (2 ** w - 1) & (S[(i * w) // 8] >> (8 - (w * (i % (8 // w)) + w)))


def cksm(S, n, w, ls=None):
    u, v, ls_rfc, p = appendix_b(n, w)
    if ls is None:
        ls = ls_rfc
    s = 0
    for i in range((n * 8) // w):
        s += (2 ** w - 1) - coef(S, i, w)
    return (s << ls) & 0xffff


def digits(Q, n, w, ls=None):
    u, v, _, p = appendix_b(n, w)
    S = Q + u16(cksm(Q, n, w, ls))
    return [coef(S, i, w) for i in range(p)]


def lmots_candidate(H, n, I, q, msg, sig, ls_of=None):
    """Algorithm 4b. sig = u32 type || C || y[0..p-1]. returns Kc or None"""
    if len(sig) < 4:
        return None
    t = int.from_bytes(sig[:4], "big")
    if t not in OTS_W:
        return None
    w = OTS_W[t]
    u, v, ls, p = appendix_b(n, w)
    if ls_of:
        ls = ls_of(n, w)
    if len(sig) != 4 + n * (p + 1):
        return None
    C = sig[4:4 + n]
    y = [sig[4 + n + i * n: 4 + n + (i + 1) * n] for i in range(p)]
    Q = Hf(H, I + u32(q) + D_MESG + C + msg)
    ds = digits(Q, n, w, ls)
    z = b""
    for i in range(p):
        tmp = y[i]
        for j in range(ds[i], 2 ** w - 1):
            tmp = Hf(H, I + u32(q) + u16(i) + u8(j) + tmp)
        z += tmp
    return Hf(H, I + u32(q) + D_PBLC + z)


def lms_verify(H, n, msg, sig, pk, ls_of=None):
    """Algorithm 6 / 6a. pk = u32 lmstype || u32 otstype || I || T[1]"""
    if len(pk) < 8:
        return False
    pubtype = int.from_bytes(pk[:4], "big")
    if pubtype not in LMS_H:
        return False
    h = LMS_H[pubtype]
    if len(pk) != 24 + n:
        return False
    ots_pub = int.from_bytes(pk[4:8], "big")
    I = pk[8:24]
    T1 = pk[24:]
    # 6a
    if len(sig) < 8:
        return False
    q = int.from_bytes(sig[:4], "big")
    otssigtype = int.from_bytes(sig[4:8], "big")
    if otssigtype != ots_pub or otssigtype not in OTS_W:
        return False
    w = OTS_W[otssigtype]
    _, _, _, p = appendix_b(n, w)
    if len(sig) < 12 + n * (p + 1):
        return False
    lmots_sig = sig[4:8 + n * (p + 1)]
    sigtype = int.from_bytes(sig[8 + n * (p + 1):12 + n * (p + 1)], "big")
    if sigtype != pubtype:
        return False
    if q >= 2 ** h or len(sig) != 12 + n * (p + 1) + n * h:
        return False
    path = [sig[12 + n * (p + 1) + i * n: 12 + n * (p + 1) + (i + 1) * n] for i in range(h)]
    Kc = lmots_candidate(H, n, I, q, msg, lmots_sig, ls_of)
    if Kc is None:
        return False
    node_num = 2 ** h + q
    tmp = Hf(H, I + u32(node_num) + D_LEAF + Kc)
    i = 0
    while node_num > 1:
        if node_num % 2 == 1:
            tmp = Hf(H, I + u32(node_num // 2) + D_INTR + path[i] + tmp)
        else:
            tmp = Hf(H, I + u32(node_num // 2) + D_INTR + tmp + path[i])
        node_num //= 2
        i += 1
    return tmp == T1


def lms_sig_len_from(n, b):
    """length of the LMS signature that starts at b (from its type codes), or None"""
    if len(b) < 8:
        return None
    t = int.from_bytes(b[4:8], "big")
    if t not in OTS_W:
        return None
    _, _, _, p = appendix_b(n, OTS_W[t])
    o = 8 + n * (p + 1)
    if len(b) < o + 4:
        return None
    lt = int.from_bytes(b[o:o + 4], "big")
    if lt not in LMS_H:
        return None
    return 12 + n * (p + 1) + n * LMS_H[lt]


def hss_verify(H, msg, sig, pk, max_levels=8, ls_of=None):
    """RFC 8554 section 6.3"""
    n = int(H[1:])
    if len(pk) < 4:
        return False
    L = int.from_bytes(pk[:4], "big")
    if len(sig) < 4:
        return False
    nspk = int.from_bytes(sig[:4], "big")
    if nspk + 1 != L:
        return False
    if L < 1 or L > max_levels:
        return False
    key = pk[4:]
    o = 4
    for _ in range(nspk):
        sl = lms_sig_len_from(n, sig[o:])
        if sl is None or len(sig) < o + sl + 24 + n:
            return False
        s = sig[o:o + sl]
        child = sig[o + sl:o + sl + 24 + n]
        if not lms_verify(H, n, child, s, key, ls_of):
            return False
        key = child
        o += sl + 24 + n
    return lms_verify(H, n, msg, sig[o:], key, ls_of)


# ---- hash-sigs key derivation and signing (from the statement of C08 / C07)

def root_seed_id(H, seed):
    n = int(H[1:])
    pre = bytearray(55)
    pre[20:22] = b"\xfe\xfe"
    pre[23:23 + n] = seed
    h1 = Hf(H, bytes(pre))
    pre[23:23 + n] = h1
    pre[22] = 1
    s = Hf(H, bytes(pre))
    pre[22] = 2
    i = Hf(H, bytes(pre))[:16]
    return s, i


def seed_derive(H, seed, I, q, j):
    n = int(H[1:])
    buf = bytearray(55)
    buf[0:16] = I
    buf[16:20] = u32(q)
    buf[20:22] = u16(j)
    buf[22] = 0xff
    buf[23:23 + n] = seed
    return Hf(H, bytes(buf))


def child_seed_id(H, seed, I, q):
    return seed_derive(H, seed, I, q, 0xfffe), seed_derive(H, seed, I, q, 0xffff)[:16]


class Tree:
    def __init__(self, H, seed, I, ots, lms):
        self.H, self.seed, self.I, self.ots, self.lms = H, seed, I, ots, lms
        self.n = int(H[1:])
        self.w = OTS_W[ots]
        self.h = LMS_H[lms]
        self.p = appendix_b(self.n, self.w)[3]
        self.nodes = {}

    def x(self, q, i):
        return Hf(self.H, self.I + u32(q) + u16(i) + b"\xff" + self.seed)

    def ots_pub(self, q):
        z = b""
        for i in range(self.p):
            tmp = self.x(q, i)
            for j in range(2 ** self.w - 1):
                tmp = Hf(self.H, self.I + u32(q) + u16(i) + u8(j) + tmp)
            z += tmp
        return Hf(self.H, self.I + u32(q) + D_PBLC + z)

    def T(self, r):
        if r in self.nodes:
            return self.nodes[r]
        if r >= 2 ** self.h:
            v = Hf(self.H, self.I + u32(r) + D_LEAF + self.ots_pub(r - 2 ** self.h))
        else:
            v = Hf(self.H, self.I + u32(r) + D_INTR + self.T(2 * r) + self.T(2 * r + 1))
        self.nodes[r] = v
        return v

    def pub(self):
        return u32(self.lms) + u32(self.ots) + self.I + self.T(1)

    def sign(self, q, msg, C, ls_of=None):
        Q = Hf(self.H, self.I + u32(q) + D_MESG + C + msg)
        ls = ls_of(self.n, self.w) if ls_of else None
        ds = digits(Q, self.n, self.w, ls)
        y = b""
        for i in range(self.p):
            tmp = self.x(q, i)
            for j in range(ds[i]):
                tmp = Hf(self.H, self.I + u32(q) + u16(i) + u8(j) + tmp)
            y += tmp
        r = 2 ** self.h + q
        path = b""
        for i in range(self.h):
            path += self.T((r >> i) ^ 1)
        return u32(q) + u32(self.ots) + C + y + u32(self.lms) + path


def keygen(H, params, seed):
    """params: [(ots type, lms type)], returns (private key blob, public key)"""
    blob = (0).to_bytes(8, "big") + bytes(((l << 4) | o) for o, l in params) + b"\xff" * (8 - len(params)) + seed
    s, i = root_seed_id(H, seed)
    t = Tree(H, s, i, params[0][0], params[0][1])
    return blob, u32(len(params)) + t.pub()


def sign(H, params, seed, counter, msg, ls_of=None):
    """the RFC 8554 HSS signature hash-sigs would produce for counter `counter`"""
    hs = [LMS_H[l] for _, l in params]
    qs = []
    c = counter
    for h in reversed(hs):
        qs.append(c % (1 << h))
        c >>= h
    qs.reverse()
    s, i = root_seed_id(H, seed)
    trees = [Tree(H, s, i, params[0][0], params[0][1])]
    out = u32(len(params) - 1)
    for lvl in range(1, len(params)):
        cs, ci = child_seed_id(H, trees[-1].seed, trees[-1].I, qs[lvl - 1])
        child = Tree(H, cs, ci, params[lvl][0], params[lvl][1])
        C = seed_derive(H, cs, ci, qs[lvl - 1], 0xfffd)
        out += trees[-1].sign(qs[lvl - 1], child.pub(), C, ls_of) + child.pub()
        trees.append(child)
    b = trees[-1]
    C = seed_derive(H, b.seed, b.I, qs[-1], 0xfffd)
    return out + b.sign(qs[-1], msg, C, ls_of)

#!/usr/bin/env python3
"""Line coverage of /repo/src under the inputs of the correspondence checks (a support tool, not a check).

  python3 tools/coverage.py [--tier quick] [C01 C02 ...]

Runs the selected checks (default: all 16, quick tier) against a harness built with `-C instrument-coverage` (nightly
toolchain, separate target directories `/verif/target/*-cov`), merges the raw profiles and writes
  /verif/coverage/REPORT.md   - per-file line coverage of the library and the list of library lines never executed
  /verif/coverage/summary.json
The evidence directory is saved before and restored afterwards: evidence is only ever written by un-instrumented runs.
Purpose: generator quality bounds what a differential tie can see - an unexecuted library line is a place where a
behavioural change would go unnoticed by the correspondence, so the list is used to extend the generators.
"""
import glob
import json
import os
import shutil
import subprocess
import sys

VERIF = os.path.dirname(os.path.dirname(os.path.abspath(__file__)))
PROF = os.path.join(VERIF, "target", "cov-prof")
OUT = os.path.join(VERIF, "coverage")
NIGHTLY_BIN = os.path.expanduser("~/.rustup/toolchains/nightly-x86_64-unknown-linux-gnu/lib/rustlib/x86_64-unknown-linux-gnu/bin")


def main():
    args = [a for a in sys.argv[1:]]
    tier = "quick"
    if "--tier" in args:
        i = args.index("--tier")
        tier = args[i + 1]
        del args[i:i + 2]
    pids = args or ["C%02d" % i for i in range(1, 17)]
    shutil.rmtree(PROF, ignore_errors=True)
    os.makedirs(PROF, exist_ok=True)
    os.makedirs(OUT, exist_ok=True)
    ev = os.path.join(VERIF, "evidence")
    bak = os.path.join(VERIF, "target", "evidence-backup")
    shutil.rmtree(bak, ignore_errors=True)
    shutil.copytree(ev, bak)
    env = dict(os.environ, HBS_VERIF_COV="1", LLVM_PROFILE_FILE=os.path.join(PROF, "run-%p-%m.profraw"))
    results = {}
    try:
        for pid in pids:
            p = subprocess.run([os.path.join(VERIF, "check"), pid, "--tier", tier], cwd=VERIF, env=env,
                               stdout=subprocess.PIPE, stderr=subprocess.STDOUT, text=True)
            results[pid] = p.returncode
            print(pid, "rc=%d" % p.returncode, flush=True)
    finally:
        shutil.rmtree(ev, ignore_errors=True)
        shutil.copytree(bak, ev)
        shutil.rmtree(bak, ignore_errors=True)
    raws = glob.glob(os.path.join(PROF, "run-*.profraw"))
    if not raws:
        print("no profiles written")
        return 2
    merged = os.path.join(PROF, "merged.profdata")
    subprocess.run([os.path.join(NIGHTLY_BIN, "llvm-profdata"), "merge", "-sparse", "-o", merged] + raws, check=True)
    bins = sorted(glob.glob(os.path.join(VERIF, "target", "*-cov", "release", "hbs-harness")))
    cmd = [os.path.join(NIGHTLY_BIN, "llvm-cov"), "export", "-format=lcov", "-instr-profile", merged, bins[0]]
    for b in bins[1:]:
        cmd += ["-object", b]
    lcov = subprocess.run(cmd, stdout=subprocess.PIPE, stderr=subprocess.DEVNULL, text=True).stdout
    # parse lcov: per file, DA:<line>,<count>; several objects may report the same file: take the max
    files = {}
    cur = None
    for line in lcov.splitlines():
        if line.startswith("SF:"):
            cur = line[3:]
            files.setdefault(cur, {})
        elif line.startswith("DA:") and cur:
            ln, cnt = line[3:].split(",")[:2]
            ln = int(ln)
            cnt = int(cnt)
            files[cur][ln] = max(files[cur].get(ln, 0), cnt)
    rows = []
    missed = {}
    for f, das in sorted(files.items()):
        if not f.startswith("/repo/src/") or f.endswith("verif_hooks.rs"):
            continue
        tot = len(das)
        hit = sum(1 for c in das.values() if c > 0)
        rows.append((f[len("/repo/"):], hit, tot))
        src = open(f).read().splitlines()
        miss = sorted(l for l, c in das.items() if c == 0)
        # drop lines inside #[cfg(test)] modules (the tail of the file after `mod tests`)
        cut = next((i + 1 for i, t in enumerate(src) if t.strip().startswith("mod tests") or t.strip() == "#[cfg(test)]"), None)
        if cut:
            miss = [l for l in miss if l < cut]
        if miss:
            missed[f[len("/repo/"):]] = [(l, src[l - 1].strip()[:110]) for l in miss]
    th = sum(r[1] for r in rows)
    tt = sum(r[2] for r in rows)
    with open(os.path.join(OUT, "REPORT.md"), "w") as o:
        o.write("# Library line coverage under the correspondence inputs (%s tier, checks: %s)\n\n" % (tier, " ".join(pids)))
        o.write("Produced by `tools/coverage.py` (instrumented harness, nightly llvm-cov); totals include `#[cfg(test)]` "
                "modules that the harness never compiles in, the missed-line list below excludes them.\n\n")
        o.write("| file | lines hit | lines | % |\n|---|---|---|---|\n")
        for f, h, t in rows:
            o.write("| %s | %d | %d | %.0f |\n" % (f, h, t, 100.0 * h / max(t, 1)))
        o.write("| **total** | %d | %d | %.1f |\n\n" % (th, tt, 100.0 * th / max(tt, 1)))
        o.write("## Library lines never executed\n\n")
        for f, ls in missed.items():
            o.write("### %s\n\n```\n" % f)
            for l, t in ls:
                o.write("%5d  %s\n" % (l, t))
            o.write("```\n\n")
    json.dump({"tier": tier, "checks": results, "files": {f: [h, t] for f, h, t in rows},
               "missed": {f: [l for l, _ in ls] for f, ls in missed.items()}},
              open(os.path.join(OUT, "summary.json"), "w"), indent=1)
    print("total %d/%d = %.1f%%" % (th, tt, 100.0 * th / max(tt, 1)))
    return 0


if __name__ == "__main__":
    sys.exit(main())

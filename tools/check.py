#!/usr/bin/env python3
"""./check <Cxx> [--tier quick|thorough] [--replay <file>]

Decision procedure of one property (DESIGN.md section 5):
  1. extract   /repo working tree -> lean/HbsLms/Generated/*.lean          (tie, part 1)
  2. prove     lake build HbsLms.Props.<Cxx> (+ driver), audit tokens/axioms (proof obligations)
  3. correspond  harness (real library, hooks on) vs Lean driver (Impl model) on generated cases,
               compared on the observables of the property                  (tie, part 2)
  4. oracle    the property's own oracle on the real library's answers
  5. decide    pass / KNOWN-FINDING / VIOLATION (with replay; `no-failing-input-found` if none)
"""
import importlib
import os
import re
import sys
import time
import traceback

sys.path.insert(0, os.path.dirname(os.path.abspath(__file__)))
from hbs import *  # noqa
import gen  # noqa

FORBIDDEN = re.compile(r"\b(sorry|admit|native_decide|bv_decide|implemented_by|unsafe)\b|^axiom\s|maxHeartbeats\s+0", re.M)
ALLOWED_AXIOMS = {"propext", "Classical.choice", "Quot.sound"}


class Ctx:
    """everything one check run needs"""

    def __init__(self, pid, tier, seed):
        self.pid = pid
        self.tier = tier
        self.seed = seed
        self.rng = Rng(seed)
        self.t0 = time.time()
        self.hz = None
        self.dv = None
        self.cfg = None
        self.evaluations = 0
        self.classes = {}
        self.samples = []
        self.disagreements = []     # (request, rust, lean)
        self.oracle_failures = []   # dicts: what, request(s), observed, expected
        self.known_hits = []
        self.obligations = []
        self.proof_failures = []
        self.tie_failures = []
        self.notes = []
        self.axioms = {}
        self.extra = {}

    # ---- executors
    def open(self, cfg=None, features=None, need_driver=True):
        self.close()
        ok, path = build_harness(cfg, features)
        if not ok:
            self.tie_failures.append("harness build failed for configuration %s:\n%s" % (cfg, path[-2500:]))
            return False
        self.hz = harness(path)
        self.cfg = cfg
        if need_driver:
            argv = [driver_path()]
            if cfg:
                argv += [cfg.get("HBS_LMS_MAX_ALLOWED_HSS_LEVELS", "8"),
                         cfg.get("HBS_LMS_TREE_HEIGHTS", "25, 25, 25, 25, 25, 25, 25, 25").replace(" ", ""),
                         cfg.get("HBS_LMS_WINTERNITZ_PARAMETERS", "1, 1, 1, 1, 1, 1, 1, 1").replace(" ", "")]
            self.dv = Pool(argv, 16, name="lean-driver")
        return True

    def close(self):
        for e in (self.hz, self.dv):
            if e:
                e.close()
        self.hz = self.dv = None

    def both(self, cases, proj=None, model=True):
        """run cases on the real library and on the model; compare (projected) answers.
        returns list of (case, rust_answer, lean_answer)"""
        lines = [c.line for c in cases]
        t = time.time()
        r = self.hz.batch(lines)
        tr = time.time() - t
        t = time.time()
        l = self.dv.batch(lines) if model and self.dv else [None] * len(lines)
        tl = time.time() - t
        self.extra["rust_s"] = self.extra.get("rust_s", 0) + tr
        self.extra["lean_s"] = self.extra.get("lean_s", 0) + tl
        out = []
        for c, a, b in zip(cases, r, l):
            self.evaluations += 1
            a = canon(a)
            key = (c.cls, a.split(" ")[0].split("@")[0])
            self.classes[key] = self.classes.get(key, 0) + 1
            if len(self.samples) < 6 and len(c.line) < 700:
                self.samples.append({"request": c.line, "class": c.cls, "library": a[:200]})
            if b is not None:
                b = canon(b)
                pa = proj(c, a) if proj else strip_site(a)
                pb = proj(c, b) if proj else strip_site(b)
                if pa != pb:
                    self.disagreements.append({"request": c.line, "class": c.cls, "library": a, "model": b,
                                               "library_observable": pa, "model_observable": pb})
            out.append((c, a, b))
        return out

    def fail(self, what, requests, observed, expected):
        self.oracle_failures.append({"what": what, "requests": requests, "observed": observed, "expected": expected})


def canon(s):
    s = s.strip()
    s = re.sub(r" fast_verify=\d", "", s)
    return s


def strip_site(s):
    return re.sub(r"panic@\S*.*", "panic", s)


def fields(ans):
    return dict(t.split("=", 1) for t in ans.split()[1:] if "=" in t)


def cls_of(ans):
    return ans.split(" ")[0].split("@")[0]


# ------------------------------------------------------------------------------------------------
# steps 1 + 2

def step_extract(ctx):
    rc, out, _ = run([sys.executable, os.path.join(VERIF, "tools", "extract.py")])
    ctx.notes.append(out.strip())
    if rc != 0:
        ctx.tie_failures.append("extractor: " + out.strip())
        return False
    # advisory anchor map: which source files differ (whitespace/comment-insensitive digest) from the tree the model was
    # last reviewed against; drift is not an alarm by itself, it is recorded so that a reader knows what the tie had to absorb
    try:
        meta = json.load(open(os.path.join(LEAN, "HbsLms", "Generated", "meta.json")))
        base = json.load(open(os.path.join(VERIF, "tools", "anchors_baseline.json")))
        drift = sorted(f for f in set(meta["anchor_digests"]) | set(base) if meta["anchor_digests"].get(f) != base.get(f))
        ctx.extra["source_files_changed_since_model_review"] = drift
    except Exception as ex:  # noqa
        ctx.notes.append("anchor map unavailable: %s" % ex)
    return True


def lean_sources_of(module):
    """transitive HbsLms.* imports of a module (source files)"""
    seen = []
    todo = [module]
    while todo:
        m = todo.pop()
        if m in seen:
            continue
        p = os.path.join(LEAN, *m.split(".")) + ".lean"
        if not os.path.exists(p):
            continue
        seen.append(m)
        for imp in re.findall(r"^import\s+(HbsLms\.\S+)", open(p).read(), re.M):
            todo.append(imp)
    return seen


def step_prove(ctx, thorough):
    mod = "HbsLms.Props." + ctx.pid
    targets = ["hbsdriver"]
    have_props = os.path.exists(os.path.join(LEAN, "HbsLms", "Props", ctx.pid + ".lean"))
    if have_props:
        targets.append(mod)
    rc, out, dt = run(["lake", "build"] + targets, cwd=LEAN)
    ctx.extra["lake_build_s"] = round(dt, 1)
    if rc != 0:
        errs = [l for l in out.splitlines() if "error" in l][:12]
        ctx.proof_failures.append({"module": mod, "errors": errs, "log_tail": out[-3000:]})
        # is at least the driver there?
        rc2, out2, _ = run(["lake", "build", "hbsdriver"], cwd=LEAN)
        if rc2 != 0:
            ctx.tie_failures.append("Lean driver does not build: " + out2[-1500:])
        return False
    if not have_props:
        return True
    # obligations: theorems of the property module and of the lemma/verdict modules it imports
    mods = lean_sources_of(mod)
    # companion modules Props/<pid><Suffix>.lean (e.g. C07Rfc) belong to the same property
    import glob as _glob
    for extra in sorted(_glob.glob(os.path.join(LEAN, "HbsLms", "Props", ctx.pid + "?*.lean"))):
        em = "HbsLms.Props." + os.path.basename(extra)[:-5]
        rc_e, out_e, _ = run(["lake", "build", em], cwd=LEAN)
        if rc_e != 0:
            ctx.proof_failures.append({"module": em, "errors": [l for l in out_e.splitlines() if "error" in l][:8]})
        for m2 in lean_sources_of(em):
            if m2 not in mods:
                mods.append(m2)
    thms = []
    for m in mods:
        src = open(os.path.join(LEAN, *m.split(".")) + ".lean").read()
        src_nc = re.sub(r"/-.*?-/", "", src, flags=re.S)
        src_nc = re.sub(r"--[^\n]*", "", src_nc)
        bad = FORBIDDEN.search(src_nc)
        if bad:
            ctx.proof_failures.append({"module": m, "errors": ["forbidden token: " + bad.group(0).strip()]})
        for t in re.findall(r"^(?:@\[[^\]]*\]\s*)?(?:private\s+|protected\s+)?(?:theorem|lemma)\s+(\S+)", src_nc, re.M):
            thms.append(m + ":" + t)
    ctx.obligations = thms
    # axioms: the Props modules print them at build time; re-run lean on each to capture the output
    prop_files = [os.path.join(LEAN, "HbsLms", "Props", ctx.pid + ".lean")] + \
        sorted(_glob.glob(os.path.join(LEAN, "HbsLms", "Props", ctx.pid + "?*.lean")))
    for pf in prop_files:
        pmod = "HbsLms.Props." + os.path.basename(pf)[:-5]
        rc, out, _ = run(["lake", "env", "lean", pf], cwd=LEAN)
        for m in re.finditer(r"'([^']+)' (depends on axioms: \[([^\]]*)\]|does not depend on any axioms)", out.replace("\n", " ")):
            ax = [a.strip() for a in (m.group(3) or "").split(",") if a.strip()]
            ctx.axioms[m.group(1)] = ax
            extra = set(ax) - ALLOWED_AXIOMS
            if extra:
                ctx.proof_failures.append({"module": pmod, "errors": ["theorem %s depends on axioms %s" % (m.group(1), sorted(extra))]})
    if thorough:
        t0 = time.time()
        worst = 0
        for pf in prop_files:
            pmod = "HbsLms.Props." + os.path.basename(pf)[:-5]
            rc, out, dt = run(["lake", "env", "leanchecker", pmod], cwd=LEAN)
            worst = max(worst, rc)
            if rc != 0:
                ctx.proof_failures.append({"module": pmod, "errors": ["leanchecker rejected the module: " + out[-500:]]})
        ctx.extra["leanchecker_s"] = round(time.time() - t0, 1)
        ctx.extra["leanchecker_rc"] = worst
        ctx.extra["leanchecker_modules"] = [os.path.basename(pf)[:-5] for pf in prop_files]
    return not ctx.proof_failures


# ------------------------------------------------------------------------------------------------
# decision + evidence

def load_known():
    p = os.path.join(VERIF, "known_findings.json")
    return [f for f in json.load(open(p))["findings"]]


def decide(ctx, prop):
    known = [f for f in load_known() if f["property"] == ctx.pid and f["status"] == "known"]
    unmatched = []
    for f in ctx.oracle_failures:
        k = prop.match_known(f, known) if hasattr(prop, "match_known") else None
        if k:
            if k["id"] not in [h["id"] for h in ctx.known_hits]:
                ctx.known_hits.append({"id": k["id"], "what": k["what"], "example": f})
        else:
            unmatched.append(f)
    for h in ctx.known_hits:
        print("KNOWN-FINDING: property=%s %s: %s" % (ctx.pid, h["id"], h["what"]))
    broken = bool(ctx.proof_failures or ctx.tie_failures or ctx.disagreements)
    violations = 0
    replay = None
    if unmatched:
        violations = len(unmatched)
        replay = write_replay(ctx, {"kind": "failing-input", "failures": unmatched[:5],
                                    "disagreements": ctx.disagreements[:5],
                                    "proof_failures": ctx.proof_failures, "tie_failures": ctx.tie_failures})
        print("VIOLATION property=%s replay=%s" % (ctx.pid, replay))
    elif broken:
        violations = 1
        replay = write_replay(ctx, {"kind": "no-failing-input-found",
                                    "proof_failures": ctx.proof_failures, "tie_failures": ctx.tie_failures,
                                    "disagreements": ctx.disagreements[:10],
                                    "note": "a proof obligation or the model/implementation correspondence no longer checks; "
                                            "the property's oracle found no concrete failing input on the real library"})
        what = []
        if ctx.proof_failures:
            what.append("proof: " + "; ".join(str(p.get("errors", ""))[:200] for p in ctx.proof_failures[:2]))
        if ctx.tie_failures:
            what.append("tie: " + ctx.tie_failures[0][:200].replace("\n", " "))
        if ctx.disagreements:
            d = ctx.disagreements[0]
            what.append("correspondence: %d disagreement(s), first on `%s`" % (len(ctx.disagreements), d["request"][:120]))
        log("broken obligation(s): " + " | ".join(what))
        print("VIOLATION property=%s replay=%s no-failing-input-found" % (ctx.pid, replay))
    write_evidence(ctx, prop, violations)
    return 1 if violations else 0


def write_replay(ctx, body):
    body.update({"property": ctx.pid, "seed": ctx.seed, "tier": ctx.tier, "build_configuration": ctx.cfg or "default",
                 "how_to_replay": "./check %s --replay <this file>  (re-runs the recorded requests against the library built from /repo's working tree)" % ctx.pid})
    h = hashlib.sha256(json.dumps(body, sort_keys=True, default=str).encode()).hexdigest()[:12]
    p = os.path.join(VERIF, "replays", "%s-%s.json" % (ctx.pid, h))
    write_json(p, body)
    return p


def write_evidence(ctx, prop, violations):
    nontrivial = sorted("%s/%s" % k for k in ctx.classes)
    n_obl = len(ctx.obligations)
    cov = {
        "obligations": n_obl,
        "discharged": n_obl if not ctx.proof_failures else 0,
        "checker_cmd": "cd /verif/lean && lake build HbsLms.Props.%s%s  (Lean 4 kernel); axioms audited per theorem" % (
            ctx.pid, " && lake env leanchecker HbsLms.Props.%s" % ctx.pid if ctx.tier == "thorough" else ""),
        "trusted_base": [
            "Lean 4.33.0 kernel" + (" + leanchecker re-check" if ctx.tier == "thorough" else ""),
            "axioms used: " + ", ".join(sorted({a for v in ctx.axioms.values() for a in v})) if ctx.axioms else "axioms: none reported",
            "hand-written Impl model (lean/HbsLms/Impl), tied to /repo by tools/extract.py (tables/constants regenerated this run) and by the correspondence run below",
            "Rust harness (/verif/harness) + line protocol + tools/check.py",
            "SHA-256 / SHAKE256: every theorem is for an arbitrary hash function; the executable instances are only compared differentially",
        ],
        "theorems": ctx.obligations[:400],
        "axioms_per_theorem": ctx.axioms,
        "evaluations": ctx.evaluations,
        "distinct_nontrivial": len(nontrivial),
        "rule": getattr(prop, "RULE", "") + " | distinct_nontrivial counts distinct (generator class, library outcome class) pairs observed in this run",
        "classes": {"%s/%s" % k: v for k, v in sorted(ctx.classes.items())},
        "samples": ctx.samples[:6] or [{"note": "no correspondence case was run"}],
        "traces_validated_against_impl": ctx.evaluations,
        "disagreements": len(ctx.disagreements),
        "known_findings_reproduced": [h["id"] for h in ctx.known_hits],
        "proof_failures": ctx.proof_failures,
        "tie_failures": ctx.tie_failures,
        "notes": ctx.notes,
        "timing": ctx.extra,
    }
    if n_obl == 0:
        # no property module yet: the proof-level keys would be vacuous, the exploration-style keys carry the evidence
        del cov["obligations"]
        del cov["discharged"]
        cov["note_no_theorems"] = "no Props module exists for this property yet; this run is correspondence + oracle only"
    ev = {
        "property_id": ctx.pid,
        "tier": ctx.tier,
        "seed": ctx.seed,
        "level": "proof",
        "coverage": cov,
        "assumptions": getattr(prop, "ASSUMPTIONS", []),
        "wall_s": round(time.time() - ctx.t0, 1),
        "violations": violations,
    }
    write_json(os.path.join(VERIF, "evidence", ctx.pid + ".json"), ev)


def replay(pid, path):
    body = json.load(open(path))
    ok, hp = build_harness(body.get("build_configuration") if isinstance(body.get("build_configuration"), dict) else None)
    if not ok:
        print("harness build failed:\n" + hp[-2000:])
        return 2
    hz = harness(hp)
    reqs = []
    for f in body.get("failures", []):
        reqs += f.get("requests", [])
    for d in body.get("disagreements", []):
        reqs.append(d["request"])
    for r in reqs:
        print(">", r[:400])
        print("<", hz.batch([r])[0][:400])
    return 0


def main():
    args = sys.argv[1:]
    if not args:
        print(__doc__)
        return 2
    pid = args[0]
    tier = os.environ.get("VERIF_TIER", "quick")
    seed = int(os.environ.get("VERIF_SEED", "20260923"))
    rp = None
    i = 1
    while i < len(args):
        if args[i] == "--tier":
            tier = args[i + 1]
            i += 2
        elif args[i] == "--replay":
            rp = args[i + 1]
            i += 2
        elif args[i] == "--seed":
            seed = int(args[i + 1])
            i += 2
        else:
            i += 1
    if rp:
        return replay(pid, rp)
    prop = importlib.import_module("props." + pid)
    ctx = Ctx(pid, tier, seed)
    try:
        ok_extract = step_extract(ctx)
        if ok_extract:
            step_prove(ctx, tier == "thorough")
        try:
            prop.run(ctx)
        except Exception as ex:  # a crash of the executors is a broken tie, not a pass
            ctx.tie_failures.append("correspondence run aborted: %s\n%s" % (ex, traceback.format_exc()[-1500:]))
    finally:
        ctx.close()
    # search step (DESIGN section 5): an obligation or the tie broke but the property's oracle has not yet exhibited a failing
    # input on the real code -> look further with fresh seeds before reporting `no-failing-input-found`
    if (ctx.proof_failures or ctx.tie_failures or ctx.disagreements) and not ctx.oracle_failures:
        searched = []
        for extra_seed in (seed + 1, seed + 2, seed + 3):
            if time.time() - ctx.t0 > 900:
                break
            sctx = Ctx(pid, tier, extra_seed)
            try:
                prop.run(sctx)
            except Exception as ex:  # noqa
                searched.append({"seed": extra_seed, "aborted": str(ex)[:200]})
                continue
            finally:
                sctx.close()
            searched.append({"seed": extra_seed, "evaluations": sctx.evaluations, "oracle_failures": len(sctx.oracle_failures)})
            ctx.evaluations += sctx.evaluations
            if sctx.oracle_failures:
                ctx.oracle_failures += sctx.oracle_failures
                break
        ctx.extra["search_for_failing_input"] = searched
    return decide(ctx, prop)


if __name__ == "__main__":
    sys.exit(main())

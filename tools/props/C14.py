"""C14: build-time limits only restrict what is accepted, never how accepted keys behave."""
from .common import *

RULE = ("the harness (and the library under it) is rebuilt under several build configurations (level count, per-level maximum heights, per-level minimum Winternitz "
        "parameters); for parameter lists inside the limits keygen / sign / verify / lifetime must give the same bytes as the default build and the key must be fully usable; "
        "lists just outside each limit must be refused with an error; the generated constants must equal the model's Config capacities; default-build signatures of keys beyond each configuration (more levels, smaller W, taller trees) verified by the constrained build; keygen / sign with an all-levels buffer inside each configuration")
ASSUMPTIONS = ["configurations are chosen so that trees stay affordable (heights 5/10 as maxima, lists use H2/H5)",
               "the default build is the reference for 'same bytes'"]

CONFIGS_QUICK = [
    # per-level limits deliberately neither ascending nor descending in step: a build that mixes up which limit belongs to which level shows
    {"HBS_LMS_MAX_ALLOWED_HSS_LEVELS": "3", "HBS_LMS_TREE_HEIGHTS": "10, 5, 15", "HBS_LMS_WINTERNITZ_PARAMETERS": "2, 8, 4"},
    # the smallest build: one level, the top tree has the maximum height of the build (single-level fast paths, aux level = MAX_TREE_HEIGHT)
    {"HBS_LMS_MAX_ALLOWED_HSS_LEVELS": "1", "HBS_LMS_TREE_HEIGHTS": "5", "HBS_LMS_WINTERNITZ_PARAMETERS": "4"},
    # the last level permits a longer LMS signature than level 0 (capacities derived from the wrong level show here)
    {"HBS_LMS_MAX_ALLOWED_HSS_LEVELS": "2", "HBS_LMS_TREE_HEIGHTS": "5, 10", "HBS_LMS_WINTERNITZ_PARAMETERS": "8, 4"},
]
CONFIGS_THOROUGH = CONFIGS_QUICK + [
    {"HBS_LMS_MAX_ALLOWED_HSS_LEVELS": "2", "HBS_LMS_TREE_HEIGHTS": "5, 10", "HBS_LMS_WINTERNITZ_PARAMETERS": "2, 4"},
    {"HBS_LMS_MAX_ALLOWED_HSS_LEVELS": "8", "HBS_LMS_TREE_HEIGHTS": "5, 5, 5, 5, 5, 5, 5, 5", "HBS_LMS_WINTERNITZ_PARAMETERS": "8, 8, 8, 8, 8, 8, 8, 8"},
    {"HBS_LMS_MAX_ALLOWED_HSS_LEVELS": "4", "HBS_LMS_TREE_HEIGHTS": "5, 5, 25, 5", "HBS_LMS_WINTERNITZ_PARAMETERS": "1, 2, 4, 4"},
]
W_OF = {1: 1, 2: 2, 3: 4, 4: 8}


def lists_for(cfg, rng):
    L = int(cfg["HBS_LMS_MAX_ALLOWED_HSS_LEVELS"])
    hs = [int(x) for x in cfg["HBS_LMS_TREE_HEIGHTS"].split(", ")]
    ws = [int(x) for x in cfg["HBS_LMS_WINTERNITZ_PARAMETERS"].split(", ")]
    inside, outside = [], []
    for l in range(1, L + 1):
        for _ in range(3):
            ps = []
            for i in range(l):
                ots = rng.choice([o for o in (1, 2, 3, 4) if W_OF[o] >= ws[i]])
                lms = rng.choice([t for t in (1, 5) if LMS_H[t] <= hs[i]])
                ps.append((ots, lms))
            inside.append(ps)
    base = inside[-1]
    if L < 8:
        outside.append(("levels", base + [(4, 1)]))
    for i in range(L):
        if ws[i] > 1:
            too_small = max(o for o in (1, 2, 3, 4) if W_OF[o] < ws[i])
            outside.append(("winternitz", [(too_small if j == i else base[j][0], base[j][1]) for j in range(L)]))
        if hs[i] < 25:
            taller = min(t for t in (5, 6, 7, 8, 9) if LMS_H[t] > hs[i])
            outside.append(("height", [(base[j][0], taller if j == i else base[j][1]) for j in range(L)]))
    return inside, outside


def run(ctx):
    rng = ctx.rng
    configs = CONFIGS_QUICK if ctx.tier == "quick" else CONFIGS_THOROUGH
    plan = []
    for cfg in configs:
        inside, outside = lists_for(cfg, rng)
        plan.append((cfg, [(ALL_H[i % 6], ps, rng.bytes_(HASHES[ALL_H[i % 6]])) for i, ps in enumerate(inside)],
                     [(ALL_H[i % 6], why, ps, rng.bytes_(HASHES[ALL_H[i % 6]])) for i, (why, ps) in enumerate(outside)]))
    # reference answers from the default build
    if not ctx.open():
        return
    ref = {}
    for cfg, inside, outside in plan:
        cases = []
        for (H, ps, seed) in inside:
            cases.append(Case(keygen_line(H, ps, seed), "default/keygen"))
            for c in (0, (1 << sum(heights_of(ps))) - 1):
                cases.append(Case(sign_line(H, sk_blob(H, ps, seed, c), b"cfg-msg"), "default/sign"))
                cases.append(Case(lifetime_line(H, sk_blob(H, ps, seed, c)), "default/lifetime"))
        for c, a, b in ctx.both(cases, None):
            ref[c.line] = a
            if not a.startswith("ok"):
                ctx.fail("default build refuses a supported parameter list", [c.line], a[:100], "ok")
        # signatures of keys beyond this configuration's limits, made by the default build: the constrained verifier must answer them
        fcases = []
        for (H, why, ps, seed) in outside:
            if max(heights_of(ps)) <= 10:
                fcases.append(Case(keygen_line(H, ps, seed), "default/keygen-beyond"))
                fcases.append(Case(sign_line(H, sk_blob(H, ps, seed, 1), b"foreign"), "default/sign-beyond"))
        for c, a, b in ctx.both(fcases, None):
            ref[c.line] = a
    for cfg, inside, outside in plan:
        if not ctx.open(cfg):
            continue
        r = ctx.both([Case("consts", "consts")], None)
        cases = []
        for (H, ps, seed) in inside:
            cases.append(Case(keygen_line(H, ps, seed), "inside/keygen"))
            for c in (0, (1 << sum(heights_of(ps))) - 1):
                cases.append(Case(sign_line(H, sk_blob(H, ps, seed, c), b"cfg-msg"), "inside/sign", {"vk": (H, ps, seed)}))
                cases.append(Case(lifetime_line(H, sk_blob(H, ps, seed, c)), "inside/lifetime"))
        # ... and with an auxiliary buffer that caches every level of the top tree (in a constrained build the top tree can be as tall as
        # MAX_TREE_HEIGHT): same key pair and signature as the default build produces without a buffer
        acases = []
        for (H, ps, seed) in inside:
            n = HASHES[H]
            h0 = heights_of(ps)[0]
            big = bytes(4 + n + sum(n << l for l in range(1, h0 + 1)) + 64)
            acases.append(Case(keygen_line(H, ps, seed, big), "inside/keygen-with-aux", {"ref": keygen_line(H, ps, seed)}))
            acases.append(Case(sign_line(H, sk_blob(H, ps, seed, 0), b"cfg-msg", "accept", big), "inside/sign-with-aux", {"ref": sign_line(H, sk_blob(H, ps, seed, 0), b"cfg-msg")}))
        for c, a, b in ctx.both(acases, None):
            fa, fr = (fields(a) if not a.startswith("panic") else {}), fields(ref[c.meta["ref"]])
            if a.startswith("panic") or fa.get("vk") != fr.get("vk") or fa.get("sig") != fr.get("sig") or fa.get("cb") != fr.get("cb"):
                ctx.fail("constrained build %s answers differently from the default build for a list inside its limits (with an auxiliary buffer)" % json.dumps(cfg),
                         [c.line[:300]], a[:200], ref[c.meta["ref"]][:200])
        ver = []
        for c, a, b in ctx.both(cases, None):
            if a != ref[c.line]:
                ctx.fail("constrained build %s answers differently from the default build for a list inside its limits" % json.dumps(cfg), [c.line], a[:200], ref[c.line][:200])
            elif c.cls == "inside/sign" and a.startswith("ok"):
                H, ps, seed = c.meta["vk"]
                vk = fields(ref[keygen_line(H, ps, seed)])["vk"]
                for e in ("fn", "sig", "vsig"):
                    ver.append(Case(verify_line(H, b"cfg-msg", unhx(fields(a)["sig"]), unhx(vk), e), "inside/verify"))
        for c, a, b in ctx.both(ver, None):
            if a != "ok":
                ctx.fail("constrained build cannot verify a signature of a key inside its limits", [c.line[:300]], a, "ok")
        cases = []
        for (H, why, ps, seed) in outside:
            cases.append(Case(keygen_line(H, ps, seed), "outside/%s/keygen" % why))
            cases.append(Case(sign_line(H, sk_blob(H, ps, seed, 0), b"m"), "outside/%s/sign" % why))
            cases.append(Case(lifetime_line(H, sk_blob(H, ps, seed, 0)), "outside/%s/lifetime" % why))
        for c, a, b in ctx.both(cases, None):
            if not a.startswith("err") or ("cb=" in a and "cb=none" not in a):
                ctx.fail("a parameter list beyond the configured limits was not refused with an error", [c.line, json.dumps(cfg)], a[:200], "err")
        ver = []
        for (H, why, ps, seed) in outside:
            kg, sg = ref.get(keygen_line(H, ps, seed), ""), ref.get(sign_line(H, sk_blob(H, ps, seed, 1), b"foreign"), "")
            if kg.startswith("ok") and sg.startswith("ok"):
                for e in ("fn", "sig", "vsig"):
                    ver.append(Case(verify_line(H, b"foreign", unhx(fields(sg)["sig"]), unhx(fields(kg)["vk"]), e), "outside/%s/verify-foreign-signature" % why))
        for c, a, b in ctx.both(ver, None):
            if a not in ("ok", "err"):
                ctx.fail("a signature of a key beyond the configured limits was not answered with ok or an error", [c.line[:400], json.dumps(cfg)], a[:200], "ok or err")
    ctx.extra["configurations"] = [c for c, _, _ in plan]

"""C03: no one-time key signs two different contents, over any signing history."""
from .common import *

RULE = ("random histories over complete lifetimes of 1..4-level keys (uniform and mixed heights, H2 hook height and H5): steps are "
        "sign/accept, sign/reject, sign with malformed key, retry with another message, in-memory try_sign, lifetime query; the harness-side "
        "ghost set records (level, tree identifier, leaf) -> content for every released signature; a history is non-trivial when it contains at least "
        "one rejected or failed step between two released signatures; child-tree derivation (hook) for parent leaves over the whole 25-bit range incl. 255..257, 65535..65537, 2^20, 2^24, 2^25-1: equals the hash-sigs derivation and is pairwise distinct; a signature released on a rejected callback counts as a reuse")
ASSUMPTIONS = ["tree identifiers are compared as bytes (the observable form of the property)",
               "each history step is one stateless call; the 'persisted key' is carried by the orchestrator exactly as a caller would"]


def content_id(b):
    return hashlib.sha256(b).hexdigest()[:16]


class Hist:
    def __init__(self, key, rng, idx):
        self.k = key
        self.cur = key.sk          # most recently persisted private key
        self.released = 0
        self.ghost = {}            # (level, I, q) -> content id
        self.rng = rng
        self.idx = idx
        self.steps = 0
        self.failed_between = 0
        self.done = False
        self.wiped_seen = False
        self.pending = None
        self.after_wipe_steps = 0


def run(ctx):
    if not ctx.open():
        return
    rng = ctx.rng
    # W2/W4 trees are 10-20x cheaper than W8 ones; one W8 and one W1 level are kept for coverage
    shapes = [[(3, 1)], [(2, 1), (3, 1)], [(3, 1), (2, 1), (3, 1)], [(2, 1), (4, 1)], [(3, 1), (2, 1), (3, 1), (2, 1)], [(2, 5)], [(3, 1), (2, 5)],
              [(1, 1), (3, 1)], [(3, 1), (3, 1)], [(2, 1), (2, 1), (2, 1)], [(3, 5), (2, 1)], [(2, 1)], [(3, 1), (3, 1), (2, 1)], [(2, 1), (3, 1)]]
    if ctx.tier == "thorough":
        shapes += [[(3, 5), (4, 1)], [(1, 1), (2, 1), (3, 1)], [(3, 5), (3, 5)], [(4, 1)] * 4, [(3, 1)] * 5, [(4, 1), (4, 1)]]
    specs = []
    for i, ps in enumerate(shapes):
        H = ALL_H[i % 6]
        specs.append((H, ps, rng.bytes_(HASHES[H])))
    keys = make_keys(ctx, specs, proj_class)
    hists = [Hist(k, rng, i) for i, k in enumerate(keys)]
    max_steps = getattr(ctx, "max_steps_override", None) or (100 if ctx.tier == "quick" else 1600)
    nontrivial = 0
    while any(not h.done for h in hists):
        cases = []
        for h in hists:
            if h.done:
                continue
            k = h.k
            r = rng.random()
            full = ctx.tier == "thorough" or k.lifetime <= 64
            if not full and h.steps > 40 and not h.wiped_seen and h.released < k.lifetime - 3:
                # jump close to the end of the lifetime (the blob is the same bytes a long history would have produced:
                # established by the counter checks of every step before)
                h.cur = k.blob(k.lifetime - 3)
                h.released = k.lifetime - 3
            if r < 0.55:
                op = ("sign", "accept")
            elif r < 0.68:
                op = ("sign", "reject")
            elif r < 0.78:
                op = ("trysign", None)
            elif r < 0.86:
                op = ("bad", None)
            else:
                op = ("lifetime", None)
            msg = rng.bytes_(rng.choice([0, 1, 33, 100]))
            if op[0] == "sign":
                line = sign_line(k.H, h.cur, msg, op[1])
            elif op[0] == "trysign":
                line = trysign_line(k.H, h.cur, msg)
            elif op[0] == "bad":
                bad = rng.choice([h.cur[:-1], h.cur + b"\0", h.cur[:8] + b"\x07" + h.cur[9:], b""])
                line = sign_line(k.H, bad, msg, "accept")
            else:
                line = lifetime_line(k.H, h.cur)
            cases.append(Case(line, "history/" + op[0] + ("/" + op[1] if op[1] else ""), {"h": h, "op": op, "msg": msg}))
        for c, a, b in ctx.both(cases, proj_hist):
            h, op, msg = c.meta["h"], c.meta["op"], c.meta["msg"]
            k = h.k
            h.steps += 1
            exhausted = h.released >= k.lifetime
            new_sig = None
            if op[0] == "sign":
                f = fields(a)
                if a.startswith("ok"):
                    new_sig = unhx(f["sig"])
                    newkey = unhx(f["cb"])
                elif op[1] == "accept" and not exhausted and not a.startswith("panic"):
                    ctx.fail("sign failed inside the key's lifetime", [c.line], a[:200], "ok")
                else:
                    h.failed_between += 1
            elif op[0] == "trysign":
                f = fields(a)
                if a.startswith("ok"):
                    new_sig = unhx(f["sig"])
                    newkey = unhx(f["sk"])
                elif not exhausted and not a.startswith("panic"):
                    ctx.fail("try_sign failed inside the key's lifetime", [c.line], a[:200], "ok")
            elif op[0] == "bad":
                h.failed_between += 1
                if a.startswith("ok"):
                    ctx.fail("a malformed key produced a signature", [c.line], a[:100], "err")
            elif op[0] == "lifetime":
                exp = "err" if exhausted else "ok %d" % (k.lifetime - h.released)
                if a != exp and not a.startswith("panic"):
                    ctx.fail("reported remaining lifetime is not (number of leaves - released signatures)", [keygen_line(k.H, k.params, k.seed), c.line], a, exp)
            if new_sig is not None:
                if exhausted:
                    ctx.fail("a signature was released after the key was exhausted", [c.line], a[:120], "err")
                n = k.n
                try:
                    nspk, lv = parse_hss_sig(n, new_sig)
                except ValueError as e:
                    ctx.fail("released signature is not parseable", [c.line], str(e), "RFC 8554 layout")
                    continue
                # leaf indices are the mixed-radix digits of (number of signatures released before)
                qs = [l["q"] for l in lv]
                if qs != mixed_radix(k.heights, h.released):
                    ctx.fail("leaf indices of the n-th released signature are not the mixed-radix digits of n-1",
                             [keygen_line(k.H, k.params, k.seed), c.line], str(qs), str(mixed_radix(k.heights, h.released)))
                ids = [k.vk[12:28]] + [l["child_pk"][8:24] for l in lv[:-1]]
                for level, l in enumerate(lv):
                    content = l.get("child_pk", None)
                    if content is None:
                        content = msg
                    key3 = (level, ids[level], l["q"])
                    cid = content_id(content)
                    if key3 in h.ghost and h.ghost[key3] != cid:
                        ctx.fail("one-time key (level, tree identifier, leaf) signed two different contents",
                                 [keygen_line(k.H, k.params, k.seed), c.line], "level %d I=%s q=%d" % (level, ids[level].hex(), l["q"]), "each LM-OTS key signs one content")
                    h.ghost[key3] = cid
                if op[0] == "sign" and op[1] == "reject":
                    # the caller refused to persist the successor: its stored key is unchanged, so the history goes on from h.cur; the
                    # released signature stays in the ghost set, and the next signature from the stored key shows the reuse
                    ctx.fail("one-time key (level, tree identifier, leaf) signed two different contents: a signature was released although "
                             "the successor key was not persisted (the stored key will sign with the same leaves again)",
                             [keygen_line(k.H, k.params, k.seed), c.line], a[:160], "err: nothing released")
                    continue
                # successor key differs only in the counter, +1 (or is the wiped key at the end)
                if h.released + 1 >= k.lifetime:
                    exp_key = bytes(8) + b"\xff" * 8 + bytes(k.n)
                else:
                    exp_key = k.blob(h.released + 1)
                if newkey != exp_key:
                    ctx.fail("successor private key is not counter+1 / wiped", [c.line], newkey.hex(), exp_key.hex())
                if h.failed_between:
                    nontrivial += 1
                h.failed_between = 0
                h.released += 1
                h.cur = newkey
                if h.released >= k.lifetime:
                    h.wiped_seen = True
            if h.wiped_seen:
                h.after_wipe_steps += 1
            if h.steps >= max_steps or h.after_wipe_steps > 6:
                h.done = True
    # child trees of one parent: distinct leaves must yield distinct (seed, tree identifier) - checked for leaf indices across the
    # whole 25-bit range (tall parents cannot be walked leaf by leaf in a history), against the independent derivation
    import rfc8554 as R
    qs = [0, 1, 5, 255, 256, 257, 65535, 65536, 65537, 65541, 131077, 2 ** 20 - 1, 2 ** 20 + 5, 2 ** 24 + 5, 2 ** 25 - 1] + \
        [rng.randrange(2 ** 25) for _ in range(6 if ctx.tier == "quick" else 60)]
    dcases = []
    for i, H in enumerate(ALL_H):
        sd, idn = rng.bytes_(HASHES[H]), rng.bytes_(16)
        for q in qs:
            dcases.append(Case("child H=%s seed=%s id=%s q=%d" % (H, sd.hex(), idn.hex(), q), "derive/child-of-leaf", {"x": (H, sd, idn, q)}))
    seen = {}
    for c, a, b in ctx.both(dcases, None):
        H, sd, idn, q = c.meta["x"]
        es, ei = R.child_seed_id(H, sd, idn, q)
        exp = "ok seed=%s id=%s" % (es.hex(), ei.hex())
        if a != exp:
            ctx.fail("child tree derivation differs from the hash-sigs derivation", [c.line], a, exp)
        prev = seen.get((H, sd, a))
        if prev is not None and prev != q:
            ctx.fail("one-time key (level, tree identifier, leaf) signed two different contents: two parent leaves derive the same child tree",
                     [c.line, "child H=%s seed=%s id=%s q=%d" % (H, sd.hex(), idn.hex(), prev)], "leaves %d and %d -> %s" % (prev, q, a), "distinct child trees")
        seen[(H, sd, a)] = q
    ctx.extra["histories"] = len(hists)
    ctx.extra["released_signatures"] = sum(h.released for h in hists)
    ctx.extra["releases_preceded_by_failed_or_rejected_steps"] = nontrivial
    ctx.extra["complete_lifetimes"] = sum(1 for h in hists if h.wiped_seen)


def proj_hist(c, a):
    f = fields(a)
    k = cls_of(a)
    if c.line.startswith("sign "):
        s = f.get("sig")
        return "%s cb=%s %s" % (k, f.get("cb"), sig_shape(c.meta["h"].k.n, unhx(s)) if s else "")
    if c.line.startswith("trysign "):
        s = f.get("sig")
        return "%s sk=%s %s" % (k, f.get("sk"), sig_shape(c.meta["h"].k.n, unhx(s)) if s else "")
    return a

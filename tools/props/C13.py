"""C13: leaf selection follows the reference's mixed-radix rule for every key shape."""
from .common import *
import hashsigs

RULE = ("counter hook (the real CompressedUsedLeafsIndexes::to / increment and HssPrivateKey::get_lifetime) over height tuples of length 1..8 over "
        "{2(hook),5,10,15,20,25} (quick: seeded sample; thorough: all tuples up to length 4 and a sample beyond) x counters 0, 1, each radix boundary +-1, last, "
        "last+1, random; tall lists (total height >= 64) included; oracle: independent mixed-radix computation; end-to-end successor states (counter+1 / the exact wiped form) on six affordable keys; try_sign as well")
ASSUMPTIONS = ["how hash-sigs reads the 8-byte counter is checked against the cisco hash-sigs tool shipped in the repository (tests/demo) for SHA-256/32 keys with mixed heights H5/H10: "
               "leaf indices in its signatures and the key file it writes back, for counters at and around radix boundaries"]


def run(ctx):
    if not ctx.open():
        return
    rng = ctx.rng
    codes = [1, 5, 6, 7, 8, 9]
    shapes = []
    if ctx.tier == "thorough":
        import itertools
        for L in range(1, 5):
            shapes += [list(t) for t in itertools.product(codes, repeat=L)]
        for L in range(5, 9):
            shapes += [[rng.choice(codes) for _ in range(L)] for _ in range(400)]
    else:
        for L in range(1, 9):
            shapes += [[rng.choice(codes) for _ in range(L)] for _ in range(25)]
        shapes += [[6, 6, 6, 6, 6, 6, 5], [9, 9, 9], [8, 8, 8, 5], [9] * 8, [5] * 8, [9, 9, 7]]
    cases = []
    for sh in shapes:
        hs = [LMS_H[t] for t in sh]
        tot = sum(hs)
        N = 1 << tot
        cs = set()
        if tot <= 63:
            cs.update(boundary_counters(hs, rng, 2))
            cs.add(N)            # last+1
        else:
            cs.update([0, 1, 2 ** 64 - 1, 2 ** 64 - 2, 2 ** 63, rng.randrange(2 ** 64)])
            acc = 0
            for h in reversed(hs):
                acc += h
                if acc < 64:
                    cs.update([(1 << acc) - 1, 1 << acc, (1 << acc) + 1])
        cs = sorted(x for x in cs if x < 2 ** 64)
        if ctx.tier == "quick":
            cs = cs[:3] + rng.sample(cs, min(5, len(cs))) + cs[-3:]
        for c in sorted(set(cs)):
            cases.append(Case("ctr H=S32 lms=%s c=%d" % (",".join(map(str, sh)), c), "ctr/L%d/%s" % (len(sh), "tall" if tot >= 64 else "le63"),
                              {"hs": hs, "c": c}))
    if hashsigs.available():
        tool = hashsigs.HashSigs()
        try:
            for ps in ([(4, 5), (3, 6)], [(3, 6), (4, 5)], [(4, 5), (4, 5), (4, 5)]):
                seed = rng.bytes_(32)
                name, prv, pub, _ = tool.genkey(ps, seed, 0)
                hts = heights_of(ps)
                for cnt in [x for x in boundary_counters(hts, rng, 1) if x + 1 < (1 << sum(hts))][: (6 if ctx.tier == "quick" else 40)]:
                    tool.set_private_key(name, sk_blob("S32", ps, seed, cnt))
                    ref = tool.sign(name, b"ctr")
                    ctx.evaluations += 1
                    ctx.classes[("hash-sigs-tool/counter", "ok")] = ctx.classes.get(("hash-sigs-tool/counter", "ok"), 0) + 1
                    _, lv = parse_hss_sig(32, ref)
                    if [l["q"] for l in lv] != mixed_radix(hts, cnt) or tool.private_key(name) != sk_blob("S32", ps, seed, cnt + 1):
                        ctx.fail("the hash-sigs tool itself does not read the counter as mixed radix (oracle assumption broken)", ["counter %d heights %s" % (cnt, hts)], str([l["q"] for l in lv]), str(mixed_radix(hts, cnt)))
                    r = ctx.both([Case(sign_line("S32", sk_blob("S32", ps, seed, cnt), b"ctr"), "sign/vs-hash-sigs-counter")], None)[0][1]
                    _, lv2 = parse_hss_sig(32, unhx(fields(r)["sig"]))
                    if [l["q"] for l in lv2] != [l["q"] for l in lv] or fields(r).get("cb") != tool.private_key(name).hex():
                        ctx.fail("leaf indices / successor key differ from the hash-sigs tool for the same key file", ["counter %d heights %s" % (cnt, hts)], str([l["q"] for l in lv2]), str([l["q"] for l in lv]))
        finally:
            tool.close()
    # end to end on affordable keys: the successor handed over by signing is counter+1 and, after the last leaf, exactly the wiped
    # state (counter 0, parameter bytes ff, seed 0 - the form the hash-sigs tools recognise as an expired key)
    e2e = []
    for i, ps in enumerate([[(3, 1)], [(3, 5)], [(2, 1), (3, 5)], [(3, 5), (2, 1)], [(3, 1), (2, 1), (3, 1)], [(2, 5), (3, 5)]]):
        H = ALL_H[i % 6]
        seed = rng.bytes_(HASHES[H])
        hts = heights_of(ps)
        N = 1 << sum(hts)
        for cnt in sorted({0, N - 2, N - 1, (1 << hts[-1]) - 1}):
            e2e.append(Case(sign_line(H, sk_blob(H, ps, seed, cnt), b"successor"), "sign/successor-state", {"H": H, "ps": ps, "seed": seed, "c": cnt, "N": N}))
            e2e.append(Case(trysign_line(H, sk_blob(H, ps, seed, cnt), b"successor"), "trysign/successor-state", {"H": H, "ps": ps, "seed": seed, "c": cnt, "N": N}))
    for c, a, b in ctx.both(e2e, None):
        m = c.meta
        exp = (bytes(8) + b"\xff" * 8 + bytes(HASHES[m["H"]])) if m["c"] + 1 >= m["N"] else sk_blob(m["H"], m["ps"], m["seed"], m["c"] + 1)
        if fields(a).get("cb", fields(a).get("sk")) != exp.hex():
            ctx.fail("the successor of a counter is not counter+1 / the wiped state after the last leaf", [c.line], str(fields(a).get("cb")), exp.hex())
    for c, a, b in ctx.both(cases, None):
        hs, cnt = c.meta["hs"], c.meta["c"]
        tot = sum(hs)
        f = fields(a)
        if "panic" in a:
            ctx.fail("counter arithmetic panicked", [c.line], a, "no arithmetic failure")
            continue
        exp_leaves = ",".join(map(str, mixed_radix(hs, cnt)))
        if f.get("leaves") != exp_leaves:
            ctx.fail("leaves are not the mixed-radix digits of the counter", [c.line], f.get("leaves"), exp_leaves)
        if tot <= 63:
            N = 1 << tot
            if cnt < N:
                exp_inc = "wiped" if cnt + 1 >= N else str(cnt + 1)
                if f.get("inc") != exp_inc:
                    ctx.fail("successor is not counter+1 / wiped after the last leaf", [c.line], f.get("inc"), exp_inc)
                if f.get("life") != str(N - cnt):
                    ctx.fail("remaining lifetime is not leaves - counter", [c.line], f.get("life"), str(N - cnt))
        else:
            exp_inc = "wiped" if cnt >= 2 ** 64 - 1 else str(cnt + 1)
            if f.get("inc") != exp_inc:
                ctx.fail("a tall key was reported exhausted early / successor wrong", [c.line], f.get("inc"), exp_inc)

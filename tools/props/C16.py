"""C16: secret-bearing values are wiped when dropped or exhausted."""
from .common import *

RULE = ("every secret-bearing type of the library (found by the extractor: all structs that own seed bytes, per-tree seeds or chain values) is populated with marker bytes, "
        "then zeroize()d in place and, separately, dropped in place; surviving marker bytes in the value's memory are counted; trait membership (Zeroize, ZeroizeOnDrop) is "
        "probed at run time; the last signature of several key shapes hands the callback a key without seed bytes; plus the kernel-checked verdict on the extracted declaration table; the exhaustion probe under the C14 configurations (incl. a one-level build)")
ASSUMPTIONS = ["that the compiler does not elide the volatile writes, and copies left behind by moves / plain stack temporaries, cannot be exhibited by this probe",
               "the probe instantiates the generic types with SHA-256/256"]

SECRET_TYPES = ["Seed", "SeedAndLmsTreeIdentifier", "ReferenceImplPrivateKey", "LmsPrivateKey", "LmotsPrivateKey"]


ROOTS = {("Seed", "data"), ("LmotsPrivateKey", "key")}     # where raw secret bytes live


def owned_types(ty):
    """type names owned *by value* by a field of type `ty` (references do not own)"""
    if ty.strip().startswith("&"):
        return set()
    return set(re.findall(r"\b([A-Z]\w*)\b", ty))


def secret_closure(decls):
    """structs that own (by value, transitively) raw secret bytes"""
    owns = {n for n, _ in ROOTS}
    changed = True
    while changed:
        changed = False
        for d in decls:
            if d["name"] in owns:
                continue
            if any(owned_types(ty) & owns for (_, ty, _) in d["fields"]):
                owns.add(d["name"])
                changed = True
    return owns


def covered(d, owners, decls_by_name):
    """(a) derives Zeroize + ZeroizeOnDrop and skips no secret-bearing field, or
       (b) holds no raw secret bytes itself and every secret-owning field is of a covered struct type (drop glue)"""
    secret_fields = [(f, ty, sk) for (f, ty, sk) in d["fields"] if (owned_types(ty) & owners) or (d["name"], f) in ROOTS]
    if "Zeroize" in d["derives"] and "ZeroizeOnDrop" in d["derives"]:
        bad = [f for (f, ty, sk) in secret_fields if sk]
        return (not bad), ("derive" if not bad else "secret field(s) %s marked #[zeroize(skip)]" % bad)
    if any((d["name"], f) in ROOTS for (f, _, _) in d["fields"]):
        return False, "holds raw secret bytes but does not derive Zeroize + ZeroizeOnDrop"
    for (f, ty, sk) in secret_fields:
        for t in owned_types(ty) & owners:
            ok, why = covered(decls_by_name[t], owners, decls_by_name)
            if not ok:
                return False, "field %s: %s is not covered (%s)" % (f, t, why)
    return True, "container: every secret-owning field is dropped by a ZeroizeOnDrop type"


def run(ctx):
    import re as _re
    globals()["re"] = _re
    if not ctx.open(need_driver=True):
        return
    cases = [Case("zeroize H=S32 type=%s" % t, "zeroize/" + t, {"t": t}) for t in SECRET_TYPES]
    for c, a, b in ctx.both(cases, lambda c, a: "ok" if a.startswith("ok") else a, model=False):
        f = fields(a)
        t = c.meta["t"]
        if not a.startswith("ok"):
            ctx.fail("zeroize probe failed", [c.line], a, "ok ...")
            continue
        if f["zeroize_impl"] != "1" or f["zeroize_on_drop_impl"] != "1":
            ctx.fail("secret-bearing type %s does not implement Zeroize + ZeroizeOnDrop" % t, [c.line], a, "zeroize_impl=1 zeroize_on_drop_impl=1")
        if int(f["marks_before"]) < 16:
            ctx.fail("probe vacuous: no secret bytes were placed", [c.line], a, "marks_before >= 16")
        if f["after_zeroize"] != "0":
            ctx.fail("zeroize() leaves secret bytes of %s in place" % t, [c.line], a, "after_zeroize=0")
        if f["after_drop"] != "0":
            ctx.fail("dropping %s leaves secret bytes in memory" % t, [c.line], a, "after_drop=0")
    # exhaustion hands over a key without seed bytes
    rng = ctx.rng
    cases = []
    shapes = [[(3, 1), (2, 1)], [(2, 5)], [(2, 5)] * 7, [(2, 6), (2, 6), (2, 6), (2, 1)], [(2, 5)] * 8, [(3, 1)] * 8, [(2, 5), (2, 6), (2, 5), (2, 6), (2, 1)]]
    for i, ps in enumerate(shapes):
        H = ALL_H[i % 6]
        n = HASHES[H]
        seed = bytes([0xA5]) * n
        last = (1 << sum(heights_of(ps))) - 1
        cases.append(Case(sign_line(H, sk_blob(H, ps, seed, last), b"last"), "exhaust/last/total%d" % sum(heights_of(ps)), {"n": n}))
        cases.append(Case(trysign_line(H, sk_blob(H, ps, seed, last), b"last"), "exhaust/last-inmem/total%d" % sum(heights_of(ps)), {"n": n}))
    for c, a, b in ctx.both(cases, None):
        f = fields(a)
        k = unhx(f.get("cb", f.get("sk", "-")))
        if not a.startswith("ok") or len(k) != 16 + c.meta["n"] or any(x == 0xA5 for x in k) or k[16:] != bytes(c.meta["n"]):
            ctx.fail("the exhausted private key handed over still contains seed bytes", [c.line], a[-160:], "0^8 ff^8 0^n")
    # ... in the constrained builds as well (single-level and two-level builds have their own end of lifetime)
    from . import C14
    for cfg in (C14.CONFIGS_QUICK if ctx.tier == "quick" else C14.CONFIGS_THOROUGH):
        L = int(cfg["HBS_LMS_MAX_ALLOWED_HSS_LEVELS"])
        hs = [int(x) for x in cfg["HBS_LMS_TREE_HEIGHTS"].split(", ")]
        ws = [int(x) for x in cfg["HBS_LMS_WINTERNITZ_PARAMETERS"].split(", ")]
        if not ctx.open(cfg):
            continue
        cases = []
        for l in range(1, L + 1):
            ps = [({1: 2, 2: 2, 4: 3, 8: 4}[ws[i]], 5 if hs[i] >= 5 else 1) for i in range(l)]
            for H in ("S32", "S16"):
                n = HASHES[H]
                seed = bytes([0xA5]) * n
                last = (1 << sum(heights_of(ps))) - 1
                cases.append(Case(sign_line(H, sk_blob(H, ps, seed, last), b"last"), "cfg/exhaust/last/L%d" % l, {"n": n}))
                cases.append(Case(trysign_line(H, sk_blob(H, ps, seed, last), b"last"), "cfg/exhaust/last-inmem/L%d" % l, {"n": n}))
        for c, a, b in ctx.both(cases, None):
            f = fields(a)
            k = unhx(f.get("cb", f.get("sk", "-")))
            if not a.startswith("ok") or len(k) != 16 + c.meta["n"] or any(x == 0xA5 for x in k) or k[16:] != bytes(c.meta["n"]):
                ctx.fail("the exhausted private key handed over still contains seed bytes (build %s)" % json.dumps(cfg), [c.line], a[-160:], "0^8 ff^8 0^n")
    # declaration table (same rule as Props/C16.lean, evaluated here for the evidence)
    meta_decls = parse_decls()
    owners = secret_closure(meta_decls)
    ctx.extra["secret_bearing_types"] = sorted(owners)
    by_name = {d["name"]: d for d in meta_decls}
    how = {}
    for d in meta_decls:
        if d["name"] not in owners:
            continue
        ok, why = covered(d, owners, by_name)
        how[d["name"]] = why
        if not ok:
            ctx.fail("secret-bearing struct %s is not wiped on drop: %s" % (d["name"], why), [d["file"]], str(d["derives"]), "Zeroize + ZeroizeOnDrop without skipped secret fields")
    ctx.extra["coverage_of_secret_bearing_types"] = how
    missing = [t for t in SECRET_TYPES if t not in owners]
    if missing:
        ctx.fail("expected secret-bearing types not found by the extractor", missing, "", "")
    for t in sorted(owners):
        if t not in SECRET_TYPES and how.get(t, "").startswith("derive"):
            ctx.tie_failures.append("a new secret-bearing type %s derives the wipe itself but is not covered by the run-time probe" % t)


def parse_decls():
    meta = json.load(open(os.path.join(LEAN, "HbsLms", "Generated", "meta.json")))
    return [{"file": d["file"], "name": d["name"], "derives": d["derives"], "fields": [tuple(f) for f in d["fields"]]} for d in meta["decls"]]

"""C10: auxiliary data is a transparent, authenticated cache and nothing more."""
from .common import *
import hashsigs
from check import canon as canon_

RULE = ("keygen and sign with aux in {none, all zero of many lengths, previously filled, every single-bit flip (quick: a stride) of a filled buffer, truncated, padded, "
        "00||garbage, in-use marker||garbage, filled for another seed, filled for the same seed with other parameters} x hashes; oracle: key pair / signature / successor "
        "equal to the aux-free ones; after keygen on a fresh buffer: shrunk length, level word, MAC recomputed independently, and acceptance of the written buffer; feature fast_verify: sign_mut with absent/fresh/short/filled/garbage buffers compared with the aux-free model for the returned trailer; the C14 configurations: aux layout hook and real keygen/sign with buffers caching every level, top tree as tall as the build allows")
ASSUMPTIONS = ["a MAC-valid buffer for a different seed would be a MAC forgery and is not constructed",
               "the hash-sigs layout (level word, cached levels h, h-2, ..., HMAC-like MAC keyed by H(prefix||seed)) is taken from aux.rs / the property statement"]


def match_known(f, known):
    for k in known:
        if k["match"].get("kind") == "aux-reuse" and f.get("aux_class") == "same-seed-other-params":
            return k
    return None


def hmac_ref(H, seed, data):
    n = HASHES[H]
    pre = bytearray(22)
    pre[20:22] = b"\xfd\xfd"
    key = pyhash(H, bytes(pre) + seed)
    inner = pyhash(H, bytes(b ^ 0x36 for b in key) + b"\x36" * (64 - n) + data)
    return pyhash(H, bytes(b ^ 0x5c for b in key) + b"\x5c" * (64 - n) + inner)


def run(ctx):
    if not ctx.open():
        return
    rng = ctx.rng
    hashes = ALL_H if ctx.tier == "thorough" else ["S32", "K24", "S16"]
    bases = []
    for H in hashes:
        n = HASHES[H]
        for ps in ([(2, 5), (3, 1)], [(3, 5)], [(3, 1), (2, 1)]):
            bases.append((H, ps, rng.bytes_(n)))
    ref = {}
    cases = [Case(keygen_line(H, ps, seed), "keygen/none", {"b": (H, ps, seed)}) for (H, ps, seed) in bases]
    for c, a, b in ctx.both(cases, None):
        ref[c.meta["b"][2]] = fields(a)
    # fresh buffers of many lengths
    cases = []
    for (H, ps, seed) in bases:
        n = HASHES[H]
        for L in [0, 1, 2, 3, 4, 5, n + 3, n + 4, 4 + n + 2 * n - 1, 4 + n + 2 * n, 4 + n + 2 * n + 1, 200, 500, 1300, 3000]:
            cases.append(Case(keygen_line(H, ps, seed, bytes(L)), "keygen/zero", {"b": (H, ps, seed), "L": L}))
            g = b"\0" * min(L, 1) + rng.bytes_(max(L - 1, 0))
            cases.append(Case(keygen_line(H, ps, seed, g), "keygen/zero-marker+garbage", {"b": (H, ps, seed), "L": L}))
            g2 = bytes([rng.choice([1, 0x80, 0xff])]) * min(L, 1) + rng.bytes_(max(L - 1, 0))
            cases.append(Case(keygen_line(H, ps, seed, g2), "keygen/inuse-marker+garbage", {"b": (H, ps, seed), "L": L}))
    filled = {}
    for c, a, b in ctx.both(cases, None):
        H, ps, seed = c.meta["b"]
        f = fields(a)
        r = ref[seed]
        if not a.startswith("ok") or f["sk"] != r["sk"] or f["vk"] != r["vk"]:
            ctx.fail("keygen with an auxiliary buffer returned a different key pair than without", [c.line[:600]], a[:160], "sk=%s vk=%s" % (r["sk"], r["vk"]))
            continue
        if c.cls == "keygen/zero":
            aux = unhx(f["aux"])
            L = c.meta["L"]
            n = HASHES[H]
            if L > 0 and aux[0] != 0:
                # layout: level word || levels || MAC
                lw = int.from_bytes(aux[:4], "big")
                h0 = LMS_H[ps[0][1]]
                exp_levels = []
                rem = L - 4 - n
                lvl = h0
                while lvl >= 1:
                    if rem >= (n << lvl):
                        rem -= n << lvl
                        exp_levels.append(lvl)
                    lvl -= 2
                exp_lw = 0x80000000 | sum(1 << x for x in exp_levels) if exp_levels else 0
                exp_len = 4 + n + sum(n << x for x in exp_levels)
                if lw != exp_lw or len(aux) != exp_len:
                    ctx.fail("aux buffer after keygen does not have the hash-sigs layout (level word / shrunk length)", [c.line[:300]],
                             "levelword=%08x len=%d" % (lw, len(aux)), "levelword=%08x len=%d" % (exp_lw, exp_len))
                elif hmac_ref(H, seed, aux[:-n]) != aux[-n:]:
                    ctx.fail("MAC written by keygen is not the keyed MAC over level word || cached levels", [c.line[:300]], aux[-n:].hex(), hmac_ref(H, seed, aux[:-n]).hex())
                filled.setdefault(seed, []).append(aux)
            elif L > 0 and len(aux) != 1:
                ctx.fail("too small aux buffer is not shrunk to the marker byte", [c.line[:300]], str(len(aux)), "1")
    # variants of filled buffers
    cases = []
    for (H, ps, seed) in bases:
        n = HASHES[H]
        if seed not in filled:
            continue
        aux = max(filled[seed], key=len)
        skb = sk_blob(H, ps, seed, rng.randrange(1 << sum(heights_of(ps))))
        msg = b"aux-msg"
        variants = [("filled", aux), ("truncated", aux[:-1]), ("truncated", aux[:len(aux) // 2]), ("truncated", aux[:4]), ("padded", aux + b"\0"),
                    ("padded", aux + rng.bytes_(40)), ("none", None), ("zero", bytes(len(aux))), ("zero", bytes(5)), ("garbage", b"\0" + rng.bytes_(700))]
        if ctx.tier == "thorough":
            bits = [byte * 8 + rng.randrange(8) for byte in range(len(aux))]          # every byte position, one bit each
        else:
            bits = list(range(0, len(aux) * 8, max(1, (len(aux) * 8) // 90)))
        for bit in bits:
            a2 = bytearray(aux)
            a2[bit // 8] ^= 1 << (bit % 8)
            variants.append(("bitflip", bytes(a2)))
        for (H2, ps2, seed2) in bases:
            if H2 == H and seed2 != seed and seed2 in filled:
                other = max(filled[seed2], key=len)
                variants.append(("other-seed", other))
                # ... with its MAC cut off completely / partly (a length-tolerant MAC comparison would accept these)
                for keep in (0, 1, n // 2, n - 1):
                    variants.append(("other-seed-mac-cut", other[:len(other) - n + keep]))
        # non-authentic content combined with a missing / partial MAC
        for keep in (0, 1, n // 2, n - 1):
            a2 = bytearray(aux[:len(aux) - n + keep])
            a2[4 + rng.randrange(len(aux) - n - 4)] ^= 1 << rng.randrange(8)
            variants.append(("bitflip-mac-cut", bytes(a2)))
            variants.append(("garbage-mac-cut", aux[:4] + rng.bytes_(len(aux) - n - 4 + keep)))
        for cl, ax in variants:
            cases.append(Case(sign_line(H, skb, msg, "accept", ax), "sign/" + cl, {"b": (H, ps, seed), "ref": (H, skb, msg)}))
            if cl != "none":
                cases.append(Case(keygen_line(H, ps, seed, ax), "keygen/" + cl, {"b": (H, ps, seed)}))
    sref = {}
    res = ctx.both(cases, None)
    for c, a, b in res:
        if c.cls == "sign/none":
            sref[c.meta["ref"][1]] = fields(a)
    for c, a, b in res:
        H, ps, seed = c.meta["b"]
        f = fields(a)
        if c.line.startswith("keygen"):
            r = ref[seed]
            if not a.startswith("ok") or f["sk"] != r["sk"] or f["vk"] != r["vk"]:
                ctx.fail("keygen with an auxiliary buffer (%s) returned a different key pair than without" % c.cls, [c.line[:600]], a[:160], "vk=%s" % r["vk"])
        else:
            r = sref[c.meta["ref"][1]]
            if not a.startswith("ok") or f.get("sig") != r.get("sig") or f.get("cb") != r.get("cb"):
                ctx.fail("sign with an auxiliary buffer (%s) returned a different signature / successor key than without" % c.cls, [c.line[:600]], a[:120], "sig=%s.." % r.get("sig", "")[:60])
    # layout against the real hash-sigs tool (SHA-256/32): the aux file it writes for the same seed / parameters / maximum length
    if hashsigs.available():
        hs = hashsigs.HashSigs()
        try:
            hcases = []
            for ps, L in (([(3, 5), (4, 5)], 500), ([(3, 5)], 1500), ([(2, 5), (3, 5)], 200), ([(4, 6)], 5000), ([(3, 5), (2, 5)], 1099), ([(3, 5)], 36), ([(3, 5)], 100)):
                seed = rng.bytes_(32)
                name, prv, pub, aux = hs.genkey(ps, seed, L)
                hcases.append(Case(keygen_line("S32", ps, seed, bytes(L)), "keygen/hash-sigs-aux", {"ref": aux}))
            def split_levels(buf, n):
                lw = int.from_bytes(buf[:4], "big")
                out, o = {}, 4
                for lvl in range(0, 26):
                    if (lw >> lvl) & 1:
                        out[lvl] = buf[o:o + (n << lvl)]
                        o += n << lvl
                return lw, out, buf[o:]
            level_sets = []
            for c, a, b in ctx.both(hcases, None):
                got = unhx(fields(a).get("aux", "-"))
                ref = c.meta["ref"]
                if len(ref) <= 1 or len(got) <= 1:
                    continue   # nothing cacheable in one of them (marker byte only)
                lw1, l1, mac1 = split_levels(got, 32)
                lw2, l2, mac2 = split_levels(ref, 32)
                level_sets.append({"library": sorted(l1), "hash-sigs": sorted(l2)})
                # same self-describing layout; the cached nodes of every level both cache must be identical, and identical
                # level sets must give identical files (incl. the MAC). hash-sigs never caches the leaf level h0 while this
                # library does when there is room - a different *choice* inside the same format (observation, see DESIGN.md)
                for lvl in set(l1) & set(l2):
                    if l1[lvl] != l2[lvl]:
                        ctx.fail("cached tree level %d differs from the aux file of the cisco hash-sigs tool" % lvl, [c.line[:200]], l1[lvl].hex()[:64], l2[lvl].hex()[:64])
                if set(l1) == set(l2) and got != ref:
                    ctx.fail("aux data written by keygen differs from the aux file of the cisco hash-sigs tool", [c.line[:200]], got.hex()[:80], ref.hex()[:80])
                if len(mac1) != 32 or (lw1 >> 31) != 1:
                    ctx.fail("aux data does not have the hash-sigs layout (level word flag / MAC length)", [c.line[:200]], "%08x maclen=%d" % (lw1, len(mac1)), "8xxxxxxx maclen=32")
            ctx.extra["aux_level_sets_vs_hash_sigs"] = level_sets
        finally:
            hs.close()
    # layout arithmetic for tall top trees and long buffers, without generating trees (hook: the real get_aux_data_len /
    # optimal_aux_level / store_aux_marker / expand_aux_data on a fresh buffer): shrunk length, level word, per-level byte
    # lengths and the MAC field length must equal the model's and be self-consistent
    shape_cases = []
    for H in hashes:
        n = HASHES[H]
        for t in (1, 5, 6, 7, 8, 9):
            h0 = LMS_H[t]
            lens = {1, 4 + n - 1, 4 + n, 4 + n + 2 * n, 1000, 65535, 65536, 65571, 65572, 70000, 131091, 131092, 140000, 200000, 2000000}
            for lvl in range(h0, 0, -2):
                if (n << lvl) < 3000000:
                    lens.update({4 + n + (n << lvl) - 1, 4 + n + (n << lvl)})
            for L in sorted(lens)[: (14 if ctx.tier == "quick" else 60)]:
                shape_cases.append(Case("auxshape H=%s lms=%d len=%d" % (H, t, L), "auxshape/h%d" % h0, {"n": n, "h0": h0, "L": L}))
    for c, a, b in ctx.both(shape_cases, None):
        if a.startswith("panic"):
            ctx.fail("aux layout computation panicked", [c.line], a, "ok ...")
            continue
        f = fields(a)
        n, h0, L = c.meta["n"], c.meta["h0"], c.meta["L"]
        layers = [] if f.get("layers") in (None, "-") else [tuple(map(int, x.split(":"))) for x in f["layers"].split(",")]
        if layers:
            total = 4 + sum(sz for _, sz in layers) + n
            if any(sz != (n << lvl) for lvl, sz in layers) or int(f["mac"]) != n or int(f["len"]) != total or int(f["len"]) > L:
                ctx.fail("fresh aux buffer layout is inconsistent (level sizes n*2^level, MAC of n bytes, shrunk length = 4 + levels + n)", [c.line], a, "consistent hash-sigs layout")
    # buffers as a previous *signing* call leaves them (level word, some nodes, no MAC), reused by the same key and by a key with
    # another seed; plus one tall top tree with a long buffer (library only: the model would take too long for an H15 tree)
    for H in hashes[:2]:
        n = HASHES[H]
        ps = [(2, 5), (3, 1)]
        seedA, seedB = rng.bytes_(n), rng.bytes_(n)
        first = ctx.both([Case(sign_line(H, sk_blob(H, ps, seedA, 3), b"first", "accept", bytes(700)), "reuse/sign-initialises-buffer")], None)[0][1]
        left = unhx(fields(first).get("aux", "-"))
        follow = []
        for sd, tag in ((seedA, "same-key"), (seedB, "other-seed")):
            follow.append(Case(sign_line(H, sk_blob(H, ps, sd, 9), b"second", "accept", left), "reuse/buffer-left-by-sign/" + tag, {"ref": sign_line(H, sk_blob(H, ps, sd, 9), b"second")}))
            follow.append(Case(keygen_line(H, ps, sd, left), "reuse/buffer-left-by-sign/keygen-" + tag, {"ref": keygen_line(H, ps, sd)}))
        refs = {c.line: a for c, a, b in ctx.both([Case(c.meta["ref"], "reuse/ref") for c in follow], None)}
        for c, a, b in ctx.both(follow, None):
            r = refs[c.meta["ref"]]
            fa, fr = fields(a), fields(r)
            if cls_of(a) != cls_of(r) or fa.get("sig") != fr.get("sig") or fa.get("cb") != fr.get("cb") or fa.get("vk") != fr.get("vk"):
                ctx.fail("a buffer left behind by an earlier signing call changes the result (%s)" % c.cls, [c.line[:400]], a[:120], r[:120])
    tall = [Case(keygen_line("S32", [(2, 7)], bytes(range(32)), bytes(1500000)), "keygen/h15-long-buffer"), Case(keygen_line("S32", [(2, 7)], bytes(range(32))), "keygen/h15-ref")]
    ta = [canon_(x) for x in ctx.hz.batch([c.line for c in tall])]
    ctx.evaluations += 2
    ctx.classes[("keygen/h15-long-buffer", cls_of(ta[0]))] = 1
    if not ta[0].startswith("ok") or fields(ta[0]).get("vk") != fields(ta[1]).get("vk"):
        ctx.fail("keygen with a long aux buffer for a height-15 top tree differs from keygen without aux data", [tall[0].line[:200]], ta[0][:120], "vk=" + str(fields(ta[1]).get("vk")))
    else:
        aux = unhx(fields(ta[0])["aux"])
        if hmac_ref("S32", bytes(range(32)), aux[:-32]) != aux[-32:]:
            ctx.fail("MAC written for a height-15 top tree is not the keyed MAC over level word || cached levels", [tall[0].line[:200]], aux[-32:].hex(), "")
        re = canon_(ctx.hz.batch([keygen_line("S32", [(2, 7)], bytes(range(32)), aux)])[0])
        if fields(re).get("vk") != fields(ta[1]).get("vk"):
            ctx.fail("the aux data written for a height-15 top tree is not usable afterwards", [tall[0].line[:200]], re[:100], "same key")
    # known finding: same seed, other parameters
    cases = []
    for H in hashes[:2]:
        n = HASHES[H]
        seed = rng.bytes_(n)
        cases.append(Case(keygen_line(H, [(3, 5)], seed, bytes(1500)), "reuse/fill", {"H": H, "seed": seed}))
    for c, a, b in ctx.both(cases, None):
        H, seed = c.meta["H"], c.meta["seed"]
        aux = unhx(fields(a)["aux"])
        r2 = ctx.both([Case(keygen_line(H, [(2, 5)], seed), "reuse/ref"), Case(keygen_line(H, [(2, 5)], seed, aux), "reuse/same-seed-other-params")], None)
        if fields(r2[0][1]).get("vk") != fields(r2[1][1]).get("vk"):
            ctx.oracle_failures.append({"what": "a buffer filled for the same seed with other parameters changes the public key", "requests": [c.line[:200], r2[1][0].line[:300]],
                                        "observed": fields(r2[1][1]).get("vk"), "expected": fields(r2[0][1]).get("vk"), "aux_class": "same-seed-other-params"})

    sign_mut_part(ctx)
    config_part(ctx)


def sign_mut_part(ctx):
    """sign_mut (cargo feature fast_verify) takes the same auxiliary buffer: the signature for the returned message must be the one the
    aux-free model computes for that trailer, whatever the buffer holds"""
    from . import C15
    from check import canon
    rng = ctx.rng
    cfg = C15.CFGS_QUICK[0]
    if not ctx.open(cfg, features=["fast_verify"]):
        return
    specs = [("S16", [(3, 5), (3, 5)], rng.bytes_(16)), ("K24", [(3, 1), (2, 5)], rng.bytes_(24)), ("S32", [(3, 5), (3, 1), (2, 1)], rng.bytes_(32)),
             ("S24", [(3, 5)], rng.bytes_(24))]
    if ctx.tier == "thorough":
        specs += [(H, [(2, 5), (3, 5)], rng.bytes_(HASHES[H])) for H in ALL_H] + [("S16", [(3, 1)] * 4, rng.bytes_(16))]
    keys = make_keys(ctx, specs, None)
    fills = ctx.both([Case(keygen_line(k.H, k.params, k.seed, bytes(3000)), "fast_verify/keygen-fill", {"k": k}) for k in keys], None)
    reqs = []
    for (c0, a0, b0) in fills:
        k = c0.meta["k"]
        filled = unhx(fields(a0).get("aux", "")) if a0.startswith("ok") else b""
        for cnt in sorted({0, 1, k.lifetime - 1, rng.randrange(k.lifetime)}):
            body = rng.bytes_(rng.choice([3, 50]))
            for tag, ax in (("none", None), ("fresh", bytes(3000)), ("fresh-short", bytes(4 + k.n + 40)), ("filled", filled or None),
                            ("garbage", b"\0" + rng.bytes_(500))):
                line = "signmut H=%s sk=%s msg=%s cb=accept" % (k.H, hx(k.blob(cnt)), hx(body + bytes(k.n)))
                if ax is not None:
                    line += " aux=" + hx(ax)
                reqs.append((tag, k, line))
    answers = [canon(a) for a in ctx.hz.batch([l for _, _, l in reqs])]
    mlines, ver = [], []
    for (tag, k, line), a in zip(reqs, answers):
        ctx.evaluations += 1
        ctx.classes[("fast_verify/signmut/aux-" + tag, cls_of(a))] = ctx.classes.get(("fast_verify/signmut/aux-" + tag, cls_of(a)), 0) + 1
        if not a.startswith("ok"):
            ctx.fail("sign_mut with an auxiliary buffer (%s) failed for a usable key" % tag, [line[:400]], a[:200], "ok")
            continue
        f = fields(a)
        m2 = unhx(f["msg"])
        base = line.split(" aux=")[0]
        mlines.append((base + " trailer=" + hx(m2[-k.n:]), a, line, tag))
        ver.append(Case(verify_line(k.H, m2, unhx(f["sig"]), k.vk), "fast_verify/verify/aux-" + tag, {"of": line}))
    model = [canon(x) for x in ctx.dv.batch([m for m, _, _, _ in mlines])]
    for (ml, a, line, tag), b in zip(mlines, model):
        fa, fb = fields(a), fields(b)
        if (fa.get("sig"), fa.get("cb"), fa.get("msg")) != (fb.get("sig"), fb.get("cb"), fb.get("msg")):
            ctx.disagreements.append({"request": line[:600], "class": "fast_verify/signmut/aux-" + tag, "library": a[:300], "model": b[:300],
                                      "library_observable": str(fa.get("sig"))[:64], "model_observable": str(fb.get("sig"))[:64]})
            ctx.fail("sign_mut with an auxiliary buffer (%s) does not return the signature it returns without auxiliary data" % tag, [line[:400]],
                     str(fa.get("sig"))[:80], str(fb.get("sig"))[:80])
    for c, a, b in ctx.both(ver, None):
        if a != "ok":
            ctx.fail("a sign_mut signature made with an auxiliary buffer does not verify", [c.meta["of"][:400]], a, "ok")


def config_part(ctx):
    """constrained builds (C14 configurations): MAX_TREE_HEIGHT is smaller there, so the top tree can have exactly the maximum height of
    the build and a modest buffer caches every level up to the leaves"""
    from . import C14
    rng = ctx.rng
    for cfg in (C14.CONFIGS_QUICK if ctx.tier == "quick" else C14.CONFIGS_THOROUGH):
        L = int(cfg["HBS_LMS_MAX_ALLOWED_HSS_LEVELS"])
        hs = [int(x) for x in cfg["HBS_LMS_TREE_HEIGHTS"].split(", ")]
        ws = [int(x) for x in cfg["HBS_LMS_WINTERNITZ_PARAMETERS"].split(", ")]
        if not ctx.open(cfg):
            continue
        maxh = max(hs)
        shape_cases = []
        for H in ("S32", "K24", "S16"):
            n = HASHES[H]
            for t in (1, 5, 6, 7, 8, 9):
                h0 = LMS_H[t]
                if h0 > hs[0]:
                    continue
                lens = {4 + n, 4 + n + (n << 1), 1000, 70000, 4 + n + sum(n << l for l in range(1, h0 + 1)), 4 + n + sum(n << l for l in range(1, h0 + 1)) + 100, 4 + n + (n << h0)}
                for Ln in sorted(x for x in lens if x < 2 ** 27):
                    shape_cases.append(Case("auxshape H=%s lms=%d len=%d" % (H, t, Ln), "cfg/auxshape/h%d%s" % (h0, "=max" if h0 == maxh else ""), {"n": n, "L": Ln}))
        for c, a, b in ctx.both(shape_cases, None):
            if a.startswith("panic"):
                ctx.fail("aux layout computation panicked in the build %s" % json.dumps(cfg), [c.line], a, "ok ...")
                continue
            f = fields(a)
            n = c.meta["n"]
            layers = [] if f.get("layers") in (None, "-") else [tuple(map(int, x.split(":"))) for x in f["layers"].split(",")]
            if layers and (any(sz != (n << lvl) for lvl, sz in layers) or int(f["mac"]) != n or int(f["len"]) != 4 + sum(sz for _, sz in layers) + n):
                ctx.fail("fresh aux buffer layout is inconsistent in the build %s" % json.dumps(cfg), [c.line], a, "level sizes n*2^level, MAC of n bytes, length 4 + levels + n")
        # real keys whose top tree is as tall as the build allows (affordable heights only)
        top_lms = max(t for t in (1, 5, 6) if LMS_H[t] <= hs[0])
        top_ots = {1: 1, 2: 2, 4: 3, 8: 4}[max(ws[0], 2)]
        reqs = []
        for H in ("S32", "S16"):
            n = HASHES[H]
            seed = rng.bytes_(n)
            ps = [(top_ots, top_lms)]
            big = 4 + n + sum(n << l for l in range(1, LMS_H[top_lms] + 1)) + 64
            ref_kg = keygen_line(H, ps, seed)
            ref_sg = sign_line(H, sk_blob(H, ps, seed, 1), b"cfg-aux")
            for tag, ax in (("none", None), ("fresh-all-levels", bytes(big)), ("fresh-small", bytes(4 + n + 3 * n)), ("dirty", b"\0" + rng.bytes_(big))):
                reqs.append(Case(keygen_line(H, ps, seed, ax), "cfg/keygen/aux-" + tag, {"ref": ref_kg}))
                reqs.append(Case(sign_line(H, sk_blob(H, ps, seed, 1), b"cfg-aux", "accept", ax), "cfg/sign/aux-" + tag, {"ref": ref_sg}))
        res = ctx.both(reqs, None)
        refs = {c.line: a for c, a, b in res if c.line == c.meta["ref"]}
        for c, a, b in res:
            r = refs.get(c.meta["ref"], "")
            fa, fr = fields(a) if not a.startswith("panic") else {}, fields(r)
            if a.startswith("panic") or cls_of(a) != cls_of(r) or fa.get("vk") != fr.get("vk") or fa.get("sig") != fr.get("sig") or fa.get("cb") != fr.get("cb"):
                ctx.fail("in the build %s the result with an auxiliary buffer (%s) differs from the result without" % (json.dumps(cfg), c.cls), [c.line[:300]], a[:160], r[:160])

"""C11: key generation and signing reject malformed inputs instead of crashing."""
from .common import *

RULE = ("keygen with parameter lists of length 0..10; sign / lifetime / try_sign with key lengths 0..64, every value of every parameter byte "
        "(values that denote valid trees of height >= 10 are only exercised through the counter hooks, they would really be generated), wiped and "
        "exhausted keys; keygen / sign with aux buffers of every short length, every level-word byte corrupted, marker-only buffers; "
        "oracle: catch_unwind, and on error paths callback trace empty and no signature; the aux layout arithmetic (hook) for every top-tree height and buffer lengths up to 2^26; counters at and beyond the end of the lifetime for 1..3-level keys")
ASSUMPTIONS = ["HssParameter::new(LmotsReserved|LmsReserved, ..) (an API-misuse panic in the parameter constructor itself, not in keygen) is outside the property"]


def tall_valid(v):
    return (v >> 4) in (6, 7, 8, 9) and (v & 15) in (1, 2, 3, 4)


def run(ctx):
    if not ctx.open():
        return
    rng = ctx.rng
    cases = []
    for H in (ALL_H if ctx.tier == "thorough" else ["S32", "K24", "S16"]):
        n = HASHES[H]
        seed = rng.bytes_(n)
        for L in range(0, 11):
            cases.append(Case(keygen_line(H, [(4, 1)] * L, seed), "keygen/len%d" % L))
        base = sk_blob(H, [(3, 1), (4, 1)], seed, 3)
        for l in range(0, 65):
            b = (base + bytes(64))[:l]
            cases.append(Case(sign_line(H, b, b"m"), "sign/keylen"))
            cases.append(Case(lifetime_line(H, b), "lifetime/keylen"))
            cases.append(Case(trysign_line(H, b, b"m"), "trysign/keylen"))
        for pos in (8, 9, 10, 15):
            for v in range(256):
                if tall_valid(v):
                    continue
                if ctx.tier == "quick" and pos in (10, 15) and v % 5 and v not in (0xff, 0x00):
                    continue
                b = bytearray(base)
                b[pos] = v
                if pos > 10 and v != 0xff:
                    # bytes behind the terminator are only read when the list is that long
                    b[8:pos] = bytes([0x14]) * (pos - 8)
                cases.append(Case(sign_line(H, bytes(b), b"m", rng.choice(["accept", "reject"])), "sign/parambyte%d" % pos))
                if v % 3 == 0:
                    cases.append(Case(lifetime_line(H, bytes(b)), "lifetime/parambyte%d" % pos))
        wiped = bytes(8) + b"\xff" * 8 + bytes(n)
        last = sk_blob(H, [(3, 1), (4, 1)], seed, 15)
        beyond = sk_blob(H, [(3, 1), (4, 1)], seed, 16)
        huge = sk_blob(H, [(3, 1), (4, 1)], seed, 2 ** 64 - 1)
        for nm, b in (("wiped", wiped), ("last", last), ("beyond", beyond), ("huge", huge)):
            cases.append(Case(sign_line(H, b, b"m"), "sign/" + nm))
            cases.append(Case(lifetime_line(H, b), "lifetime/" + nm))
            cases.append(Case(trysign_line(H, b, b"m"), "trysign/" + nm))
        # counters at and beyond the end of the lifetime for one-, two- and three-level keys (such blobs come from foreign or damaged key files)
        for psx in ([(3, 1)], [(3, 5)], [(3, 5), (3, 1)], [(3, 1), (2, 1), (3, 1)]):
            Nx = 1 << sum(heights_of(psx))
            for cx in (Nx - 1, Nx, Nx + 1, 2 * Nx - 1, 2 * Nx, 2 ** 32 - 1, 2 ** 32, 2 ** 63, 2 ** 64 - 1):
                bx = sk_blob(H, psx, seed, cx)
                cases.append(Case(sign_line(H, bx, b"m", rng.choice(["accept", "reject"])), "sign/counter-beyond/L%d" % len(psx)))
                cases.append(Case(lifetime_line(H, bx), "lifetime/counter-beyond/L%d" % len(psx)))
                cases.append(Case(trysign_line(H, bx, b"m"), "trysign/counter-beyond/L%d" % len(psx)))
        # aux buffers
        ps = [(3, 5), (4, 1)]
        skb = sk_blob(H, ps, seed, 0)
        for l in list(range(0, 12)) + [n + 3, n + 4, n + 5, 4 + n + (n << 1) - 1, 4 + n + (n << 1), 200, 1500]:
            for first in (0x00, 0x01, 0x80, 0xff):
                buf = bytes([first]) * min(l, 1) + rng.bytes_(max(l - 1, 0))
                cases.append(Case(keygen_line(H, ps, seed, buf), "keygen/auxlen"))
                cases.append(Case(sign_line(H, skb, b"m", "accept", buf), "sign/auxlen"))
        cases.append(Case(keygen_line(H, ps, seed, bytes(1500)), "keygen/auxfill", {"fill": (H, ps, seed, skb)}))
    # parameter sets whose signature length straddles the 65535-byte limit of the signature object (8 levels, W1/W2, n = 32):
    # accepted ones must be fully usable, refused ones must be refused by keygen, sign and lifetime alike
    for H in ("S32", "K32"):
        seed = rng.bytes_(32)
        near = [[(1, 5)] * 7 + [(2, 5)], [(2, 5)] + [(1, 5)] * 7, [(1, 1)] * 7 + [(2, 1)], [(1, 1)] * 8, [(1, 5)] * 8, [(1, 5)] * 6 + [(2, 5)] * 2,
                [(1, 1)] * 7, [(1, 5)] * 7, [(1, 1)] * 6 + [(2, 5), (1, 5)], [(1, 5)] * 7 + [(3, 1)], [(1, 5)] * 7 + [(2, 1)]]
        for ps in near:
            cases.append(Case(keygen_line(H, ps, seed), "keygen/siglen-limit"))
            cases.append(Case(sign_line(H, sk_blob(H, ps, seed, 5), b"m", "accept"), "sign/siglen-limit"))
            cases.append(Case(lifetime_line(H, sk_blob(H, ps, seed, 5)), "lifetime/siglen-limit"))
    filled = []
    for c, a, b in ctx.both(cases, proj_err_trace):
        oracle(ctx, c, a)
        if c.cls == "keygen/auxfill" and a.startswith("ok"):
            filled.append((c.meta["fill"], unhx(fields(a)["aux"])))
    cases = []
    for (H, ps, seed, skb), aux in filled:
        for pos in range(0, 4):
            for v in (0x00, 0x01, 0x7f, 0x80, 0xff, aux[pos] ^ 0x10):
                a2 = bytearray(aux)
                a2[pos] = v
                cases.append(Case(sign_line(H, skb, b"m", "accept", bytes(a2)), "sign/levelword"))
                cases.append(Case(keygen_line(H, ps, seed, bytes(a2)), "keygen/levelword"))
        for cut in (1, 2, 3, 4, 5, len(aux) - 1, len(aux) - HASHES[H]):
            cases.append(Case(sign_line(H, skb, b"m", "accept", aux[:cut]), "sign/auxtruncated"))
        # non-authentic content combined with a missing / partial MAC ("error or a *correct* result")
        n = HASHES[H]
        for keep in (0, 1, n - 1):
            a3 = bytearray(aux[:len(aux) - n + keep])
            a3[4 + rng.randrange(len(aux) - n - 4)] ^= 0x20
            cases.append(Case(sign_line(H, skb, b"m", "accept", bytes(a3)), "sign/aux-corrupt-mac-cut", {"ref": sign_line(H, skb, b"m", "accept")}))
            cases.append(Case(keygen_line(H, ps, seed, bytes(a3)), "keygen/aux-corrupt-mac-cut", {"ref": keygen_line(H, ps, seed)}))
            a4 = bytearray(aux[:len(aux) - n + keep])
            a4[0:4] = u32(0x80000000 | 0x08)          # another level word, nodes behind it, no MAC
            cases.append(Case(keygen_line(H, ps, seed, bytes(a4[:4 + (n << 3) + keep])), "keygen/aux-forged-levelword-mac-cut", {"ref": keygen_line(H, ps, seed)}))
    refs = {}
    ref_lines = sorted({c.meta["ref"] for c in cases if c.meta.get("ref")})
    for c, a, b in ctx.both([Case(l, "aux-reference") for l in ref_lines], None):
        refs[c.line] = a
    # any auxiliary buffer for any top-tree height: the layout arithmetic on a fresh buffer (real get_aux_data_len / optimal_aux_level /
    # store_aux_marker / expand_aux_data through the hook, no tree needed) must not panic for tall trees and long buffers either
    shape_cases = []
    for H in (ALL_H if ctx.tier == "thorough" else ["S32", "K24", "S16"]):
        n = HASHES[H]
        for t in (1, 5, 6, 7, 8, 9):
            h0 = LMS_H[t]
            lens = {1, 2, 3, 4, 5, 4 + n - 1, 4 + n, 4 + n + 1, 4 + 2 * n, 40, 300, 10000, 65535, 65536, 65537, 70000, 2 ** 21, 2 ** 21 + 36 + 5, 2 ** 26 + 37}
            for lvl in range(1, h0 + 1):
                if (n << lvl) <= 2 ** 26:
                    lens.update({4 + n + (n << lvl) - 1, 4 + n + (n << lvl), 4 + n + (n << lvl) + (n << max(lvl - 2, 1))})
            for L in (sorted(lens) if ctx.tier == "thorough" else rng.sample(sorted(lens), min(len(lens), 16))):
                shape_cases.append(Case("auxshape H=%s lms=%d len=%d" % (H, t, L), "auxshape/h%d" % h0))
    for c, a, b in ctx.both(shape_cases, None):
        if a.startswith("panic"):
            ctx.fail("keygen/sign/lifetime panicked on malformed input: aux layout computation for a fresh buffer", [c.line], a, "ok or err")
    for c, a, b in ctx.both(cases, proj_err_trace):
        oracle(ctx, c, a)
        if c.meta.get("ref") and a.startswith("ok"):
            fa, fr = fields(a), fields(refs[c.meta["ref"]])
            if fa.get("sig") != fr.get("sig") or fa.get("vk") != fr.get("vk") or fa.get("cb") != fr.get("cb"):
                ctx.fail("an operation given a malformed auxiliary buffer returned neither an error nor the correct result", [c.line[:300]], a[:120], refs[c.meta["ref"]][:120])


def proj_err_trace(c, a):
    k = cls_of(a)
    f = fields(a)
    if c.line.startswith("sign "):
        return k + " cb=" + ("none" if f.get("cb") == "none" else "called")
    return k


def oracle(ctx, c, a):
    if a.startswith("panic"):
        ctx.fail("keygen/sign/lifetime panicked on malformed input", [c.line], a, "ok or err")
    elif a.startswith("err") and c.line.startswith("sign ") and c.cls != "sign/reject":
        f = fields(a)
        if f.get("cb") != "none" and "cb=accept" in c.line:
            ctx.fail("update callback invoked on an error path", [c.line], a[:200], "err cb=none")

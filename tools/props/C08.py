"""C08: keys are derived and encoded exactly as the hash-sigs reference does."""
from .common import *
import rfc8554 as R
import hashsigs

RULE = ("all 6 hashes x parameter lists of 1..8 levels (every W; heights H2/H5, one H10) x random seeds: private key blob and public key bytes compared with the "
        "Impl model and with an independent transcription of the hash-sigs derivation (tools/rfc8554.py); internal derivations (root seed/I, child seed/I, "
        "randomizer, tree nodes) compared through hooks; 32-byte Seed objects with non-zero tails for the truncated hashes; leaves of tall trees (hook) on both sides of 2^8 and 2^16; public keys of levels 2, 3, ... inside signatures of 3..8-level keys vs the hash-sigs derivation")
ASSUMPTIONS = ["for SHA-256/32 the cisco hash-sigs tool shipped in the repository (tests/demo) is run on the same seed and parameter list and its key files are compared byte for byte",
               "for the other five hashes (which hash-sigs does not implement) the oracle is an independent transcription of the same construction (tools/rfc8554.py)"]


def run(ctx):
    if not ctx.open():
        return
    rng = ctx.rng
    specs = spec_list(rng, ctx.tier, 24 if ctx.tier == "quick" else 90)
    specs.append(("S32", [(3, 6)], rng.bytes_(32)))
    for H in ALL_H:
        specs.append((H, [(rng.choice([1, 2, 3, 4]), 5), (3, 1)], rng.bytes_(HASHES[H])))
    cases = [Case(keygen_line(H, ps, seed), "keygen/L%d/%s" % (len(ps), H), {"spec": (H, ps, seed)}) for (H, ps, seed) in specs]
    keys = []
    # Seed objects built from 32 bytes (Seed::from): for the truncated hashes the bytes behind the seed are not inputs of the derivation
    for H in ("S24", "S16", "K24", "K16"):
        n = HASHES[H]
        seed = rng.bytes_(n)
        ps = rng.choice([[(3, 1)], [(3, 1), (2, 1)], [(3, 5)]])
        for tail in (b"\xa5" * (32 - n), rng.bytes_(32 - n)):
            cases.append(Case("keygen H=%s params=%s seedfull=%s aux=none" % (H, params_str(ps), hx(seed + tail)), "keygen/seed-object-32-bytes", {"spec": (H, ps, seed)}))
    for c, a, b in ctx.both(cases, None):
        H, ps, seed = c.meta["spec"]
        if not a.startswith("ok"):
            ctx.fail("keygen failed", [c.line], a[:100], "ok")
            continue
        f = fields(a)
        blob, pk = R.keygen(H, ps, seed)
        if unhx(f["sk"]) != blob:
            ctx.fail("private key blob differs from counter || 8 parameter bytes || seed", [c.line], f["sk"], blob.hex())
        if unhx(f["vk"]) != pk:
            ctx.fail("public key differs from the hash-sigs derivation", [c.line], f["vk"], pk.hex())
        keys.append((H, ps, seed, blob))
    # trees below the top level: the public keys (type codes, tree identifier, root) that a signature carries for levels 2, 3, ... must be
    # the hash-sigs derivation along the path of the counter (the level-by-level descent, not only the derivation function)
    deep = []
    for i, ps in enumerate([[(3, 1)] * 3, [(3, 1), (4, 1), (3, 1), (3, 1)], [(3, 1)] * 5, [(3, 1), (3, 5), (3, 1)], [(4, 1)] * 8]):
        H = ALL_H[i % 6]
        seed = rng.bytes_(HASHES[H])
        tot = sum(heights_of(ps))
        for cnt in sorted({0, 5, (1 << tot) - 1, rng.randrange(1 << tot), rng.randrange(1 << tot)}):
            deep.append(Case(sign_line(H, sk_blob(H, ps, seed, cnt), b"deep"), "sign/child-public-keys/L%d" % len(ps), {"x": (H, ps, seed, cnt)}))
    for c, a, b in ctx.both(deep, lambda c, a: cls_of(a)):
        H, ps, seed, cnt = c.meta["x"]
        if not a.startswith("ok"):
            ctx.fail("signing failed", [c.line], a[:100], "ok")
            continue
        n = HASHES[H]
        _, lv = parse_hss_sig(n, unhx(fields(a)["sig"]))
        _, rv = parse_hss_sig(n, R.sign(H, ps, seed, cnt, b"deep", ls_of=lambda n_, w: {1: 7, 2: 6, 4: 4, 8: 0}[w]))
        for lvl, (l, r) in enumerate(zip(lv[:-1], rv[:-1])):
            if l["child_pk"] != r["child_pk"]:
                ctx.fail("public key differs from the hash-sigs derivation: tree of level %d (counter %d)" % (lvl + 2, cnt), [c.line], l["child_pk"].hex(), r["child_pk"].hex())
                break
    # the real hash-sigs tool (SHA-256/32, heights >= 5 only)
    if hashsigs.available():
        hs = hashsigs.HashSigs()
        try:
            lists = [[(3, 5)], [(4, 5), (2, 5)], [(1, 5), (3, 5)], [(2, 5), (3, 5), (4, 5)], [(3, 5)] * 4, [(4, 6)], [(3, 5), (4, 6)]]
            if ctx.tier == "thorough":
                lists += [[(rng.choice([1, 2, 3, 4]), 5) for _ in range(rng.choice([1, 2, 3, 5, 8]))] for _ in range(12)] + [[(4, 6), (3, 5)], [(3, 7)]]
            hcases = []
            for ps in lists:
                seed = rng.bytes_(32)
                name, prv, pub, aux = hs.genkey(ps, seed, 0)
                hcases.append(Case(keygen_line("S32", ps, seed), "keygen/hash-sigs-tool", {"ref": (prv, pub)}))
            for c, a, b in ctx.both(hcases, None):
                f = fields(a)
                prv, pub = c.meta["ref"]
                if f.get("sk") != prv.hex() or f.get("vk") != pub.hex():
                    ctx.fail("key pair differs from what the cisco hash-sigs tool generates from the same seed", [c.line], "sk=%s vk=%s" % (f.get("sk"), f.get("vk")), "sk=%s vk=%s" % (prv.hex(), pub.hex()))
        finally:
            hs.close()
    else:
        ctx.notes.append("tests/demo (hash-sigs tool) not available: reference comparison skipped")
    cases = []
    for (H, ps, seed, blob) in keys[: (12 if ctx.tier == "quick" else 60)]:
        cases.append(Case("rootseed H=%s sk=%s" % (H, hx(blob)), "derive/root", {"k": (H, ps, seed)}))
    for c, a, b in ctx.both(cases, None):
        H, ps, seed = c.meta["k"]
        s, i = R.root_seed_id(H, seed)
        f = fields(a)
        if f.get("seed") != s.hex() or f.get("id") != i.hex():
            ctx.fail("root seed / tree identifier differ from the top-seed hashing", [c.line], a, "seed=%s id=%s" % (s.hex(), i.hex()))
        cases2 = []
        for q in (0, 1, 3, 31, 2 ** 20 + 5):
            cases2.append(Case("child H=%s seed=%s id=%s q=%d" % (H, s.hex(), i.hex(), q), "derive/child", {"x": (H, s, i, q)}))
            cases2.append(Case("rand H=%s seed=%s id=%s q=%d" % (H, s.hex(), i.hex(), q), "derive/rand", {"x": (H, s, i, q)}))
        o, l = ps[0]
        t = R.Tree(H, s, i, o, l)
        for r in (1, 2, 3, 2 ** LMS_H[l], 2 ** (LMS_H[l] + 1) - 1):
            if LMS_H[l] <= 5:
                cases2.append(Case("node H=%s seed=%s id=%s ots=%d lms=%d r=%d" % (H, s.hex(), i.hex(), o, l, r), "derive/node", {"x": (t, r)}))
        # leaves of tall trees (one LM-OTS key each, no tree needed): leaf numbers on both sides of 2^8 and 2^16
        if len(cases) and (c is cases[0] or (ctx.tier == "thorough" and c in cases[:6])):
            for lt in (6, 7, 8, 9):
                h = LMS_H[lt]
                tt = R.Tree(H, s, i, rng.choice([3, 4]), lt)
                for q in sorted({0, 255, 256, 65535, 65536, 65537, 2 ** h - 1} & set(range(2 ** h))):
                    cases2.append(Case("node H=%s seed=%s id=%s ots=%d lms=%d r=%d" % (H, s.hex(), i.hex(), tt.ots, lt, 2 ** h + q), "derive/leaf-of-tall-tree", {"x": (tt, 2 ** h + q)}))
        for c2, a2, b2 in ctx.both(cases2, None):
            if c2.cls == "derive/child":
                H2, s2, i2, q = c2.meta["x"]
                es, ei = R.child_seed_id(H2, s2, i2, q)
                exp = "ok seed=%s id=%s" % (es.hex(), ei.hex())
            elif c2.cls == "derive/rand":
                H2, s2, i2, q = c2.meta["x"]
                exp = "ok %s" % R.seed_derive(H2, s2, i2, q, 0xfffd).hex()
            else:
                t2, r = c2.meta["x"]
                exp = "ok %s" % t2.T(r).hex()
            if a2 != exp:
                ctx.fail("derivation differs from hash-sigs (%s)" % c2.cls, [c2.line], a2, exp)

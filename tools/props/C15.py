"""C15: fast-verify signing yields ordinary valid signatures, touching only the trailer."""
from .common import *
from check import canon
import rfc8554 as R

RULE = ("library rebuilt with the fast_verify feature under several HBS_LMS_THREADS / HBS_LMS_MAX_HASH_OPTIMIZATIONS settings; sign_mut on messages with a zero trailer for all "
        "6 hashes x W1..W8 x 1..3 levels x callback accept/reject, and on refused inputs (length <= n, non-zero trailer, malformed key); the implementation chooses the trailer, "
        "the model is given it and must reproduce signature, callback trace and message; oracle: ordinary verify accepts, only the last n bytes changed, ordinary sign of the "
        "returned message gives the same bytes, exactly one leaf consumed, refusals consume nothing; message lengths 255+n .. 131072+5")
ASSUMPTIONS = ["real thread interleavings and data-race freedom of the crossbeam scope are not modelled (the selection loop is proved for every arrival order)",
               "the worker RNG (OsRng) is an input of the model"]

CFGS_QUICK = [{"HBS_LMS_THREADS": "4", "HBS_LMS_MAX_HASH_OPTIMIZATIONS": "200"},
              {"HBS_LMS_THREADS": "4", "HBS_LMS_MAX_HASH_OPTIMIZATIONS": "3"}]      # fewer trials than threads: every worker runs zero iterations
CFGS_THOROUGH = CFGS_QUICK + [{"HBS_LMS_THREADS": "1", "HBS_LMS_MAX_HASH_OPTIMIZATIONS": "0"}, {"HBS_LMS_THREADS": "2", "HBS_LMS_MAX_HASH_OPTIMIZATIONS": "1"},
                              {"HBS_LMS_THREADS": "8", "HBS_LMS_MAX_HASH_OPTIMIZATIONS": "1000"}, {"HBS_LMS_THREADS": "3", "HBS_LMS_MAX_HASH_OPTIMIZATIONS": "100"}]


def run(ctx):
    rng = ctx.rng
    for cfg in (CFGS_QUICK if ctx.tier == "quick" else CFGS_THOROUGH):
        if not ctx.open(cfg, features=["fast_verify"]):
            continue
        # the scoring function of the optimiser (hook): real fast_verify_eval vs model vs the sum of the RFC digit vector
        ev = []
        for H in ALL_H:
            n = HASHES[H]
            for t in (1, 2, 3, 4):
                for d in [bytes(n), b"\xff" * n, bytes(range(n))] + [rng.bytes_(n) for _ in range(6 if ctx.tier == "quick" else 60)]:
                    ev.append(Case("fveval H=%s type=%d digest=%s" % (H, t, hx(d)), "fveval/n%d/w%d" % (n, OTS_W[t]), {"H": H, "t": t, "d": d}))
        for c, a, b in ctx.both(ev, None):
            H, t, d = c.meta["H"], c.meta["t"], c.meta["d"]
            n, w = HASHES[H], OTS_W[t]
            lib_ls = {1: 7, 2: 6, 4: 4, 8: 0}[w]
            exp = sum(R.digits(d, n, w, lib_ls))
            if a.startswith("panic"):
                ctx.fail("fast_verify_eval panicked", [c.line, json.dumps(cfg)], a, "ok %d" % exp)
            elif a != "ok %d" % exp:
                ctx.fail("fast_verify_eval is not the total number of chain iterations of the digest", [c.line], a, "ok %d" % exp)
        specs = []
        for i, H in enumerate(ALL_H):
            n = HASHES[H]
            for o in (1, 2, 3, 4):
                specs.append((H, [(o, 1)], rng.bytes_(n)))
            specs.append((H, [(3, 1), (rng.choice([1, 2, 3, 4]), 1)], rng.bytes_(n)))
        specs.append(("S24", [(2, 1), (3, 1), (2, 5)], rng.bytes_(24)))
        keys = make_keys(ctx, specs, None)
        reqs = []
        for k in keys:
            n = k.n
            c = rng.randrange(k.lifetime)
            sk = k.blob(c)
            body = rng.bytes_(rng.choice([1, 5, 40, 300]))
            good = body + bytes(n)
            for cb in ("accept", "reject"):
                reqs.append(("ok/" + cb, k, c, sk, good, cb))
            reqs.append(("refuse/short", k, c, sk, bytes(n), "accept"))
            reqs.append(("refuse/short", k, c, sk, bytes(rng.randrange(n)), "accept"))
            nz = bytearray(good)
            nz[len(body) + rng.randrange(n)] = 1 + rng.randrange(255)
            reqs.append(("refuse/nonzero-trailer", k, c, sk, bytes(nz), "accept"))
            reqs.append(("refuse/badkey", k, c, sk[:-1], good, "accept"))
            reqs.append(("refuse/wiped", k, c, bytes(8) + b"\xff" * 8 + bytes(n), good, "accept"))
        # message lengths at integer-width boundaries (a trailer offset computed in 16 bits would wrap exactly here)
        for k in rng.sample(keys, 3 if ctx.tier == "quick" else 8):
            c = rng.randrange(k.lifetime)
            for total in (255 + k.n, 256 + k.n, 65535, 65536, 65536 + k.n - 1, 65536 + k.n, 65536 + 1000, 131072 + 5):
                reqs.append(("ok/accept-long-message", k, c, k.blob(c), rng.bytes_(total - k.n) + bytes(k.n), "accept"))
        lines = ["signmut H=%s sk=%s msg=%s cb=%s" % (k.H, hx(sk), hx(m), cb) for (_, k, c, sk, m, cb) in reqs]
        answers = [canon(a) for a in ctx.hz.batch(lines)]
        model_lines, follow = [], []
        for (cl, k, c, sk, m, cb), line, a in zip(reqs, lines, answers):
            ctx.evaluations += 1
            ctx.classes[("signmut/" + cl, cls_of(a))] = ctx.classes.get(("signmut/" + cl, cls_of(a)), 0) + 1
            if len(ctx.samples) < 6:
                ctx.samples.append({"request": line[:300], "class": cl, "library": a[:200]})
            if a.startswith("panic"):
                ctx.fail("sign_mut panicked", [line, json.dumps(cfg)], a, "ok / err")
                continue
            f = fields(a)
            m2 = unhx(f.get("msg", "-"))
            n = k.n
            trailer = m2[-n:] if len(m2) >= n else bytes(n)
            model_lines.append((line + " trailer=" + hx(trailer), a, line))
            calls = [] if f.get("cb") == "none" else f.get("cb", "").split(",")
            if cl.startswith("refuse"):
                if not a.startswith("err") or calls or m2 != m:
                    ctx.fail("sign_mut did not refuse cleanly (no callback, no leaf, message untouched)", [line], a[:200], "err cb=none msg=<unchanged>")
                continue
            if len(m2) != len(m) or m2[:-n] != m[:-n]:
                ctx.fail("sign_mut changed bytes outside the last n bytes", [line], m2.hex()[:100], m.hex()[:100])
            exp_succ = bytes(8) + b"\xff" * 8 + bytes(n) if c + 1 >= k.lifetime else k.blob(c + 1)
            if cb == "accept":
                if not a.startswith("ok") or len(calls) != 1 or unhx(calls[0]) != exp_succ:
                    ctx.fail("sign_mut did not consume exactly one leaf through the callback protocol", [line], a[:200], "ok cb=" + exp_succ.hex())
                    continue
                sig = unhx(f["sig"])
                for e in ("fn", "sig", "vsig"):
                    follow.append(Case(verify_line(k.H, m2, sig, k.vk, e), "verify/" + e, {"of": line}))
                follow.append(Case(sign_line(k.H, sk, m2), "plain-sign-of-returned-message", {"of": line, "sig": f["sig"]}))
            else:
                if a.startswith("ok") or len(calls) != 1:
                    ctx.fail("sign_mut released a signature although the callback rejected", [line], a[:200], "err cb=<one key>")
        # the model, given the trailer
        mres = ctx.dv.batch([x[0] for x in model_lines])
        for (ml, a, line), b in zip(model_lines, mres):
            if canon(b) != a:
                ctx.disagreements.append({"request": ml, "class": "signmut", "library": a, "model": canon(b), "library_observable": a, "model_observable": canon(b)})
        for c, a, b in ctx.both(follow, None):
            if c.cls.startswith("verify") and a != "ok":
                ctx.fail("the ordinary verifier rejects a sign_mut signature for the returned message", [c.meta["of"], c.line[:300]], a, "ok")
            if c.cls.startswith("plain") and fields(a).get("sig") != c.meta["sig"]:
                ctx.fail("sign_mut signature differs from the ordinary signature of the returned message", [c.meta["of"]], fields(a).get("sig", "")[:80], c.meta["sig"][:80])
    ctx.extra["configurations"] = CFGS_QUICK if ctx.tier == "quick" else CFGS_THOROUGH

"""C12: the Winternitz digit encoding is RFC-exact and domination-free."""
from .common import *
import rfc8554 as R

RULE = ("digits hook (the real append_checksum_to + coef) for all 12 (n, w): structured digests that exercise every digit index with every digit value "
        "and every attainable checksum value class (all-zero, all-one, single digit set/cleared), random digests; oracle: Appendix-B formulas (u, v, ls, p) "
        "computed independently; for rows whose ls differs from Appendix B a dominated digest pair is constructed and replayed")
ASSUMPTIONS = ["Appendix-B formulas as implemented in tools/rfc8554.py"]


def match_known(f, known):
    row = f.get("row")
    for k in known:
        m = k["match"]
        if row and m.get("kind") == "lmots-row" and (m["n"], m["w"]) == tuple(row[:2]) and m["ls"] == row[2]:
            return k
    return None


def run(ctx):
    if not ctx.open():
        return
    rng = ctx.rng
    rows = {}
    cases = [Case("row H=%s kind=lmots type=%d" % (H, t), "row", {"H": H, "t": t}) for H in ALL_H for t in (1, 2, 3, 4)]
    for c, a, b in ctx.both(cases, None):
        f = fields(a)
        H, t = c.meta["H"], c.meta["t"]
        n, w = HASHES[H], OTS_W[t]
        u, v, ls, p = R.appendix_b(n, w)
        rows[(H, t)] = (int(f.get("w", 0)), int(f.get("p", 0)), int(f.get("ls", 0)))
        if int(f.get("w", -1)) != w or int(f.get("p", -1)) != p:
            ctx.fail("LM-OTS row differs from Appendix B (w, p)", [c.line], a, "w=%d p=%d" % (w, p))
    cases = []
    for H in ALL_H:
        n = HASHES[H]
        for t in (1, 2, 3, 4):
            w = OTS_W[t]
            ds = [bytes(n), b"\xff" * n, bytes(range(n)), bytes([0x55]) * n, bytes([0xaa]) * n]
            for i in range(n):
                for val in ((0x01, 0x80, 0xff, 0x0f, 0x3c) if ctx.tier == "quick" else range(0, 256, 5)):
                    d = bytearray(n)
                    d[i] = val
                    ds.append(bytes(d))
                    d = bytearray(b"\xff" * n)
                    d[i] = val
                    ds.append(bytes(d))
            for _ in range(30 if ctx.tier == "quick" else 300):
                ds.append(rng.bytes_(n))
            for d in ds:
                cases.append(Case("digits H=%s type=%d digest=%s" % (H, t, hx(d)), "digits/n%d/w%d" % (n, w), {"H": H, "t": t, "d": d}))
    bad_rows = {}
    for c, a, b in ctx.both(cases, None):
        H, t, d = c.meta["H"], c.meta["t"], c.meta["d"]
        n, w = HASHES[H], OTS_W[t]
        exp = R.digits(d, n, w)
        got = [int(x) for x in a.split(" ")[1].split(",")] if a.startswith("ok") else None
        if got != exp:
            u, v, ls, p = R.appendix_b(n, w)
            lib_ls = rows.get((H, t), (0, 0, -1))[2]
            if got == R.digits(d, n, w, lib_ls) and lib_ls != ls:
                bad_rows.setdefault((n, w, lib_ls, ls), []).append((H, t, d, c.line))
            else:
                ctx.fail("chain positions differ from the RFC 8554 digits", [c.line], str(got)[:200], str(exp)[:200])
    # rows with a non-RFC shift: exhibit a dominated pair on the real code
    for (n, w, lib_ls, ls), lst in sorted(bad_rows.items()):
        H, t = lst[0][0], lst[0][1]
        # Q has digit sum S with low dropped bits set, Q' has one digit raised so that the dropped checksum bits absorb the difference
        u = 8 * n // w
        q1 = bytearray(n)          # all digits 0 -> checksum = u*(2^w-1)
        q2 = bytearray(n)
        q2[n - 1] = 1              # last digit raised by one -> checksum smaller by one
        r = ctx.both([Case("digits H=%s type=%d digest=%s" % (H, t, hx(bytes(q))), "dominate") for q in (q1, q2)], None)
        d1 = [int(x) for x in r[0][1].split(" ")[1].split(",")]
        d2 = [int(x) for x in r[1][1].split(" ")[1].split(",")]
        dominated = all(x >= y for x, y in zip(d2, d1)) or all(x >= y for x, y in zip(d1, d2))
        f = {"what": "checksum shift %d differs from the Appendix-B value %d for (n=%d, w=%d): %s" % (
            lib_ls, ls, n, w, "digit vector of digest B dominates that of digest A" if dominated else "digits differ from the RFC digits"),
            "requests": [r[0][0].line, r[1][0].line], "observed": "ls=%d" % lib_ls, "expected": "ls=%d" % ls, "row": [n, w, lib_ls], "dominated": dominated}
        ctx.oracle_failures.append(f)

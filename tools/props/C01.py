"""C01: every released signature verifies under the matching public key (all entry points)."""
from .common import *

RULE = ("keys: all 6 hashes x parameter lists of 1..8 levels (H2 hook height and H5, W1..W8, uniform and mixed); counters: 0, 1, "
        "every radix boundary +-1, last, random; messages of lengths {0,1,..,4096}; every released signature is verified "
        "through hss_verify, Signature+VerifyingKey and VerifierSignature+VerifyingKey; plus message lengths 0, 255..257, 65535..65537, 100000; buffers left behind by other keys (filled by their keygen, initialised by their signing call: shrunk slice and whole buffer); special seed values; a height-15 key with a buffer caching every level (library only)")
ASSUMPTIONS = ["the Impl model is hand-written; agreement with the library is shown only on the cases run",
               "hash functions are arbitrary functions of fixed output length in every theorem"]


def proj(c, a):
    k = c.line.split(" ")[0]
    if k == "keygen":
        if not a.startswith("ok"):
            return cls_of(a)
        f = fields(a)
        return "ok sklen=%d vk=%s.. vklen=%d" % (len(unhx(f["sk"])), f["vk"][:24], len(unhx(f["vk"])))
    if k == "sign":
        if not a.startswith("ok"):
            return cls_of(a)
        f = fields(a)
        s = unhx(f["sig"])
        return "ok len=%d %s" % (len(s), sig_shape(c.meta["n"], s))
    return cls_of(a)


def run(ctx):
    if not ctx.open():
        return
    rng = ctx.rng
    nkeys = 18 if ctx.tier == "quick" else 60
    keys = make_keys(ctx, spec_list(rng, ctx.tier, nkeys) + [("S32", [(3, 1), (3, 1)], bytes(32)), ("K16", [(2, 1)], bytes(16)), ("S24", [(3, 5)], b"\xff" * 24)], proj)
    # Seed objects built from 32 bytes (Seed::from): for the truncated hashes the bytes beyond the hash length are not part of
    # the seed; key generation from such an object must give the key pair of the n-byte seed (and so verify what sign produces)
    full_cases = []
    for H in ("S24", "S16", "K24", "K16", "S32"):
        n = HASHES[H]
        for ps in ([(3, 1)], [(2, 1), (3, 1)]):
            full = rng.bytes_(32)
            line = "keygen H=%s params=%s seedfull=%s aux=none" % (H, params_str(ps), hx(full))
            full_cases.append(Case(line, "keygen/seed-object-32-bytes", {"spec": (H, ps, full[:n]), "line": line}))
    for c, a, b in ctx.both(full_cases, proj):
        H, ps, seed = c.meta["spec"]
        if a.startswith("ok"):
            f = fields(a)
            k = Key(H, ps, seed, unhx(f["sk"]), unhx(f["vk"]))
            k.keygen_request = c.meta["line"]
            keys.append(k)
        else:
            ctx.fail("keygen from a 32-byte Seed object failed", [c.line], a[:100], "ok")
    # signing / key generation with auxiliary buffers the caller did not clear (first byte 0, arbitrary bytes behind it), all
    # hashes, top trees of height 5, leaves at the very end of the top tree included: released signatures must verify
    aux_sign = []
    foreign = {}
    for H in ALL_H:
        n = HASHES[H]
        for ps in ([(2, 5)], [(3, 5), (2, 1)]):
            seed = rng.bytes_(n)
            for L in (4 + n + (n << 1) + (n << 3) + 7, 4 + n + (n << 1) + (n << 3) + (n << 5), 2500):
                dirty = b"\0" + rng.bytes_(L - 1)
                r = ctx.both([Case(keygen_line(H, ps, seed, dirty), "keygen/dirty-aux")], proj)[0][1]
                if not r.startswith("ok"):
                    ctx.fail("keygen with an uncleared aux buffer failed", [keygen_line(H, ps, seed, dirty)[:300]], r[:100], "ok")
                    continue
                f = fields(r)
                k = Key(H, ps, seed, unhx(f["sk"]), unhx(f["vk"]))
                k.keygen_request = keygen_line(H, ps, seed, dirty)[:400]
                filled = unhx(f["aux"])
                for cnt in sorted({0, k.lifetime - 1, k.lifetime - 2, rng.randrange(k.lifetime)}):
                    for ax in (filled, b"\0" + rng.bytes_(L - 1)):
                        msg = gen_msg(rng, "quick")
                        aux_sign.append(Case(sign_line(H, k.blob(cnt), msg, "accept", ax), "sign/with-aux", {"key": k, "c": cnt, "msg": msg, "n": n}))
                # buffers other keys left behind: filled by another key's keygen, or initialised by another key's *signing* call on a
                # fresh buffer (marked, nodes stored, MAC field never written) - whole buffer and shrunk slice
                for (oseed, obuf, tag) in foreign.get(H, []):
                    if oseed != seed:
                        msg = gen_msg(rng, "quick")
                        cnt = rng.choice([0, 1, k.lifetime - 1])
                        aux_sign.append(Case(sign_line(H, k.blob(cnt), msg, "accept", obuf), "sign/with-aux-left-by-another-key/" + tag,
                                             {"key": k, "c": cnt, "msg": msg, "n": n}))
                if L == 2500:
                    prep = ctx.both([Case(sign_line(H, k.blob(2), b"prepare", "accept", bytes(L)), "sign/prepare-buffer", {"key": k, "c": 2, "msg": b"prepare", "n": n})], proj)[0][1]
                    pf = fields(prep)
                    if prep.startswith("ok") and pf.get("aux", "none") != "none":
                        used, rest = unhx(pf["aux"]), unhx(pf.get("rest", ""))
                        foreign.setdefault(H, []).extend([(seed, filled, "keygen"), (seed, used, "sign-shrunk"), (seed, used + rest, "sign-whole")])
    sign_cases = list(aux_sign)
    for k in keys:
        cs = boundary_counters(k.heights, rng, 2)
        if ctx.tier == "quick":
            cs = sorted(set(cs[:2] + rng.sample(cs, min(len(cs), 5)) + cs[-2:]))
        for c in cs:
            msg = gen_msg(rng, ctx.tier)
            sign_cases.append(Case(sign_line(k.H, k.blob(c), msg), "sign/L%d/%s" % (len(k.params), "rollover" if c and any(
                c % (1 << sum(k.heights[i:])) == 0 for i in range(1, len(k.heights))) else "plain"),
                {"key": k, "c": c, "msg": msg, "n": k.n}))
    # message lengths at integer-width boundaries (and the empty message), on a few keys
    for k in rng.sample(keys, min(len(keys), 3 if ctx.tier == "quick" else 8)):
        for ml in (0, 255, 256, 257, 65535, 65536, 65537, 100000):
            c = rng.randrange(k.lifetime)
            msg = rng.bytes_(ml)
            sign_cases.append(Case(sign_line(k.H, k.blob(c), msg), "sign/message-length-boundary", {"key": k, "c": c, "msg": msg, "n": k.n}))
    # a tall top tree (H15) with a buffer that caches every level (levels above 64 KiB included): library only - the model would need
    # hours for a 32768-leaf tree; the oracle is verification under the public key generated *without* a buffer
    from check import canon as _canon
    tH, tps, tseed = "S32", [(2, 7)], rng.bytes_(32)
    tall = [_canon(x) for x in ctx.hz.batch([keygen_line(tH, tps, tseed), keygen_line(tH, tps, tseed, bytes(1500000))])]
    ctx.evaluations += 2
    ctx.classes[("keygen/h15-all-levels-cached", cls_of(tall[1]))] = 1
    if not (tall[0].startswith("ok") and tall[1].startswith("ok")) or fields(tall[0]).get("vk") != fields(tall[1]).get("vk"):
        ctx.fail("a released signature does not verify under the public key of the same seed: key generation of a height-15 key with a large "
                 "auxiliary buffer gives another public key", [keygen_line(tH, tps, tseed, bytes(8))[:200] + "... (1500000 zero bytes)"], tall[1][:120], tall[0][:120])
    else:
        tvk, taux = unhx(fields(tall[0])["vk"]), unhx(fields(tall[1])["aux"])
        tcnt = [0, 2047, 2048, 4095, 4096, 8191, 8192, 16384, 32766, 32767] + [rng.randrange(32768) for _ in range(4)]
        tl = [sign_line(tH, sk_blob(tH, tps, tseed, c_), b"tall", "accept", taux) for c_ in tcnt]
        ta = [_canon(x) for x in ctx.hz.batch(tl)]
        vl = [verify_line(tH, b"tall", unhx(fields(x)["sig"]), tvk) for x in ta if x.startswith("ok")]
        va = [_canon(x) for x in ctx.hz.batch(vl)]
        ctx.evaluations += len(tl) + len(vl)
        ctx.classes[("sign/h15-all-levels-cached", "ok")] = sum(1 for x in ta if x.startswith("ok"))
        for c_, x in zip(tcnt, ta):
            if not x.startswith("ok"):
                ctx.fail("signing with an unexhausted key failed", ["height-15 key, counter %d, buffer filled by keygen" % c_], x[:160], "ok")
        for c_, x in zip([c_ for c_, x in zip(tcnt, ta) if x.startswith("ok")], va):
            if x != "ok":
                ctx.fail("a released signature does not verify under the public key of the same seed",
                         [keygen_line(tH, tps, tseed), "sign with the 1.4 MB buffer filled by keygen, counter %d (top-tree leaf %d)" % (c_, c_)], x, "ok")
    ver_cases = []
    for c, a, b in ctx.both(sign_cases, proj):
        k = c.meta["key"]
        if not a.startswith("ok"):
            ctx.fail("signing with an unexhausted key failed", [keygen_line(k.H, k.params, k.seed), c.line], a[:200], "ok sig=...")
            continue
        sig = unhx(fields(a)["sig"])
        for entry in ("fn", "sig", "vsig"):
            ver_cases.append(Case(verify_line(k.H, c.meta["msg"], sig, k.vk, entry), "verify/" + entry, {"sign": c.line, "key": k}))
    for c, a, b in ctx.both(ver_cases, proj):
        if a != "ok":
            k = c.meta["key"]
            ctx.fail("a released signature does not verify under the public key of the same seed",
                     [getattr(k, "keygen_request", keygen_line(k.H, k.params, k.seed)), c.meta["sign"], c.line], a[:200], "ok")

"""C02: verification accepts exactly the triples RFC 8554 accepts."""
from .common import *
import rfc8554 as R

RULE = ("valid triples from library signatures (all hashes, 1..4+ levels, mixed parameters) plus structure-aware mutations: bit flips in "
        "every field class (level count, q, type codes, randomizer, chain values, path nodes, child keys, public-key fields, message), "
        "truncation/extension at field boundaries and by one byte, splices across keys/levels/hashes, chain truncation with the message "
        "replaced by a child public key; oracle = independent RFC 8554 verifier (tools/rfc8554.py, Appendix-B formulas); signature/key extensions at 8/16-bit length boundaries (255, 256, 65535, 65536, 65537, 2*65536); 7- and 8-level keys, level fields 0, 1, 7, 8, 9, 16, 0x100+L, 2^32-1 in key and signature; all triples again under the C14 configurations against the RFC verifier with that build\'s level limit")
ASSUMPTIONS = ["the independent verifier uses the library's type-code numbering (1-4, 5-9, hook height 1) for every hash, as the property states "
               "('for the selected hash function')",
               "for the three LM-OTS rows whose checksum shift differs from Appendix B (known finding C12) the oracle uses the library's shift; "
               "those rows are reported under C12/C07"]

LIB_LS = {1: 7, 2: 6, 4: 4, 8: 0}


def lib_ls(n, w):
    return LIB_LS[w]


def mutations(rng, k, msg, sig, tier, wide=True):
    """yield (class, msg, sig, pk)"""
    n = k.n
    nspk, lv = parse_hss_sig(n, sig)
    out = []

    def flip(b, pos):
        bb = bytearray(b)
        bb[pos] ^= 1 << rng.randrange(8)
        return bytes(bb)

    reps = 2 if tier == "quick" else 6
    # field classes of the signature
    fieldpos = [("levelcount", list(range(0, 4)))]
    for li, l in enumerate(lv):
        s = l["start"]
        fieldpos.append(("q", list(range(s, s + 4))))
        fieldpos.append(("otstype", list(range(s + 4, s + 8))))
        fieldpos.append(("randomizer", list(range(s + 8, s + 8 + n))))
        fieldpos.append(("chainvalue", list(range(s + 8 + n, s + 8 + n + n * l["p"]))))
        o = s + 8 + n + n * l["p"]
        fieldpos.append(("lmstype", list(range(o, o + 4))))
        fieldpos.append(("pathnode", list(range(o + 4, o + 4 + n * l["h"]))))
        if "child_pk" in l:
            fieldpos.append(("childpk", list(range(l["child_pk_off"], l["child_pk_off"] + 24 + n))))
    for name, poss in fieldpos:
        for _ in range(reps):
            out.append(("flip/" + name, msg, flip(sig, rng.choice(poss)), k.vk))
    for name, poss in [("pk-level", range(0, 4)), ("pk-lmstype", range(4, 8)), ("pk-otstype", range(8, 12)),
                       ("pk-I", range(12, 28)), ("pk-root", range(28, 28 + n))]:
        for _ in range(reps):
            out.append(("flip/" + name, msg, sig, flip(k.vk, rng.choice(list(poss)))))
    if msg:
        out.append(("flip/message", flip(msg, rng.randrange(len(msg))), sig, k.vk))
    out.append(("msg/extended", msg + b"\0", sig, k.vk))
    out.append(("msg/truncated", msg[:-1] if msg else b"\1", sig, k.vk))
    # truncation / extension
    cuts = {len(sig) - 1, len(sig) - n, 4, lv[-1]["start"], lv[-1]["start"] + 8}
    for c in sorted(cuts):
        if 0 <= c < len(sig):
            out.append(("sig/truncated", msg, sig[:c], k.vk))
    out.append(("sig/extended", msg, sig + b"\0", k.vk))
    out.append(("sig/extended", msg, sig + rng.bytes_(n), k.vk))
    # extensions at integer-width boundaries (a length computed or compared in 8/16 bits would wrap exactly here)
    for ext in ((255, 256, 65535 - len(sig), 65536 - len(sig), 65535, 65536, 65537, 2 * 65536) if wide else ()):
        if ext > 0:
            out.append(("sig/extended-width-boundary", msg, sig + bytes([rng.randrange(256)]) * ext, k.vk))
    if wide:
        out.append(("pk/extended-width-boundary", msg, sig, k.vk + b"\0" * 65536))
        out.append(("pk/extended-width-boundary", msg, sig, k.vk + b"\0" * 256))
    out.append(("pk/truncated", msg, sig, k.vk[:-1]))
    out.append(("pk/extended", msg, sig, k.vk + b"\7"))
    # consistent re-typing: change a type code AND resize the dependent part so that the whole signature still parses
    for li, l in enumerate(lv):
        o = l["end"] - n * l["h"] - 4            # offset of the LMS type of this signature
        for new_lms in (1, 5, 6, 7):
            if new_lms == l["lms"]:
                continue
            nh = LMS_H[new_lms]
            path = sig[o + 4:o + 4 + n * l["h"]]
            new_path = (path + rng.bytes_(n * nh))[:n * nh]
            out.append(("retype/lms-%s" % ("taller" if nh > l["h"] else "shorter"), msg,
                        sig[:o] + u32(new_lms) + new_path + sig[l["end"]:], k.vk))
        for new_ots in (1, 2, 3, 4):
            if new_ots == l["ots"]:
                continue
            np_ = CHAINS[(n, OTS_W[new_ots])]
            ys = sig[l["start"] + 8 + n:l["start"] + 8 + n + n * l["p"]]
            new_ys = (ys + rng.bytes_(n * np_))[:n * np_]
            out.append(("retype/ots", msg, sig[:l["start"] + 4] + u32(new_ots) + sig[l["start"] + 8:l["start"] + 8 + n] + new_ys +
                        sig[l["start"] + 8 + n + n * l["p"]:], k.vk))
        # leaf index just outside / far outside the tree, everything else intact
        for q in (1 << l["h"], (1 << l["h"]) + l["q"], 2 ** 32 - 1):
            out.append(("q/out-of-range", msg, sig[:l["start"]] + u32(q) + sig[l["start"] + 4:], k.vk))
        if "child_pk" in l:
            # the signed child key announces other types than the signature that is verified with it
            for off, vals in ((l["child_pk_off"], (1, 5, 6)), (l["child_pk_off"] + 4, (1, 2, 3, 4))):
                for v in vals:
                    out.append(("retype/child-key-field", msg, sig[:off] + u32(v) + sig[off + 4:], k.vk))
    for new_lms in (1, 5, 6, 7):
        out.append(("retype/pk-lms", msg, sig, k.vk[:4] + u32(new_lms) + k.vk[8:]))
    for new_ots in (1, 2, 3, 4):
        out.append(("retype/pk-ots", msg, sig, k.vk[:8] + u32(new_ots) + k.vk[12:]))
    # level-count games
    out.append(("levels/sig+1", msg, u32(nspk + 1) + sig[4:], k.vk))
    out.append(("levels/pk+1", msg, sig, u32(nspk + 2) + k.vk[4:]))
    for v in (0, 1, 7, 8, 9, 16, 0x100 + nspk + 1, 0x10000 + nspk + 1, 2 ** 32 - 1):
        if v != nspk + 1:
            out.append(("levels/pk-field", msg, sig, u32(v) + k.vk[4:]))
            out.append(("levels/sig-field", msg, u32((v - 1) % 2 ** 32) + sig[4:], k.vk))
    if nspk >= 1:
        l0 = lv[0]
        first = sig[l0["start"]:l0["end"]]
        child = l0["child_pk"]
        # chain truncation: the first LMS signature alone, message := child public key
        out.append(("chain/truncated-key-says-L", child, u32(0) + first, k.vk))
        out.append(("chain/truncated-key-says-1", child, u32(0) + first, u32(1) + k.vk[4:]))     # RFC accepts this one
        # drop the top level: remaining chain under the child key
        out.append(("chain/subchain-under-child", msg, u32(nspk - 1) + sig[l0["child_pk_off"] + 24 + n:], u32(nspk) + child))  # RFC accepts
        out.append(("chain/subchain-under-root", msg, u32(nspk - 1) + sig[l0["child_pk_off"] + 24 + n:], k.vk))
    return out


def run(ctx):
    if not ctx.open():
        return
    rng = ctx.rng
    nkeys = 10 if ctx.tier == "quick" else 30
    specs = spec_list(rng, ctx.tier, nkeys, max_levels=5)
    # keys with the maximum number of levels (and one below it): the level-count checks at the capacity of the level containers
    specs += [("S16", [(3, 1)] * 8, rng.bytes_(16)), ("K24", [(3, 1), (2, 1), (3, 1), (3, 1), (2, 1), (3, 1), (3, 1)], rng.bytes_(24))]
    keys = make_keys(ctx, specs, proj_class)
    sign_cases = []
    for k in keys:
        for c in rng.sample(boundary_counters(k.heights, rng, 2), 2):
            m = gen_msg(rng, "quick")
            sign_cases.append(Case(sign_line(k.H, k.blob(c), m), "sign", {"key": k, "msg": m}))
    triples = []
    signed = []
    for c, a, b in ctx.both(sign_cases, proj_class):
        if a.startswith("ok"):
            sig = unhx(fields(a)["sig"])
            k = c.meta["key"]
            signed.append((k, c.meta["msg"], sig))
            triples.append(("valid", k.H, c.meta["msg"], sig, k.vk))
            for (cl, m, s, p) in mutations(rng, k, c.meta["msg"], sig, ctx.tier, wide=(len(signed) <= (4 if ctx.tier == "quick" else 12))):
                triples.append((cl, k.H, m, s, p))
    # splices across keys / hashes
    for _ in range(10 if ctx.tier == "quick" else 60):
        (k1, m1, s1), (k2, m2, s2) = rng.sample(signed, 2)
        triples.append(("splice/other-key", k1.H, m1, s1, k2.vk))
        triples.append(("splice/other-sig", k1.H, m1, s2, k1.vk))
        if k1.n == k2.n:
            _, l1 = parse_hss_sig(k1.n, s1)
            _, l2 = parse_hss_sig(k2.n, s2)
            # replace the last LMS signature of s1 by the last LMS signature of s2
            triples.append(("splice/last-lms-sig", k1.H, m1, s1[:l1[-1]["start"]] + s2[l2[-1]["start"]:], k1.vk))
        other = rng.choice([h for h in ALL_H if HASHES[h] == k1.n and h != k1.H] or [k1.H])
        triples.append(("splice/other-hash", other, m1, s1, k1.vk))
    for _ in range(10 if ctx.tier == "quick" else 50):
        k = rng.choice(keys)
        triples.append(("random", k.H, rng.bytes_(5), rng.bytes_(rng.choice([0, 3, 4, 8, 60, 1300])), k.vk))
    cases = []
    for (cl, H, m, s, p) in triples:
        e = rng.choice(["fn", "fn", "sig", "vsig"]) if cl != "valid" else "fn"
        cases.append(Case(verify_line(H, m, s, p, e), "verify/" + cl, {"t": (H, m, s, p)}))
    accepted_mut = 0
    for c, a, b in ctx.both(cases, proj_class):
        H, m, s, p = c.meta["t"]
        exp = R.hss_verify(H, m, s, p, ls_of=lib_ls)
        if a.startswith("panic"):
            continue  # C06's business
        if (a == "ok") != exp:
            ctx.fail("verify disagrees with the independent RFC 8554 verifier", [c.line], a, "ok" if exp else "err")
        if a == "ok" and not c.cls.endswith("/valid"):
            accepted_mut += 1
    ctx.extra["accepted_non_valid_triples (all also accepted by the RFC verifier)"] = accepted_mut
    # the Lean RFC 8554 specification (Spec/Rfc8554.lean; proved equal to the verifier model in Props/C02) is executed on the
    # same triples and compared with the independent Python verifier: this validates the *transcription* of the RFC in Lean
    if ctx.dv:
        lines = ["specverify H=%s msg=%s sig=%s pk=%s" % (c.meta["t"][0], hx(c.meta["t"][1]), hx(c.meta["t"][2]), hx(c.meta["t"][3])) for c in cases]
        spec = ctx.dv.batch(lines)
        nspec = 0
        for c, ln, sp in zip(cases, lines, spec):
            H, m, s, p = c.meta["t"]
            exp = R.hss_verify(H, m, s, p, ls_of=lib_ls)
            nspec += 1
            if (sp.strip() == "ok") != exp:
                ctx.tie_failures.append("Lean RFC specification and the independent Python RFC verifier disagree on `%s` (Lean: %s, Python: %s)" % (ln[:200], sp, exp))
        ctx.extra["triples_checked_against_lean_rfc_spec"] = nspec

    # the verifier of a constrained build must accept exactly the same triples as long as the level count fits the build: the signer-side
    # limits (maximum heights, minimum Winternitz parameters) are not verification rules (C14 configurations; triples from the default build)
    from . import C14
    small = [c for c in cases if len(c.line) < 40000]
    for cfg in (C14.CONFIGS_QUICK if ctx.tier == "quick" else C14.CONFIGS_THOROUGH):
        Lmax = int(cfg["HBS_LMS_MAX_ALLOWED_HSS_LEVELS"])
        if not ctx.open(cfg):
            continue
        # the owned Signature object of a build holds at most MAX_HSS_SIGNATURE_LENGTH bytes (a build-time capacity, C14): a longer
        # signature cannot be constructed there and `entry=sig` answers err before any verification; the slice-based entry points
        # (`fn`, `vsig`) have no such capacity
        consts = fields(ctx.both([Case("consts", "cfg/consts")], None)[0][1])
        cap = int(consts.get("MAX_HSS_SIGNATURE_LENGTH", "65535"))
        for c, a, b in ctx.both([Case(c.line, "cfg/" + c.cls, c.meta) for c in small], proj_class):
            H, m, s_, p_ = c.meta["t"]
            exp = R.hss_verify(H, m, s_, p_, max_levels=Lmax, ls_of=lib_ls)
            if c.line.endswith("entry=sig") and len(s_) > cap:
                exp = False
            if a.startswith("panic"):
                if exp:
                    ctx.fail("verify disagrees with the independent RFC 8554 verifier: a valid triple makes the verifier of the build %s panic" % json.dumps(cfg), [c.line], a, "ok")
                continue
            if (a == "ok") != exp:
                ctx.fail("verify disagrees with the independent RFC 8554 verifier in the build %s" % json.dumps(cfg), [c.line], a, "ok" if exp else "err")

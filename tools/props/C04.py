"""C04: a signature is released only after the advanced key was handed over and accepted."""
from .common import *

RULE = ("sign with callback outcome {accept, reject} x key states (first, middle, radix boundaries, last, wiped, beyond) x failing preconditions "
        "(wrong length, bad parameter byte) x {no aux, fresh aux, filled aux, corrupted aux}; oracle on the library's answers: ok => exactly one "
        "callback with the complete successor key and accept; err => no callback, or one rejected callback; never more than one; keys of 35 and 40 bits total height (7 and 8 levels of H5) at their boundary and last states; the protocol under the C14 configurations with keys at the largest permitted parameters of every level; try_sign on the in-memory key at first / last / random states")
ASSUMPTIONS = ["the order of effects inside one call is observed through the callback trace only"]


def successor(k, c):
    if c + 1 >= k.lifetime:
        return bytes(8) + b"\xff" * 8 + bytes(k.n)
    return k.blob(c + 1)


def proj(c, a):
    f = fields(a)
    if c.line.startswith("sign "):
        return cls_of(a) + " cb=" + f.get("cb", "?")
    return cls_of(a)


def run(ctx):
    if not ctx.open():
        return
    rng = ctx.rng
    specs = spec_list(rng, ctx.tier, 8 if ctx.tier == "quick" else 24, max_levels=4)
    # keys whose total height lies in 32..63 bits (counter arithmetic beyond 32 bits), affordable because every tree is an H5 tree
    specs += [("S16", [(3, 5)] * 7, rng.bytes_(16)), ("K16", [(2, 5)] * 8, rng.bytes_(16))]
    if ctx.tier == "thorough":
        specs += [("S24", [(3, 5), (2, 5), (3, 5), (3, 5), (2, 5), (3, 5), (3, 5)], rng.bytes_(24)), ("S32", [(3, 5)] * 6 + [(4, 5)], rng.bytes_(32))]
    keys = make_keys(ctx, specs, proj_class)
    fills = [Case(keygen_line(k.H, k.params, k.seed, bytes(1200)), "keygen/aux", {"key": k}) for k in keys]
    auxof = {}
    for c, a, b in ctx.both(fills, proj_class):
        if a.startswith("ok"):
            auxof[id(c.meta["key"])] = unhx(fields(a)["aux"])
    cases = []
    for k in keys:
        cs = boundary_counters(k.heights, rng, 1)
        if ctx.tier == "quick":
            cs = sorted(set(rng.sample(cs, min(4, len(cs))) + [k.lifetime - 1]))
        # a counter beyond the lifetime cannot be produced by the library; the key is then used modulo its lifetime and the
        # successor is the wiped key (the properties demand no rejection here)
        cs = cs + [k.lifetime, k.lifetime + 5]
        filled = auxof.get(id(k))
        for c in cs:
            for cb in ("accept", "reject"):
                auxes = [None]
                if rng.random() < 0.5:
                    auxes.append(bytes(rng.choice([1, 40, 500])))
                if filled and rng.random() < 0.5:
                    auxes.append(filled)
                    bad = bytearray(filled)
                    bad[rng.randrange(len(bad))] ^= 4
                    auxes.append(bytes(bad))
                for ax in auxes:
                    cases.append(Case(sign_line(k.H, k.blob(c), gen_msg(rng), cb, ax), "sign/%s/%s" % (cb, "aux" if ax else "noaux"),
                                      {"key": k, "c": c, "cb": cb}))
        for nm, blob in (("wiped", bytes(8) + b"\xff" * 8 + bytes(k.n)), ("short", k.blob(0)[:-1]),
                         ("long", k.blob(0) + b"\0"), ("badparam", k.blob(0)[:8] + b"\x17" + k.blob(0)[9:]), ("empty", b"")):
            for cb in ("accept", "reject"):
                cases.append(Case(sign_line(k.H, blob, b"x", cb), "sign/pre-" + nm, {"key": k, "c": None, "cb": cb}))
    # parameter sets whose signature length straddles the 65535-byte limit of the signature object: whatever the library decides
    # (refuse, or sign), the protocol must hold - in particular no callback when no signature can be produced
    for H in ("S32", "K32"):
        seed = rng.bytes_(32)
        for ps in ([(1, 5)] * 7 + [(2, 5)], [(2, 5)] + [(1, 5)] * 7, [(1, 1)] * 7 + [(2, 1)], [(1, 1)] * 8, [(1, 5)] * 6 + [(2, 5)] * 2, [(1, 5)] * 7 + [(3, 1)]):
            pk = Key(H, ps, seed, sk_blob(H, ps, seed, 0), b"")
            for cb in ("accept", "reject"):
                for ax in (None, bytes(300)):
                    cases.append(Case(sign_line(H, pk.blob(7), b"limit", cb, ax), "sign/siglen-limit/%s" % cb, {"key": pk, "c": 7, "cb": cb, "limit": True}))
    # the in-memory signing key goes through the same protocol: after try_sign it must hold the complete successor (at the last
    # leaf: the wiped key), never a mixture of old and new bytes
    tcases = []
    for k in keys:
        for c in sorted({0, 1, k.lifetime - 2, k.lifetime - 1, rng.randrange(k.lifetime)}):
            if 0 <= c < k.lifetime:
                tcases.append(Case(trysign_line(k.H, k.blob(c), gen_msg(rng), auxof.get(id(k)) if rng.random() < 0.3 else None), "trysign/in-memory-key",
                                   {"key": k, "c": c}))
    for c, a, b in ctx.both(tcases, lambda c, a: cls_of(a) + " sk=" + str(fields(a).get("sk"))):
        k, cnt = c.meta["key"], c.meta["c"]
        if not a.startswith("ok") or unhx(fields(a).get("sk", "")) != successor(k, cnt):
            ctx.fail("after try_sign the in-memory signing key does not hold the complete successor key", [c.line], a[-200:], "sk=" + hx(successor(k, cnt)))
    for c, a, b in ctx.both(cases, proj):
        k, cnt, cb = c.meta["key"], c.meta["c"], c.meta["cb"]
        if a.startswith("panic"):
            f = fields(a)
            if f.get("cb", "none") != "none":
                ctx.fail("the callback was invoked (the key advanced) although no signature was produced: signing panicked afterwards", [c.line], a[:300], "no callback when no signature can be produced")
            continue
        if c.meta.get("limit") and a.startswith("err") and fields(a).get("cb") == "none":
            continue   # refused parameter set: nothing happened (correct)
        f = fields(a)
        calls = [] if f.get("cb") == "none" else f.get("cb", "").split(",")
        if len(calls) > 1:
            ctx.fail("callback invoked more than once", [c.line], a[:300], "at most one invocation")
        if a.startswith("ok"):
            if cb != "accept" or len(calls) != 1:
                ctx.fail("signature released without exactly one accepted callback", [c.line], a[:300], "err")
            elif cnt is None:
                ctx.fail("signature released although a precondition fails", [c.line], a[:300], "err cb=none")
            elif unhx(calls[0]) != successor(k, cnt):
                ctx.fail("callback did not receive the complete successor key", [c.line], calls[0], hx(successor(k, cnt)))
        else:
            if cnt is None and calls:
                ctx.fail("callback invoked although no signature could be produced", [c.line], a[:300], "err cb=none")
            if cnt is not None and cb == "accept":
                ctx.fail("signing failed for a usable key and an accepting callback", [c.line], a[:300], "ok")
            if cnt is not None and cb == "reject" and len(calls) != 1:
                ctx.fail("rejecting callback was not consulted exactly once", [c.line], a[:300], "err cb=<one key>")
    run_configs(ctx)


def protocol_oracle(ctx, c, a, k, cnt, cb, where=""):
    if a.startswith("panic"):
        f = fields(a)
        if f.get("cb", "none") != "none":
            ctx.fail("the callback was invoked (the key advanced) although no signature was produced: signing panicked afterwards" + where, [c.line], a[:300], "no callback when no signature can be produced")
        else:
            ctx.fail("signing panicked" + where, [c.line], a[:300], "ok or err")
        return
    f = fields(a)
    calls = [] if f.get("cb") == "none" else f.get("cb", "").split(",")
    if len(calls) > 1:
        ctx.fail("callback invoked more than once" + where, [c.line], a[:300], "at most one invocation")
    if a.startswith("ok"):
        if cb != "accept" or len(calls) != 1 or unhx(calls[0]) != successor(k, cnt):
            ctx.fail("signature released without exactly one accepted callback carrying the complete successor key" + where, [c.line], a[:300], "cb=" + hx(successor(k, cnt)))
    else:
        if cb == "accept":
            ctx.fail("signing failed for a usable key and an accepting callback" + where, [c.line], a[:300], "ok")
        elif len(calls) != 1:
            ctx.fail("rejecting callback was not consulted exactly once" + where, [c.line], a[:300], "err cb=<one key>")


def run_configs(ctx):
    """the same protocol in constrained builds, with keys at the largest parameters each level permits (signature buffers sized by
    build-time capacities are filled to the brim there)"""
    from . import C14
    rng = ctx.rng
    for cfg in (C14.CONFIGS_QUICK if ctx.tier == "quick" else C14.CONFIGS_THOROUGH):
        L = int(cfg["HBS_LMS_MAX_ALLOWED_HSS_LEVELS"])
        hs = [int(x) for x in cfg["HBS_LMS_TREE_HEIGHTS"].split(", ")]
        ws = [int(x) for x in cfg["HBS_LMS_WINTERNITZ_PARAMETERS"].split(", ")]
        if not ctx.open(cfg):
            continue
        lists = []
        full = [({1: 1, 2: 2, 4: 3, 8: 4}[ws[i]], max(t for t in (1, 5, 6) if LMS_H[t] <= min(hs[i], 10))) for i in range(L)]
        lists.append(full)
        for l in range(1, L):
            lists.append(full[:l])
        cases = []
        for ps in lists:
            for H in ("S32", "K24"):
                seed = rng.bytes_(HASHES[H])
                k = Key(H, ps, seed, sk_blob(H, ps, seed, 0), b"")
                for cnt in sorted({0, k.lifetime - 1, rng.randrange(k.lifetime)}):
                    for cb in ("accept", "reject"):
                        for ax in (None, bytes(1500)):
                            cases.append(Case(sign_line(H, k.blob(cnt), b"configured", cb, ax), "cfg/sign/%s/%s" % (cb, "aux" if ax else "noaux"), {"key": k, "c": cnt, "cb": cb}))
        for c, a, b in ctx.both(cases, proj):
            protocol_oracle(ctx, c, a, c.meta["key"], c.meta["c"], c.meta["cb"], " (build %s)" % json.dumps(cfg))

"""C09: key generation and signing are pure functions of their inputs."""
from .common import *

RULE = ("the same keygen / sign / try_sign requests are executed: first, after many unrelated operations on other keys, 16-fold concurrently on the harness's worker "
        "threads, in a second harness process, and through the byte-level function vs the in-memory SigningKey; all answers must be byte-identical to each other and "
        "to the single model value; plus the kernel-checked verdict that the library has no ambient-state source outside the fast_verify feature; Seed objects built from 32 bytes whose tail beyond the hash length varies (same key, reload-and-verify); the same in a build with the fast_verify feature at roll-over counters (plain keygen / sign / try_sign)")
ASSUMPTIONS = ["that safe Rust without shared mutable state cannot make a result depend on scheduling is an argument about Rust's type system (trusted, not formalised)",
               "process-level repetition is limited to a second harness process on the same machine"]


def run(ctx):
    if not ctx.open():
        return
    rng = ctx.rng
    specs = spec_list(rng, ctx.tier, 8 if ctx.tier == "quick" else 24, max_levels=5)
    observed = []
    for (H, ps, seed) in specs:
        observed.append(keygen_line(H, ps, seed))
        hs = heights_of(ps)
        for c in rng.sample(boundary_counters(hs, rng, 1), 2):
            msg = gen_msg(rng)
            observed.append(sign_line(H, sk_blob(H, ps, seed, c), msg))
            observed.append(trysign_line(H, sk_blob(H, ps, seed, c), msg))
    noise = []
    for (H, ps, seed) in spec_list(rng, ctx.tier, 6, max_levels=3):
        noise.append(keygen_line(H, ps, seed))
        noise.append(sign_line(H, sk_blob(H, ps, seed, 1), b"noise"))
        noise.append(verify_line(H, b"x", b"\0\0\0\0", b"\0\0\0\1"))
    first = {}
    for c, a, b in ctx.both([Case(l, "first") for l in observed], None):
        first[c.line] = a
    # after unrelated operations, interleaved, 16-fold concurrently
    batch = []
    for i in range(16 if ctx.tier == "quick" else 48):
        xs = [Case(l, "concurrent") for l in observed] + [Case(l, "noise") for l in noise]
        rng.shuffle(xs)
        batch += xs
    for c, a, b in ctx.both(batch, None, model=False):
        if c.cls == "concurrent" and a != first[c.line]:
            ctx.fail("identical inputs gave different outputs (repetition / concurrency / unrelated operations in between)", [c.line], a[:200], first[c.line][:200])
    # another process
    ok, path = build_harness()
    hz2 = harness(path, threads=3)
    for l, a in zip(observed, hz2.batch(observed)):
        ctx.evaluations += 1
        ctx.classes[("other-process", cls_of(a))] = ctx.classes.get(("other-process", cls_of(a)), 0) + 1
        from check import canon
        if canon(a) != first[l]:
            ctx.fail("identical inputs gave different outputs in another process", [l], a[:200], first[l][:200])
    hz2.close()
    # in-memory key == byte-level function
    for l in observed:
        if l.startswith("sign "):
            t = l.replace("sign ", "trysign ", 1).replace(" cb=accept", "")
            fa, fb = fields(first[l]), fields(first.get(t, ""))
            if first[l].startswith("ok") and (fa.get("sig") != fb.get("sig") or fa.get("cb") != fb.get("sk")):
                ctx.fail("SigningKey::try_sign and the byte-level sign disagree (signature or successor key)", [l, t], first.get(t, "")[:200], first[l][:200])
    # results must not depend on the scratch (aux) buffer a caller happens to pass, in particular not on what *other* keys did
    # with it before: fresh, left behind by another key's sign, filled by another key's keygen
    for H in ("S32", "K24"):
        n = HASHES[H]
        ps = [(2, 5), (3, 1)]
        seedA, seedB = rng.bytes_(n), rng.bytes_(n)
        prep = ctx.both([Case(sign_line(H, sk_blob(H, ps, seedA, 2), b"A", "accept", bytes(600)), "scratch/prepare-by-sign"),
                         Case(keygen_line(H, ps, seedA, bytes(600)), "scratch/prepare-by-keygen")], None)
        left_by_sign = unhx(fields(prep[0][1]).get("aux", "-"))
        left_by_keygen = unhx(fields(prep[1][1]).get("aux", "-"))
        reqs = []
        for tag, ax in (("none", None), ("fresh", bytes(600)), ("left-by-other-keys-sign", left_by_sign), ("left-by-other-keys-keygen", left_by_keygen)):
            reqs.append(Case(sign_line(H, sk_blob(H, ps, seedB, 5), b"B", "accept", ax), "scratch/sign/" + tag))
            reqs.append(Case(keygen_line(H, ps, seedB, ax), "scratch/keygen/" + tag))
        res = ctx.both(reqs, None)
        for i in (0, 1):
            base = fields(res[i][1])
            for c, a, b in res[i::2]:
                f = fields(a)
                if (f.get("sig"), f.get("cb"), f.get("sk"), f.get("vk")) != (base.get("sig"), base.get("cb"), base.get("sk"), base.get("vk")):
                    ctx.fail("the result depends on the scratch buffer another key used before (%s)" % c.cls, [c.line[:300]], a[:120], res[i][1][:120])
    # key generation depends on the seed only: bytes a Seed object carries beyond the hash length (Seed::from([u8; 32]) with a truncated
    # hash) are not inputs; the generated key reloaded from its bytes must continue under the same public key
    tcases = []
    for H in ("S24", "S16", "K24", "K16", "S32"):
        n = HASHES[H]
        ps = rng.choice([[(3, 1)], [(2, 1), (3, 1)], [(3, 5)]])
        seed = rng.bytes_(n)
        plain = keygen_line(H, ps, seed)
        tcases.append(Case(plain, "seed-object/plain", {"g": (H, ps, seed), "plain": plain}))
        for tail in (bytes(32 - n), b"\xa5" * (32 - n), rng.bytes_(32 - n)):
            tcases.append(Case("keygen H=%s params=%s seedfull=%s aux=none" % (H, params_str(ps), hx(seed + tail)), "seed-object/with-tail",
                               {"g": (H, ps, seed), "plain": plain}))
    res = ctx.both(tcases, None)
    plain_ans = {c.line: a for c, a, b in res if c.cls == "seed-object/plain"}
    vcases = []
    for c, a, b in res:
        if a != plain_ans[c.meta["plain"]]:
            ctx.fail("key generation depends on bytes of the Seed object that are not part of the seed", [c.line, c.meta["plain"]], a[:200], plain_ans[c.meta["plain"]][:200])
        elif a.startswith("ok") and c.cls == "seed-object/with-tail":
            H, ps, seed = c.meta["g"]
            f = fields(a)
            vcases.append(Case(sign_line(H, unhx(f["sk"]), b"reloaded"), "seed-object/sign-reloaded", {"H": H, "vk": unhx(f["vk"])}))
    ver = []
    for c, a, b in ctx.both(vcases, None):
        if a.startswith("ok"):
            ver.append(Case(verify_line(c.meta["H"], b"reloaded", unhx(fields(a)["sig"]), c.meta["vk"]), "seed-object/verify-reloaded"))
    for c, a, b in ctx.both(ver, None):
        if a != "ok":
            ctx.fail("a key reloaded from its bytes does not continue under the generated public key", [c.line[:300]], a, "ok")
    fast_verify_build(ctx)
    # ambient inventory (kernel-checked in Props/C09.lean); repeat the reading here for the evidence
    meta = json.load(open(os.path.join(LEAN, "HbsLms", "Generated", "meta.json")))
    bad = [a for a in meta["ambient"] if not a["fast_verify_only"]]
    ctx.extra["ambient_sites"] = meta["ambient"]
    for a in bad:
        ctx.fail("ambient-state source outside the fast_verify feature", ["%s:%d" % (a["file"], a["line"])], a["kind"] + ": " + a["text"], "no static / interior mutability / RNG / clock / env / fs / unsafe")


def fast_verify_build(ctx):
    """the same purity in a build with the cargo feature fast_verify: only sign_mut may consult the RNG; keygen, sign and try_sign must stay
    functions of their inputs (and equal the model), in particular at tree roll-overs of multi-level keys"""
    from . import C15
    rng = ctx.rng
    if not ctx.open(C15.CFGS_QUICK[0], features=["fast_verify"]):
        return
    observed = []
    for i, ps in enumerate([[(3, 1), (3, 1)], [(2, 1), (3, 5)], [(3, 5), (3, 1)], [(3, 1), (2, 1), (3, 1)], [(3, 1)]]):
        H = ALL_H[i % 6]
        seed = rng.bytes_(HASHES[H])
        observed.append(keygen_line(H, ps, seed))
        hs = heights_of(ps)
        cs = boundary_counters(hs, rng, 1)
        for c in (cs if ctx.tier == "thorough" else sorted(set(cs[:3] + rng.sample(cs, min(6, len(cs))) + cs[-2:]))):
            msg = gen_msg(rng)
            observed.append(sign_line(H, sk_blob(H, ps, seed, c), msg))
            observed.append(trysign_line(H, sk_blob(H, ps, seed, c), msg))
    first = {}
    for c, a, b in ctx.both([Case(l, "fast_verify-build/first") for l in observed], None):
        first[c.line] = a
    batch = []
    for i in range(6 if ctx.tier == "quick" else 24):
        xs = [Case(l, "fast_verify-build/repeated") for l in observed]
        rng.shuffle(xs)
        batch += xs
    for c, a, b in ctx.both(batch, None, model=False):
        if a != first[c.line]:
            ctx.fail("identical inputs gave different outputs in a build with the fast_verify feature (keygen / sign / try_sign must not depend on the RNG)",
                     [c.line], a[:200], first[c.line][:200])

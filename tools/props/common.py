"""generators / projections shared by the property modules"""
import os
import sys

sys.path.insert(0, os.path.dirname(os.path.dirname(os.path.abspath(__file__))))
from hbs import *  # noqa
from gen import *  # noqa
from check import fields, cls_of, strip_site  # noqa

ALL_H = ["S32", "S24", "S16", "K32", "K24", "K16"]


class Key:
    def __init__(self, H, params, seed, sk, vk):
        self.H, self.params, self.seed, self.sk, self.vk = H, params, seed, sk, vk
        self.n = HASHES[H]
        self.heights = heights_of(params)

    def blob(self, c):
        return sk_blob(self.H, self.params, self.seed, c)

    @property
    def lifetime(self):
        return 1 << sum(self.heights)


def keygen_line(H, params, seed, aux=None):
    return "keygen H=%s params=%s seed=%s aux=%s" % (H, params_str(params), hx(seed), "none" if aux is None else hx(aux))


def sign_line(H, sk, msg, cb="accept", aux=None):
    return "sign H=%s sk=%s msg=%s cb=%s aux=%s" % (H, hx(sk), hx(msg), cb, "none" if aux is None else hx(aux))


def trysign_line(H, sk, msg, aux=None):
    return "trysign H=%s sk=%s msg=%s aux=%s" % (H, hx(sk), hx(msg), "none" if aux is None else hx(aux))


def verify_line(H, msg, sig, pk, entry="fn"):
    return "verify H=%s msg=%s sig=%s pk=%s entry=%s" % (H, hx(msg), hx(sig), hx(pk), entry)


def lifetime_line(H, sk):
    return "lifetime H=%s sk=%s" % (H, hx(sk))


def make_keys(ctx, specs, proj=None, cls="keygen"):
    """specs: list of (H, params, seed). keygen on both sides; returns the Keys the library produced"""
    cases = [Case(keygen_line(H, ps, seed), cls, {"spec": (H, ps, seed)}) for (H, ps, seed) in specs]
    keys = []
    for c, a, b in ctx.both(cases, proj):
        if a.startswith("ok"):
            f = fields(a)
            H, ps, seed = c.meta["spec"]
            keys.append(Key(H, ps, seed, unhx(f["sk"]), unhx(f["vk"])))
        else:
            ctx.fail("keygen of a supported parameter set failed", [c.line], a[:200], "ok")
    return keys


def sig_shape(n, sigbytes):
    """observable structure of an HSS signature: level count and per level (ots type, lms type, q)"""
    try:
        nspk, lv = parse_hss_sig(n, sigbytes)
        return "L=%d " % nspk + ";".join("%d/%d/q%d" % (l["ots"], l["lms"], l["q"]) for l in lv)
    except ValueError as e:
        return "unparseable:%s" % e


def proj_class(c, a):
    return cls_of(a)


def spec_list(rng, tier, count, hashes=ALL_H, max_levels=8, allow_h5=True):
    pss = cheap_param_sets(rng, tier, count, max_levels, allow_h5)
    out = []
    for i, ps in enumerate(pss):
        H = hashes[i % len(hashes)]
        out.append((H, ps, rng.bytes_(HASHES[H])))
    return out

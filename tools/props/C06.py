"""C06: verification and the byte-level constructors are total."""
from .common import *

RULE = ("default build and the constrained builds of C14 (levels 3 / heights 10,5,15 / W 2,8,4 ...): every prefix length (thorough: all; quick: all short ones + a stride) of valid signatures and keys, every value 0..16/255/2^32-1 of "
        "every level/type header field, k parseable signed public keys for k=0..10, trailing data, random bytes, "
        "through all three verify entry points and the four from_bytes constructors; oracle: catch_unwind")
ASSUMPTIONS = ["non-termination would show as a hung harness (time-out), which is reported as a broken tie"]


def run(ctx):
    if not ctx.open():
        return
    rng = ctx.rng
    specs = [("S32", [(3, 1), (4, 1)], rng.bytes_(32)), ("K24", [(4, 1)], rng.bytes_(24)),
             ("S16", [(2, 1), (3, 1), (4, 1)], rng.bytes_(16))]
    if ctx.tier == "thorough":
        specs += [("K32", [(1, 1), (4, 1)], rng.bytes_(32)), ("S24", [(3, 5)], rng.bytes_(24)), ("K16", [(4, 1)] * 8, rng.bytes_(16))]
    keys = make_keys(ctx, specs, proj_class)
    sign_cases = [Case(sign_line(k.H, k.blob(rng.randrange(k.lifetime)), b"msg"), "sign", {"key": k}) for k in keys]
    cases = []
    for c, a, b in ctx.both(sign_cases, proj_class):
        if not a.startswith("ok"):
            continue
        k = c.meta["key"]
        sig = unhx(fields(a)["sig"])
        n = k.n
        nspk, lv = parse_hss_sig(n, sig)
        # prefixes
        if ctx.tier == "thorough":
            lens = range(len(sig))
        else:
            bnd = set()
            for l in lv:
                for x in (l["start"], l["start"] + 4, l["start"] + 8, l["start"] + 8 + n, l["end"] - n * l["h"] - 4, l["end"] - n * l["h"], l["end"]):
                    bnd.update({x - 1, x, x + 1})
            lens = sorted(set(list(range(0, 80)) + list(range(80, len(sig), 97)) + [x for x in bnd if 0 <= x < len(sig)]))
        for i in lens:
            cases.append(Case(verify_line(k.H, b"msg", sig[:i], k.vk, rng.choice(["fn", "sig", "vsig"])), "prefix/sig"))
        for i in range(len(k.vk)):
            cases.append(Case(verify_line(k.H, b"msg", sig, k.vk[:i], rng.choice(["fn", "sig", "vsig"])), "prefix/pk"))
        # header / type fields
        vals = list(range(0, 17)) + [255, 256, 65535, 2 ** 31, 2 ** 32 - 1]
        offs = [("sig-level", 0)]
        for l in lv:
            offs += [("sig-q", l["start"]), ("sig-otstype", l["start"] + 4), ("sig-lmstype", l["end"] - n * l["h"] - 4)]
            if "child_pk" in l:
                offs += [("spk-lmstype", l["child_pk_off"]), ("spk-otstype", l["child_pk_off"] + 4)]
        for name, o in offs:
            for v in vals:
                s2 = sig[:o] + u32(v) + sig[o + 4:]
                cases.append(Case(verify_line(k.H, b"msg", s2, k.vk, "fn"), "field/" + name))
        for name, o in [("pk-level", 0), ("pk-lmstype", 4), ("pk-otstype", 8)]:
            for v in vals:
                cases.append(Case(verify_line(k.H, b"msg", sig, k.vk[:o] + u32(v) + k.vk[o + 4:], "fn"), "field/" + name))
        # many parseable signed public keys
        if nspk >= 1:
            spk = sig[4:lv[0]["child_pk_off"] + 24 + n]
            for cnt in range(0, 11):
                cases.append(Case(verify_line(k.H, b"msg", u32(cnt) + spk * cnt + sig[lv[-1]["start"]:], k.vk, "fn"), "manyspk/%d" % cnt))
                cases.append(Case(verify_line(k.H, b"msg", u32(cnt) + spk * cnt + sig[lv[-1]["start"]:], u32(cnt + 1) + k.vk[4:], "vsig"), "manyspk/%d" % cnt))
        cases.append(Case(verify_line(k.H, b"msg", sig + b"\0" * 7, k.vk, "fn"), "trailing"))
        cases.append(Case(verify_line(k.H, b"msg", sig, k.vk + b"\0" * 7, "sig"), "trailing"))
    for _ in range(150 if ctx.tier == "quick" else 2000):
        H = rng.choice(ALL_H)
        sl = rng.choice([0, 1, 3, 4, 5, 8, 12, 40, 100, 2000])
        pl = rng.choice([0, 1, 4, 8, 27, 28, 44, 60, 61])
        s = rng.bytes_(sl)
        if sl >= 4 and rng.random() < 0.7:
            s = u32(rng.choice([0, 0, 1, 2, 7, 8])) + s[4:]
        if sl >= 12 and rng.random() < 0.7:
            s = s[:8] + u32(rng.choice([1, 2, 3, 4])) + s[12:]
        cases.append(Case(verify_line(H, rng.bytes_(3), s, rng.bytes_(pl), rng.choice(["fn", "sig", "vsig"])), "random"))
    # constructors
    for kind, caps in (("sig", [65535, 65536, 74987, 74988, 74989]), ("vk", [59, 60, 61]), ("sk", [47, 48, 49]), ("vsig", [0, 1, 100000])):
        for l in [0, 1, 2] + caps:
            cases.append(Case("frombytes H=S32 kind=%s bytes=%s" % (kind, hx(bytes(l))), "frombytes/" + kind))
    # the verifier of a constrained build sees the same untrusted bytes: signatures with more levels, other type codes (W1: 265 chains),
    # taller trees than the build can produce must still be answered with ok / err (C14 configurations, harnesses built by setup)
    cfg_cases = [c for c in cases if c.cls.startswith(("field/", "manyspk/", "random", "trailing", "frombytes/"))]
    valid = [c for c in cases if c.cls == "prefix/sig"]
    for c, a, b in ctx.both(sign_cases2(keys, rng), proj_class):
        if a.startswith("ok"):
            k = c.meta["key"]
            sig = unhx(fields(a)["sig"])
            for e in ("fn", "sig", "vsig"):
                cfg_cases.append(Case(verify_line(k.H, b"cfg", sig, k.vk, e), "valid-default-signature"))
            # re-typed to W1 (the widest LM-OTS signature) with the chain part resized, so that the whole signature parses
            nspk, lv = parse_hss_sig(k.n, sig)
            l = lv[-1]
            np_ = CHAINS[(k.n, 1)]
            ys = sig[l["start"] + 8 + k.n:l["start"] + 8 + k.n + k.n * l["p"]]
            s1 = sig[:l["start"] + 4] + u32(1) + sig[l["start"] + 8:l["start"] + 8 + k.n] + (ys + rng.bytes_(k.n * np_))[:k.n * np_] + \
                sig[l["start"] + 8 + k.n + k.n * l["p"]:]
            for e in ("fn", "vsig"):
                cfg_cases.append(Case(verify_line(k.H, b"cfg", s1, k.vk[:8] + u32(1) + k.vk[12:], e), "retyped-w1"))
                cfg_cases.append(Case(verify_line(k.H, b"cfg", s1, k.vk, e), "retyped-w1"))
    for c, a, b in ctx.both(cases, proj_class):
        if a.startswith("panic"):
            ctx.fail("verification / constructor panicked on untrusted bytes", [c.line], a, "ok or err")
    from . import C14
    for cfg in (C14.CONFIGS_QUICK if ctx.tier == "quick" else C14.CONFIGS_THOROUGH):
        if not ctx.open(cfg):
            continue
        for c, a, b in ctx.both([Case(c.line, "cfg/" + c.cls) for c in cfg_cases], proj_class):
            if a.startswith("panic"):
                ctx.fail("verification / constructor panicked on untrusted bytes in the build %s" % json.dumps(cfg), [c.line], a, "ok or err")
    ctx.extra["configurations"] = ["default"] + [json.dumps(c) for c in (C14.CONFIGS_QUICK if ctx.tier == "quick" else C14.CONFIGS_THOROUGH)]


def sign_cases2(keys, rng):
    return [Case(sign_line(k.H, k.blob(rng.randrange(k.lifetime)), b"cfg"), "sign", {"key": k}) for k in keys]

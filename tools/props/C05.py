"""C05: a key signs exactly 2^(sum of heights) times, then is wiped and refuses."""
from .common import *
from . import C03

RULE = ("end to end: complete lifetimes of several key shapes walked signature by signature with lifetime queries in between (shared history "
        "driver with C03), the last signature's callback argument, and every operation on the wiped key; pure accounting: the counter hook "
        "(real to()/increment()/get_lifetime()) over 1..8 levels of heights {5,10,15,20,25} with boundary and random counters; lifetime queries on real key blobs of 1..8 levels (parameter-byte decoding included); seeds 00..00, ff..ff, 00..01")
ASSUMPTIONS = C03.ASSUMPTIONS + ["for tall shapes get_lifetime is exercised through a hook that builds the expanded key without generating trees"]


def run(ctx):
    if ctx.tier == "thorough":
        ctx.max_steps_override = 500     # the complete-lifetime walk is C03's thorough job; here the accounting hooks carry the weight
    C03.run(ctx)
    if not ctx.hz:
        return
    rng = ctx.rng
    cases = []
    shapes = []
    for L in range(1, 9):
        for _ in range(6 if ctx.tier == "quick" else 60):
            shapes.append([rng.choice([5, 6, 7, 8, 9, 1]) for _ in range(L)])
    tall_cases = []
    for sh in shapes:
        hs = [LMS_H[t] for t in sh]
        tot = sum(hs)
        if tot > 63:
            # taller lists: the 8-byte counter is the limit - the last counter value must end the lifetime (wipe), never overflow
            for c in (0, 2 ** 63, 2 ** 64 - 2, 2 ** 64 - 1):
                tall_cases.append(Case("ctr H=S32 lms=%s c=%d" % (",".join(map(str, sh)), c), "ctr-tall/L%d" % len(sh), {"hs": hs, "c": c}))
            continue
        for c in boundary_counters(hs, rng, 2)[: (12 if ctx.tier == "quick" else 80)]:
            cases.append(Case("ctr H=S32 lms=%s c=%d" % (",".join(map(str, sh)), c), "ctr/L%d" % len(sh), {"hs": hs, "c": c}))
    for c, a, b in ctx.both(cases, None):
        hs, cnt = c.meta["hs"], c.meta["c"]
        N = 1 << sum(hs)
        f = fields(a)
        exp_inc = "wiped" if cnt + 1 >= N else str(cnt + 1)
        if f.get("life") != str(N - cnt) or f.get("inc") != exp_inc:
            ctx.fail("lifetime / successor accounting is not (leaves - counter) / counter+1", [c.line], a, "inc=%s life=%d" % (exp_inc, N - cnt))
    for c, a, b in ctx.both(tall_cases, None):
        f = fields(a)
        cnt = c.meta["c"]
        exp_inc = "wiped" if cnt >= 2 ** 64 - 1 else str(cnt + 1)
        if "panic" in a or f.get("inc") != exp_inc:
            ctx.fail("a key taller than 64 bits does not end its lifetime cleanly at the last counter value", [c.line], a, "inc=%s, no panic" % exp_inc)
    # lifetime queries on real key blobs of 1..8 levels (decoding of the eight parameter bytes included), cheap trees only
    lcases = []
    for L in range(1, 9):
        for lms, otss in ((1, (3, 4)), (5, (2, 3))):
            if lms == 5 and ctx.tier == "quick" and L not in (1, 2, 7, 8):
                continue
            H = ALL_H[(L + lms) % 6]
            ps = [(rng.choice(otss), lms) for _ in range(L)]
            hs = heights_of(ps)
            N = 1 << sum(hs)
            # seed values with a special shape included (the wiped key is recognised by its parameter bytes, not by a zero seed)
            seed = [rng.bytes_(HASHES[H]), bytes(HASHES[H]), b"\xff" * HASHES[H], bytes(HASHES[H] - 1) + b"\1"][(L + lms) % 4]
            cs = boundary_counters(hs, rng, 1)
            cs = sorted(set([0, 1 % N, N - 1] + rng.sample(cs, min(len(cs), 2 if ctx.tier == "quick" else 8))))
            for cnt in cs:
                lcases.append(Case(lifetime_line(H, sk_blob(H, ps, seed, cnt)), "lifetime-blob/L%d/%s" % (L, "h5" if lms == 5 else "h2"), {"N": N, "c": cnt}))
    for H in ("S32", "S16", "K24"):
        for sd in (bytes(HASHES[H]), b"\xff" * HASHES[H]):
            lcases.append(Case(sign_line(H, sk_blob(H, [(3, 1)], sd, 0), b"special seed"), "sign/special-seed", {"N": 4, "c": 0, "sign": True}))
    for c, a, b in ctx.both(lcases, None):
        if c.meta.get("sign"):
            if not a.startswith("ok"):
                ctx.fail("a fresh key (special seed value) refuses to sign", [c.line], a[:160], "ok")
            continue
        exp = "ok %d" % (c.meta["N"] - c.meta["c"])
        if a != exp:
            ctx.fail("reported remaining lifetime is not (number of leaves - released signatures)", [c.line], a, exp)
    # the wiped key
    cases = []
    for H in ALL_H:
        n = HASHES[H]
        w = bytes(8) + b"\xff" * 8 + bytes(n)
        cases += [Case(sign_line(H, w, b"m", cb), "wiped/sign") for cb in ("accept", "reject")]
        cases += [Case(lifetime_line(H, w), "wiped/lifetime"), Case(trysign_line(H, w, b"m"), "wiped/trysign")]
    for c, a, b in ctx.both(cases, None):
        if not a.startswith("err") or ("cb=" in a and "cb=none" not in a):
            ctx.fail("the wiped key was not refused without invoking the callback", [c.line], a[:200], "err cb=none")

"""C07: signatures are byte-exact RFC 8554 HSS signatures for the current counter."""
from .common import *
import rfc8554 as R
import hashsigs

RULE = ("all 6 hashes x parameter lists (1..8 levels, every W, H2/H5) x boundary/random counters x messages: the released signature bytes are compared with the "
        "Impl model and with an independently written hash-sigs/RFC 8554 signer (tools/rfc8554.py, Appendix-B parameters), and checked with the "
        "independently written RFC verifier; lengths against the RFC formula")
ASSUMPTIONS = ["for SHA-256/32 (heights >= 5) every released signature is additionally checked by the cisco hash-sigs tool shipped in the repository (tests/demo verify), and the bottom-level LMS "
               "signature is compared byte for byte with the tool's own signature for the same key file (upper-level randomizers are derived from the child tree's seed in this library "
               "and from the parent's in hash-sigs, an RFC-irrelevant difference, so upper levels are compared structurally)",
               "the per-leaf randomizer derivation (seed-derived, index 0xfffd) is taken from the property statement / hash-sigs",
               "rows (n=24,W1), (n=16,W1), (n=16,W2) deviate from Appendix B (known finding): signatures over those rows are reported as KNOWN-FINDING"]

BAD_ROWS = {(24, 1), (16, 1), (16, 2)}


def match_known(f, known):
    for k in known:
        if k["match"].get("kind") == "lmots-row-set" and f.get("rows") and set(map(tuple, f["rows"])) <= set(map(tuple, k["match"]["rows"])):
            return k
    return None


def run(ctx):
    if not ctx.open():
        return
    rng = ctx.rng
    nkeys = 16 if ctx.tier == "quick" else 60
    specs = spec_list(rng, ctx.tier, nkeys)
    # make sure every (n, w) row occurs
    for H in ALL_H:
        for o in (1, 2, 3, 4):
            specs.append((H, [(o, 1)], rng.bytes_(HASHES[H])))
    keys = make_keys(ctx, specs, None)
    cases = []
    for k in keys:
        cs = boundary_counters(k.heights, rng, 1)
        for c in rng.sample(cs, min(len(cs), 3 if ctx.tier == "quick" else 8)):
            msg = gen_msg(rng, ctx.tier)
            cases.append(Case(sign_line(k.H, k.blob(c), msg), "sign/L%d" % len(k.params), {"key": k, "c": c, "msg": msg}))
    # the real hash-sigs tool as independent verifier / signer (SHA-256/32, heights >= 5)
    if hashsigs.available():
        hs = hashsigs.HashSigs()
        try:
            hcases = []
            for ps in ([(3, 5)], [(4, 5), (2, 5)], [(1, 5), (3, 5)], [(2, 5), (3, 5), (4, 5)], [(3, 5), (4, 6)]) + (() if ctx.tier == "quick" else ([(3, 5)] * 4, [(4, 6), (3, 5)])):
                ps = list(ps)
                seed = rng.bytes_(32)
                name, prv, pub, _ = hs.genkey(ps, seed, 0)
                hts = heights_of(ps)
                for cnt in rng.sample(boundary_counters(hts, rng, 1), 3):
                    if cnt + 1 >= (1 << sum(hts)):
                        continue
                    msg = gen_msg(rng)
                    hs.set_private_key(name, sk_blob("S32", ps, seed, cnt))
                    ref = hs.sign(name, msg)
                    hcases.append(Case(sign_line("S32", sk_blob("S32", ps, seed, cnt), msg), "sign/hash-sigs-tool",
                                       {"ref": ref, "succ": hs.private_key(name), "pub": pub, "msg": msg}))
            for c, a, b in ctx.both(hcases, None):
                f = fields(a)
                ref, succ, pub, msg = c.meta["ref"], c.meta["succ"], c.meta["pub"], c.meta["msg"]
                sig = unhx(f.get("sig", "-"))
                if not a.startswith("ok") or ref is None:
                    ctx.fail("signing failed (library or reference tool)", [c.line], a[:100], "ok")
                    continue
                if not hs.verify(pub, msg, sig):
                    ctx.fail("the cisco hash-sigs tool rejects a released signature", [c.line], "rejected", "Signature verified")
                _, l1 = parse_hss_sig(32, sig)
                _, l2 = parse_hss_sig(32, ref)
                if len(sig) != len(ref) or sig[l1[-1]["start"]:] != ref[l2[-1]["start"]:] or [(x["q"], x["ots"], x["lms"], x["path"], x.get("child_pk")) for x in l1] != [(x["q"], x["ots"], x["lms"], x["path"], x.get("child_pk")) for x in l2]:
                    ctx.fail("signature differs from the hash-sigs tool's signature for the same key file (leaf indices, type codes, paths, child keys, bottom-level signature bytes)",
                             [c.line], sig.hex()[:80], ref.hex()[:80])
                if f.get("cb") != succ.hex():
                    ctx.fail("successor key differs from the key file hash-sigs writes after signing", [c.line], f.get("cb"), succ.hex())
        finally:
            hs.close()
    for c, a, b in ctx.both(cases, None):      # full bytes compared with the model
        if not a.startswith("ok"):
            continue
        k, cnt, msg = c.meta["key"], c.meta["c"], c.meta["msg"]
        sig = unhx(fields(a)["sig"])
        exp_len = 4 + sum(lms_sig_len(k.n, OTS_W[o], LMS_H[l]) for o, l in k.params) + (len(k.params) - 1) * lms_pk_len(k.n)
        if len(sig) != exp_len:
            ctx.fail("signature length differs from the RFC formula", [c.line], str(len(sig)), str(exp_len))
        rows = sorted({(k.n, OTS_W[o]) for o, _ in k.params} & BAD_ROWS)
        ref = R.sign(k.H, k.params, k.seed, cnt, msg)
        if ref != sig:
            ctx.oracle_failures.append({"what": "signature bytes differ from the independent RFC 8554 / hash-sigs signer", "requests": [keygen_line(k.H, k.params, k.seed), c.line],
                                        "observed": sig.hex()[:80], "expected": ref.hex()[:80], "rows": rows or None})
        elif not R.hss_verify(k.H, msg, sig, k.vk):
            ctx.oracle_failures.append({"what": "independent RFC 8554 verifier rejects a released signature", "requests": [c.line], "observed": "reject", "expected": "accept", "rows": rows or None})

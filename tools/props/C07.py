"""C07: signatures are byte-exact RFC 8554 HSS signatures for the current counter."""
from .common import *
import rfc8554 as R

RULE = ("all 6 hashes x parameter lists (1..8 levels, every W, H2/H5) x boundary/random counters x messages: the released signature bytes are compared with the "
        "Impl model and with an independently written hash-sigs/RFC 8554 signer (tools/rfc8554.py, Appendix-B parameters), and checked with the "
        "independently written RFC verifier; lengths against the RFC formula")
ASSUMPTIONS = ["the per-leaf randomizer derivation (seed-derived, index 0xfffd) is taken from the property statement / hash-sigs",
               "rows (n=24,W1), (n=16,W1), (n=16,W2) deviate from Appendix B (known finding): signatures over those rows are reported as KNOWN-FINDING"]

BAD_ROWS = {(24, 1), (16, 1), (16, 2)}


def match_known(f, known):
    for k in known:
        if k["match"].get("kind") == "lmots-row-set" and f.get("rows") and set(map(tuple, f["rows"])) <= set(map(tuple, k["match"]["rows"])):
            return k
    return None


def run(ctx):
    if not ctx.open():
        return
    rng = ctx.rng
    nkeys = 16 if ctx.tier == "quick" else 60
    specs = spec_list(rng, ctx.tier, nkeys)
    # make sure every (n, w) row occurs
    for H in ALL_H:
        for o in (1, 2, 3, 4):
            specs.append((H, [(o, 1)], rng.bytes_(HASHES[H])))
    keys = make_keys(ctx, specs, None)
    cases = []
    for k in keys:
        cs = boundary_counters(k.heights, rng, 1)
        for c in rng.sample(cs, min(len(cs), 3 if ctx.tier == "quick" else 8)):
            msg = gen_msg(rng, ctx.tier)
            cases.append(Case(sign_line(k.H, k.blob(c), msg), "sign/L%d" % len(k.params), {"key": k, "c": c, "msg": msg}))
    for c, a, b in ctx.both(cases, None):      # full bytes compared with the model
        if not a.startswith("ok"):
            continue
        k, cnt, msg = c.meta["key"], c.meta["c"], c.meta["msg"]
        sig = unhx(fields(a)["sig"])
        exp_len = 4 + sum(lms_sig_len(k.n, OTS_W[o], LMS_H[l]) for o, l in k.params) + (len(k.params) - 1) * lms_pk_len(k.n)
        if len(sig) != exp_len:
            ctx.fail("signature length differs from the RFC formula", [c.line], str(len(sig)), str(exp_len))
        rows = sorted({(k.n, OTS_W[o]) for o, _ in k.params} & BAD_ROWS)
        ref = R.sign(k.H, k.params, k.seed, cnt, msg)
        if ref != sig:
            ctx.oracle_failures.append({"what": "signature bytes differ from the independent RFC 8554 / hash-sigs signer", "requests": [keygen_line(k.H, k.params, k.seed), c.line],
                                        "observed": sig.hex()[:80], "expected": ref.hex()[:80], "rows": rows or None})
        elif not R.hss_verify(k.H, msg, sig, k.vk):
            ctx.oracle_failures.append({"what": "independent RFC 8554 verifier rejects a released signature", "requests": [c.line], "observed": "reject", "expected": "accept", "rows": rows or None})

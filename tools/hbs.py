"""Shared helpers: build + talk to the two executors (Rust harness, Lean driver), RFC 8554 byte-level
helpers used by the generators (parsing signatures, building key blobs), PRNG, evidence writing."""
import hashlib
import json
import os
import random
import subprocess
import sys
import time

VERIF = os.path.abspath(os.path.join(os.path.dirname(os.path.abspath(__file__)), ".."))
REPO = "/repo"
LEAN = os.path.join(VERIF, "lean")
HARNESS = os.path.join(VERIF, "harness")

HASHES = {"S32": 32, "S24": 24, "S16": 16, "K32": 32, "K24": 24, "K16": 16}
OTS_W = {1: 1, 2: 2, 3: 4, 4: 8}
LMS_H = {1: 2, 5: 5, 6: 10, 7: 15, 8: 20, 9: 25}
CHAINS = {(16, 1): 136, (24, 1): 200, (32, 1): 265, (16, 2): 68, (24, 2): 101, (32, 2): 133,
          (16, 4): 35, (24, 4): 51, (32, 4): 67, (16, 8): 18, (24, 8): 26, (32, 8): 34}


def hx(b):
    return b.hex() if len(b) else "-"


def unhx(s):
    return b"" if s == "-" else bytes.fromhex(s)


def pyhash(H, data):
    n = HASHES[H]
    if H[0] == "S":
        return hashlib.sha256(data).digest()[:n]
    return hashlib.shake_256(data).digest(32)[:n]


def log(*a):
    print(*a, file=sys.stderr, flush=True)


class Executor:
    """a line-protocol subprocess (`END`-delimited batches)"""

    def __init__(self, argv, env=None, name="exec"):
        self.name = name
        e = dict(os.environ)
        if env:
            e.update(env)
        self.p = subprocess.Popen(argv, stdin=subprocess.PIPE, stdout=subprocess.PIPE, env=e, text=True, bufsize=1 << 20)

    def batch(self, lines):
        if not lines:
            return []
        for l in lines:
            assert "\n" not in l
        import threading

        def feed():
            try:
                self.p.stdin.write("\n".join(lines) + "\nEND\n")
                self.p.stdin.flush()
            except Exception:
                pass

        # written from a second thread: an executor that answers while it reads would otherwise
        # dead-lock with us once both pipes are full
        wt = threading.Thread(target=feed)
        wt.start()
        out = []
        while True:
            l = self.p.stdout.readline()
            if l == "":
                raise RuntimeError("%s died after %d answers (batch of %d); last request: %s" % (
                    self.name, len(out), len(lines), lines[min(len(out), len(lines) - 1)][:300]))
            l = l.rstrip("\n")
            if l == "END":
                break
            out.append(l)
        wt.join()
        if len(out) != len(lines):
            raise RuntimeError("%s answered %d lines for %d requests" % (self.name, len(out), len(lines)))
        return out

    def close(self):
        try:
            self.p.stdin.close()
            self.p.wait(timeout=10)
        except Exception:
            self.p.kill()


class Pool:
    """several copies of a single-threaded executor; a batch is sharded round-robin"""

    def __init__(self, argv, n, env=None, name="pool"):
        self.execs = [Executor(argv, env, "%s[%d]" % (name, i)) for i in range(n)]

    def batch(self, lines):
        import threading
        n = len(self.execs)
        shards = [lines[i::n] for i in range(n)]
        res = [None] * n
        errs = []

        def work(i):
            try:
                res[i] = self.execs[i].batch(shards[i])
            except Exception as ex:  # noqa
                errs.append(ex)

        ts = [threading.Thread(target=work, args=(i,)) for i in range(n)]
        for t in ts:
            t.start()
        for t in ts:
            t.join()
        if errs:
            raise errs[0]
        out = [None] * len(lines)
        for i in range(n):
            for j, r in enumerate(res[i]):
                out[i + j * n] = r
        return out

    def close(self):
        for e in self.execs:
            e.close()


# ------------------------------------------------------------------------------------------------
# builds

def run(cmd, cwd=None, env=None, timeout=None, quiet=True):
    e = dict(os.environ)
    if env:
        e.update(env)
    t0 = time.time()
    p = subprocess.run(cmd, cwd=cwd, env=e, stdout=subprocess.PIPE, stderr=subprocess.STDOUT, text=True, timeout=timeout)
    return p.returncode, p.stdout, time.time() - t0


def config_name(cfg):
    if not cfg:
        return "default"
    return "cfg-" + hashlib.sha256(json.dumps(cfg, sort_keys=True).encode()).hexdigest()[:10]


def build_harness(cfg=None, features=None):
    """cfg: dict of HBS_LMS_* environment variables (build configuration of the library).
    returns (ok, path or build log)"""
    name = config_name(dict(cfg or {}, _f=",".join(features or [])) if (cfg or features) else None)
    tdir = os.path.join(VERIF, "target", name)
    env = {"CARGO_TARGET_DIR": tdir, "CARGO_NET_OFFLINE": "true"}
    for k in ["HBS_LMS_MAX_ALLOWED_HSS_LEVELS", "HBS_LMS_TREE_HEIGHTS", "HBS_LMS_WINTERNITZ_PARAMETERS",
              "HBS_LMS_THREADS", "HBS_LMS_MAX_HASH_OPTIMIZATIONS"]:
        if cfg and k in cfg:
            env[k] = cfg[k]
    e = dict(os.environ)
    for k in list(e):
        if k.startswith("HBS_LMS_"):
            del e[k]
    e.update(env)
    cmd = ["cargo", "build", "--release", "--offline"]
    if os.environ.get("HBS_VERIF_COV"):
        # line-coverage measurement of the library under the correspondence inputs (tools/coverage.py):
        # separate target directory, nightly toolchain (it ships llvm-profdata / llvm-cov), instrumented build
        tdir = tdir + "-cov"
        e["CARGO_TARGET_DIR"] = tdir
        e["RUSTFLAGS"] = "--cfg hbs_lms_verif -A unexpected_cfgs -C instrument-coverage"
        e["LLVM_PROFILE_FILE"] = os.path.join(VERIF, "target", "cov-prof", "build-%p.profraw")
        cmd = ["cargo", "+nightly", "build", "--release", "--offline"]
    if features:
        cmd += ["--features", ",".join(features)]
    p = subprocess.run(cmd, cwd=HARNESS, env=e, stdout=subprocess.PIPE, stderr=subprocess.STDOUT, text=True)
    if p.returncode != 0:
        return False, p.stdout
    return True, os.path.join(tdir, "release", "hbs-harness")


def harness(path, threads=16):
    return Executor([path], env={"HARNESS_THREADS": str(threads)}, name="rust-harness")


def driver_path():
    return os.path.join(LEAN, ".lake", "build", "bin", "hbsdriver")


def driver_pool(n=16, cfg=None):
    argv = [driver_path()]
    env = {}
    if cfg:
        env["HBS_CFG"] = json.dumps(cfg)
    return Pool(argv, n, env=env, name="lean-driver")


# ------------------------------------------------------------------------------------------------
# byte-level helpers (RFC 8554 layout), used by generators and by the ghost oracles

def u32(v):
    return int(v).to_bytes(4, "big")


def sk_blob(H, params, seed, counter=0):
    """hash-sigs private key blob: counter || 8 parameter bytes (lms<<4 | ots, ff padded) || seed"""
    pb = bytes(((l << 4) | o) & 0xff for (o, l) in params) + b"\xff" * (8 - len(params))
    return int(counter).to_bytes(8, "big") + pb[:8] + seed


def params_str(params):
    return ",".join("%d:%d" % (o, l) for (o, l) in params) if params else "-"


def lmots_sig_len(n, w):
    return 4 + n * (1 + CHAINS[(n, w)])


def lms_sig_len(n, w, h):
    return 4 + lmots_sig_len(n, w) + 4 + n * h


def lms_pk_len(n):
    return 24 + n


def parse_lms_sig(n, b, off=0):
    """returns (dict, next offset) or raises ValueError"""
    if len(b) < off + 8:
        raise ValueError("short")
    q = int.from_bytes(b[off:off + 4], "big")
    ots = int.from_bytes(b[off + 4:off + 8], "big")
    if ots not in OTS_W:
        raise ValueError("ots type")
    w = OTS_W[ots]
    p = CHAINS[(n, w)]
    o = off + 8
    C = b[o:o + n]
    o += n
    y = [b[o + i * n:o + (i + 1) * n] for i in range(p)]
    o += n * p
    if len(b) < o + 4:
        raise ValueError("short")
    lms = int.from_bytes(b[o:o + 4], "big")
    if lms not in LMS_H:
        raise ValueError("lms type")
    h = LMS_H[lms]
    o += 4
    path = [b[o + i * n:o + (i + 1) * n] for i in range(h)]
    o += n * h
    if len(b) < o:
        raise ValueError("short")
    return dict(q=q, ots=ots, w=w, p=p, C=C, y=y, lms=lms, h=h, path=path, start=off, end=o), o


def parse_hss_sig(n, b):
    if len(b) < 4:
        raise ValueError("short")
    nspk = int.from_bytes(b[:4], "big")
    if nspk > 7:
        raise ValueError("levels")
    o = 4
    levels = []
    for _ in range(nspk):
        s, o = parse_lms_sig(n, b, o)
        if len(b) < o + lms_pk_len(n):
            raise ValueError("short")
        pk = b[o:o + lms_pk_len(n)]
        s["child_pk"] = pk
        s["child_pk_off"] = o
        o += lms_pk_len(n)
        levels.append(s)
    s, o = parse_lms_sig(n, b, o)
    levels.append(s)
    if o != len(b):
        raise ValueError("trailing")
    return nspk, levels


def mixed_radix(heights, c):
    """leaf index per level, bottom level least significant"""
    out = []
    for h in reversed(heights):
        out.append(c % (1 << h))
        c >>= h
    return list(reversed(out))


class Rng(random.Random):
    def bytes_(self, n):
        return bytes(self.getrandbits(8) for _ in range(n))


def write_json(path, obj):
    os.makedirs(os.path.dirname(path), exist_ok=True)
    tmp = path + ".tmp"
    with open(tmp, "w") as f:
        json.dump(obj, f, indent=1, sort_keys=True)
    os.replace(tmp, path)

#!/bin/sh
# usage: tools/confirm_mutant.sh <worktree dir> <seed id> <property>
# Confirms a seeded change independently: suite passes with it, the demonstration fails with it and passes without it.
# Stores patch, demo and meta.json under /verif/seeded/<seed id>/.
D="$1"; ID="$2"; PROP="$3"
OUT=/verif/seeded/$ID
mkdir -p "$OUT"
cd "$D" || exit 2
git checkout -q -- . ; rm -f tests/demo.rs
git apply OUT/patch.diff || { echo "patch does not apply"; exit 2; }
cp OUT/patch.diff "$OUT/patch.diff"; cp OUT/demo.rs "$OUT/demo.rs"
ENVV="A=b"
SUITE=$(env $ENVV cargo test --workspace --no-fail-fast --offline 2>&1 | grep -E "^test result" | awk '{p+=$4; f+=$6} END {print p" passed "f" failed"}')
# optional build configuration: OUT/env.txt (KEY=VALUE per line, values may contain spaces), OUT/features.txt
if [ -f OUT/env.txt ]; then
  while IFS= read -r line; do
    case "$line" in
      \#*|"") ;;
      *=*) export "${line%%=*}=${line#*=}" ;;
    esac
  done < OUT/env.txt
fi
FEAT=""
if [ -f OUT/features.txt ]; then FEAT="--features $(cat OUT/features.txt)"; fi
cp OUT/demo.rs tests/demo.rs
env $ENVV cargo test --release --offline $FEAT --test demo > "$OUT/demo_with_patch.log" 2>&1; RC1=$?
git apply -R OUT/patch.diff
env $ENVV cargo test --release --offline $FEAT --test demo > "$OUT/demo_without_patch.log" 2>&1; RC2=$?
rm -f tests/demo.rs
git apply OUT/patch.diff
python3 - "$OUT" "$ID" "$PROP" "$SUITE" "$RC1" "$RC2" <<'PY'
import json,sys,os
out,idd,prop,suite,rc1,rc2=sys.argv[1:]
m={}
try: m=json.load(open(os.path.join(os.path.dirname(out.rstrip('/')),'..','..','tmp','x'))) 
except Exception: pass
src=json.load(open('OUT/meta.json')) if os.path.exists('OUT/meta.json') else {}
meta={"seed_id":idd,"property":prop,"summary":src.get("summary"),"needs_to_manifest":src.get("needs_to_manifest"),
      "files_changed":src.get("files_changed"),
      "confirmed":{"existing_suite_with_patch":suite,"demo_with_patch_exit":int(rc1),"demo_without_patch_exit":int(rc2),
                   "ok": (suite.startswith("68 passed 0 failed") or suite.startswith("66 passed 0 failed")) and int(rc1)!=0 and int(rc2)==0},
      "what_was_run":["cargo test --workspace --no-fail-fast --offline (with patch)","cargo test --release --offline --test demo (with patch, then with the patch reverted)"]}
json.dump(meta,open(os.path.join(out,'meta.json'),'w'),indent=1)
print(idd, meta["confirmed"])
PY

"""Oracle: the cisco hash-sigs reference tool shipped in the repository as tests/demo (ELF binary, SHA-256/32 only).
Used for C07 (signature bytes, reference verifier), C08 (key files), C10 (aux file), C13 (counter interpretation)."""
import os
import shutil
import subprocess
import tempfile

DEMO = "/repo/tests/demo"
OTS_W = {1: 1, 2: 2, 3: 4, 4: 8}
LMS_H = {5: 5, 6: 10, 7: 15, 8: 20, 9: 25}


def available():
    return os.path.exists(DEMO) and os.access(DEMO, os.X_OK)


class HashSigs:
    def __init__(self):
        base = "/verif/scratch"
        os.makedirs(base, exist_ok=True)
        self.dir = tempfile.mkdtemp(prefix="hashsigs-", dir=base)
        self.n = 0

    def close(self):
        shutil.rmtree(self.dir, ignore_errors=True)

    def _run(self, *args):
        p = subprocess.run([DEMO] + list(args), cwd=self.dir, stdout=subprocess.PIPE, stderr=subprocess.STDOUT, text=True, timeout=600)
        return p.returncode, p.stdout

    def _read(self, name):
        with open(os.path.join(self.dir, name), "rb") as f:
            return f.read()

    def _write(self, name, data):
        with open(os.path.join(self.dir, name), "wb") as f:
            f.write(data)

    def genkey(self, params, seed, auxmax=0):
        """params: [(ots type, lms type)] with lms in 5..9; returns (name, prv, pub, aux)"""
        self.n += 1
        name = "k%d" % self.n
        ps = ",".join("%d/%d" % (LMS_H[l], OTS_W[o]) for o, l in params) + ":%d" % auxmax
        rc, out = self._run("genkey", name, ps, "seed=" + seed.hex(), "i=" + seed[:16].hex())
        if rc != 0 or "Success" not in out:
            raise RuntimeError("hash-sigs genkey failed: " + out[-300:])
        aux = self._read(name + ".aux") if os.path.exists(os.path.join(self.dir, name + ".aux")) else b""
        return name, self._read(name + ".prv"), self._read(name + ".pub"), aux

    def set_private_key(self, name, blob):
        self._write(name + ".prv", blob)

    def private_key(self, name):
        return self._read(name + ".prv")

    def sign(self, name, msg):
        self._write("m.bin", msg)
        rc, out = self._run("sign", name, "m.bin")
        if rc != 0 or "signed" not in out:
            return None
        return self._read("m.bin.sig")

    def verify(self, pub, msg, sig):
        self._write("v.pub", pub)
        self._write("vm.bin", msg)
        self._write("vm.bin.sig", sig)
        rc, out = self._run("verify", "v", "vm.bin")
        return "Signature verified" in out

    def advance(self, name, amount):
        rc, out = self._run("advance", name, str(amount))
        return rc == 0

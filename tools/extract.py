#!/usr/bin/env python3
"""Extractor: regenerates lean/HbsLms/Generated/*.lean from the *current working tree* of /repo.

Everything the Lean model uses as data (parameter tables, type-code maps, byte constants, offsets,
size formulas, build defaults, struct declarations with their zeroize derives, the ambient-state
inventory) is parsed out of the Rust sources here, so the theorems are re-checked against what the
code says now. A pattern that is not found is a *broken tie*: the script exits 2 and names it.

Usage: extract.py [--repo /repo] [--out <dir>] [--check]   (--check: write nothing, exit 3 if the
generated text differs from what is on disk)
"""
import hashlib
import json
import os
import re
import sys

REPO = "/repo"
OUT = os.path.join(os.path.dirname(os.path.abspath(__file__)), "..", "lean", "HbsLms", "Generated")


class TieBroken(Exception):
    pass


def need(m, what):
    if not m:
        raise TieBroken(what)
    return m


def read(rel):
    p = os.path.join(REPO, rel)
    if not os.path.exists(p):
        raise TieBroken("missing source file " + rel)
    return open(p).read()


def strip_comments(s):
    s = re.sub(r"/\*.*?\*/", lambda m: " " * 0 + "\n" * m.group(0).count("\n"), s, flags=re.S)
    s = re.sub(r"//[^\n]*", "", s)
    return s


def strip_test_mod(s):
    """drop `#[cfg(test)] mod tests { ... }` (balanced braces)"""
    out = s
    while True:
        m = re.search(r"#\[cfg\(test\)\]\s*(pub\s+)?mod\s+\w+\s*\{", out)
        if not m:
            return out
        i = m.end()
        depth = 1
        while depth and i < len(out):
            if out[i] == "{":
                depth += 1
            elif out[i] == "}":
                depth -= 1
            i += 1
        out = out[: m.start()] + out[i:]


def block_after(s, start_pat, what):
    """text of the balanced {...} block that follows the first match of start_pat"""
    m = need(re.search(start_pat, s), what)
    i = s.index("{", m.end() - 1)
    depth = 0
    j = i
    while True:
        if s[j] == "{":
            depth += 1
        elif s[j] == "}":
            depth -= 1
            if depth == 0:
                break
        j += 1
    return s[i + 1 : j]


def arms(body):
    """split the arms of a match body at top-level '=>' ... ',' boundaries, with their cfg attributes.
    returns list of (cfg or None, lhs, rhs)"""
    res = []
    i = 0
    n = len(body)
    cur_cfg = None
    while i < n:
        m = re.compile(r"\s*").match(body, i)
        i = m.end()
        if i >= n:
            break
        if body.startswith("#[", i):
            j = body.index("]", i)
            # nested brackets / parens in cfg(all(not(test), x))
            depth = 0
            j = i
            while True:
                if body[j] == "[":
                    depth += 1
                elif body[j] == "]":
                    depth -= 1
                    if depth == 0:
                        break
                j += 1
            cur_cfg = body[i + 2 : j].strip()
            i = j + 1
            continue
        k = body.index("=>", i)
        lhs = body[i:k].strip()
        # rhs: until top-level comma
        j = k + 2
        depth = 0
        while j < n:
            c = body[j]
            if c in "([{":
                depth += 1
            elif c in ")]}":
                depth -= 1
            elif c == "," and depth == 0:
                break
            j += 1
        rhs = body[k + 2 : j].strip()
        res.append((cur_cfg, lhs, rhs))
        cur_cfg = None
        i = j + 1
    return res


def cfg_active(cfg):
    """which arms exist in the hooked, non-test build that the harness links"""
    if cfg is None:
        return True
    c = cfg.replace(" ", "")
    if c == "cfg(test)":
        return False
    if c == "cfg(all(not(test),hbs_lms_verif))":
        return True
    if c == "cfg(hbs_lms_verif)":
        return True
    raise TieBroken("unknown cfg attribute on a match arm: " + cfg)


def cfg_hook(cfg):
    return cfg is not None and "hbs_lms_verif" in cfg


# ------------------------------------------------------------------------------------------------
# constant-expression evaluator (integers, + - * << >> | & ! parentheses, names, calls of known fns)

def eval_const(expr, env, bits=64):
    e = expr.strip()
    e = re.sub(r"size_of::<u32>\(\)", "4", e)
    e = re.sub(r"size_of::<LmsTreeIdentifier>\(\)", str(env.get("ILEN", 16)), e)
    e = re.sub(r"(\d)_(\d)", r"\1\2", e)
    e = re.sub(r"(\d+)(usize|u8|u16|u32|u64)", r"\1", e)
    e = e.replace("!", "~")
    names = dict(env)
    try:
        v = eval(e, {"__builtins__": {}}, names)
    except Exception as ex:
        raise TieBroken("cannot evaluate constant expression %r: %s" % (expr, ex))
    return v


def lean_nat_list(xs):
    return "[" + ", ".join(str(x) for x in xs) + "]"


def lean_str(s):
    return '"' + s.replace("\\", "\\\\").replace('"', '\\"') + '"'


# ------------------------------------------------------------------------------------------------

def extract_lmots():
    s = strip_test_mod(strip_comments(read("src/lm_ots/parameters.rs")))
    variants = []
    enum_body = block_after(s, r"pub\s+enum\s+LmotsAlgorithm\s*\{", "enum LmotsAlgorithm")
    for m in re.finditer(r"(\w+)\s*=\s*(\d+)", enum_body):
        variants.append((m.group(1), int(m.group(2))))
    from_body = block_after(block_after(s, r"impl\s+From<u32>\s+for\s+LmotsAlgorithm\s*\{", "From<u32> for LmotsAlgorithm"),
                            r"match\s+_type\s*\{", "match in From<u32> for LmotsAlgorithm")
    from_map = []
    default_variant = None
    for cfg, lhs, rhs in arms(from_body):
        if not cfg_active(cfg):
            continue
        v = need(re.match(r"LmotsAlgorithm::(\w+)$", rhs), "From<u32> LmotsAlgorithm arm " + rhs).group(1)
        if lhs == "_":
            default_variant = v
        else:
            from_map.append((int(lhs), v))
    cons_body = block_after(block_after(s, r"pub\s+fn\s+construct_parameter<H:\s*HashChain>\(&self\)[^{]*\{", "LmotsAlgorithm::construct_parameter"),
                            r"match\s+\*self\s*\{", "match in construct_parameter")
    cons = []
    for cfg, lhs, rhs in arms(cons_body):
        if not cfg_active(cfg):
            continue
        v = need(re.match(r"LmotsAlgorithm::(\w+)$", lhs), "construct_parameter arm " + lhs).group(1)
        if rhs == "None":
            cons.append((v, None))
            continue
        m = need(re.match(
            r"Some\(LmotsParameter::new\(\s*(\d+)\s*,\s*(\d+)\s*,\s*get_num_winternitz_chains\(\s*(\d+)\s*,\s*H::OUTPUT_SIZE as usize\s*\)\s*as u16\s*,\s*(\d+)\s*,?\s*\)\)$",
            rhs, re.S), "LmotsParameter::new(...) shape in construct_parameter for " + v)
        cons.append((v, tuple(int(x) for x in m.groups())))
    gft_body = block_after(block_after(s, r"pub\s+fn\s+get_from_type<H:\s*HashChain>\(_type:\s*u32\)[^{]*\{", "LmotsAlgorithm::get_from_type"),
                           r"match\s+_type\s*\{", "match in get_from_type")
    gft = []
    for cfg, lhs, rhs in arms(gft_body):
        if not cfg_active(cfg):
            continue
        if lhs == "_":
            need(rhs == "None", "get_from_type default arm must be None")
            continue
        v = need(re.match(r"LmotsAlgorithm::(\w+)\.construct_parameter\(\)$", rhs), "get_from_type arm " + rhs).group(1)
        gft.append((int(lhs), v))
    return dict(variants=variants, from_map=from_map, from_default=default_variant, construct=cons, get_from_type=gft)


def extract_lms():
    s = strip_test_mod(strip_comments(read("src/lms/parameters.rs")))
    enum_body = block_after(s, r"pub\s+enum\s+LmsAlgorithm\s*\{", "enum LmsAlgorithm")
    from_body = block_after(block_after(s, r"impl\s+From<u32>\s+for\s+LmsAlgorithm\s*\{", "From<u32> for LmsAlgorithm"),
                            r"match\s+_type\s*\{", "match in From<u32> for LmsAlgorithm")
    from_map = []
    default_variant = None
    hook_types = []
    for cfg, lhs, rhs in arms(from_body):
        if not cfg_active(cfg):
            continue
        v = need(re.match(r"LmsAlgorithm::(\w+)$", rhs), "From<u32> LmsAlgorithm arm").group(1)
        if lhs == "_":
            default_variant = v
        else:
            from_map.append((int(lhs), v))
            if cfg_hook(cfg):
                hook_types.append(int(lhs))
    cons_body = block_after(block_after(s, r"pub\s+fn\s+construct_parameter<H:\s*HashChain>\(&self\)[^{]*\{", "LmsAlgorithm::construct_parameter"),
                            r"match\s+\*self\s*\{", "match in LmsAlgorithm::construct_parameter")
    cons = []
    for cfg, lhs, rhs in arms(cons_body):
        if not cfg_active(cfg):
            continue
        v = need(re.match(r"LmsAlgorithm::(\w+)$", lhs), "LmsAlgorithm construct arm").group(1)
        if rhs == "None":
            cons.append((v, None))
            continue
        m = need(re.match(r"Some\(LmsParameter::new\(\s*(\d+)\s*,\s*(\d+)\s*\)\)$", rhs), "LmsParameter::new shape for " + v)
        cons.append((v, (int(m.group(1)), int(m.group(2)))))
    gft_body = block_after(block_after(s, r"pub\s+fn\s+get_from_type<H:\s*HashChain>\(_type:\s*u32\)[^{]*\{", "LmsAlgorithm::get_from_type"),
                           r"match\s+_type\s*\{", "match in LmsAlgorithm::get_from_type")
    gft = []
    for cfg, lhs, rhs in arms(gft_body):
        if not cfg_active(cfg):
            continue
        if lhs == "_":
            need(rhs == "None", "LmsAlgorithm::get_from_type default arm must be None")
            continue
        v = need(re.match(r"LmsAlgorithm::(\w+)\.construct_parameter\(\)$", rhs), "LmsAlgorithm get_from_type arm").group(1)
        gft.append((int(lhs), v))
    return dict(from_map=from_map, from_default=default_variant, construct=cons, get_from_type=gft, hook_types=hook_types)


def extract_constants():
    s = strip_test_mod(strip_comments(read("src/constants.rs")))
    env = {}
    order = []
    # plain numeric constants (usize / u8 / u16)
    for m in re.finditer(r"pub\s+const\s+(\w+)\s*:\s*(usize|u8|u16|u32|u64)\s*=\s*([^;]+);", s):
        name, ty, expr = m.group(1), m.group(2), m.group(3)
        order.append((name, ty, expr))
    arrays = {}
    for m in re.finditer(r"pub\s+const\s+(\w+)\s*:\s*\[u8;\s*\d+\]\s*=\s*\[([^\]]*)\]\s*;", s):
        arrays[m.group(1)] = [int(x.strip(), 0) for x in m.group(2).split(",") if x.strip()]
    # the chain-count table in its source shape (optional: the authoritative values come from the compiled library, see
    # runtime_tables(); when the source still has this shape the two are cross-checked)
    chain_counts = wi = oi = stride = None
    try:
        m = need(re.search(r"const\s+HASH_CHAIN_COUNTS\s*:\s*\[usize;\s*(\d+)\]\s*=\s*\[([^\]]*)\]\s*;", s), "HASH_CHAIN_COUNTS")
        chain_counts = [int(x.strip()) for x in m.group(2).split(",") if x.strip()]
        body = block_after(s, r"pub\s+const\s+fn\s+get_num_winternitz_chains\s*\(", "get_num_winternitz_chains")
        wi = [(int(l), int(re.match(r"(\d+)", r).group(1))) for c, l, r in arms(block_after(body, r"let\s+w_i\s*=\s*match\s+winternitz_parameter\s*\{", "w_i match")) if l != "_"]
        oi = [(int(l), int(re.match(r"(\d+)", r).group(1))) for c, l, r in arms(block_after(body, r"let\s+o_i\s*=\s*match\s+output_size\s*\{", "o_i match")) if l != "_"]
        idx = need(re.search(r"HASH_CHAIN_COUNTS\[\s*w_i\s*\*\s*(\d+)\s*\+\s*o_i\s*\]", body), "HASH_CHAIN_COUNTS index expression")
        stride = int(idx.group(1))
    except (TieBroken, Exception):
        chain_counts = wi = oi = stride = None
    # const fns translated expression by expression
    fns = {}
    for name in ["prng_len", "lmots_signature_length", "lms_public_key_length", "lms_signature_length",
                 "hss_signed_public_key_length"]:
        m = need(re.search(r"pub\s+const\s+fn\s+" + name + r"\s*\(([^)]*)\)\s*->\s*usize\s*\{([^}]*)\}", s, re.S), "const fn " + name)
        params = [p.split(":")[0].strip() for p in m.group(1).split(",") if p.strip()]
        fns[name] = (params, " ".join(m.group(2).split()))
    wc = block_after(s, r"pub\s+mod\s+winternitz_chain\s*\{", "mod winternitz_chain")
    for m in re.finditer(r"pub\s+const\s+(\w+)\s*:\s*(usize)\s*=\s*([^;]+);", wc):
        pass  # already collected by the global regex (same text)
    m = need(re.search(r"pub\s+const\s+fn\s+iter_len\s*\(([^)]*)\)\s*->\s*usize\s*\{([^}]*)\}", wc, re.S), "const fn iter_len")
    fns["iter_len"] = ([p.split(":")[0].strip() for p in m.group(1).split(",") if p.strip()], " ".join(m.group(2).split()))
    # the reversed per-level loop of get_hss_signature_length is translated structurally in the model;
    # here we only check its shape has not changed
    return dict(order=order, arrays=arrays, chain_counts=chain_counts, wi=wi, oi=oi, stride=stride, fns=fns)


def extract_aux_consts():
    s = strip_test_mod(strip_comments(read("src/hss/aux.rs")))
    out = {}
    for m in re.finditer(r"const\s+(\w+)\s*:\s*(usize|u8)\s*=\s*([^;]+);", s):
        out[m.group(1)] = m.group(3).strip()
    for k in ["AUX_DATA_MARKER", "NO_AUX_DATA", "AUX_DATA_HASHES", "IPAD", "OPAD"]:
        need(k in out, "aux.rs constant " + k)
    # which levels hss_finalize_aux_data feeds into the MAC: read off the loop when it still has the index-loop shape; a
    # differently shaped (e.g. iterator) loop is assumed to cover all levels - the MAC bytes are compared with the library
    # on every run of C10, so a wrong assumption shows there
    out["FINALIZE_INCLUSIVE"] = "1"
    out["FINALIZE_SHAPE_KNOWN"] = False
    try:
        fin = block_after(s, r"pub\s+fn\s+hss_finalize_aux_data", "hss_finalize_aux_data")
        m = re.search(r"for\s+\w+\s+in\s+0\s*(\.\.=?)\s*MAX_TREE_HEIGHT", fin)
        if m:
            out["FINALIZE_INCLUSIVE"] = "1" if m.group(1) == "..=" else "0"
            out["FINALIZE_SHAPE_KNOWN"] = True
    except TieBroken:
        pass
    return out


def extract_privkey_consts():
    s = strip_test_mod(strip_comments(read("src/hss/reference_impl_private_key.rs")))
    m = need(re.search(r"const\s+PARAM_SET_END\s*:\s*u8\s*=\s*([^;]+);", s), "PARAM_SET_END")
    return {"PARAM_SET_END": m.group(1).strip()}


def extract_build():
    """build.rs defaults in their source shape - optional (None when build.rs was reshaped): the defaults are then read from
    the constants of the default build of the compiled library (runtime_tables)"""
    try:
        s = strip_comments(read("build.rs"))
        lv = need(re.search(r"max_allowed_hss_levels\s*\.map_or\(Ok\((\d+)\)", s), "build.rs default level count")
        lim = need(re.search(r"if\s+max_allowed_hss_levels\s*>\s*(\d+)", s), "build.rs level limit")
        th = need(re.search(r'tree_heights\s*\.unwrap_or\("([^"]*)"\)', s), "build.rs default tree heights")
        wp = need(re.search(r'winternitz_parameters\s*\.unwrap_or\("([^"]*)"\)', s), "build.rs default winternitz parameters")
        return dict(levels=int(lv.group(1)), limit=int(lim.group(1)),
                    heights=[int(x) for x in th.group(1).split(", ")],
                    winternitz=[int(x) for x in wp.group(1).split(", ")])
    except (TieBroken, Exception):
        return None


def runtime_tables():
    """The authoritative parameter tables and build defaults: read from the *compiled* library (hooks on, default build)
    through the harness, so that a reshaping of the source that keeps the values does not break the tie."""
    sys.path.insert(0, os.path.dirname(os.path.abspath(__file__)))
    import hbs
    ok, path = hbs.build_harness()
    if not ok:
        raise TieBroken("the library does not build with hooks enabled: " + path[-1500:])
    hz = hbs.harness(path, threads=2)
    try:
        fam = {}
        for H in hbs.HASHES:
            ans = hz.batch(["rows H=%s" % H])[0]
            if not ans.startswith("ok"):
                raise TieBroken("rows hook failed for %s: %s" % (H, ans[:200]))
            d = {"ots-get": {}, "ots-from": {}, "lms-get": {}, "lms-from": {}}
            for tok in ans.split()[1:]:
                kind, rest = tok.split(":", 1)
                t, v = rest.split("=")
                d[kind][int(t)] = tuple(int(x) for x in v.split("/"))
            fam[H] = d
        consts = dict(t.split("=", 1) for t in hz.batch(["consts"])[0].split()[1:] if "=" in t)
    finally:
        hz.close()
    byn = {}
    for H, d in fam.items():
        n = hbs.HASHES[H]
        if n in byn and byn[n] != d:
            raise TieBroken("parameter tables differ between hash families of the same output length %d (the model is keyed by length only)" % n)
        byn[n] = d
    lms = byn[32]["lms-get"]
    for n, d in byn.items():
        if d["lms-get"] != lms or d["lms-from"] != byn[32]["lms-from"]:
            raise TieBroken("LMS table depends on the hash")
    # LM-OTS: (typeId, w, ls) per type code must not depend on n; p(n, w) is the chain-count table
    variants = {}
    chains = {}
    for n, d in byn.items():
        for t, (tid, w, p, ls) in d["ots-get"].items():
            name = "LmotsW%d" % w
            if variants.setdefault(name, (tid, w, ls)) != (tid, w, ls):
                raise TieBroken("LM-OTS row %s differs between hash lengths (the generated table shape cannot express that)" % name)
            if chains.setdefault((w, n), p) != p:
                raise TieBroken("chain count is not a function of (w, n)")
        for t, (tid, w, p, ls) in d["ots-from"].items():
            if variants.get("LmotsW%d" % w) != (tid, w, ls) or chains.get((w, n)) != p:
                raise TieBroken("From<u32> and get_from_type disagree on an LM-OTS row")
    ws = sorted({w for (w, n) in chains})
    ns = sorted({n for (w, n) in chains})
    counts = []
    for w in ws:
        for n in ns:
            if (w, n) not in chains:
                raise TieBroken("chain count missing for (w=%d, n=%d)" % (w, n))
            counts.append(chains[(w, n)])
    ots_names = {t: "LmotsW%d" % row[1] for t, row in byn[32]["ots-get"].items()}
    ots_from = {t: "LmotsW%d" % row[1] for t, row in byn[32]["ots-from"].items()}
    lms_names = {t: "LmsH%d" % row[1] for t, row in lms.items()}
    lms_from = {t: "LmsH%d" % row[1] for t, row in byn[32]["lms-from"].items()}
    lms_rows = {}
    for t, (tid, h) in sorted(lms.items()):
        lms_rows["LmsH%d" % h] = (tid, h)
    rt = dict(
        lmots=dict(from_map=sorted(ots_from.items()), from_default="LmotsReserved",
                   construct=[("LmotsReserved", None)] + [(nm, (variants[nm][0], variants[nm][1], variants[nm][1], variants[nm][2])) for nm in sorted(variants, key=lambda x: variants[x][1])],
                   get_from_type=sorted(ots_names.items())),
        lms=dict(from_map=sorted(lms_from.items()), from_default="LmsReserved",
                 construct=[("LmsReserved", None)] + sorted(lms_rows.items(), key=lambda kv: kv[1][1]),
                 get_from_type=sorted(lms_names.items())),
        chain_counts=counts, wi=[(w, i) for i, w in enumerate(ws)], oi=[(n, i) for i, n in enumerate(ns)], stride=len(ns),
        build=dict(levels=int(consts["MAX_ALLOWED_HSS_LEVELS"]), heights=[int(x) for x in consts["TREE_HEIGHTS"].split(",")],
                   winternitz=[int(x) for x in consts["WINTERNITZ_PARAMETERS"].split(",")]),
    )
    return rt


SRC_FILES = None


def rust_sources():
    global SRC_FILES
    if SRC_FILES is None:
        fs = []
        for root, _, files in os.walk(os.path.join(REPO, "src")):
            for f in sorted(files):
                if f.endswith(".rs"):
                    fs.append(os.path.relpath(os.path.join(root, f), REPO))
        SRC_FILES = sorted(fs)
    return SRC_FILES


def extract_structs():
    """every struct outside cfg(test): name, derives, fields (name, type, zeroize(skip)), DefaultIsZeroes impls"""
    decls = []
    default_is_zeroes = []
    for rel in rust_sources():
        if rel.endswith("verif_hooks.rs"):
            continue
        s = strip_test_mod(strip_comments(read(rel)))
        for m in re.finditer(r"impl\s*(<[^>]*>)?\s*DefaultIsZeroes\s+for\s+(\w+)", s):
            default_is_zeroes.append(m.group(2))
        for m in re.finditer(r"((?:#\[[^\]]*\]\s*)*)pub\s+struct\s+(\w+)\s*(<[^>{(;]*>)?\s*([({;])", s):
            attrs, name, _gen, opener = m.group(1), m.group(2), m.group(3), m.group(4)
            derives = []
            for d in re.finditer(r"derive\(([^)]*)\)", attrs):
                derives += [x.strip() for x in d.group(1).split(",") if x.strip()]
            fields = []
            if opener == "{":
                i = m.end()
                depth = 1
                j = i
                while depth:
                    if s[j] == "{":
                        depth += 1
                    elif s[j] == "}":
                        depth -= 1
                    j += 1
                body = s[i : j - 1]
                # split fields at top-level commas
                parts, depth, cur = [], 0, ""
                for ch in body:
                    if ch in "<([":
                        depth += 1
                    elif ch in ">)]":
                        depth -= 1
                    if ch == "," and depth == 0:
                        parts.append(cur)
                        cur = ""
                    else:
                        cur += ch
                if cur.strip():
                    parts.append(cur)
                for p in parts:
                    skip = bool(re.search(r"#\[zeroize\(skip\)\]", p))
                    p2 = re.sub(r"#\[[^\]]*\]", "", p).strip()
                    fm = re.match(r"(?:pub(?:\([^)]*\))?\s+)?(\w+)\s*:\s*(.+)$", p2, re.S)
                    if fm:
                        fields.append((fm.group(1), " ".join(fm.group(2).split()), skip))
            elif opener == "(":
                i = m.end()
                depth = 1
                j = i
                while depth:
                    if s[j] == "(":
                        depth += 1
                    elif s[j] == ")":
                        depth -= 1
                    j += 1
                body = s[i : j - 1]
                for k, p in enumerate([x for x in body.split(",") if x.strip()] if "<" not in body else [body]):
                    skip = bool(re.search(r"#\[zeroize\(skip\)\]", p))
                    p2 = re.sub(r"#\[[^\]]*\]", "", p).strip()
                    p2 = re.sub(r"^pub(\([^)]*\))?\s+", "", p2)
                    fields.append((str(k), " ".join(p2.split()), skip))
            decls.append(dict(file=rel, name=name, derives=derives, fields=fields))
    return decls, sorted(set(default_is_zeroes))


AMBIENT_PATTERNS = [
    ("static", r"\bstatic\s+(mut\s+)?[A-Z_]+\s*:"),
    ("thread_local", r"\bthread_local!"),
    ("lazy_static", r"\blazy_static!|\bonce_cell\b|\bOnceLock\b|\bLazyLock\b"),
    ("interior_mut", r"\b(Cell|RefCell|UnsafeCell|Mutex|RwLock|Atomic\w+)\b"),
    ("rng", r"\bOsRng\b|\brand::|\bthread_rng\b|\bgetrandom\b"),
    ("time", r"\bstd::time\b|\bInstant\b|\bSystemTime\b"),
    ("env", r"\bstd::env\b|\benv::var\b"),
    ("fs", r"\bstd::fs\b|\bFile::"),
    ("unsafe", r"\bunsafe\b"),
    ("net", r"\bstd::net\b"),
]


def feature_regions(s):
    """line numbers covered by a `#[cfg(feature = "fast_verify")]` item or `use {...}` block (very light-weight)"""
    covered = set()
    lines = s.split("\n")
    i = 0
    while i < len(lines):
        if re.search(r'#\[cfg\((all\()?feature\s*=\s*"fast_verify"', lines[i]):
            # cover until the end of the next item: balanced braces / parens or first ';'
            j = i + 1
            depth = 0
            seen_open = False
            while j < len(lines):
                for ch in lines[j]:
                    if ch in "{(":
                        depth += 1
                        seen_open = True
                    elif ch in "})":
                        depth -= 1
                if (seen_open and depth <= 0) or (not seen_open and lines[j].rstrip().endswith((";", ","))):
                    break
                j += 1
            for k in range(i, min(j + 1, len(lines))):
                covered.add(k + 1)
            i = j + 1
        else:
            i += 1
    return covered


def extract_ambient():
    sites = []
    for rel in rust_sources():
        if rel.endswith("verif_hooks.rs"):
            continue
        raw = read(rel)
        s = strip_test_mod(strip_comments(raw))
        fv = feature_regions(s)
        for ln, line in enumerate(s.split("\n"), 1):
            for kind, pat in AMBIENT_PATTERNS:
                if re.search(pat, line):
                    if kind == "unsafe" and "forbid(unsafe_code)" in line:
                        continue
                    sites.append(dict(kind=kind, file=rel, line=ln, fast_verify_only=(ln in fv), text=line.strip()[:100]))
    return sites


def fn_digests():
    """advisory anchor map: sha256 of the whitespace-normalised text of each source file's non-test part"""
    out = {}
    for rel in rust_sources():
        s = strip_test_mod(strip_comments(read(rel)))
        out[rel] = hashlib.sha256(" ".join(s.split()).encode()).hexdigest()[:16]
    out["build.rs"] = hashlib.sha256(" ".join(strip_comments(read("build.rs")).split()).encode()).hexdigest()[:16]
    return out


# ------------------------------------------------------------------------------------------------

def translate_fn(name, params, body, known, consts=None):
    """Rust const fn body (a single arithmetic expression) -> Lean expression"""
    e = body
    e = re.sub(r"size_of::<u32>\(\)", "4", e)
    e = re.sub(r"size_of::<LmsTreeIdentifier>\(\)", "ILEN", e)
    # calls f(a, b) -> (f a b)
    def call(m):
        f = m.group(1)
        args = [a.strip() for a in m.group(2).split(",")]
        if f not in known:
            raise TieBroken("const fn %s calls unknown function %s" % (name, f))
        return "(" + f + " " + " ".join("(" + a + ")" for a in args) + ")"
    prev = None
    while prev != e:
        prev = e
        e = re.sub(r"\b([a-z_][a-z_0-9]*)\(([^()]*)\)", call, e)
    if not re.fullmatch(r"[\w\s+*()]+", e):
        raise TieBroken("const fn %s has an expression outside the supported grammar: %s" % (name, body))
    # named constants are inlined by value, so that re-spelling an expression (23 -> PRNG_SEED) does not change the model text
    if consts:
        e = re.sub(r"\b[A-Z][A-Z0-9_]*\b", lambda m: str(consts[m.group(0)]) if m.group(0) in consts else m.group(0), e)
    return e


def generate():
    rt = runtime_tables()
    notes = []
    # source-shape parse of the same tables: optional, cross-checked against the compiled library
    try:
        lmots_src = extract_lmots()
        lms_src = extract_lms()
    except TieBroken as ex:
        lmots_src = lms_src = None
        notes.append("parameter tables no longer have the source shape the extractor knows (%s); taken from the compiled library" % ex)
    lmots, lms = rt["lmots"], rt["lms"]
    lms["hook_types"] = (lms_src or {}).get("hook_types", [1] if any(t == 1 for t, _ in lms["get_from_type"]) else [])
    if lmots_src is not None:
        for k in ("from_map", "get_from_type", "construct"):
            if sorted(lmots_src[k], key=str) != sorted(lmots[k], key=str):
                raise TieBroken("LM-OTS table: source parse and compiled library disagree on %s: %s vs %s" % (k, lmots_src[k], lmots[k]))
        for k in ("from_map", "get_from_type", "construct"):
            if sorted(lms_src[k], key=str) != sorted(lms[k], key=str):
                raise TieBroken("LMS table: source parse and compiled library disagree on %s: %s vs %s" % (k, lms_src[k], lms[k]))
        lmots["construct"] = lmots_src["construct"]          # keep the source order
        lms["construct"] = lms_src["construct"]
    cs = extract_constants()
    if cs["chain_counts"] is not None:
        src_fn = {}
        for (w, wi_) in cs["wi"]:
            for (n, oi_) in cs["oi"]:
                src_fn[(w, n)] = cs["chain_counts"][wi_ * cs["stride"] + oi_]
        rt_fn = {}
        for (w, wi_) in rt["wi"]:
            for (n, oi_) in rt["oi"]:
                rt_fn[(w, n)] = rt["chain_counts"][wi_ * rt["stride"] + oi_]
        if src_fn != rt_fn:
            raise TieBroken("chain-count table: source parse and compiled library disagree: %s vs %s" % (src_fn, rt_fn))
    else:
        notes.append("HASH_CHAIN_COUNTS no longer has the source shape the extractor knows; chain counts taken from the compiled library")
        cs["chain_counts"], cs["wi"], cs["oi"], cs["stride"] = rt["chain_counts"], rt["wi"], rt["oi"], rt["stride"]
    aux = extract_aux_consts()
    if not aux.pop("FINALIZE_SHAPE_KNOWN"):
        notes.append("hss_finalize_aux_data loop reshaped: assumed to cover all levels (checked by the MAC correspondence of C10)")
    pk = extract_privkey_consts()
    build_src = extract_build()
    build = dict(rt["build"], limit=(build_src or {}).get("limit", 8))
    if build_src is None:
        notes.append("build.rs reshaped: defaults taken from the constants of the default build")
    elif (build_src["levels"], build_src["heights"], build_src["winternitz"]) != (build["levels"], build["heights"], build["winternitz"]):
        raise TieBroken("build.rs defaults: source parse %s and default build %s disagree" % (build_src, rt["build"]))
    decls, diz = extract_structs()
    ambient = extract_ambient()
    digests = fn_digests()

    files = {}

    # ---------------- Tables.lean
    t = []
    t.append("/- GENERATED by tools/extract.py from /repo's working tree. Do not edit. -/")
    t.append("namespace Generated")
    t.append("")
    t.append("/-- `impl From<u32> for LmotsAlgorithm`: (type code, variant) -/")
    t.append("def lmotsFromU32 : List (Nat × String) := [" + ", ".join("(%d, %s)" % (k, lean_str(v)) for k, v in lmots["from_map"]) + "]")
    t.append("def lmotsFromU32Default : String := " + lean_str(lmots["from_default"] or ""))
    t.append("/-- `LmotsAlgorithm::construct_parameter`: variant ↦ (type_id, w, w passed to get_num_winternitz_chains, checksum_left_shift); `none` for the reserved variant -/")
    t.append("def lmotsConstruct : List (String × Option (Nat × Nat × Nat × Nat)) := [" + ", ".join(
        "(%s, %s)" % (lean_str(v), "none" if r is None else "some (%d, %d, %d, %d)" % r) for v, r in lmots["construct"]) + "]")
    t.append("/-- `LmotsAlgorithm::get_from_type`: (type code, variant) -/")
    t.append("def lmotsGetFromType : List (Nat × String) := [" + ", ".join("(%d, %s)" % (k, lean_str(v)) for k, v in lmots["get_from_type"]) + "]")
    t.append("")
    t.append("def lmsFromU32 : List (Nat × String) := [" + ", ".join("(%d, %s)" % (k, lean_str(v)) for k, v in lms["from_map"]) + "]")
    t.append("def lmsFromU32Default : String := " + lean_str(lms["from_default"] or ""))
    t.append("/-- `LmsAlgorithm::construct_parameter`: variant ↦ (type_id, tree_height) -/")
    t.append("def lmsConstruct : List (String × Option (Nat × Nat)) := [" + ", ".join(
        "(%s, %s)" % (lean_str(v), "none" if r is None else "some (%d, %d)" % r) for v, r in lms["construct"]) + "]")
    t.append("def lmsGetFromType : List (Nat × String) := [" + ", ".join("(%d, %s)" % (k, lean_str(v)) for k, v in lms["get_from_type"]) + "]")
    t.append("/-- LMS type codes that exist only because of the verification hook (the 4-leaf test height) -/")
    t.append("def lmsHookTypes : List Nat := " + lean_nat_list(lms["hook_types"]))
    t.append("")
    t.append("def hashChainCounts : List Nat := " + lean_nat_list(cs["chain_counts"]))
    t.append("def chainWIndex : List (Nat × Nat) := [" + ", ".join("(%d, %d)" % p for p in cs["wi"]) + "]")
    t.append("def chainOIndex : List (Nat × Nat) := [" + ", ".join("(%d, %d)" % p for p in cs["oi"]) + "]")
    t.append("def chainStride : Nat := %d" % cs["stride"])
    t.append("")
    t.append("end Generated")
    files["Tables.lean"] = "\n".join(t) + "\n"

    # ---------------- Consts.lean
    env = {}
    c = []
    c.append("/- GENERATED by tools/extract.py from /repo's working tree. Do not edit. -/")
    c.append("namespace Generated")
    c.append("")
    skip_names = {"MAX_NUM_WINTERNITZ_CHAINS", "MAX_LMOTS_SIGNATURE_LENGTH", "MAX_LMS_PUBLIC_KEY_LENGTH",
                  "MAX_LMS_SIGNATURE_LENGTH", "MAX_HSS_PUBLIC_KEY_LENGTH", "MAX_HSS_SIGNED_PUBLIC_KEY_LENGTH",
                  "MAX_HSS_SIGNATURE_LENGTH", "PRNG_MAX_LEN", "ITER_MAX_LEN"}
    fn_env = {"prng_len": lambda n: 23 + n}
    for name, ty, expr in cs["order"]:
        if name in skip_names:
            continue  # configuration-dependent capacities are functions of Config in the model
        bits = {"usize": 64, "u8": 8, "u16": 16, "u32": 32, "u64": 64}[ty]
        e2 = expr
        v = eval_const(e2, env, bits) & ((1 << bits) - 1)
        env[name] = v
        c.append("def %s : Nat := %d" % (name, v))
    for name, arr in cs["arrays"].items():
        c.append("def %s : List UInt8 := [%s]" % (name, ", ".join(str(x) for x in arr)))
    for k in ["AUX_DATA_MARKER", "NO_AUX_DATA", "AUX_DATA_HASHES", "IPAD", "OPAD"]:
        c.append("def %s : Nat := %d" % (k, eval_const(aux[k], env)))
    c.append("/-- 1 iff `hss_finalize_aux_data` MACs the levels `0..=MAX_TREE_HEIGHT` (0: `0..MAX_TREE_HEIGHT`) -/")
    c.append("def FINALIZE_INCLUSIVE : Nat := " + aux["FINALIZE_INCLUSIVE"])
    c.append("def PARAM_SET_END : Nat := %d" % eval_const(pk["PARAM_SET_END"], env))
    c.append("")
    known = set()
    for fname in ["prng_len", "iter_len", "lmots_signature_length", "lms_public_key_length", "lms_signature_length"]:
        params, body = cs["fns"][fname]
        le = translate_fn(fname, params, body, known, env)
        c.append("def %s %s : Nat := %s" % (fname, " ".join("(%s : Nat)" % p for p in params), le))
        known.add(fname)
    # hss_signed_public_key_length refers to MAX_LMS_PUBLIC_KEY_LENGTH = lms_public_key_length(MAX_HASH_SIZE)
    params, body = cs["fns"]["hss_signed_public_key_length"]
    body2 = body.replace("MAX_LMS_PUBLIC_KEY_LENGTH", "(lms_public_key_length (MAX_HASH_SIZE))")
    le = translate_fn("hss_signed_public_key_length", params, body2.replace("(lms_public_key_length (MAX_HASH_SIZE))", "MAXLMSPK"), known, env)
    le = le.replace("MAXLMSPK", "(lms_public_key_length MAX_HASH_SIZE)")
    c.append("def hss_signed_public_key_length %s : Nat := %s" % (" ".join("(%s : Nat)" % p for p in params), le))
    c.append("")
    c.append("/-- build.rs defaults -/")
    c.append("def buildDefaultLevels : Nat := %d" % build["levels"])
    c.append("def buildLevelLimit : Nat := %d" % build["limit"])
    c.append("def buildDefaultHeights : List Nat := " + lean_nat_list(build["heights"]))
    c.append("def buildDefaultWinternitz : List Nat := " + lean_nat_list(build["winternitz"]))
    c.append("")
    c.append("end Generated")
    files["Consts.lean"] = "\n".join(c) + "\n"

    # ---------------- Decls.lean (C16) + Ambient (C09)
    d = []
    d.append("/- GENERATED by tools/extract.py from /repo's working tree. Do not edit. -/")
    d.append("namespace Generated")
    d.append("")
    # C16: numeric view of the declaration table (names -> indices, ownership by value, raw-secret roots)
    SECRET_ROOTS = [("Seed", "data"), ("LmotsPrivateKey", "key")]
    names = [x["name"] for x in decls]
    for (sn, fn) in SECRET_ROOTS:
        if not any(x["name"] == sn and any(f[0] == fn for f in x["fields"]) for x in decls):
            raise TieBroken("secret root %s.%s not found among the struct declarations" % (sn, fn))
    d.append("structure FieldDecl where")
    d.append("  name : String")
    d.append("  ty : String")
    d.append("  skip : Bool          -- #[zeroize(skip)]")
    d.append("  owns : List Nat      -- indices of the structs this field owns by value (references do not own)")
    d.append("  rawSecret : Bool     -- the field itself stores secret bytes (seed bytes / chain values)")
    d.append("deriving Repr, DecidableEq")
    d.append("")
    d.append("structure StructDecl where")
    d.append("  idx : Nat")
    d.append("  file : String")
    d.append("  name : String")
    d.append("  derives : List String")
    d.append("  zeroize : Bool       -- derive(Zeroize)")
    d.append("  zeroizeOnDrop : Bool -- derive(ZeroizeOnDrop)")
    d.append("  fields : List FieldDecl")
    d.append("deriving Repr, DecidableEq")
    d.append("")
    d.append("def structDecls : List StructDecl := [")
    rows = []
    for i, x in enumerate(decls):
        fl = []
        for n_, ty, sk in x["fields"]:
            owns = [] if ty.strip().startswith("&") else [j for j, nm in enumerate(names) if re.search(r"\b%s\b" % re.escape(nm), ty)]
            raw = (x["name"], n_) in SECRET_ROOTS
            fl.append("⟨%s, %s, %s, %s, %s⟩" % (lean_str(n_), lean_str(ty), "true" if sk else "false", lean_nat_list(owns), "true" if raw else "false"))
        rows.append("  ⟨%d, %s, %s, [%s], %s, %s, [%s]⟩" % (i, lean_str(x["file"]), lean_str(x["name"]),
                                                   ", ".join(lean_str(y) for y in x["derives"]),
                                                   "true" if "Zeroize" in x["derives"] else "false",
                                                   "true" if "ZeroizeOnDrop" in x["derives"] else "false", ", ".join(fl)))
    d.append(",\n".join(rows))
    d.append("]")
    d.append("")
    d.append("def defaultIsZeroes : List String := [" + ", ".join(lean_str(x) for x in diz) + "]")
    d.append("")
    d.append("structure AmbientSite where")
    d.append("  kind : String")
    d.append("  file : String")
    d.append("  line : Nat")
    d.append("  fastVerifyOnly : Bool")
    d.append("deriving Repr, DecidableEq")
    d.append("")
    d.append("def ambientSites : List AmbientSite := [")
    d.append(",\n".join("  ⟨%s, %s, %d, %s⟩" % (lean_str(a["kind"]), lean_str(a["file"]), a["line"], "true" if a["fast_verify_only"] else "false") for a in ambient))
    d.append("]")
    d.append("")
    d.append("end Generated")
    files["Decls.lean"] = "\n".join(d) + "\n"

    meta = dict(anchor_digests=digests, ambient=ambient, structs=[x["name"] for x in decls], decls=decls, notes=notes)
    return files, meta


def main():
    global REPO, OUT
    args = sys.argv[1:]
    check = False
    while args:
        a = args.pop(0)
        if a == "--repo":
            REPO = args.pop(0)
        elif a == "--out":
            OUT = args.pop(0)
        elif a == "--check":
            check = True
    try:
        files, meta = generate()
    except TieBroken as e:
        print("TIE-BROKEN extractor: " + str(e))
        sys.exit(2)
    os.makedirs(OUT, exist_ok=True)
    changed = []
    for name, text in files.items():
        p = os.path.join(OUT, name)
        old = open(p).read() if os.path.exists(p) else None
        if old != text:
            changed.append(name)
            if not check:
                open(p, "w").write(text)
    if not check:
        json.dump(meta, open(os.path.join(OUT, "meta.json"), "w"), indent=1, sort_keys=True)
    for n_ in meta.get("notes", []):
        print("extract: note: " + n_)
    print("extract: ok; changed: " + (", ".join(changed) if changed else "none"))
    if check and changed:
        sys.exit(3)


if __name__ == "__main__":
    main()

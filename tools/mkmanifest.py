#!/usr/bin/env python3
"""writes /verif/MANIFEST.json from the per-property texts below"""
import json, os, sys
V = os.path.abspath(os.path.join(os.path.dirname(__file__), ".."))
sys.path.insert(0, os.path.join(V, "tools"))
TEXT = json.load(open(os.path.join(V, "tools", "manifest_texts.json")))
checks = []
for pid in sorted(TEXT):
    t = TEXT[pid]
    checks.append({
        "property_id": pid,
        "quick_cmd": "./check %s --tier quick" % pid,
        "thorough_cmd": "./check %s --tier thorough" % pid,
        "evidence_file": "/verif/evidence/%s.json" % pid,
        "replay_cmd_template": "./check %s --replay {path}" % pid,
        "engine": "lean4-proof+correspondence",
        "level_claimed": {"category": "proof", "text": t["text"], "design_ref": t["design_ref"]},
        "level_note": t["note"],
        "technique": t["technique"],
    })
m = {
    "version": 1,
    "setup_cmd": "./setup.sh",
    "hooks": {
        "guard": "--cfg hbs_lms_verif",
        "enable": "the harness crate /verif/harness sets build.rustflags = [\"--cfg\", \"hbs_lms_verif\"] in its .cargo/config.toml and depends on /repo by path; cargo build --release --offline [--features fast_verify] with HBS_LMS_* build variables for constrained configurations",
        "baseline_off_cmd": "cd /repo && cargo test --workspace --no-fail-fast --offline",
        "source_commits": ["d4483ab", "bf14f2d", "54aa6be", "bd96398", "b3ddfa5"],
        "add_only": True,
    },
    "engines": [
        {"name": "lean4-proof+correspondence", "path": "/verif/lean", "serves_properties": sorted(TEXT),
         "kind_free_text": "Lean 4.33 model (lean/HbsLms/Impl, Spec) with kernel-checked theorems (lean/HbsLms/Props, Lemmas), tables and constants regenerated from /repo on every run (tools/extract.py), and a differential correspondence check between the compiled model driver (hbsdriver) and the real library behind the hook-enabled Rust harness (/verif/harness), orchestrated by tools/check.py"},
    ],
    "checks": checks,
    "not_applicable": [],
    "notes": "All 16 properties are claimed. Known findings: /verif/known_findings.json (5 known, 11 fixed by fix: commits in /repo). DESIGN.md describes the approach, the trusted base and which seeded changes each check catches.",
}
json.dump(m, open(os.path.join(V, "MANIFEST.json"), "w"), indent=1)
print("MANIFEST.json written with %d checks" % len(checks))

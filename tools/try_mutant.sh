#!/bin/sh
# usage: tools/try_mutant.sh <patch.diff> <Cxx> [<Cyy> ...]   -- apply a seeded change to /repo, run checks, undo it
set -u
P="$1"; shift
cd /repo || exit 2
git diff --quiet || { echo "repo not clean"; exit 2; }
git apply "$P" || { echo "patch does not apply"; exit 2; }
for c in "$@"; do
  echo "=== $c on $(basename $(dirname $P))"
  (cd /verif && timeout 1200 ./check "$c" --tier quick 2>&1 | grep -E "VIOLATION|KNOWN|broken|Traceback|Error" | cut -c1-400)
  echo "rc=$?"
done
git -C /repo checkout -- . 
git -C /repo status --short | head -3

"""Input generators for the correspondence check and the property oracles.

All random choices come from one `Rng(seed)`; every generated request is a line of the executor
protocol, tagged with a class label used for the coverage statistics in the evidence."""
from hbs import *  # noqa


class Case:
    __slots__ = ("line", "cls", "meta")

    def __init__(self, line, cls, meta=None):
        self.line = line
        self.cls = cls
        self.meta = meta or {}


MSG_LENS = [0, 1, 15, 16, 31, 32, 33, 55, 56, 63, 64, 65, 119, 120, 200, 1000, 4096]


def gen_msg(rng, tier="quick"):
    l = rng.choice(MSG_LENS if tier == "thorough" else MSG_LENS[:-2] + [300])
    return rng.bytes_(l)


def cheap_param_sets(rng, tier, count, max_levels=8, allow_h5=True):
    """mostly-valid parameter lists that are affordable to generate trees for:
    H2 (hook height) everywhere, H5 with small trees, mixed W"""
    out = []
    base = [
        [(4, 1)], [(3, 1)], [(2, 1)], [(1, 1)],
        [(3, 1), (4, 1)], [(4, 1), (1, 1)], [(2, 1), (3, 1), (4, 1)],
        [(3, 5)], [(2, 5)], [(3, 5), (3, 1)], [(3, 1), (3, 5)], [(2, 1), (3, 5), (3, 1)],
        [(3, 1)] * 4, [(3, 1)] * 8, [(3, 1), (2, 1), (4, 1), (1, 1), (3, 1), (3, 1), (2, 1), (3, 1)],
    ]
    for b in base:
        if len(b) <= max_levels and (allow_h5 or all(l != 5 for _, l in b)):
            out.append(b)
    while len(out) < count:
        L = rng.choice([1, 1, 2, 2, 3, 3, 4, 5, 6, 7, 8])
        L = min(L, max_levels)
        ps = []
        for i in range(L):
            lms = 5 if (allow_h5 and rng.random() < 0.2) else 1
            ots = rng.choice([1, 2, 3, 3, 4]) if lms == 1 else rng.choice([2, 3, 3])
            ps.append((ots, lms))
        out.append(ps)
    return out[:count]


def heights_of(params):
    return [LMS_H[l] for (_, l) in params]


def boundary_counters(heights, rng, extra=3):
    """0, 1, each radix boundary +-1, last, and some random ones (all < lifetime)"""
    total = sum(heights)
    N = 1 << total
    cs = {0, 1 % N, N - 1, max(N - 2, 0)}
    acc = 0
    for h in reversed(heights):
        acc += h
        b = 1 << acc
        for d in (-1, 0, 1):
            if 0 <= b + d < N:
                cs.add(b + d)
        for k in (2, 3):
            if 0 <= k * b - 1 < N:
                cs.add(k * b - 1)
                cs.add(k * b % N)
    for _ in range(extra):
        cs.add(rng.randrange(N))
    return sorted(cs)

#!/usr/bin/env python3
"""Applies every confirmed seeded change under /verif/seeded/<id>/patch.diff to /repo (one at a time, always undone),
runs the quick check of the property it targets, and records the verdict in seeded/RESULTS.json / RESULTS.md."""
import glob, json, os, subprocess, sys, time
V = "/verif"
res = {}
only = sys.argv[1:]
for d in sorted(glob.glob(V + "/seeded/*/")):
    sid = os.path.basename(d.rstrip("/"))
    if not sid.startswith("seed-"):
        continue
    if only and sid not in only:
        continue
    meta = json.load(open(d + "meta.json"))
    prop = meta["property"]
    if subprocess.run(["git", "-C", "/repo", "diff", "--quiet"]).returncode != 0:
        print("repo not clean"); sys.exit(2)
    if subprocess.run(["git", "-C", "/repo", "apply", d + "patch.diff"]).returncode != 0:
        res[sid] = {"property": prop, "verdict": "patch does not apply"}
        continue
    t = time.time()
    try:
        p = subprocess.run(["./check", prop, "--tier", "quick"], cwd=V, stdout=subprocess.PIPE, stderr=subprocess.STDOUT, text=True, timeout=1800)
        out, rc = p.stdout, p.returncode
    finally:
        subprocess.run(["git", "-C", "/repo", "checkout", "--", "."])
    viol = [l for l in out.splitlines() if l.startswith("VIOLATION")]
    res[sid] = {"property": prop, "exit": rc, "violation_lines": viol, "seconds": round(time.time() - t, 1),
                "verdict": ("caught with a failing input" if viol and "no-failing-input-found" not in viol[0] else
                            "caught (broken obligation, no failing input found)" if viol else "MISSED")}
    if viol and "replay=" in viol[0]:
        rp = viol[0].split("replay=")[1].split()[0]
        try:
            body = json.load(open(rp))
            f = (body.get("failures") or [{}])[0]
            res[sid]["first_failure"] = {"what": f.get("what"), "request": (f.get("requests") or [""])[0][:200]}
        except Exception:
            pass
    print(sid, res[sid]["verdict"], flush=True)
prev = {}
if os.path.exists(V + "/seeded/RESULTS.json"):
    prev = json.load(open(V + "/seeded/RESULTS.json"))
prev.update(res)
json.dump(prev, open(V + "/seeded/RESULTS.json", "w"), indent=1, sort_keys=True)
with open(V + "/seeded/RESULTS.md", "w") as f:
    f.write("| seeded change | property | verdict of `./check <property> --tier quick` | first failing input reported |\n|---|---|---|---|\n")
    for sid in sorted(prev):
        r = prev[sid]
        ff = r.get("first_failure") or {}
        f.write("| %s | %s | %s | %s |\n" % (sid, r["property"], r["verdict"], (ff.get("what") or "").replace("|", "/")))

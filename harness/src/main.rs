//! Stateless line-protocol executor around the real hbs-lms library (built from /repo's working
//! tree with `--cfg hbs_lms_verif`). One request per line, one answer per line; a line `END`
//! flushes the batch (requests of a batch are executed in parallel, answers keep the order).
//!
//! Every request runs under `catch_unwind` on a thread with a large stack; a panic is reported
//! as `panic@<file>:<line>` instead of killing the process.

use std::cell::RefCell;
use std::collections::HashMap;
use std::io::{BufRead, Write};
use std::panic::{catch_unwind, AssertUnwindSafe};
use std::sync::atomic::{AtomicUsize, Ordering};
use std::sync::{Arc, Mutex};

use hbs_lms::signature::{Signature as SigTrait, SignerMut, Verifier};
use hbs_lms::verif_hooks as vh;
use hbs_lms::{
    HashChain, HssParameter, LmotsAlgorithm, LmsAlgorithm, Seed, Sha256_128, Sha256_192,
    Sha256_256, Shake256_128, Shake256_192, Shake256_256, Signature, SigningKey,
    VerifierSignature, VerifyingKey,
};

mod zeroize_probe;

thread_local! {
    static LAST_PANIC: RefCell<String> = RefCell::new(String::new());
}

fn hex(b: &[u8]) -> String {
    if b.is_empty() {
        return "-".to_string();
    }
    let mut s = String::with_capacity(b.len() * 2);
    for x in b {
        s.push_str(&format!("{:02x}", x));
    }
    s
}

fn unhex(s: &str) -> Option<Vec<u8>> {
    if s == "-" {
        return Some(vec![]);
    }
    if s.len() % 2 != 0 {
        return None;
    }
    let mut out = Vec::with_capacity(s.len() / 2);
    let b = s.as_bytes();
    for i in (0..b.len()).step_by(2) {
        let h = (b[i] as char).to_digit(16)?;
        let l = (b[i + 1] as char).to_digit(16)?;
        out.push((h * 16 + l) as u8);
    }
    Some(out)
}

struct Args<'a>(HashMap<&'a str, &'a str>);

impl<'a> Args<'a> {
    fn parse(tokens: &[&'a str]) -> Self {
        let mut m = HashMap::new();
        for t in tokens {
            if let Some(p) = t.find('=') {
                m.insert(&t[..p], &t[p + 1..]);
            }
        }
        Args(m)
    }
    fn s(&self, k: &str) -> Option<&'a str> {
        self.0.get(k).copied()
    }
    fn bytes(&self, k: &str) -> Option<Vec<u8>> {
        unhex(self.s(k)?)
    }
    fn opt_bytes(&self, k: &str) -> Option<Option<Vec<u8>>> {
        match self.s(k) {
            None | Some("none") => Some(None),
            Some(h) => Some(Some(unhex(h)?)),
        }
    }
    fn num(&self, k: &str) -> Option<u64> {
        self.s(k)?.parse().ok()
    }
    fn list(&self, k: &str) -> Option<Vec<u64>> {
        let s = self.s(k)?;
        if s == "-" {
            return Some(vec![]);
        }
        s.split(',').map(|x| x.parse().ok()).collect()
    }
}

fn lmots_alg(t: u64) -> Option<LmotsAlgorithm> {
    Some(match t {
        1 => LmotsAlgorithm::LmotsW1,
        2 => LmotsAlgorithm::LmotsW2,
        3 => LmotsAlgorithm::LmotsW4,
        4 => LmotsAlgorithm::LmotsW8,
        _ => return None,
    })
}

fn lms_alg(t: u64) -> Option<LmsAlgorithm> {
    Some(match t {
        1 => LmsAlgorithm::LmsH2,
        5 => LmsAlgorithm::LmsH5,
        6 => LmsAlgorithm::LmsH10,
        7 => LmsAlgorithm::LmsH15,
        8 => LmsAlgorithm::LmsH20,
        9 => LmsAlgorithm::LmsH25,
        _ => return None,
    })
}

/// params=`ots:lms,ots:lms,...` (type codes), `-` for the empty list
fn parse_params<H: HashChain>(s: &str) -> Option<Vec<HssParameter<H>>> {
    if s == "-" {
        return Some(vec![]);
    }
    let mut out = vec![];
    for item in s.split(',') {
        let mut it = item.split(':');
        let o: u64 = it.next()?.parse().ok()?;
        let l: u64 = it.next()?.parse().ok()?;
        out.push(HssParameter::new(lmots_alg(o)?, lms_alg(l)?));
    }
    Some(out)
}

fn aux_suffix(aux: &Option<Vec<u8>>, used: usize) -> String {
    match aux {
        None => " aux=none".to_string(),
        Some(buf) => format!(" aux={} rest={}", hex(&buf[..used]), hex(&buf[used..])),
    }
}

fn run<H: HashChain>(op: &str, a: &Args) -> Option<String> {
    let n = H::OUTPUT_SIZE as usize;
    Some(match op {
        "hash" => {
            let msg = a.bytes("msg")?;
            format!("ok {}", hex(H::default().chain(&msg[..]).finalize().as_slice()))
        }
        "keygen" => {
            let params = parse_params::<H>(a.s("params")?)?;
            // seed=<n bytes> (Seed::default + as_mut_slice) or seedfull=<32 bytes> (Seed::from([u8; 32]): bytes beyond the hash
            // length are carried by the Seed object but are not part of the seed)
            let seed = if let Some(full) = a.bytes("seedfull") {
                let arr: [u8; 32] = full.try_into().ok()?;
                Seed::<H>::from(arr)
            } else {
                let seedb = a.bytes("seed")?;
                if seedb.len() != n {
                    return None;
                }
                let mut seed = Seed::<H>::default();
                seed.as_mut_slice().copy_from_slice(&seedb);
                seed
            };
            let mut aux = a.opt_bytes("aux")?;
            let (res, used) = match aux.as_mut() {
                None => (hbs_lms::keygen::<H>(&params, &seed, None), 0),
                Some(buf) => {
                    let mut slice: &mut [u8] = &mut buf[..];
                    let r = hbs_lms::keygen::<H>(&params, &seed, Some(&mut slice));
                    (r, slice.len())
                }
            };
            match res {
                Ok((sk, vk)) => format!(
                    "ok sk={} vk={}{}",
                    hex(sk.as_slice()),
                    hex(vk.as_slice()),
                    aux_suffix(&aux, used)
                ),
                Err(_) => format!("err{}", aux_suffix(&aux, used)),
            }
        }
        "sign" => {
            let sk = a.bytes("sk")?;
            let msg = a.bytes("msg")?;
            let accept = match a.s("cb")? {
                "accept" => true,
                "reject" => false,
                _ => return None,
            };
            let mut aux = a.opt_bytes("aux")?;
            let calls: std::cell::RefCell<Vec<Vec<u8>>> = std::cell::RefCell::new(vec![]);
            let mut cb = |k: &[u8]| -> Result<(), ()> {
                calls.borrow_mut().push(k.to_vec());
                if accept {
                    Ok(())
                } else {
                    Err(())
                }
            };
            // the library call runs under its own catch_unwind so that the callback trace survives a panic
            let outcome = catch_unwind(AssertUnwindSafe(|| match aux.as_mut() {
                None => (hbs_lms::sign::<H>(&msg, &sk, &mut cb, None), 0),
                Some(buf) => {
                    let mut slice: &mut [u8] = &mut buf[..];
                    let r = hbs_lms::sign::<H>(&msg, &sk, &mut cb, Some(&mut slice));
                    (r, slice.len())
                }
            }));
            let calls = calls.into_inner();
            let cbs = if calls.is_empty() {
                "none".to_string()
            } else {
                calls.iter().map(|c| hex(c)).collect::<Vec<_>>().join(",")
            };
            match outcome {
                Err(_) => format!("panic@{} cb={}", LAST_PANIC.with(|p| p.borrow().clone()), cbs),
                Ok((Ok(sig), used)) => format!(
                    "ok sig={} cb={}{}",
                    hex(sig.as_ref()),
                    cbs,
                    aux_suffix(&aux, used)
                ),
                Ok((Err(_), used)) => format!("err cb={}{}", cbs, aux_suffix(&aux, used)),
            }
        }
        "trysign" => {
            let sk = a.bytes("sk")?;
            let msg = a.bytes("msg")?;
            let mut aux = a.opt_bytes("aux")?;
            let mut key = match SigningKey::<H>::from_bytes(&sk) {
                Ok(k) => k,
                Err(_) => return Some("err-frombytes".to_string()),
            };
            let (res, used) = match aux.as_mut() {
                None => (key.try_sign(&msg), 0),
                Some(buf) => {
                    let mut slice: &mut [u8] = &mut buf[..];
                    let r = key.try_sign_with_aux(&msg, Some(&mut slice));
                    (r, slice.len())
                }
            };
            match res {
                Ok(sig) => format!(
                    "ok sig={} sk={}{}",
                    hex(sig.as_ref()),
                    hex(key.as_slice()),
                    aux_suffix(&aux, used)
                ),
                Err(_) => format!("err sk={}{}", hex(key.as_slice()), aux_suffix(&aux, used)),
            }
        }
        "verify" => {
            let msg = a.bytes("msg")?;
            let sig = a.bytes("sig")?;
            let pk = a.bytes("pk")?;
            let ok = match a.s("entry")? {
                "fn" => hbs_lms::verify::<H>(&msg, &sig, &pk).is_ok(),
                "sig" => match (
                    <Signature as SigTrait>::from_bytes(&sig),
                    VerifyingKey::<H>::from_bytes(&pk),
                ) {
                    (Ok(s), Ok(k)) => k.verify(&msg, &s).is_ok(),
                    _ => false,
                },
                "vsig" => match (
                    VerifierSignature::from_ref(&sig),
                    VerifyingKey::<H>::from_bytes(&pk),
                ) {
                    (Ok(s), Ok(k)) => k.verify(&msg, &s).is_ok(),
                    _ => false,
                },
                _ => return None,
            };
            if ok { "ok" } else { "err" }.to_string()
        }
        "lifetime" => {
            let sk = a.bytes("sk")?;
            match SigningKey::<H>::from_bytes(&sk) {
                Err(_) => "err".to_string(),
                Ok(k) => match k.get_lifetime() {
                    Ok(l) => format!("ok {}", l),
                    Err(_) => "err".to_string(),
                },
            }
        }
        "frombytes" => {
            let b = a.bytes("bytes")?;
            let ok = match a.s("kind")? {
                "sig" => <Signature as SigTrait>::from_bytes(&b)
                    .map(|s| s.as_ref() == &b[..])
                    .unwrap_or(false),
                "vsig" => VerifierSignature::from_ref(&b)
                    .map(|s| s.as_ref() == &b[..])
                    .unwrap_or(false),
                "vk" => VerifyingKey::<H>::from_bytes(&b)
                    .map(|s| s.as_slice() == &b[..])
                    .unwrap_or(false),
                "sk" => SigningKey::<H>::from_bytes(&b)
                    .map(|s| s.as_slice() == &b[..])
                    .unwrap_or(false),
                _ => return None,
            };
            if ok { "ok" } else { "err" }.to_string()
        }
        "rows" => {
            // the complete parameter tables of this build for hash H: both lookup paths, every type code 0..=16
            let mut out = String::from("ok");
            for t in 0..=16u32 {
                if let Some((id, w, p, ls)) = vh::lmots_row::<H>(t) {
                    out.push_str(&format!(" ots-get:{}={}/{}/{}/{}", t, id, w, p, ls));
                }
                if let Some((id, w, p, ls)) = vh::lmots_row_from_u32::<H>(t) {
                    out.push_str(&format!(" ots-from:{}={}/{}/{}/{}", t, id, w, p, ls));
                }
                if let Some((id, h)) = vh::lms_row::<H>(t) {
                    out.push_str(&format!(" lms-get:{}={}/{}", t, id, h));
                }
                if let Some((id, h)) = vh::lms_row_from_u32::<H>(t) {
                    out.push_str(&format!(" lms-from:{}={}/{}", t, id, h));
                }
            }
            out
        }
        "row" => {
            let t = a.num("type")? as u32;
            match a.s("kind")? {
                "lmots" => match vh::lmots_row::<H>(t) {
                    Some((id, w, p, ls)) => format!("ok id={} w={} p={} ls={}", id, w, p, ls),
                    None => "none".to_string(),
                },
                "lms" => match vh::lms_row::<H>(t) {
                    Some((id, h)) => format!("ok id={} h={}", id, h),
                    None => "none".to_string(),
                },
                _ => return None,
            }
        }
        "digits" => {
            let t = a.num("type")? as u32;
            let d = a.bytes("digest")?;
            if d.len() != n {
                return None;
            }
            match vh::digits::<H>(t, &d) {
                Some(v) => format!(
                    "ok {}",
                    v.iter().map(|x| x.to_string()).collect::<Vec<_>>().join(",")
                ),
                None => "none".to_string(),
            }
        }
        "ctr" => {
            let hs: Vec<u32> = a.list("lms")?.iter().map(|x| *x as u32).collect();
            let c = a.num("c")?;
            let leaves = catch_unwind(AssertUnwindSafe(|| vh::ctr_leaves::<H>(&hs, c)));
            let inc = catch_unwind(AssertUnwindSafe(|| vh::ctr_increment::<H>(&hs, c)));
            let life = catch_unwind(AssertUnwindSafe(|| vh::ctr_lifetime::<H>(&hs, c)));
            let l = match leaves {
                Err(_) => "panic".to_string(),
                Ok(None) => "none".to_string(),
                Ok(Some(v)) => {
                    if v.is_empty() {
                        "-".to_string()
                    } else {
                        v.iter().map(|x| x.to_string()).collect::<Vec<_>>().join(",")
                    }
                }
            };
            let i = match inc {
                Err(_) => "panic".to_string(),
                Ok(None) => "none".to_string(),
                Ok(Some(None)) => "wiped".to_string(),
                Ok(Some(Some(c2))) => c2.to_string(),
            };
            let lf = match life {
                Err(_) => "panic".to_string(),
                Ok(None) => "none".to_string(),
                Ok(Some(x)) => x.to_string(),
            };
            format!("ok leaves={} inc={} life={}", l, i, lf)
        }
        "rootseed" => {
            let sk = a.bytes("sk")?;
            match vh::root_seed::<H>(&sk) {
                Some((s, i)) => format!("ok seed={} id={}", hex(s.as_slice()), hex(&i)),
                None => "none".to_string(),
            }
        }
        "child" => {
            let seed = a.bytes("seed")?;
            let id: [u8; 16] = a.bytes("id")?.try_into().ok()?;
            let q = a.num("q")? as u32;
            match vh::child_seed::<H>(&seed, &id, q) {
                Some((s, i)) => format!("ok seed={} id={}", hex(s.as_slice()), hex(&i)),
                None => "none".to_string(),
            }
        }
        "rand" => {
            let seed = a.bytes("seed")?;
            let id: [u8; 16] = a.bytes("id")?.try_into().ok()?;
            let q = a.num("q")? as u32;
            match vh::randomizer::<H>(&seed, &id, q) {
                Some(s) => format!("ok {}", hex(s.as_slice())),
                None => "none".to_string(),
            }
        }
        "node" => {
            let seed = a.bytes("seed")?;
            let id: [u8; 16] = a.bytes("id")?.try_into().ok()?;
            let r = a.num("r")? as usize;
            match vh::tree_node::<H>(
                &seed,
                &id,
                a.num("ots")? as u32,
                a.num("lms")? as u32,
                r,
            ) {
                Some(s) => format!("ok {}", hex(s.as_slice())),
                None => "none".to_string(),
            }
        }
        "auxshape" => {
            let t = a.num("lms")? as u32;
            let len = a.num("len")? as usize;
            match vh::aux_fresh_shape::<H>(t, len) {
                None => "none".to_string(),
                Some((alen, level, layers, mac)) => format!(
                    "ok len={} level={} layers={} mac={}",
                    alen,
                    level,
                    if layers.is_empty() {
                        "-".to_string()
                    } else {
                        layers.iter().map(|(l, n)| format!("{}:{}", l, n)).collect::<Vec<_>>().join(",")
                    },
                    mac
                ),
            }
        }
        "zeroize" => zeroize_probe::run::<H>(a.s("type")?)?,
        #[cfg(feature = "fast_verify")]
        "fveval" => {
            let t = a.num("type")? as u32;
            let d = a.bytes("digest")?;
            if d.len() != n {
                return None;
            }
            match vh::fast_verify_eval::<H>(t, &d) {
                Some(v) => format!("ok {}", v),
                None => "none".to_string(),
            }
        }
        #[cfg(feature = "fast_verify")]
        "signmut" => {
            let sk = a.bytes("sk")?;
            let mut msg = a.bytes("msg")?;
            let accept = match a.s("cb")? {
                "accept" => true,
                "reject" => false,
                _ => return None,
            };
            let mut calls: Vec<Vec<u8>> = vec![];
            let mut cb = |k: &[u8]| -> Result<(), ()> {
                calls.push(k.to_vec());
                if accept {
                    Ok(())
                } else {
                    Err(())
                }
            };
            // optional aux=<hex>: the answer then carries the buffer as it was left (used part / rest)
            let mut aux = a.opt_bytes("aux")?;
            let (res, used) = match aux.as_mut() {
                None => (hbs_lms::sign_mut::<H>(&mut msg, &sk, &mut cb, None), 0),
                Some(buf) => {
                    let mut slice: &mut [u8] = &mut buf[..];
                    let r = hbs_lms::sign_mut::<H>(&mut msg, &sk, &mut cb, Some(&mut slice));
                    (r, slice.len())
                }
            };
            let cbs = if calls.is_empty() {
                "none".to_string()
            } else {
                calls.iter().map(|c| hex(c)).collect::<Vec<_>>().join(",")
            };
            let sfx = if aux.is_some() { aux_suffix(&aux, used) } else { String::new() };
            match res {
                Ok(sig) => format!("ok sig={} cb={} msg={}{}", hex(sig.as_ref()), cbs, hex(&msg), sfx),
                Err(_) => format!("err cb={} msg={}{}", cbs, hex(&msg), sfx),
            }
        }
        _ => return None,
    })
}

fn consts() -> String {
    let list = |v: &[usize]| v.iter().map(|x| x.to_string()).collect::<Vec<_>>().join(",");
    #[allow(unused_mut)]
    let mut s = format!(
        "ok MAX_ALLOWED_HSS_LEVELS={} MAX_TREE_HEIGHT={} TREE_HEIGHTS={} MIN_WINTERNITZ_PARAMETER={} WINTERNITZ_PARAMETERS={} MAX_NUM_WINTERNITZ_CHAINS={} MAX_HASH_SIZE={} MAX_LMOTS_SIGNATURE_LENGTH={} MAX_LMS_PUBLIC_KEY_LENGTH={} MAX_LMS_SIGNATURE_LENGTH={} MAX_HSS_PUBLIC_KEY_LENGTH={} MAX_HSS_SIGNED_PUBLIC_KEY_LENGTH={} MAX_HSS_SIGNATURE_LENGTH={} REF_IMPL_MAX_PRIVATE_KEY_SIZE={}",
        vh::MAX_ALLOWED_HSS_LEVELS,
        vh::MAX_TREE_HEIGHT,
        list(&vh::TREE_HEIGHTS),
        vh::MIN_WINTERNITZ_PARAMETER,
        list(&vh::WINTERNITZ_PARAMETERS),
        vh::MAX_NUM_WINTERNITZ_CHAINS,
        vh::MAX_HASH_SIZE,
        vh::MAX_LMOTS_SIGNATURE_LENGTH,
        vh::MAX_LMS_PUBLIC_KEY_LENGTH,
        vh::MAX_LMS_SIGNATURE_LENGTH,
        vh::MAX_HSS_PUBLIC_KEY_LENGTH,
        vh::MAX_HSS_SIGNED_PUBLIC_KEY_LENGTH,
        vh::MAX_HSS_SIGNATURE_LENGTH,
        vh::REF_IMPL_MAX_PRIVATE_KEY_SIZE,
    );
    s.push_str(if cfg!(feature = "fast_verify") {
        " fast_verify=1"
    } else {
        " fast_verify=0"
    });
    s
}

fn dispatch(line: &str) -> String {
    let tokens: Vec<&str> = line.split_whitespace().collect();
    if tokens.is_empty() {
        return "badreq".to_string();
    }
    let op = tokens[0];
    let a = Args::parse(&tokens[1..]);
    if op == "consts" {
        return consts();
    }
    let h = a.s("H").unwrap_or("S32");
    let r = catch_unwind(AssertUnwindSafe(|| match h {
        "S32" => run::<Sha256_256>(op, &a),
        "S24" => run::<Sha256_192>(op, &a),
        "S16" => run::<Sha256_128>(op, &a),
        "K32" => run::<Shake256_256>(op, &a),
        "K24" => run::<Shake256_192>(op, &a),
        "K16" => run::<Shake256_128>(op, &a),
        _ => None,
    }));
    match r {
        Ok(Some(s)) => s,
        Ok(None) => "badreq".to_string(),
        Err(_) => format!("panic@{}", LAST_PANIC.with(|p| p.borrow().clone())),
    }
}

fn main() {
    std::panic::set_hook(Box::new(|info| {
        let loc = info
            .location()
            .map(|l| format!("{}:{}", l.file(), l.line()))
            .unwrap_or_else(|| "?".to_string());
        LAST_PANIC.with(|p| *p.borrow_mut() = loc);
    }));
    let threads: usize = std::env::var("HARNESS_THREADS")
        .ok()
        .and_then(|s| s.parse().ok())
        .unwrap_or(16);
    let stdin = std::io::stdin();
    let stdout = std::io::stdout();
    let mut batch: Vec<String> = vec![];
    let mut flush = |batch: &mut Vec<String>| {
        let items = Arc::new(std::mem::take(batch));
        let results: Arc<Mutex<Vec<String>>> =
            Arc::new(Mutex::new(vec![String::new(); items.len()]));
        let next = Arc::new(AtomicUsize::new(0));
        let mut hs = vec![];
        for _ in 0..threads.min(items.len().max(1)) {
            let items = items.clone();
            let results = results.clone();
            let next = next.clone();
            hs.push(
                std::thread::Builder::new()
                    .stack_size(256 << 20)
                    .spawn(move || loop {
                        let i = next.fetch_add(1, Ordering::SeqCst);
                        if i >= items.len() {
                            break;
                        }
                        let r = dispatch(&items[i]);
                        results.lock().unwrap()[i] = r;
                    })
                    .unwrap(),
            );
        }
        for h in hs {
            h.join().unwrap();
        }
        let mut out = stdout.lock();
        for r in results.lock().unwrap().iter() {
            writeln!(out, "{}", r).unwrap();
        }
        writeln!(out, "END").unwrap();
        out.flush().unwrap();
    };
    for line in stdin.lock().lines() {
        let line = line.unwrap();
        if line.trim() == "END" {
            flush(&mut batch);
        } else if !line.trim().is_empty() {
            batch.push(line);
        }
    }
    if !batch.is_empty() {
        flush(&mut batch);
    }
}

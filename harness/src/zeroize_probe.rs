//! C16 probe: populate each secret-bearing type with the marker byte 0xA5, then
//!  * `zeroize()` it in place, or
//!  * drop it in place (inside a `MaybeUninit` slot),
//! and count marker bytes that survive in the value's memory. Also reports, per type, whether
//! `Zeroize` / `ZeroizeOnDrop` are implemented (autoref probe: a missing impl yields `false`
//! at run time instead of a compile error).

use std::marker::PhantomData;
use std::mem::{size_of, MaybeUninit};

use hbs_lms::verif_hooks as vh;
use hbs_lms::{HashChain, HssParameter, LmotsAlgorithm, LmsAlgorithm, Sha256_256};
use zeroize::{Zeroize, ZeroizeOnDrop};

const MARK: u8 = 0xA5;

struct Probe<T>(PhantomData<T>);
trait FallbackZ {
    fn has_zeroize(&self) -> bool {
        false
    }
}
impl<T> FallbackZ for &Probe<T> {}
trait YesZ {
    fn has_zeroize(&self) -> bool {
        true
    }
}
impl<T: Zeroize> YesZ for Probe<T> {}
trait FallbackD {
    fn has_zod(&self) -> bool {
        false
    }
}
impl<T> FallbackD for &Probe<T> {}
trait YesD {
    fn has_zod(&self) -> bool {
        true
    }
}
impl<T: ZeroizeOnDrop> YesD for Probe<T> {}

fn count_marks<T>(slot: &MaybeUninit<T>) -> usize {
    let p = slot.as_ptr() as *const u8;
    let mut c = 0;
    for i in 0..size_of::<T>() {
        // SAFETY: the slot was created zeroed and is `size_of::<T>()` bytes long.
        let b = unsafe { std::ptr::read_volatile(p.add(i)) };
        if b == MARK {
            c += 1;
        }
    }
    c
}

/// returns (marks before, marks after drop)
fn drop_probe<T>(v: T) -> (usize, usize) {
    let mut slot: MaybeUninit<T> = MaybeUninit::zeroed();
    unsafe { std::ptr::write(slot.as_mut_ptr(), v) };
    let before = count_marks(&slot);
    unsafe { std::ptr::drop_in_place(slot.as_mut_ptr()) };
    let after = count_marks(&slot);
    (before, after)
}

struct Holder<'a, T>(&'a mut T);
trait FallbackMZ {
    fn mz(&mut self) -> bool {
        false
    }
}
impl<'a, T> FallbackMZ for &mut Holder<'a, T> {}
trait YesMZ {
    fn mz(&mut self) -> bool;
}
impl<'a, T: Zeroize> YesMZ for Holder<'a, T> {
    fn mz(&mut self) -> bool {
        self.0.zeroize();
        true
    }
}

type H0 = Sha256_256;

fn mk_seed() -> vh::Seed<H0> {
    let mut s = vh::Seed::<H0>::default();
    for b in s.as_mut_slice() {
        *b = MARK;
    }
    s
}

fn mk_seed_id() -> vh::SeedAndLmsTreeIdentifier<H0> {
    vh::SeedAndLmsTreeIdentifier::<H0>::new(&mk_seed(), &[MARK; 16])
}

fn mk_refkey() -> vh::ReferenceImplPrivateKey<H0> {
    let mut blob = vec![MARK; 8];
    blob.extend_from_slice(&[0x54u8; 1]);
    blob.extend_from_slice(&[0xffu8; 7]);
    blob.extend_from_slice(&[MARK; 32]);
    vh::ReferenceImplPrivateKey::<H0>::from_binary_representation(&blob).unwrap()
}

fn mk_lms() -> vh::LmsPrivateKey<H0> {
    let p = HssParameter::<H0>::new(LmotsAlgorithm::LmotsW4, LmsAlgorithm::LmsH5);
    vh::LmsPrivateKey::new(
        mk_seed(),
        [MARK; 16],
        0xA5A5A5A5,
        *p.get_lmots_parameter(),
        *p.get_lms_parameter(),
    )
}

fn mk_lmots() -> vh::LmotsPrivateKey<H0> {
    let p = HssParameter::<H0>::new(LmotsAlgorithm::LmotsW4, LmsAlgorithm::LmsH5);
    let mut k = vh::lmots_generate_private_key([MARK; 16], [MARK; 4], mk_seed(), *p.get_lmots_parameter());
    for node in k.key.as_mut_slice() {
        for b in node.as_mut_slice() {
            *b = MARK;
        }
    }
    k
}

macro_rules! probe {
    ($t:ty, $mk:expr) => {{
        let has_z = (&Probe::<$t>(PhantomData)).has_zeroize();
        let has_d = (&Probe::<$t>(PhantomData)).has_zod();
        // zeroize() in place; the value is never dropped afterwards, so that a drop-time wipe
        // cannot mask a field that zeroize() misses.
        let (zb, za) = {
            let mut slot: MaybeUninit<$t> = MaybeUninit::zeroed();
            unsafe { std::ptr::write(slot.as_mut_ptr(), $mk) };
            let before = count_marks(&slot);
            let r: &mut $t = unsafe { &mut *slot.as_mut_ptr() };
            let _called = (&mut Holder(r)).mz();
            (before, count_marks(&slot))
        };
        let (db, da) = drop_probe::<$t>($mk);
        format!(
            "ok zeroize_impl={} zeroize_on_drop_impl={} size={} marks_before={} after_zeroize={} after_drop={}",
            has_z as u8,
            has_d as u8,
            size_of::<$t>(),
            zb.min(db),
            za,
            da
        )
    }};
}

pub fn run<H: HashChain>(ty: &str) -> Option<String> {
    Some(match ty {
        "Seed" => probe!(vh::Seed<H0>, mk_seed()),
        "SeedAndLmsTreeIdentifier" => probe!(vh::SeedAndLmsTreeIdentifier<H0>, mk_seed_id()),
        "ReferenceImplPrivateKey" => probe!(vh::ReferenceImplPrivateKey<H0>, mk_refkey()),
        "LmsPrivateKey" => probe!(vh::LmsPrivateKey<H0>, mk_lms()),
        "LmotsPrivateKey" => probe!(vh::LmotsPrivateKey<H0>, mk_lmots()),
        _ => return None,
    })
}

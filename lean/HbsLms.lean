-- This module serves as the root of the `HbsLms` library.
-- Import modules here that should be built as part of the library.
import HbsLms.Basic

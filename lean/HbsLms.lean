-- Root of the HbsLms library: model, specifications, lemmas and property theorems.
import HbsLms.Impl.FastVerify
import HbsLms.Props.All

/-
Counter arithmetic: the library's mask-then-shift leaf computation is the mixed-radix digit vector;
digit vectors determine the counter below the lifetime; successor and exhaustion.
-/
import HbsLms.Impl.Hss
import HbsLms.Spec.MixedRadix

namespace Lemmas

open Impl Spec

private def stepF (h : Nat) (acc : List Nat × Nat) : List Nat × Nat :=
  ((acc.2 &&& (2 ^ h - 1)) :: acc.1, acc.2 >>> h)

theorem leaves_fold_snd (hs : List Nat) (c : Nat) :
    (hs.foldr (fun h (acc : List Nat × Nat) => ((acc.2 &&& (2 ^ h - 1)) :: acc.1, acc.2 >>> h)) ([], c)).2
      = c / 2 ^ hs.sum := by
  induction hs with
  | nil => simp
  | cons h hs ih =>
    simp only [List.foldr_cons, List.sum_cons]
    rw [ih, Nat.shiftRight_eq_div_pow, Nat.div_div_eq_div_mul, ← Nat.pow_add, Nat.add_comm]

theorem leaves_fold_fst (hs : List Nat) (c : Nat) :
    (hs.foldr (fun h (acc : List Nat × Nat) => ((acc.2 &&& (2 ^ h - 1)) :: acc.1, acc.2 >>> h)) ([], c)).1
      = mixedRadix hs c := by
  induction hs with
  | nil => simp [mixedRadix]
  | cons h hs ih =>
    simp only [List.foldr_cons, mixedRadix]
    rw [leaves_fold_snd, ih, Nat.and_two_pow_sub_one_eq_mod]

/-- R-counter, leaves: for every height list (no bound on the total height) and every counter -/
theorem leavesOfCounter_eq (hs : List Nat) (c : Nat) : leavesOfCounter hs c = mixedRadix hs c := by
  unfold leavesOfCounter
  exact leaves_fold_fst hs c

theorem mixedRadix_length (hs : List Nat) (c : Nat) : (mixedRadix hs c).length = hs.length := by
  induction hs with
  | nil => simp [mixedRadix]
  | cons h hs ih => simp [mixedRadix, ih]

/-- every digit is a valid leaf index of its level -/
theorem mixedRadix_lt (hs : List Nat) (c : Nat) (i : Nat) (hi : i < hs.length) :
    (mixedRadix hs c).getD i 0 < 2 ^ hs.getD i 0 := by
  induction hs generalizing i with
  | nil => simp at hi
  | cons h hs ih =>
    cases i with
    | zero => simp [mixedRadix]; exact Nat.mod_lt _ (Nat.two_pow_pos h)
    | succ j =>
      simp [mixedRadix]
      have := ih j (by simpa using hi)
      simpa using this

/-- the digit vector determines the counter modulo the number of leaves -/
theorem radixValue_mixedRadix (hs : List Nat) (c : Nat) :
    radixValue hs (mixedRadix hs c) = c % 2 ^ hs.sum := by
  induction hs with
  | nil => simp [mixedRadix, radixValue, Nat.mod_one]
  | cons h hs ih =>
    simp only [mixedRadix, radixValue, List.sum_cons]
    rw [ih, Nat.pow_add, Nat.mul_comm (2 ^ h) (2 ^ hs.sum), Nat.mod_mul, Nat.add_comm, Nat.mul_comm]

/-- two counters below the lifetime never select the same leaf vector (no one-time key is selected twice) -/
theorem mixedRadix_injective (hs : List Nat) (c c' : Nat) (hc : c < 2 ^ hs.sum) (hc' : c' < 2 ^ hs.sum)
    (h : mixedRadix hs c = mixedRadix hs c') : c = c' := by
  have h1 := radixValue_mixedRadix hs c
  have h2 := radixValue_mixedRadix hs c'
  rw [h] at h1
  rw [h1] at h2
  rw [Nat.mod_eq_of_lt hc, Nat.mod_eq_of_lt hc'] at h2
  exact h2

theorem foldl_add_eq_sum (hs : List Nat) (a : Nat) : hs.foldl (· + ·) a = a + hs.sum := by
  induction hs generalizing a with
  | nil => simp
  | cons h hs ih => simp [List.foldl_cons, ih, Nat.add_assoc]

/-- successor for shapes whose counter space fits in 64 bits -/
theorem incrementCounter_le63 (hs : List Nat) (c : Nat) (hsum : hs.sum ≤ 63) :
    incrementCounter hs c = if c + 1 < 2 ^ hs.sum then some (c + 1) else none := by
  unfold incrementCounter
  simp only [foldl_add_eq_sum, Nat.zero_add]
  have hp : 0 < 2 ^ hs.sum := Nat.two_pow_pos _
  have h64 : ¬ hs.sum ≥ 64 := by omega
  simp only [h64, if_false]
  by_cases h : c + 1 < 2 ^ hs.sum
  · have : ¬ c ≥ 2 ^ hs.sum - 1 := by omega
    simp [this, h]
  · have : c ≥ 2 ^ hs.sum - 1 := by omega
    simp [this, h]

/-- taller shapes: never exhausted before the 64-bit counter is -/
theorem incrementCounter_ge64 (hs : List Nat) (c : Nat) (hsum : 64 ≤ hs.sum) :
    incrementCounter hs c = if c + 1 < 2 ^ 64 then some (c + 1) else none := by
  unfold incrementCounter
  simp only [foldl_add_eq_sum, Nat.zero_add]
  have h64 : hs.sum ≥ 64 := hsum
  simp only [h64, if_true]
  by_cases h : c + 1 < 2 ^ 64
  · have : ¬ c ≥ 2 ^ 64 - 1 := by omega
    simp [this, h]
  · have : c ≥ 2 ^ 64 - 1 := by omega
    simp [this, h]

end Lemmas

/-
Histories of one key: the released counters of every history are 0, 1, …, k-1, each once.
-/
import HbsLms.Lemmas.Counter
import HbsLms.Lemmas.PrivKey
import HbsLms.Spec.History

namespace Lemmas

open Impl Spec Generated

/-- an accepted signature releases the current counter and advances (or wipes after the last counter) -/
theorem step_accept (hs : List Nat) (c : Nat) (hsum : hs.sum ≤ 63) :
    step hs (.live c) .signAccept
      = (if c + 1 < 2 ^ hs.sum then .live (c + 1) else .wiped, some c) := by
  simp only [step, incrementCounter_le63 hs c hsum]
  by_cases h : c + 1 < 2 ^ hs.sum <;> simp [h]

/-- rejected callbacks, failed attempts and queries change nothing and release nothing -/
theorem step_other (hs : List Nat) (s : KeyState) (op : Op) (hop : op ≠ .signAccept) :
    step hs s op = (s, none) := by
  cases s <;> cases op <;> simp_all [step]

/-- the wiped key stays wiped and releases nothing -/
theorem step_wiped (hs : List Nat) (op : Op) : step hs .wiped op = (.wiped, none) := by
  cases op <;> rfl

theorem run_nil (hs : List Nat) (s : KeyState) : run hs s [] = (s, []) := rfl

theorem run_cons (hs : List Nat) (s : KeyState) (op : Op) (ops : List Op) :
    run hs s (op :: ops)
      = ((run hs (step hs s op).1 ops).1, (step hs s op).2.toList ++ (run hs (step hs s op).1 ops).2) := rfl

/-- histories compose -/
theorem run_append (hs : List Nat) (s : KeyState) (a b : List Op) :
    run hs s (a ++ b) = ((run hs (run hs s a).1 b).1, (run hs s a).2 ++ (run hs (run hs s a).1 b).2) := by
  induction a generalizing s with
  | nil => simp [run_nil]
  | cons op a ih => simp only [List.cons_append, run_cons, ih, List.append_assoc]

theorem run_wiped (hs : List Nat) (ops : List Op) : run hs .wiped ops = (.wiped, []) := by
  induction ops with
  | nil => rfl
  | cons op ops ih => rw [run_cons, step_wiped]; simp [ih]

theorem accepts_cons_accept (ops : List Op) : accepts (.signAccept :: ops) = accepts ops + 1 := by
  simp [accepts]

theorem accepts_cons_other (op : Op) (ops : List Op) (hop : op ≠ .signAccept) :
    accepts (op :: ops) = accepts ops := by
  cases op <;> simp_all [accepts]

/-- every history from a live counter below the number of leaves, in closed form -/
theorem run_live (hs : List Nat) (hsum : hs.sum ≤ 63) (ops : List Op) (c : Nat) (hc : c < 2 ^ hs.sum) :
    run hs (.live c) ops
      = (if c + min (accepts ops) (2 ^ hs.sum - c) < 2 ^ hs.sum
          then .live (c + min (accepts ops) (2 ^ hs.sum - c)) else .wiped,
         List.range' c (min (accepts ops) (2 ^ hs.sum - c))) := by
  generalize hN : 2 ^ hs.sum = N at hc
  induction ops generalizing c with
  | nil => simp [run_nil, accepts, hc]
  | cons op ops ih =>
    by_cases hop : op = .signAccept
    · subst hop
      rw [run_cons, step_accept hs c hsum, hN, accepts_cons_accept]
      by_cases h1 : c + 1 < N
      · simp only [h1, if_true, ih (c + 1) h1, Option.toList_some]
        have hk : min (accepts ops + 1) (N - c) = min (accepts ops) (N - (c + 1)) + 1 := by omega
        rw [hk, List.range'_succ, Nat.add_assoc c, Nat.add_comm 1]
        rfl
      · simp only [h1, if_false, run_wiped, Option.toList_some]
        have hk : min (accepts ops + 1) (N - c) = 1 := by omega
        rw [hk]
        simp [h1]
    · rw [run_cons, step_other hs _ op hop, accepts_cons_other op ops hop]
      simp [ih c hc]

/-- every history of a fresh key -/
theorem run_fresh (hs : List Nat) (hsum : hs.sum ≤ 63) (ops : List Op) :
    run hs (.live 0) ops
      = (if min (accepts ops) (2 ^ hs.sum) < 2 ^ hs.sum then .live (min (accepts ops) (2 ^ hs.sum)) else .wiped,
         List.range (min (accepts ops) (2 ^ hs.sum))) := by
  rw [run_live hs hsum ops 0 (Nat.two_pow_pos _)]
  simp [List.range_eq_range']

/-- the leaf vectors of the counters `0 … k-1` are pairwise different as long as `k` is at most the number of leaves -/
theorem leaves_nodup (hs : List Nat) (k : Nat) (hk : k ≤ 2 ^ hs.sum) :
    ((List.range k).map (leavesOfCounter hs)).Nodup := by
  unfold List.Nodup
  rw [List.pairwise_map]
  refine List.Pairwise.imp_of_mem ?_ (List.pairwise_lt_range (n := k))
  intro a b ha hb hab heq
  rw [List.mem_range] at ha hb
  rw [leavesOfCounter_eq, leavesOfCounter_eq] at heq
  have := mixedRadix_injective hs a b (by omega) (by omega) heq
  omega

/-- the key blob that represents an abstract state (parameters and seed of `k`) -/
def keyOfState (k : RefKey) (n : Nat) : KeyState → RefKey
  | .live c => { k with counter := c }
  | .wiped => RefKey.wiped n

/-- `ReferenceImplPrivateKey::increment` is the state component of an accepted abstract step -/
theorem increment_eq_step (k : RefKey) (n : Nat) (hs : List Nat) :
    k.increment n hs = keyOfState k n (step hs (.live k.counter) .signAccept).1 := by
  unfold RefKey.increment
  simp only [step]
  cases incrementCounter hs k.counter <;> rfl

theorem step_accept_released (hs : List Nat) (c : Nat) : (step hs (.live c) .signAccept).2 = some c := rfl

theorem keyOfState_live_self (k : RefKey) (n : Nat) : keyOfState k n (.live k.counter) = k := rfl

/-! ### link to the implementation model -/

/-- invariant of the level loop in `HssPrivateKey::from`: level `i` gets the height of parameter `i` and leaf `leaves[i]` -/
theorem expandPrivateKey_go_shape (H : HashFn) (cfg : Config) (leaves : List Nat) (rest : List HssParam) :
    ∀ (i : Nat) (parent : Level) (acc : Expanded) (aux : Option ExpAux) (live : Bool) (ex : Expanded) (e : Option ExpAux),
    expandPrivateKey.go H cfg leaves i rest parent acc aux live = .ok (some (ex, e)) →
    ex.levels.map (·.key.lms.h) = acc.levels.map (·.key.lms.h) ++ rest.map (·.lms.h) ∧
    ex.levels.map (·.q) = acc.levels.map (·.q) ++ (List.range rest.length).map (fun j => leaves.getD (i + j) 0) := by
  induction rest with
  | nil =>
    intro i parent acc aux live ex e h
    simp [expandPrivateKey.go, pure, Except.pure] at h
    obtain ⟨rfl, rfl⟩ := h
    simp
  | cons p rest ih =>
    intro i parent acc aux live ex e h
    unfold expandPrivateKey.go at h
    simp only [bind, Except.bind, pure, Except.pure] at h
    split at h
    · cases h
    · split at h
      · cases h
      · split at h
        · cases h
        · have := ih _ _ _ _ _ _ _ h
          obtain ⟨h1, h2⟩ := this
          constructor
          · rw [h1]; simp
          · rw [h2]
            simp only [List.map_append, List.map_cons, List.map_nil, List.append_assoc, List.length_cons]
            rw [List.range_succ_eq_map]
            simp [Nat.add_assoc, Nat.add_comm 1]

theorem list_eq_head_range (l : List Nat) (n : Nat) (hl : l.length = n + 1) :
    l = l.getD 0 0 :: (List.range n).map (fun j => l.getD (1 + j) 0) := by
  cases l with
  | nil => simp at hl
  | cons a t =>
    have ht : t.length = n := by simpa using hl
    simp only [List.getD_cons_zero, List.cons.injEq, true_and]
    apply List.ext_getElem
    · simp [ht]
    · intro i h1 h2
      simp [Nat.add_comm 1, h1]

/-- the expanded key has one level per parameter, with that parameter's height and the counter's leaf index -/
theorem expandPrivateKey_shape {H : HashFn} {cfg : Config} {k : RefKey} {aux : Option ExpAux} {ex : Expanded} {e : Option ExpAux}
    (h : expandPrivateKey H cfg k aux = .ok (some (ex, e))) :
    ∃ ps, paramsOfBytes cfg H.n k.params = some ps ∧ ps ≠ [] ∧
      ex.levels.map (·.key.lms.h) = ps.map (·.lms.h) ∧
      ex.levels.map (·.q) = leavesOfCounter (ps.map (·.lms.h)) k.counter := by
  unfold expandPrivateKey at h
  cases hps : paramsOfBytes cfg H.n k.params with
  | none => simp [hps, pure, Except.pure] at h
  | some ps =>
    simp only [hps] at h
    cases ps with
    | nil => simp [pure, Except.pure] at h
    | cons p0 ps =>
      simp only [List.head?_cons, List.tail_cons] at h
      refine ⟨p0 :: ps, rfl, by simp, ?_⟩
      obtain ⟨h1, h2⟩ := expandPrivateKey_go_shape _ _ _ _ _ _ _ _ _ _ _ h
      constructor
      · rw [h1]; simp
      · rw [h2]
        have hlen : (leavesOfCounter ((p0 :: ps).map (·.lms.h)) k.counter).length = ps.length + 1 := by
          rw [Lemmas.leavesOfCounter_eq, Lemmas.mixedRadix_length]; simp
        conv => rhs; rw [list_eq_head_range _ _ hlen]
        simp

/-- the heights used for the counter increment are the heights of the key's own parameters, and the signature was
assembled on the expanded key whose leaves are the counter's leaf vector -/
theorem signPrepare_ready_shape {H : HashFn} {cfg : Config} {msg : Bytes} {k : RefKey} {aux : Option Bytes}
    {hs : List Nat} {sig : Bytes} {a : Option Bytes} {r : Bytes}
    (h : signPrepare H cfg msg k aux = .ok (.ready hs sig a r)) :
    ∃ ps, paramsOfBytes cfg H.n k.params = some ps ∧ ps ≠ [] ∧ hs = ps.map (·.lms.h) ∧
      ∃ e0 ex e1, expandPrivateKey H cfg k e0 = .ok (some (ex, e1)) ∧
        ex.levels.map (·.q) = leavesOfCounter hs k.counter := by
  unfold signPrepare at h
  cases hps : paramsOfBytes cfg H.n k.params with
  | none => simp [hps, pure, Except.pure] at h
  | some ps =>
    simp only [hps] at h
    cases ps with
    | nil => simp [pure, Except.pure] at h
    | cons p0 ps =>
      refine ⟨p0 :: ps, rfl, by simp, ?_⟩
      simp only [List.head?_cons, bind, Except.bind, pure, Except.pure] at h
      cases hex : expandPrivateKey H cfg k (getExpandedAuxData H cfg aux k.seed p0.lms.h).fst with
      | error err => simp [hex] at h
      | ok v =>
        simp only [hex] at h
        cases v with
        | none => simp at h
        | some pr =>
          obtain ⟨ex, e1⟩ := pr
          obtain ⟨ps', hps', _, hh, hq⟩ := expandPrivateKey_shape hex
          rw [hps] at hps'
          cases hps'
          simp only at h
          have hhs : hs = List.map (fun x => x.key.lms.h) ex.levels := by
            split at h
            · split at h
              · cases h
              · split at h
                · split at h
                  · cases h
                  · split at h
                    · cases h
                    · split at h
                      · cases h
                      · simp only [Except.ok.injEq, Prepared.ready.injEq] at h
                        exact h.1.symm
                · cases h
            · cases h
          rw [hhs, hh]
          exact ⟨rfl, _, ex, e1, hex, hq⟩

/-- `SigningKey::get_lifetime` evaluates `lifetimeOf` on the key's heights and its counter's leaf vector -/
theorem getLifetime_value {H : HashFn} {cfg : Config} {sk : Bytes} {L : Nat}
    (h : getLifetime H cfg sk = .ok (some L)) :
    ∃ k ps, RefKey.parse H.n sk = some k ∧ paramsOfBytes cfg H.n k.params = some ps ∧ ps ≠ [] ∧
      L = lifetimeOf (ps.map (·.lms.h)) (leavesOfCounter (ps.map (·.lms.h)) k.counter) := by
  unfold getLifetime at h
  by_cases hl : sk.length > Config.maxPrivKeyLen
  · simp [hl, pure, Except.pure] at h
  · simp only [hl, if_false, bind, Except.bind, pure, Except.pure] at h
    cases hk : RefKey.parse H.n sk with
    | none => simp [hk] at h
    | some k =>
      simp only [hk] at h
      cases hex : expandPrivateKey H cfg k none with
      | error err => simp [hex] at h
      | ok v =>
        simp only [hex] at h
        cases v with
        | none => simp at h
        | some pr =>
          obtain ⟨ex, e1⟩ := pr
          obtain ⟨ps, hps, hne, hh, hq⟩ := expandPrivateKey_shape hex
          simp only [Except.ok.injEq, Option.some.injEq] at h
          exact ⟨k, ps, rfl, hps, hne, by rw [← h, hh, hq]⟩

/-! ### key blob round trip -/

theorem foldl_be (k v a : Nat) :
    (Bytes.be k v).foldl (fun a x => a * 256 + x.toNat) a = a * 256 ^ k + v % 256 ^ k := by
  induction k generalizing a with
  | zero => simp [Bytes.be, Nat.mod_one]
  | succ k ih =>
    have hb : (UInt8.ofNat (v / 256 ^ k % 256)).toNat = v / 256 ^ k % 256 := by
      rw [UInt8.toNat_ofNat']; omega
    simp only [Bytes.be, List.foldl_cons, ih, hb]
    rw [Nat.pow_succ, Nat.mod_mul (a := 256 ^ k), Nat.add_mul, Nat.mul_assoc, Nat.mul_comm 256,
      Nat.mul_comm (v / 256 ^ k % 256)]
    omega

theorem toNat_u64be (c : Nat) (hc : c < 2 ^ 64) : Bytes.toNat (Bytes.u64be c) = c := by
  unfold Bytes.toNat Bytes.u64be
  rw [foldl_be]
  simp
  omega

theorem parse_bytes (n : Nat) (k : RefKey) (hp : k.params.length = 8) (hs : k.seed.length = n)
    (hc : k.counter < 2 ^ 64) : RefKey.parse n k.bytes = some k := by
  rw [parse_eq]
  have hl : (Bytes.u64be k.counter).length = 8 := be_length 8 _
  have hlen : k.bytes.length = 16 + n := by rw [bytes_length, hp, hs]
  simp only [hlen, if_true]
  have h1 : k.bytes.take 8 = Bytes.u64be k.counter := by
    simp [RefKey.bytes, hl]
  have h2 : (k.bytes.drop 8).take 8 = k.params := by
    simp [RefKey.bytes, hl, hp]
  have h3 : (k.bytes.drop 16).take n = k.seed := by
    have hd : List.drop 16 (Bytes.u64be k.counter) = [] := List.drop_of_length_le (by omega)
    simp [RefKey.bytes, List.drop_append, hl, hp, hd]
    exact List.take_of_length_le (by omega)
  rw [h1, h2, h3, toNat_u64be _ hc]

theorem wiped_params_unusable (cfg : Config) (n : Nat) : paramsOfBytes cfg n (RefKey.wiped n).params = none := by
  simp [RefKey.wiped, paramsOfBytes, REF_IMPL_MAX_ALLOWED_HSS_LEVELS, PARAM_SET_END, List.replicate, paramsOfBytes.go]

/-! ### sessions of signing calls simulate the abstract machine -/

/-- the states a key of shape `hs` can be in: a counter below the number of leaves, or wiped -/
def validState (hs : List Nat) : KeyState → Prop
  | .live c => c < 2 ^ hs.sum
  | .wiped => True

theorem keyOfState_counter (k : RefKey) (n c : Nat) (s : KeyState) :
    keyOfState { k with counter := c } n s = keyOfState k n s := by
  cases s <;> rfl

theorem validState_step (hs : List Nat) (hsum : hs.sum ≤ 63) (s : KeyState) (op : Op) (hv : validState hs s) :
    validState hs (step hs s op).1 := by
  by_cases hop : op = .signAccept
  · subst hop
    cases s with
    | wiped => exact trivial
    | live c =>
      rw [step_accept hs c hsum]
      by_cases h : c + 1 < 2 ^ hs.sum
      · simp only [h, if_true]; exact h
      · simp only [h, if_false]; exact trivial
  · rw [step_other hs s op hop]; exact hv

theorem parse_keyOfState (n : Nat) (k0 : RefKey) (hs : List Nat) (hp8 : k0.params.length = 8)
    (hseed : k0.seed.length = n) (hsum : hs.sum ≤ 63) (s : KeyState) (hv : validState hs s) :
    RefKey.parse n (keyOfState k0 n s).bytes = some (keyOfState k0 n s) := by
  cases s with
  | wiped =>
    apply parse_bytes <;> simp [keyOfState, RefKey.wiped, REF_IMPL_MAX_ALLOWED_HSS_LEVELS, Bytes.zeros]
  | live c =>
    have h63 : 2 ^ hs.sum ≤ 2 ^ 63 := Nat.pow_le_pow_right (by omega) hsum
    have hc : c < 2 ^ hs.sum := hv
    apply parse_bytes
    · exact hp8
    · exact hseed
    · show c < 2 ^ 64
      omega

theorem hssSign_parsed {H : HashFn} {cfg : Config} {msg sk : Bytes} {cb : Bytes → Bool} {aux : Option Bytes}
    {o : SignOutcome} {k : RefKey} (hk : RefKey.parse H.n sk = some k) (h : hssSign H cfg msg sk cb aux = .ok o) :
    ∃ p, signPrepare H cfg msg k aux = .ok p ∧ o = signCommit H.n cfg cb k p := by
  unfold hssSign at h
  simp only [hk] at h
  cases hp : signPrepare H cfg msg k aux with
  | error e => simp [hp, bind, Except.bind] at h
  | ok p =>
    simp [hp, bind, Except.bind, pure, Except.pure] at h
    exact ⟨p, rfl, h.symm⟩

theorem signCommit_ready_trace (n : Nat) (cfg : Config) (cb : Bytes → Bool) (k : RefKey) (hs : List Nat)
    (sig : Bytes) (a : Option Bytes) (r : Bytes) :
    (signCommit n cfg cb k (.ready hs sig a r)).trace = [(k.increment n hs).bytes] := by
  simp only [signCommit]
  split
  · rfl
  · split <;> rfl

/-- one call of a session is one step of the abstract machine on the encoded state; a released signature means the
abstract step released the counter of the key the call was made with -/
theorem callOnce_sim {H : HashFn} {cfg : Config} {k0 : RefKey} {ps : List HssParam}
    (hp8 : k0.params.length = 8) (hseed : k0.seed.length = H.n)
    (hps : paramsOfBytes cfg H.n k0.params = some ps) (hsum : (ps.map (·.lms.h)).sum ≤ 63)
    (s : KeyState) (hv : validState (ps.map (·.lms.h)) s) (c : Call) (sk' : Bytes) (r : Option Bytes)
    (h : callOnce H cfg (keyOfState k0 H.n s).bytes c = .ok (sk', r)) :
    ∃ op, sk' = (keyOfState k0 H.n (step (ps.map (·.lms.h)) s op).1).bytes ∧
      ∀ sig, r = some sig → ∃ cnt, s = .live cnt ∧ (step (ps.map (·.lms.h)) s op).2 = some cnt := by
  have hparse := parse_keyOfState H.n k0 _ hp8 hseed hsum s hv
  unfold callOnce at h
  cases ho : hssSign H cfg c.msg (keyOfState k0 H.n s).bytes c.cb c.aux with
  | error e => simp [ho, bind, Except.bind] at h
  | ok o =>
    simp only [ho, bind, Except.bind, pure, Except.pure, Except.ok.injEq, Prod.mk.injEq] at h
    obtain ⟨hsk, hr⟩ := h
    obtain ⟨p, hp, ho'⟩ := hssSign_parsed hparse ho
    cases p with
    | failed a rr =>
      refine ⟨.signFail, ?_, ?_⟩
      · rw [step_other _ _ _ (by decide), ← hsk, ho']; rfl
      · intro sig hsig; rw [← hr, ho'] at hsig; cases hsig
    | ready hs' sig a rr =>
      cases s with
      | wiped =>
        exfalso
        obtain ⟨ps', hps', _⟩ := signPrepare_ready_shape hp
        have : paramsOfBytes cfg H.n (RefKey.wiped H.n).params = some ps' := hps'
        rw [wiped_params_unusable] at this
        cases this
      | live cnt =>
        obtain ⟨ps', hps', _, hhs', _⟩ := signPrepare_ready_shape hp
        have : paramsOfBytes cfg H.n k0.params = some ps' := hps'
        rw [hps] at this
        cases this
        subst hhs'
        have hinc : (keyOfState k0 H.n (.live cnt)).increment H.n (ps.map (·.lms.h))
            = keyOfState k0 H.n (step (ps.map (·.lms.h)) (.live cnt) .signAccept).1 := by
          rw [increment_eq_step]; exact keyOfState_counter k0 H.n cnt _
        by_cases hcb : c.cb ((keyOfState k0 H.n (.live cnt)).increment H.n (ps.map (·.lms.h))).bytes = true
        · refine ⟨.signAccept, ?_, ?_⟩
          · rw [← hsk, ho', ← hinc]
            simp only [signCommit_ready_trace, hcb, if_true]
          · intro sg _
            exact ⟨cnt, rfl, rfl⟩
        · have hf : c.cb ((keyOfState k0 H.n (.live cnt)).increment H.n (ps.map (·.lms.h))).bytes = false := by
            simpa using hcb
          refine ⟨.signReject, ?_, ?_⟩
          · rw [step_other _ _ _ (by decide), ← hsk, ho']
            simp only [signCommit_ready_trace, hf, Bool.false_eq_true, if_false]
          · intro sg hsg
            rw [← hr, ho'] at hsg
            simp [signCommit, hf] at hsg

/-- every session is a history of the abstract machine: same final state, and the keys the released signatures
were produced from are (a sublist of) the abstract released counters -/
theorem session_sim {H : HashFn} {cfg : Config} {k0 : RefKey} {ps : List HssParam}
    (hp8 : k0.params.length = 8) (hseed : k0.seed.length = H.n)
    (hps : paramsOfBytes cfg H.n k0.params = some ps) (hsum : (ps.map (·.lms.h)).sum ≤ 63)
    (calls : List Call) :
    ∀ (s : KeyState), validState (ps.map (·.lms.h)) s → ∀ (skN : Bytes) (log : List (Bytes × Bytes)),
      session H cfg (keyOfState k0 H.n s).bytes calls = .ok (skN, log) →
      ∃ (ops : List Op) (cs : List Nat), ops.length = calls.length ∧
        skN = (keyOfState k0 H.n (run (ps.map (·.lms.h)) s ops).1).bytes ∧
        cs.Sublist (run (ps.map (·.lms.h)) s ops).2 ∧
        log.map (·.1) = cs.map (fun c => (keyOfState k0 H.n (.live c)).bytes) := by
  induction calls with
  | nil =>
    intro s _ skN log h
    simp only [session, pure, Except.pure, Except.ok.injEq, Prod.mk.injEq] at h
    obtain ⟨rfl, rfl⟩ := h
    exact ⟨[], [], rfl, rfl, List.Sublist.refl _, rfl⟩
  | cons c calls ih =>
    intro s hv skN log h
    simp only [session, bind, Except.bind, pure, Except.pure] at h
    cases h1 : callOnce H cfg (keyOfState k0 H.n s).bytes c with
    | error e => simp [h1] at h
    | ok r1 =>
      obtain ⟨sk1, r⟩ := r1
      simp only [h1] at h
      obtain ⟨op, hsk1, hrel⟩ := callOnce_sim hp8 hseed hps hsum s hv c sk1 r h1
      subst hsk1
      cases h2 : session H cfg (keyOfState k0 H.n (step (ps.map (·.lms.h)) s op).1).bytes calls with
      | error e => simp [h2] at h
      | ok r2 =>
        obtain ⟨sk2, log2⟩ := r2
        simp only [h2, Except.ok.injEq, Prod.mk.injEq] at h
        obtain ⟨rfl, hlog⟩ := h
        obtain ⟨ops, cs, hlen, hsk, hsub, hmap⟩ :=
          ih _ (validState_step _ hsum s op hv) sk2 log2 h2
        cases r with
        | none =>
          refine ⟨op :: ops, cs, by simp [hlen], ?_, ?_, ?_⟩
          · rw [run_cons]; exact hsk
          · rw [run_cons]
            exact List.Sublist.trans hsub (List.sublist_append_right _ _)
          · rw [← hlog]; simpa using hmap
        | some sig =>
          obtain ⟨cnt, rfl, hst⟩ := hrel sig rfl
          refine ⟨op :: ops, cnt :: cs, by simp [hlen], ?_, ?_, ?_⟩
          · rw [run_cons]; exact hsk
          · rw [run_cons, hst]
            exact List.Sublist.cons_cons _ hsub
          · rw [← hlog]; simpa using hmap

end Lemmas

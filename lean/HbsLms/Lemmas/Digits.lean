/-
Helper lemmas for property C12: `Impl.coef`/`Impl.digits` against the RFC 8554 specification
`Spec.AppendixB`, base-`2^w` digit arithmetic. Core Lean only.
-/
import HbsLms.Impl.Lmots
import HbsLms.Spec.AppendixB

namespace Lemmas.Digits

open Spec.AppendixB

/-! ### `Impl.coef` is the RFC `coef` -/

theorem coefMask_eq (w : Nat) : Impl.coefMask w = 2 ^ w - 1 := by
  simp [Impl.coefMask, Nat.shiftLeft_eq]

/-- the key arithmetic fact behind `!i & (8/w - 1)` on `u16` -/
theorem coefShift_eq {w i : Nat} (hw : w ∈ [1, 2, 4, 8]) (hi : i < 65536) :
    Impl.coefShift i w = 8 - (w * (i % (8 / w)) + w) := by
  simp only [List.mem_cons, List.mem_nil_iff, or_false] at hw
  unfold Impl.coefShift
  rcases hw with rfl | rfl | rfl | rfl
  · have h : (65535 - i) &&& (8 / 1 - 1) = (65535 - i) % 8 := Nat.and_two_pow_sub_one_eq_mod _ 3
    rw [h]; omega
  · have h : (65535 - i) &&& (8 / 2 - 1) = (65535 - i) % 4 := Nat.and_two_pow_sub_one_eq_mod _ 2
    rw [h]; omega
  · have h : (65535 - i) &&& (8 / 4 - 1) = (65535 - i) % 2 := Nat.and_two_pow_sub_one_eq_mod _ 1
    rw [h]; omega
  · have h : (65535 - i) &&& (8 / 8 - 1) = (65535 - i) % 1 := Nat.and_two_pow_sub_one_eq_mod _ 0
    rw [h]; omega

/-- digit extraction: the model's `coef` never faults for an index inside the byte string and returns the RFC digit -/
theorem coef_eq_rfcCoef {bs : Bytes} {i w : Nat} (hw : w ∈ [1, 2, 4, 8]) (hi : i < 65536)
    (hidx : i * w / 8 < bs.length) : Impl.coef bs i w = .ok (rfcCoef bs i w) := by
  unfold Impl.coef P.idx Impl.coefIndex rfcCoef
  rw [List.getElem?_eq_getElem hidx]
  simp only [bind, Except.bind, pure, Except.pure]
  rw [coefShift_eq hw hi, coefMask_eq, Nat.and_comm]
  simp [List.getD_eq_getElem?_getD, hidx]

/-- outside the byte string the model's `coef` faults (the Rust index panic) -/
theorem coef_fault {bs : Bytes} {i w : Nat} (hidx : bs.length ≤ i * w / 8) :
    Impl.coef bs i w = .error (.panic "util/coef.rs:coef byte_string[index]") := by
  unfold Impl.coef P.idx Impl.coefIndex
  rw [List.getElem?_eq_none hidx]
  rfl

theorem rfcCoef_le (bs : Bytes) (i w : Nat) : rfcCoef bs i w ≤ 2 ^ w - 1 := Nat.and_le_left

theorem rfcCoef_append_left {Q ck : Bytes} {i w : Nat} (h : i * w / 8 < Q.length) :
    rfcCoef (Q ++ ck) i w = rfcCoef Q i w := by
  unfold rfcCoef
  simp [List.getD_eq_getElem?_getD, List.getElem?_append_left h]

/-! ### sums over `List.range` -/

theorem sum_map_le_length_mul (l : List Nat) (f : Nat → Nat) (M : Nat) (h : ∀ i ∈ l, f i ≤ M) :
    (l.map f).sum ≤ l.length * M := by
  induction l with
  | nil => simp
  | cons a t ih =>
    have h1 := h a (by simp)
    have h2 := ih (fun i hi => h i (by simp [hi]))
    simp only [List.map_cons, List.sum_cons, List.length_cons, Nat.succ_mul]
    omega

theorem cksmSum_le (n w : Nat) (Q : Bytes) : cksmSum n w Q ≤ u n w * (2 ^ w - 1) := by
  unfold cksmSum
  have := sum_map_le_length_mul (List.range (u n w)) (fun i => 2 ^ w - 1 - rfcCoef Q i w) (2 ^ w - 1)
    (fun i _ => Nat.sub_le _ _)
  simpa using this

/-! ### the checksum loop -/

theorem checksum_foldlM (bs : Bytes) (w M : Nat) (f : Nat → Nat) (l : List Nat) (acc : Nat)
    (hf : ∀ i ∈ l, Impl.coef bs i w = .ok (f i))
    (hb : acc + (l.map fun i => M - f i).sum < 65536) :
    l.foldlM (fun sum i => do
      let c ← Impl.coef bs i w
      let s := sum + (M - c)
      if s ≥ 65536 then P.panic "lm_ots/parameters.rs:checksum u16 overflow" else pure s) acc
      = (.ok (acc + (l.map fun i => M - f i).sum) : P Nat) := by
  induction l generalizing acc with
  | nil => simp [pure, Except.pure]
  | cons a t ih =>
    simp only [List.map_cons, List.sum_cons] at hb ⊢
    rw [List.foldlM_cons, hf a (by simp)]
    simp only [bind, Except.bind]
    have hlt : ¬ (acc + (M - f a) ≥ 65536) := by omega
    rw [if_neg hlt]
    simp only [pure, Except.pure]
    refine Eq.trans (ih (acc + (M - f a)) (fun i hi => hf i (by simp [hi])) (by omega)) ?_
    congr 1; omega

theorem mapM_ok {α β : Type} (f : α → P β) (g : α → β) (l : List α) (h : ∀ a ∈ l, f a = .ok (g a)) :
    l.mapM f = .ok (l.map g) := by
  induction l with
  | nil => simp [pure, Except.pure]
  | cons a t ih =>
    rw [List.mapM_cons, h a (by simp), ih (fun b hb => h b (by simp [hb]))]
    rfl

/-! ### `Impl.digits` is the RFC digit vector -/

theorem u_mul_le (n w : Nat) {i : Nat} (hw : 0 < w) (hi : i < u n w) : i * w + w ≤ 8 * n := by
  unfold u at hi
  have h : (i + 1) * w ≤ 8 * n := (Nat.le_div_iff_mul_le hw).mp hi
  rw [Nat.succ_mul] at h
  exact h

theorem checksumSum_eq {n w : Nat} (prm : LmotsParam) (Q : Bytes) (hpw : prm.w = w) (hw : w ∈ [1, 2, 4, 8])
    (hQ : Q.length = n) (hu : u n w ≤ 65536) (hsum : u n w * (2 ^ w - 1) < 65536) :
    Impl.checksumSum n prm Q = .ok (cksmSum n w Q) := by
  subst hpw
  have hw0 : 0 < prm.w := by
    simp only [List.mem_cons, List.mem_nil_iff, or_false] at hw; omega
  unfold Impl.checksumSum
  have hmax : n * 8 / prm.w = u n prm.w := by unfold u; rw [Nat.mul_comm]
  simp only [hmax, coefMask_eq]
  have := checksum_foldlM Q prm.w (2 ^ prm.w - 1) (fun i => rfcCoef Q i prm.w) (List.range (u n prm.w)) 0
    (fun i hi => by
      have hi := List.mem_range.mp hi
      have := u_mul_le n prm.w hw0 hi
      exact coef_eq_rfcCoef hw (by omega) (by omega))
    (by have := cksmSum_le n prm.w Q; unfold cksmSum at this; omega)
  rw [this]; simp [cksmSum]

theorem extendCap_ok (site : String) (cap : Nat) (l x : Bytes) (h : l.length + x.length ≤ cap) :
    P.extendCap site cap l x = .ok (l ++ x) := by
  unfold P.extendCap; rw [if_pos h]

theorem digits_eq_spec_of {n : Nat} (prm : LmotsParam) (Q : Bytes) (hw : prm.w ∈ [1, 2, 4, 8])
    (hQ : Q.length = n) (hn : n ≤ 32) (hp : prm.p = pRfc n prm.w)
    (hpw : pRfc n prm.w * prm.w ≤ 8 * n + 16) (hp16 : pRfc n prm.w ≤ 65536)
    (hsum : u n prm.w * (2 ^ prm.w - 1) < 65536) :
    Impl.digits n prm Q = .ok (digitsSpec n prm.w prm.ls Q) := by
  have hw0 : 0 < prm.w := by
    simp only [List.mem_cons, List.mem_nil_iff, or_false] at hw; omega
  have hu : u n prm.w ≤ 65536 := by unfold pRfc at hp16; omega
  unfold Impl.digits Impl.append_checksum_to Impl.checksum
  rw [checksumSum_eq prm Q rfl hw hQ hu hsum]
  have hcap : Generated.MAX_HASH_SIZE + 2 = 34 := rfl
  have hlen : (Bytes.u16be (cksmSum n prm.w Q <<< prm.ls % 65536)).length = 2 := rfl
  simp only [bind, Except.bind, pure, Except.pure]
  rw [extendCap_ok _ _ [] Q (by rw [hcap]; simp; omega)]
  simp only [List.nil_append]
  rw [extendCap_ok _ _ Q _ (by rw [hcap, hlen]; omega)]
  simp only []
  rw [hp]
  unfold digitsSpec
  apply mapM_ok
  intro i hi
  have hi := List.mem_range.mp hi
  apply coef_eq_rfcCoef hw (by omega)
  rw [List.length_append, hlen, hQ]
  have : i * prm.w + prm.w ≤ pRfc n prm.w * prm.w := by
    have : (i + 1) * prm.w ≤ pRfc n prm.w * prm.w := Nat.mul_le_mul_right _ hi
    rw [Nat.succ_mul] at this; exact this
  omega

/-! ### the message digits determine the digest -/

/-- a byte rebuilt from its `8/w` digits -/
def recon (w : Nat) (g : Nat → Nat) : Nat :=
  ((List.range (8 / w)).map fun k => g k <<< (8 - (w * k + w))).sum

theorem recon_digits : ∀ w ∈ [1, 2, 4, 8], ∀ x, x < 256 →
    recon w (fun k => (2 ^ w - 1) &&& (x >>> (8 - (w * k + w)))) = x := by decide +kernel

theorem byte_eq_of_digits {w : Nat} (hw : w ∈ [1, 2, 4, 8]) {x y : Nat} (hx : x < 256) (hy : y < 256)
    (h : ∀ k, k < 8 / w → (2 ^ w - 1) &&& (x >>> (8 - (w * k + w))) = (2 ^ w - 1) &&& (y >>> (8 - (w * k + w)))) :
    x = y := by
  rw [← recon_digits w hw x hx, ← recon_digits w hw y hy]
  unfold recon
  congr 1
  apply List.map_congr_left
  intro k hk
  simp only [h k (List.mem_range.mp hk)]

theorem u_eq {n w : Nat} (hw : w ∈ [1, 2, 4, 8]) : u n w = n * (8 / w) := by
  simp only [List.mem_cons, List.mem_nil_iff, or_false] at hw
  unfold u
  rcases hw with rfl | rfl | rfl | rfl <;> omega

/-- digit `j*(8/w) + k` of `Q` is digit `k` of byte `j` -/
theorem rfcCoef_byte {w : Nat} (hw : w ∈ [1, 2, 4, 8]) (Q : Bytes) {j k : Nat} (hk : k < 8 / w) :
    rfcCoef Q (j * (8 / w) + k) w = (2 ^ w - 1) &&& ((Q.getD j 0).toNat >>> (8 - (w * k + w))) := by
  simp only [List.mem_cons, List.mem_nil_iff, or_false] at hw
  unfold rfcCoef
  have h1 : (j * (8 / w) + k) * w / 8 = j := by
    rcases hw with rfl | rfl | rfl | rfl <;> omega
  have h2 : (j * (8 / w) + k) % (8 / w) = k := by
    rcases hw with rfl | rfl | rfl | rfl <;> omega
  rw [h1, h2]

/-- the message digits determine the digest -/
theorem eq_of_msgDigits_eq {w : Nat} (hw : w ∈ [1, 2, 4, 8]) {Q Q' : Bytes} (hlen : Q.length = Q'.length)
    (h : ∀ i, i < Q.length * (8 / w) → rfcCoef Q i w = rfcCoef Q' i w) : Q = Q' := by
  apply List.ext_getElem hlen
  intro j hj hj'
  apply UInt8.toNat_inj.mp
  apply byte_eq_of_digits hw (UInt8.toNat_lt _) (UInt8.toNat_lt _)
  intro k hk
  have hi : j * (8 / w) + k < Q.length * (8 / w) := by
    have : (j + 1) * (8 / w) ≤ Q.length * (8 / w) := Nat.mul_le_mul_right _ hj
    rw [Nat.succ_mul] at this; omega
  have := h _ hi
  rw [rfcCoef_byte hw Q hk, rfcCoef_byte hw Q' hk] at this
  simpa [List.getD_eq_getElem?_getD, hj, hj'] using this

/-! ### positions of `digitsSpec` -/

theorem digitsSpec_length (n w ls : Nat) (Q : Bytes) : (digitsSpec n w ls Q).length = pRfc n w := by
  simp [digitsSpec]

theorem digitsSpec_getD (n w ls : Nat) (Q : Bytes) {i : Nat} (hi : i < pRfc n w) :
    (digitsSpec n w ls Q).getD i 0 = rfcCoef (Q ++ Bytes.u16be (cksm n w ls Q)) i w := by
  simp [digitsSpec, List.getD_eq_getElem?_getD, hi]

/-- message part: for `i < u` the digit is the RFC digit of `Q` itself -/
theorem digitsSpec_getD_msg {n w : Nat} (hw : w ∈ [1, 2, 4, 8]) (ls : Nat) {Q : Bytes} (hQ : Q.length = n)
    {i : Nat} (hi : i < u n w) : (digitsSpec n w ls Q).getD i 0 = rfcCoef Q i w := by
  have hw0 : 0 < w := by
    simp only [List.mem_cons, List.mem_nil_iff, or_false] at hw; omega
  rw [digitsSpec_getD n w ls Q (by unfold pRfc; omega)]
  apply rfcCoef_append_left
  have := u_mul_le n w hw0 hi
  omega

theorem digitsSpec_injective' {n w ls ls' : Nat} (hw : w ∈ [1, 2, 4, 8]) {Q Q' : Bytes} (hQ : Q.length = n) (hQ' : Q'.length = n)
    (h : ∀ i, i < u n w → (digitsSpec n w ls Q).getD i 0 = (digitsSpec n w ls' Q').getD i 0) : Q = Q' := by
  apply eq_of_msgDigits_eq hw (hQ.trans hQ'.symm)
  intro i hi
  rw [hQ, ← u_eq hw] at hi
  have := h i hi
  rwa [digitsSpec_getD_msg hw ls hQ hi, digitsSpec_getD_msg hw ls' hQ' hi] at this


/-! ### sums -/

theorem sum_range_mono (f g : Nat → Nat) (m : Nat) (h : ∀ i, i < m → f i ≤ g i) :
    ((List.range m).map f).sum ≤ ((List.range m).map g).sum := by
  induction m with
  | zero => simp
  | succ m ih =>
    have := ih (fun i hi => h i (by omega))
    have := h m (by omega)
    simp only [List.range_succ, List.map_append, List.sum_append, List.map_cons, List.map_nil, List.sum_cons, List.sum_nil]
    omega

theorem sum_range_strict (f g : Nat → Nat) (m : Nat) (h : ∀ i, i < m → f i ≤ g i) (hs : ∃ j, j < m ∧ f j < g j) :
    ((List.range m).map f).sum < ((List.range m).map g).sum := by
  induction m with
  | zero => obtain ⟨j, hj, _⟩ := hs; omega
  | succ m ih =>
    simp only [List.range_succ, List.map_append, List.sum_append, List.map_cons, List.map_nil, List.sum_cons, List.sum_nil]
    obtain ⟨j, hj, hlt⟩ := hs
    have hm := h m (by omega)
    have hmono := sum_range_mono f g m (fun i hi => h i (by omega))
    by_cases hjm : j = m
    · subst hjm; omega
    · have := ih (fun i hi => h i (by omega)) ⟨j, by omega, hlt⟩
      omega

/-! ### base-`2^w` numbers, most significant digit first -/

/-- value of the digits `g 0, …, g (m-1)` (most significant first) in base `2^w` -/
def msbVal (w : Nat) (g : Nat → Nat) : Nat → Nat
  | 0 => 0
  | m + 1 => msbVal w g m * 2 ^ w + g m

theorem ofDigits_range (b : Nat) (g : Nat → Nat) (w m : Nat) (hb : b = 2 ^ w) :
    ofDigits b ((List.range m).map g) = msbVal w g m := by
  subst hb
  induction m with
  | zero => rfl
  | succ m ih =>
    unfold ofDigits at ih ⊢
    rw [List.range_succ, List.map_append, List.foldl_append, ih]
    rfl

theorem msbVal_mono (w : Nat) (g g' : Nat → Nat) (m : Nat) (h : ∀ k, k < m → g k ≤ g' k) :
    msbVal w g m ≤ msbVal w g' m := by
  induction m with
  | zero => exact Nat.le_refl _
  | succ m ih =>
    have h1 := ih (fun k hk => h k (by omega))
    have h2 := h m (by omega)
    have h3 := Nat.mul_le_mul_right (2 ^ w) h1
    simp only [msbVal]
    omega

/-- the `v` digits `S / 2^(w*(v-1-k)) % 2^w`, `k < v`, read back give `S mod 2^(w*v)` -/
theorem msbVal_digits (w S v : Nat) (g : Nat → Nat) (hg : ∀ k, k < v → g k = S / 2 ^ (w * (v - 1 - k)) % 2 ^ w) :
    ∀ m, m ≤ v → msbVal w g m = S / 2 ^ (w * (v - m)) % 2 ^ (w * m) := by
  intro m
  induction m with
  | zero => intro _; simp [msbVal, Nat.mod_one]
  | succ m ih =>
    intro hm
    rw [msbVal, ih (by omega), hg m (by omega)]
    have e1 : v - 1 - m = v - (m + 1) := by omega
    have e2 : w * (v - m) = w * (v - (m + 1)) + w := by
      have : v - m = (v - (m + 1)) + 1 := by omega
      rw [this, Nat.mul_succ]
    rw [e1, e2, Nat.pow_add, ← Nat.div_div_eq_div_mul]
    generalize S / 2 ^ (w * (v - (m + 1))) = T
    rw [Nat.mul_succ, Nat.pow_add, Nat.mul_comm (2 ^ (w * m)) (2 ^ w), Nat.mod_mul]
    rw [Nat.mul_comm (2 ^ w)]; omega

/-! ### the checksum bytes -/

theorem mod_div_mod (x a s w : Nat) (h : s + w ≤ a) : (x % 2 ^ a) / 2 ^ s % 2 ^ w = x / 2 ^ s % 2 ^ w := by
  have e : a = s + (a - s) := by omega
  rw [e, Nat.pow_add, Nat.mod_mul_right_div_self]
  exact Nat.mod_mod_of_dvd _ (Nat.pow_dvd_pow 2 (by omega))

/-- digit `k` of the two checksum bytes is the `k`-th `w`-bit group (from the top) of the 16-bit value -/
theorem u16_digit {w : Nat} (hw : w ∈ [1, 2, 4, 8]) {c k : Nat} (hc : c < 65536) (hk : w * k + w ≤ 16) :
    (2 ^ w - 1) &&& (((Bytes.u16be c).getD (k * w / 8) 0).toNat >>> (8 - (w * (k % (8 / w)) + w)))
      = c / 2 ^ (16 - (w * k + w)) % 2 ^ w := by
  rw [Nat.and_comm, Nat.and_two_pow_sub_one_eq_mod, Nat.shiftRight_eq_div_pow]
  have hb : Bytes.u16be c = [UInt8.ofNat (c / 256 % 256), UInt8.ofNat (c % 256)] := by
    simp [Bytes.u16be, Bytes.be]
  rw [hb]
  simp only [List.mem_cons, List.mem_nil_iff, or_false] at hw
  by_cases h0 : k * w / 8 = 0
  · have hkd : k % (8 / w) = k := by
      rcases hw with rfl | rfl | rfl | rfl <;> omega
    rw [h0, hkd]
    simp only [List.getD_cons_zero, UInt8.toNat_ofNat']
    have : c / 256 % 256 % 2 ^ 8 = c / 2 ^ 8 := by omega
    rw [this, Nat.div_div_eq_div_mul, ← Nat.pow_add]
    have : 8 + (8 - (w * k + w)) = 16 - (w * k + w) := by
      rcases hw with rfl | rfl | rfl | rfl <;> omega
    rw [this]
  · have h1 : k * w / 8 = 1 := by
      rcases hw with rfl | rfl | rfl | rfl <;> omega
    have hs : 8 - (w * (k % (8 / w)) + w) = 16 - (w * k + w) := by
      rcases hw with rfl | rfl | rfl | rfl <;> omega
    rw [h1, hs]
    simp only [List.getD_cons_succ, List.getD_cons_zero, UInt8.toNat_ofNat']
    have : c % 256 % 2 ^ 8 = c % 2 ^ 8 := by omega
    rw [this]
    apply mod_div_mod
    rcases hw with rfl | rfl | rfl | rfl <;> omega

/-- digit `u + k` of `Q ‖ u16(c)` is digit `k` of the two checksum bytes -/
theorem rfcCoef_cksm_pos {w : Nat} (hw : w ∈ [1, 2, 4, 8]) (Q : Bytes) {c k : Nat} (hc : c < 65536) (hk : w * k + w ≤ 16) :
    rfcCoef (Q ++ Bytes.u16be c) (Q.length * (8 / w) + k) w = c / 2 ^ (16 - (w * k + w)) % 2 ^ w := by
  rw [← u16_digit hw hc hk]
  unfold rfcCoef
  simp only [List.mem_cons, List.mem_nil_iff, or_false] at hw
  have h1 : (Q.length * (8 / w) + k) * w / 8 = Q.length + k * w / 8 := by
    rcases hw with rfl | rfl | rfl | rfl <;> omega
  have h2 : (Q.length * (8 / w) + k) % (8 / w) = k % (8 / w) := by
    rcases hw with rfl | rfl | rfl | rfl <;> omega
  rw [h1, h2]
  simp only [List.getD_eq_getElem?_getD]
  rw [List.getElem?_append_right (Nat.le_add_right _ _), Nat.add_sub_cancel_left]

/-! ### checksum digits encode the checksum; no domination -/

/-- the numeric Appendix B facts used below: the `v` checksum digits fit in the 16-bit field and can hold the largest checksum -/
def NumOk (n w : Nat) : Bool := v n w * w ≤ 16 && u n w * (2 ^ w - 1) < 2 ^ (v n w * w)

theorem numOk_all : ∀ n ∈ [16, 24, 32], ∀ w ∈ [1, 2, 4, 8], NumOk n w = true := by decide +kernel

theorem cksm_eq_mul {n w : Nat} (hN : NumOk n w = true) (Q : Bytes) :
    cksm n w (lsRfc n w) Q = cksmSum n w Q * 2 ^ (lsRfc n w) ∧ cksmSum n w Q < 2 ^ (v n w * w) := by
  simp only [NumOk, Bool.and_eq_true, decide_eq_true_eq] at hN
  have hS : cksmSum n w Q < 2 ^ (v n w * w) := Nat.lt_of_le_of_lt (cksmSum_le n w Q) hN.2
  refine ⟨?_, hS⟩
  show (cksmSum n w Q <<< lsRfc n w) % 65536 = _
  rw [Nat.shiftLeft_eq]
  apply Nat.mod_eq_of_lt
  have e : (65536 : Nat) = 2 ^ (v n w * w) * 2 ^ (lsRfc n w) := by
    rw [← Nat.pow_add]; unfold lsRfc
    have : v n w * w + (16 - v n w * w) = 16 := by omega
    rw [this]
  rw [e]
  exact Nat.mul_lt_mul_of_lt_of_le hS (Nat.le_refl _) (Nat.pow_pos (by omega))

/-- checksum part: digit `u + k` is the `k`-th base-`2^w` digit (from the top, of `v`) of the checksum sum -/
theorem digitsSpec_getD_cksm {n w : Nat} (hw : w ∈ [1, 2, 4, 8]) (hN : NumOk n w = true) {Q : Bytes} (hQ : Q.length = n)
    {k : Nat} (hk : k < v n w) :
    (digitsSpec n w (lsRfc n w) Q).getD (u n w + k) 0 = cksmSum n w Q / 2 ^ (w * (v n w - 1 - k)) % 2 ^ w := by
  rw [digitsSpec_getD n w _ Q (by unfold pRfc; omega)]
  obtain ⟨hc, _⟩ := cksm_eq_mul hN Q
  simp only [NumOk, Bool.and_eq_true, decide_eq_true_eq] at hN
  have hkw : w * k + w ≤ v n w * w := by
    have : (k + 1) * w ≤ v n w * w := Nat.mul_le_mul_right _ hk
    rw [Nat.succ_mul, Nat.mul_comm k w] at this; exact this
  have hu : u n w = Q.length * (8 / w) := by rw [u_eq hw, hQ]
  rw [hu, rfcCoef_cksm_pos hw Q (c := cksm n w (lsRfc n w) Q) (Nat.mod_lt _ (by omega)) (by omega), hc]
  have e : 16 - (w * k + w) = lsRfc n w + w * (v n w - 1 - k) := by
    unfold lsRfc
    have : v n w * w = w * (v n w - 1 - k) + (w * k + w) := by
      have : v n w = (v n w - 1 - k) + (k + 1) := by omega
      conv => lhs; rw [this]
      rw [Nat.mul_comm, Nat.mul_add, Nat.mul_succ]
    omega
  rw [e, Nat.pow_add, ← Nat.div_div_eq_div_mul, Nat.mul_div_cancel _ (Nat.pow_pos (by omega))]

/-- the `v` checksum digits, read as a base-`2^w` number, are the whole checksum sum -/
theorem cksm_digits_value {n w : Nat} (hw : w ∈ [1, 2, 4, 8]) (hN : NumOk n w = true) {Q : Bytes} (hQ : Q.length = n) :
    msbVal w (fun k => (digitsSpec n w (lsRfc n w) Q).getD (u n w + k) 0) (v n w) = cksmSum n w Q := by
  rw [msbVal_digits w (cksmSum n w Q) (v n w) _ (fun k hk => digitsSpec_getD_cksm hw hN hQ hk) (v n w) (Nat.le_refl _)]
  obtain ⟨_, hS⟩ := cksm_eq_mul hN Q
  rw [Nat.sub_self, Nat.mul_zero, Nat.pow_zero, Nat.div_one, Nat.mul_comm]
  exact Nat.mod_eq_of_lt hS

theorem digitsSpec_drop (n w ls : Nat) (Q : Bytes) :
    (digitsSpec n w ls Q).drop (u n w) = (List.range (v n w)).map fun k => (digitsSpec n w ls Q).getD (u n w + k) 0 := by
  apply List.ext_getElem
  · simp [digitsSpec, pRfc]
  · intro i h1 h2
    simp only [List.length_map, List.length_range] at h2
    rw [List.getElem_map, List.getElem_range, List.getElem_drop]
    simp [List.getD_eq_getElem?_getD, digitsSpec, pRfc, h2]

theorem cksmSum_eq_of_digits {n w : Nat} (hw : w ∈ [1, 2, 4, 8]) (ls : Nat) {Q : Bytes} (hQ : Q.length = n) :
    ((List.range (u n w)).map fun i => 2 ^ w - 1 - (digitsSpec n w ls Q).getD i 0).sum = cksmSum n w Q := by
  unfold cksmSum
  congr 1
  apply List.map_congr_left
  intro i hi
  rw [digitsSpec_getD_msg hw ls hQ (List.mem_range.mp hi)]

/-- no digit vector dominates that of a different digest -/
theorem not_dominated {n w : Nat} (hw : w ∈ [1, 2, 4, 8]) (hN : NumOk n w = true) {Q Q' : Bytes}
    (hQ : Q.length = n) (hQ' : Q'.length = n) (hne : Q ≠ Q') :
    ¬ DominatedBy (pRfc n w) (digitsSpec n w (lsRfc n w) Q) (digitsSpec n w (lsRfc n w) Q') := by
  intro hdom
  -- message digits
  have hmsg : ∀ i, i < u n w → rfcCoef Q i w ≤ rfcCoef Q' i w := by
    intro i hi
    have := hdom i (by unfold pRfc; omega)
    rwa [digitsSpec_getD_msg hw _ hQ hi, digitsSpec_getD_msg hw _ hQ' hi] at this
  have hex : ∃ j, j < u n w ∧ rfcCoef Q j w < rfcCoef Q' j w := by
    apply Classical.byContradiction
    intro hno
    apply hne
    apply eq_of_msgDigits_eq hw (hQ.trans hQ'.symm)
    intro i hi
    rw [hQ, ← u_eq hw] at hi
    have h1 := hmsg i hi
    have h2 : ¬ rfcCoef Q i w < rfcCoef Q' i w := fun h => hno ⟨i, hi, h⟩
    omega
  have hlt : cksmSum n w Q' < cksmSum n w Q := by
    unfold cksmSum
    apply sum_range_strict
    · intro i hi
      have := hmsg i hi
      omega
    · obtain ⟨j, hj, hjlt⟩ := hex
      have := rfcCoef_le Q' j w
      exact ⟨j, hj, by omega⟩
  -- checksum digits
  have hle : cksmSum n w Q ≤ cksmSum n w Q' := by
    rw [← cksm_digits_value hw hN hQ, ← cksm_digits_value hw hN hQ']
    apply msbVal_mono
    intro k hk
    exact hdom (u n w + k) (by unfold pRfc; omega)
  omega

/-! ### the twelve (n, w) combinations -/

/-- side conditions of `digits_eq_spec_of`: indices stay inside `Q ‖ cksm`, the `u16` loop variable and accumulator do not overflow -/
def T1Num (n w : Nat) : Bool :=
  pRfc n w * w ≤ 8 * n + 16 && pRfc n w ≤ 65536 && u n w * (2 ^ w - 1) < 65536

theorem t1Num_all : ∀ n ∈ [16, 24, 32], ∀ w ∈ [1, 2, 4, 8], T1Num n w = true := by decide +kernel

theorem mem_of_hn {n : Nat} (hn : n = 16 ∨ n = 24 ∨ n = 32) : n ∈ [16, 24, 32] := by
  rcases hn with rfl | rfl | rfl <;> simp

theorem rowShapeOk_iff {n : Nat} {prm : LmotsParam} :
    RowShapeOk n prm = true ↔ prm.w ∈ [1, 2, 4, 8] ∧ prm.p = pRfc n prm.w ∧ prm.ls ≤ 8 := by
  simp [RowShapeOk, and_assoc]

theorem rowOk_iff {n : Nat} {prm : LmotsParam} :
    RowOk n prm = true ↔ prm.w ∈ [1, 2, 4, 8] ∧ prm.p = pRfc n prm.w ∧ prm.ls = lsRfc n prm.w := by
  simp [RowOk, and_assoc]

theorem lsRfc_le_all : ∀ n ∈ [16, 24, 32], ∀ w ∈ [1, 2, 4, 8], lsRfc n w ≤ 8 := by decide +kernel

/-- an Appendix B row in particular has the Appendix B shape -/
theorem rowShapeOk_of_rowOk {n : Nat} {prm : LmotsParam} (hn : n = 16 ∨ n = 24 ∨ n = 32)
    (h : RowOk n prm = true) : RowShapeOk n prm = true := by
  obtain ⟨hw, hp, hls⟩ := rowOk_iff.mp h
  exact rowShapeOk_iff.mpr ⟨hw, hp, by rw [hls]; exact lsRfc_le_all n (mem_of_hn hn) prm.w hw⟩

end Lemmas.Digits

/-
Small general lemmas: checked reads, folds in the `P` monad, table lookups.
-/
import HbsLms.Impl.Hss

namespace Lemmas

theorem slice_length (b : Bytes) (start len : Nat) (h : start + len ≤ b.length) :
    (Bytes.slice b start len).length = len := by
  simp [Bytes.slice, List.length_take, List.length_drop]; omega

theorem readAt_some {src : Bytes} {len idx : Nat} {b : Bytes} (h : readAt src len idx = some b) :
    idx + len ≤ src.length ∧ b = Bytes.slice src idx len ∧ b.length = len := by
  unfold readAt at h
  split at h
  · rename_i hle
    simp only [Option.some.injEq] at h
    exact ⟨hle, h.symm, h ▸ slice_length _ _ _ hle⟩
  · simp at h

theorem readAt_of_le {src : Bytes} {len idx : Nat} (h : idx + len ≤ src.length) :
    readAt src len idx = some (Bytes.slice src idx len) := by
  simp [readAt, h]

theorem lookup_some_mem {α β} [BEq α] [LawfulBEq α] {l : List (α × β)} {k : α} {v : β}
    (h : l.lookup k = some v) : (k, v) ∈ l := by
  induction l with
  | nil => simp [List.lookup] at h
  | cons x xs ih =>
    obtain ⟨a, b⟩ := x
    simp only [List.lookup] at h
    split at h
    · rename_i heq
      simp only [Option.some.injEq] at h
      have : k = a := by simpa using heq
      subst this; subst h
      exact List.mem_cons_self
    · exact List.mem_cons_of_mem _ (ih h)

/-- a `foldlM` over `range k` in which step `i` appends `g i` (and cannot fail) builds `map g (range k)` -/
theorem foldlM_range_append {β : Type} (f : List β → Nat → P (List β)) (g : Nat → β) (k : Nat)
    (hf : ∀ acc i, i < k → acc.length = i → f acc i = .ok (acc ++ [g i])) :
    (List.range k).foldlM f [] = .ok ((List.range k).map g) := by
  induction k with
  | zero => simp [pure, Except.pure]
  | succ k ih =>
    rw [List.range_succ, List.foldlM_append, ih (fun acc i hi hl => hf acc i (by omega) hl)]
    simp only [bind, Except.bind, List.foldlM_cons, List.foldlM_nil]
    rw [hf _ k (by omega) (by simp)]
    simp [pure, Except.pure, List.map_append]

/-- a `foldlM` over `range k` with a numeric accumulator and an invariant -/
theorem foldlM_range_inv (f : Nat → Nat → P Nat) (g : Nat → Nat) (Inv : Nat → Nat → Prop) (k : Nat) (a0 : Nat)
    (h0 : Inv 0 a0)
    (hf : ∀ acc i, i < k → Inv i acc → f acc i = .ok (acc + g i) ∧ Inv (i + 1) (acc + g i)) :
    ∃ r, (List.range k).foldlM f a0 = .ok r ∧ Inv k r ∧ r = a0 + ((List.range k).map g).sum := by
  induction k with
  | zero => exact ⟨a0, by simp [pure, Except.pure], h0, by simp⟩
  | succ k ih =>
    obtain ⟨r, hr, hinv, hsum⟩ := ih (fun acc i hi hI => hf acc i (by omega) hI)
    obtain ⟨h1, h2⟩ := hf r k (by omega) hinv
    refine ⟨r + g k, ?_, h2, ?_⟩
    · rw [List.range_succ, List.foldlM_append, hr]
      simp [bind, Except.bind, h1, pure, Except.pure]
    · rw [List.range_succ, List.map_append, List.sum_append, hsum]
      simp [Nat.add_assoc]

end Lemmas

/-
Completeness (C01) lemmas, bottom-up: LM-OTS, Merkle tree, LMS, HSS.
-/
import HbsLms.Lemmas.CompleteOts
import HbsLms.Lemmas.CompleteTree
import HbsLms.Lemmas.CompleteLms
import HbsLms.Lemmas.CompleteHss

/-
Layout of released signatures (C07): exact lengths of the LM-OTS / LMS / HSS signatures and the closed form of the
HSS signature as a function of the key blob (seed, parameter list, counter) and the message.
Every statement is for an arbitrary `H : HashFn`, without aux data. Core Lean only.
-/
import HbsLms.Lemmas.Complete
import HbsLms.Lemmas.History
import HbsLms.Lemmas.SignTotal

namespace Lemmas.Layout

open Impl Generated Lemmas Lemmas.Complete Spec

/-! ### T1a: LM-OTS signatures have exactly `4 + n + n*p` bytes -/

theorem flatten_map_length (n : Nat) (f : Nat → Bytes) (m : Nat) (h : ∀ i, i < m → (f i).length = n) :
    ((List.range m).map f).flatten.length = n * m := by
  rw [Lemmas.Complete.flatten_length_of n]
  · simp
  · intro y hy
    obtain ⟨i, hi, rfl⟩ := List.mem_map.mp hy
    exact h i (List.mem_range.mp hi)

/-- whatever `lmotsSign` returns (any parameters, any inputs) has exactly `lmots_signature_length n p` bytes:
the type code, a randomizer of `n` bytes (enforced by the `assert_eq`), and `p` chain values of `n` bytes each -/
theorem lmotsSign_length {H : HashFn} {I qb seed : Bytes} {prm : LmotsParam} {C msg o : Bytes}
    (h : lmotsSign H I qb seed prm C msg = .ok o) :
    o.length = lmots_signature_length H.n prm.p ∧ C.length = H.n := by
  unfold lmotsSign at h
  simp only [bind, Except.bind, P.require, pure, Except.pure] at h
  split at h
  · cases h
  · rename_i ds _
    split at h
    · cases h
    · rename_i u hu
      split at hu
      · rename_i hC
        have hC' : C.length = H.n := by simpa using hC
        simp only [Except.ok.injEq] at h
        subst h
        refine ⟨?_, hC'⟩
        simp only [List.length_append, Lemmas.Complete.u32be_length, hC', lmots_signature_length]
        rw [flatten_map_length H.n _ prm.p]
        intro i hi
        exact chain_length _ _ _ _ _ _ _ (lmotsPrivateKey_getD_length H I qb seed prm hi)
      · cases hu

/-! ### T1b: LMS signatures (no cache) have exactly `lms_signature_length n p h` bytes -/

/-- whatever `lmsSign` releases without a cache has exactly `lms_signature_length n p h` bytes (any parameters):
`u32 q`, the LM-OTS signature, `u32 type`, and `h` tree nodes of `n` bytes each; the randomizer has `n` bytes and
the leaf lies inside the tree -/
theorem lmsSign_length {H : HashFn} {cfg : Config} {k : LmsKey} {q : Nat} {msg C sig : Bytes} {a : Option ExpAux}
    (h : lmsSign H cfg k q msg C none = .ok (some (sig, a))) :
    sig.length = lms_signature_length H.n k.ots.p k.lms.h ∧ C.length = H.n ∧ q < 2 ^ k.lms.h := by
  unfold lmsSign at h
  by_cases hq : q ≥ 2 ^ k.lms.h
  · simp [hq, pure, Except.pure] at h
  · have hq' : q < 2 ^ k.lms.h := by omega
    simp only [hq, if_false, P.require, bind, Except.bind] at h
    split at h
    · cases h
    · split at h
      · cases h
      · rename_i ots hots
        obtain ⟨hol, hC⟩ := lmotsSign_length hots
        rw [authPath_fold H k q hq'] at h
        simp only [] at h
        split at h
        · cases h
        · split at h
          · cases h
          · simp only [pure, Except.pure, Except.ok.injEq, Option.some.injEq, Prod.mk.injEq] at h
            refine ⟨?_, hC, hq'⟩
            rw [← h.1]
            simp only [List.length_append, Lemmas.Complete.u32be_length, hol, authPath_flatten_length,
              lms_signature_length]

/-! ### the levels of an expanded key as a function of the seed, the parameter list and the leaf vector -/

/-- the child tree below `parent`: seed and identifier are derived from the parent's seed, identifier and current
leaf; parameters `p`, current leaf `q` -/
def childLevel (H : HashFn) (parent : Level) (p : HssParam) (q : Nat) : Level :=
  ⟨⟨(childSeedAndId H parent.key.seed parent.key.I parent.q).2,
    (childSeedAndId H parent.key.seed parent.key.I parent.q).1, p.ots, p.lms⟩, q⟩

/-- the levels below `parent` for the remaining parameters `rest`; level `i + j` uses leaf `leaves[i + j]` -/
def childrenOf (H : HashFn) (leaves : List Nat) : Nat → Level → List HssParam → List Level
  | _, _, [] => []
  | i, parent, p :: rest =>
    childLevel H parent p (leaves.getD i 0) :: childrenOf H leaves (i + 1) (childLevel H parent p (leaves.getD i 0)) rest

theorem childrenOf_length (H : HashFn) (leaves : List Nat) : ∀ (rest : List HssParam) (i : Nat) (parent : Level),
    (childrenOf H leaves i parent rest).length = rest.length := by
  intro rest
  induction rest with
  | nil => intro _ _; rfl
  | cons p rest ih => intro i parent; simp [childrenOf, ih]

/-- level `j` below the parent carries parameter `rest[j]` and leaf `leaves[i + j]` -/
theorem childrenOf_getElem (H : HashFn) (leaves : List Nat) : ∀ (rest : List HssParam) (i : Nat) (parent : Level)
    (j : Nat) (hj : j < rest.length),
    ∃ c, (childrenOf H leaves i parent rest)[j]? = some c ∧ c.key.ots = rest[j].ots ∧ c.key.lms = rest[j].lms ∧
      c.q = leaves.getD (i + j) 0 := by
  intro rest
  induction rest with
  | nil => intro _ _ j hj; simp at hj
  | cons p rest ih =>
    intro i parent j hj
    cases j with
    | zero => exact ⟨childLevel H parent p (leaves.getD i 0), by simp [childrenOf], rfl, rfl, rfl⟩
    | succ j =>
      obtain ⟨c, hc, h1, h2, h3⟩ := ih (i + 1) (childLevel H parent p (leaves.getD i 0)) j (by simpa using hj)
      refine ⟨c, by simpa [childrenOf] using hc, by simpa using h1, by simpa using h2, ?_⟩
      rw [h3]; congr 1; omega

/-- the level loop of `HssPrivateKey::from` appends exactly `childrenOf` (with or without aux data) -/
theorem go_levels (H : HashFn) (cfg : Config) (leaves : List Nat) : ∀ (rest : List HssParam) (i : Nat) (parent : Level)
    (acc : Expanded) (aux : Option ExpAux) (live : Bool) (ex : Expanded) (e : Option ExpAux),
    expandPrivateKey.go H cfg leaves i rest parent acc aux live = .ok (some (ex, e)) →
    ex.levels = acc.levels ++ childrenOf H leaves i parent rest := by
  intro rest
  induction rest with
  | nil =>
    intro i parent acc aux live ex e h
    simp [expandPrivateKey.go, pure, Except.pure] at h
    obtain ⟨rfl, rfl⟩ := h
    simp [childrenOf]
  | cons p rest ih =>
    intro i parent acc aux live ex e h
    unfold expandPrivateKey.go at h
    simp only [bind, Except.bind, pure, Except.pure] at h
    split at h
    · cases h
    · split at h
      · cases h
      · split at h
        · cases h
        · have := ih _ _ _ _ _ _ _ h
          rw [this]
          simp [childrenOf, childLevel]

/-- the chain in `expandPrivateKey_spec` is `childrenOf` on the counter's leaf vector -/
theorem expandPrivateKey_levels {H : HashFn} {cfg : Config} {k : RefKey} {ex : Expanded} {e : Option ExpAux}
    (h : expandPrivateKey H cfg k none = .ok (some (ex, e))) :
    ∃ p0 rest, paramsOfBytes cfg H.n k.params = some (p0 :: rest) ∧
      ex.levels = ⟨rootKey H k.seed p0, (mixedRadix ((p0 :: rest).map (·.lms.h)) k.counter).getD 0 0⟩ ::
        childrenOf H (mixedRadix ((p0 :: rest).map (·.lms.h)) k.counter) 1
          ⟨rootKey H k.seed p0, (mixedRadix ((p0 :: rest).map (·.lms.h)) k.counter).getD 0 0⟩ rest := by
  unfold expandPrivateKey at h
  cases hps : paramsOfBytes cfg H.n k.params with
  | none => simp [hps, pure, Except.pure] at h
  | some ps =>
    cases ps with
    | nil => simp [hps, pure, Except.pure] at h
    | cons p0 rest =>
      simp only [hps, List.head?_cons, List.tail_cons] at h
      have := go_levels H cfg _ rest 1 _ _ _ _ ex e h
      refine ⟨p0, rest, rfl, ?_⟩
      rw [this, leavesOfCounter_eq]
      simp [rootKey]

/-! ### T2: the released HSS signature in closed form -/

/-- the leaf vector of counter `c` for the parameter list `ps`: the mixed-radix digits of `c`, top level first -/
def leafVector (ps : List HssParam) (c : Nat) : List Nat := mixedRadix (ps.map (·.lms.h)) c

/-- level 0: the tree derived from the blob's seed, at the counter's leaf -/
def topLevel (H : HashFn) (seed : Bytes) (p0 : HssParam) (rest : List HssParam) (c : Nat) : Level :=
  ⟨rootKey H seed p0, (leafVector (p0 :: rest) c).getD 0 0⟩

/-- levels 1 … L-1 -/
def lowerLevels (H : HashFn) (seed : Bytes) (p0 : HssParam) (rest : List HssParam) (c : Nat) : List Level :=
  childrenOf H (leafVector (p0 :: rest) c) 1 (topLevel H seed p0 rest c) rest

/-- the bottom level (the one that signs the message) -/
def bottomLevel (H : HashFn) (seed : Bytes) (p0 : HssParam) (rest : List HssParam) (c : Nat) : Level :=
  lastLevel (topLevel H seed p0 rest c) (lowerLevels H seed p0 rest c)

/-- the randomizer with which a level signs a message: `SeedDerive` of the tree's own seed at its current leaf -/
def msgC (H : HashFn) (b : Level) : Bytes := signatureRandomizer H b.key.seed b.key.I b.q

/-- the HSS signature of `msg` under the key blob `(c, ps = p0 :: rest, seed)`:
`u32 (L-1) ‖ (LMS sig by level i over pk of level i+1 ‖ pk of level i+1)* ‖ LMS sig by the bottom level over msg` -/
def hssSigBytes (H : HashFn) (seed : Bytes) (p0 : HssParam) (rest : List HssParam) (c : Nat) (msg : Bytes) : Bytes :=
  Bytes.u32be rest.length ++ spkBytes H (topLevel H seed p0 rest c) (lowerLevels H seed p0 rest c) ++
    lmsSigBytes H (bottomLevel H seed p0 rest c).key (bottomLevel H seed p0 rest c).q msg
      (msgC H (bottomLevel H seed p0 rest c))

/-- what `HssPrivateKey::from` computes for the blob `(c, p0 :: rest, seed)`: the levels, the serialised public keys of
levels 1 … L-1 and the signatures by levels 0 … L-2 over them -/
def expandedOf (H : HashFn) (seed : Bytes) (p0 : HssParam) (rest : List HssParam) (c : Nat) : Expanded :=
  ⟨topLevel H seed p0 rest c :: lowerLevels H seed p0 rest c,
   (lowerLevels H seed p0 rest c).map (fun l => pkBytes H l.key),
   sigsOf H (topLevel H seed p0 rest c) (lowerLevels H seed p0 rest c)⟩

theorem msgC_length (H : HashFn) (b : Level) : (msgC H b).length = H.n := by
  unfold msgC signatureRandomizer; exact seedDerive_length _ _ _ _ _

/-- T2. The signature assembled by `hss_sign_core` (no aux data) is `hssSigBytes` of the blob's seed, parameter list
and counter; all levels carry table parameters and 16-byte identifiers, and every level's current leaf lies inside
its tree. -/
theorem signPrepare_layout {H : HashFn} {cfg : Config} {msg : Bytes} {k : RefKey} {hs : List Nat} {sig : Bytes}
    {a : Option Bytes} {r : Bytes} (h : signPrepare H cfg msg k none = .ok (.ready hs sig a r)) :
    ∃ p0 rest, paramsOfBytes cfg H.n k.params = some (p0 :: rest) ∧
      hs = (p0 :: rest).map (·.lms.h) ∧
      sig = hssSigBytes H k.seed p0 rest k.counter msg ∧
      GoodKey H.n (topLevel H k.seed p0 rest k.counter).key ∧
      (∀ c ∈ lowerLevels H k.seed p0 rest k.counter, GoodKey H.n c.key) ∧
      qsOk (topLevel H k.seed p0 rest k.counter) (lowerLevels H k.seed p0 rest k.counter) ∧
      (bottomLevel H k.seed p0 rest k.counter).q < 2 ^ (bottomLevel H k.seed p0 rest k.counter).key.lms.h ∧
      expandPrivateKey H cfg k none = .ok (some (expandedOf H k.seed p0 rest k.counter, none)) := by
  obtain ⟨ps0, hps0, _, hhs, _⟩ := signPrepare_ready_shape h
  unfold signPrepare at h
  cases hps : paramsOfBytes cfg H.n k.params with
  | none => simp [hps, pure, Except.pure] at h
  | some ps =>
    obtain ⟨hne, hsl, hgood, hmax⟩ := paramsOfBytes_inv hps
    cases ps with
    | nil => exact absurd rfl hne
    | cons p0 rest =>
      rw [hps] at hps0
      cases hps0
      refine ⟨p0, rest, rfl, hhs, ?_⟩
      simp only [hps, List.head?_cons, getExpandedAuxData, bind, Except.bind] at h
      cases hexp : expandPrivateKey H cfg k none with
      | error err => simp [hexp] at h
      | ok v =>
        cases v with
        | none => simp [hexp, pure, Except.pure] at h
        | some exe =>
          obtain ⟨ex, e1⟩ := exe
          obtain ⟨ps', p0', q0, children, hps', hp0', he, hex, hlen, hall, hqs⟩ := expandPrivateKey_spec hexp
          obtain ⟨p0'', rest'', hps'', hlv⟩ := expandPrivateKey_levels hexp
          rw [hps] at hps' hps''
          simp only [Option.some.injEq] at hps' hps''
          subst hps'
          simp only [List.cons.injEq] at hps''
          obtain ⟨rfl, rfl⟩ := hps''
          simp only [List.head?_cons, Option.some.injEq] at hp0'
          subst hp0'
          subst he
          subst hex
          simp only [List.cons.injEq, Level.mk.injEq, true_and] at hlv
          obtain ⟨hq0, hch⟩ := hlv
          subst hq0
          have htop : (Level.mk (rootKey H k.seed p0)
              ((mixedRadix (List.map (fun x => x.lms.h) (p0 :: rest)) k.counter).getD 0 0))
              = topLevel H k.seed p0 rest k.counter := rfl
          rw [htop] at hqs hexp
          have hch' : children = lowerLevels H k.seed p0 rest k.counter := hch
          subst hch'
          simp only [hexp, getLast?_cons_eq_lastLevel, ite_self] at h
          have g0 : GoodParam H.n p0 := hgood p0 (by simp)
          have gt : GoodKey H.n (topLevel H k.seed p0 rest k.counter).key := rootKey_good H k.seed p0 g0
          have gb := lastLevel_good _ _ gt hall
          have hmap : ∀ top : Level, List.map (fun i => (sigsOf H top (lowerLevels H k.seed p0 rest k.counter)).getD i [] ++
              (List.map (fun c => pkBytes H c.key) (lowerLevels H k.seed p0 rest k.counter)).getD i [])
                (List.range (lowerLevels H k.seed p0 rest k.counter).length)
              = List.zipWith (· ++ ·) (sigsOf H top (lowerLevels H k.seed p0 rest k.counter))
                  ((lowerLevels H k.seed p0 rest k.counter).map fun c => pkBytes H c.key) :=
            fun top => map_range_getD_append _ _ _ (sigsOf_length H _ top) (by simp)
          simp only [List.length_cons, Nat.add_sub_cancel, hmap, spkBytes_eq] at h
          have hC := msgC_length H (bottomLevel H k.seed p0 rest k.counter)
          split at h
          · simp at h
          · rename_i v hv
            split at h
            · rename_i bsig e2'
              obtain ⟨hq, hbs, _⟩ := lmsSign_some gb.row hC hv
              simp only [P.require] at h
              split at h
              · simp at h
              · split at h
                · simp at h
                · split at h
                  · simp at h
                  · simp only [pure, Except.pure, Except.ok.injEq, Prepared.ready.injEq] at h
                    obtain ⟨_, hsig, _, _⟩ := h
                    refine ⟨?_, gt, hall, hqs, hq, rfl⟩
                    rw [← hsig, hbs]
                    have hl : (lowerLevels H k.seed p0 rest k.counter).length = rest.length :=
                      childrenOf_length _ _ _ _ _
                    rw [hl]
                    rfl
            · simp [pure, Except.pure] at h

/-! ### T1c: the HSS signature has exactly `hssSigLen n ps` bytes -/

/-- the (LM-OTS, LMS) parameter pair of a level -/
def levelParam (l : Level) : HssParam := ⟨l.key.ots, l.key.lms⟩

theorem childrenOf_params (H : HashFn) (leaves : List Nat) : ∀ (rest : List HssParam) (i : Nat) (parent : Level),
    (childrenOf H leaves i parent rest).map levelParam = rest := by
  intro rest
  induction rest with
  | nil => intro _ _; rfl
  | cons p rest ih =>
    intro i parent
    simp only [childrenOf, List.map_cons, ih]
    rfl

/-- the levels of the key carry exactly the parameters of the blob's parameter list, in order -/
theorem levels_params (H : HashFn) (seed : Bytes) (p0 : HssParam) (rest : List HssParam) (c : Nat) :
    (topLevel H seed p0 rest c :: lowerLevels H seed p0 rest c).map levelParam = p0 :: rest := by
  simp only [List.map_cons, lowerLevels, childrenOf_params]
  rfl

/-- the levels' current leaves are the mixed-radix digits of the counter, in order -/
theorem levels_leaves (H : HashFn) (seed : Bytes) (p0 : HssParam) (rest : List HssParam) (c : Nat) :
    ∀ j (hj : j < (p0 :: rest).length), ∃ l, (topLevel H seed p0 rest c :: lowerLevels H seed p0 rest c)[j]? = some l ∧
      l.key.ots = (p0 :: rest)[j].ots ∧ l.key.lms = (p0 :: rest)[j].lms ∧ l.q = (leafVector (p0 :: rest) c).getD j 0 := by
  intro j hj
  cases j with
  | zero => exact ⟨topLevel H seed p0 rest c, rfl, rfl, rfl, rfl⟩
  | succ j =>
    obtain ⟨l, h1, h2, h3, h4⟩ := childrenOf_getElem H (leafVector (p0 :: rest) c) rest 1 (topLevel H seed p0 rest c) j
      (by simpa using hj)
    refine ⟨l, by simpa [lowerLevels] using h1, by simpa using h2, by simpa using h3, ?_⟩
    rw [h4, Nat.add_comm]

theorem pkBytes_length (H : HashFn) (k : LmsKey) (hI : k.I.length = 16) :
    (pkBytes H k).length = lms_public_key_length H.n := by
  simp only [pkBytes, lmsPublicKeyBytes, List.length_append, Lemmas.Complete.u32be_length, hI, T_length,
    lms_public_key_length, ILEN]

/-- length of the signed public keys plus the bottom signature: one LMS signature per level and one LMS public key
per level below the top -/
theorem spkBytes_length (H : HashFn) : ∀ (cs : List Level) (parent : Level), (∀ c ∈ cs, c.key.I.length = 16) →
    (spkBytes H parent cs).length +
        lms_signature_length H.n (lastLevel parent cs).key.ots.p (lastLevel parent cs).key.lms.h
      = (((parent :: cs).map levelParam).map fun p => lms_signature_length H.n p.ots.p p.lms.h).sum +
          cs.length * lms_public_key_length H.n := by
  intro cs
  induction cs with
  | nil => intro parent _; simp [spkBytes, lastLevel, levelParam]
  | cons c cs ih =>
    intro parent hI
    have := ih c (fun c' hc' => hI c' (by simp [hc']))
    simp only [spkBytes, lastLevel, List.length_append, List.map_cons, List.sum_cons, List.length_cons,
      lmsSigBytes_length H parent.key parent.q _ _ (linkC_length H parent),
      pkBytes_length H c.key (hI c (by simp)), Nat.succ_mul] at this ⊢
    simp only [levelParam] at this ⊢
    omega

/-- T1. `hssSigBytes` has exactly `hssSigLen n (p0 :: rest)` bytes, the RFC 8554 length
`4 + Σ_i lms_signature_length(n, p_i, h_i) + (L-1) * lms_public_key_length(n)`, as soon as `16 ≤ n` -/
theorem hssSigBytes_length (H : HashFn) (seed : Bytes) (p0 : HssParam) (rest : List HssParam) (c : Nat) (msg : Bytes)
    (hI : ∀ l ∈ lowerLevels H seed p0 rest c, l.key.I.length = 16) :
    (hssSigBytes H seed p0 rest c msg).length = hssSigLen H.n (p0 :: rest) := by
  have h1 := spkBytes_length H (lowerLevels H seed p0 rest c) (topLevel H seed p0 rest c) hI
  rw [levels_params] at h1
  have hl : (lowerLevels H seed p0 rest c).length = rest.length := childrenOf_length _ _ _ _ _
  rw [hssSigLen_eq_sum]
  simp only [hssSigBytes, List.length_append, Lemmas.Complete.u32be_length,
    lmsSigBytes_length H _ _ msg _ (msgC_length H _), bottomLevel, List.length_cons, Nat.add_sub_cancel]
  rw [hl] at h1
  omega

/-- T1 for `hss_sign_core`: the assembled signature has exactly `hssSigLen n ps` bytes -/
theorem signPrepare_length {H : HashFn} {cfg : Config} {msg : Bytes} {k : RefKey} {hs : List Nat} {sig : Bytes}
    {a : Option Bytes} {r : Bytes} (h : signPrepare H cfg msg k none = .ok (.ready hs sig a r)) :
    ∃ ps, paramsOfBytes cfg H.n k.params = some ps ∧ sig.length = hssSigLen H.n ps := by
  obtain ⟨p0, rest, hps, _, hsig, _, hall, _, _, _⟩ := signPrepare_layout h
  refine ⟨_, hps, ?_⟩
  rw [hsig]
  exact hssSigBytes_length H k.seed p0 rest k.counter msg (fun l hl => (hall l hl).I)

/-! ### the signed public keys, level by level -/

/-- `spkBytes` written out per upper level `i`: the LMS signature by level `i` (at its current leaf, with the
link randomizer) over the serialised public key of level `i+1`, followed by that public key -/
theorem spkBytes_indexed (H : HashFn) : ∀ (cs : List Level) (parent d : Level),
    spkBytes H parent cs = ((List.range cs.length).map fun i =>
      lmsSigBytes H ((parent :: cs).getD i d).key ((parent :: cs).getD i d).q (pkBytes H ((parent :: cs).getD (i + 1) d).key)
          (linkC H ((parent :: cs).getD i d)) ++ pkBytes H ((parent :: cs).getD (i + 1) d).key).flatten := by
  intro cs
  induction cs with
  | nil => intro _ _; simp [spkBytes]
  | cons c cs ih =>
    intro parent d
    rw [List.length_cons, List.range_succ_eq_map, List.map_cons, List.flatten_cons, List.map_map]
    simp only [spkBytes, List.getD_cons_zero, List.getD_cons_succ, Function.comp_def, Nat.zero_add]
    rw [ih c d]
    simp only [List.getD_cons_succ, List.append_assoc]

/-- the released signature in terms of the `Expanded` structure: `u32 (L-1)`, then `sigs[i] ‖ pubs[i]` for every upper
level, then the bottom level's LMS signature of the message -/
theorem hssSigBytes_expanded (H : HashFn) (seed : Bytes) (p0 : HssParam) (rest : List HssParam) (c : Nat) (msg : Bytes) :
    hssSigBytes H seed p0 rest c msg =
      Bytes.u32be ((expandedOf H seed p0 rest c).levels.length - 1) ++
        (List.zipWith (· ++ ·) (expandedOf H seed p0 rest c).sigs (expandedOf H seed p0 rest c).pubs).flatten ++
        lmsSigBytes H (bottomLevel H seed p0 rest c).key (bottomLevel H seed p0 rest c).q msg
          (msgC H (bottomLevel H seed p0 rest c)) ∧
      (expandedOf H seed p0 rest c).levels.getLast? = some (bottomLevel H seed p0 rest c) := by
  have hl : (lowerLevels H seed p0 rest c).length = rest.length := childrenOf_length _ _ _ _ _
  refine ⟨?_, getLast?_cons_eq_lastLevel _ _⟩
  simp only [expandedOf, spkBytes_eq, List.length_cons, Nat.add_sub_cancel, hl]
  rfl

end Lemmas.Layout

/-
Lifetime accounting: `Impl.lifetimeOf` (the bottom-up saturating fold of `HssPrivateKey::get_lifetime`)
computes, for every key shape whose counter space fits in 63 bits, the number of counters that are left.
-/
import HbsLms.Lemmas.Counter

namespace Lemmas

open Impl Spec

/-- Remaining signatures, top level first: the bottom tree still has `2^h - q` leaves, every tree above it has
already consumed its current leaf, so it contributes `2^h - q - 1` further subtrees. -/
def life : List Nat → List Nat → Nat
  | [], _ => 0
  | _ :: _, [] => 0
  | [h], q :: _ => 2 ^ h - q
  | h :: h' :: hs, q :: qs => (2 ^ h - q - 1) * 2 ^ (h' :: hs).sum + life (h' :: hs) qs

/-- the tree sizes, bottom level first (the second accumulator component of the fold) -/
def sizes (hs : List Nat) : List Nat := (hs.map (2 ^ ·)).reverse

/-- saturation at `u64::MAX` -/
def sat (x : Nat) : Nat := min x (2 ^ 64 - 1)

/-- one iteration of the loop in `lifetimeOf` (`L` = number of levels) -/
def lifeStep (L : Nat) (hs qs : List Nat) (i : Nat) (acc : Nat × List Nat) : Nat × List Nat :=
  let total := 2 ^ hs.getD i 0
  let used := if i + 1 < L then qs.getD i 0 + 1 else qs.getD i 0
  let free := acc.2.foldl (fun f t => sat (f * t)) (total - used)
  (sat (acc.1 + free), acc.2 ++ [total])

/-- the loop over the levels `n-1, …, 0` -/
def lifeFold (L : Nat) (hs qs : List Nat) (n : Nat) : Nat × List Nat :=
  (List.range n).foldr (lifeStep L hs qs) (0, [])

theorem lifetimeOf_eq_lifeFold (hs qs : List Nat) :
    lifetimeOf hs qs = (lifeFold hs.length hs qs hs.length).1 := by
  unfold lifetimeOf lifeFold
  simp only [List.foldl_reverse]
  rfl

theorem lifeStep_succ (L : Nat) (h q : Nat) (hs qs : List Nat) (i : Nat) (acc : Nat × List Nat) :
    lifeStep (L + 1) (h :: hs) (q :: qs) (i + 1) acc = lifeStep L hs qs i acc := by
  simp [lifeStep]

theorem lifeFold_succ (L : Nat) (h q : Nat) (hs qs : List Nat) (n : Nat) :
    lifeFold (L + 1) (h :: hs) (q :: qs) (n + 1)
      = lifeStep (L + 1) (h :: hs) (q :: qs) 0 (lifeFold L hs qs n) := by
  unfold lifeFold
  rw [List.range_succ_eq_map, List.foldr_cons, List.foldr_map]
  congr 1
  congr 1
  funext i acc
  exact lifeStep_succ L h q hs qs i acc

theorem sat_of_le {x : Nat} (h : x ≤ 2 ^ 63) : sat x = x := by
  unfold sat
  omega

/-- the product loop, when nothing saturates -/
theorem foldl_sizes (hs : List Nat) (x : Nat) (hb : x * 2 ^ hs.sum ≤ 2 ^ 63) :
    (sizes hs).foldl (fun f t => sat (f * t)) x = x * 2 ^ hs.sum := by
  induction hs with
  | nil => simp [sizes]
  | cons h hs ih =>
    have hs1 : sizes (h :: hs) = sizes hs ++ [2 ^ h] := by simp [sizes]
    have hpow : 2 ^ (h :: hs).sum = 2 ^ hs.sum * 2 ^ h := by
      rw [List.sum_cons, Nat.pow_add, Nat.mul_comm]
    rw [hpow, ← Nat.mul_assoc] at hb
    have hle : x * 2 ^ hs.sum ≤ x * 2 ^ hs.sum * 2 ^ h :=
      Nat.le_mul_of_pos_right _ (Nat.two_pow_pos h)
    rw [hs1, List.foldl_append, ih (Nat.le_trans hle hb)]
    simp only [List.foldl_cons, List.foldl_nil]
    rw [sat_of_le hb, hpow, Nat.mul_assoc]

theorem life_le (hs qs : List Nat) : life hs qs ≤ 2 ^ hs.sum := by
  fun_induction life hs qs with
  | case1 => simp
  | case2 => simp
  | case3 h q qs => simp
  | case4 h h' hs q qs ih =>
    rw [List.sum_cons (a := h), Nat.pow_add]
    generalize 2 ^ (h' :: hs).sum = P at ih ⊢
    have hp : 0 < 2 ^ h := Nat.two_pow_pos h
    have : 2 ^ h = (2 ^ h - q - 1) + 1 + (2 ^ h - (2 ^ h - q - 1) - 1) := by omega
    calc (2 ^ h - q - 1) * P + life (h' :: hs) qs ≤ (2 ^ h - q - 1) * P + P := by omega
      _ = ((2 ^ h - q - 1) + 1) * P := by rw [Nat.add_mul, Nat.one_mul]
      _ ≤ 2 ^ h * P := Nat.mul_le_mul_right _ (by omega)

/-- the fold computes `life` (and the list of tree sizes) whenever the counter space fits in 63 bits -/
theorem lifeFold_eq (hs qs : List Nat) (hlen : qs.length = hs.length) (hsum : hs.sum ≤ 63) :
    lifeFold hs.length hs qs hs.length = (life hs qs, sizes hs) := by
  induction hs generalizing qs with
  | nil => simp [lifeFold, life, sizes]
  | cons h hs ih =>
    cases qs with
    | nil => simp at hlen
    | cons q qs =>
      have hlen' : qs.length = hs.length := by simpa using hlen
      have hsum' : hs.sum ≤ 63 := by simp only [List.sum_cons] at hsum; omega
      rw [List.length_cons, lifeFold_succ, ih qs hlen' hsum']
      have hs1 : sizes (h :: hs) = sizes hs ++ [2 ^ h] := by simp [sizes]
      have h63 : 2 ^ (h :: hs).sum ≤ 2 ^ 63 := Nat.pow_le_pow_right (by omega) hsum
      have hlife := life_le (h :: hs) (q :: qs)
      cases hs with
      | nil =>
        have hh : 2 ^ h ≤ 2 ^ 63 := by simpa using h63
        simp only [lifeStep, life, sizes, List.length_nil, List.getD_cons_zero]
        simp only [Nat.lt_irrefl, if_false, List.map_nil, List.reverse_nil, List.foldl_nil,
          List.nil_append, Nat.zero_add, List.map_cons, List.reverse_cons]
        rw [sat_of_le (by omega)]
      | cons h' hs =>
        have hlt : 0 + 1 < (h' :: hs).length + 1 := by simp
        simp only [lifeStep, hlt, if_true, List.getD_cons_zero, hs1]
        have hfree : (2 ^ h - (q + 1)) * 2 ^ (h' :: hs).sum ≤ 2 ^ 63 := by
          refine Nat.le_trans ?_ h63
          rw [List.sum_cons (a := h), Nat.pow_add]
          exact Nat.mul_le_mul_right _ (Nat.sub_le _ _)
        rw [foldl_sizes _ _ hfree]
        have hl : life (h :: h' :: hs) (q :: qs)
            = (2 ^ h - q - 1) * 2 ^ (h' :: hs).sum + life (h' :: hs) qs := by simp [life]
        have hsub : 2 ^ h - (q + 1) = 2 ^ h - q - 1 := by omega
        rw [hsub, Nat.add_comm, ← hl, sat_of_le (Nat.le_trans hlife h63)]

/-- `lifetimeOf` is `life` for every leaf vector of the right length when the total height is at most 63 -/
theorem lifetimeOf_eq_life (hs qs : List Nat) (hlen : qs.length = hs.length) (hsum : hs.sum ≤ 63) :
    lifetimeOf hs qs = life hs qs := by
  rw [lifetimeOf_eq_lifeFold, lifeFold_eq hs qs hlen hsum]

/-- on the digit vector of a counter, `life` is the number of counters left in the current period -/
theorem life_mixedRadix (hs : List Nat) (c : Nat) (hne : hs ≠ []) :
    life hs (mixedRadix hs c) = 2 ^ hs.sum - c % 2 ^ hs.sum := by
  induction hs with
  | nil => exact absurd rfl hne
  | cons h hs ih =>
    cases hs with
    | nil => simp [mixedRadix, life]
    | cons h' hs =>
      have ih' := ih (by simp)
      have hm : mixedRadix (h :: h' :: hs) c
          = (c / 2 ^ (h' :: hs).sum) % 2 ^ h :: mixedRadix (h' :: hs) c := by
        simp [mixedRadix]
      have hl : ∀ q qs, life (h :: h' :: hs) (q :: qs)
          = (2 ^ h - q - 1) * 2 ^ (h' :: hs).sum + life (h' :: hs) qs := by
        intro q qs; simp [life]
      rw [hm, hl, ih']
      have hpow : 2 ^ (h :: h' :: hs).sum = 2 ^ (h' :: hs).sum * 2 ^ h := by
        rw [List.sum_cons (a := h), Nat.pow_add, Nat.mul_comm]
      rw [hpow, Nat.mod_mul]
      generalize 2 ^ (h' :: hs).sum = P
      have hq : c / P % 2 ^ h < 2 ^ h := Nat.mod_lt _ (Nat.two_pow_pos h)
      generalize c / P % 2 ^ h = q at hq
      by_cases hP : P = 0
      · subst hP; simp
      have hr : c % P < P := Nat.mod_lt _ (by omega)
      generalize c % P = r at hr
      obtain ⟨d, hd⟩ : ∃ d, 2 ^ h = d + q + 1 := ⟨2 ^ h - q - 1, by omega⟩
      have hd' : 2 ^ h - q - 1 = d := by omega
      rw [hd', hd, Nat.mul_add, Nat.mul_add, Nat.mul_one, Nat.mul_comm P d, Nat.mul_comm P q]
      omega

/-- the reported lifetime of the key with counter `c` is `2^(h_0+…+h_{L-1}) - c` -/
theorem lifetime_eq (hs : List Nat) (c : Nat) (hne : hs ≠ []) (hsum : hs.sum ≤ 63) (hc : c < 2 ^ hs.sum) :
    lifetimeOf hs (mixedRadix hs c) = 2 ^ hs.sum - c := by
  rw [lifetimeOf_eq_life hs _ (mixedRadix_length hs c) hsum, life_mixedRadix hs c hne, Nat.mod_eq_of_lt hc]

/-- the reported lifetime always fits the `u64` it is returned in (saturating arithmetic, no overflow), for
every shape and every leaf vector -/
theorem lifetimeOf_le_u64 (hs qs : List Nat) : lifetimeOf hs qs ≤ 2 ^ 64 - 1 := by
  rw [lifetimeOf_eq_lifeFold]
  unfold lifeFold
  generalize List.range hs.length = l
  cases l with
  | nil => simp
  | cons i l =>
    simp only [List.foldr_cons, lifeStep, sat]
    exact Nat.min_le_right _ _

end Lemmas

/-
The auxiliary buffer as a cache of nodes of the top tree (property C10).
`CacheTrue`: every non-zero slot of a cached level holds the true tree node. Under this invariant
`getTreeElement` returns the same node as without a cache and re-establishes the invariant.
-/
import HbsLms.Impl.Hss
import HbsLms.Lemmas.Basic

open Generated Impl

namespace Lemmas.AuxCache

/-! ### byte-string lemmas: `patch` / `slice` -/

theorem getElem?_slice (b : Bytes) (s len i : Nat) :
    (Bytes.slice b s len)[i]? = if i < len then b[s + i]? else none := by
  simp [Bytes.slice, List.getElem?_take, List.getElem?_drop]

theorem getElem?_patch (b : Bytes) (s : Nat) (v : Bytes) (i : Nat) (h : s + v.length ≤ b.length) :
    (Bytes.patch b s v)[i]? =
      if i < s then b[i]? else if i < s + v.length then v[i - s]? else b[i]? := by
  unfold Bytes.patch
  have hs : (List.take s b).length = s := by simp [List.length_take]; omega
  rw [List.append_assoc, List.getElem?_append, hs]
  split
  · simp [*]
  · rename_i h1
    rw [List.getElem?_append]
    split
    · rename_i h2
      rw [if_pos (by omega)]
    · rename_i h2
      rw [if_neg (by omega), List.getElem?_drop]
      congr 1; omega

theorem patch_length (b : Bytes) (s : Nat) (v : Bytes) (h : s + v.length ≤ b.length) :
    (Bytes.patch b s v).length = b.length := by
  simp [Bytes.patch, List.length_take, List.length_drop]; omega

theorem slice_patch_same (b : Bytes) (s : Nat) (v : Bytes) (h : s + v.length ≤ b.length) :
    Bytes.slice (Bytes.patch b s v) s v.length = v := by
  apply List.ext_getElem?
  intro i
  rw [getElem?_slice, getElem?_patch _ _ _ _ h]
  split
  · rw [if_neg (by omega), if_pos (by omega)]; congr 1; omega
  · rename_i h1
    exact (List.getElem?_eq_none (by omega)).symm

theorem slice_patch_disjoint (b : Bytes) (s : Nat) (v : Bytes) (s' len : Nat)
    (h : s + v.length ≤ b.length) (hd : s' + len ≤ s ∨ s + v.length ≤ s') :
    Bytes.slice (Bytes.patch b s v) s' len = Bytes.slice b s' len := by
  apply List.ext_getElem?
  intro i
  rw [getElem?_slice, getElem?_slice, getElem?_patch _ _ _ _ h]
  split
  · rcases hd with hd | hd
    · rw [if_pos (by omega)]
    · rw [if_neg (by omega), if_neg (by omega)]
  · rfl

/-! ### the plain tree and the cache invariant -/

/-- `T[r]` of the tree of key `k`, computed without any cache -/
def T (H : HashFn) (k : LmsKey) (r : Nat) : Bytes := (treeNode H k r none).1

/-- every non-zero slot of a cached level holds the true node of the tree of `k` -/
def CacheTrue (H : HashFn) (k : LmsKey) (e : ExpAux) : Prop :=
  ∀ level layer, e.layers.getD level none = some layer →
    layer.length = H.n * 2 ^ level ∧
    ∀ j, j < 2 ^ level →
      Bytes.allZero (Bytes.slice layer (j * H.n) H.n) = true ∨
      Bytes.slice layer (j * H.n) H.n = T H k (2 ^ level + j)

/-- the invariant for an optional view (`none` = no aux data at all) -/
def AuxGood (H : HashFn) (k : LmsKey) (a : Option ExpAux) : Prop :=
  ∀ e, a = some e → CacheTrue H k e

theorem auxGood_none (H : HashFn) (k : LmsKey) : AuxGood H k none := by
  intro e h; cases h

theorem auxGood_some {H : HashFn} {k : LmsKey} {e : ExpAux} (h : CacheTrue H k e) : AuxGood H k (some e) := by
  intro e' h'; cases h'; exact h

/-- one unfolding of `getTreeElement` with projections instead of pattern matches -/
theorem getTreeElement_unfold (H : HashFn) (k : LmsKey) (fuel r : Nat) (aux : Option ExpAux) :
    getTreeElement H k fuel r aux =
      match aux.bind (fun e => hss_extract_aux_data H.n e r) with
      | some v => (v, aux)
      | none =>
        let p : Bytes × Option ExpAux :=
          if r ≥ 2 ^ k.lms.h then (leafNode H k r, aux)
          else match fuel with
            | 0 => ([], aux)
            | f+1 =>
              let p1 := getTreeElement H k f (2 * r) aux
              let p2 := getTreeElement H k f (2 * r + 1) p1.2
              (H.h (k.I ++ Bytes.u32be r ++ D_INTR ++ p1.1 ++ p2.1), p2.2)
        (p.1, p.2.map fun e => hss_save_aux_data H.n e r p.1) := by
  rw [getTreeElement.eq_def]
  rfl

/-- without a cache nothing is stored -/
theorem getTreeElement_none_snd (H : HashFn) (k : LmsKey) (fuel r : Nat) :
    (getTreeElement H k fuel r none).2 = none := by
  induction fuel generalizing r with
  | zero =>
    rw [getTreeElement_unfold]
    simp only [Option.bind_none]
    split <;> simp
  | succ f ih =>
    rw [getTreeElement_unfold]
    simp only [Option.bind_none]
    split
    · simp
    · simp [ih]

theorem log2_of_range {r l : Nat} (h1 : 2 ^ l ≤ r) (h2 : r < 2 ^ (l + 1)) : log2 r = l := by
  have hr : r ≠ 0 := by
    have := Nat.two_pow_pos l
    omega
  exact (Nat.log2_eq_iff hr).2 ⟨h1, h2⟩

/-- the recursive equations of the plain tree -/
theorem T_leaf (H : HashFn) (k : LmsKey) (r : Nat) (h : 2 ^ k.lms.h ≤ r) : T H k r = leafNode H k r := by
  unfold T treeNode
  rw [getTreeElement_unfold]
  simp [h]

theorem getTreeElement_none_eq_T (H : HashFn) (k : LmsKey) (fuel r : Nat)
    (hf : fuel ≤ k.lms.h) (h1 : 2 ^ (k.lms.h - fuel) ≤ r) (h2 : r < 2 ^ (k.lms.h - fuel + 1)) :
    getTreeElement H k fuel r none = (T H k r, none) := by
  have hl : log2 r = k.lms.h - fuel := log2_of_range h1 h2
  have : k.lms.h - log2 r = fuel := by omega
  apply Prod.ext
  · simp [T, treeNode, this]
  · exact getTreeElement_none_snd H k fuel r

theorem T_node (H : HashFn) (k : LmsKey) (f r : Nat)
    (hf : f + 1 ≤ k.lms.h) (h1 : 2 ^ (k.lms.h - (f + 1)) ≤ r) (h2 : r < 2 ^ (k.lms.h - (f + 1) + 1)) :
    T H k r = H.h (k.I ++ Bytes.u32be r ++ D_INTR ++ T H k (2 * r) ++ T H k (2 * r + 1)) := by
  have hlt : ¬ r ≥ 2 ^ k.lms.h := by
    have : k.lms.h - (f + 1) + 1 ≤ k.lms.h := by omega
    have := Nat.pow_le_pow_right (n := 2) (by omega) this
    omega
  have hpow : 2 ^ (k.lms.h - f) = 2 * 2 ^ (k.lms.h - (f + 1)) := by
    have : k.lms.h - f = (k.lms.h - (f + 1)) + 1 := by omega
    rw [this, Nat.pow_succ]; omega
  have hpow' : 2 ^ (k.lms.h - f + 1) = 2 * 2 ^ (k.lms.h - (f + 1) + 1) := by
    have : k.lms.h - f + 1 = (k.lms.h - (f + 1) + 1) + 1 := by omega
    rw [this, Nat.pow_succ]; omega
  have e0 := getTreeElement_none_eq_T H k (f + 1) r hf h1 h2
  have e1 := getTreeElement_none_eq_T H k f (2 * r) (by omega) (by omega) (by omega)
  have e2 := getTreeElement_none_eq_T H k f (2 * r + 1) (by omega) (by omega) (by omega)
  rw [getTreeElement_unfold] at e0
  simp only [Option.bind_none, hlt, if_false, e1, e2] at e0
  exact (congrArg Prod.fst e0).symm

theorem T_length (H : HashFn) (k : LmsKey) (fuel r : Nat)
    (hf : fuel ≤ k.lms.h) (h1 : 2 ^ (k.lms.h - fuel) ≤ r) (h2 : r < 2 ^ (k.lms.h - fuel + 1)) :
    (T H k r).length = H.n := by
  by_cases hr : 2 ^ k.lms.h ≤ r
  · rw [T_leaf H k r hr]; unfold leafNode; exact H.len_h _
  · cases fuel with
    | zero => simp at h1; omega
    | succ f => rw [T_node H k f r hf h1 h2]; exact H.len_h _

/-! ### the two cache operations -/

/-- a cache hit under the invariant is the true node -/
theorem extract_sound {H : HashFn} {k : LmsKey} {e : ExpAux} (hc : CacheTrue H k e) {r l : Nat}
    (h1 : 2 ^ l ≤ r) (h2 : r < 2 ^ (l + 1)) {v : Bytes} (hv : hss_extract_aux_data H.n e r = some v) :
    v = T H k r := by
  unfold hss_extract_aux_data at hv
  rw [log2_of_range h1 h2] at hv
  cases hL : e.layers.getD l none with
  | none => dsimp only at hv; rw [hL] at hv; cases hv
  | some layer =>
    simp only [hL] at hv
    obtain ⟨_, hs⟩ := hc l layer hL
    have hj : r - 2 ^ l < 2 ^ l := by rw [Nat.pow_succ] at h2; omega
    split at hv
    · cases hv
    · rename_i hz
      cases hv
      rcases hs (r - 2 ^ l) hj with h | h
      · exact absurd h hz
      · rw [h]; congr 1; omega

/-- storing the true node keeps the invariant -/
theorem save_preserves {H : HashFn} {k : LmsKey} {e : ExpAux} (hc : CacheTrue H k e) {r l : Nat}
    (h1 : 2 ^ l ≤ r) (h2 : r < 2 ^ (l + 1)) {v : Bytes} (hv : v = T H k r) (hlen : v.length = H.n) :
    CacheTrue H k (hss_save_aux_data H.n e r v) := by
  unfold hss_save_aux_data
  rw [log2_of_range h1 h2]
  cases hL : e.layers.getD l none with
  | none => simp only [hL]; exact hc
  | some layer =>
    simp only [hL]
    obtain ⟨hlayer, hs⟩ := hc l layer hL
    have hj : r - 2 ^ l < 2 ^ l := by rw [Nat.pow_succ] at h2; omega
    have hfit : (r - 2 ^ l) * H.n + v.length ≤ layer.length := by
      rw [hlen, hlayer]
      calc (r - 2 ^ l) * H.n + H.n = (r - 2 ^ l + 1) * H.n := by rw [Nat.add_mul]; omega
        _ ≤ 2 ^ l * H.n := Nat.mul_le_mul_right _ (by omega)
        _ = H.n * 2 ^ l := Nat.mul_comm _ _
    have hlt : l < e.layers.length := by
      rw [List.getD_eq_getElem?_getD] at hL
      cases hq : e.layers[l]? with
      | none => simp [hq] at hL
      | some x => exact (List.getElem?_eq_some_iff.1 hq).1
    intro level layer' hget
    simp only [List.getD_eq_getElem?_getD, List.getElem?_set] at hget
    by_cases hlv : l = level
    · subst hlv
      simp only [if_true, hlt] at hget
      simp only [Option.getD_some, Option.some.injEq] at hget
      subst hget
      refine ⟨by rw [patch_length _ _ _ hfit]; exact hlayer, ?_⟩
      intro j hjl
      by_cases hjj : j = r - 2 ^ l
      · right
        subst hjj
        have := slice_patch_same layer ((r - 2 ^ l) * H.n) v hfit
        rw [hlen] at this
        rw [this, hv]; congr 1; omega
      · have hdis : j * H.n + H.n ≤ (r - 2 ^ l) * H.n ∨ (r - 2 ^ l) * H.n + v.length ≤ j * H.n := by
          rw [hlen]
          rcases Nat.lt_or_gt_of_ne hjj with h | h
          · left
            calc j * H.n + H.n = (j + 1) * H.n := by rw [Nat.add_mul]; omega
              _ ≤ (r - 2 ^ l) * H.n := Nat.mul_le_mul_right _ (by omega)
          · right
            calc (r - 2 ^ l) * H.n + H.n = (r - 2 ^ l + 1) * H.n := by rw [Nat.add_mul]; omega
              _ ≤ j * H.n := Nat.mul_le_mul_right _ (by omega)
        rw [slice_patch_disjoint _ _ _ _ _ hfit hdis]
        exact hs j hjl
    · simp only [hlv, if_false] at hget
      rw [← List.getD_eq_getElem?_getD] at hget
      exact hc level layer' hget

/-! ### T1: cache transparency -/

/-- **S-aux.** Through a cache that satisfies the invariant, `getTreeElement` returns the node of the plain
tree, and the cache it leaves behind satisfies the invariant again. -/
theorem getTreeElement_transparent (H : HashFn) (k : LmsKey) (fuel : Nat) :
    ∀ (r : Nat) (a : Option ExpAux), AuxGood H k a →
      fuel ≤ k.lms.h → 2 ^ (k.lms.h - fuel) ≤ r → r < 2 ^ (k.lms.h - fuel + 1) →
      ∃ a', getTreeElement H k fuel r a = (T H k r, a') ∧ AuxGood H k a' ∧ (a'.isSome = a.isSome) := by
  induction fuel with
  | zero =>
    intro r a ha hf h1 h2
    rw [getTreeElement_unfold]
    cases hx : a.bind (fun e => hss_extract_aux_data H.n e r) with
    | some v =>
      refine ⟨a, ?_, ha, rfl⟩
      obtain ⟨e, rfl, he⟩ := Option.bind_eq_some_iff.1 hx
      simp only []
      rw [extract_sound (ha e rfl) h1 h2 he]
    | none =>
      have hr : r ≥ 2 ^ k.lms.h := by simpa using h1
      simp only [hr, if_true]
      rw [← T_leaf H k r hr]
      refine ⟨_, rfl, ?_, by simp⟩
      intro e' he'
      obtain ⟨e, rfl, rfl⟩ := Option.map_eq_some_iff.1 he'
      exact save_preserves (ha e rfl) h1 h2 rfl (T_length H k 0 r hf h1 h2)
  | succ f ih =>
    intro r a ha hf h1 h2
    rw [getTreeElement_unfold]
    cases hx : a.bind (fun e => hss_extract_aux_data H.n e r) with
    | some v =>
      refine ⟨a, ?_, ha, rfl⟩
      obtain ⟨e, rfl, he⟩ := Option.bind_eq_some_iff.1 hx
      simp only []
      rw [extract_sound (ha e rfl) h1 h2 he]
    | none =>
      have hlt : ¬ r ≥ 2 ^ k.lms.h := by
        have : k.lms.h - (f + 1) + 1 ≤ k.lms.h := by omega
        have := Nat.pow_le_pow_right (n := 2) (by omega) this
        omega
      have hpow : 2 ^ (k.lms.h - f) = 2 * 2 ^ (k.lms.h - (f + 1)) := by
        have : k.lms.h - f = (k.lms.h - (f + 1)) + 1 := by omega
        rw [this, Nat.pow_succ]; omega
      have hpow' : 2 ^ (k.lms.h - f + 1) = 2 * 2 ^ (k.lms.h - (f + 1) + 1) := by
        have : k.lms.h - f + 1 = (k.lms.h - (f + 1) + 1) + 1 := by omega
        rw [this, Nat.pow_succ]; omega
      obtain ⟨a1, e1, g1, s1⟩ := ih (2 * r) a ha (by omega) (by omega) (by omega)
      obtain ⟨a2, e2, g2, s2⟩ := ih (2 * r + 1) a1 g1 (by omega) (by omega) (by omega)
      simp only [hlt, if_false, e1, e2]
      have hT := T_node H k f r hf h1 h2
      rw [← hT]
      refine ⟨_, rfl, ?_, by simp [s1, s2]⟩
      intro e' he'
      obtain ⟨e, rfl, rfl⟩ := Option.map_eq_some_iff.1 he'
      exact save_preserves (g2 e rfl) h1 h2 rfl (T_length H k (f + 1) r hf h1 h2)

/-- `treeNode` through a true cache returns the node of the plain tree -/
theorem treeNode_transparent (H : HashFn) (k : LmsKey) (r : Nat) (a : Option ExpAux) (ha : AuxGood H k a)
    (h1 : 1 ≤ r) (h2 : r < 2 ^ (k.lms.h + 1)) :
    ∃ a', treeNode H k r a = (T H k r, a') ∧ AuxGood H k a' ∧ a'.isSome = a.isSome := by
  unfold treeNode
  have hr : r ≠ 0 := by omega
  have hle : log2 r ≤ k.lms.h := by
    have := (Nat.log2_lt hr).2 h2
    unfold log2; omega
  have hsub : k.lms.h - (k.lms.h - log2 r) = log2 r := by omega
  apply getTreeElement_transparent H k _ r a ha (by omega)
  · rw [hsub]; exact Nat.log2_self_le hr
  · rw [hsub]; exact Nat.lt_log2_self

/-! ### expanding a buffer -/

/-- the per-level byte counts announced by a level word -/
def auxSizes (H : HashFn) (cfg : Config) (level : Nat) : List Nat :=
  (List.range (cfg.maxTreeHeight + 1)).map fun i =>
    if (level >>> i) &&& 1 == 0 then 0 else H.n <<< i

/-- cutting the buffer into levels -/
def splitLayers (sizes : List Nat) (acc : List (Option Bytes) × Bytes) : List (Option Bytes) × Bytes :=
  sizes.foldl (fun (acc : List (Option Bytes) × Bytes) sz =>
      if sz == 0 then (acc.1 ++ [none], acc.2) else (acc.1 ++ [some (acc.2.take sz)], acc.2.drop sz)) acc

def auxTotal (H : HashFn) (cfg : Config) (level : Nat) : Nat :=
  4 + (auxSizes H cfg level).foldl (· + ·) 0

theorem expand_some {H : HashFn} {cfg : Config} {aux : Bytes} {seed : Option Bytes} {e : ExpAux}
    (h : hss_expand_aux_data H cfg aux seed = some e) :
    hss_is_aux_data_used aux = true ∧
    ∃ lw, readAt aux 4 0 = some lw ∧
      (∀ s, seed = some s → auxTotal H cfg lw.toNat ≤ aux.length ∧
          auxHmac H (auxSeedDerive H s) (aux.take (auxTotal H cfg lw.toNat)) = aux.drop (auxTotal H cfg lw.toNat)) ∧
      e = ⟨lw, lw.toNat, (splitLayers (auxSizes H cfg lw.toNat) ([], aux.drop 4)).1,
            (splitLayers (auxSizes H cfg lw.toNat) ([], aux.drop 4)).2⟩ := by
  unfold hss_expand_aux_data at h
  by_cases hu : hss_is_aux_data_used aux = true
  · refine ⟨hu, ?_⟩
    simp only [hu, Bool.not_true, Bool.false_eq_true, if_false] at h
    cases hr : readAt aux 4 0 with
    | none => simp [hr] at h
    | some lw =>
      refine ⟨lw, rfl, ?_⟩
      simp only [hr, Option.bind_eq_bind, Option.bind_some] at h
      cases seed with
      | none =>
        simp only [pure] at h
        refine ⟨(by intro s hs; cases hs), ?_⟩
        cases h
        rfl
      | some s =>
        simp only [] at h
        split at h
        · cases h
        · rename_i h1
          split at h
          · cases h
          · rename_i h2
            simp only [pure, Option.some.injEq] at h
            refine ⟨?_, h.symm⟩
            intro s' hs'
            cases hs'
            refine ⟨Nat.le_of_not_gt h1, ?_⟩
            simp only [bne_iff_ne, ne_eq, Decidable.not_not] at h2
            exact h2
  · simp [hu] at h

/-- the levels cut out of `rest`, without accumulator -/
def layersOf : List Nat → Bytes → List (Option Bytes)
  | [], _ => []
  | sz :: t, rest => if sz == 0 then none :: layersOf t rest else some (rest.take sz) :: layersOf t (rest.drop sz)

def restOf : List Nat → Bytes → Bytes
  | [], rest => rest
  | sz :: t, rest => if sz == 0 then restOf t rest else restOf t (rest.drop sz)

theorem splitLayers_eq (sizes : List Nat) (acc : List (Option Bytes)) (rest : Bytes) :
    splitLayers sizes (acc, rest) = (acc ++ layersOf sizes rest, restOf sizes rest) := by
  induction sizes generalizing acc rest with
  | nil => simp [splitLayers, layersOf, restOf]
  | cons sz t ih =>
    unfold splitLayers at ih ⊢
    rw [List.foldl_cons]
    by_cases hz : (sz == 0) = true
    · simp only [hz, if_true, ih, layersOf, restOf]; simp
    · simp only [hz, ih, layersOf, restOf]; simp

theorem layersOf_spec (sizes : List Nat) (rest : Bytes) (i : Nat) (layer : Bytes)
    (h : (layersOf sizes rest)[i]? = some (some layer)) :
    ∃ sz, sizes[i]? = some sz ∧ sz ≠ 0 ∧ (∀ x ∈ layer, x ∈ rest) ∧ (sizes.sum ≤ rest.length → layer.length = sz) := by
  induction sizes generalizing rest i with
  | nil => simp [layersOf] at h
  | cons sz t ih =>
    unfold layersOf at h
    by_cases hz : (sz == 0) = true
    · simp only [hz, if_true] at h
      have hz' : sz = 0 := by simpa using hz
      cases i with
      | zero => simp at h
      | succ i =>
        simp only [List.getElem?_cons_succ] at h ⊢
        obtain ⟨s, h1, h2, h3, h4⟩ := ih rest i h
        exact ⟨s, h1, h2, h3, fun hs => h4 (by simp [hz'] at hs; exact hs)⟩
    · simp only [hz, Bool.false_eq_true, if_false] at h
      have hz' : sz ≠ 0 := by simpa using hz
      cases i with
      | zero =>
        simp only [List.getElem?_cons_zero, Option.some.injEq] at h
        subst h
        refine ⟨sz, by simp, hz', fun x hx => List.mem_of_mem_take hx, fun hs => ?_⟩
        simp only [List.sum_cons] at hs
        simp [List.length_take]; omega
      | succ i =>
        simp only [List.getElem?_cons_succ] at h ⊢
        obtain ⟨s, h1, h2, h3, h4⟩ := ih (rest.drop sz) i h
        refine ⟨s, h1, h2, fun x hx => List.mem_of_mem_drop (h3 x hx), fun hs => h4 ?_⟩
        simp only [List.sum_cons] at hs
        simp [List.length_drop]; omega

theorem auxSizes_getElem? (H : HashFn) (cfg : Config) (level i sz : Nat)
    (h : (auxSizes H cfg level)[i]? = some sz) (hz : sz ≠ 0) : sz = H.n * 2 ^ i := by
  unfold auxSizes at h
  rw [List.getElem?_map] at h
  cases hr : (List.range (cfg.maxTreeHeight + 1))[i]? with
  | none => simp [hr] at h
  | some j =>
    have hj : j = i := by
      obtain ⟨hlt, hv⟩ := List.getElem?_eq_some_iff.1 hr
      simpa using hv.symm
    subst hj
    simp only [hr, Option.map_some, Option.some.injEq] at h
    split at h
    · omega
    · rw [← h, Nat.shiftLeft_eq]

theorem allZero_of_forall {b : Bytes} (h : ∀ x ∈ b, x = 0) : Bytes.allZero b = true := by
  unfold Bytes.allZero
  rw [List.all_eq_true]
  intro x hx
  simp [h x hx]

/-- layers that consist of zero bytes only and have the announced lengths satisfy the invariant for every key -/
theorem cacheTrue_of_zero (H : HashFn) (k : LmsKey) (e : ExpAux)
    (h : ∀ level layer, e.layers.getD level none = some layer →
      layer.length = H.n * 2 ^ level ∧ ∀ x ∈ layer, x = 0) : CacheTrue H k e := by
  intro level layer hl
  obtain ⟨h1, h2⟩ := h level layer hl
  refine ⟨h1, fun j _ => Or.inl (allZero_of_forall ?_)⟩
  intro x hx
  exact h2 x (List.mem_of_mem_drop (List.mem_of_mem_take hx))

theorem mem_drop4_marker {L level : Nat} {x : UInt8}
    (hx : x ∈ (hss_store_aux_marker (Bytes.zeros L) level).drop 4) : x = 0 := by
  have key : ∀ v : Bytes, v.length ≤ 4 → x ∈ (Bytes.patch (Bytes.zeros L) 0 v).drop 4 → x = 0 := by
    intro v hv hx
    unfold Bytes.patch at hx
    simp only [List.take_zero, List.nil_append, Nat.zero_add] at hx
    rw [List.drop_append] at hx
    rcases List.mem_append.1 hx with h | h
    · rw [List.drop_eq_nil_of_le (by omega)] at h; cases h
    · have := List.mem_of_mem_drop (List.mem_of_mem_drop h)
      exact (List.mem_replicate.1 this).2
  unfold hss_store_aux_marker at hx
  split at hx
  · exact key _ (by simp) hx
  · exact key _ (by simp [Bytes.u32be, Bytes.be]) hx

theorem marker_length {L level : Nat} (hL : 4 ≤ L) : (hss_store_aux_marker (Bytes.zeros L) level).length = L := by
  unfold hss_store_aux_marker
  split
  · rw [patch_length]; simp [Bytes.zeros]; simp [Bytes.zeros, AUX_DATA_MARKER]; omega
  · rw [patch_length]; simp [Bytes.zeros]; simp [Bytes.zeros, Bytes.u32be, Bytes.be]; omega

/-- **T2.** The expanded view of a zeroed and marked buffer: every cached level consists of zero bytes only. -/
theorem fresh_layers_zero (H : HashFn) (cfg : Config) (L level : Nat) (e : ExpAux)
    (h : hss_expand_aux_data H cfg (hss_store_aux_marker (Bytes.zeros L) level) none = some e) :
    ∀ lv layer, e.layers.getD lv none = some layer → ∀ x ∈ layer, x = 0 := by
  obtain ⟨_, lw, _, _, rfl⟩ := expand_some h
  intro lv layer hl x hx
  simp only [splitLayers_eq, List.nil_append, List.getD_eq_getElem?_getD] at hl
  cases hq : (layersOf (auxSizes H cfg lw.toNat) ((hss_store_aux_marker (Bytes.zeros L) level).drop 4))[lv]? with
  | none => simp [hq] at hl
  | some o =>
    simp only [hq, Option.getD_some] at hl
    subst hl
    obtain ⟨sz, _, _, h3, _⟩ := layersOf_spec _ _ _ _ hq
    exact mem_drop4_marker (h3 x hx)

/-- **T2.** If moreover the announced levels fit into the buffer, the fresh view satisfies the invariant
(for every key: all slots are empty). -/
theorem fresh_cacheTrue (H : HashFn) (cfg : Config) (k : LmsKey) (L level : Nat) (e : ExpAux)
    (h : hss_expand_aux_data H cfg (hss_store_aux_marker (Bytes.zeros L) level) none = some e)
    (hfit : auxTotal H cfg e.level ≤ L) : CacheTrue H k e := by
  apply cacheTrue_of_zero
  intro lv layer hl
  refine ⟨?_, fresh_layers_zero H cfg L level e h lv layer hl⟩
  obtain ⟨_, lw, _, _, rfl⟩ := expand_some h
  simp only [splitLayers_eq, List.nil_append, List.getD_eq_getElem?_getD] at hl
  cases hq : (layersOf (auxSizes H cfg lw.toNat) ((hss_store_aux_marker (Bytes.zeros L) level).drop 4))[lv]? with
  | none => simp [hq] at hl
  | some o =>
    simp only [hq, Option.getD_some] at hl
    subst hl
    obtain ⟨sz, h1, h2, _, h4⟩ := layersOf_spec _ _ _ _ hq
    rw [← auxSizes_getElem? H cfg _ _ _ h1 h2]
    apply h4
    simp only [auxTotal] at hfit
    rw [List.sum_eq_foldl, List.length_drop, marker_length (by omega)]
    omega

/-! ### T3: key generation -/

/-- the key of the top tree -/
def topKey (H : HashFn) (seed : Bytes) (p0 : HssParam) : LmsKey :=
  ⟨(rootSeedAndId H seed).2, (rootSeedAndId H seed).1, p0.ots, p0.lms⟩

/-- the expanded view handed to the tree code satisfies the cache invariant for the top tree -/
def AuxOK (H : HashFn) (cfg : Config) (aux : Option Bytes) (seed : Bytes) (p0 : HssParam) : Prop :=
  AuxGood H (topKey H seed p0) (getExpandedAuxData H cfg aux seed p0.lms.h).1

/-- the top-level parameter `hssKeygen` works with -/
def keygenTop (H : HashFn) (cfg : Config) (ps : List HssParam) : Option HssParam :=
  match bytesOfParams cfg H.n ps with
  | .ok (some pb) => (paramsOfBytes cfg H.n pb).bind List.head?
  | _ => none

theorem treeNode_root (H : HashFn) (k : LmsKey) (a : Option ExpAux) (ha : AuxGood H k a) :
    ∃ a', treeNode H k 1 a = (T H k 1, a') ∧ AuxGood H k a' ∧ a'.isSome = a.isSome := by
  apply treeNode_transparent H k 1 a ha (by omega)
  have := Nat.one_lt_two_pow (n := k.lms.h + 1) (by omega)
  omega

theorem hssKeygen_transparent (H : HashFn) (cfg : Config) (ps : List HssParam) (seed : Bytes) (aux : Option Bytes)
    (hok : ∀ p0, keygenTop H cfg ps = some p0 → AuxOK H cfg aux seed p0) :
    (hssKeygen H cfg ps seed aux).map (·.result) = (hssKeygen H cfg ps seed none).map (·.result) := by
  unfold hssKeygen
  unfold keygenTop at hok
  cases hb : bytesOfParams cfg H.n ps with
  | error f => rfl
  | ok o =>
    cases o with
    | none => rfl
    | some pb =>
      simp only [hb] at hok
      simp only [bind, Except.bind]
      cases hp : paramsOfBytes cfg H.n pb with
      | none => rfl
      | some ps' =>
        dsimp only
        cases hh : ps'.head? with
        | none => rfl
        | some p0 =>
          dsimp only
          have h0 := hok p0 (by simp [hp, hh])
          unfold AuxOK topKey at h0
          obtain ⟨a', e1, _, _⟩ := treeNode_root H _ _ h0
          obtain ⟨a'', e2, _, _⟩ := treeNode_root H (topKey H seed p0) none (auxGood_none _ _)
          unfold topKey at e2
          have hn : (getExpandedAuxData H cfg none seed p0.lms.h).1 = none := rfl
          rw [hn, e1, e2]
          dsimp only
          split
          · rfl
          · split <;> rfl

/-! ### T3: LMS signing -/

theorem xor_one (x : Nat) : x ^^^ 1 = if x % 2 = 0 then x + 1 else x - 1 := by
  have h1 : (x ^^^ 1) / 2 = x / 2 := by rw [Nat.xor_div_two]; simp
  have h2 := Nat.xor_mod_two_eq_one (a := x) (b := 1)
  have h3 := Nat.div_add_mod (x ^^^ 1) 2
  have h4 := Nat.div_add_mod x 2
  split <;> omega

theorem sibling_valid {h leaf i : Nat} (h1 : 2 ^ h ≤ leaf) (h2 : leaf < 2 ^ (h + 1)) (hi : i < h) :
    1 ≤ (leaf / 2 ^ i) ^^^ 1 ∧ (leaf / 2 ^ i) ^^^ 1 < 2 ^ (h + 1) := by
  have hx2 : 2 ≤ leaf / 2 ^ i := by
    rw [Nat.le_div_iff_mul_le (Nat.two_pow_pos i)]
    calc 2 * 2 ^ i = 2 ^ (i + 1) := by rw [Nat.pow_succ]; omega
      _ ≤ 2 ^ h := Nat.pow_le_pow_right (by omega) (by omega)
      _ ≤ leaf := h1
  have hx : leaf / 2 ^ i < 2 ^ (h + 1) := Nat.lt_of_le_of_lt (Nat.div_le_self _ _) h2
  have hp : 2 ^ (h + 1) = 2 * 2 ^ h := by rw [Nat.pow_succ]; omega
  rw [xor_one]
  split <;> omega

/-- the authentication path loop of `lmsSign` -/
def authPath (H : HashFn) (k : LmsKey) (leaf : Nat) (aux : Option ExpAux) : List Bytes × Option ExpAux :=
  (List.range k.lms.h).foldl (fun (acc : List Bytes × Option ExpAux) i =>
      let (v, a) := treeNode H k ((leaf / 2 ^ i) ^^^ 1) acc.2
      (acc.1 ++ [v], a)) ([], aux)

theorem authPath_transparent (H : HashFn) (k : LmsKey) (leaf : Nat) (a : Option ExpAux) (ha : AuxGood H k a)
    (h1 : 2 ^ k.lms.h ≤ leaf) (h2 : leaf < 2 ^ (k.lms.h + 1)) :
    ∃ a', authPath H k leaf a = ((List.range k.lms.h).map fun i => T H k ((leaf / 2 ^ i) ^^^ 1), a') ∧
      AuxGood H k a' ∧ a'.isSome = a.isSome := by
  unfold authPath
  suffices h : ∀ m, m ≤ k.lms.h → ∃ a', (List.range m).foldl (fun (acc : List Bytes × Option ExpAux) i =>
      let (v, a) := treeNode H k ((leaf / 2 ^ i) ^^^ 1) acc.2
      (acc.1 ++ [v], a)) ([], a) = ((List.range m).map fun i => T H k ((leaf / 2 ^ i) ^^^ 1), a') ∧
      AuxGood H k a' ∧ a'.isSome = a.isSome from h _ (Nat.le_refl _)
  intro m
  induction m with
  | zero => intro _; exact ⟨a, rfl, ha, rfl⟩
  | succ m ih =>
    intro hm
    obtain ⟨a1, e1, g1, s1⟩ := ih (by omega)
    obtain ⟨hv1, hv2⟩ := sibling_valid h1 h2 (i := m) (by omega)
    obtain ⟨a2, e2, g2, s2⟩ := treeNode_transparent H k _ a1 g1 hv1 hv2
    refine ⟨a2, ?_, g2, by rw [s2, s1]⟩
    rw [List.range_succ, List.foldl_append, e1]
    simp only [List.foldl_cons, List.foldl_nil, e2, List.map_append, List.map_cons, List.map_nil]

theorem map_bind' {α β γ : Type} (f : β → γ) (x : P α) (g : α → P β) :
    Except.map f (x >>= g) = x >>= fun v => Except.map f (g v) := by
  cases x <;> rfl

/-- **T3 (LMS level).** Signing through a true cache: the same signature (or the same failure / panic) as without
aux data; only the cache component differs, and it satisfies the invariant again. -/
theorem lmsSign_transparent (H : HashFn) (cfg : Config) (k : LmsKey) (q : Nat) (msg C : Bytes)
    (a : Option ExpAux) (ha : AuxGood H k a) :
    ∃ a', lmsSign H cfg k q msg C a =
        (lmsSign H cfg k q msg C none).map (Option.map fun p => (p.1, a')) ∧
      AuxGood H k a' ∧ a'.isSome = a.isSome := by
  unfold lmsSign
  by_cases hq : q ≥ 2 ^ k.lms.h
  · exact ⟨a, by simp only [hq, if_true]; rfl, ha, rfl⟩
  · have h2 : 2 ^ k.lms.h + q < 2 ^ (k.lms.h + 1) := by rw [Nat.pow_succ]; omega
    obtain ⟨a1, e1, g1, s1⟩ := authPath_transparent H k (2 ^ k.lms.h + q) a ha (by omega) h2
    obtain ⟨a2, e2, _, _⟩ := authPath_transparent H k (2 ^ k.lms.h + q) none (auxGood_none H k) (by omega) h2
    unfold authPath at e1 e2
    refine ⟨a1, ?_, g1, s1⟩
    simp only [hq, if_false]
    simp only [e1, e2, map_bind']
    rfl

/-! ### T3: HSS signing -/

theorem bind_map' {α β γ : Type} (f : α → β) (x : P α) (g : β → P γ) :
    (Except.map f x >>= g) = x >>= fun v => g (f v) := by
  cases x <;> rfl

theorem map_map' {α β γ : Type} (f : α → β) (g : β → γ) (x : P α) :
    Except.map g (Except.map f x) = Except.map (g ∘ f) x := by
  cases x <;> rfl

/-- replace the aux component of the result of `expandPrivateKey` / its loop -/
def setAux (a : Option ExpAux) : Option (Expanded × Option ExpAux) → Option (Expanded × Option ExpAux) :=
  Option.map fun p => (p.1, a)

/-- once the aux view is dead (`auxLive = false`) it is passed through untouched -/
theorem go_dead (H : HashFn) (cfg : Config) (leaves : List Nat) (rest : List HssParam) :
    ∀ (i : Nat) (parent : Level) (acc : Expanded) (aux : Option ExpAux),
      expandPrivateKey.go H cfg leaves i rest parent acc aux false =
        (expandPrivateKey.go H cfg leaves i rest parent acc none false).map (setAux aux) := by
  induction rest with
  | nil => intro i parent acc aux; rfl
  | cons p rest' ih =>
    intro i parent acc aux
    rw [expandPrivateKey.go.eq_2, expandPrivateKey.go.eq_2]
    dsimp only
    simp only [Bool.false_eq_true, if_false, map_bind']
    refine bind_congr fun _ => bind_congr fun r => ?_
    cases r with
    | none => rfl
    | some p =>
      dsimp only
      rw [ih]

theorem go_live (H : HashFn) (cfg : Config) (leaves : List Nat) (rest : List HssParam)
    (i : Nat) (parent : Level) (acc : Expanded) (aux : Option ExpAux) (ha : AuxGood H parent.key aux) :
    ∃ a', expandPrivateKey.go H cfg leaves i rest parent acc aux true =
        (expandPrivateKey.go H cfg leaves i rest parent acc none true).map (setAux a') ∧
      AuxGood H parent.key a' := by
  cases rest with
  | nil => exact ⟨aux, rfl, ha⟩
  | cons p rest' =>
    rw [expandPrivateKey.go.eq_2, expandPrivateKey.go.eq_2]
    dsimp only
    simp only [if_true]
    obtain ⟨a1, e1, g1, _⟩ := lmsSign_transparent H cfg parent.key parent.q
      (lmsPublicKeyBytes
        { I := (childSeedAndId H parent.key.seed parent.key.I parent.q).2,
          seed := (childSeedAndId H parent.key.seed parent.key.I parent.q).1, ots := p.ots, lms := p.lms }
        (treeNode H
          { I := (childSeedAndId H parent.key.seed parent.key.I parent.q).2,
            seed := (childSeedAndId H parent.key.seed parent.key.I parent.q).1, ots := p.ots, lms := p.lms } 1 none).1)
      (signatureRandomizer H (childSeedAndId H parent.key.seed parent.key.I parent.q).1
        (childSeedAndId H parent.key.seed parent.key.I parent.q).2 parent.q) aux ha
    refine ⟨a1, ?_, g1⟩
    rw [e1]
    simp only [map_bind', bind_map']
    refine bind_congr fun _ => bind_congr fun r => ?_
    cases r with
    | none => rfl
    | some p =>
      dsimp only [Option.map]
      rw [go_dead, go_dead (aux := p.2), map_map']
      congr 1
      funext x
      cases x <;> rfl

theorem go_levels (H : HashFn) (cfg : Config) (leaves : List Nat) (rest : List HssParam) :
    ∀ (i : Nat) (parent : Level) (acc : Expanded) (aux : Option ExpAux) (live : Bool) (ex : Expanded) (a : Option ExpAux),
      expandPrivateKey.go H cfg leaves i rest parent acc aux live = .ok (some (ex, a)) →
      ∃ l, ex.levels = acc.levels ++ l ∧ l.length = rest.length := by
  induction rest with
  | nil =>
    intro i parent acc aux live ex a h
    rw [expandPrivateKey.go.eq_1] at h
    cases h
    exact ⟨[], by simp, rfl⟩
  | cons p rest' ih =>
    intro i parent acc aux live ex a h
    rw [expandPrivateKey.go.eq_2] at h
    dsimp only at h
    simp only [bind, Except.bind] at h
    split at h
    · cases h
    · split at h
      · cases h
      · rename_i r _
        cases r with
        | none => cases h
        | some q =>
          dsimp only at h
          obtain ⟨l, h1, h2⟩ := ih _ _ _ _ _ _ _ h
          exact ⟨_ :: l, by rw [h1]; exact List.append_assoc _ [_] l, by simp [h2]⟩

/-- the top-level parameter `hss_sign` works with -/
def signTop (H : HashFn) (cfg : Config) (k : RefKey) : Option HssParam :=
  (paramsOfBytes cfg H.n k.params).bind List.head?

theorem expandPrivateKey_transparent (H : HashFn) (cfg : Config) (k : RefKey) (aux : Option ExpAux)
    (ha : ∀ p0, signTop H cfg k = some p0 → AuxGood H (topKey H k.seed p0) aux) :
    ∃ a', expandPrivateKey H cfg k aux = (expandPrivateKey H cfg k none).map (setAux a') ∧
      ∀ p0, signTop H cfg k = some p0 → AuxGood H (topKey H k.seed p0) a' := by
  unfold expandPrivateKey
  unfold signTop at ha ⊢
  cases hp : paramsOfBytes cfg H.n k.params with
  | none => exact ⟨aux, rfl, by simp⟩
  | some ps =>
    dsimp only
    cases hh : ps.head? with
    | none => exact ⟨aux, rfl, by simp [hh]⟩
    | some p0 =>
      dsimp only
      have h0 := ha p0 (by simp [hp, hh])
      obtain ⟨a', e, g⟩ := go_live H cfg (leavesOfCounter (List.map (fun x => x.lms.h) ps) k.counter) ps.tail 1
        ⟨topKey H k.seed p0, (leavesOfCounter (List.map (fun x => x.lms.h) ps) k.counter).getD 0 0⟩
        ⟨[⟨topKey H k.seed p0, (leavesOfCounter (List.map (fun x => x.lms.h) ps) k.counter).getD 0 0⟩], [], []⟩ aux h0
      refine ⟨a', e, ?_⟩
      intro p0' hp0'
      simp [hh] at hp0'
      subst hp0'
      exact g

/-- with a single level the expanded key is just the top tree -/
theorem expandPrivateKey_single (H : HashFn) (cfg : Config) (k : RefKey) (aux : Option ExpAux)
    (ex : Expanded) (a : Option ExpAux) (h : expandPrivateKey H cfg k aux = .ok (some (ex, a)))
    (hL : ex.levels.length = 1) (bottom : Level) (hb : ex.levels.getLast? = some bottom) :
    ∃ p0, signTop H cfg k = some p0 ∧ bottom.key = topKey H k.seed p0 := by
  unfold expandPrivateKey at h
  unfold signTop
  cases hp : paramsOfBytes cfg H.n k.params with
  | none => simp [hp] at h; cases h
  | some ps =>
    simp only [hp] at h
    cases hh : ps.head? with
    | none => simp [hh] at h; cases h
    | some p0 =>
      simp only [hh] at h
      obtain ⟨l, h1, h2⟩ := go_levels _ _ _ _ _ _ _ _ _ _ _ h
      refine ⟨p0, by simp [hh], ?_⟩
      rw [h1] at hL hb
      simp only [List.length_append, List.length_cons, List.length_nil] at hL
      have : l = [] := List.length_eq_zero_iff.1 (by omega)
      subst this
      simp at hb
      rw [← hb]
      rfl


/-- what the caller of `signPrepare` can observe apart from the aux buffer -/
def preparedCore : Prepared → Option (List Nat × Bytes)
  | .failed _ _ => none
  | .ready hs sig _ _ => some (hs, sig)

theorem ok_bind' {α β : Type} (x : α) (g : α → P β) : ((Except.ok x : P α) >>= g) = g x := rfl

theorem signPrepare_transparent (H : HashFn) (cfg : Config) (msg : Bytes) (k : RefKey) (aux : Option Bytes)
    (hok : ∀ p0, signTop H cfg k = some p0 → AuxOK H cfg aux k.seed p0) :
    (signPrepare H cfg msg k aux).map preparedCore = (signPrepare H cfg msg k none).map preparedCore := by
  unfold signPrepare
  cases hp : paramsOfBytes cfg H.n k.params with
  | none => rfl
  | some ps =>
    dsimp only
    cases hh : ps.head? with
    | none => rfl
    | some p0 =>
      dsimp only
      have hst : signTop H cfg k = some p0 := by simp [signTop, hp, hh]
      have h0 : ∀ p0', signTop H cfg k = some p0' →
          AuxGood H (topKey H k.seed p0') (getExpandedAuxData H cfg aux k.seed p0.lms.h).1 := by
        intro p0' h'
        rw [hst] at h'; cases h'
        exact hok p0 hst
      obtain ⟨a1, e1, g1⟩ := expandPrivateKey_transparent H cfg k _ h0
      obtain ⟨a1', e1', g1'⟩ := expandPrivateKey_transparent H cfg k none (fun _ _ => auxGood_none _ _)
      have hn : (getExpandedAuxData H cfg none k.seed p0.lms.h).1 = none := rfl
      rw [hn, e1]
      simp only [map_bind', bind_map']
      cases hX : expandPrivateKey H cfg k none with
      | error f => rfl
      | ok v =>
        cases v with
        | none => rfl
        | some pr =>
          obtain ⟨ex, e1n⟩ := pr
          have he1n : e1n = a1' := by
            rw [hX] at e1'
            simp only [Except.map, setAux, Option.map, Except.ok.injEq, Option.some.injEq, Prod.mk.injEq, true_and] at e1'
            exact e1'
          subst he1n
          rw [ok_bind', ok_bind']
          simp only [setAux, Option.map]
          cases hb : ex.levels.getLast? with
          | none => rfl
          | some bottom =>
            dsimp only
            by_cases hL : (ex.levels.length == 1) = true
            · simp only [hL, if_true]
              obtain ⟨p0', hp0', hkey⟩ := expandPrivateKey_single H cfg k none ex e1n hX (by simpa using hL) bottom hb
              rw [hst] at hp0'; cases hp0'
              obtain ⟨a2, e2, _, _⟩ := lmsSign_transparent H cfg bottom.key bottom.q msg
                (signatureRandomizer H bottom.key.seed bottom.key.I bottom.q) a1 (hkey ▸ g1 p0 hst)
              obtain ⟨a2', e2', _, _⟩ := lmsSign_transparent H cfg bottom.key bottom.q msg
                (signatureRandomizer H bottom.key.seed bottom.key.I bottom.q) e1n (hkey ▸ g1' p0 hst)
              rw [e2, e2']
              simp only [map_bind', bind_map']
              cases hS : lmsSign H cfg bottom.key bottom.q msg
                  (signatureRandomizer H bottom.key.seed bottom.key.I bottom.q) none with
              | error f => rfl
              | ok r =>
                cases r with
                | none => rfl
                | some pr =>
                  rw [ok_bind', ok_bind']
                  dsimp only [Option.map]
                  simp only [map_bind']
                  rfl
            · have hL' : (ex.levels.length == 1) = false := by simpa using hL
              simp only [hL', Bool.false_eq_true, if_false]
              simp only [map_bind']
              cases hS : lmsSign H cfg bottom.key bottom.q msg
                  (signatureRandomizer H bottom.key.seed bottom.key.I bottom.q) none with
              | error f => rfl
              | ok r =>
                cases r with
                | none => rfl
                | some pr =>
                  rw [ok_bind', ok_bind']
                  dsimp only [Option.map]
                  simp only [map_bind']
                  rfl

/-- what the caller of `hss_sign` gets back apart from the aux buffer: the signature (or error) and the successor
key handed to the update callback -/
def outcomeCore (o : SignOutcome) : Option Bytes × List Bytes := (o.result, o.trace)

theorem signCommit_core (n : Nat) (cfg : Config) (cb : Bytes → Bool) (k : RefKey) (p p' : Prepared)
    (h : preparedCore p = preparedCore p') :
    outcomeCore (signCommit n cfg cb k p) = outcomeCore (signCommit n cfg cb k p') := by
  cases p with
  | failed a r =>
    cases p' with
    | failed a' r' => rfl
    | ready hs' sig' a' r' => simp [preparedCore] at h
  | ready hs sig a r =>
    cases p' with
    | failed a' r' => simp [preparedCore] at h
    | ready hs' sig' a' r' =>
      simp only [preparedCore, Option.some.injEq, Prod.mk.injEq] at h
      obtain ⟨rfl, rfl⟩ := h
      unfold signCommit outcomeCore
      dsimp only
      split
      · rfl
      · split <;> rfl

/-- **T3 (HSS signing).** -/
theorem hssSign_transparent (H : HashFn) (cfg : Config) (msg sk : Bytes) (cb : Bytes → Bool) (aux : Option Bytes)
    (hok : ∀ k, RefKey.parse H.n sk = some k → ∀ p0, signTop H cfg k = some p0 → AuxOK H cfg aux k.seed p0) :
    (hssSign H cfg msg sk cb aux).map outcomeCore = (hssSign H cfg msg sk cb none).map outcomeCore := by
  unfold hssSign
  cases hk : RefKey.parse H.n sk with
  | none => rfl
  | some k =>
    dsimp only
    have h := signPrepare_transparent H cfg msg k aux (hok k hk)
    cases h1 : signPrepare H cfg msg k aux with
    | error f =>
      cases h2 : signPrepare H cfg msg k none with
      | error f' => rw [h1, h2] at h; cases h; rfl
      | ok p' => rw [h1, h2] at h; cases h
    | ok p =>
      cases h2 : signPrepare H cfg msg k none with
      | error f' => rw [h1, h2] at h; cases h
      | ok p' =>
        rw [h1, h2] at h
        simp only [Except.map, Except.ok.injEq] at h
        simp only [bind, Except.bind, pure, Except.pure, Except.map]
        rw [signCommit_core H.n cfg cb k p p' h]


/-! ### T2, second half: the levels announced by a fresh level word fit into the fresh buffer -/

theorem foldl_be (k v a : Nat) :
    (Bytes.be k v).foldl (fun a x => a * 256 + x.toNat) a = a * 256 ^ k + v % 256 ^ k := by
  induction k generalizing a with
  | zero => simp [Bytes.be, Nat.mod_one]
  | succ k ih =>
    simp only [Bytes.be, List.foldl_cons, ih, UInt8.toNat_ofNat']
    have h1 : v / 256 ^ k % 256 % 2 ^ 8 = v / 256 ^ k % 256 := Nat.mod_eq_of_lt (by omega)
    rw [h1, Nat.mod_pow_succ, Nat.pow_succ, Nat.add_mul, Nat.mul_assoc, Nat.mul_comm 256 (256 ^ k),
      Nat.mul_comm (v / 256 ^ k % 256) (256 ^ k)]
    omega

theorem toNat_u32be (v : Nat) : Bytes.toNat (Bytes.u32be v) = v % 2 ^ 32 := by
  unfold Bytes.toNat Bytes.u32be
  rw [foldl_be]
  simp

/-- size of level `i` as announced by the level word `x` -/
def lvSize (n x i : Nat) : Nat := if (x >>> i) &&& 1 == 0 then 0 else n <<< i

theorem lvSize_testBit (n x i : Nat) : lvSize n x i = if x.testBit i then n * 2 ^ i else 0 := by
  unfold lvSize
  rw [Nat.and_one_is_mod, Nat.shiftRight_eq_div_pow, Nat.testBit_eq_decide_div_mod_eq, Nat.shiftLeft_eq]
  have := Nat.mod_two_eq_zero_or_one (x / 2 ^ i)
  rcases this with h | h <;> simp [h]

def lvSum (n K x : Nat) : Nat := ((List.range K).map (lvSize n x)).sum

theorem auxTotal_eq (H : HashFn) (cfg : Config) (x : Nat) :
    auxTotal H cfg x = 4 + lvSum H.n (cfg.maxTreeHeight + 1) x := by
  unfold auxTotal auxSizes lvSum
  rw [← List.sum_eq_foldl]
  rfl

theorem lvSum_succ (n K x : Nat) : lvSum n (K + 1) x = lvSum n K x + lvSize n x K := by
  simp [lvSum, List.range_succ, List.sum_append]

theorem lvSum_or (n K a b : Nat) : lvSum n K (a ||| b) ≤ lvSum n K a + lvSum n K b := by
  induction K with
  | zero => simp [lvSum]
  | succ K ih =>
    rw [lvSum_succ, lvSum_succ, lvSum_succ]
    have : lvSize n (a ||| b) K ≤ lvSize n a K + lvSize n b K := by
      rw [lvSize_testBit, lvSize_testBit, lvSize_testBit, Nat.testBit_or]
      cases a.testBit K <;> cases b.testBit K <;> simp
    omega

theorem lvSum_two_pow (n K l : Nat) : lvSum n K (2 ^ l) = if l < K then n * 2 ^ l else 0 := by
  induction K with
  | zero => simp [lvSum]
  | succ K ih =>
    rw [lvSum_succ, ih, lvSize_testBit, Nat.testBit_two_pow]
    by_cases h1 : l < K
    · have : ¬ l = K := by omega
      simp [h1, this]; omega
    · by_cases h2 : l = K
      · subst h2; simp
      · have : ¬ l < K + 1 := by omega
        simp [h1, h2, this]

theorem lvSum_mod (n K x : Nat) (hK : K ≤ 32) : lvSum n K (x % 2 ^ 32) = lvSum n K x := by
  unfold lvSum
  congr 1
  apply List.map_congr_left
  intro i hi
  have : i < 32 := by have := List.mem_range.1 hi; omega
  rw [lvSize_testBit, lvSize_testBit, Nat.testBit_mod_two_pow]
  simp [this]

/-- the greedy loop of `hss_optimal_aux_level`: what is spent on levels is taken off the remainder -/
theorem optimal_fold (n K : Nat) (hK : K ≤ 31) (levels : List Nat) (rem0 lvl0 : Nat) :
    let r := levels.foldl (fun (acc : Nat × Nat) level =>
      let len := n <<< level
      if acc.1 ≥ len then (acc.1 - len, acc.2 ||| 0x80000000 ||| (1 <<< level)) else acc) (rem0, lvl0)
    r.1 + lvSum n K r.2 ≤ rem0 + lvSum n K lvl0 := by
  induction levels generalizing rem0 lvl0 with
  | nil => simp
  | cons l t ih =>
    simp only [List.foldl_cons]
    by_cases h : rem0 ≥ n <<< l
    · simp only [h, if_true]
      refine Nat.le_trans (ih _ _) ?_
      have h1 := lvSum_or n K (lvl0 ||| 0x80000000) (1 <<< l)
      have h2 := lvSum_or n K lvl0 0x80000000
      have h3 : lvSum n K 0x80000000 = 0 := by
        have : (0x80000000 : Nat) = 2 ^ 31 := by decide
        rw [this, lvSum_two_pow]; simp; omega
      have h4 : lvSum n K (1 <<< l) ≤ n <<< l := by
        rw [Nat.one_shiftLeft, lvSum_two_pow, Nat.shiftLeft_eq]; split <;> omega
      omega
    · simp only [h, if_false]
      exact ih _ _

theorem optimal_spec (n h0 M K : Nat) (hK : K ≤ 31) :
    (hss_optimal_aux_level n h0 M).2 ≤ max M 1 ∧
    ((hss_optimal_aux_level n h0 M).1 ≠ 0 → 4 + lvSum n K (hss_optimal_aux_level n h0 M).1 ≤ M) := by
  unfold hss_optimal_aux_level
  by_cases h : M < AUX_DATA_HASHES + n
  · simp only [h, if_true]
    exact ⟨by omega, by simp⟩
  · simp only [h, if_false]
    have hf := optimal_fold n K hK ((List.range ((h0 + 1) / MIN_SUBTREE)).map fun k => h0 - MIN_SUBTREE * k)
      (M - (AUX_DATA_HASHES + n)) 0
    have h0' : lvSum n K 0 = 0 := by
      clear hf hK
      induction K with
      | zero => simp [lvSum]
      | succ K ih => rw [lvSum_succ, ih]; simp [lvSize]
    simp only [AUX_DATA_HASHES] at h hf ⊢
    refine ⟨by omega, fun _ => by omega⟩

theorem marker_zero_unused (L : Nat) : hss_is_aux_data_used (hss_store_aux_marker (Bytes.zeros L) 0) = false := by
  simp [hss_is_aux_data_used, hss_store_aux_marker, Bytes.patch, AUX_DATA_MARKER, NO_AUX_DATA]

theorem get_len_le (n h0 M : Nat) (hM : 1 ≤ M) : hss_get_aux_data_len n h0 M ≤ M := by
  unfold hss_get_aux_data_len
  have := (optimal_spec n h0 M 0 (by omega)).1
  dsimp only
  split <;> omega

/-- **T2 (complete).** A non-empty buffer whose first byte is 0 ("no aux data yet"), of any length and with any
content behind the marker, is expanded into a view that satisfies the cache invariant (all slots empty). -/
theorem fresh_auxOK (H : HashFn) (cfg : Config) (hK : cfg.maxTreeHeight ≤ 30) (buf : Bytes)
    (hne : buf.isEmpty = false) (hun : hss_is_aux_data_used buf = false) (seed : Bytes) (p0 : HssParam) :
    AuxOK H cfg (some buf) seed p0 := by
  unfold AuxOK getExpandedAuxData
  simp only [hne, hun, Bool.false_eq_true, if_false]
  intro e he
  apply fresh_cacheTrue H cfg _ _ _ e he
  have hlen : 1 ≤ buf.length := by
    cases buf with
    | nil => simp at hne
    | cons x t => simp
  have hle := get_len_le H.n p0.lms.h buf.length hlen
  rw [Nat.min_eq_left hle] at he ⊢
  generalize hss_get_aux_data_len H.n p0.lms.h buf.length = auxLen at he hle ⊢
  obtain ⟨_, hspec⟩ := optimal_spec H.n p0.lms.h auxLen (cfg.maxTreeHeight + 1) (by omega)
  generalize (hss_optimal_aux_level H.n p0.lms.h auxLen).1 = lvl at he hspec ⊢
  by_cases hl : lvl = 0
  · subst hl
    have hu := (expand_some he).1
    rw [marker_zero_unused] at hu
    cases hu
  · have hfit := hspec hl
    obtain ⟨_, lw, hlw, _, rfl⟩ := expand_some he
    dsimp only
    obtain ⟨_, hlw', _⟩ := Lemmas.readAt_some hlw
    have hm : hss_store_aux_marker (Bytes.zeros auxLen) lvl = Bytes.patch (Bytes.zeros auxLen) 0 (Bytes.u32be lvl) := by
      unfold hss_store_aux_marker
      simp [hl]
    have h4 : (Bytes.u32be lvl).length = 4 := by simp [Bytes.u32be, Bytes.be]
    have hs := slice_patch_same (Bytes.zeros auxLen) 0 (Bytes.u32be lvl) (by simp [Bytes.zeros, h4]; omega)
    rw [h4] at hs
    rw [hlw', hm, hs, toNat_u32be, auxTotal_eq, lvSum_mod _ _ _ (by omega)]
    exact hfit

end Lemmas.AuxCache

/-
No-fault (totality) lemmas for the signing / key generation path: every `P.require`, index and capacity site of
`lm_ots::signing`, `lms::signing`, `hss::definitions`, `hss::signing` and `hss/reference_impl_private_key.rs`
holds for whatever `CompressedParameterSet::to` accepts under a well-formed build configuration.
Core Lean only.
-/
import HbsLms.Lemmas.Limits

namespace Lemmas

open Impl Generated

/-! ### generic helpers -/

theorem mapM_ok {α β : Type} (f : α → P β) (g : α → β) (l : List α) (h : ∀ x ∈ l, f x = .ok (g x)) :
    l.mapM f = .ok (l.map g) := by
  induction l with
  | nil => simp [pure, Except.pure]
  | cons a t ih =>
    have h1 := h a (by simp)
    have h2 := ih (fun x hx => h x (by simp [hx]))
    simp [List.mapM_cons, h1, h2, bind, Except.bind, pure, Except.pure]

theorem flatten_length_le (n : Nat) (l : List Bytes) (h : ∀ x ∈ l, x.length ≤ n) :
    l.flatten.length ≤ l.length * n := by
  induction l with
  | nil => simp
  | cons a t ih =>
    have h1 := h a (by simp)
    have h2 := ih (fun x hx => h x (by simp [hx]))
    simp only [List.flatten_cons, List.length_append, List.length_cons, Nat.succ_mul]
    omega

theorem u32be_length (v : Nat) : (Bytes.u32be v).length = 4 := be_length 4 v

/-! ### LM-OTS signing -/

theorem digits_ok {n : Nat} {p : LmotsParam} (hg : OtsRowGood n p = true) (Q : Bytes) (hl : Q.length = n) :
    ∃ ds, digits n p Q = .ok ds := by
  obtain ⟨c, hc⟩ := append_checksum_ok hg Q hl
  unfold digits
  simp only [hc, bind, Except.bind]
  refine ⟨_, mapM_ok _ (fun i => coefVal (Q ++ Bytes.u16be c) i p.w) _ ?_⟩
  intro i hi
  apply coef_eq
  rw [List.length_append, hl, u16be_length]
  exact all_digit_index hg (List.mem_range.mp hi)

theorem chainFrom_length (H : HashFn) (I qb : Bytes) (i : Nat) : ∀ (cnt j : Nat) (x : Bytes),
    x.length ≤ H.n → (chainFrom H I qb i cnt j x).length ≤ H.n := by
  intro cnt
  induction cnt with
  | zero => intro j x hx; simpa [chainFrom] using hx
  | succ c ih =>
    intro j x _
    simp only [chainFrom]
    exact ih _ _ (by simp [chainStep, H.len_h])

/-- `LmotsSignature::sign` + serialisation never faults for a table row; the result fits `lmots_signature_length` -/
theorem lmotsSign_ok (H : HashFn) (I qb seed : Bytes) (prm : LmotsParam) (C msg : Bytes)
    (hg : OtsRowGood H.n prm = true) (hC : C.length = H.n) :
    ∃ o, lmotsSign H I qb seed prm C msg = .ok o ∧ o.length ≤ lmots_signature_length H.n prm.p := by
  obtain ⟨ds, hds⟩ := digits_ok hg (H.h (I ++ qb ++ D_MESG ++ C ++ msg)) (H.len_h _)
  unfold lmotsSign
  simp only [hds, bind, Except.bind, P.require, hC, beq_self_eq_true, if_true, pure, Except.pure]
  refine ⟨_, rfl, ?_⟩
  simp only [List.length_append, u32be_length, hC, lmots_signature_length]
  have := flatten_length_le H.n
    ((List.range prm.p).map fun i => chain H I qb i ((lmotsPrivateKey H I qb seed prm).getD i []) 0 (ds.getD i 0))
    (by
      intro x hx
      obtain ⟨i, hi, rfl⟩ := List.mem_map.mp hx
      unfold chain
      apply chainFrom_length
      have hi' : i < prm.p := List.mem_range.mp hi
      simp [lmotsPrivateKey, List.getD_eq_getElem?_getD, hi', H.len_h])
  simp only [List.length_map, List.length_range] at this
  rw [Nat.mul_comm] at this
  omega

/-! ### tree nodes -/

theorem extract_length (n : Nat) (e : ExpAux) (r : Nat) (v : Bytes) (h : hss_extract_aux_data n e r = some v) :
    v.length ≤ n := by
  simp only [hss_extract_aux_data] at h
  split at h
  · simp at h
  · split at h
    · simp at h
    · simp only [Option.some.injEq] at h
      subst h
      simp [Bytes.slice, List.length_take]
      omega

/-- whatever the aux cache contains, a tree node handed out by `get_tree_element` has at most `n` bytes -/
theorem getTreeElement_length (H : HashFn) (k : LmsKey) (fuel r : Nat) (aux : Option ExpAux) :
    (getTreeElement H k fuel r aux).1.length ≤ H.n := by
  unfold getTreeElement
  split
  · rename_i v hv
    cases aux with
    | none => simp at hv
    | some e => exact extract_length _ _ _ _ (by simpa using hv)
  · simp only []
    split
    · simp [leafNode, H.len_h]
    · split
      · simp
      · simp [H.len_h]

theorem treeNode_length (H : HashFn) (k : LmsKey) (r : Nat) (aux : Option ExpAux) :
    (treeNode H k r aux).1.length ≤ H.n := getTreeElement_length H k _ r aux

/-- without an aux buffer no aux view appears -/
theorem getTreeElement_none (H : HashFn) (k : LmsKey) : ∀ (fuel r : Nat), (getTreeElement H k fuel r none).2 = none := by
  intro fuel
  induction fuel with
  | zero =>
    intro r
    unfold getTreeElement
    simp only [Option.bind_none]
    split <;> rfl
  | succ f ih =>
    intro r
    unfold getTreeElement
    simp only [Option.bind_none]
    split
    · rfl
    · have h1 := ih (2 * r)
      generalize getTreeElement H k f (2 * r) none = t1 at h1
      obtain ⟨l, a1⟩ := t1
      simp only [] at h1
      subst h1
      have h2 := ih (2 * r + 1)
      generalize getTreeElement H k f (2 * r + 1) none = t2 at h2
      obtain ⟨rr, a2⟩ := t2
      simp only [] at h2
      subst h2
      rfl

theorem treeNode_none (H : HashFn) (k : LmsKey) (r : Nat) : (treeNode H k r none).2 = none :=
  getTreeElement_none H k _ r

theorem path_foldl_length (H : HashFn) (k : LmsKey) (leaf : Nat) : ∀ (l : List Nat) (acc : List Bytes × Option ExpAux),
    (∀ x ∈ acc.1, x.length ≤ H.n) →
    (∀ x ∈ (l.foldl (fun (acc : List Bytes × Option ExpAux) i =>
        match treeNode H k ((leaf / 2 ^ i) ^^^ 1) acc.2 with
        | (v, a) => (acc.1 ++ [v], a)) acc).1, x.length ≤ H.n) ∧
    (l.foldl (fun (acc : List Bytes × Option ExpAux) i =>
        match treeNode H k ((leaf / 2 ^ i) ^^^ 1) acc.2 with
        | (v, a) => (acc.1 ++ [v], a)) acc).1.length = acc.1.length + l.length := by
  intro l
  induction l with
  | nil => intro acc h; exact ⟨h, rfl⟩
  | cons i t ih =>
    intro acc h
    simp only [List.foldl_cons]
    have := ih (match treeNode H k ((leaf / 2 ^ i) ^^^ 1) acc.2 with | (v, a) => (acc.1 ++ [v], a)) (by
      intro x hx
      simp only [List.mem_append, List.mem_singleton] at hx
      rcases hx with hx | rfl
      · exact h x hx
      · exact treeNode_length H k _ _)
    refine ⟨this.1, ?_⟩
    rw [this.2]
    simp [Nat.add_assoc, Nat.add_comm 1]

/-! ### LMS signing -/

/-- the compile-time capacities suffice for this (LM-OTS, LMS) pair -/
structure ParamCaps (cfg : Config) (n : Nat) (ots : LmotsParam) (lms : LmsParam) : Prop where
  row : IsOtsRow n ots
  chains : ots.p ≤ cfg.maxChains
  height : lms.h ≤ cfg.maxTreeHeight
  sigLen : lms_signature_length n ots.p lms.h ≤ cfg.maxLmsSigLen

theorem paramCaps_of_levelOk {cfg : Config} (hwf : cfg.wellFormed = true) {n i : Nat} {p : HssParam}
    (hok : LevelOk cfg n i p) : ParamCaps cfg n p.ots p.lms := by
  have h := level_caps hwf hok
  exact ⟨hok.ots, h.2.2.2.2.2.2.1, h.2.2.2.2.2.2.2.1, h.2.2.2.2.2.2.2.2.2.2⟩

theorem paramCaps_of_mem {cfg : Config} (hwf : cfg.wellFormed = true) {n : Nat} {ps : List HssParam}
    (hok : ParamsOk cfg n ps) {p : HssParam} (hp : p ∈ ps) : ParamCaps cfg n p.ots p.lms := by
  obtain ⟨i, hi, rfl⟩ := List.getElem_of_mem hp
  exact paramCaps_of_levelOk hwf (hok.level i hi)

/-- `LmsSignature::sign` + serialisation never faults within the capacities; the result fits `lms_signature_length` -/
theorem lmsSign_ok (H : HashFn) (cfg : Config) (k : LmsKey) (q : Nat) (msg C : Bytes) (aux : Option ExpAux)
    (hc : ParamCaps cfg H.n k.ots k.lms) (hC : C.length = H.n) :
    ∃ r, lmsSign H cfg k q msg C aux = .ok r ∧
      ∀ sig a, r = some (sig, a) → sig.length ≤ lms_signature_length H.n k.ots.p k.lms.h := by
  unfold lmsSign
  split
  · exact ⟨none, rfl, by simp⟩
  · obtain ⟨o, ho, hol⟩ := lmotsSign_ok H k.I (Bytes.u32be q) k.seed k.ots C msg (ots_row_good' hc.row) hC
    have hpath := path_foldl_length H k (2 ^ k.lms.h + q) (List.range k.lms.h) ([], aux) (by simp)
    have hlen : (Bytes.u32be q ++ o ++ Bytes.u32be k.lms.typeId ++
        ((List.range k.lms.h).foldl (fun (acc : List Bytes × Option ExpAux) i =>
          match treeNode H k (((2 ^ k.lms.h + q) / 2 ^ i) ^^^ 1) acc.2 with
          | (v, a) => (acc.1 ++ [v], a)) ([], aux)).1.flatten).length ≤ lms_signature_length H.n k.ots.p k.lms.h := by
      have := flatten_length_le H.n _ hpath.1
      rw [hpath.2] at this
      simp only [List.length_nil, List.length_range, Nat.zero_add] at this
      simp only [List.length_append, u32be_length, lms_signature_length]
      rw [Nat.mul_comm] at this
      omega
    have hcap := Nat.le_trans hlen hc.sigLen
    simp only [P.require, hc.chains, hc.height, decide_true, if_true, ho, bind, Except.bind, hcap, pure, Except.pure]
    exact ⟨_, rfl, fun sig a h => by simp only [Option.some.injEq, Prod.mk.injEq] at h; rw [← h.1]; exact hlen⟩

/-! ### private key expansion (`HssPrivateKey::from`) -/

theorem child_I_length (H : HashFn) (seed I : Bytes) (q : Nat) : (childSeedAndId H seed I q).2.length ≤ 16 := by
  simp [childSeedAndId, ILEN, List.length_take]
  omega

theorem root_I_length (H : HashFn) (seed : Bytes) : (rootSeedAndId H seed).2.length ≤ 16 := by
  simp [rootSeedAndId, ILEN, List.length_take]
  omega

theorem signatureRandomizer_length (H : HashFn) (seed I : Bytes) (q : Nat) :
    (signatureRandomizer H seed I q).length = H.n := by
  simp [signatureRandomizer, seedDerive, H.len_h]

theorem pkb_length (k : LmsKey) (root : Bytes) :
    (lmsPublicKeyBytes k root).length = 8 + k.I.length + root.length := by
  simp [lmsPublicKeyBytes, u32be_length]; omega

theorem pkb_le {n : Nat} (k : LmsKey) (root : Bytes) (hI : k.I.length ≤ 16) (hr : root.length ≤ n) (hn : n ≤ 32) :
    (lmsPublicKeyBytes k root).length ≤ Config.maxLmsPkLen ∧
    (lmsPublicKeyBytes k root).length ≤ lms_public_key_length n := by
  rw [pkb_length]
  simp only [Config.maxLmsPkLen, lms_public_key_length, ILEN, MAX_HASH_SIZE]
  omega

/-- signature lengths of all levels but the last of `pp :: rest` -/
def restBudget (n : Nat) : HssParam → List HssParam → Nat
  | _, [] => 0
  | pp, p :: rest => lms_signature_length n pp.ots.p pp.lms.h + restBudget n p rest

def lastParam : HssParam → List HssParam → HssParam
  | pp, [] => pp
  | _, p :: rest => lastParam p rest

theorem sum_eq_budget (n : Nat) : ∀ (rest : List HssParam) (pp : HssParam),
    ((pp :: rest).map fun p => lms_signature_length n p.ots.p p.lms.h).sum =
      restBudget n pp rest + lms_signature_length n (lastParam pp rest).ots.p (lastParam pp rest).lms.h := by
  intro rest
  induction rest with
  | nil => intro pp; simp [restBudget, lastParam]
  | cons p rest ih =>
    intro pp
    have := ih p
    simp only [List.map_cons, List.sum_cons, restBudget, lastParam] at this ⊢
    omega

/-- invariant of the expansion loop: `S` bounds the total length of the signatures collected so far -/
structure ExpInv (cfg : Config) (n S : Nat) (parent : Level) (acc : Expanded) : Prop where
  last : acc.levels.getLast? = some parent
  nsigs : acc.sigs.length + 1 = acc.levels.length
  npubs : acc.pubs.length = acc.sigs.length
  sigCap : ∀ s ∈ acc.sigs, s.length ≤ cfg.maxLmsSigLen
  pubCap : ∀ b ∈ acc.pubs, b.length ≤ lms_public_key_length n
  sum : (acc.sigs.map List.length).sum ≤ S
  caps : ParamCaps cfg n parent.key.ots parent.key.lms

theorem expand_go_ok (H : HashFn) (cfg : Config) (leaves : List Nat) (hn : H.n ≤ 32) :
    ∀ (rest : List HssParam) (i : Nat) (parent : Level) (acc : Expanded) (aux : Option ExpAux) (live : Bool) (S : Nat),
      ExpInv cfg H.n S parent acc → (∀ p ∈ rest, ParamCaps cfg H.n p.ots p.lms) →
      ∃ r, expandPrivateKey.go H cfg leaves i rest parent acc aux live = .ok r ∧
        ∀ ex a, r = some (ex, a) → ∃ bottom,
          ExpInv cfg H.n (S + restBudget H.n ⟨parent.key.ots, parent.key.lms⟩ rest) bottom ex ∧
          (⟨bottom.key.ots, bottom.key.lms⟩ : HssParam) = lastParam ⟨parent.key.ots, parent.key.lms⟩ rest ∧
          ex.levels.length = acc.levels.length + rest.length := by
  intro rest
  induction rest with
  | nil =>
    intro i parent acc aux live S hinv _
    refine ⟨some (acc, aux), by simp [expandPrivateKey.go, pure, Except.pure], ?_⟩
    intro ex a h
    simp only [Option.some.injEq, Prod.mk.injEq] at h
    obtain ⟨rfl, rfl⟩ := h
    exact ⟨parent, by simpa [restBudget] using hinv, rfl, rfl⟩
  | cons p rest ih =>
    intro i parent acc aux live S hinv hrest
    simp only [expandPrivateKey.go]
    have hI := child_I_length H parent.key.seed parent.key.I parent.q
    generalize childSeedAndId H parent.key.seed parent.key.I parent.q = cs at hI ⊢
    have hroot := treeNode_length H ⟨cs.2, cs.1, p.ots, p.lms⟩ 1 none
    generalize (treeNode H ⟨cs.2, cs.1, p.ots, p.lms⟩ 1 none).1 = root at hroot ⊢
    have hpk := pkb_le (n := H.n) ⟨cs.2, cs.1, p.ots, p.lms⟩ root hI hroot hn
    generalize lmsPublicKeyBytes ⟨cs.2, cs.1, p.ots, p.lms⟩ root = pkb at hpk ⊢
    obtain ⟨r, hr, hrl⟩ := lmsSign_ok H cfg parent.key parent.q pkb (signatureRandomizer H cs.1 cs.2 parent.q)
      (if live = true then aux else none) hinv.caps (signatureRandomizer_length _ _ _ _)
    simp only [P.require, hpk.1, decide_true, if_true, bind, Except.bind, hr]
    cases r with
    | none => exact ⟨none, rfl, by simp⟩
    | some sa =>
      obtain ⟨sig, aux'⟩ := sa
      have hsl := hrl sig aux' rfl
      have hpcap := hrest p (by simp)
      have hinv' : ExpInv cfg H.n (S + lms_signature_length H.n parent.key.ots.p parent.key.lms.h)
          ⟨⟨cs.2, cs.1, p.ots, p.lms⟩, leaves.getD i 0⟩
          ⟨acc.levels ++ [⟨⟨cs.2, cs.1, p.ots, p.lms⟩, leaves.getD i 0⟩], acc.pubs ++ [pkb], acc.sigs ++ [sig]⟩ := by
        refine ⟨by simp, by simp [hinv.nsigs], by simp [hinv.npubs], ?_, ?_, ?_, hpcap⟩
        · intro s hs
          rcases List.mem_append.mp hs with hs | hs
          · exact hinv.sigCap s hs
          · simp only [List.mem_singleton] at hs
            subst hs
            exact Nat.le_trans hsl hinv.caps.sigLen
        · intro b hb
          rcases List.mem_append.mp hb with hb | hb
          · exact hinv.pubCap b hb
          · simp only [List.mem_singleton] at hb
            subst hb
            exact hpk.2
        · have := hinv.sum
          simp only [List.map_append, List.sum_append, List.map_cons, List.map_nil, List.sum_cons, List.sum_nil]
          omega
      obtain ⟨r', hr', hrl'⟩ := ih (i + 1) _ _ (if live = true then aux' else aux) false _ hinv'
        (fun q hq => hrest q (by simp [hq]))
      refine ⟨r', hr', ?_⟩
      intro ex a hex
      obtain ⟨bottom, hb1, hb2, hb3⟩ := hrl' ex a hex
      refine ⟨bottom, ?_, ?_, ?_⟩
      · simpa [restBudget, Nat.add_assoc] using hb1
      · simpa [lastParam] using hb2
      · rw [hb3]; simp; omega

/-- `HssPrivateKey::from` never faults for an accepted parameter list; the collected signatures and public keys
respect the capacities and their total length is bounded by the parameter list's signature-length formula -/
theorem expandPrivateKey_ok (H : HashFn) (cfg : Config) (hwf : cfg.wellFormed = true) (k : RefKey)
    (aux : Option ExpAux) :
    ∃ r, expandPrivateKey H cfg k aux = .ok r ∧
      ∀ ex a, r = some (ex, a) → ∃ ps p0 rest bottom, paramsOfBytes cfg H.n k.params = some ps ∧ ps = p0 :: rest ∧
        ExpInv cfg H.n (restBudget H.n p0 rest) bottom ex ∧
        (⟨bottom.key.ots, bottom.key.lms⟩ : HssParam) = lastParam p0 rest ∧
        ex.levels.length = ps.length := by
  unfold expandPrivateKey
  cases hps : paramsOfBytes cfg H.n k.params with
  | none => exact ⟨none, rfl, by simp⟩
  | some ps =>
    have hok := paramsOfBytes_ok hps
    have hn : H.n ≤ 32 := by rcases params_n hok with h | h | h <;> omega
    cases ps with
    | nil => exact absurd rfl hok.ne
    | cons p0 rest =>
      simp only [List.head?_cons, List.tail_cons]
      have hcap0 : ParamCaps cfg H.n p0.ots p0.lms := paramCaps_of_mem hwf hok (by simp)
      obtain ⟨r, hr, hrl⟩ := expand_go_ok H cfg
        (leavesOfCounter (List.map (fun x => x.lms.h) (p0 :: rest)) k.counter) hn rest 1
        ⟨⟨(rootSeedAndId H k.seed).2, (rootSeedAndId H k.seed).1, p0.ots, p0.lms⟩,
          (leavesOfCounter (List.map (fun x => x.lms.h) (p0 :: rest)) k.counter).getD 0 0⟩
        ⟨[⟨⟨(rootSeedAndId H k.seed).2, (rootSeedAndId H k.seed).1, p0.ots, p0.lms⟩,
          (leavesOfCounter (List.map (fun x => x.lms.h) (p0 :: rest)) k.counter).getD 0 0⟩], [], []⟩ aux true 0
        ⟨by simp, by simp, by simp, by simp, by simp, by simp, hcap0⟩
        (fun p hp => paramCaps_of_mem hwf hok (by simp [hp]))
      refine ⟨r, hr, ?_⟩
      intro ex a hex
      obtain ⟨bottom, hb1, hb2, hb3⟩ := hrl ex a hex
      exact ⟨p0 :: rest, p0, rest, bottom, rfl, rfl, by simpa using hb1, hb2, by simpa [Nat.add_comm] using hb3⟩

/-! ### `hss_sign_core` up to the callback -/

theorem spks_flatten_le (c : Nat) : ∀ (sigs pubs : List Bytes), pubs.length = sigs.length →
    (∀ b ∈ pubs, b.length ≤ c) →
    (((List.range sigs.length).map fun i => sigs.getD i [] ++ pubs.getD i []).flatten).length ≤
      (sigs.map List.length).sum + sigs.length * c := by
  intro sigs
  induction sigs with
  | nil => intro pubs _ _; simp
  | cons s sigs ih =>
    intro pubs hl hb
    cases pubs with
    | nil => simp at hl
    | cons b pubs =>
      have h1 := ih pubs (by simpa using hl) (fun x hx => hb x (by simp [hx]))
      have h2 := hb b (by simp)
      simp only [List.length_cons, List.range_succ_eq_map, List.map_cons, List.map_map, List.flatten_cons,
        List.length_append, List.sum_cons, Nat.succ_mul]
      simp only [List.getD_cons_zero, Function.comp_def, List.getD_cons_succ]
      omega

theorem spks_each_le (A c : Nat) (sigs pubs : List Bytes) (hl : pubs.length = sigs.length)
    (hs : ∀ s ∈ sigs, s.length ≤ A) (hb : ∀ b ∈ pubs, b.length ≤ c) :
    ∀ x ∈ (List.range sigs.length).map fun i => sigs.getD i [] ++ pubs.getD i [], x.length ≤ A + c := by
  intro x hx
  obtain ⟨i, hi, rfl⟩ := List.mem_map.mp hx
  have hi1 : i < sigs.length := List.mem_range.mp hi
  have hi2 : i < pubs.length := by omega
  simp only [List.getD_eq_getElem?_getD, List.getElem?_eq_getElem hi1, List.getElem?_eq_getElem hi2,
    Option.getD_some, List.length_append]
  have := hs _ (List.getElem_mem hi1)
  have := hb _ (List.getElem_mem hi2)
  omega

theorem increment_bytes_length (k : RefKey) (n : Nat) (hs : List Nat) (hp : k.params.length = 8)
    (hsd : k.seed.length = n) : (k.increment n hs).bytes.length = 16 + n := by
  unfold RefKey.increment
  split
  · simp [bytes_length, hp, hsd]
  · exact wiped_bytes_length n

theorem maxSignedPkLen_eq (c : Config) : c.maxSignedPkLen = c.maxLmsSigLen + 56 := rfl

/-- everything `hss_sign_core` does before the callback is fault free, and an assembled signature has at most
`hssSigLen` bytes: it fits the `u16`-length ArrayVec and `MAX_HSS_SIGNATURE_LENGTH` -/
theorem signPrepare_ok (H : HashFn) (cfg : Config) (hwf : cfg.wellFormed = true) (msg : Bytes) (k : RefKey)
    (aux : Option Bytes) (hkp : k.params.length = 8) (hks : k.seed.length = H.n) :
    ∃ p, signPrepare H cfg msg k aux = .ok p ∧
      ∀ hs sig a r, p = .ready hs sig a r → ∃ ps, paramsOfBytes cfg H.n k.params = some ps ∧
        sig.length ≤ hssSigLen H.n ps ∧ sig.length ≤ cfg.maxHssSigLen ∧ sig.length ≤ 65535 := by
  unfold signPrepare
  cases hps : paramsOfBytes cfg H.n k.params with
  | none => exact ⟨_, rfl, by simp⟩
  | some ps =>
    have hok := paramsOfBytes_ok hps
    have hn : H.n ≤ 32 := by rcases params_n hok with h | h | h <;> omega
    cases ps with
    | nil => exact absurd rfl hok.ne
    | cons p0 rest0 =>
      simp only [List.head?_cons]
      generalize getExpandedAuxData H cfg aux k.seed p0.lms.h = g
      obtain ⟨e0, buf, rst⟩ := g
      simp only []
      obtain ⟨r, hr, hrl⟩ := expandPrivateKey_ok H cfg hwf k e0
      simp only [hr, bind, Except.bind]
      cases r with
      | none => exact ⟨_, rfl, by simp⟩
      | some exa =>
        obtain ⟨ex, e1⟩ := exa
        obtain ⟨ps', p0', rest', bottom, hps', hcons, hinv, hlast, hlen⟩ := hrl ex e1 rfl
        rw [hps] at hps'
        simp only [Option.some.injEq] at hps'
        subst hps'
        simp only [List.cons.injEq] at hcons
        obtain ⟨rfl, rfl⟩ := hcons
        simp only [hinv.last]
        obtain ⟨r2, hr2, hrl2⟩ := lmsSign_ok H cfg bottom.key bottom.q msg
          (signatureRandomizer H bottom.key.seed bottom.key.I bottom.q)
          (if (ex.levels.length == 1) = true then e1 else none) hinv.caps (signatureRandomizer_length _ _ _ _)
        simp only [hr2]
        cases r2 with
        | none => exact ⟨_, rfl, by simp⟩
        | some be =>
          obtain ⟨bsig, e2'⟩ := be
          have hbl := hrl2 bsig e2' rfl
          simp only []
          have hL : ex.levels.length - 1 = ex.sigs.length := by have := hinv.nsigs; omega
          rw [hL]
          have h1 := spks_each_le cfg.maxLmsSigLen (lms_public_key_length H.n) ex.sigs ex.pubs hinv.npubs
            hinv.sigCap hinv.pubCap
          have h2 := spks_flatten_le (lms_public_key_length H.n) ex.sigs ex.pubs hinv.npubs hinv.pubCap
          generalize List.map (fun i => ex.sigs.getD i [] ++ ex.pubs.getD i []) (List.range ex.sigs.length) = spks
            at h1 h2 ⊢
          have hpk56 : lms_public_key_length H.n ≤ 56 := by
            simp only [lms_public_key_length, ILEN]; omega
          have hc1 : (spks.all fun s => decide (List.length s ≤ cfg.maxSignedPkLen)) = true := by
            apply List.all_eq_true.mpr
            intro s hs
            have := h1 s hs
            rw [maxSignedPkLen_eq]
            exact decide_eq_true (by omega)
          have hbudget := sum_eq_budget H.n rest0 p0
          have hlp : lms_signature_length H.n (lastParam p0 rest0).ots.p (lastParam p0 rest0).lms.h =
              lms_signature_length H.n bottom.key.ots.p bottom.key.lms.h := by rw [← hlast]
          have hsl : (Bytes.u32be ex.sigs.length ++ spks.flatten ++ bsig).length ≤ hssSigLen H.n (p0 :: rest0) := by
            rw [hssSigLen_eq_sum, hbudget, hlp]
            have := hinv.sum
            have hns := hinv.nsigs
            have hl' : (p0 :: rest0).length - 1 = ex.sigs.length := by omega
            rw [hl']
            simp only [List.length_append, u32be_length]
            omega
          have hmax := hssSigLen_le_max hwf hok
          have hc2 : List.length (Bytes.u32be ex.sigs.length ++ spks.flatten ++ bsig) ≤ cfg.maxHssSigLen := by omega
          have hc3 : ∀ hs, (k.increment H.n hs).bytes.length ≤ Config.maxPrivKeyLen := by
            intro hs
            rw [increment_bytes_length k H.n hs hkp hks]
            simp only [Config.maxPrivKeyLen, REF_IMPL_MAX_PRIVATE_KEY_SIZE]; omega
          simp only [P.require, hc1, hc2, hc3, decide_true, if_true, pure, Except.pure]
          refine ⟨_, rfl, ?_⟩
          intro hs sig a r h
          simp only [Prepared.ready.injEq] at h
          obtain ⟨_, rfl, _, _⟩ := h
          exact ⟨_, rfl, hsl, hc2, Nat.le_trans hsl hok.sigLen⟩

/-- `hss_sign_core` never panics: any private-key bytes, any aux buffer, any callback -/
theorem hssSign_ok (H : HashFn) (cfg : Config) (hwf : cfg.wellFormed = true) (msg sk : Bytes) (cb : Bytes → Bool)
    (aux : Option Bytes) : ∃ o, hssSign H cfg msg sk cb aux = .ok o := by
  unfold hssSign
  cases hk : RefKey.parse H.n sk with
  | none => exact ⟨_, rfl⟩
  | some k =>
    obtain ⟨_, hp, hs, _⟩ := parse_some hk
    obtain ⟨p, hp, _⟩ := signPrepare_ok H cfg hwf msg k aux hp hs
    exact ⟨signCommit H.n cfg cb k p, by simp only [hp, bind, Except.bind, pure, Except.pure]⟩

/-! ### key generation -/

/-- `CompressedParameterSet::from` never panics for table rows (type codes fit a nibble) -/
theorem bytesOfParams_ok (cfg : Config) (n : Nat) (ps : List HssParam)
    (hrows : ∀ p ∈ ps, p.ots.typeId < 16 ∧ p.lms.typeId < 16) : ∃ r, bytesOfParams cfg n ps = .ok r := by
  unfold bytesOfParams
  split
  · exact ⟨_, rfl⟩
  · split
    · exact ⟨_, rfl⟩
    · have hm := mapM_ok
        (fun (p : HssParam) => do
          let v := ((p.lms.typeId % 256) <<< 4) % 256 + p.ots.typeId % 256
          P.require "hss/reference_impl_private_key.rs:CompressedParameterSet::from u8 overflow" (v < 256)
          pure (UInt8.ofNat v))
        (fun p => UInt8.ofNat (((p.lms.typeId % 256) <<< 4) % 256 + p.ots.typeId % 256)) ps
        (by
          intro p hp
          obtain ⟨h1, h2⟩ := hrows p hp
          have : ((p.lms.typeId % 256) <<< 4) % 256 + p.ots.typeId % 256 < 256 := by
            rw [Nat.shiftLeft_eq]; omega
          simp [P.require, this, bind, Except.bind, pure, Except.pure])
      rw [hm]
      simp only [bind, Except.bind]
      split <;> exact ⟨_, rfl⟩

theorem rows_type_lt {n : Nat} {ps : List HssParam} (hrows : ∀ p ∈ ps, IsOtsRow n p.ots ∧ IsLmsRow p.lms) :
    ∀ p ∈ ps, p.ots.typeId < 16 ∧ p.lms.typeId < 16 :=
  fun p hp => ⟨ots_row_type (hrows p hp).1, (lms_row_good2 (hrows p hp).2).2.2⟩

/-- `hss_keygen` never panics: any list of table rows (empty, longer than eight levels, …), any seed, any aux -/
theorem hssKeygen_ok (H : HashFn) (cfg : Config) (ps : List HssParam) (seed : Bytes) (aux : Option Bytes)
    (hrows : ∀ p ∈ ps, p.ots.typeId < 16 ∧ p.lms.typeId < 16) : ∃ o, hssKeygen H cfg ps seed aux = .ok o := by
  obtain ⟨r, hr⟩ := bytesOfParams_ok cfg H.n ps hrows
  unfold hssKeygen
  simp only [hr, bind, Except.bind, pure, Except.pure]
  cases r with
  | none => exact ⟨_, rfl⟩
  | some pb =>
    simp only []
    repeat' split
    all_goals exact ⟨_, rfl⟩

/-- a refused parameter list: error, aux buffer untouched -/
theorem hssKeygen_refused (H : HashFn) (cfg : Config) (ps : List HssParam) (seed : Bytes) (aux : Option Bytes)
    (h : bytesOfParams cfg H.n ps = .ok none) : hssKeygen H cfg ps seed aux = .ok ⟨none, aux, []⟩ := by
  unfold hssKeygen
  simp only [h, bind, Except.bind, pure, Except.pure]

/-! ### lifetime query and `try_sign_with_aux` -/

theorem getLifetime_ok (H : HashFn) (cfg : Config) (hwf : cfg.wellFormed = true) (sk : Bytes) :
    ∃ r, getLifetime H cfg sk = .ok r := by
  unfold getLifetime
  split
  · exact ⟨_, rfl⟩
  · cases hk : RefKey.parse H.n sk with
    | none => exact ⟨_, rfl⟩
    | some k =>
      obtain ⟨r, hr, _⟩ := expandPrivateKey_ok H cfg hwf k none
      simp only [hr, bind, Except.bind]
      cases r with
      | none => exact ⟨_, rfl⟩
      | some ea => obtain ⟨e, a⟩ := ea; exact ⟨_, rfl⟩

/-! ### independence of the build configuration

`Agree x y`: the two computations cannot both return with different values. The configuration enters signing only
through capacity checks (`P.require`), so the results under two configurations agree. -/

def Agree {α : Type} (x y : P α) : Prop := ∀ a b, x = .ok a → y = .ok b → a = b

theorem Agree.refl {α : Type} (x : P α) : Agree x x := by
  intro a b h1 h2
  rw [h1] at h2
  exact Except.ok.inj h2

theorem Agree.bind {α β : Type} {x y : P α} {f g : α → P β} (h : Agree x y) (hf : ∀ a, Agree (f a) (g a)) :
    Agree (x >>= f) (y >>= g) := by
  intro a b h1 h2
  cases x with
  | error e => simp [Bind.bind, Except.bind] at h1
  | ok u =>
    cases y with
    | error e => simp [Bind.bind, Except.bind] at h2
    | ok v =>
      have huv : u = v := h u v rfl rfl
      subst huv
      exact hf u a b h1 h2

theorem Agree.require {β : Type} (s s' : String) (c c' : Bool) {f g : Unit → P β} (h : Agree (f ()) (g ())) :
    Agree (P.require s c >>= f) (P.require s' c' >>= g) := by
  intro a b h1 h2
  cases c <;> cases c' <;> simp [P.require, P.panic, Bind.bind, Except.bind] at h1 h2
  exact h a b h1 h2

theorem lmsSign_agree (H : HashFn) (cfg cfg' : Config) (k : LmsKey) (q : Nat) (msg C : Bytes) (aux : Option ExpAux) :
    Agree (lmsSign H cfg k q msg C aux) (lmsSign H cfg' k q msg C aux) := by
  unfold lmsSign
  by_cases hq : q ≥ 2 ^ k.lms.h
  · simp only [hq, if_true]; exact Agree.refl _
  · simp only [hq, if_false]
    apply Agree.require
    apply Agree.bind (Agree.refl _)
    intro ots
    apply Agree.require
    apply Agree.require
    exact Agree.refl _

theorem expand_go_agree (H : HashFn) (cfg cfg' : Config) (leaves : List Nat) :
    ∀ (rest : List HssParam) (i : Nat) (parent : Level) (acc : Expanded) (aux : Option ExpAux) (live : Bool),
      Agree (expandPrivateKey.go H cfg leaves i rest parent acc aux live)
        (expandPrivateKey.go H cfg' leaves i rest parent acc aux live) := by
  intro rest
  induction rest with
  | nil => intro i parent acc aux live; simp only [expandPrivateKey.go]; exact Agree.refl _
  | cons p rest ih =>
    intro i parent acc aux live
    simp only [expandPrivateKey.go]
    apply Agree.require
    apply Agree.bind (lmsSign_agree _ _ _ _ _ _ _ _)
    intro r
    cases r with
    | none => exact Agree.refl _
    | some sa => exact ih _ _ _ _ _

theorem expandPrivateKey_agree (H : HashFn) (cfg cfg' : Config) (k : RefKey) (aux : Option ExpAux)
    (hps : paramsOfBytes cfg H.n k.params = paramsOfBytes cfg' H.n k.params) :
    Agree (expandPrivateKey H cfg k aux) (expandPrivateKey H cfg' k aux) := by
  unfold expandPrivateKey
  rw [hps]
  cases paramsOfBytes cfg' H.n k.params with
  | none => exact Agree.refl _
  | some ps =>
    cases ps with
    | nil => exact Agree.refl _
    | cons p0 rest => exact expand_go_agree _ _ _ _ _ _ _ _ _ _

/-- the two configurations treat the aux buffer alike (always true without a buffer, and whenever
`MAX_TREE_HEIGHT` coincides) -/
def AuxAlike (H : HashFn) (cfg cfg' : Config) (aux : Option Bytes) : Prop :=
  ∀ seed h0, getExpandedAuxData H cfg aux seed h0 = getExpandedAuxData H cfg' aux seed h0

theorem auxAlike_none (H : HashFn) (cfg cfg' : Config) : AuxAlike H cfg cfg' none := fun _ _ => rfl

theorem auxAlike_of_height (H : HashFn) (cfg cfg' : Config) (aux : Option Bytes)
    (h : cfg.maxTreeHeight = cfg'.maxTreeHeight) : AuxAlike H cfg cfg' aux := by
  intro seed h0
  simp only [getExpandedAuxData, hss_expand_aux_data, h]

theorem signPrepare_agree (H : HashFn) (cfg cfg' : Config) (msg : Bytes) (k : RefKey) (aux : Option Bytes)
    (hps : paramsOfBytes cfg H.n k.params = paramsOfBytes cfg' H.n k.params) (haux : AuxAlike H cfg cfg' aux) :
    Agree (signPrepare H cfg msg k aux) (signPrepare H cfg' msg k aux) := by
  unfold signPrepare
  have hex := fun e0 => expandPrivateKey_agree H cfg cfg' k e0 hps
  rw [hps]
  cases paramsOfBytes cfg' H.n k.params with
  | none => exact Agree.refl _
  | some ps =>
    cases ps with
    | nil => exact Agree.refl _
    | cons p0 rest0 =>
      simp only [List.head?_cons]
      rw [haux]
      generalize getExpandedAuxData H cfg' aux k.seed p0.lms.h = g
      obtain ⟨e0, buf, rst⟩ := g
      simp only []
      apply Agree.bind (hex e0)
      intro r
      cases r with
      | none => exact Agree.refl _
      | some exa =>
        obtain ⟨ex, e1⟩ := exa
        simp only []
        cases ex.levels.getLast? with
        | none => exact Agree.refl _
        | some bottom =>
          simp only []
          apply Agree.bind (lmsSign_agree _ _ _ _ _ _ _ _)
          intro r2
          cases r2 with
          | none => exact Agree.refl _
          | some be =>
            obtain ⟨bsig, e2'⟩ := be
            simp only []
            apply Agree.require
            apply Agree.require
            apply Agree.require
            exact Agree.refl _

/-- signing does not depend on the build configuration: two well-formed configurations that accept the key's
parameter bytes alike (and treat the aux buffer alike) produce the same outcome - same signature, same successor
key handed to the callback, same aux buffer -/
theorem hssSign_indep (H : HashFn) (cfg cfg' : Config) (hwf : cfg.wellFormed = true) (hwf' : cfg'.wellFormed = true)
    (msg sk : Bytes) (cb : Bytes → Bool) (aux : Option Bytes)
    (hps : ∀ k, RefKey.parse H.n sk = some k → paramsOfBytes cfg H.n k.params = paramsOfBytes cfg' H.n k.params)
    (haux : AuxAlike H cfg cfg' aux) :
    hssSign H cfg msg sk cb aux = hssSign H cfg' msg sk cb aux := by
  unfold hssSign
  cases hk : RefKey.parse H.n sk with
  | none => rfl
  | some k =>
    obtain ⟨_, hkp, hks, _⟩ := parse_some hk
    obtain ⟨p, hp, hb⟩ := signPrepare_ok H cfg hwf msg k aux hkp hks
    obtain ⟨p', hp', hb'⟩ := signPrepare_ok H cfg' hwf' msg k aux hkp hks
    have hpp : p = p' := signPrepare_agree H cfg cfg' msg k aux (hps k hk) haux p p' hp hp'
    subst hpp
    simp only [hp, hp', bind, Except.bind, pure, Except.pure]
    congr 1
    cases p with
    | failed a r => rfl
    | ready hs sig a r =>
      obtain ⟨_, _, _, h2, h3⟩ := hb hs sig a r rfl
      obtain ⟨_, _, _, h2', _⟩ := hb' hs sig a r rfl
      have hno : ¬ (sig.length > 65535 ∨ sig.length > cfg.maxHssSigLen) := by omega
      have hno' : ¬ (sig.length > 65535 ∨ sig.length > cfg'.maxHssSigLen) := by omega
      simp [signCommit, hno, hno']

end Lemmas

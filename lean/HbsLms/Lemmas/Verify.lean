/-
No-fault (totality) lemmas for the verification path: every slice, index and capacity site of
`lm_ots::verify`, `lms::verify` and `hss::verify` is in range for whatever the parsers accept.
-/
import HbsLms.Lemmas.Tables
import HbsLms.Lemmas.PrivKey

namespace Lemmas

open Impl Generated

/-- the value `coef` returns when its index is in range -/
def coefVal (bs : Bytes) (i w : Nat) : Nat :=
  ((bs.getD (coefIndex i w) 0).toNat >>> coefShift i w) &&& coefMask w

theorem coef_eq (bs : Bytes) (i w : Nat) (h : coefIndex i w < bs.length) :
    coef bs i w = .ok (coefVal bs i w) := by
  unfold coef P.idx coefVal
  have : bs[coefIndex i w]? = some bs[coefIndex i w] := List.getElem?_eq_getElem h
  simp [this, bind, Except.bind, pure, Except.pure, List.getD_eq_getElem?_getD]

theorem coefVal_le (bs : Bytes) (i w : Nat) : coefVal bs i w ≤ coefMask w := Nat.and_le_right

theorem coefMask_eq (w : Nat) : coefMask w = 2 ^ w - 1 := by
  simp [coefMask, Nat.shiftLeft_eq]

theorem w_cases {n : Nat} {p : LmotsParam} (h : OtsRowGood n p = true) :
    p.w = 1 ∨ p.w = 2 ∨ p.w = 4 ∨ p.w = 8 := by
  simp only [OtsRowGood, Bool.and_eq_true, Bool.or_eq_true, beq_iff_eq] at h
  rcases h.1.1.1.1.1.1.1.1 with ((h | h) | h) | h <;> simp [h]

/-- the facts packed in `OtsRowGood` -/
theorem row_facts {n : Nat} {p : LmotsParam} (h : OtsRowGood n p = true) :
    p.p * p.w ≤ 8 * n + 16 ∧ 8 * n ≤ p.p * p.w ∧ (8 * n / p.w) * (2 ^ p.w - 1) < 65536 ∧ n ≤ 32 ∧ 0 < n ∧
    p.p ≤ (Params.chains p.w MAX_HASH_SIZE).getD 0 ∧ p.ls ≤ 8 ∧ n * (1 + p.p) + 4 < 65536 := by
  simp only [OtsRowGood, Bool.and_eq_true, decide_eq_true_eq] at h
  obtain ⟨⟨⟨⟨⟨⟨⟨⟨_, h1⟩, h2⟩, h3⟩, h4⟩, h5⟩, h6⟩, h7⟩, h8⟩ := h
  exact ⟨h1, h2, h3, by simpa [MAX_HASH_SIZE] using h4, h5, h6, h7, h8⟩

/-- message digits: index in range -/
theorem msg_digit_index {n : Nat} {p : LmotsParam} (hg : OtsRowGood n p = true) {i : Nat} (hi : i < n * 8 / p.w) :
    coefIndex i p.w < n := by
  unfold coefIndex
  rcases w_cases hg with h | h | h | h <;> rw [h] at hi ⊢ <;> omega

/-- all digits (message + checksum): index in range of the digest with its two checksum bytes -/
theorem all_digit_index {n : Nat} {p : LmotsParam} (hg : OtsRowGood n p = true) {i : Nat} (hi : i < p.p) :
    coefIndex i p.w < n + 2 := by
  obtain ⟨h1, _⟩ := row_facts hg
  unfold coefIndex
  have : i * p.w < p.p * p.w := by
    rcases w_cases hg with h | h | h | h <;> rw [h] <;> omega
  omega

/-- `LmotsParameter::checksum` never overflows its `u16` and never indexes out of range -/
theorem checksumSum_ok {n : Nat} {p : LmotsParam} (hg : OtsRowGood n p = true) (bs : Bytes) (hl : bs.length = n) :
    ∃ s, checksumSum n p bs = .ok s ∧ s ≤ (n * 8 / p.w) * (2 ^ p.w - 1) ∧
      s = ((List.range (n * 8 / p.w)).map fun i => coefMask p.w - coefVal bs i p.w).sum := by
  obtain ⟨_, _, h3, _⟩ := row_facts hg
  unfold checksumSum
  have hmul : n * 8 / p.w = 8 * n / p.w := by rw [Nat.mul_comm]
  obtain ⟨r, hr, hinv, hsum⟩ := foldlM_range_inv
    (fun sum i => do
      let c ← coef bs i p.w
      let s := sum + (coefMask p.w - c)
      if s ≥ 65536 then P.panic "lm_ots/parameters.rs:checksum u16 overflow" else pure s)
    (fun i => coefMask p.w - coefVal bs i p.w)
    (fun i acc => acc ≤ i * (2 ^ p.w - 1)) (n * 8 / p.w) 0 (by simp)
    (by
      intro acc i hi hI
      have hidx : coefIndex i p.w < bs.length := by rw [hl]; exact msg_digit_index hg hi
      have hterm : coefMask p.w - coefVal bs i p.w ≤ 2 ^ p.w - 1 := by
        rw [← coefMask_eq]; omega
      have hb : acc + (coefMask p.w - coefVal bs i p.w) ≤ (i + 1) * (2 ^ p.w - 1) := by
        rw [Nat.add_mul, Nat.one_mul]; omega
      have hb2 : (i + 1) * (2 ^ p.w - 1) ≤ (n * 8 / p.w) * (2 ^ p.w - 1) :=
        Nat.mul_le_mul_right _ (by omega)
      have hlt : ¬ acc + (coefMask p.w - coefVal bs i p.w) ≥ 65536 := by rw [hmul] at hb2; omega
      refine ⟨?_, hb⟩
      simp [coef_eq bs i p.w hidx, bind, Except.bind, hlt, pure, Except.pure])
  exact ⟨r, hr, hinv, by simpa using hsum⟩

theorem u16be_length (v : Nat) : (Bytes.u16be v).length = 2 := be_length 2 v

/-- `append_checksum_to` succeeds and yields the digest followed by two checksum bytes -/
theorem append_checksum_ok {n : Nat} {p : LmotsParam} (hg : OtsRowGood n p = true) (bs : Bytes) (hl : bs.length = n) :
    ∃ c, append_checksum_to n p bs = .ok (bs ++ Bytes.u16be c) := by
  obtain ⟨s, hs, _, _⟩ := checksumSum_ok hg bs hl
  obtain ⟨_, _, _, h4, _⟩ := row_facts hg
  refine ⟨(s <<< p.ls) % 65536, ?_⟩
  unfold append_checksum_to checksum
  simp only [hs, bind, Except.bind, pure, Except.pure, P.extendCap, MAX_HASH_SIZE]
  have h1 : ([] : Bytes).length + bs.length ≤ 32 + 2 := by simp; omega
  simp only [h1, if_true, List.nil_append]
  have h2 : bs.length + (Bytes.u16be (s <<< p.ls % 65536)).length ≤ 32 + 2 := by rw [u16be_length]; omega
  simp [h2]

/-- `lm_ots::verify::generate_public_key_candidate` cannot fault on anything the parser accepts -/
theorem lmotsCandidate_ok (H : HashFn) (sig : InMemLmotsSig) (I : Bytes) (q : Nat) (msg : Bytes)
    (hg : OtsRowGood H.n sig.param = true) (hd : sig.data.length = H.n * sig.param.p) :
    ∃ kc, lmotsCandidate H sig I q msg = .ok kc := by
  obtain ⟨_, _, _, _, _, hcap, _⟩ := row_facts hg
  unfold lmotsCandidate
  obtain ⟨c, hc⟩ := append_checksum_ok hg (H.h (I ++ Bytes.u32be q ++ D_MESG ++ sig.randomizer ++ msg)) (H.len_h _)
  simp only [hc, bind, Except.bind]
  have hqc : (H.h (I ++ Bytes.u32be q ++ D_MESG ++ sig.randomizer ++ msg) ++ Bytes.u16be c).length = H.n + 2 := by
    rw [List.length_append, H.len_h, u16be_length]
  rw [foldlM_range_append _ (fun i => chain H I (Bytes.u32be q) i (Bytes.slice sig.data (H.n * i) H.n)
        (coefVal (H.h (I ++ Bytes.u32be q ++ D_MESG ++ sig.randomizer ++ msg) ++ Bytes.u16be c) i sig.param.w)
        (2 ^ sig.param.w - 1))]
  · exact ⟨_, rfl⟩
  · intro acc i hi hl
    have hidx := all_digit_index hg hi
    rw [coef_eq _ i sig.param.w (by rw [hqc]; exact hidx)]
    have hs : H.n * i + H.n ≤ sig.data.length := by
      rw [hd]
      calc H.n * i + H.n = H.n * (i + 1) := by rw [Nat.mul_add, Nat.mul_one]
        _ ≤ H.n * sig.param.p := Nat.mul_le_mul_left _ (by omega)
    simp only [P.slice, hs, if_true, P.pushCap]
    have : acc.length < (Params.chains sig.param.w MAX_HASH_SIZE).getD 0 := by omega
    simp [this]

/-- what `InMemoryLmotsSignature::new` guarantees about its result -/
theorem lmots_parse_inv {n : Nat} {data : Bytes} {s : InMemLmotsSig} (h : InMemLmotsSig.parse n data = some s) :
    OtsRowGood n s.param = true ∧ s.data.length = n * s.param.p ∧ s.randomizer.length = n := by
  simp only [InMemLmotsSig.parse, Option.bind_eq_bind, Option.bind_eq_some_iff, pure, Option.some.injEq] at h
  obtain ⟨t, _, prm, hprm, r, hr, d, hd, rfl⟩ := h
  exact ⟨ots_row_good hprm, (readAt_some hd).2.2, (readAt_some hr).2.2⟩

/-- what `InMemoryLmsSignature::new` guarantees about its result -/
theorem lms_parse_inv {n : Nat} {data : Bytes} {s : InMemLmsSig} (h : InMemLmsSig.parse n data = some s) :
    OtsRowGood n s.ots.param = true ∧ s.ots.data.length = n * s.ots.param.p ∧
    s.path.length = n * s.lms.h ∧ s.q < 2 ^ s.lms.h ∧ s.lms.h ≤ 25 := by
  simp only [InMemLmsSig.parse, Option.bind_eq_bind, Option.bind_eq_some_iff, pure] at h
  obtain ⟨qb, _, tb, _, op, _, ob, _, ots, hots, lt, _, lp, hlp, path, hpath, hrest⟩ := h
  split at hrest
  · simp at hrest
  · rename_i hq
    simp only [Option.some.injEq] at hrest
    subst hrest
    obtain ⟨h1, h2, _⟩ := lmots_parse_inv hots
    exact ⟨h1, h2, (readAt_some hpath).2.2, by simp only []; omega, (lms_row_good hlp).1⟩

/-- the root climb terminates within its fuel and never slices outside the authentication path:
`k` levels remain, `i` path nodes were consumed -/
theorem climb_ok (H : HashFn) (I path : Bytes) (h : Nat) (hp : path.length = H.n * h) :
    ∀ (k fuel nodeNum i : Nat) (tmp : Bytes), nodeNum < 2 ^ (k + 1) → i + k = h → k < fuel →
      ∃ r, climb H I path fuel nodeNum i tmp = .ok r := by
  intro k
  induction k with
  | zero =>
    intro fuel nodeNum i tmp hn _ hf
    have hle : ¬ nodeNum > 1 := by simp at hn; omega
    cases fuel with
    | zero => omega
    | succ f => exact ⟨tmp, by simp [climb, hle, pure, Except.pure]⟩
  | succ k ih =>
    intro fuel nodeNum i tmp hn hik hf
    cases fuel with
    | zero => omega
    | succ f =>
      by_cases hgt : nodeNum > 1
      · have hs : H.n * i + H.n ≤ path.length := by
          rw [hp]
          calc H.n * i + H.n = H.n * (i + 1) := by rw [Nat.mul_add, Nat.mul_one]
            _ ≤ H.n * h := Nat.mul_le_mul_left _ (by omega)
        have hhalf : nodeNum / 2 < 2 ^ (k + 1) := by
          rw [Nat.pow_succ] at hn; omega
        obtain ⟨r, hr⟩ := ih f (nodeNum / 2) (i + 1)
          (if nodeNum % 2 == 1 then
            H.h (I ++ Bytes.u32be (nodeNum / 2) ++ D_INTR ++ Bytes.slice path (H.n * i) H.n ++ tmp)
           else H.h (I ++ Bytes.u32be (nodeNum / 2) ++ D_INTR ++ tmp ++ Bytes.slice path (H.n * i) H.n))
          hhalf (by omega) (by omega)
        exact ⟨r, by simp only [climb, hgt, if_true, P.slice, hs, bind, Except.bind]; exact hr⟩
      · exact ⟨tmp, by simp [climb, hgt, pure, Except.pure]⟩

/-- `lms::verify::generate_public_key_candidate` cannot fault on parsed input -/
theorem lmsCandidate_ok (H : HashFn) (sig : InMemLmsSig) (pk : InMemLmsPk) (msg : Bytes)
    (hg : OtsRowGood H.n sig.ots.param = true) (hd : sig.ots.data.length = H.n * sig.ots.param.p)
    (hp : sig.path.length = H.n * sig.lms.h) :
    ∃ r, lmsCandidate H sig pk msg = .ok r := by
  unfold lmsCandidate
  by_cases hq : sig.q ≥ 2 ^ sig.lms.h
  · exact ⟨none, by simp [hq, pure, Except.pure]⟩
  · simp only [hq, if_false]
    obtain ⟨kc, hkc⟩ := lmotsCandidate_ok H sig.ots pk.I sig.q msg hg hd
    simp only [hkc, bind, Except.bind]
    obtain ⟨r, hr⟩ := climb_ok H pk.I sig.path sig.lms.h hp sig.lms.h (sig.lms.h + 1) (2 ^ sig.lms.h + sig.q) 0
      (H.h (pk.I ++ Bytes.u32be (2 ^ sig.lms.h + sig.q) ++ D_LEAF ++ kc))
      (by rw [Nat.pow_succ]; omega) (by omega) (by omega)
    exact ⟨some r, by simp only [hr, pure, Except.pure]⟩

theorem lmsVerify_ok (H : HashFn) (sig : InMemLmsSig) (pk : InMemLmsPk) (msg : Bytes)
    (hg : OtsRowGood H.n sig.ots.param = true) (hd : sig.ots.data.length = H.n * sig.ots.param.p)
    (hp : sig.path.length = H.n * sig.lms.h) :
    ∃ b, lmsVerify H sig pk msg = .ok b := by
  unfold lmsVerify
  split
  · exact ⟨false, rfl⟩
  · obtain ⟨r, hr⟩ := lmsCandidate_ok H sig pk msg hg hd hp
    simp only [hr, bind, Except.bind]
    cases r <;> exact ⟨_, rfl⟩

/-- all signed public keys of a parsed HSS signature satisfy the LMS parse invariant -/
theorem parseSignedPks_inv {n : Nat} : ∀ (k : Nat) (rest : Bytes) (acc : List (InMemLmsSig × InMemLmsPk))
    (out : List (InMemLmsSig × InMemLmsPk)) (rest' : Bytes),
    (∀ x ∈ acc, ∃ d, InMemLmsSig.parse n d = some x.1) →
    parseSignedPks n k rest acc = some (out, rest') → ∀ x ∈ out, ∃ d, InMemLmsSig.parse n d = some x.1 := by
  intro k
  induction k with
  | zero =>
    intro rest acc out rest' hacc h
    simp only [parseSignedPks, Option.some.injEq, Prod.mk.injEq] at h
    rw [← h.1]; exact hacc
  | succ k ih =>
    intro rest acc out rest' hacc h
    simp only [parseSignedPks] at h
    split at h
    · simp at h
    · rename_i s p l hsp
      apply ih _ _ _ _ _ h
      intro x hx
      rw [List.mem_append] at hx
      rcases hx with hx | hx
      · exact hacc x hx
      · simp only [List.mem_singleton] at hx
        subst hx
        simp only [parseSignedPk, Option.bind_eq_bind, Option.bind_eq_some_iff, pure, Option.some.injEq,
          Prod.mk.injEq] at hsp
        obtain ⟨sg, hsg, _, _, h3⟩ := hsp
        exact ⟨rest, by rw [← h3.1]; exact hsg⟩

theorem verifyChain_ok (H : HashFn) : ∀ (spks : List (InMemLmsSig × InMemLmsPk)) (key : InMemLmsPk),
    (∀ x ∈ spks, ∃ d, InMemLmsSig.parse H.n d = some x.1) → ∃ r, verifyChain H spks key = .ok r := by
  intro spks
  induction spks with
  | nil => intro key _; exact ⟨some key, rfl⟩
  | cons x xs ih =>
    intro key hall
    obtain ⟨s, p⟩ := x
    obtain ⟨d, hd⟩ := hall (s, p) List.mem_cons_self
    obtain ⟨h1, h2, h3, _, _⟩ := lms_parse_inv hd
    obtain ⟨b, hb⟩ := lmsVerify_ok H s key p.complete h1 h2 h3
    simp only [verifyChain, hb, bind, Except.bind]
    cases b
    · exact ⟨none, rfl⟩
    · exact ih p (fun y hy => hall y (List.mem_cons_of_mem _ hy))

/-- R-verify, totality half: for EVERY message, signature and public-key byte string (any length, any content),
every hash function and every build configuration, the verifier model returns `ok true` or `ok false`: no slice,
index, capacity or arithmetic site faults and every loop terminates. -/
theorem hssVerify_total (H : HashFn) (cfg : Config) (msg sig pk : Bytes) :
    ∃ b, hssVerify H cfg msg sig pk = .ok b := by
  unfold hssVerify
  cases hs : InMemHssSig.parse cfg H.n sig with
  | none => exact ⟨false, rfl⟩
  | some s =>
    simp only []
    cases hk : parseHssPk H.n pk with
    | none => exact ⟨false, rfl⟩
    | some lk =>
      obtain ⟨level, k⟩ := lk
      simp only []
      unfold hssVerifyParsed
      split
      · exact ⟨false, rfl⟩
      · -- invariants of the parsed signature
        simp only [InMemHssSig.parse] at hs
        split at hs
        · simp at hs
        · split at hs
          · simp at hs
          · split at hs
            · simp at hs
            · rename_i spks rest hspks
              split at hs
              · simp at hs
              · rename_i lastSig hlast
                split at hs
                · simp at hs
                · simp only [Option.some.injEq] at hs
                  subst hs
                  have hall := parseSignedPks_inv _ _ _ _ _ (by simp) hspks
                  obtain ⟨r, hr⟩ := verifyChain_ok H spks k hall
                  simp only [hr, bind, Except.bind]
                  cases r with
                  | none => exact ⟨false, rfl⟩
                  | some key =>
                    obtain ⟨h1, h2, h3, _, _⟩ := lms_parse_inv hlast
                    exact lmsVerify_ok H lastSig key msg h1 h2 h3

/-- all three entry points -/
theorem verifyEntry_total (e : Entry) (H : HashFn) (cfg : Config) (msg sig pk : Bytes) :
    ∃ b, verifyEntry e H cfg msg sig pk = .ok b := by
  cases e <;> simp only [verifyEntry]
  · exact hssVerify_total H cfg msg sig pk
  · split
    · exact ⟨false, rfl⟩
    · exact hssVerify_total H cfg msg sig pk
  · split
    · exact ⟨false, rfl⟩
    · exact hssVerify_total H cfg msg sig pk

end Lemmas

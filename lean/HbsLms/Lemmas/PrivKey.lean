/-
The private-key blob codec (`ReferenceImplPrivateKey::{to,from}_binary_representation`).
-/
import HbsLms.Impl.Hss

namespace Lemmas

open Impl Generated

theorem be_length (k v : Nat) : (Bytes.be k v).length = k := by
  induction k with
  | zero => simp [Bytes.be]
  | succ k ih => simp [Bytes.be, ih]

/-- the blob length the parser accepts: 16 + n -/
def blobLen (n : Nat) : Nat := REF_IMPL_MAX_PRIVATE_KEY_SIZE - MAX_SEED_LEN + n

theorem blobLen_eq (n : Nat) : blobLen n = 16 + n := by
  simp [blobLen, REF_IMPL_MAX_PRIVATE_KEY_SIZE, MAX_SEED_LEN]

/-- `from_binary_representation` in closed form: a length test, then three fixed slices (the checked reads
cannot fail once the length test passed) -/
theorem parse_eq (n : Nat) (data : Bytes) :
    RefKey.parse n data =
      if data.length = 16 + n then
        some ⟨Bytes.toNat (data.take 8), (data.drop 8).take 8, (data.drop 16).take n⟩
      else none := by
  unfold RefKey.parse
  by_cases h : data.length = 16 + n
  · have h1 : ¬ (data.length != REF_IMPL_MAX_PRIVATE_KEY_SIZE - MAX_SEED_LEN + n) = true := by
      simp [REF_IMPL_MAX_PRIVATE_KEY_SIZE, MAX_SEED_LEN, h]
    have h8 : 8 ≤ 16 + n := by omega
    simp [readAt, Bytes.slice, h, h8, REF_IMPL_MAX_PRIVATE_KEY_SIZE, MAX_SEED_LEN, HSS_COMPRESSED_USED_LEAFS_SIZE,
      REF_IMPL_MAX_ALLOWED_HSS_LEVELS, bind, Option.bind, pure]
  · have h1 : (data.length != REF_IMPL_MAX_PRIVATE_KEY_SIZE - MAX_SEED_LEN + n) = true := by
      simp [REF_IMPL_MAX_PRIVATE_KEY_SIZE, MAX_SEED_LEN, h]
    simp [h1, h]

theorem parse_some {n : Nat} {data : Bytes} {k : RefKey} (h : RefKey.parse n data = some k) :
    data.length = 16 + n ∧ k.params.length = 8 ∧ k.seed.length = n ∧
      k = ⟨Bytes.toNat (data.take 8), (data.drop 8).take 8, (data.drop 16).take n⟩ := by
  rw [parse_eq] at h
  split at h
  · rename_i hl
    simp only [Option.some.injEq] at h
    subst h
    refine ⟨hl, ?_, ?_, rfl⟩ <;> simp [List.length_take, List.length_drop, hl] <;> omega
  · simp at h

theorem bytes_length (k : RefKey) : k.bytes.length = 8 + k.params.length + k.seed.length := by
  simp [RefKey.bytes, Bytes.u64be, be_length, Nat.add_assoc]

theorem wiped_bytes_length (n : Nat) : (RefKey.wiped n).bytes.length = 16 + n := by
  simp [bytes_length, RefKey.wiped, REF_IMPL_MAX_ALLOWED_HSS_LEVELS, Bytes.zeros]

end Lemmas

/-
Build-time limits (`build.rs`, `constants.rs`): what `CompressedParameterSet::to` guarantees about an accepted
parameter list, and why every compile-time capacity (`MAX_NUM_WINTERNITZ_CHAINS`, `MAX_TREE_HEIGHT`,
`MAX_LMS_SIGNATURE_LENGTH`, `MAX_HSS_SIGNED_PUBLIC_KEY_LENGTH`, `MAX_HSS_SIGNATURE_LENGTH`) suffices for it.
Core Lean only.
-/
import HbsLms.Lemmas.Verify

/-- `build.rs` accepts the configuration and every configured Winternitz value is one of 1, 2, 4, 8
(other values make `get_num_winternitz_chains` panic at compile time) -/
def Config.wellFormed (c : Config) : Bool :=
  c.valid && c.winternitz.all (fun w => w == 1 || w == 2 || w == 4 || w == 8)

namespace Lemmas

open Impl Generated

/-! ### table rows -/

/-- an LM-OTS parameter of the library table for hash length `n` -/
def IsOtsRow (n : Nat) (p : LmotsParam) : Prop := ∃ v, Params.lmotsConstruct n v = some p
/-- an LMS parameter of the library table -/
def IsLmsRow (p : LmsParam) : Prop := ∃ v, Params.lmsConstruct v = some p

theorem isOtsRow_of_fromU32 {n t : Nat} {p : LmotsParam} (h : Params.lmotsFromU32 n t = some p) : IsOtsRow n p :=
  ⟨_, h⟩

theorem isOtsRow_of_getFromType {n t : Nat} {p : LmotsParam} (h : Params.lmotsGetFromType n t = some p) :
    IsOtsRow n p := by
  simp only [Params.lmotsGetFromType, Option.bind_eq_bind, Option.bind_eq_some_iff] at h
  obtain ⟨v, _, hc⟩ := h
  exact ⟨v, hc⟩

theorem isLmsRow_of_fromU32 {t : Nat} {p : LmsParam} (h : Params.lmsFromU32 t = some p) : IsLmsRow p := ⟨_, h⟩

theorem isLmsRow_of_getFromType {t : Nat} {p : LmsParam} (h : Params.lmsGetFromType t = some p) : IsLmsRow p := by
  simp only [Params.lmsGetFromType, Option.bind_eq_bind, Option.bind_eq_some_iff] at h
  obtain ⟨v, _, hc⟩ := h
  exact ⟨v, hc⟩

/-- chain count of the configured (`MAX_HASH_SIZE`) row for Winternitz value `w` -/
def chains32 (w : Nat) : Nat := (Params.chains w MAX_HASH_SIZE).getD 0

/-- further facts about every LM-OTS row: the hash length is one of 16, 24, 32, the chain count is the table
entry for `(w, n)`, the type code fits a nibble, and chain counts are antitone in `w` against the
`MAX_HASH_SIZE` rows -/
def OtsRowGood2 (n : Nat) (p : LmotsParam) : Bool :=
  OtsRowGood n p && (n == 16 || n == 24 || n == 32) &&
  (Params.chains p.w n == some p.p) && decide (p.typeId < 16) &&
  [1, 2, 4, 8].all (fun w => !decide (w ≤ p.w) || decide (p.p ≤ chains32 w))

theorem all_ots_rows_good2 : allOtsRows.all (fun x => OtsRowGood2 x.1 x.2) = true := by decide +kernel

theorem ots_row_good2 {n : Nat} {p : LmotsParam} (h : IsOtsRow n p) : OtsRowGood2 n p = true := by
  obtain ⟨v, hv⟩ := h
  exact List.all_eq_true.mp all_ots_rows_good2 (n, p) (construct_some_mem hv)

theorem ots_row_good' {n : Nat} {p : LmotsParam} (h : IsOtsRow n p) : OtsRowGood n p = true := by
  have := ots_row_good2 h
  simp only [OtsRowGood2, Bool.and_eq_true] at this
  exact this.1.1.1.1

theorem ots_row_n {n : Nat} {p : LmotsParam} (h : IsOtsRow n p) : n = 16 ∨ n = 24 ∨ n = 32 := by
  have := ots_row_good2 h
  simp only [OtsRowGood2, Bool.and_eq_true, Bool.or_eq_true, beq_iff_eq] at this
  rcases this.1.1.1.2 with (h | h) | h <;> simp [h]

theorem ots_row_type {n : Nat} {p : LmotsParam} (h : IsOtsRow n p) : p.typeId < 16 := by
  have := ots_row_good2 h
  simp only [OtsRowGood2, Bool.and_eq_true, decide_eq_true_eq] at this
  exact this.1.2

/-- chain counts are antitone in `w`: a row with `w ≤ p.w`, taken at `MAX_HASH_SIZE`, has at least `p.p` chains -/
theorem ots_row_chains_le {n : Nat} {p : LmotsParam} (h : IsOtsRow n p) {w : Nat}
    (hw : w = 1 ∨ w = 2 ∨ w = 4 ∨ w = 8) (hle : w ≤ p.w) : p.p ≤ chains32 w := by
  have := ots_row_good2 h
  simp only [OtsRowGood2, Bool.and_eq_true] at this
  have h5 := List.all_eq_true.mp this.2 w (by rcases hw with h | h | h | h <;> simp [h])
  simpa [hle] using h5

/-- the `MAX_HASH_SIZE` chain counts are antitone in `w` -/
theorem chains32_antitone : ∀ w ∈ [1, 2, 4, 8], ∀ w' ∈ [1, 2, 4, 8], w ≤ w' → chains32 w' ≤ chains32 w := by
  decide +kernel

def LmsRowGood2 (p : LmsParam) : Bool := decide (p.h ≤ 25) && decide (0 < p.h) && decide (p.typeId < 16)

theorem all_lms_rows_good2 : allLmsRows.all LmsRowGood2 = true := by decide +kernel

theorem lms_row_good2 {p : LmsParam} (h : IsLmsRow p) : p.h ≤ 25 ∧ 0 < p.h ∧ p.typeId < 16 := by
  obtain ⟨v, h0⟩ := h
  have h1 := h0
  simp only [Params.lmsConstruct, Option.bind_eq_bind, Option.bind_eq_some_iff] at h1
  obtain ⟨row, hrow, _⟩ := h1
  have hmem : p ∈ allLmsRows := by
    unfold allLmsRows
    rw [List.mem_filterMap]
    exact ⟨v, List.mem_map.mpr ⟨_, lookup_some_mem hrow, rfl⟩, h0⟩
  have := List.all_eq_true.mp all_lms_rows_good2 _ hmem
  simpa [LmsRowGood2, and_assoc] using this

/-! ### folds -/

theorem foldl_max_ge (l : List Nat) : ∀ a, a ≤ l.foldl max a ∧ ∀ x ∈ l, x ≤ l.foldl max a := by
  induction l with
  | nil => intro a; simp
  | cons y ys ih =>
    intro a
    obtain ⟨h1, h2⟩ := ih (max a y)
    refine ⟨by simp only [List.foldl_cons]; omega, ?_⟩
    intro x hx
    simp only [List.foldl_cons]
    rcases List.mem_cons.mp hx with rfl | hx
    · omega
    · exact h2 x hx

theorem foldl_min_le (l : List Nat) : ∀ a, l.foldl min a ≤ a ∧ (∀ x ∈ l, l.foldl min a ≤ x) ∧
    (l.foldl min a = a ∨ l.foldl min a ∈ l) := by
  induction l with
  | nil => intro a; simp
  | cons y ys ih =>
    intro a
    obtain ⟨h1, h2, h3⟩ := ih (min a y)
    simp only [List.foldl_cons]
    refine ⟨by omega, ?_, ?_⟩
    · intro x hx
      rcases List.mem_cons.mp hx with rfl | hx
      · omega
      · exact h2 x hx
    · rcases h3 with h3 | h3
      · rw [h3]
        by_cases hay : a ≤ y
        · left; omega
        · right; simp; left; omega
      · right; exact List.mem_cons_of_mem _ h3

theorem foldl_addF_eq_sum (l : List Nat) (F : Nat → Nat) : ∀ a,
    l.foldl (fun acc x => acc + F x) a = a + (l.map F).sum := by
  induction l with
  | nil => intro a; simp
  | cons y ys ih => intro a; simp [ih, Nat.add_assoc]

theorem foldl_add_eq_sum_L (l : List Nat) : ∀ a, l.foldl (· + ·) a = a + l.sum := by
  induction l with
  | nil => intro a; simp
  | cons y ys ih => intro a; simp [ih, Nat.add_assoc]

/-! ### configuration facts -/

theorem wellFormed_valid {c : Config} (h : c.wellFormed = true) : c.valid = true := by
  simp only [Config.wellFormed, Bool.and_eq_true] at h; exact h.1

theorem valid_facts {c : Config} (h : c.valid = true) :
    1 ≤ c.maxLevels ∧ c.maxLevels ≤ 8 ∧ c.heights.length = c.maxLevels ∧ c.winternitz.length = c.maxLevels := by
  simp only [Config.valid, Bool.and_eq_true, beq_iff_eq, buildLevelLimit] at h
  obtain ⟨⟨⟨h1, h2⟩, h3⟩, h4⟩ := h
  exact ⟨of_decide_eq_true h2, of_decide_eq_true h1, h3, h4⟩

theorem wellFormed_w {c : Config} (h : c.wellFormed = true) {i : Nat} (hi : i < c.maxLevels) :
    c.winternitz.getD i 0 = 1 ∨ c.winternitz.getD i 0 = 2 ∨ c.winternitz.getD i 0 = 4 ∨ c.winternitz.getD i 0 = 8 := by
  obtain ⟨_, _, _, hl⟩ := valid_facts (wellFormed_valid h)
  simp only [Config.wellFormed, Bool.and_eq_true] at h
  have hi' : i < c.winternitz.length := by omega
  have hm : c.winternitz.getD i 0 ∈ c.winternitz := by
    rw [List.getD_eq_getElem?_getD, List.getElem?_eq_getElem hi']
    exact List.getElem_mem hi'
  have := List.all_eq_true.mp h.2 _ hm
  simpa [or_assoc] using this

/-- `MIN_WINTERNITZ` is one of the configured values and a lower bound of all of them -/
theorem minWinternitz_facts {c : Config} (h : c.wellFormed = true) :
    (c.minWinternitz = 1 ∨ c.minWinternitz = 2 ∨ c.minWinternitz = 4 ∨ c.minWinternitz = 8) ∧
    ∀ i, i < c.maxLevels → c.minWinternitz ≤ c.winternitz.getD i 0 := by
  obtain ⟨h1, _, _, hl⟩ := valid_facts (wellFormed_valid h)
  have hall := h
  simp only [Config.wellFormed, Bool.and_eq_true] at hall
  unfold Config.minWinternitz
  cases hw : c.winternitz with
  | nil => rw [hw] at hl; simp at hl; omega
  | cons w0 ws =>
    rw [hw] at hall
    obtain ⟨_, h3, h4⟩ := foldl_min_le (w0 :: ws) w0
    have hmem : (w0 :: ws).foldl min ((w0 :: ws).headD 0) ∈ w0 :: ws := by
      simp only [List.headD_cons]
      rcases h4 with h4 | h4
      · rw [h4]; exact List.mem_cons_self
      · exact h4
    constructor
    · have := List.all_eq_true.mp hall.2 _ hmem
      simpa [or_assoc] using this
    · intro i hi
      have hi' : i < (w0 :: ws).length := by rw [← hw]; omega
      simp only [List.headD_cons]
      apply h3
      rw [List.getD_eq_getElem?_getD, List.getElem?_eq_getElem hi']
      exact List.getElem_mem hi'

theorem height_le_max {c : Config} (h : c.valid = true) {i : Nat} (hi : i < c.maxLevels) :
    c.heights.getD i 0 ≤ c.maxTreeHeight := by
  obtain ⟨_, _, hl, _⟩ := valid_facts h
  have hi' : i < c.heights.length := by omega
  unfold Config.maxTreeHeight
  apply (foldl_max_ge c.heights 0).2
  rw [List.getD_eq_getElem?_getD, List.getElem?_eq_getElem hi']
  exact List.getElem_mem hi'

theorem maxChains_eq (c : Config) : c.maxChains = chains32 c.minWinternitz := rfl

/-- the per-level chain count of the configuration is at most `MAX_NUM_WINTERNITZ_CHAINS` -/
theorem chains32_level_le {c : Config} (h : c.wellFormed = true) {i : Nat} (hi : i < c.maxLevels) :
    chains32 (c.winternitz.getD i 0) ≤ c.maxChains := by
  obtain ⟨hm, hle⟩ := minWinternitz_facts h
  rw [maxChains_eq]
  apply chains32_antitone
  · rcases hm with h | h | h | h <;> rw [h] <;> simp
  · rcases wellFormed_w h hi with h | h | h | h <;> rw [h] <;> simp
  · exact hle i hi

/-! ### what `CompressedParameterSet::to` accepts -/

/-- level `i` of an accepted list: inside the build limits, both parameters are table rows -/
structure LevelOk (cfg : Config) (n i : Nat) (p : HssParam) : Prop where
  within : cfg.withinLimits i p = true
  ots : IsOtsRow n p.ots
  lms : IsLmsRow p.lms
  otsU32 : ∃ t, Params.lmotsFromU32 n t = some p.ots
  lmsU32 : ∃ t, Params.lmsFromU32 t = some p.lms

/-- an accepted parameter list -/
structure ParamsOk (cfg : Config) (n : Nat) (ps : List HssParam) : Prop where
  ne : ps ≠ []
  sigLen : hssSigLen n ps ≤ 65535
  level : ∀ i (h : i < ps.length), LevelOk cfg n i ps[i]

private theorem finish_inv {cfg : Config} {n : Nat} {acc ps : List HssParam}
    (hacc : ∀ i (h : i < acc.length), LevelOk cfg n i acc[i])
    (h : (if (acc.isEmpty || !sigLenSupported n acc) = true then none else some acc) = some ps) :
    ParamsOk cfg n ps := by
  split at h
  · simp at h
  · rename_i hc
    simp only [Option.some.injEq] at h
    subst h
    simp only [Bool.or_eq_true, Bool.not_eq_true', not_or, Bool.not_eq_false, List.isEmpty_iff] at hc
    exact ⟨hc.1, by simpa [sigLenSupported] using hc.2, hacc⟩

theorem paramsOfBytes_go_inv (cfg : Config) (n : Nat) : ∀ (rest : Bytes) (level : Nat) (acc ps : List HssParam),
    level = acc.length → (∀ i (h : i < acc.length), LevelOk cfg n i acc[i]) →
    paramsOfBytes.go cfg n level rest acc = some ps → ParamsOk cfg n ps := by
  intro rest
  induction rest with
  | nil =>
    intro level acc ps _ hacc h
    simp only [paramsOfBytes.go] at h
    exact finish_inv hacc h
  | cons b rest ih =>
    intro level acc ps hl hacc h
    simp only [paramsOfBytes.go] at h
    split at h
    · exact finish_inv hacc h
    · split at h
      · rename_i lms ots hlms hots
        split at h
        · rename_i hw
          refine ih (level + 1) _ ps (by simp [hl]) ?_ h
          intro i hi
          by_cases hlt : i < acc.length
          · rw [List.getElem_append_left hlt]; exact hacc i hlt
          · have hi' : i = acc.length := by simp at hi; omega
            subst hi'
            simp only [List.getElem_append_right (Nat.le_refl _), Nat.sub_self, List.getElem_cons_zero]
            exact ⟨hl ▸ hw, isOtsRow_of_fromU32 hots, isLmsRow_of_fromU32 hlms, ⟨_, hots⟩, ⟨_, hlms⟩⟩
        · simp at h
      · simp at h

/-- **A1**: what an accepted compressed parameter set looks like -/
theorem paramsOfBytes_ok {cfg : Config} {n : Nat} {bs : Bytes} {ps : List HssParam}
    (h : paramsOfBytes cfg n bs = some ps) : ParamsOk cfg n ps :=
  paramsOfBytes_go_inv cfg n bs 0 [] ps rfl (fun i hi => by simp at hi) h

/-- limits only restrict: whatever `cfg` accepts is accepted by any configuration whose limits are at least as wide
on table rows -/
theorem paramsOfBytes_go_mono (cfg cfg' : Config) (n : Nat)
    (hmono : ∀ level p, IsOtsRow n p.ots → IsLmsRow p.lms → cfg.withinLimits level p = true →
      cfg'.withinLimits level p = true) :
    ∀ (rest : Bytes) (level : Nat) (acc ps : List HssParam),
      paramsOfBytes.go cfg n level rest acc = some ps → paramsOfBytes.go cfg' n level rest acc = some ps := by
  intro rest
  induction rest with
  | nil =>
    intro level acc ps h
    simpa only [paramsOfBytes.go] using h
  | cons b rest ih =>
    intro level acc ps h
    simp only [paramsOfBytes.go] at h ⊢
    split at h
    · rename_i hb; simp only [hb, if_true]; exact h
    · rename_i hb
      simp only [hb]
      split at h
      · rename_i lms ots hlms hots
        split at h
        · rename_i hw
          have := hmono level ⟨ots, lms⟩ (isOtsRow_of_fromU32 hots) (isLmsRow_of_fromU32 hlms) hw
          simp only [this, if_true]
          exact ih _ _ _ h
        · simp at h
      · simp at h

/-- the parser only ever appends to its accumulator -/
theorem paramsOfBytes_go_prefix (cfg : Config) (n : Nat) : ∀ (rest : Bytes) (level : Nat) (acc ps : List HssParam),
    paramsOfBytes.go cfg n level rest acc = some ps → ∃ more, ps = acc ++ more := by
  intro rest
  induction rest with
  | nil =>
    intro level acc ps h
    simp only [paramsOfBytes.go] at h
    split at h
    · simp at h
    · exact ⟨[], by simpa using h.symm⟩
  | cons b rest ih =>
    intro level acc ps h
    simp only [paramsOfBytes.go] at h
    split at h
    · split at h
      · simp at h
      · exact ⟨[], by simpa using h.symm⟩
    · split at h
      · split at h
        · rename_i lms ots _ _ _
          obtain ⟨more, hm⟩ := ih _ _ _ h
          exact ⟨⟨ots, lms⟩ :: more, by rw [hm]; simp⟩
        · simp at h
      · simp at h

/-- conversely: a list accepted under `cfg'` all of whose levels are inside the limits of `cfg` is accepted under `cfg` -/
theorem paramsOfBytes_go_restrict (cfg cfg' : Config) (n : Nat) :
    ∀ (rest : Bytes) (level : Nat) (acc ps : List HssParam), level = acc.length →
      paramsOfBytes.go cfg' n level rest acc = some ps →
      (∀ i (h : i < ps.length), acc.length ≤ i → cfg.withinLimits i ps[i] = true) →
      paramsOfBytes.go cfg n level rest acc = some ps := by
  intro rest
  induction rest with
  | nil =>
    intro level acc ps _ h _
    simpa only [paramsOfBytes.go] using h
  | cons b rest ih =>
    intro level acc ps hl h hlim
    simp only [paramsOfBytes.go] at h ⊢
    split at h
    · rename_i hb; simp only [hb, if_true]; exact h
    · rename_i hb
      simp only [hb]
      split at h
      · rename_i lms ots hlms hots
        split at h
        · obtain ⟨more, hm⟩ := paramsOfBytes_go_prefix _ _ _ _ _ _ h
          have hlen : acc.length < ps.length := by rw [hm]; simp
          have hw := hlim acc.length hlen (Nat.le_refl _)
          have hget : ps[acc.length] = ⟨ots, lms⟩ := by
            simp only [hm, List.append_assoc, List.singleton_append]
            rw [List.getElem_append_right (Nat.le_refl _)]
            simp
          rw [hget, ← hl] at hw
          simp only [hw, if_true]
          exact ih _ _ _ (by simp [hl]) h (fun i hi hle => hlim i hi (by simp at hle; omega))
        · simp at h
      · simp at h

/-! ### the capacities suffice -/

theorem lms_signature_length_mono {n n' p p' h h' : Nat} (hn : n ≤ n') (hp : p ≤ p') (hh : h ≤ h') :
    lms_signature_length n p h ≤ lms_signature_length n' p' h' := by
  unfold lms_signature_length lmots_signature_length
  have := Nat.mul_le_mul hn hp
  have := Nat.mul_le_mul hn hh
  omega

/-- signature length the configuration reserves for level `level` -/
def levelSigCap (c : Config) (level : Nat) : Nat :=
  lms_signature_length MAX_HASH_SIZE (chains32 (c.winternitz.getD level 0)) (c.heights.getD level 0)

/-- **A2**: per-level facts for a well-formed configuration -/
theorem level_caps {cfg : Config} (hwf : cfg.wellFormed = true) {n i : Nat} {p : HssParam}
    (hok : LevelOk cfg n i p) :
    i < cfg.maxLevels ∧ p.lms.h ≤ cfg.heights.getD i 0 ∧ cfg.heights.getD i 0 ≤ cfg.maxTreeHeight ∧
    cfg.winternitz.getD i 0 ≤ p.ots.w ∧ cfg.minWinternitz ≤ cfg.winternitz.getD i 0 ∧
    p.ots.p ≤ chains32 (cfg.winternitz.getD i 0) ∧ p.ots.p ≤ cfg.maxChains ∧ p.lms.h ≤ cfg.maxTreeHeight ∧
    n ≤ MAX_HASH_SIZE ∧
    lms_signature_length n p.ots.p p.lms.h ≤ levelSigCap cfg i ∧
    lms_signature_length n p.ots.p p.lms.h ≤ cfg.maxLmsSigLen := by
  have hw := hok.within
  simp only [Config.withinLimits, Bool.and_eq_true, decide_eq_true_eq, ge_iff_le] at hw
  obtain ⟨⟨hi, hh⟩, hwle⟩ := hw
  have hmax := height_le_max (wellFormed_valid hwf) hi
  have hmin := (minWinternitz_facts hwf).2 i hi
  have hp := ots_row_chains_le hok.ots (wellFormed_w hwf hi) hwle
  have hc := chains32_level_le hwf hi
  have hn : n ≤ MAX_HASH_SIZE := by
    rcases ots_row_n hok.ots with h | h | h <;> simp [h, MAX_HASH_SIZE]
  refine ⟨hi, hh, hmax, hwle, hmin, hp, by omega, by omega, hn, ?_, ?_⟩
  · exact lms_signature_length_mono hn hp hh
  · exact lms_signature_length_mono hn (by omega) (by omega)

theorem params_length_le {cfg : Config} {n : Nat} {ps : List HssParam} (hok : ParamsOk cfg n ps) :
    1 ≤ ps.length ∧ ps.length ≤ cfg.maxLevels := by
  have h1 : 1 ≤ ps.length := by
    cases ps with
    | nil => exact absurd rfl hok.ne
    | cons _ _ => simp
  have hw := (hok.level (ps.length - 1) (by omega)).within
  simp only [Config.withinLimits, Bool.and_eq_true, decide_eq_true_eq] at hw
  omega

theorem params_n {cfg : Config} {n : Nat} {ps : List HssParam} (hok : ParamsOk cfg n ps) :
    n = 16 ∨ n = 24 ∨ n = 32 := by
  have h1 := (params_length_le hok).1
  exact ots_row_n (hok.level 0 (by omega)).ots

theorem maxHssSigLen_eq (c : Config) : c.maxHssSigLen =
    4 + ((List.range c.maxLevels).drop 1).foldl (fun acc level => acc + (levelSigCap c level + 56)) 0
      + levelSigCap c 0 := rfl

theorem maxHssSigLen_eq_sum (c : Config) : c.maxHssSigLen =
    4 + ((List.range' 1 (c.maxLevels - 1)).map fun level => levelSigCap c level + 56).sum + levelSigCap c 0 := by
  rw [maxHssSigLen_eq, foldl_addF_eq_sum]
  simp [List.range_eq_range']

theorem hssSigLen_eq_sum (n : Nat) (ps : List HssParam) : hssSigLen n ps =
    4 + (ps.map fun p => lms_signature_length n p.ots.p p.lms.h).sum + (ps.length - 1) * lms_public_key_length n := by
  unfold hssSigLen
  rw [foldl_add_eq_sum_L]
  simp

/-- termwise comparison of the levels `k, k+1, …` -/
theorem sum_levels_le (a : HssParam → Nat) (A : Nat → Nat) (c d : Nat) (hcd : c ≤ d) :
    ∀ (ps : List HssParam) (k : Nat), (∀ i (h : i < ps.length), a ps[i] ≤ A (k + i)) →
      (ps.map a).sum + ps.length * c ≤ ((List.range' k ps.length).map fun l => A l + d).sum := by
  intro ps
  induction ps with
  | nil => intro k _; simp
  | cons p ps ih =>
    intro k h
    have h0 := h 0 (by simp)
    have ih' := ih (k + 1) (fun i hi => by
      have := h (i + 1) (by simp; omega)
      simpa [Nat.add_assoc, Nat.add_comm 1 i] using this)
    simp only [List.length_cons, List.range'_succ, List.map_cons, List.sum_cons, Nat.succ_mul]
    simp only [List.getElem_cons_zero, Nat.add_zero] at h0
    omega

/-- **A3**: the signature of an accepted parameter list fits `MAX_HSS_SIGNATURE_LENGTH` -/
theorem hssSigLen_le_max {cfg : Config} (hwf : cfg.wellFormed = true) {n : Nat} {ps : List HssParam}
    (hok : ParamsOk cfg n ps) : hssSigLen n ps ≤ cfg.maxHssSigLen := by
  obtain ⟨hL1, hLM⟩ := params_length_le hok
  have hn : n ≤ 32 := by rcases params_n hok with h | h | h <;> omega
  rw [hssSigLen_eq_sum, maxHssSigLen_eq_sum]
  cases hps : ps with
  | nil => exact absurd hps hok.ne
  | cons p0 rest =>
    have hlen : ps.length = rest.length + 1 := by rw [hps]; simp
    have h0 : lms_signature_length n p0.ots.p p0.lms.h ≤ levelSigCap cfg 0 := by
      have := (level_caps hwf (hok.level 0 (by omega))).2.2.2.2.2.2.2.2.2.1
      simpa [hps] using this
    have hrest := sum_levels_le (fun p => lms_signature_length n p.ots.p p.lms.h) (levelSigCap cfg)
      (lms_public_key_length n) 56 (by simp [lms_public_key_length, ILEN]; omega) rest 1
      (fun i hi => by
        have := (level_caps hwf (hok.level (i + 1) (by omega))).2.2.2.2.2.2.2.2.2.1
        simpa [hps, Nat.add_comm 1 i] using this)
    have hsplit : List.range' 1 (cfg.maxLevels - 1) =
        List.range' 1 rest.length ++ List.range' (1 + rest.length) (cfg.maxLevels - 1 - rest.length) := by
      rw [List.range'_append_1]; congr; omega
    rw [hsplit, List.map_append, List.sum_append]
    simp only [List.map_cons, List.sum_cons, List.length_cons, Nat.add_sub_cancel]
    omega

/-! ### round trip: `CompressedParameterSet::from` followed by `CompressedParameterSet::to` -/

theorem mapM_ok' {α β : Type} (f : α → P β) (g : α → β) (l : List α) (h : ∀ x ∈ l, f x = .ok (g x)) :
    l.mapM f = .ok (l.map g) := by
  induction l with
  | nil => simp [pure, Except.pure]
  | cons a t ih =>
    have h1 := h a (by simp)
    have h2 := ih (fun x hx => h x (by simp [hx]))
    simp [List.mapM_cons, h1, h2, bind, Except.bind, pure, Except.pure]


def OtsRowRT (n : Nat) (p : LmotsParam) : Bool :=
  decide (Params.lmotsFromU32 n p.typeId = some p) && decide (p.typeId < 15)

theorem all_ots_rows_rt : allOtsRows.all (fun x => OtsRowRT x.1 x.2) = true := by decide +kernel

def LmsRowRT (p : LmsParam) : Bool := decide (Params.lmsFromU32 p.typeId = some p) && decide (p.typeId < 16)

theorem all_lms_rows_rt : allLmsRows.all LmsRowRT = true := by decide +kernel

theorem lms_row_mem {p : LmsParam} (h : IsLmsRow p) : p ∈ allLmsRows := by
  obtain ⟨v, h0⟩ := h
  have h1 := h0
  simp only [Params.lmsConstruct, Option.bind_eq_bind, Option.bind_eq_some_iff] at h1
  obtain ⟨row, hrow, _⟩ := h1
  unfold allLmsRows
  rw [List.mem_filterMap]
  exact ⟨v, List.mem_map.mpr ⟨_, lookup_some_mem hrow, rfl⟩, h0⟩

theorem ots_row_rt {n : Nat} {p : LmotsParam} (h : IsOtsRow n p) :
    Params.lmotsFromU32 n p.typeId = some p ∧ p.typeId < 15 := by
  obtain ⟨v, hv⟩ := h
  have := List.all_eq_true.mp all_ots_rows_rt (n, p) (construct_some_mem hv)
  simpa [OtsRowRT] using this

theorem lms_row_rt {p : LmsParam} (h : IsLmsRow p) : Params.lmsFromU32 p.typeId = some p ∧ p.typeId < 16 := by
  have := List.all_eq_true.mp all_lms_rows_rt p (lms_row_mem h)
  simpa [LmsRowRT] using this

/-- the compressed byte of one level -/
def paramByte (p : HssParam) : UInt8 := UInt8.ofNat (((p.lms.typeId % 256) <<< 4) % 256 + p.ots.typeId % 256)

theorem paramByte_facts {n : Nat} {p : HssParam} (ho : IsOtsRow n p.ots) (hl : IsLmsRow p.lms) :
    (paramByte p).toNat ≠ PARAM_SET_END ∧ Params.lmsFromU32 ((paramByte p).toNat >>> 4) = some p.lms ∧
    Params.lmotsFromU32 n ((paramByte p).toNat &&& 0x0f) = some p.ots := by
  obtain ⟨h1, h2⟩ := ots_row_rt ho
  obtain ⟨h3, h4⟩ := lms_row_rt hl
  have hv : (paramByte p).toNat = p.lms.typeId * 16 + p.ots.typeId := by
    simp only [paramByte, UInt8.toNat_ofNat', Nat.shiftLeft_eq]
    omega
  have hand : (p.lms.typeId * 16 + p.ots.typeId) &&& 15 = (p.lms.typeId * 16 + p.ots.typeId) % 16 :=
    Nat.and_two_pow_sub_one_eq_mod _ 4
  rw [hv, Nat.shiftRight_eq_div_pow, hand]
  have e1 : (p.lms.typeId * 16 + p.ots.typeId) / 2 ^ 4 = p.lms.typeId := by omega
  have e2 : (p.lms.typeId * 16 + p.ots.typeId) % 16 = p.ots.typeId := by omega
  rw [e1, e2]
  exact ⟨by simp only [PARAM_SET_END]; omega, h3, h1⟩

theorem paramsOfBytes_go_roundtrip (cfg : Config) (n : Nat) (pad : Bytes)
    (hpad : pad = [] ∨ ∃ t, pad = UInt8.ofNat PARAM_SET_END :: t) :
    ∀ (ps' : List HssParam) (level : Nat) (acc : List HssParam), level = acc.length →
      (∀ p ∈ ps', IsOtsRow n p.ots ∧ IsLmsRow p.lms) →
      (∀ j (h : j < ps'.length), cfg.withinLimits (acc.length + j) ps'[j] = true) →
      acc ++ ps' ≠ [] → sigLenSupported n (acc ++ ps') = true →
      paramsOfBytes.go cfg n level (ps'.map paramByte ++ pad) acc = some (acc ++ ps') := by
  intro ps'
  induction ps' with
  | nil =>
    intro level acc _ _ _ hne hsl
    simp only [List.append_nil] at hne hsl
    have hfin : (if (acc.isEmpty || !sigLenSupported n acc) = true then none else some acc) = some (acc ++ []) := by
      have : acc.isEmpty = false := by simpa using hne
      simp [this, hsl]
    rcases hpad with rfl | ⟨t, rfl⟩
    · simpa only [List.map_nil, List.nil_append, paramsOfBytes.go] using hfin
    · simp only [List.map_nil, List.nil_append, paramsOfBytes.go]
      have : ((UInt8.ofNat PARAM_SET_END).toNat == PARAM_SET_END) = true := by decide
      simp only [this, if_true]
      exact hfin
  | cons p ps'' ih =>
    intro level acc hl hrows hlim hne hsl
    obtain ⟨ho, hlm⟩ := hrows p (by simp)
    obtain ⟨hb, h1, h2⟩ := paramByte_facts ho hlm
    have hb' : ((paramByte p).toNat == PARAM_SET_END) = false := by simpa using hb
    have hw : cfg.withinLimits level ⟨p.ots, p.lms⟩ = true := by
      have := hlim 0 (by simp)
      simpa [hl] using this
    simp only [List.map_cons, List.cons_append, paramsOfBytes.go, hb', h1, h2, hw, if_true, Bool.false_eq_true, if_false]
    have := ih (level + 1) (acc ++ [p]) (by simp [hl]) (fun q hq => hrows q (by simp [hq]))
      (fun j hj => by
        have := hlim (j + 1) (by simp; omega)
        simpa [Nat.add_assoc, Nat.add_comm 1 j] using this)
      (by simp) (by simpa using hsl)
    simpa using this

/-- a list of table rows inside the limits survives the round trip through the compressed parameter bytes -/
theorem bytesOfParams_roundtrip (cfg : Config) (n : Nat) (ps : List HssParam)
    (hrows : ∀ p ∈ ps, IsOtsRow n p.ots ∧ IsLmsRow p.lms) (hne : ps ≠ [])
    (hlen : ps.length ≤ cfg.maxLevels) (hlim : ∀ i (h : i < ps.length), cfg.withinLimits i ps[i] = true)
    (hsl : hssSigLen n ps ≤ 65535) :
    ∃ pb, bytesOfParams cfg n ps = .ok (some pb) ∧ paramsOfBytes cfg n pb = some ps ∧
      (ps.length ≤ 8 → pb.length = 8) := by
  have hsl' : sigLenSupported n ps = true := by simpa [sigLenSupported] using hsl
  refine ⟨ps.map paramByte ++ List.replicate (REF_IMPL_MAX_ALLOWED_HSS_LEVELS - ps.length) (UInt8.ofNat PARAM_SET_END),
    ?_, ?_, ?_⟩
  · unfold bytesOfParams
    rw [if_neg (by omega)]
    split
    · rename_i hall
      exfalso
      rw [Bool.not_eq_true', ← Bool.not_eq_true] at hall
      apply hall
      apply List.all_eq_true.mpr
      intro i hi
      have hi' : i < ps.length := List.mem_range.mp hi
      simp only [List.getElem?_eq_getElem hi']
      exact hlim i hi'
    · have hm : ∀ x ∈ ps, (do
          let v := ((x.lms.typeId % 256) <<< 4) % 256 + x.ots.typeId % 256
          P.require "hss/reference_impl_private_key.rs:CompressedParameterSet::from u8 overflow" (v < 256)
          pure (UInt8.ofNat v) : P UInt8) = .ok (paramByte x) := by
        intro x hx
        obtain ⟨ho, hl⟩ := hrows x hx
        have h1 := (ots_row_rt ho).2
        have h2 := (lms_row_rt hl).2
        have : ((x.lms.typeId % 256) <<< 4) % 256 + x.ots.typeId % 256 < 256 := by
          rw [Nat.shiftLeft_eq]; omega
        simp [P.require, this, bind, Except.bind, pure, Except.pure, paramByte]
      rw [mapM_ok' _ paramByte ps hm]
      simp only [bind, Except.bind, hsl', Bool.not_true, Bool.false_eq_true, if_false, List.length_map, pure, Except.pure]
  · unfold paramsOfBytes
    have := paramsOfBytes_go_roundtrip cfg n
      (List.replicate (REF_IMPL_MAX_ALLOWED_HSS_LEVELS - ps.length) (UInt8.ofNat PARAM_SET_END))
      (by
        cases hk : REF_IMPL_MAX_ALLOWED_HSS_LEVELS - ps.length with
        | zero => left; simp
        | succ k => right; exact ⟨List.replicate k (UInt8.ofNat PARAM_SET_END), by simp [List.replicate_succ]⟩)
      ps 0 [] rfl hrows (by simpa using hlim) (by simpa using hne) (by simpa using hsl')
    simpa using this
  · intro h8
    simp [REF_IMPL_MAX_ALLOWED_HSS_LEVELS]
    omega

end Lemmas

/-
Facts about the regenerated parameter tables. They are proved by kernel evaluation over the *whole* (finite)
table and lifted to `∀ n t` by lookup lemmas; if a table entry changes, the `decide` below is what breaks.
-/
import HbsLms.Lemmas.Basic

namespace Lemmas

open Impl Generated

/-- everything the verifier / signer needs from an LM-OTS row for hash length `n` -/
def OtsRowGood (n : Nat) (p : LmotsParam) : Bool :=
  (p.w == 1 || p.w == 2 || p.w == 4 || p.w == 8) &&
  decide (p.p * p.w ≤ 8 * n + 16) && decide (8 * n ≤ p.p * p.w) &&
  decide ((8 * n / p.w) * (2 ^ p.w - 1) < 65536) &&
  decide (n ≤ MAX_HASH_SIZE) && decide (0 < n) &&
  decide (p.p ≤ (Params.chains p.w MAX_HASH_SIZE).getD 0) && decide (p.ls ≤ 8) &&
  decide (n * (1 + p.p) + 4 < 65536)

/-- hash lengths for which a chain count exists -/
def hashLens : List Nat := chainOIndex.map (·.1)

/-- every row any lookup can produce -/
def allOtsRows : List (Nat × LmotsParam) :=
  hashLens.flatMap fun n => (lmotsConstruct.map (·.1)).filterMap fun v => (Params.lmotsConstruct n v).map fun p => (n, p)

theorem all_ots_rows_good : allOtsRows.all (fun x => OtsRowGood x.1 x.2) = true := by decide +kernel

theorem chains_some_mem {w n c : Nat} (h : Params.chains w n = some c) : n ∈ hashLens := by
  simp only [Params.chains, Option.bind_eq_bind, Option.bind_eq_some_iff] at h
  obtain ⟨wi, _, oi, ho, _⟩ := h
  exact List.mem_map.mpr ⟨_, lookup_some_mem ho, rfl⟩

theorem construct_some_mem {n : Nat} {v : String} {p : LmotsParam} (h : Params.lmotsConstruct n v = some p) :
    (n, p) ∈ allOtsRows := by
  have h0 := h
  simp only [Params.lmotsConstruct, Option.bind_eq_bind, Option.bind_eq_some_iff] at h
  obtain ⟨row, hrow, r4, _, c, hc, _⟩ := h
  have hv : v ∈ lmotsConstruct.map (·.1) := List.mem_map.mpr ⟨_, lookup_some_mem hrow, rfl⟩
  have hn : n ∈ hashLens := chains_some_mem hc
  unfold allOtsRows
  rw [List.mem_flatMap]
  refine ⟨n, hn, ?_⟩
  rw [List.mem_filterMap]
  refine ⟨v, hv, ?_⟩
  rw [h0]
  rfl

/-- every row a type-code lookup returns is good -/
theorem ots_row_good {n t : Nat} {p : LmotsParam} (h : Params.lmotsGetFromType n t = some p) :
    OtsRowGood n p = true := by
  simp only [Params.lmotsGetFromType, Option.bind_eq_bind, Option.bind_eq_some_iff] at h
  obtain ⟨v, _, hc⟩ := h
  have h1 : ∀ x ∈ allOtsRows, OtsRowGood x.1 x.2 = true :=
    fun x hx => List.all_eq_true.mp all_ots_rows_good x hx
  exact h1 (n, p) (construct_some_mem hc)

/-- LMS rows: heights are at most 25 (so node numbers fit in 32 bits, shifts are small) -/
def allLmsRows : List LmsParam := (lmsConstruct.map (·.1)).filterMap Params.lmsConstruct

theorem all_lms_rows_good : allLmsRows.all (fun p => decide (p.h ≤ 25) && decide (0 < p.h)) = true := by decide +kernel

theorem lms_row_good {t : Nat} {p : LmsParam} (h : Params.lmsGetFromType t = some p) : p.h ≤ 25 ∧ 0 < p.h := by
  simp only [Params.lmsGetFromType, Option.bind_eq_bind, Option.bind_eq_some_iff] at h
  obtain ⟨v, _, h0⟩ := h
  have h1 := h0
  simp only [Params.lmsConstruct, Option.bind_eq_bind, Option.bind_eq_some_iff] at h1
  obtain ⟨row, hrow, _⟩ := h1
  have hmem : p ∈ allLmsRows := by
    unfold allLmsRows
    rw [List.mem_filterMap]
    exact ⟨v, List.mem_map.mpr ⟨_, lookup_some_mem hrow, rfl⟩, h0⟩
  have := List.all_eq_true.mp all_lms_rows_good _ hmem
  simpa using this

end Lemmas

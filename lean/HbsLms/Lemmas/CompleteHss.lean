/-
Completeness, level 4 (HSS): the signed public keys assembled by `expandPrivateKey` form a chain in which the key
serialised in link `i` verifies link `i+1`; the HSS signature assembled by `signPrepare` parses and verifies under
the verifying key that `hssKeygen` produces for the same seed and parameters.
-/
import HbsLms.Lemmas.CompleteLms

namespace Lemmas.Complete

open Impl Generated Lemmas

/-! ### parameter tables -/

theorem all_ots_rows_roundtrip :
    allOtsRows.all (fun x => decide (Params.lmotsGetFromType x.1 x.2.typeId = some x.2) && decide (16 ≤ x.1)) = true := by
  decide +kernel

theorem all_lms_rows_roundtrip :
    allLmsRows.all (fun p => decide (Params.lmsGetFromType p.typeId = some p)) = true := by decide +kernel

theorem lmotsFromU32_good {n t : Nat} {p : LmotsParam} (h : Params.lmotsFromU32 n t = some p) :
    Params.lmotsGetFromType n p.typeId = some p ∧ 16 ≤ n := by
  unfold Params.lmotsFromU32 at h
  have hm := construct_some_mem h
  have := List.all_eq_true.mp all_ots_rows_roundtrip _ hm
  simpa using this

theorem lmsFromU32_good {t : Nat} {p : LmsParam} (h : Params.lmsFromU32 t = some p) :
    Params.lmsGetFromType p.typeId = some p := by
  unfold Params.lmsFromU32 at h
  have h1 := h
  simp only [Params.lmsConstruct, Option.bind_eq_bind, Option.bind_eq_some_iff] at h1
  obtain ⟨row, hrow, _⟩ := h1
  have hmem : p ∈ allLmsRows := by
    unfold allLmsRows
    rw [List.mem_filterMap]
    exact ⟨_, List.mem_map.mpr ⟨_, lookup_some_mem hrow, rfl⟩, h⟩
  have := List.all_eq_true.mp all_lms_rows_roundtrip _ hmem
  simpa using this

/-- an HSS level whose two parameters are table rows (for a hash length the tables know) -/
structure GoodParam (n : Nat) (p : HssParam) : Prop where
  ots : Params.lmotsGetFromType n p.ots.typeId = some p.ots
  lms : Params.lmsGetFromType p.lms.typeId = some p.lms
  n16 : 16 ≤ n

theorem paramsGo_inv (cfg : Config) (n : Nat) : ∀ (rest : Bytes) (level : Nat) (acc ps : List HssParam),
    paramsOfBytes.go cfg n level rest acc = some ps →
    acc.length = level → level ≤ cfg.maxLevels → (∀ p ∈ acc, GoodParam n p) →
    ps ≠ [] ∧ sigLenSupported n ps = true ∧ (∀ p ∈ ps, GoodParam n p) ∧ ps.length ≤ cfg.maxLevels := by
  intro rest
  induction rest with
  | nil =>
    intro level acc ps h hl hm hg
    simp only [paramsOfBytes.go] at h
    split at h
    · simp at h
    · rename_i hc
      simp only [Option.some.injEq] at h
      subst h
      simp only [Bool.or_eq_true, Bool.not_eq_true', not_or, Bool.not_eq_true, Bool.not_eq_false,
        List.isEmpty_eq_false_iff] at hc
      exact ⟨hc.1, hc.2, hg, by omega⟩
  | cons b rest ih =>
    intro level acc ps h hl hm hg
    simp only [paramsOfBytes.go] at h
    split at h
    · split at h
      · simp at h
      · rename_i hc
        simp only [Option.some.injEq] at h
        subst h
        simp only [Bool.or_eq_true, Bool.not_eq_true', not_or, Bool.not_eq_true, Bool.not_eq_false,
          List.isEmpty_eq_false_iff] at hc
        exact ⟨hc.1, hc.2, hg, by omega⟩
    · split at h
      · rename_i lms ots hlms hots
        split at h
        · rename_i hw
          have hlt : level < cfg.maxLevels := by
            simp only [Config.withinLimits, Bool.and_eq_true, decide_eq_true_eq] at hw
            exact hw.1.1
          refine ih (level + 1) (acc ++ [⟨ots, lms⟩]) ps h (by simp [hl]) (by omega) ?_
          intro p hp
          rw [List.mem_append] at hp
          rcases hp with hp | hp
          · exact hg p hp
          · simp only [List.mem_singleton] at hp
            subst hp
            obtain ⟨h1, h2⟩ := lmotsFromU32_good hots
            exact ⟨h1, lmsFromU32_good hlms, h2⟩
        · simp at h
      · simp at h

theorem paramsOfBytes_inv {cfg : Config} {n : Nat} {bs : Bytes} {ps : List HssParam}
    (h : paramsOfBytes cfg n bs = some ps) :
    ps ≠ [] ∧ sigLenSupported n ps = true ∧ (∀ p ∈ ps, GoodParam n p) ∧ ps.length ≤ cfg.maxLevels :=
  paramsGo_inv cfg n bs 0 [] ps h rfl (Nat.zero_le _) (by simp)

theorem levels_lt_of_sigLen {n : Nat} {ps : List HssParam} (h : sigLenSupported n ps = true) : ps.length ≤ 65536 := by
  simp only [sigLenSupported, hssSigLen, lms_public_key_length, ILEN] at h
  have h := of_decide_eq_true h
  have : ps.length - 1 ≤ (ps.length - 1) * (4 + 4 + 16 + n) := Nat.le_mul_of_pos_right _ (by omega)
  omega

/-! ### the chain of signed public keys built by `expandPrivateKey` -/

/-- serialised public key of a tree -/
def pkBytes (H : HashFn) (k : LmsKey) : Bytes := lmsPublicKeyBytes k (T H k k.lms.h 1)

/-- randomizer with which a level signs its child's public key -/
def linkC (H : HashFn) (parent : Level) : Bytes :=
  signatureRandomizer H (childSeedAndId H parent.key.seed parent.key.I parent.q).1
    (childSeedAndId H parent.key.seed parent.key.I parent.q).2 parent.q

theorem seedDerive_length (H : HashFn) (seed I : Bytes) (q j : Nat) : (seedDerive H seed I q j).length = H.n := by
  unfold seedDerive; exact H.len_h _

theorem linkC_length (H : HashFn) (parent : Level) : (linkC H parent).length = H.n := by
  unfold linkC signatureRandomizer; exact seedDerive_length _ _ _ _ _

/-- the signatures over the children's public keys, top down -/
def sigsOf (H : HashFn) : Level → List Level → List Bytes
  | _, [] => []
  | parent, c :: cs => lmsSigBytes H parent.key parent.q (pkBytes H c.key) (linkC H parent) :: sigsOf H c cs

/-- every signing level of the chain uses a leaf inside its tree -/
def qsOk : Level → List Level → Prop
  | _, [] => True
  | parent, c :: cs => parent.q < 2 ^ parent.key.lms.h ∧ qsOk c cs

/-- the last level of a chain -/
def lastLevel : Level → List Level → Level
  | parent, [] => parent
  | _, c :: cs => lastLevel c cs

theorem sigsOf_length (H : HashFn) : ∀ (cs : List Level) (parent : Level), (sigsOf H parent cs).length = cs.length := by
  intro cs
  induction cs with
  | nil => intro _; rfl
  | cons c cs ih => intro _; simp [sigsOf, ih]

theorem go_spec (H : HashFn) (cfg : Config) (leaves : List Nat) : ∀ (rest : List HssParam) (i : Nat) (parent : Level)
    (acc : Expanded) (live : Bool) (ex : Expanded) (e : Option ExpAux),
    OtsRowGood H.n parent.key.ots = true → (∀ p ∈ rest, GoodParam H.n p) →
    expandPrivateKey.go H cfg leaves i rest parent acc none live = .ok (some (ex, e)) →
    e = none ∧ ∃ children : List Level,
      ex = ⟨acc.levels ++ children, acc.pubs ++ children.map (fun c => pkBytes H c.key),
            acc.sigs ++ sigsOf H parent children⟩ ∧
      children.length = rest.length ∧ (∀ c ∈ children, GoodKey H.n c.key) ∧ qsOk parent children := by
  intro rest
  induction rest with
  | nil =>
    intro i parent acc live ex e _ _ h
    simp only [expandPrivateKey.go, pure, Except.pure, Except.ok.injEq, Option.some.injEq, Prod.mk.injEq] at h
    refine ⟨h.2.symm, [], ?_, rfl, by simp, trivial⟩
    rw [← h.1]
    simp [sigsOf]
  | cons p rest ih =>
    intro i parent acc live ex e hrow hgood h
    simp only [expandPrivateKey.go, treeNode_root, bind, Except.bind, P.require] at h
    have hp : GoodParam H.n p := hgood p (by simp)
    split at h
    · simp at h
    · split at h
      · simp at h
      · rename_i v hv
        split at h
        · simp [pure, Except.pure] at h
        · rename_i sig aux'
          simp only [ite_self] at hv
          obtain ⟨hq, hsig, ha⟩ := lmsSign_some hrow (by
            unfold signatureRandomizer; exact seedDerive_length _ _ _ _ _) hv
          subst ha
          simp only [ite_self] at h
          have hchild : GoodKey H.n
              { I := (childSeedAndId H parent.key.seed parent.key.I parent.q).snd,
                seed := (childSeedAndId H parent.key.seed parent.key.I parent.q).fst, ots := p.ots, lms := p.lms } := by
            refine ⟨hp.ots, hp.lms, ?_⟩
            have h16 := hp.n16
            simp only [childSeedAndId, List.length_take, seedDerive_length, ILEN]
            omega
          obtain ⟨he, children, hex, hlen, hall, hqs⟩ := ih _ _ _ _ _ _ (ots_row_good hp.ots)
            (fun p' hp' => hgood p' (by simp [hp'])) h
          refine ⟨he, _ :: children, ?_, by simp [hlen], ?_, ⟨hq, hqs⟩⟩
          · rw [hex, hsig]
            simp [sigsOf, pkBytes, linkC, List.append_assoc]
          · intro c hc
            rw [List.mem_cons] at hc
            rcases hc with rfl | hc
            · exact hchild
            · exact hall c hc

/-! ### the verifier on such a chain -/

/-- the signed public keys in parsed form -/
def spksOf (H : HashFn) : Level → List Level → List (InMemLmsSig × InMemLmsPk)
  | _, [] => []
  | parent, c :: cs =>
    (lmsSigParsed H parent.key parent.q (pkBytes H c.key) (linkC H parent), lmsPkParsed H c.key) :: spksOf H c cs

/-- the signed public keys as they are serialised into the HSS signature -/
def spkBytes (H : HashFn) : Level → List Level → Bytes
  | _, [] => []
  | parent, c :: cs =>
    lmsSigBytes H parent.key parent.q (pkBytes H c.key) (linkC H parent) ++ pkBytes H c.key ++ spkBytes H c cs

theorem spkBytes_eq (H : HashFn) : ∀ (cs : List Level) (parent : Level),
    (List.zipWith (· ++ ·) (sigsOf H parent cs) (cs.map fun c => pkBytes H c.key)).flatten = spkBytes H parent cs := by
  intro cs
  induction cs with
  | nil => intro _; simp [sigsOf, spkBytes]
  | cons c cs ih => intro parent; simp [sigsOf, spkBytes, ih, List.append_assoc]

theorem parseSignedPk_link (H : HashFn) (parent c : Level) (more : Bytes) (gp : GoodKey H.n parent.key)
    (gc : GoodKey H.n c.key) (hq : parent.q < 2 ^ parent.key.lms.h) :
    parseSignedPk H.n (lmsSigBytes H parent.key parent.q (pkBytes H c.key) (linkC H parent) ++ pkBytes H c.key ++ more)
      = some (lmsSigParsed H parent.key parent.q (pkBytes H c.key) (linkC H parent), lmsPkParsed H c.key,
          (lmsSigBytes H parent.key parent.q (pkBytes H c.key) (linkC H parent) ++ pkBytes H c.key).length) := by
  unfold parseSignedPk
  have hC := linkC_length H parent
  rw [List.append_assoc, lmsSig_parse H parent.key parent.q _ _ _ gp hC hq]
  simp only [Option.bind_eq_bind, Option.bind_some, lmsSigParsed_len]
  rw [← lmsSigBytes_length H parent.key parent.q (pkBytes H c.key) (linkC H parent) hC, List.drop_left]
  unfold pkBytes
  rw [lmsPk_parse H c.key more gc]
  simp only [Option.bind_some, pure, List.length_append, lmsPk_length H c.key gc]

theorem parseSignedPks_chain (H : HashFn) : ∀ (cs : List Level) (parent : Level) (tail : Bytes)
    (acc : List (InMemLmsSig × InMemLmsPk)), GoodKey H.n parent.key → (∀ c ∈ cs, GoodKey H.n c.key) → qsOk parent cs →
    parseSignedPks H.n cs.length (spkBytes H parent cs ++ tail) acc = some (acc ++ spksOf H parent cs, tail) := by
  intro cs
  induction cs with
  | nil => intro parent tail acc _ _ _; simp [parseSignedPks, spkBytes, spksOf]
  | cons c cs ih =>
    intro parent tail acc gp hall hqs
    have gc : GoodKey H.n c.key := hall c (by simp)
    simp only [List.length_cons, parseSignedPks, spkBytes]
    rw [List.append_assoc, parseSignedPk_link H parent c _ gp gc hqs.1]
    simp only []
    rw [List.drop_left, ih c tail _ gc (fun c' hc' => hall c' (by simp [hc'])) hqs.2]
    simp [spksOf]

theorem verifyChain_chain (H : HashFn) : ∀ (cs : List Level) (parent : Level), GoodKey H.n parent.key →
    (∀ c ∈ cs, GoodKey H.n c.key) → qsOk parent cs →
    verifyChain H (spksOf H parent cs) (lmsPkParsed H parent.key)
      = .ok (some (lmsPkParsed H (lastLevel parent cs).key)) := by
  intro cs
  induction cs with
  | nil => intro parent _ _ _; rfl
  | cons c cs ih =>
    intro parent gp hall hqs
    have gc : GoodKey H.n c.key := hall c (by simp)
    simp only [spksOf, verifyChain, lastLevel]
    have hv := lmsVerify_released H parent.key parent.q (pkBytes H c.key) (linkC H parent) gp hqs.1
    have hcomp : (lmsPkParsed H c.key).complete = pkBytes H c.key := rfl
    rw [hcomp, hv]
    simp only [bind, Except.bind, if_true]
    exact ih c gc (fun c' hc' => hall c' (by simp [hc'])) hqs.2

theorem lastLevel_good {n : Nat} : ∀ (cs : List Level) (parent : Level), GoodKey n parent.key →
    (∀ c ∈ cs, GoodKey n c.key) → GoodKey n (lastLevel parent cs).key := by
  intro cs
  induction cs with
  | nil => intro parent gp _; exact gp
  | cons c cs ih =>
    intro parent _ hall
    exact ih c (hall c (by simp)) (fun c' hc' => hall c' (by simp [hc']))

theorem getLast?_cons_eq_lastLevel : ∀ (cs : List Level) (parent : Level),
    (parent :: cs).getLast? = some (lastLevel parent cs) := by
  intro cs
  induction cs with
  | nil => intro _; rfl
  | cons c cs ih => intro parent; rw [List.getLast?_cons_cons, ih c]; rfl

/-- the verifier accepts a chain of signed public keys followed by a signature of the bottom level -/
theorem hssVerify_chain (H : HashFn) (cfg : Config) (top : Level) (children : List Level) (msg C : Bytes)
    (gt : GoodKey H.n top.key) (hall : ∀ c ∈ children, GoodKey H.n c.key) (hqs : qsOk top children)
    (hC : C.length = H.n) (hqb : (lastLevel top children).q < 2 ^ (lastLevel top children).key.lms.h)
    (hL : children.length + 1 ≤ cfg.maxLevels) (hL32 : children.length + 1 < 2 ^ 32) :
    hssVerify H cfg msg
      (Bytes.u32be children.length ++ spkBytes H top children ++
        lmsSigBytes H (lastLevel top children).key (lastLevel top children).q msg C)
      (Bytes.u32be (children.length + 1) ++ pkBytes H top.key) = .ok true := by
  have gb := lastLevel_good children top gt hall
  -- the signature parses
  have hsig : InMemHssSig.parse cfg H.n
      (Bytes.u32be children.length ++ spkBytes H top children ++
        lmsSigBytes H (lastLevel top children).key (lastLevel top children).q msg C)
      = some ⟨children.length, spksOf H top children,
          lmsSigParsed H (lastLevel top children).key (lastLevel top children).q msg C⟩ := by
    unfold InMemHssSig.parse
    have r1 : readAt (Bytes.u32be children.length ++ spkBytes H top children ++
        lmsSigBytes H (lastLevel top children).key (lastLevel top children).q msg C) 4 0
        = some (Bytes.u32be children.length) :=
      readAt_of_eq (pre := []) (post := spkBytes H top children ++
        lmsSigBytes H (lastLevel top children).key (lastLevel top children).q msg C)
        (by simp [List.append_assoc]) rfl (u32be_length _).symm
    rw [r1]
    simp only [toNat_u32be (show children.length < 2 ^ 32 by omega)]
    have hlv : ¬ children.length > cfg.maxLevels - 1 := by omega
    simp only [hlv, if_false]
    rw [List.append_assoc, List.drop_left' (u32be_length _),
      parseSignedPks_chain H children top _ [] gt hall hqs]
    simp only [List.nil_append]
    have hp := lmsSig_parse H (lastLevel top children).key (lastLevel top children).q msg C [] gb hC hqb
    rw [List.append_nil] at hp
    rw [hp]
    simp only [lmsSigParsed_len, lmsSigBytes_length _ _ _ _ _ hC, bne_self_eq_false, Bool.false_eq_true, if_false]
  -- the verifying key parses
  have hpk : parseHssPk H.n (Bytes.u32be (children.length + 1) ++ pkBytes H top.key)
      = some (children.length + 1, lmsPkParsed H top.key) := by
    unfold parseHssPk
    have r1 : readAt (Bytes.u32be (children.length + 1) ++ pkBytes H top.key) 4 0
        = some (Bytes.u32be (children.length + 1)) :=
      readAt_of_eq (pre := []) (post := pkBytes H top.key) (by simp) rfl (u32be_length _).symm
    have hp := lmsPk_parse H top.key [] gt
    rw [List.append_nil] at hp
    rw [r1, List.drop_left' (u32be_length _)]
    unfold pkBytes
    simp only [Option.bind_eq_bind, Option.bind_some, hp, toNat_u32be hL32, List.length_append, u32be_length]
    have : (lmsPkParsed H top.key).complete = lmsPublicKeyBytes top.key (T H top.key top.key.lms.h 1) := rfl
    simp [this, pure]
  unfold hssVerify
  rw [hsig, hpk]
  simp only [hssVerifyParsed, bne_self_eq_false, Bool.false_eq_true, if_false]
  rw [verifyChain_chain H children top gt hall hqs]
  simp only [bind, Except.bind]
  exact lmsVerify_released H _ _ msg C gb hqb

/-! ### `expandPrivateKey`, `signPrepare`, `hssKeygen` -/

/-- the top-level tree key derived from the seed of the key blob -/
def rootKey (H : HashFn) (seed : Bytes) (p0 : HssParam) : LmsKey :=
  ⟨(rootSeedAndId H seed).2, (rootSeedAndId H seed).1, p0.ots, p0.lms⟩

theorem rootKey_good (H : HashFn) (seed : Bytes) (p0 : HssParam) (g : GoodParam H.n p0) : GoodKey H.n (rootKey H seed p0) := by
  refine ⟨g.ots, g.lms, ?_⟩
  have := g.n16
  simp only [rootKey, rootSeedAndId, List.length_take, H.len_h, ILEN]
  omega

theorem expandPrivateKey_spec {H : HashFn} {cfg : Config} {k : RefKey} {ex : Expanded} {e : Option ExpAux}
    (h : expandPrivateKey H cfg k none = .ok (some (ex, e))) :
    ∃ ps p0 q0 children, paramsOfBytes cfg H.n k.params = some ps ∧ ps.head? = some p0 ∧ e = none ∧
      ex = ⟨⟨rootKey H k.seed p0, q0⟩ :: children, children.map (fun c => pkBytes H c.key),
            sigsOf H ⟨rootKey H k.seed p0, q0⟩ children⟩ ∧
      children.length + 1 = ps.length ∧ (∀ c ∈ children, GoodKey H.n c.key) ∧
      qsOk ⟨rootKey H k.seed p0, q0⟩ children := by
  unfold expandPrivateKey at h
  cases hps : paramsOfBytes cfg H.n k.params with
  | none => simp [hps, pure, Except.pure] at h
  | some ps =>
    obtain ⟨hne, _, hgood, _⟩ := paramsOfBytes_inv hps
    cases ps with
    | nil => exact absurd rfl hne
    | cons p0 rest =>
      simp only [hps, List.head?_cons, List.tail_cons, rootSeedAndId] at h
      have g0 : GoodParam H.n p0 := hgood p0 (by simp)
      obtain ⟨he, children, hex, hlen, hall, hqs⟩ := go_spec H cfg _ rest 1 _ _ true ex e
        (ots_row_good g0.ots) (fun p hp => hgood p (by simp [hp])) h
      refine ⟨p0 :: rest, p0, _, children, rfl, rfl, he, ?_, by simp [hlen], hall, hqs⟩
      rw [hex]
      simp [rootKey, rootSeedAndId]

theorem map_range_getD_append (a b : List Bytes) (m : Nat) (ha : a.length = m) (hb : b.length = m) :
    (List.range m).map (fun i => a.getD i [] ++ b.getD i []) = List.zipWith (· ++ ·) a b := by
  apply List.ext_getElem
  · simp [ha, hb]
  · intro i h1 h2
    have hi : i < m := by simpa using h1
    simp [List.getD_eq_getElem?_getD, ha, hb, hi]

theorem signPrepare_verifies {H : HashFn} {cfg : Config} {msg : Bytes} {k : RefKey} {hs : List Nat} {sig : Bytes}
    {a : Option Bytes} {r : Bytes} (h : signPrepare H cfg msg k none = .ok (.ready hs sig a r)) :
    ∃ ps p0, paramsOfBytes cfg H.n k.params = some ps ∧ ps.head? = some p0 ∧
      hssVerify H cfg msg sig (Bytes.u32be ps.length ++ pkBytes H (rootKey H k.seed p0)) = .ok true := by
  unfold signPrepare at h
  cases hps : paramsOfBytes cfg H.n k.params with
  | none => simp [hps, pure, Except.pure] at h
  | some ps =>
    obtain ⟨hne, hsl, hgood, hmax⟩ := paramsOfBytes_inv hps
    cases ps with
    | nil => exact absurd rfl hne
    | cons p0 rest =>
      refine ⟨p0 :: rest, p0, rfl, rfl, ?_⟩
      simp only [hps, List.head?_cons, getExpandedAuxData, bind, Except.bind] at h
      cases hexp : expandPrivateKey H cfg k none with
      | error err => simp [hexp] at h
      | ok v =>
        cases v with
        | none => simp [hexp, pure, Except.pure] at h
        | some exe =>
          obtain ⟨ex, e1⟩ := exe
          obtain ⟨ps', p0', q0, children, hps', hp0', he, hex, hlen, hall, hqs⟩ := expandPrivateKey_spec hexp
          rw [hps] at hps'
          simp only [Option.some.injEq] at hps'
          subst hps'
          simp only [List.head?_cons, Option.some.injEq] at hp0'
          subst hp0'
          subst he
          subst hex
          simp only [hexp, getLast?_cons_eq_lastLevel, ite_self] at h
          have g0 : GoodParam H.n p0 := hgood p0 (by simp)
          have gt : GoodKey H.n (Level.mk (rootKey H k.seed p0) q0).key := rootKey_good H k.seed p0 g0
          have gb := lastLevel_good children _ gt hall
          have hmap : ∀ top : Level, List.map (fun i => (sigsOf H top children).getD i [] ++
              (List.map (fun c => pkBytes H c.key) children).getD i []) (List.range children.length)
              = List.zipWith (· ++ ·) (sigsOf H top children) (children.map fun c => pkBytes H c.key) :=
            fun top => map_range_getD_append _ _ _ (sigsOf_length H children top) (by simp)
          simp only [List.length_cons, Nat.add_sub_cancel, hmap, spkBytes_eq] at h
          have hC : (signatureRandomizer H (lastLevel (Level.mk (rootKey H k.seed p0) q0) children).key.seed
              (lastLevel (Level.mk (rootKey H k.seed p0) q0) children).key.I
              (lastLevel (Level.mk (rootKey H k.seed p0) q0) children).q).length = H.n := by
            unfold signatureRandomizer; exact seedDerive_length _ _ _ _ _
          split at h
          · simp at h
          · rename_i v hv
            split at h
            · rename_i bsig e2'
              obtain ⟨hq, hbs, _⟩ := lmsSign_some gb.row hC hv
              simp only [P.require] at h
              split at h
              · simp at h
              · split at h
                · simp at h
                · split at h
                  · simp at h
                  · simp only [pure, Except.pure, Except.ok.injEq, Prepared.ready.injEq] at h
                    obtain ⟨_, hsig, _, _⟩ := h
                    subst hsig
                    subst hbs
                    have hl65 := levels_lt_of_sigLen hsl
                    have := hssVerify_chain H cfg _ children msg _ gt hall hqs hC hq (by omega) (by omega)
                    rw [hlen] at this
                    simpa [List.append_assoc] using this
            · simp [pure, Except.pure] at h

theorem hssKeygen_spec {H : HashFn} {cfg : Config} {ps0 : List HssParam} {seed skb vk : Bytes} {a0 : Option Bytes}
    {r0 : Bytes} (h : hssKeygen H cfg ps0 seed none = .ok ⟨some (skb, vk), a0, r0⟩) :
    ∃ pb ps p0, bytesOfParams cfg H.n ps0 = .ok (some pb) ∧ skb = (RefKey.mk 0 pb seed).bytes ∧
      paramsOfBytes cfg H.n pb = some ps ∧ ps.head? = some p0 ∧
      vk = Bytes.u32be ps.length ++ pkBytes H (rootKey H seed p0) := by
  unfold hssKeygen at h
  cases hb : bytesOfParams cfg H.n ps0 with
  | error e => simp [hb, bind, Except.bind] at h
  | ok v =>
    cases v with
    | none => simp [hb, bind, Except.bind, pure, Except.pure] at h
    | some pb =>
      simp only [hb, bind, Except.bind] at h
      cases hps : paramsOfBytes cfg H.n pb with
      | none => simp [hps, pure, Except.pure] at h
      | some ps =>
        cases ps with
        | nil => simp [hps, pure, Except.pure] at h
        | cons p0 rest =>
          refine ⟨pb, p0 :: rest, p0, rfl, ?_, hps, rfl, ?_⟩
          all_goals
            simp only [hps, List.head?_cons, getExpandedAuxData, treeNode_root, rootSeedAndId] at h
            split at h
            · simp [pure, Except.pure] at h
            · split at h
              · simp [pure, Except.pure] at h
              · simp only [pure, Except.pure, Except.ok.injEq, KeygenOutcome.mk.injEq, Option.some.injEq,
                  Prod.mk.injEq] at h
                first
                  | exact h.1.1.symm
                  | (rw [← h.1.2]; rfl)

end Lemmas.Complete

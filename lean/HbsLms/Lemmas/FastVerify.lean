/-
Lemmas for the worker side of the `fast_verify` feature (`Impl/FastVerifyWorker.lean`): `fast_verify_eval`
is total on digests and equals the sum of the digit vector; invariants of the worker loop. Core Lean only.
-/
import HbsLms.Impl.FastVerifyWorker
import HbsLms.Lemmas.Verify
import HbsLms.Lemmas.Digits

namespace Lemmas.FastVerify

open Impl Generated Lemmas

/-! ### index facts of a table row -/

theorem w_pos {n : Nat} {p : LmotsParam} (hg : OtsRowGood n p = true) : 0 < p.w := by
  rcases w_cases hg with h | h | h | h <;> omega

/-- the number of message digits times `w` is the digest length in bits -/
theorem max_mul {n : Nat} {p : LmotsParam} (hg : OtsRowGood n p = true) : (n * 8 / p.w) * p.w = 8 * n := by
  rcases w_cases hg with h | h | h | h <;> rw [h] <;> omega

/-- there are at least as many chains as message digits -/
theorem max_le_p {n : Nat} {p : LmotsParam} (hg : OtsRowGood n p = true) : n * 8 / p.w ≤ p.p := by
  obtain ⟨_, h2, _⟩ := row_facts hg
  rcases w_cases hg with h | h | h | h <;> rw [h] at h2 ⊢ <;> omega

/-- the repaired subtraction: every checksum digit has `index ≥ n` (so `index - n` cannot underflow; the
pre-repair `index - 32` underflows for `n = 16, 24` since then `index < n + 2 ≤ 32`) and `index - n` is
inside the two checksum bytes -/
theorem ck_digit_index {n : Nat} {p : LmotsParam} (hg : OtsRowGood n p = true) {i : Nat}
    (hlo : n * 8 / p.w ≤ i) (hhi : i < p.p) : n ≤ coefIndex i p.w ∧ coefIndex i p.w - n < 2 := by
  have h1 := all_digit_index hg hhi
  have h2 := max_mul hg
  have h3 : (n * 8 / p.w) * p.w ≤ i * p.w := Nat.mul_le_mul_right _ hlo
  have h4 : n ≤ coefIndex i p.w := by unfold coefIndex; omega
  exact ⟨h4, by omega⟩

/-! ### the two loops of `fast_verify_eval` -/

theorem idx_ok {α} (site : String) (l : List α) (i : Nat) (h : i < l.length) : P.idx site l i = .ok l[i] := by
  unfold P.idx; rw [List.getElem?_eq_getElem h]

/-- digit `i` of the two checksum bytes, indexed relative to the hash output size -/
def ckVal (n w : Nat) (ckb : Bytes) (i : Nat) : Nat :=
  ((ckb.getD (coefIndex i w - n) 0).toNat >>> coefShift i w) &&& coefMask w

/-- the checksum `fast_verify_eval` computes from the message digit total -/
def fvCk (n : Nat) (p : LmotsParam) (tot : Nat) : Nat :=
  (((n * 8 / p.w) * coefMask p.w - tot) <<< p.ls) % 65536

def msgSum (n w : Nat) (bs : Bytes) : Nat := ((List.range (n * 8 / w)).map fun i => coefVal bs i w).sum

/-- the score of a digest, in closed form -/
def fvScore (n : Nat) (p : LmotsParam) (bs : Bytes) : Nat :=
  msgSum n p.w bs +
    ((List.range (p.p - n * 8 / p.w)).map fun k =>
      ckVal n p.w (Bytes.u16be (fvCk n p (msgSum n p.w bs))) (n * 8 / p.w + k)).sum

/-- first loop of `fast_verify_eval` (message digits) -/
def msgLoop (n : Nat) (p : LmotsParam) (bs : Bytes) : P Nat :=
  (List.range (n * 8 / p.w)).foldlM (fun acc i => do
    let b ← P.idx "lm_ots/parameters.rs:fast_verify_eval byte_string[index]" bs (coefIndex i p.w)
    pure (acc + ((b.toNat >>> coefShift i p.w) &&& coefMask p.w))) 0

/-- second loop of `fast_verify_eval` (checksum digits) -/
def ckLoop (n : Nat) (p : LmotsParam) (ckb : Bytes) (tot : Nat) : P Nat :=
  (List.range (p.p - n * 8 / p.w)).foldlM (fun acc k => do
    let i := n * 8 / p.w + k
    P.require "lm_ots/parameters.rs:fast_verify_eval index - OUTPUT_SIZE" (coefIndex i p.w ≥ n)
    let b ← P.idx "lm_ots/parameters.rs:fast_verify_eval checksum[index - n]" ckb (coefIndex i p.w - n)
    pure (acc + ((b.toNat >>> coefShift i p.w) &&& coefMask p.w))) tot

theorem fastVerifyEval_unfold (n : Nat) (p : LmotsParam) (bs : Bytes) :
    fastVerifyEval n p bs = (do
      let tot ← msgLoop n p bs
      P.require "lm_ots/parameters.rs:fast_verify_eval sum - total" (tot ≤ (n * 8 / p.w) * coefMask p.w)
      ckLoop n p (Bytes.u16be (fvCk n p tot)) tot) := rfl

theorem msg_loop {n : Nat} {p : LmotsParam} (hg : OtsRowGood n p = true) (bs : Bytes) (hl : bs.length = n) :
    msgLoop n p bs = .ok (msgSum n p.w bs) ∧ msgSum n p.w bs ≤ (n * 8 / p.w) * coefMask p.w := by
  unfold msgLoop
  obtain ⟨r, hr, hinv, hsum⟩ := foldlM_range_inv
    (fun acc i => do
      let b ← P.idx "lm_ots/parameters.rs:fast_verify_eval byte_string[index]" bs (coefIndex i p.w)
      pure (acc + ((b.toNat >>> coefShift i p.w) &&& coefMask p.w)))
    (fun i => coefVal bs i p.w)
    (fun i acc => acc ≤ i * coefMask p.w) (n * 8 / p.w) 0 (by simp)
    (by
      intro acc i hi hI
      have hidx : coefIndex i p.w < bs.length := by rw [hl]; exact msg_digit_index hg hi
      have hle := coefVal_le bs i p.w
      refine ⟨?_, by rw [Nat.add_mul, Nat.one_mul]; omega⟩
      rw [idx_ok _ _ _ hidx]
      simp [coefVal, bind, Except.bind, pure, Except.pure, List.getD_eq_getElem?_getD, hidx])
  have e : r = msgSum n p.w bs := by simpa [msgSum] using hsum
  rw [← e]
  exact ⟨hr, hinv⟩

theorem ck_loop {n : Nat} {p : LmotsParam} (hg : OtsRowGood n p = true) (ckb : Bytes) (hl : ckb.length = 2) (tot : Nat) :
    ckLoop n p ckb tot =
    .ok (tot + ((List.range (p.p - n * 8 / p.w)).map fun k => ckVal n p.w ckb (n * 8 / p.w + k)).sum) := by
  unfold ckLoop
  obtain ⟨r, hr, _, hsum⟩ := foldlM_range_inv
    (fun acc k => do
      let i := n * 8 / p.w + k
      P.require "lm_ots/parameters.rs:fast_verify_eval index - OUTPUT_SIZE" (coefIndex i p.w ≥ n)
      let b ← P.idx "lm_ots/parameters.rs:fast_verify_eval checksum[index - n]" ckb (coefIndex i p.w - n)
      pure (acc + ((b.toNat >>> coefShift i p.w) &&& coefMask p.w)))
    (fun k => ckVal n p.w ckb (n * 8 / p.w + k))
    (fun _ _ => True) (p.p - n * 8 / p.w) tot trivial
    (by
      intro acc k hk _
      obtain ⟨h1, h2⟩ := ck_digit_index hg (i := n * 8 / p.w + k) (by omega) (by omega)
      refine ⟨?_, trivial⟩
      have hidx : coefIndex (n * 8 / p.w + k) p.w - n < ckb.length := by rw [hl]; exact h2
      simp only [P.require, h1, decide_true, if_true, bind, Except.bind]
      rw [idx_ok _ _ _ hidx]
      simp [ckVal, pure, Except.pure, List.getD_eq_getElem?_getD, hidx])
  rw [hr, hsum]

/-- W1 + closed form: `fast_verify_eval` never faults on an `n`-byte string for a table row -/
theorem fastVerifyEval_eq {n : Nat} {p : LmotsParam} (hg : OtsRowGood n p = true) (bs : Bytes) (hl : bs.length = n) :
    fastVerifyEval n p bs = .ok (fvScore n p bs) := by
  obtain ⟨h1, h2⟩ := msg_loop hg bs hl
  rw [fastVerifyEval_unfold, h1]
  simp only [bind, Except.bind, P.require, h2, decide_true, if_true]
  exact ck_loop hg _ (u16be_length _) _

/-! ### the score is the sum of the digit vector -/

theorem sum_sub_map (l : List Nat) (f : Nat → Nat) (M : Nat) (h : ∀ i ∈ l, f i ≤ M) :
    (l.map fun i => M - f i).sum = l.length * M - (l.map f).sum ∧ (l.map f).sum ≤ l.length * M := by
  induction l with
  | nil => simp
  | cons a t ih =>
    have h1 := h a (by simp)
    obtain ⟨h2, h3⟩ := ih (fun i hi => h i (by simp [hi]))
    simp only [List.map_cons, List.sum_cons, List.length_cons, Nat.succ_mul, h2]
    omega

/-- the checksum `fast_verify_eval` derives from its running total is the checksum `append_checksum_to` appends -/
theorem fvCk_eq {n : Nat} {p : LmotsParam} (hg : OtsRowGood n p = true) (bs : Bytes) (hl : bs.length = n) :
    checksum n p bs = .ok (fvCk n p (msgSum n p.w bs)) := by
  obtain ⟨s, hs, _, hsum⟩ := checksumSum_ok hg bs hl
  obtain ⟨h1, _⟩ := sum_sub_map (List.range (n * 8 / p.w)) (fun i => coefVal bs i p.w) (coefMask p.w)
    (fun i _ => coefVal_le bs i p.w)
  unfold checksum
  simp only [hs, bind, Except.bind, pure, Except.pure]
  rw [hsum, h1]
  simp [fvCk, msgSum]

theorem coefVal_append_left (bs ck : Bytes) (i w : Nat) (h : coefIndex i w < bs.length) :
    coefVal (bs ++ ck) i w = coefVal bs i w := by
  unfold coefVal
  simp [List.getD_eq_getElem?_getD, List.getElem?_append_left h]

theorem coefVal_append_right (bs ck : Bytes) (i w : Nat) (h : bs.length ≤ coefIndex i w) :
    coefVal (bs ++ ck) i w = ckVal bs.length w ck i := by
  unfold coefVal ckVal
  simp [List.getD_eq_getElem?_getD, List.getElem?_append_right h]

/-- the digit vector in closed form -/
theorem digits_eq {n : Nat} {p : LmotsParam} (hg : OtsRowGood n p = true) (bs : Bytes) (hl : bs.length = n) :
    digits n p bs = .ok ((List.range p.p).map fun i =>
      coefVal (bs ++ Bytes.u16be (fvCk n p (msgSum n p.w bs))) i p.w) := by
  obtain ⟨_, _, _, h4, _⟩ := row_facts hg
  have hc := fvCk_eq hg bs hl
  unfold digits append_checksum_to
  simp only [hc, bind, Except.bind]
  rw [Digits.extendCap_ok _ _ [] bs (by simp [MAX_HASH_SIZE]; omega)]
  simp only [List.nil_append]
  rw [Digits.extendCap_ok _ _ bs _ (by rw [u16be_length]; simp [MAX_HASH_SIZE]; omega)]
  simp only []
  apply Digits.mapM_ok
  intro i hi
  apply coef_eq
  rw [List.length_append, u16be_length, hl]
  exact all_digit_index hg (List.mem_range.mp hi)

/-- W2: the score is the sum of all digits (message and checksum) of `digits` -/
theorem fvScore_eq_digits_sum {n : Nat} {p : LmotsParam} (hg : OtsRowGood n p = true) (bs : Bytes) (hl : bs.length = n) :
    ((List.range p.p).map fun i => coefVal (bs ++ Bytes.u16be (fvCk n p (msgSum n p.w bs))) i p.w).sum =
      fvScore n p bs := by
  have hp : p.p = n * 8 / p.w + (p.p - n * 8 / p.w) := by have := max_le_p hg; omega
  conv => lhs; rw [hp, List.range_add, List.map_append, List.sum_append, List.map_map]
  unfold fvScore msgSum
  congr 1
  · congr 1
    apply List.map_congr_left
    intro i hi
    apply coefVal_append_left
    rw [hl]; exact msg_digit_index hg (List.mem_range.mp hi)
  · congr 1
    apply List.map_congr_left
    intro k hk
    have hk := List.mem_range.mp hk
    obtain ⟨h1, _⟩ := ck_digit_index hg (i := n * 8 / p.w + k) (by omega) (by omega)
    simp only [Function.comp]
    rw [coefVal_append_right _ _ _ _ (by rw [hl]; exact h1), hl]

/-- every digit is at most `2^w - 1`, so the score is at most `p * (2^w - 1)` (which fits the `u16` accumulator) -/
theorem fvScore_le {n : Nat} {p : LmotsParam} (hg : OtsRowGood n p = true) (bs : Bytes) (hl : bs.length = n) :
    fvScore n p bs ≤ p.p * (2 ^ p.w - 1) := by
  rw [← fvScore_eq_digits_sum hg bs hl, ← coefMask_eq]
  have := Digits.sum_map_le_length_mul (List.range p.p)
    (fun i => coefVal (bs ++ Bytes.u16be (fvCk n p (msgSum n p.w bs))) i p.w) (coefMask p.w)
    (fun i _ => coefVal_le _ i p.w)
  simpa using this

theorem score_fits_u16 {n : Nat} {p : LmotsParam} (hg : OtsRowGood n p = true) : p.p * (2 ^ p.w - 1) < 65536 := by
  obtain ⟨h1, _, _, h4, _⟩ := row_facts hg
  rcases w_cases hg with h | h | h | h <;> rw [h] at h1 ⊢ <;> omega

/-! ### the worker loop -/

/-- the sequence of trial randomizers: `trialSeq H t j = H^j(t)` -/
def trialSeq (H : HashFn) : Bytes → Nat → Bytes
  | t, 0 => t
  | t, j+1 => trialSeq H (H.h t) j

/-- score of the `j`-th trial (0-based) of a worker started at `start` -/
def trialScore (H : HashFn) (p : LmotsParam) (pre start : Bytes) (j : Nat) : Nat :=
  fvScore H.n p (H.h (pre ++ trialSeq H start (j + 1)))

theorem trialSeq_succ_length (H : HashFn) (t : Bytes) (j : Nat) : (trialSeq H t (j + 1)).length = H.n := by
  induction j generalizing t with
  | zero => exact H.len_h t
  | succ j ih => exact ih (H.h t)

theorem workerStep_eq (H : HashFn) {p : LmotsParam} (hg : OtsRowGood H.n p = true) (pre : Bytes) (st : WorkerState)
    (hr : st.randomizer.length = H.n) :
    workerStep H p pre st = .ok (
      if fvScore H.n p (H.h (pre ++ H.h st.trial)) > st.best
      then ⟨H.h st.trial, fvScore H.n p (H.h (pre ++ H.h st.trial)), H.h st.trial⟩
      else ⟨H.h st.trial, st.best, st.randomizer⟩) := by
  unfold workerStep
  simp only [fastVerifyEval_eq hg _ (H.len_h _), bind, Except.bind]
  split
  · simp [P.require, hr, H.len_h, pure, Except.pure]
  · rfl

/-- the loop invariant, generalised over the state the loop is entered with -/
theorem workerLoop_inv (H : HashFn) {p : LmotsParam} (hg : OtsRowGood H.n p = true) (pre : Bytes) :
    ∀ (k : Nat) (st : WorkerState), st.randomizer.length = H.n →
    ∃ st', workerLoop H p pre k st = .ok st' ∧ st'.randomizer.length = H.n ∧ st'.trial = trialSeq H st.trial k ∧
      st.best ≤ st'.best ∧ (∀ j, j < k → trialScore H p pre st.trial j ≤ st'.best) ∧
      ((st'.best = st.best ∧ st'.randomizer = st.randomizer) ∨
       (st.best < st'.best ∧ ∃ j, j < k ∧ st'.randomizer = trialSeq H st.trial (j + 1) ∧
          st'.best = trialScore H p pre st.trial j ∧ ∀ j', j' < j → trialScore H p pre st.trial j' < st'.best)) := by
  intro k
  induction k with
  | zero =>
    intro st hr
    exact ⟨st, rfl, hr, rfl, Nat.le_refl _, fun j hj => by omega, Or.inl ⟨rfl, rfl⟩⟩
  | succ k ih =>
    intro st hr
    simp only [workerLoop, workerStep_eq H hg pre st hr, bind, Except.bind]
    by_cases hgt : fvScore H.n p (H.h (pre ++ H.h st.trial)) > st.best
    · simp only [hgt, if_true]
      obtain ⟨st', h1, h2, h3, h4, h5, h6⟩ := ih ⟨H.h st.trial, fvScore H.n p (H.h (pre ++ H.h st.trial)), H.h st.trial⟩
        (H.len_h _)
      simp only [] at h3 h4 h5 h6
      have h0 : trialScore H p pre st.trial 0 = fvScore H.n p (H.h (pre ++ H.h st.trial)) := rfl
      have hshift : ∀ j, trialScore H p pre (H.h st.trial) j = trialScore H p pre st.trial (j + 1) := fun _ => rfl
      refine ⟨st', h1, h2, h3, by omega, ?_, Or.inr ⟨by omega, ?_⟩⟩
      · intro j hj
        cases j with
        | zero => rw [h0]; exact h4
        | succ j => rw [← hshift]; exact h5 j (by omega)
      · rcases h6 with ⟨e1, e2⟩ | ⟨e1, j, hj, e2, e3, e4⟩
        · refine ⟨0, by omega, ?_, ?_, fun j' hj' => by omega⟩
          · rw [e2]; rfl
          · rw [e1, h0]
        · refine ⟨j + 1, by omega, ?_, ?_, ?_⟩
          · rw [e2]; rfl
          · rw [e3, hshift]
          · intro j' hj'
            cases j' with
            | zero => rw [h0]; omega
            | succ j' => rw [← hshift]; exact e4 j' (by omega)
    · simp only [hgt, if_false]
      obtain ⟨st', h1, h2, h3, h4, h5, h6⟩ := ih ⟨H.h st.trial, st.best, st.randomizer⟩ hr
      simp only [] at h3 h4 h5 h6
      have h0 : trialScore H p pre st.trial 0 = fvScore H.n p (H.h (pre ++ H.h st.trial)) := rfl
      have hshift : ∀ j, trialScore H p pre (H.h st.trial) j = trialScore H p pre st.trial (j + 1) := fun _ => rfl
      refine ⟨st', h1, h2, h3, h4, ?_, ?_⟩
      · intro j hj
        cases j with
        | zero => rw [h0]; omega
        | succ j => rw [← hshift]; exact h5 j (by omega)
      · rcases h6 with ⟨e1, e2⟩ | ⟨e1, j, hj, e2, e3, e4⟩
        · exact Or.inl ⟨e1, e2⟩
        · refine Or.inr ⟨e1, j + 1, by omega, ?_, ?_, ?_⟩
          · rw [e2]; rfl
          · rw [e3, hshift]
          · intro j' hj'
            cases j' with
            | zero => rw [h0]; omega
            | succ j' => rw [← hshift]; exact e4 j' (by omega)

/-! ### the receiving loop on all-zero scores -/

theorem selectTrailer_all_zero (results : List (Nat × Bytes)) (init : Bytes) (h : ∀ r ∈ results, r.1 = 0) :
    selectTrailer results init = init := by
  unfold selectTrailer
  suffices hs : ∀ (acc : Nat × Bytes), results.foldl
      (fun (acc : Nat × Bytes) r => if r.1 > acc.1 then (r.1, r.2) else acc) acc = acc by rw [hs]
  induction results with
  | nil => intro acc; rfl
  | cons x xs ih =>
    intro acc
    have hx : x.1 = 0 := h x (by simp)
    have : ¬ x.1 > acc.1 := by omega
    simp only [List.foldl_cons, this, if_false]
    exact ih (fun r hr => h r (by simp [hr])) acc

/-- `mapM` over `P` succeeds when every element does -/
theorem mapM_ok_of_forall {α β : Type} (f : α → P β) (l : List α) (h : ∀ a ∈ l, ∃ b, f a = .ok b) :
    ∃ bs, l.mapM f = .ok bs ∧ bs.length = l.length ∧ ∀ b ∈ bs, ∃ a ∈ l, f a = .ok b := by
  induction l with
  | nil => exact ⟨[], by simp [pure, Except.pure], rfl, by simp⟩
  | cons a t ih =>
    obtain ⟨b, hb⟩ := h a (by simp)
    obtain ⟨bs, h1, h2, h3⟩ := ih (fun x hx => h x (by simp [hx]))
    refine ⟨b :: bs, ?_, by simp [h2], ?_⟩
    · rw [List.mapM_cons, hb, h1]; rfl
    · intro y hy
      rcases List.mem_cons.mp hy with rfl | hy
      · exact ⟨a, by simp, hb⟩
      · obtain ⟨x, hx, hxy⟩ := h3 y hy
        exact ⟨x, by simp [hx], hxy⟩

end Lemmas.FastVerify

/-
Refinement lemmas for property C02: the verification path of the model (`Impl.lmotsCandidate`, `Impl.lmsVerify`,
`Impl.hssVerify` and their parsers) computes exactly the RFC 8554 specification `Spec.Rfc8554`, for all inputs.
Core Lean only.
-/
import HbsLms.Lemmas.Verify
import HbsLms.Lemmas.Digits
import HbsLms.Spec.Rfc8554

namespace Lemmas

open Impl Generated Spec.AppendixB

/-- the library's parameter tables for hash length `n`, as the specification's `Tables` -/
def libTables (n : Nat) : Spec.Tables := ⟨Params.lmotsGetFromType n, Params.lmsGetFromType⟩

namespace Refine

/-! ### codecs and slices -/

theorem u32str_eq (v : Nat) : Spec.u32str v = Bytes.u32be v := by
  simp [Spec.u32str, Bytes.u32be, Bytes.be]

theorem u16str_eq (v : Nat) : Spec.u16str v = Bytes.u16be v := by
  simp [Spec.u16str, Bytes.u16be, Bytes.be]

theorem strTou32_eq (b : Bytes) (h : b.length = 4) : Spec.strTou32 b = Bytes.toNat b := by
  match b, h with
  | [a, b, c, d], _ =>
    simp only [Spec.strTou32, Bytes.toNat, List.foldl, List.getD_eq_getElem?_getD, List.getElem?_cons_zero,
      List.getElem?_cons_succ, Option.getD_some]
    omega

theorem bytesAt_eq (s : Bytes) (a l : Nat) : Spec.bytesAt s a l = Bytes.slice s a l := rfl

theorem slice_len {b : Bytes} {s l : Nat} (h : s + l ≤ b.length) : (Bytes.slice b s l).length = l :=
  slice_length b s l h

theorem slice_slice (b : Bytes) (s l s' l' : Nat) (h : s' + l' ≤ l) :
    Bytes.slice (Bytes.slice b s l) s' l' = Bytes.slice b (s + s') l' := by
  simp only [Bytes.slice, List.drop_take, List.take_take, List.drop_drop]
  rw [Nat.min_eq_left (by omega)]

theorem slice_take (b : Bytes) (k s l : Nat) (h : s + l ≤ k) :
    Bytes.slice (b.take k) s l = Bytes.slice b s l := by
  simp only [Bytes.slice, List.drop_take, List.take_take]
  rw [Nat.min_eq_left (by omega)]

theorem slice_drop (b : Bytes) (k s l : Nat) : Bytes.slice (b.drop k) s l = Bytes.slice b (k + s) l := by
  simp only [Bytes.slice, List.drop_drop]

theorem slice_zero_eq_take (b : Bytes) (l : Nat) : Bytes.slice b 0 l = b.take l := by
  simp [Bytes.slice]

theorem slice_all (b : Bytes) (l : Nat) (h : b.length = l) : Bytes.slice b 0 l = b := by
  simp [Bytes.slice, ← h]

/-! ### LM-OTS (Algorithm 4b) -/

theorem row_w_mem {n : Nat} {p : LmotsParam} (hg : OtsRowGood n p = true) : p.w ∈ [1, 2, 4, 8] := by
  rcases w_cases hg with h | h | h | h <;> simp [h]

/-- `append_checksum_to` returns `Q ‖ u16str(Cksm(Q))` with the RFC checksum for the row's `w` and `ls` -/
theorem append_checksum_eq {n : Nat} {p : LmotsParam} (hg : OtsRowGood n p = true) (Q : Bytes) (hl : Q.length = n) :
    append_checksum_to n p Q = .ok (Q ++ Bytes.u16be (cksm n p.w p.ls Q)) := by
  obtain ⟨_, _, h3, h4, _⟩ := row_facts hg
  have hw := row_w_mem hg
  have hw0 : 0 < p.w := by rcases w_cases hg with h | h | h | h <;> omega
  have hu : u n p.w ≤ 65536 := by
    unfold u
    have : 8 * n / p.w ≤ 8 * n := Nat.div_le_self _ _
    omega
  unfold append_checksum_to checksum
  rw [Digits.checksumSum_eq p Q rfl hw hl hu h3]
  have hcap : MAX_HASH_SIZE + 2 = 34 := rfl
  have hlen : (Bytes.u16be (cksmSum n p.w Q <<< p.ls % 65536)).length = 2 := rfl
  simp only [bind, Except.bind, pure, Except.pure]
  rw [Digits.extendCap_ok _ _ [] Q (by rw [hcap]; simp; omega)]
  simp only [List.nil_append]
  rw [Digits.extendCap_ok _ _ Q _ (by rw [hcap, hlen]; omega)]
  rfl

theorem chainFrom_eq (H : HashFn) (I : Bytes) (q i : Nat) : ∀ (cnt j : Nat) (x : Bytes),
    chainFrom H I (Bytes.u32be q) i cnt j x =
      (List.range' j cnt).foldl (fun tmp j => H.h (I ++ Spec.u32str q ++ Spec.u16str i ++ Spec.u8str j ++ tmp)) x := by
  intro cnt
  induction cnt with
  | zero => intro j x; rfl
  | succ c ih =>
    intro j x
    rw [chainFrom, ih, List.range'_succ, List.foldl_cons]
    simp only [chainStep, u32str_eq, u16str_eq, Spec.u8str]

/-- the model's hash chain is the RFC's inner loop -/
theorem chain_eq (H : HashFn) (I : Bytes) (q i : Nat) (y : Bytes) (a e : Nat) :
    chain H I (Bytes.u32be q) i y a e = Spec.chainRfc H I q i a e y := by
  unfold chain Spec.chainRfc
  exact chainFrom_eq H I q i _ _ _

/-- the value of `lm_ots::verify::generate_public_key_candidate` on anything the parser accepts -/
theorem lmotsCandidate_eq (H : HashFn) (sig : InMemLmotsSig) (I : Bytes) (q : Nat) (msg : Bytes)
    (hg : OtsRowGood H.n sig.param = true) (hd : sig.data.length = H.n * sig.param.p) :
    lmotsCandidate H sig I q msg = .ok
      (let Q := H.h (I ++ Bytes.u32be q ++ D_MESG ++ sig.randomizer ++ msg)
       let Qc := Q ++ Bytes.u16be (cksm H.n sig.param.w sig.param.ls Q)
       H.h (I ++ Bytes.u32be q ++ D_PBLC ++
        ((List.range sig.param.p).map fun i =>
          Spec.chainRfc H I q i (rfcCoef Qc i sig.param.w) (2 ^ sig.param.w - 1)
            (Bytes.slice sig.data (H.n * i) H.n)).flatten)) := by
  obtain ⟨h1, _, _, h4, _, hcap, _⟩ := row_facts hg
  have hw := row_w_mem hg
  have hw0 : 0 < sig.param.w := by rcases w_cases hg with h | h | h | h <;> omega
  unfold lmotsCandidate
  have hc := append_checksum_eq hg (H.h (I ++ Bytes.u32be q ++ D_MESG ++ sig.randomizer ++ msg)) (H.len_h _)
  simp only [hc, bind, Except.bind]
  have hqc : (H.h (I ++ Bytes.u32be q ++ D_MESG ++ sig.randomizer ++ msg) ++
      Bytes.u16be (cksm H.n sig.param.w sig.param.ls
        (H.h (I ++ Bytes.u32be q ++ D_MESG ++ sig.randomizer ++ msg)))).length = H.n + 2 := by
    rw [List.length_append, H.len_h, u16be_length]
  rw [foldlM_range_append _ (fun i => Spec.chainRfc H I q i
        (rfcCoef (H.h (I ++ Bytes.u32be q ++ D_MESG ++ sig.randomizer ++ msg) ++
          Bytes.u16be (cksm H.n sig.param.w sig.param.ls
            (H.h (I ++ Bytes.u32be q ++ D_MESG ++ sig.randomizer ++ msg)))) i sig.param.w)
        (2 ^ sig.param.w - 1) (Bytes.slice sig.data (H.n * i) H.n))]
  · rfl
  · intro acc i hi hl
    have hidx := all_digit_index hg hi
    have hp : sig.param.p ≤ 8 * H.n + 16 := by
      calc sig.param.p ≤ sig.param.p * sig.param.w := Nat.le_mul_of_pos_right _ hw0
        _ ≤ _ := h1
    rw [Digits.coef_eq_rfcCoef hw (by omega) (by rw [hqc]; exact hidx)]
    have hs : H.n * i + H.n ≤ sig.data.length := by
      rw [hd]
      calc H.n * i + H.n = H.n * (i + 1) := by rw [Nat.mul_add, Nat.mul_one]
        _ ≤ H.n * sig.param.p := Nat.mul_le_mul_left _ (by omega)
    simp only [P.slice, hs, if_true, P.pushCap]
    have : acc.length < (Params.chains sig.param.w MAX_HASH_SIZE).getD 0 := by omega
    simp only [this, if_true, chain_eq]

/-! ### the parsers as explicit conditions on the bytes -/


theorem lmots_parse_eq (n : Nat) (ob : Bytes) :
    InMemLmotsSig.parse n ob =
      if 4 ≤ ob.length then
        match Params.lmotsGetFromType n (Bytes.toNat (Bytes.slice ob 0 4)) with
        | none => none
        | some prm =>
          if 4 + n + n * prm.p ≤ ob.length then some ⟨Bytes.slice ob 4 n, Bytes.slice ob (4 + n) (n * prm.p), prm⟩
          else none
      else none := by
  unfold InMemLmotsSig.parse readAt
  by_cases h4 : 4 ≤ ob.length
  · simp only [h4, if_true, Option.bind_eq_bind, Option.bind_some]
    cases Params.lmotsGetFromType n (Bytes.toNat (Bytes.slice ob 0 4)) with
    | none => rfl
    | some prm =>
      simp only [Option.bind_some]
      by_cases h2 : 4 + n + n * prm.p ≤ ob.length
      · have h3 : 4 + n ≤ ob.length := by omega
        simp [h2, h3]
      · simp only [h2, if_false]
        by_cases h3 : 4 + n ≤ ob.length <;> simp [h3]
  · simp [h4]

/-- the LM-OTS part of an LMS signature always parses once its bytes are there -/
theorem lmots_parse_inner (n : Nat) (data : Bytes) (op : LmotsParam)
    (hop : Params.lmotsGetFromType n (Bytes.toNat (Bytes.slice data 4 4)) = some op)
    (hlen : 4 + (4 + n * (1 + op.p)) ≤ data.length) :
    InMemLmotsSig.parse n (Bytes.slice data 4 (4 + n * (1 + op.p))) =
      some ⟨Bytes.slice data 8 n, Bytes.slice data (8 + n) (n * op.p), op⟩ := by
  have hl : (Bytes.slice data 4 (4 + n * (1 + op.p))).length = 4 + n * (1 + op.p) := slice_len hlen
  have hm : n * (1 + op.p) = n + n * op.p := by rw [Nat.mul_add, Nat.mul_one]
  rw [lmots_parse_eq, hl]
  rw [slice_slice _ _ _ _ _ (by omega), hop]
  simp only [Nat.le_add_right, if_true]
  rw [if_pos (by omega), slice_slice _ _ _ _ _ (by omega), slice_slice _ _ _ _ _ (by omega)]
  have : 4 + (4 + n) = 8 + n := by omega
  rw [this]

/-- `InMemoryLmsSignature::new` as explicit length / table conditions on the bytes -/
theorem lms_parse_eq (n : Nat) (data : Bytes) :
    InMemLmsSig.parse n data =
      if 8 ≤ data.length then
        match Params.lmotsGetFromType n (Bytes.toNat (Bytes.slice data 4 4)) with
        | none => none
        | some op =>
          if 8 + (4 + n * (1 + op.p)) ≤ data.length then
            match Params.lmsGetFromType (Bytes.toNat (Bytes.slice data (4 + (4 + n * (1 + op.p))) 4)) with
            | none => none
            | some lp =>
              if 8 + (4 + n * (1 + op.p)) + n * lp.h ≤ data.length then
                if Bytes.toNat (Bytes.slice data 0 4) ≥ 2 ^ lp.h then none
                else some ⟨Bytes.toNat (Bytes.slice data 0 4),
                  ⟨Bytes.slice data 8 n, Bytes.slice data (8 + n) (n * op.p), op⟩,
                  Bytes.slice data (8 + (4 + n * (1 + op.p))) (n * lp.h), lp⟩
              else none
          else none
      else none := by
  unfold InMemLmsSig.parse readAt
  by_cases h8 : 8 ≤ data.length
  · have h4 : 0 + 4 ≤ data.length := by omega
    have h4' : 4 + 4 ≤ data.length := by omega
    simp only [h8, h4, if_true, Option.bind_eq_bind, Option.bind_some]
    cases hop : Params.lmotsGetFromType n (Bytes.toNat (Bytes.slice data 4 4)) with
    | none => rfl
    | some op =>
      simp only [Option.bind_some]
      by_cases h2 : 8 + (4 + n * (1 + op.p)) ≤ data.length
      · have h2a : 4 + (4 + n * (1 + op.p)) ≤ data.length := by omega
        have h2b : 4 + (4 + n * (1 + op.p)) + 4 ≤ data.length := by omega
        simp only [h2, h2a, h2b, if_true, Option.bind_some, lmots_parse_inner n data op hop h2a]
        cases Params.lmsGetFromType (Bytes.toNat (Bytes.slice data (4 + (4 + n * (1 + op.p))) 4)) with
        | none => rfl
        | some lp =>
          simp only [Option.bind_some]
          by_cases h3 : 8 + (4 + n * (1 + op.p)) + n * lp.h ≤ data.length
          · have h3a : 4 + (4 + n * (1 + op.p)) + 4 + n * lp.h ≤ data.length := by omega
            have e : 4 + (4 + n * (1 + op.p)) + 4 = 8 + (4 + n * (1 + op.p)) := by omega
            simp only [h3, if_true, Option.bind_some, e]
            by_cases hq : Bytes.toNat (Bytes.slice data 0 4) ≥ 2 ^ lp.h
            · simp [hq]
            · simp [hq]
          · have h3a : ¬ 4 + (4 + n * (1 + op.p)) + 4 + n * lp.h ≤ data.length := by omega
            simp [h3, h3a]
      · simp only [h2, if_false]
        by_cases h2a : 4 + (4 + n * (1 + op.p)) ≤ data.length
        · have h2b : ¬ 4 + (4 + n * (1 + op.p)) + 4 ≤ data.length := by omega
          simp [h2a, h2b]
        · simp [h2a]
  · simp only [h8, if_false]
    by_cases h4 : 0 + 4 ≤ data.length
    · have h4' : ¬ 4 + 4 ≤ data.length := by omega
      simp [h4]
    · simp [h4]



theorem pk_parse_eq (n : Nat) (kb : Bytes) :
    InMemLmsPk.parse n kb =
      if 24 + n ≤ kb.length then
        match Params.lmsGetFromType (Bytes.toNat (Bytes.slice kb 0 4)) with
        | none => none
        | some lp =>
          match Params.lmotsGetFromType n (Bytes.toNat (Bytes.slice kb 4 4)) with
          | none => none
          | some op => some ⟨Bytes.slice kb 24 n, Bytes.slice kb 8 16, op, lp, kb.take (24 + n)⟩
      else none := by
  unfold InMemLmsPk.parse readAt
  by_cases h : 24 + n ≤ kb.length
  · have h1 : 0 + 4 ≤ kb.length := by omega
    have h2 : 4 + 4 ≤ kb.length := by omega
    have h3 : 8 + 16 ≤ kb.length := by omega
    simp only [h, h1, h2, h3, if_true, Option.bind_eq_bind, Option.bind_some]
    cases Params.lmsGetFromType (Bytes.toNat (Bytes.slice kb 0 4)) with
    | none => rfl
    | some lp =>
      simp only [Option.bind_some]
      cases Params.lmotsGetFromType n (Bytes.toNat (Bytes.slice kb 4 4)) with
      | none => rfl
      | some op => rfl
  · simp only [h, if_false, Option.bind_eq_bind]
    by_cases h1 : 0 + 4 ≤ kb.length
    · simp only [h1, if_true, Option.bind_some]
      cases Params.lmsGetFromType (Bytes.toNat (Bytes.slice kb 0 4)) with
      | none => rfl
      | some lp =>
        simp only [Option.bind_some]
        by_cases h2 : 4 + 4 ≤ kb.length
        · simp only [h2, if_true, Option.bind_some]
          cases Params.lmotsGetFromType n (Bytes.toNat (Bytes.slice kb 4 4)) with
          | none => rfl
          | some op =>
            simp only [Option.bind_some]
            by_cases h3 : 8 + 16 ≤ kb.length
            · simp [h3]
            · simp [h3]
        · simp [h2]
    · simp [h1]

theorem ots_beq (a b : LmotsParam) : (a != b) = false ↔ a = b := by
  cases a; cases b
  simp [bne, BEq.beq, instBEqLmotsParam.beq]

theorem lms_beq (a b : LmsParam) : (a != b) = false ↔ a = b := by
  cases a; cases b
  simp [bne, BEq.beq, instBEqLmsParam.beq]

theorem ots_typeId_all : ∀ n ∈ [16, 24, 32], ∀ t ∈ [1, 2, 3, 4],
    (Params.lmotsGetFromType n t).map (·.typeId) = some t := by decide +kernel

/-! ### type codes, the Merkle climb -/


theorem ots_lookup_mem {n t : Nat} {p : LmotsParam} (h : Params.lmotsGetFromType n t = some p) :
    n ∈ [16, 24, 32] ∧ t ∈ [1, 2, 3, 4] := by
  simp only [Params.lmotsGetFromType, Option.bind_eq_bind, Option.bind_eq_some_iff] at h
  obtain ⟨v, hv, hc⟩ := h
  simp only [Params.lmotsConstruct, Option.bind_eq_bind, Option.bind_eq_some_iff] at hc
  obtain ⟨row, _, r4, _, c, hc, _⟩ := hc
  have h1 : n ∈ hashLens := chains_some_mem hc
  have h2 : t ∈ Generated.lmotsGetFromType.map (·.1) := List.mem_map.mpr ⟨_, lookup_some_mem hv, rfl⟩
  exact ⟨h1, h2⟩

theorem ots_typeId {n t : Nat} {p : LmotsParam} (h : Params.lmotsGetFromType n t = some p) : p.typeId = t := by
  obtain ⟨hn, ht⟩ := ots_lookup_mem h
  have := ots_typeId_all n hn t ht
  rw [h] at this
  simpa using this

theorem lms_typeId_all : ∀ t ∈ [1, 5, 6, 7, 8, 9], (Params.lmsGetFromType t).map (·.typeId) = some t := by
  decide +kernel

theorem lms_typeId {t : Nat} {p : LmsParam} (h : Params.lmsGetFromType t = some p) : p.typeId = t := by
  have h0 := h
  simp only [Params.lmsGetFromType, Option.bind_eq_bind, Option.bind_eq_some_iff] at h
  obtain ⟨v, hv, _⟩ := h
  have h2 : t ∈ Generated.lmsGetFromType.map (·.1) := List.mem_map.mpr ⟨_, lookup_some_mem hv, rfl⟩
  have := lms_typeId_all t h2
  rw [h0] at this
  simpa using this

theorem ots_eq_iff {n t1 t2 : Nat} {p1 p2 : LmotsParam} (h1 : Params.lmotsGetFromType n t1 = some p1)
    (h2 : Params.lmotsGetFromType n t2 = some p2) : p1 = p2 ↔ t1 = t2 := by
  constructor
  · intro h; rw [← ots_typeId h1, ← ots_typeId h2, h]
  · intro h; subst h; rw [h1] at h2; exact Option.some.inj h2

theorem lms_eq_iff {t1 t2 : Nat} {p1 p2 : LmsParam} (h1 : Params.lmsGetFromType t1 = some p1)
    (h2 : Params.lmsGetFromType t2 = some p2) : p1 = p2 ↔ t1 = t2 := by
  constructor
  · intro h; rw [← lms_typeId h1, ← lms_typeId h2, h]
  · intro h; subst h; rw [h1] at h2; exact Option.some.inj h2

/-- the root climb computes the RFC loop: `k` levels remain, `i` path nodes were consumed -/
theorem climb_eq (H : HashFn) (I path : Bytes) (h : Nat) (hp : path.length = H.n * h) :
    ∀ (k fuel nodeNum i : Nat) (tmp : Bytes), 2 ^ k ≤ nodeNum → nodeNum < 2 ^ (k + 1) → i + k = h → k < fuel →
      climb H I path fuel nodeNum i tmp =
        .ok (Spec.rootFrom H I ((List.range' i k).map fun j => Bytes.slice path (H.n * j) H.n) nodeNum tmp) := by
  intro k
  induction k with
  | zero =>
    intro fuel nodeNum i tmp _ hn _ hf
    have hle : ¬ nodeNum > 1 := by simp at hn; omega
    cases fuel with
    | zero => omega
    | succ f => simp [climb, hle, pure, Except.pure, Spec.rootFrom]
  | succ k ih =>
    intro fuel nodeNum i tmp hlo hn hik hf
    cases fuel with
    | zero => omega
    | succ f =>
      have hgt : nodeNum > 1 := by
        have : 2 ^ (k + 1) = 2 * 2 ^ k := by rw [Nat.pow_succ]; omega
        have : 0 < 2 ^ k := Nat.pow_pos (by omega)
        omega
      have hs : H.n * i + H.n ≤ path.length := by
        rw [hp]
        calc H.n * i + H.n = H.n * (i + 1) := by rw [Nat.mul_add, Nat.mul_one]
          _ ≤ H.n * h := Nat.mul_le_mul_left _ (by omega)
      have hhalf : nodeNum / 2 < 2 ^ (k + 1) := by
        rw [Nat.pow_succ] at hn; omega
      have hhalf' : 2 ^ k ≤ nodeNum / 2 := by
        rw [Nat.pow_succ] at hlo; omega
      simp only [climb, hgt, if_true, P.slice, hs, bind, Except.bind]
      rw [ih f (nodeNum / 2) (i + 1) _ hhalf' hhalf (by omega) (by omega)]
      rw [List.range'_succ, List.map_cons, Spec.rootFrom]
      simp only [u32str_eq, beq_iff_eq]
      rfl

/-! ### level (a): Algorithm 4b -/


theorem lmotsKc_eq (H : HashFn) (I : Bytes) (q : Nat) (msg ob : Bytes) (s : InMemLmotsSig)
    (hs : InMemLmotsSig.parse H.n ob = some s) (hl : ob.length = 4 + H.n * (s.param.p + 1)) :
    ∃ kc, lmotsCandidate H s I q msg = .ok kc ∧ Spec.lmotsKc H (libTables H.n) I q msg ob = some kc := by
  rw [lmots_parse_eq] at hs
  split at hs
  · rename_i h4
    split at hs
    · simp at hs
    · rename_i prm hprm
      split at hs
      · rename_i hlen
        simp only [Option.some.injEq] at hs
        subst hs
        simp only [] at hl
        have hg : OtsRowGood H.n prm = true := ots_row_good hprm
        have hdl : (Bytes.slice ob (4 + H.n) (H.n * prm.p)).length = H.n * prm.p := slice_len (by omega)
        refine ⟨_, lmotsCandidate_eq H _ I q msg hg hdl, ?_⟩
        unfold Spec.lmotsKc
        have h4' : ¬ ob.length < 4 := by omega
        rw [if_neg h4']
        have ht : Spec.strTou32 (Spec.bytesAt ob 0 4) = Bytes.toNat (Bytes.slice ob 0 4) :=
          strTou32_eq _ (slice_len (show 0 + 4 ≤ ob.length by omega))
        rw [ht]
        have hT : (libTables H.n).ots (Bytes.toNat (Bytes.slice ob 0 4)) = some prm := hprm
        rw [hT]
        simp only []
        have hl' : ¬ ob.length ≠ 4 + H.n * (prm.p + 1) := by omega
        rw [if_neg hl']
        have hP : Spec.D_PBLC = D_PBLC := rfl
        have hM : Spec.D_MESG = D_MESG := rfl
        simp only [u32str_eq, u16str_eq, bytesAt_eq, hP, hM]
        congr 4
        apply List.map_congr_left
        intro i hi
        have hi := List.mem_range.mp hi
        have hle : H.n * i + H.n ≤ H.n * prm.p := by
          calc H.n * i + H.n = H.n * (i + 1) := by rw [Nat.mul_add, Nat.mul_one]
            _ ≤ H.n * prm.p := Nat.mul_le_mul_left _ (by omega)
        rw [slice_slice _ _ _ _ _ hle]
        have e : 4 + H.n * (i + 1) = 4 + H.n + H.n * i := by rw [Nat.mul_add, Nat.mul_one]; omega
        rw [e]
      · simp at hs
  · simp at hs

/-! ### level (b): Algorithms 6 and 6a -/


theorem lmsVerify_eq (H : HashFn) (msg d kb : Bytes) (s : InMemLmsSig) (key : InMemLmsPk)
    (hs : InMemLmsSig.parse H.n d = some s) (hd : d.length = s.len H.n)
    (hk : InMemLmsPk.parse H.n kb = some key) (hkl : kb.length = 24 + H.n) :
    lmsVerify H s key msg = .ok (Spec.lmsValid H (libTables H.n) msg d kb) := by
  rw [lms_parse_eq] at hs
  split at hs
  case isFalse => simp at hs
  rename_i h8
  split at hs
  case h_1 => simp at hs
  rename_i op hop
  split at hs
  case isFalse => simp at hs
  rename_i h2
  split at hs
  case h_1 => simp at hs
  rename_i lp hlp
  split at hs
  case isFalse => simp at hs
  rename_i h3
  split at hs
  case isTrue => simp at hs
  rename_i hq
  simp only [Option.some.injEq] at hs
  subst hs
  rw [pk_parse_eq] at hk
  split at hk
  case isFalse => simp at hk
  rename_i hk24
  split at hk
  case h_1 => simp at hk
  rename_i klp hklp
  split at hk
  case h_1 => simp at hk
  rename_i kop hkop
  simp only [Option.some.injEq] at hk
  subst hk
  simp only [InMemLmsSig.len, lms_signature_length, lmots_signature_length] at hd
  have hm : H.n * (1 + op.p) = H.n * (op.p + 1) := by rw [Nat.add_comm]
  rw [hm] at h2 h3 hlp
  have hmm : H.n * (op.p + 1) = H.n * op.p + H.n := by rw [Nat.mul_add, Nat.mul_one]
  -- the specification side, down to the type-code comparisons
  have t1 : Spec.strTou32 (Spec.bytesAt kb 0 4) = Bytes.toNat (Bytes.slice kb 0 4) :=
    strTou32_eq _ (slice_len (by omega))
  have t2 : Spec.strTou32 (Spec.bytesAt kb 4 4) = Bytes.toNat (Bytes.slice kb 4 4) :=
    strTou32_eq _ (slice_len (by omega))
  have t3 : Spec.strTou32 (Spec.bytesAt d 0 4) = Bytes.toNat (Bytes.slice d 0 4) :=
    strTou32_eq _ (slice_len (by omega))
  have t4 : Spec.strTou32 (Spec.bytesAt d 4 4) = Bytes.toNat (Bytes.slice d 4 4) :=
    strTou32_eq _ (slice_len (by omega))
  have t5 : Spec.strTou32 (Spec.bytesAt d (4 + (4 + H.n * (op.p + 1))) 4) =
      Bytes.toNat (Bytes.slice d (4 + (4 + H.n * (op.p + 1))) 4) :=
    strTou32_eq _ (slice_len (by omega))
  have hT1 : (libTables H.n).lms (Bytes.toNat (Bytes.slice kb 0 4)) = some klp := hklp
  have hT2 : (libTables H.n).ots (Bytes.toNat (Bytes.slice d 4 4)) = some op := hop
  have hT3 : (libTables H.n).lms (Bytes.toNat (Bytes.slice d (4 + (4 + H.n * (op.p + 1))) 4)) = some lp := hlp
  have c1 : ¬ kb.length < 8 := by omega
  have c2 : ¬ kb.length ≠ 24 + H.n := by omega
  have c3 : ¬ d.length < 8 := by omega
  have c4 : ¬ d.length < 8 + (4 + H.n * (op.p + 1)) := by omega
  unfold Spec.lmsValid
  simp only [c1, if_false, t1, t2, hT1, c2]
  unfold Spec.lmsRootCandidate
  simp only [c3, if_false, t3, t4]
  unfold lmsVerify
  rw [hm]
  by_cases hto : Bytes.toNat (Bytes.slice d 4 4) = Bytes.toNat (Bytes.slice kb 4 4)
  · have hopeq : op = kop := (ots_eq_iff hop hkop).mpr hto
    subst hopeq
    have c5 : ¬ Bytes.toNat (Bytes.slice d 4 4) ≠ Bytes.toNat (Bytes.slice kb 4 4) := by simpa using hto
    simp only [c5, if_false, hT2, c4, t5]
    by_cases htl : Bytes.toNat (Bytes.slice d (4 + (4 + H.n * (op.p + 1))) 4) = Bytes.toNat (Bytes.slice kb 0 4)
    · have hlpeq : lp = klp := (lms_eq_iff hlp hklp).mpr htl
      subst hlpeq
      have c6 : ¬ Bytes.toNat (Bytes.slice d (4 + (4 + H.n * (op.p + 1))) 4) ≠ Bytes.toNat (Bytes.slice kb 0 4) := by
        simpa using htl
      simp only [c6, if_false, hT3]
      have c7 : ¬ (Bytes.toNat (Bytes.slice d 0 4) ≥ 2 ^ lp.h ∨
          d.length ≠ 8 + (4 + H.n * (op.p + 1)) + H.n * lp.h) := by omega
      have hparse : InMemLmotsSig.parse H.n (Bytes.slice d 4 (4 + H.n * (op.p + 1))) =
          some ⟨Bytes.slice d 8 H.n, Bytes.slice d (8 + H.n) (H.n * op.p), op⟩ := by
        rw [← hm]; exact lmots_parse_inner H.n d op hop (by omega)
      obtain ⟨kc, hkc1, hkc2⟩ := lmotsKc_eq H (Bytes.slice kb 8 16) (Bytes.toNat (Bytes.slice d 0 4)) msg _ _ hparse
        (slice_len (by omega))
      have b1 : (op != op) = false := (ots_beq op op).mpr rfl
      have b2 : (lp != lp) = false := (lms_beq lp lp).mpr rfl
      simp only [c7, if_false, bytesAt_eq, hkc2, b1, b2, Bool.or_self, Bool.false_eq_true]
      unfold lmsCandidate
      simp only [hq, if_false, hkc1, bind, Except.bind]
      have hpl : (Bytes.slice d (8 + (4 + H.n * (op.p + 1))) (H.n * lp.h)).length = H.n * lp.h :=
        slice_len (by omega)
      rw [climb_eq H _ _ lp.h hpl lp.h (lp.h + 1) _ 0 _ (by omega) (by rw [Nat.pow_succ]; omega) (by omega) (by omega)]
      have hpath : (List.map (fun j => Bytes.slice (Bytes.slice d (8 + (4 + H.n * (op.p + 1))) (H.n * lp.h)) (H.n * j) H.n)
            (List.range' 0 lp.h)) =
          (List.map (fun i => Bytes.slice d (8 + (4 + H.n * (op.p + 1)) + H.n * i) H.n) (List.range lp.h)) := by
        rw [List.range_eq_range']
        apply List.map_congr_left
        intro i hi
        have hi : i < lp.h := by simpa using hi
        have hle : H.n * i + H.n ≤ H.n * lp.h := by
          calc H.n * i + H.n = H.n * (i + 1) := by rw [Nat.mul_add, Nat.mul_one]
            _ ≤ H.n * lp.h := Nat.mul_le_mul_left _ (by omega)
        rw [slice_slice _ _ _ _ _ hle]
      have hL : Spec.D_LEAF = D_LEAF := rfl
      simp only [hpath, pure, Except.pure, u32str_eq, hL]
    · have c6 : Bytes.toNat (Bytes.slice d (4 + (4 + H.n * (op.p + 1))) 4) ≠ Bytes.toNat (Bytes.slice kb 0 4) := htl
      have b2 : (lp != klp) = true := by
        cases hb : (lp != klp) with
        | true => rfl
        | false => exact absurd ((lms_eq_iff hlp hklp).mp ((lms_beq lp klp).mp hb)) htl
      rw [if_pos c6]
      simp only [b2, Bool.or_true, if_true, pure, Except.pure]
  · have c5 : Bytes.toNat (Bytes.slice d 4 4) ≠ Bytes.toNat (Bytes.slice kb 4 4) := hto
    have b1 : (op != kop) = true := by
      cases hb : (op != kop) with
      | true => rfl
      | false => exact absurd ((ots_eq_iff hop hkop).mp ((ots_beq op kop).mp hb)) hto
    rw [if_pos c5]
    simp only [b1, Bool.true_or, if_true, pure, Except.pure]



/-- whatever Algorithm 6 accepts is accepted by both parsers, with nothing left over -/
theorem valid_imp_parse (H : HashFn) (msg d kb : Bytes) (h : Spec.lmsValid H (libTables H.n) msg d kb = true) :
    (∃ s, InMemLmsSig.parse H.n d = some s ∧ d.length = s.len H.n) ∧
    (∃ key, InMemLmsPk.parse H.n kb = some key) ∧ kb.length = 24 + H.n := by
  unfold Spec.lmsValid at h
  by_cases c1 : kb.length < 8
  · simp [c1] at h
  have t1 : Spec.strTou32 (Spec.bytesAt kb 0 4) = Bytes.toNat (Bytes.slice kb 0 4) :=
    strTou32_eq _ (slice_len (by omega))
  have t2 : Spec.strTou32 (Spec.bytesAt kb 4 4) = Bytes.toNat (Bytes.slice kb 4 4) :=
    strTou32_eq _ (slice_len (by omega))
  simp only [c1, if_false, t1, t2] at h
  cases hklp : (libTables H.n).lms (Bytes.toNat (Bytes.slice kb 0 4)) with
  | none => rw [hklp] at h; simp at h
  | some klp =>
  rw [hklp] at h
  simp only [] at h
  by_cases c2 : kb.length ≠ 24 + H.n
  · simp [c2] at h
  rw [if_neg c2] at h
  cases hTc : Spec.lmsRootCandidate H (libTables H.n) msg d (Spec.bytesAt kb 8 16) (Bytes.toNat (Bytes.slice kb 0 4))
      (Bytes.toNat (Bytes.slice kb 4 4)) with
  | none => rw [hTc] at h; simp at h
  | some Tc =>
  clear h
  unfold Spec.lmsRootCandidate at hTc
  by_cases c3 : d.length < 8
  · simp [c3] at hTc
  have t3 : Spec.strTou32 (Spec.bytesAt d 0 4) = Bytes.toNat (Bytes.slice d 0 4) :=
    strTou32_eq _ (slice_len (by omega))
  have t4 : Spec.strTou32 (Spec.bytesAt d 4 4) = Bytes.toNat (Bytes.slice d 4 4) :=
    strTou32_eq _ (slice_len (by omega))
  simp only [c3, if_false, t3, t4] at hTc
  by_cases c5 : Bytes.toNat (Bytes.slice d 4 4) ≠ Bytes.toNat (Bytes.slice kb 4 4)
  · rw [if_pos c5] at hTc; simp at hTc
  rw [if_neg c5] at hTc
  cases hop : (libTables H.n).ots (Bytes.toNat (Bytes.slice d 4 4)) with
  | none => rw [hop] at hTc; simp at hTc
  | some op =>
  rw [hop] at hTc
  simp only [] at hTc
  by_cases c4 : d.length < 8 + (4 + H.n * (op.p + 1))
  · rw [if_pos c4] at hTc; simp at hTc
  rw [if_neg c4] at hTc
  have t5 : Spec.strTou32 (Spec.bytesAt d (4 + (4 + H.n * (op.p + 1))) 4) =
      Bytes.toNat (Bytes.slice d (4 + (4 + H.n * (op.p + 1))) 4) :=
    strTou32_eq _ (slice_len (by omega))
  rw [t5] at hTc
  by_cases c6 : Bytes.toNat (Bytes.slice d (4 + (4 + H.n * (op.p + 1))) 4) ≠ Bytes.toNat (Bytes.slice kb 0 4)
  · rw [if_pos c6] at hTc; simp at hTc
  rw [if_neg c6] at hTc
  cases hlp : (libTables H.n).lms (Bytes.toNat (Bytes.slice d (4 + (4 + H.n * (op.p + 1))) 4)) with
  | none => rw [hlp] at hTc; simp at hTc
  | some lp =>
  rw [hlp] at hTc
  simp only [] at hTc
  by_cases c7 : Bytes.toNat (Bytes.slice d 0 4) ≥ 2 ^ lp.h ∨ d.length ≠ 8 + (4 + H.n * (op.p + 1)) + H.n * lp.h
  · rw [if_pos c7] at hTc; simp at hTc
  clear hTc
  have hop' : Params.lmotsGetFromType H.n (Bytes.toNat (Bytes.slice d 4 4)) = some op := hop
  have hlp' : Params.lmsGetFromType (Bytes.toNat (Bytes.slice d (4 + (4 + H.n * (op.p + 1))) 4)) = some lp := hlp
  have hklp' : Params.lmsGetFromType (Bytes.toNat (Bytes.slice kb 0 4)) = some klp := hklp
  have hkop' : Params.lmotsGetFromType H.n (Bytes.toNat (Bytes.slice kb 4 4)) = some op := by
    rw [← hop']; congr 1; symm; simpa using c5
  have hm : H.n * (1 + op.p) = H.n * (op.p + 1) := by rw [Nat.add_comm]
  have hmm : H.n * (op.p + 1) = H.n * op.p + H.n := by rw [Nat.mul_add, Nat.mul_one]
  refine ⟨?_, ?_, by omega⟩
  · rw [lms_parse_eq, if_pos (by omega), hop']
    simp only []
    rw [hm, if_pos (by omega), hlp']
    simp only []
    rw [if_pos (by omega), if_neg (by omega)]
    refine ⟨_, rfl, ?_⟩
    simp only [InMemLmsSig.len, lms_signature_length, lmots_signature_length]
    omega
  · rw [pk_parse_eq, if_pos (by omega), hklp', hkop']
    exact ⟨_, rfl⟩



theorem lmsValid_false_of_sig (H : HashFn) (msg d kb : Bytes)
    (h : ∀ s, InMemLmsSig.parse H.n d = some s → d.length ≠ s.len H.n) :
    Spec.lmsValid H (libTables H.n) msg d kb = false := by
  cases hv : Spec.lmsValid H (libTables H.n) msg d kb with
  | false => rfl
  | true =>
    obtain ⟨⟨s, hs, hl⟩, _⟩ := valid_imp_parse H msg d kb hv
    exact absurd hl (h s hs)

theorem lmsValid_false_of_key (H : HashFn) (msg d kb : Bytes)
    (h : InMemLmsPk.parse H.n kb = none ∨ kb.length ≠ 24 + H.n) :
    Spec.lmsValid H (libTables H.n) msg d kb = false := by
  cases hv : Spec.lmsValid H (libTables H.n) msg d kb with
  | false => rfl
  | true =>
    obtain ⟨_, ⟨key, hk⟩, hl⟩ := valid_imp_parse H msg d kb hv
    rcases h with h | h
    · rw [hk] at h; simp at h
    · exact absurd hl h

/-- level (b), total form: parsing both byte strings (rejecting left-over bytes) and running `lms::verify::verify`
is Algorithm 6 -/
theorem lms_refine (H : HashFn) (msg d kb : Bytes) :
    (match InMemLmsSig.parse H.n d, InMemLmsPk.parse H.n kb with
     | some s, some key =>
       if d.length = s.len H.n ∧ kb.length = 24 + H.n then lmsVerify H s key msg else pure false
     | _, _ => pure false) = .ok (Spec.lmsValid H (libTables H.n) msg d kb) := by
  cases hs : InMemLmsSig.parse H.n d with
  | none =>
    simp only [pure, Except.pure]
    rw [lmsValid_false_of_sig H msg d kb (by intro s h; rw [hs] at h; simp at h)]
  | some s =>
    cases hk : InMemLmsPk.parse H.n kb with
    | none =>
      simp only [pure, Except.pure]
      rw [lmsValid_false_of_key H msg d kb (Or.inl hk)]
    | some key =>
      simp only []
      by_cases hc : d.length = s.len H.n ∧ kb.length = 24 + H.n
      · rw [if_pos hc]
        exact lmsVerify_eq H msg d kb s key hs hc.1 hk hc.2
      · rw [if_neg hc]
        simp only [pure, Except.pure]
        by_cases h1 : d.length = s.len H.n
        · rw [lmsValid_false_of_key H msg d kb (Or.inr (by intro h2; exact hc ⟨h1, h2⟩))]
        · rw [lmsValid_false_of_sig H msg d kb (by
            intro s' h; rw [hs] at h; simp only [Option.some.injEq] at h; subst h; exact h1)]

/-- what `lmsSigLen = some sl` means -/
theorem sigLen_facts {n : Nat} {d : Bytes} {sl : Nat} (h : Spec.lmsSigLen n (libTables n) d = some sl) :
    ∃ op lp, 8 ≤ d.length ∧ Params.lmotsGetFromType n (Bytes.toNat (Bytes.slice d 4 4)) = some op ∧
      8 + (4 + n * (op.p + 1)) ≤ d.length ∧
      Params.lmsGetFromType (Bytes.toNat (Bytes.slice d (4 + (4 + n * (op.p + 1))) 4)) = some lp ∧
      sl = 8 + (4 + n * (op.p + 1)) + n * lp.h := by
  unfold Spec.lmsSigLen at h
  by_cases c1 : d.length < 8
  · simp [c1] at h
  have t4 : Spec.strTou32 (Spec.bytesAt d 4 4) = Bytes.toNat (Bytes.slice d 4 4) :=
    strTou32_eq _ (slice_len (by omega))
  simp only [c1, if_false, t4] at h
  cases hop : (libTables n).ots (Bytes.toNat (Bytes.slice d 4 4)) with
  | none => rw [hop] at h; simp at h
  | some op =>
  rw [hop] at h
  simp only [] at h
  by_cases c4 : d.length < 8 + (4 + n * (op.p + 1))
  · rw [if_pos c4] at h; simp at h
  rw [if_neg c4] at h
  have t5 : Spec.strTou32 (Spec.bytesAt d (4 + (4 + n * (op.p + 1))) 4) =
      Bytes.toNat (Bytes.slice d (4 + (4 + n * (op.p + 1))) 4) :=
    strTou32_eq _ (slice_len (by omega))
  rw [t5] at h
  cases hlp : (libTables n).lms (Bytes.toNat (Bytes.slice d (4 + (4 + n * (op.p + 1))) 4)) with
  | none => rw [hlp] at h; simp at h
  | some lp =>
  rw [hlp] at h
  simp only [Option.some.injEq] at h
  exact ⟨op, lp, by omega, hop, by omega, hlp, h.symm⟩

theorem sigLen_intro {n : Nat} {d : Bytes} {op : LmotsParam} {lp : LmsParam} (h8 : 8 ≤ d.length)
    (hop : Params.lmotsGetFromType n (Bytes.toNat (Bytes.slice d 4 4)) = some op)
    (h2 : 8 + (4 + n * (op.p + 1)) ≤ d.length)
    (hlp : Params.lmsGetFromType (Bytes.toNat (Bytes.slice d (4 + (4 + n * (op.p + 1))) 4)) = some lp) :
    Spec.lmsSigLen n (libTables n) d = some (8 + (4 + n * (op.p + 1)) + n * lp.h) := by
  have t4 : Spec.strTou32 (Spec.bytesAt d 4 4) = Bytes.toNat (Bytes.slice d 4 4) :=
    strTou32_eq _ (slice_len (by omega))
  have t5 : Spec.strTou32 (Spec.bytesAt d (4 + (4 + n * (op.p + 1))) 4) =
      Bytes.toNat (Bytes.slice d (4 + (4 + n * (op.p + 1))) 4) :=
    strTou32_eq _ (slice_len (by omega))
  have hT2 : (libTables n).ots (Bytes.toNat (Bytes.slice d 4 4)) = some op := hop
  have hT3 : (libTables n).lms (Bytes.toNat (Bytes.slice d (4 + (4 + n * (op.p + 1))) 4)) = some lp := hlp
  unfold Spec.lmsSigLen
  rw [if_neg (by omega), t4, hT2]
  simp only []
  rw [if_neg (by omega), t5, hT3]

/-- a successful parse consumed exactly the length the type codes announce -/
theorem parse_sigLen {n : Nat} {d : Bytes} {s : InMemLmsSig} (hs : InMemLmsSig.parse n d = some s) :
    Spec.lmsSigLen n (libTables n) d = some (s.len n) ∧ s.len n ≤ d.length := by
  rw [lms_parse_eq] at hs
  split at hs
  case isFalse => simp at hs
  rename_i h8
  split at hs
  case h_1 => simp at hs
  rename_i op hop
  split at hs
  case isFalse => simp at hs
  rename_i h2
  split at hs
  case h_1 => simp at hs
  rename_i lp hlp
  split at hs
  case isFalse => simp at hs
  rename_i h3
  split at hs
  case isTrue => simp at hs
  rename_i hq
  simp only [Option.some.injEq] at hs
  subst hs
  have hm : n * (1 + op.p) = n * (op.p + 1) := by rw [Nat.add_comm]
  rw [hm] at h2 h3 hlp
  have hmm : n * (op.p + 1) = n * op.p + n := by rw [Nat.mul_add, Nat.mul_one]
  have e : InMemLmsSig.len n ⟨Bytes.toNat (Bytes.slice d 0 4),
      ⟨Bytes.slice d 8 n, Bytes.slice d (8 + n) (n * op.p), op⟩,
      Bytes.slice d (8 + (4 + n * (1 + op.p))) (n * lp.h), lp⟩ = 8 + (4 + n * (op.p + 1)) + n * lp.h := by
    simp only [InMemLmsSig.len, lms_signature_length, lmots_signature_length]; omega
  rw [e]
  exact ⟨sigLen_intro h8 hop h2 hlp, h3⟩

/-- the parser only looks at the bytes the type codes announce -/
theorem parse_take {n : Nat} {d : Bytes} {sl : Nat} (h : Spec.lmsSigLen n (libTables n) d = some sl)
    (hle : sl ≤ d.length) : InMemLmsSig.parse n (d.take sl) = InMemLmsSig.parse n d := by
  obtain ⟨op, lp, h8, hop, h2, hlp, rfl⟩ := sigLen_facts h
  have hm : n * (1 + op.p) = n * (op.p + 1) := by rw [Nat.add_comm]
  have hmm : n * (op.p + 1) = n * op.p + n := by rw [Nat.mul_add, Nat.mul_one]
  have hl : (d.take (8 + (4 + n * (op.p + 1)) + n * lp.h)).length = 8 + (4 + n * (op.p + 1)) + n * lp.h := by
    rw [List.length_take]; omega
  rw [lms_parse_eq n d, lms_parse_eq n (d.take _), hl]
  rw [slice_take _ _ _ _ (by omega), hop, if_pos (by omega), if_pos h8]
  simp only []
  rw [hm, slice_take _ _ _ _ (by omega), hlp, if_pos (by omega), if_pos h2]
  simp only []
  rw [if_pos (Nat.le_refl _), if_pos hle]
  rw [slice_take _ _ _ _ (by omega), slice_take _ _ _ _ (by omega), slice_take _ _ _ _ (by omega),
    slice_take _ _ _ _ (by omega)]

theorem pk_parse_take {n : Nat} {kb : Bytes} (h : 24 + n ≤ kb.length) :
    InMemLmsPk.parse n (kb.take (24 + n)) = InMemLmsPk.parse n kb := by
  have hl : (kb.take (24 + n)).length = 24 + n := by rw [List.length_take]; omega
  rw [pk_parse_eq n kb, pk_parse_eq n (kb.take _), hl, if_pos (Nat.le_refl _), if_pos h]
  rw [slice_take _ _ _ _ (by omega), slice_take _ _ _ _ (by omega), slice_take _ _ _ _ (by omega),
    slice_take _ _ _ _ (by omega), List.take_take, Nat.min_self]

theorem pk_parse_complete {n : Nat} {kb : Bytes} {key : InMemLmsPk} (h : InMemLmsPk.parse n kb = some key) :
    key.complete = kb.take (24 + n) ∧ 24 + n ≤ kb.length := by
  rw [pk_parse_eq] at h
  split at h
  case isFalse => simp at h
  rename_i h24
  split at h
  case h_1 => simp at h
  split at h
  case h_1 => simp at h
  simp only [Option.some.injEq] at h
  subst h
  exact ⟨rfl, h24⟩



/-! ### level (c): section 6.3 -/

/-- the model's computation after the level count: parse `k` signed public keys and the last signature (rejecting
left-over bytes), then verify the chain and the message -/
def implTail (H : HashFn) (msg : Bytes) (k : Nat) (rest : Bytes) (key : InMemLmsPk) : P Bool :=
  match parseSignedPks H.n k rest [] with
  | none => pure false
  | some (spks, r) =>
    match InMemLmsSig.parse H.n r with
    | none => pure false
    | some sg =>
      if r.length != sg.len H.n then pure false else do
        match ← verifyChain H spks key with
        | none => pure false
        | some key' => lmsVerify H sg key' msg

/-- the specification's computation after the level count -/
def specTail (H : HashFn) (msg : Bytes) (k : Nat) (rest kb : Bytes) : Bool :=
  match Spec.splitSigned H.n (libTables H.n) k rest with
  | none => false
  | some (l, last) => Spec.chainValid H (libTables H.n) l kb last msg

theorem parseSignedPks_acc (n : Nat) : ∀ (k : Nat) (rest : Bytes) (acc : List (InMemLmsSig × InMemLmsPk)),
    parseSignedPks n k rest acc = (parseSignedPks n k rest []).map (fun x => (acc ++ x.1, x.2)) := by
  intro k
  induction k with
  | zero => intro rest acc; simp [parseSignedPks]
  | succ k ih =>
    intro rest acc
    simp only [parseSignedPks]
    cases parseSignedPk n rest with
    | none => rfl
    | some x =>
      obtain ⟨s, p, l⟩ := x
      simp only [List.nil_append]
      rw [ih (rest.drop l) (acc ++ [(s, p)]), ih (rest.drop l) [(s, p)]]
      cases parseSignedPks n k (rest.drop l) [] with
      | none => rfl
      | some y => simp

theorem parseSignedPks_succ (n k : Nat) (rest : Bytes) :
    parseSignedPks n (k + 1) rest [] =
      match parseSignedPk n rest with
      | none => none
      | some (s, p, l) => (parseSignedPks n k (rest.drop l) []).map (fun x => ((s, p) :: x.1, x.2)) := by
  simp only [parseSignedPks]
  cases parseSignedPk n rest with
  | none => rfl
  | some x =>
    obtain ⟨s, p, l⟩ := x
    simp only [List.nil_append]
    rw [parseSignedPks_acc]
    rfl

theorem specTail_zero (H : HashFn) (msg rest kb : Bytes) :
    specTail H msg 0 rest kb = Spec.lmsValid H (libTables H.n) msg rest kb := rfl

theorem specTail_succ (H : HashFn) (msg : Bytes) (k : Nat) (rest kb : Bytes) :
    specTail H msg (k + 1) rest kb =
      match Spec.lmsSigLen H.n (libTables H.n) rest with
      | none => false
      | some sl =>
        if rest.length < sl + (24 + H.n) then false else
        Spec.lmsValid H (libTables H.n) (Spec.bytesAt rest sl (24 + H.n)) (Spec.bytesAt rest 0 sl) kb &&
          specTail H msg k (rest.drop (sl + (24 + H.n))) (Spec.bytesAt rest sl (24 + H.n)) := by
  unfold specTail
  simp only [Spec.splitSigned]
  cases Spec.lmsSigLen H.n (libTables H.n) rest with
  | none => rfl
  | some sl =>
    simp only []
    by_cases hc : rest.length < sl + (24 + H.n)
    · simp only [hc, if_true]
    · simp only [hc, if_false]
      cases Spec.splitSigned H.n (libTables H.n) k (rest.drop (sl + (24 + H.n))) with
      | none => simp
      | some x => obtain ⟨l, r⟩ := x; simp [Spec.chainValid]

theorem specTail_bad_key (H : HashFn) (msg : Bytes) (k : Nat) (rest kb : Bytes)
    (h : InMemLmsPk.parse H.n kb = none ∨ kb.length ≠ 24 + H.n) : specTail H msg k rest kb = false := by
  cases k with
  | zero => rw [specTail_zero]; exact lmsValid_false_of_key H _ _ _ h
  | succ k =>
    rw [specTail_succ]
    cases Spec.lmsSigLen H.n (libTables H.n) rest with
    | none => rfl
    | some sl =>
      simp only []
      split
      · rfl
      · rw [lmsValid_false_of_key H _ _ _ h]; rfl

theorem implTail_zero (H : HashFn) (msg rest : Bytes) (key : InMemLmsPk) :
    implTail H msg 0 rest key =
      match InMemLmsSig.parse H.n rest with
      | none => pure false
      | some sg => if rest.length != sg.len H.n then pure false else lmsVerify H sg key msg := by
  unfold implTail
  simp only [parseSignedPks]
  cases InMemLmsSig.parse H.n rest with
  | none => rfl
  | some sg =>
    simp only []
    split
    · rfl
    · simp only [verifyChain, pure, Except.pure, bind, Except.bind]

theorem implTail_succ_none (H : HashFn) (msg : Bytes) (k : Nat) (rest : Bytes) (key : InMemLmsPk)
    (h : parseSignedPk H.n rest = none) : implTail H msg (k + 1) rest key = pure false := by
  unfold implTail
  rw [parseSignedPks_succ, h]

theorem implTail_succ_some (H : HashFn) (msg : Bytes) (k : Nat) (rest : Bytes) (key : InMemLmsPk)
    (s : InMemLmsSig) (p : InMemLmsPk) (l : Nat) (b : Bool)
    (h : parseSignedPk H.n rest = some (s, p, l)) (hb : lmsVerify H s key p.complete = .ok b) :
    implTail H msg (k + 1) rest key = if b then implTail H msg k (rest.drop l) p else pure false := by
  unfold implTail
  rw [parseSignedPks_succ, h]
  simp only []
  cases parseSignedPks H.n k (rest.drop l) [] with
  | none => cases b <;> rfl
  | some x =>
    obtain ⟨spks, r⟩ := x
    simp only [Option.map_some]
    cases InMemLmsSig.parse H.n r with
    | none => cases b <;> rfl
    | some sg =>
      simp only []
      split
      · cases b <;> rfl
      · simp only [verifyChain, hb, bind, Except.bind]
        cases b <;> rfl


theorem pkLen_eq (n : Nat) : lms_public_key_length n = 24 + n := by
  simp only [lms_public_key_length]

theorem parseSignedPk_some {n : Nat} {rest : Bytes} {s : InMemLmsSig} {p : InMemLmsPk} {l : Nat}
    (h : parseSignedPk n rest = some (s, p, l)) :
    InMemLmsSig.parse n rest = some s ∧ InMemLmsPk.parse n (rest.drop (s.len n)) = some p ∧
      l = s.len n + (24 + n) := by
  simp only [parseSignedPk, Option.bind_eq_bind, Option.bind_eq_some_iff, pure, Option.some.injEq,
    Prod.mk.injEq] at h
  obtain ⟨sg, hsg, pk, hpk, h1, h2, h3⟩ := h
  subst h1; subst h2
  exact ⟨hsg, hpk, by rw [← h3, pkLen_eq]⟩

theorem parseSignedPk_none {n : Nat} {rest : Bytes} (h : parseSignedPk n rest = none) :
    InMemLmsSig.parse n rest = none ∨
      ∃ s, InMemLmsSig.parse n rest = some s ∧ InMemLmsPk.parse n (rest.drop (s.len n)) = none := by
  cases hs : InMemLmsSig.parse n rest with
  | none => exact Or.inl rfl
  | some s =>
    refine Or.inr ⟨s, rfl, ?_⟩
    cases hp : InMemLmsPk.parse n (rest.drop (s.len n)) with
    | none => rfl
    | some p => simp [parseSignedPk, hs, hp] at h

/-- the chain of signed public keys and the final signature, by induction on the number of levels -/
theorem hss_tail_refine (H : HashFn) (msg : Bytes) : ∀ (k : Nat) (rest kb : Bytes) (key : InMemLmsPk),
    InMemLmsPk.parse H.n kb = some key → kb.length = 24 + H.n →
    implTail H msg k rest key = .ok (specTail H msg k rest kb) := by
  intro k
  induction k with
  | zero =>
    intro rest kb key hk hkl
    rw [implTail_zero, specTail_zero]
    cases hs : InMemLmsSig.parse H.n rest with
    | none =>
      simp only [pure, Except.pure]
      rw [lmsValid_false_of_sig H msg rest kb (by intro s h; rw [hs] at h; simp at h)]
    | some sg =>
      simp only []
      by_cases hl : rest.length = sg.len H.n
      · have : (rest.length != sg.len H.n) = false := by simp [hl]
        rw [this]
        exact lmsVerify_eq H msg rest kb sg key hs hl hk hkl
      · have : (rest.length != sg.len H.n) = true := by simp [hl]
        rw [this]
        simp only [if_true, pure, Except.pure]
        rw [lmsValid_false_of_sig H msg rest kb (by
          intro s' h; rw [hs] at h; simp only [Option.some.injEq] at h; subst h; exact hl)]
  | succ k ih =>
    intro rest kb key hk hkl
    rw [specTail_succ]
    cases hsp : parseSignedPk H.n rest with
    | none =>
      rw [implTail_succ_none H msg k rest key hsp]
      simp only [pure, Except.pure]
      congr 1
      cases hsl : Spec.lmsSigLen H.n (libTables H.n) rest with
      | none => rfl
      | some sl =>
        simp only []
        split
        · rfl
        · rename_i hlen
          rcases parseSignedPk_none hsp with hs | ⟨s, hs, hp⟩
          · have : InMemLmsSig.parse H.n (rest.take sl) = none := by
              rw [parse_take hsl (by omega)]; exact hs
            have hb : Spec.bytesAt rest 0 sl = rest.take sl := slice_zero_eq_take rest sl
            rw [hb, lmsValid_false_of_sig H _ (rest.take sl) kb (by intro s h; rw [this] at h; simp at h)]
            rfl
          · obtain ⟨h1, _⟩ := parse_sigLen hs
            rw [hsl] at h1
            have hsl' : sl = s.len H.n := Option.some.inj h1
            have hpub : InMemLmsPk.parse H.n (Spec.bytesAt rest sl (24 + H.n)) = none := by
              show InMemLmsPk.parse H.n ((rest.drop sl).take (24 + H.n)) = none
              rw [pk_parse_take (by rw [List.length_drop]; omega), hsl']; exact hp
            rw [specTail_bad_key H msg k _ _ (Or.inl hpub), Bool.and_false]
    | some x =>
      obtain ⟨s, p, l⟩ := x
      obtain ⟨hs, hp, hl⟩ := parseSignedPk_some hsp
      obtain ⟨hsl, hle⟩ := parse_sigLen hs
      obtain ⟨hcomp, hplen⟩ := pk_parse_complete hp
      rw [List.length_drop] at hplen
      have hsig : Spec.bytesAt rest 0 (s.len H.n) = rest.take (s.len H.n) := slice_zero_eq_take rest _
      have hpub : Spec.bytesAt rest (s.len H.n) (24 + H.n) = p.complete := by rw [hcomp]; rfl
      have hpubparse : InMemLmsPk.parse H.n p.complete = some p := by
        rw [hcomp, pk_parse_take (by rw [List.length_drop]; omega)]; exact hp
      have hpublen : p.complete.length = 24 + H.n := by
        rw [hcomp, List.length_take, List.length_drop]; omega
      have hv : lmsVerify H s key p.complete =
          .ok (Spec.lmsValid H (libTables H.n) p.complete (rest.take (s.len H.n)) kb) :=
        lmsVerify_eq H p.complete (rest.take (s.len H.n)) kb s key
          (by rw [parse_take hsl hle]; exact hs) (by rw [List.length_take]; omega) hk hkl
      rw [implTail_succ_some H msg k rest key s p l _ hsp hv, hsl]
      simp only []
      rw [if_neg (show ¬ rest.length < s.len H.n + (24 + H.n) by omega), hsig, hpub, hl]
      cases Spec.lmsValid H (libTables H.n) p.complete (rest.take (s.len H.n)) kb with
      | false => rfl
      | true =>
        simp only [if_true, Bool.true_and]
        exact ih _ _ _ hpubparse hpublen



theorem hssValid_eq (H : HashFn) (maxLevels : Nat) (msg sig pk : Bytes) :
    Spec.hssValid H (libTables H.n) maxLevels msg sig pk =
      (if pk.length < 4 ∨ sig.length < 4 then false else
       if Spec.strTou32 (Spec.bytesAt sig 0 4) + 1 ≠ Spec.strTou32 (Spec.bytesAt pk 0 4) then false else
       if Spec.strTou32 (Spec.bytesAt sig 0 4) > maxLevels - 1 then false else
       specTail H msg (Spec.strTou32 (Spec.bytesAt sig 0 4)) (sig.drop 4) (pk.drop 4)) := rfl

theorem parseHssPk_eq (n : Nat) (pk : Bytes) :
    parseHssPk n pk =
      if 4 ≤ pk.length then
        match InMemLmsPk.parse n (pk.drop 4) with
        | none => none
        | some key => if pk.length - 4 = 24 + n then some (Bytes.toNat (Bytes.slice pk 0 4), key) else none
      else none := by
  unfold parseHssPk readAt
  by_cases h4 : 4 ≤ pk.length
  · simp only [h4, Nat.zero_add, if_true, Option.bind_eq_bind, Option.bind_some]
    cases hk : InMemLmsPk.parse n (pk.drop 4) with
    | none => rfl
    | some key =>
      obtain ⟨hc, hl⟩ := pk_parse_complete hk
      have hcl : key.complete.length = 24 + n := by rw [hc, List.length_take]; omega
      simp only [Option.bind_some, hcl]
      by_cases he : pk.length - 4 = 24 + n
      · simp [he]
      · simp [he]
  · simp [h4]

theorem hssVerify_bad_pk (H : HashFn) (cfg : Config) (msg sig pk : Bytes) (h : parseHssPk H.n pk = none) :
    hssVerify H cfg msg sig pk = .ok false := by
  unfold hssVerify
  cases InMemHssSig.parse cfg H.n sig with
  | none => rfl
  | some s => simp only [h]; rfl

theorem hssVerify_eq_tail (H : HashFn) (cfg : Config) (msg sig pk : Bytes) (L : Nat) (key : InMemLmsPk)
    (h4 : 4 ≤ sig.length) (hlv : ¬ Bytes.toNat (Bytes.slice sig 0 4) > cfg.maxLevels - 1)
    (hpk : parseHssPk H.n pk = some (L, key)) :
    hssVerify H cfg msg sig pk =
      if Bytes.toNat (Bytes.slice sig 0 4) + 1 = L then
        implTail H msg (Bytes.toNat (Bytes.slice sig 0 4)) (sig.drop 4) key
      else pure false := by
  unfold hssVerify InMemHssSig.parse implTail
  rw [readAt_of_le (show 0 + 4 ≤ sig.length by omega)]
  simp only [hlv, if_false]
  cases parseSignedPks H.n (Bytes.toNat (Bytes.slice sig 0 4)) (sig.drop 4) [] with
  | none => simp only []; split <;> rfl
  | some x =>
    obtain ⟨spks, rest⟩ := x
    simp only []
    cases InMemLmsSig.parse H.n rest with
    | none => simp only []; split <;> rfl
    | some sg =>
      simp only []
      by_cases hl : rest.length = sg.len H.n
      · have : (rest.length != sg.len H.n) = false := by simp [hl]
        simp only [this, hpk, hssVerifyParsed, Bool.false_eq_true, if_false]
        by_cases hL : Bytes.toNat (Bytes.slice sig 0 4) + 1 = L
        · subst hL
          simp only [bne_self_eq_false, Bool.false_eq_true, if_false, if_true]
          rfl
        · have : (Bytes.toNat (Bytes.slice sig 0 4) + 1 != L) = true := by simp [hL]
          simp only [this, hL, if_true, if_false]
      · have : (rest.length != sg.len H.n) = true := by simp [hl]
        simp only [this, if_true]
        split <;> rfl

/-- level (c) and the whole property: `hss_verify` is the RFC 8554 verification algorithm, on all byte strings -/
theorem hss_refine (H : HashFn) (cfg : Config) (msg sig pk : Bytes) :
    hssVerify H cfg msg sig pk = .ok (Spec.hssValid H (libTables H.n) cfg.maxLevels msg sig pk) := by
  rw [hssValid_eq]
  by_cases hs4 : sig.length < 4
  · have : InMemHssSig.parse cfg H.n sig = none := by
      simp only [InMemHssSig.parse, readAt]
      have : ¬ (0 + 4 ≤ sig.length) := by omega
      simp [this]
    simp [hssVerify, this, hs4, pure, Except.pure]
  by_cases hp4 : pk.length < 4
  · rw [hssVerify_bad_pk H cfg msg sig pk (by rw [parseHssPk_eq, if_neg (by omega)])]
    simp [hp4]
  have c0 : ¬ (pk.length < 4 ∨ sig.length < 4) := by omega
  have ts : Spec.strTou32 (Spec.bytesAt sig 0 4) = Bytes.toNat (Bytes.slice sig 0 4) :=
    strTou32_eq _ (slice_len (show 0 + 4 ≤ sig.length by omega))
  have tp : Spec.strTou32 (Spec.bytesAt pk 0 4) = Bytes.toNat (Bytes.slice pk 0 4) :=
    strTou32_eq _ (slice_len (show 0 + 4 ≤ pk.length by omega))
  rw [if_neg c0, ts, tp]
  by_cases hlv : Bytes.toNat (Bytes.slice sig 0 4) > cfg.maxLevels - 1
  · have : InMemHssSig.parse cfg H.n sig = none := by
      simp only [InMemHssSig.parse]
      rw [readAt_of_le (show 0 + 4 ≤ sig.length by omega)]
      simp [hlv]
    rw [if_pos hlv]
    simp [hssVerify, this, pure, Except.pure]
  rw [if_neg hlv]
  have hbad : ∀ (h : InMemLmsPk.parse H.n (pk.drop 4) = none ∨ (pk.drop 4).length ≠ 24 + H.n),
      parseHssPk H.n pk = none →
      hssVerify H cfg msg sig pk = .ok (if Bytes.toNat (Bytes.slice sig 0 4) + 1 ≠ Bytes.toNat (Bytes.slice pk 0 4)
        then false else specTail H msg (Bytes.toNat (Bytes.slice sig 0 4)) (sig.drop 4) (pk.drop 4)) := by
    intro h hn
    rw [hssVerify_bad_pk H cfg msg sig pk hn, specTail_bad_key H msg _ _ _ h]
    simp
  cases hk : InMemLmsPk.parse H.n (pk.drop 4) with
  | none => exact hbad (Or.inl hk) (by rw [parseHssPk_eq, if_pos (by omega), hk])
  | some key =>
    by_cases hl : pk.length - 4 = 24 + H.n
    · have hpk : parseHssPk H.n pk = some (Bytes.toNat (Bytes.slice pk 0 4), key) := by
        rw [parseHssPk_eq, if_pos (by omega), hk]; simp only []; rw [if_pos hl]
      rw [hssVerify_eq_tail H cfg msg sig pk _ key (by omega) hlv hpk]
      by_cases hL : Bytes.toNat (Bytes.slice sig 0 4) + 1 = Bytes.toNat (Bytes.slice pk 0 4)
      · rw [if_pos hL, if_neg (by simpa using hL)]
        exact hss_tail_refine H msg _ _ _ key hk (by rw [List.length_drop]; exact hl)
      · rw [if_neg hL, if_pos hL]; rfl
    · exact hbad (Or.inr (by rw [List.length_drop]; exact hl))
        (by rw [parseHssPk_eq, if_pos (by omega), hk]; simp only []; rw [if_neg hl])



/-! ### consequences used by the corollaries of C02 -/

/-- whatever Algorithm 4b accepts is accepted by the LM-OTS parser, with nothing left over -/
theorem lmotsKc_some_imp (H : HashFn) (I : Bytes) (q : Nat) (msg ob kc : Bytes)
    (h : Spec.lmotsKc H (libTables H.n) I q msg ob = some kc) :
    ∃ s, InMemLmotsSig.parse H.n ob = some s ∧ ob.length = 4 + H.n * (s.param.p + 1) := by
  unfold Spec.lmotsKc at h
  by_cases c1 : ob.length < 4
  · simp [c1] at h
  have t : Spec.strTou32 (Spec.bytesAt ob 0 4) = Bytes.toNat (Bytes.slice ob 0 4) :=
    strTou32_eq _ (slice_len (by omega))
  simp only [c1, if_false, t] at h
  cases hprm : (libTables H.n).ots (Bytes.toNat (Bytes.slice ob 0 4)) with
  | none => rw [hprm] at h; simp at h
  | some prm =>
  rw [hprm] at h
  simp only [] at h
  by_cases c2 : ob.length ≠ 4 + H.n * (prm.p + 1)
  · rw [if_pos c2] at h; simp at h
  clear h
  have hprm' : Params.lmotsGetFromType H.n (Bytes.toNat (Bytes.slice ob 0 4)) = some prm := hprm
  have hmm : H.n * (prm.p + 1) = H.n * prm.p + H.n := by rw [Nat.mul_add, Nat.mul_one]
  rw [lmots_parse_eq, if_pos (by omega), hprm']
  simp only []
  rw [if_pos (by omega)]
  exact ⟨_, rfl, by simpa using c2⟩

/-- level (a), total form: parsing the LM-OTS signature (rejecting a wrong length) and running
`lm_ots::verify::generate_public_key_candidate` is Algorithm 4b -/
theorem lmots_refine (H : HashFn) (I : Bytes) (q : Nat) (msg ob : Bytes) :
    (match InMemLmotsSig.parse H.n ob with
     | some s =>
       if ob.length = 4 + H.n * (s.param.p + 1) then (lmotsCandidate H s I q msg).map some else pure none
     | none => pure none) = .ok (Spec.lmotsKc H (libTables H.n) I q msg ob) := by
  cases hs : InMemLmotsSig.parse H.n ob with
  | none =>
    simp only [pure, Except.pure]
    cases hk : Spec.lmotsKc H (libTables H.n) I q msg ob with
    | none => rfl
    | some kc =>
      obtain ⟨s, h1, _⟩ := lmotsKc_some_imp H I q msg ob kc hk
      rw [hs] at h1; simp at h1
  | some s =>
    simp only []
    by_cases hl : ob.length = 4 + H.n * (s.param.p + 1)
    · obtain ⟨kc, h1, h2⟩ := lmotsKc_eq H I q msg ob s hs hl
      rw [if_pos hl, h1, h2]; rfl
    · rw [if_neg hl]
      simp only [pure, Except.pure]
      cases hk : Spec.lmotsKc H (libTables H.n) I q msg ob with
      | none => rfl
      | some kc =>
        obtain ⟨s', h1, h2⟩ := lmotsKc_some_imp H I q msg ob kc hk
        rw [hs] at h1; simp only [Option.some.injEq] at h1; subst h1
        exact absurd h2 hl

/-- an accepted LMS signature has exactly the length its type codes announce -/
theorem lmsValid_sigLen (H : HashFn) (msg d kb : Bytes) (h : Spec.lmsValid H (libTables H.n) msg d kb = true) :
    Spec.lmsSigLen H.n (libTables H.n) d = some d.length := by
  obtain ⟨⟨s, hs, hl⟩, _⟩ := valid_imp_parse H msg d kb h
  rw [hl]; exact (parse_sigLen hs).1

/-- the public key under which the last LMS signature is verified -/
def lastKey : List (Bytes × Bytes) → Bytes → Bytes
  | [], kb => kb
  | (_, pb) :: l, _ => lastKey l pb

theorem chainValid_last (H : HashFn) (T : Spec.Tables) (msg last : Bytes) : ∀ (l : List (Bytes × Bytes)) (kb : Bytes),
    Spec.chainValid H T l kb last msg = true → Spec.lmsValid H T msg last (lastKey l kb) = true := by
  intro l
  induction l with
  | nil => intro kb h; exact h
  | cons x l ih =>
    intro kb h
    obtain ⟨sg, pb⟩ := x
    simp only [Spec.chainValid, Bool.and_eq_true] at h
    exact ih pb h.2

/-- an accepted public key has one of the lengths 44, 52, 60 -/
theorem pk_parse_n {n : Nat} {kb : Bytes} {key : InMemLmsPk} (h : InMemLmsPk.parse n kb = some key) :
    n ∈ [16, 24, 32] := by
  rw [pk_parse_eq] at h
  split at h
  case isFalse => simp at h
  split at h
  case h_1 => simp at h
  split at h
  case h_1 => simp at h
  rename_i op hop
  exact (ots_lookup_mem hop).1

theorem hssValid_pk_len (H : HashFn) (maxLevels : Nat) (msg sig pk : Bytes)
    (h : Spec.hssValid H (libTables H.n) maxLevels msg sig pk = true) : pk.length = 28 + H.n ∧ H.n ∈ [16, 24, 32] := by
  rw [hssValid_eq] at h
  by_cases c0 : pk.length < 4 ∨ sig.length < 4
  · rw [if_pos c0] at h; simp at h
  rw [if_neg c0] at h
  split at h
  · simp at h
  split at h
  · simp at h
  cases hk : InMemLmsPk.parse H.n (pk.drop 4) with
  | none => rw [specTail_bad_key H msg _ _ _ (Or.inl hk)] at h; simp at h
  | some key =>
    by_cases hl : (pk.drop 4).length = 24 + H.n
    · rw [List.length_drop] at hl
      exact ⟨by omega, pk_parse_n hk⟩
    · rw [specTail_bad_key H msg _ _ _ (Or.inr hl)] at h; simp at h



theorem slice_append_left (a e : Bytes) (s l : Nat) (h : s + l ≤ a.length) :
    Bytes.slice (a ++ e) s l = Bytes.slice a s l := by
  unfold Bytes.slice
  rw [List.drop_append_of_le_length (by omega), List.take_append_of_le_length (by rw [List.length_drop]; omega)]

theorem sigLen_append {n : Nat} {d : Bytes} {sl : Nat} (e : Bytes)
    (h : Spec.lmsSigLen n (libTables n) d = some sl) : Spec.lmsSigLen n (libTables n) (d ++ e) = some sl := by
  obtain ⟨op, lp, h8, hop, h2, hlp, rfl⟩ := sigLen_facts h
  have hl : (d ++ e).length = d.length + e.length := List.length_append
  apply sigLen_intro (by omega)
  · rw [slice_append_left _ _ _ _ (by omega)]; exact hop
  · omega
  · rw [slice_append_left _ _ _ _ (by omega)]; exact hlp

theorem splitSigned_append (n : Nat) (e : Bytes) : ∀ (k : Nat) (rest : Bytes) (l : List (Bytes × Bytes)) (r : Bytes),
    Spec.splitSigned n (libTables n) k rest = some (l, r) →
    Spec.splitSigned n (libTables n) k (rest ++ e) = some (l, r ++ e) := by
  intro k
  induction k with
  | zero =>
    intro rest l r h
    simp only [Spec.splitSigned, Option.some.injEq, Prod.mk.injEq] at h ⊢
    exact ⟨h.1, by rw [h.2]⟩
  | succ k ih =>
    intro rest l r h
    simp only [Spec.splitSigned] at h ⊢
    cases hsl : Spec.lmsSigLen n (libTables n) rest with
    | none => rw [hsl] at h; simp at h
    | some sl =>
      rw [hsl] at h
      simp only [] at h
      by_cases hc : rest.length < sl + (24 + n)
      · rw [if_pos hc] at h; simp at h
      rw [if_neg hc] at h
      cases hin : Spec.splitSigned n (libTables n) k (rest.drop (sl + (24 + n))) with
      | none => rw [hin] at h; simp at h
      | some x =>
        obtain ⟨l', r'⟩ := x
        rw [hin] at h
        simp only [Option.some.injEq, Prod.mk.injEq] at h
        obtain ⟨h1, h2⟩ := h
        subst h1; subst h2
        have hl : (rest ++ e).length = rest.length + e.length := List.length_append
        rw [sigLen_append e hsl]
        simp only []
        rw [if_neg (by omega), List.drop_append_of_le_length (by omega), ih _ _ _ hin]
        simp only [bytesAt_eq]
        rw [slice_append_left _ _ _ _ (by omega), slice_append_left _ _ _ _ (by omega)]

/-- what acceptance by the section 6.3 algorithm means, unfolded once -/
theorem hssValid_true (H : HashFn) (maxLevels : Nat) (msg sig pk : Bytes)
    (h : Spec.hssValid H (libTables H.n) maxLevels msg sig pk = true) :
    4 ≤ pk.length ∧ 4 ≤ sig.length ∧
    Spec.strTou32 (Spec.bytesAt sig 0 4) + 1 = Spec.strTou32 (Spec.bytesAt pk 0 4) ∧
    Spec.strTou32 (Spec.bytesAt sig 0 4) ≤ maxLevels - 1 ∧
    ∃ l last, Spec.splitSigned H.n (libTables H.n) (Spec.strTou32 (Spec.bytesAt sig 0 4)) (sig.drop 4) = some (l, last) ∧
      Spec.chainValid H (libTables H.n) l (pk.drop 4) last msg = true := by
  unfold Spec.hssValid at h
  by_cases c0 : pk.length < 4 ∨ sig.length < 4
  · rw [if_pos c0] at h; simp at h
  rw [if_neg c0] at h
  simp only [] at h
  by_cases c1 : Spec.strTou32 (Spec.bytesAt sig 0 4) + 1 ≠ Spec.strTou32 (Spec.bytesAt pk 0 4)
  · rw [if_pos c1] at h; simp at h
  rw [if_neg c1] at h
  by_cases c2 : Spec.strTou32 (Spec.bytesAt sig 0 4) > maxLevels - 1
  · rw [if_pos c2] at h; simp at h
  rw [if_neg c2] at h
  cases hsp : Spec.splitSigned H.n (libTables H.n) (Spec.strTou32 (Spec.bytesAt sig 0 4)) (sig.drop 4) with
  | none => rw [hsp] at h; simp at h
  | some x =>
    obtain ⟨l, last⟩ := x
    rw [hsp] at h
    exact ⟨by omega, by omega, by simpa using c1, by omega, l, last, rfl, h⟩

/-- the last LMS signature of an accepted HSS signature has exactly the length its type codes announce: nothing
is missing and nothing follows it -/
theorem hssValid_last_len (H : HashFn) (maxLevels : Nat) (msg sig pk : Bytes)
    (h : Spec.hssValid H (libTables H.n) maxLevels msg sig pk = true) :
    ∃ l last, Spec.splitSigned H.n (libTables H.n) (Spec.strTou32 (Spec.bytesAt sig 0 4)) (sig.drop 4) = some (l, last) ∧
      Spec.lmsSigLen H.n (libTables H.n) last = some last.length := by
  obtain ⟨_, _, _, _, l, last, hsp, hcv⟩ := hssValid_true H maxLevels msg sig pk h
  exact ⟨l, last, hsp, lmsValid_sigLen H msg last _ (chainValid_last H _ msg last l _ hcv)⟩

/-- an accepted signature followed by at least one more byte is rejected -/
theorem hssValid_extend (H : HashFn) (maxLevels : Nat) (msg sig pk e : Bytes)
    (h : Spec.hssValid H (libTables H.n) maxLevels msg sig pk = true) (he : e ≠ []) :
    Spec.hssValid H (libTables H.n) maxLevels msg (sig ++ e) pk = false := by
  cases h' : Spec.hssValid H (libTables H.n) maxLevels msg (sig ++ e) pk with
  | false => rfl
  | true =>
    obtain ⟨_, hs4, _, _, _⟩ := hssValid_true H maxLevels msg sig pk h
    obtain ⟨l, last, hsp, hlen⟩ := hssValid_last_len H maxLevels msg sig pk h
    obtain ⟨l', last', hsp', hlen'⟩ := hssValid_last_len H maxLevels msg (sig ++ e) pk h'
    have hb : Spec.bytesAt (sig ++ e) 0 4 = Spec.bytesAt sig 0 4 := slice_append_left sig e 0 4 (by omega)
    rw [hb, List.drop_append_of_le_length (by omega), splitSigned_append H.n e _ _ _ _ hsp] at hsp'
    simp only [Option.some.injEq, Prod.mk.injEq] at hsp'
    obtain ⟨_, hlast⟩ := hsp'
    rw [← hlast, sigLen_append e hlen, List.length_append] at hlen'
    simp only [Option.some.injEq] at hlen'
    have : e.length = 0 := by omega
    exact absurd (List.length_eq_zero_iff.mp this) he



/-- Algorithm 6a steps 2b and 2g, for any tables: an accepted LMS signature carries the LM-OTS and LMS type codes
of the public key it is verified under -/
theorem lmsValid_types (H : HashFn) (T : Spec.Tables) (msg d kb : Bytes) (h : Spec.lmsValid H T msg d kb = true) :
    Spec.strTou32 (Spec.bytesAt d 4 4) = Spec.strTou32 (Spec.bytesAt kb 4 4) ∧
    ∃ op, T.ots (Spec.strTou32 (Spec.bytesAt d 4 4)) = some op ∧
      Spec.strTou32 (Spec.bytesAt d (4 + (4 + H.n * (op.p + 1))) 4) = Spec.strTou32 (Spec.bytesAt kb 0 4) := by
  unfold Spec.lmsValid at h
  by_cases c1 : kb.length < 8
  · simp [c1] at h
  simp only [c1, if_false] at h
  cases hklp : T.lms (Spec.strTou32 (Spec.bytesAt kb 0 4)) with
  | none => rw [hklp] at h; simp at h
  | some klp =>
  rw [hklp] at h
  simp only [] at h
  by_cases c2 : kb.length ≠ 24 + H.n
  · simp [c2] at h
  rw [if_neg c2] at h
  cases hTc : Spec.lmsRootCandidate H T msg d (Spec.bytesAt kb 8 16) (Spec.strTou32 (Spec.bytesAt kb 0 4))
      (Spec.strTou32 (Spec.bytesAt kb 4 4)) with
  | none => rw [hTc] at h; simp at h
  | some Tc =>
  clear h
  unfold Spec.lmsRootCandidate at hTc
  by_cases c3 : d.length < 8
  · simp [c3] at hTc
  simp only [c3, if_false] at hTc
  by_cases c5 : Spec.strTou32 (Spec.bytesAt d 4 4) ≠ Spec.strTou32 (Spec.bytesAt kb 4 4)
  · rw [if_pos c5] at hTc; simp at hTc
  rw [if_neg c5] at hTc
  refine ⟨by simpa using c5, ?_⟩
  cases hop : T.ots (Spec.strTou32 (Spec.bytesAt d 4 4)) with
  | none => rw [hop] at hTc; simp at hTc
  | some op =>
  rw [hop] at hTc
  simp only [] at hTc
  by_cases c4 : d.length < 8 + (4 + H.n * (op.p + 1))
  · rw [if_pos c4] at hTc; simp at hTc
  rw [if_neg c4] at hTc
  by_cases c6 : Spec.strTou32 (Spec.bytesAt d (4 + (4 + H.n * (op.p + 1))) 4) ≠ Spec.strTou32 (Spec.bytesAt kb 0 4)
  · rw [if_pos c6] at hTc; simp at hTc
  exact ⟨op, rfl, by simpa using c6⟩

end Refine

end Lemmas

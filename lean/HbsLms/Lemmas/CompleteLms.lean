/-
Completeness, level 3 (LMS): a released LMS signature parses, the serialised public key parses, and the signature
verifies under that public key.
-/
import HbsLms.Lemmas.CompleteTree

namespace Lemmas.Complete

open Impl Generated Lemmas

/-! ### helpers -/

theorem readAt_of_eq {data pre b post : Bytes} {len idx : Nat} (h : data = pre ++ b ++ post)
    (hi : idx = pre.length) (hl : len = b.length) : readAt data len idx = some b := by
  subst h; exact readAt_mid' hi hl

theorem lmsTypeId_lt {t : Nat} {p : LmsParam} (h : Params.lmsGetFromType t = some p) : t < 10 := by
  apply Classical.byContradiction
  intro hnot
  have : Generated.lmsGetFromType.lookup t = none := by
    have h1 : t ≠ 1 := by omega
    have h5 : t ≠ 5 := by omega
    have h6 : t ≠ 6 := by omega
    have h7 : t ≠ 7 := by omega
    have h8 : t ≠ 8 := by omega
    have h9 : t ≠ 9 := by omega
    simp [Generated.lmsGetFromType, List.lookup, beq_eq_false_iff_ne.mpr h1, beq_eq_false_iff_ne.mpr h5,
      beq_eq_false_iff_ne.mpr h6, beq_eq_false_iff_ne.mpr h7, beq_eq_false_iff_ne.mpr h8,
      beq_eq_false_iff_ne.mpr h9]
  simp [Params.lmsGetFromType, this] at h

theorem lmotsParam_bne_self (p : LmotsParam) : (p != p) = false := by
  cases p
  simp [bne, BEq.beq, instBEqLmotsParam.beq]

theorem lmsParam_bne_self (p : LmsParam) : (p != p) = false := by
  cases p
  simp [bne, BEq.beq, instBEqLmsParam.beq]

/-- what completeness needs to know about an LMS key: its parameters are table rows and `I` has 16 bytes -/
structure GoodKey (n : Nat) (k : LmsKey) : Prop where
  ots : Params.lmotsGetFromType n k.ots.typeId = some k.ots
  lms : Params.lmsGetFromType k.lms.typeId = some k.lms
  I : k.I.length = 16

theorem GoodKey.row {n : Nat} {k : LmsKey} (g : GoodKey n k) : OtsRowGood n k.ots = true := ots_row_good g.ots

theorem GoodKey.h_le {n : Nat} {k : LmsKey} (g : GoodKey n k) : k.lms.h ≤ 25 := (lms_row_good g.lms).1

/-! ### signing in closed form -/

/-- the serialised LMS signature in closed form -/
def lmsSigBytes (H : HashFn) (k : LmsKey) (q : Nat) (msg C : Bytes) : Bytes :=
  Bytes.u32be q ++ lmotsSigBytes H k.I (Bytes.u32be q) k.seed k.ots C msg ++ Bytes.u32be k.lms.typeId
    ++ (authPath H k q).flatten

theorem lmsSigBytes_length (H : HashFn) (k : LmsKey) (q : Nat) (msg C : Bytes) (hC : C.length = H.n) :
    (lmsSigBytes H k q msg C).length = lms_signature_length H.n k.ots.p k.lms.h := by
  simp only [lmsSigBytes, List.length_append, u32be_length, lmotsSigBytes_length _ _ _ _ _ _ _ hC,
    authPath_flatten_length, lms_signature_length, lmots_signature_length]
  rw [Nat.mul_add, Nat.mul_one]
  omega

/-- without a cache, `lmsSign` either reports an exhausted tree, faults on a capacity check, or returns `lmsSigBytes` -/
theorem lmsSign_none_cases (H : HashFn) (cfg : Config) (k : LmsKey) (q : Nat) (msg C : Bytes)
    (hg : OtsRowGood H.n k.ots = true) (hC : C.length = H.n) :
    lmsSign H cfg k q msg C none =
      if q ≥ 2 ^ k.lms.h then .ok none
      else if ¬ k.ots.p ≤ cfg.maxChains then P.panic "lm_ots/keygen.rs:generate_private_key key.push"
      else if ¬ k.lms.h ≤ cfg.maxTreeHeight then P.panic "lms/signing.rs:build_authentication_path push"
      else if ¬ (lmsSigBytes H k q msg C).length ≤ cfg.maxLmsSigLen then
        P.panic "lms/signing.rs:to_binary_representation capacity"
      else .ok (some (lmsSigBytes H k q msg C, none)) := by
  unfold lmsSign
  by_cases hq : q ≥ 2 ^ k.lms.h
  · simp [hq, pure, Except.pure]
  · have hq' : q < 2 ^ k.lms.h := by omega
    simp only [hq, if_false, P.require, bind, Except.bind, decide_eq_true_eq]
    by_cases h1 : k.ots.p ≤ cfg.maxChains
    · simp only [h1, if_true, not_true_eq_false, if_false]
      rw [lmotsSign_eq H k.I _ k.seed k.ots C msg hg hC]
      simp only []
      by_cases h2 : k.lms.h ≤ cfg.maxTreeHeight
      · simp only [h2, if_true, not_true_eq_false, if_false]
        rw [authPath_fold H k q hq']
        simp only []
        by_cases h3 : (lmsSigBytes H k q msg C).length ≤ cfg.maxLmsSigLen
        · have h3' := h3
          unfold lmsSigBytes at h3'
          simp only [h3, h3', if_true, not_true_eq_false, if_false, pure, Except.pure]
          rfl
        · have h3' := h3
          unfold lmsSigBytes at h3'
          simp only [h3, h3', if_false, not_false_eq_true, if_true]
          rfl
      · simp only [h2, if_false, not_false_eq_true, if_true]
        rfl
    · simp only [h1, if_false, not_false_eq_true, if_true]
      rfl

/-- a signature that `lmsSign` releases (no cache) is `lmsSigBytes`, and its leaf is inside the tree -/
theorem lmsSign_some {H : HashFn} {cfg : Config} {k : LmsKey} {q : Nat} {msg C : Bytes} {sig : Bytes} {a : Option ExpAux}
    (hg : OtsRowGood H.n k.ots = true) (hC : C.length = H.n)
    (h : lmsSign H cfg k q msg C none = .ok (some (sig, a))) :
    q < 2 ^ k.lms.h ∧ sig = lmsSigBytes H k q msg C ∧ a = none := by
  rw [lmsSign_none_cases H cfg k q msg C hg hC] at h
  split at h
  · simp at h
  · split at h
    · simp [P.panic] at h
    · split at h
      · simp [P.panic] at h
      · split at h
        · simp [P.panic] at h
        · simp only [Except.ok.injEq, Option.some.injEq, Prod.mk.injEq] at h
          exact ⟨by omega, h.1.symm, h.2.symm⟩

/-- under the capacity conditions `lmsSign` releases a signature for every leaf inside the tree -/
theorem lmsSign_ok (H : HashFn) (cfg : Config) (k : LmsKey) (q : Nat) (msg C : Bytes)
    (hg : OtsRowGood H.n k.ots = true) (hC : C.length = H.n) (hq : q < 2 ^ k.lms.h)
    (h1 : k.ots.p ≤ cfg.maxChains) (h2 : k.lms.h ≤ cfg.maxTreeHeight)
    (h3 : lms_signature_length H.n k.ots.p k.lms.h ≤ cfg.maxLmsSigLen) :
    lmsSign H cfg k q msg C none = .ok (some (lmsSigBytes H k q msg C, none)) := by
  rw [lmsSign_none_cases H cfg k q msg C hg hC]
  have hq' : ¬ q ≥ 2 ^ k.lms.h := by omega
  rw [← lmsSigBytes_length H k q msg C hC] at h3
  simp [hq', h1, h2, h3]

/-! ### parsing -/

/-- the parsed form of a released LMS signature -/
def lmsSigParsed (H : HashFn) (k : LmsKey) (q : Nat) (msg C : Bytes) : InMemLmsSig :=
  ⟨q, lmotsSigParsed H k.I (Bytes.u32be q) k.seed k.ots C msg, (authPath H k q).flatten, k.lms⟩

theorem lmsSigParsed_len (H : HashFn) (k : LmsKey) (q : Nat) (msg C : Bytes) :
    (lmsSigParsed H k q msg C).len H.n = lms_signature_length H.n k.ots.p k.lms.h := rfl

/-- a released LMS signature parses, also when more bytes follow it -/
theorem lmsSig_parse (H : HashFn) (k : LmsKey) (q : Nat) (msg C tail : Bytes) (g : GoodKey H.n k)
    (hC : C.length = H.n) (hq : q < 2 ^ k.lms.h) :
    InMemLmsSig.parse H.n (lmsSigBytes H k q msg C ++ tail) = some (lmsSigParsed H k q msg C) := by
  have hh := g.h_le
  have hq32 : q < 2 ^ 32 := by
    have : 2 ^ k.lms.h ≤ 2 ^ 25 := Nat.pow_le_pow_right (by omega) hh
    omega
  have hot : k.ots.typeId < 2 ^ 32 := by have := typeId_lt g.ots; omega
  have hlt : k.lms.typeId < 2 ^ 32 := by have := lmsTypeId_lt g.lms; omega
  have hol := lmotsSigBytes_length H k.I (Bytes.u32be q) k.seed k.ots C msg hC
  have hpl := authPath_flatten_length H k q
  have hsl := sigChains_flatten_length H k.I (Bytes.u32be q) k.seed k.ots C msg
  unfold InMemLmsSig.parse
  have r1 : readAt (lmsSigBytes H k q msg C ++ tail) 4 0 = some (Bytes.u32be q) :=
    readAt_of_eq (pre := []) (post := lmotsSigBytes H k.I (Bytes.u32be q) k.seed k.ots C msg ++
      Bytes.u32be k.lms.typeId ++ (authPath H k q).flatten ++ tail)
      (by simp [lmsSigBytes, List.append_assoc]) rfl (u32be_length _).symm
  have r2 : readAt (lmsSigBytes H k q msg C ++ tail) 4 4 = some (Bytes.u32be k.ots.typeId) :=
    readAt_of_eq (pre := Bytes.u32be q) (post := C ++ (sigChains H k.I (Bytes.u32be q) k.seed k.ots C msg).flatten ++
      Bytes.u32be k.lms.typeId ++ (authPath H k q).flatten ++ tail)
      (by simp [lmsSigBytes, lmotsSigBytes, List.append_assoc]) (u32be_length _).symm (u32be_length _).symm
  have r3 : readAt (lmsSigBytes H k q msg C ++ tail) (4 + H.n * (1 + k.ots.p)) 4
      = some (lmotsSigBytes H k.I (Bytes.u32be q) k.seed k.ots C msg) :=
    readAt_of_eq (pre := Bytes.u32be q) (post := Bytes.u32be k.lms.typeId ++ (authPath H k q).flatten ++ tail)
      (by simp [lmsSigBytes, List.append_assoc]) (u32be_length _).symm hol.symm
  have r4 : readAt (lmsSigBytes H k q msg C ++ tail) 4 (4 + (4 + H.n * (1 + k.ots.p)))
      = some (Bytes.u32be k.lms.typeId) :=
    readAt_of_eq (pre := Bytes.u32be q ++ lmotsSigBytes H k.I (Bytes.u32be q) k.seed k.ots C msg)
      (post := (authPath H k q).flatten ++ tail)
      (by simp [lmsSigBytes, List.append_assoc]) (by simp [u32be_length, hol]) (u32be_length _).symm
  have r5 : readAt (lmsSigBytes H k q msg C ++ tail) (H.n * k.lms.h) (4 + (4 + H.n * (1 + k.ots.p)) + 4)
      = some (authPath H k q).flatten :=
    readAt_of_eq (pre := Bytes.u32be q ++ lmotsSigBytes H k.I (Bytes.u32be q) k.seed k.ots C msg ++
        Bytes.u32be k.lms.typeId) (post := tail)
      (by simp [lmsSigBytes, List.append_assoc])
      (by simp only [List.length_append, u32be_length, hol]) hpl.symm
  have hq' : ¬ q ≥ 2 ^ k.lms.h := by omega
  simp only [r1, r2, Option.bind_eq_bind, Option.bind_some, toNat_u32be hot, g.ots, r3,
    lmotsSig_parse H k.I (Bytes.u32be q) k.seed k.ots C msg g.ots hC, r4, toNat_u32be hlt, g.lms, r5,
    toNat_u32be hq32, hq', if_false, pure, lmsSigParsed]

/-- the public key `lmsPublicKeyBytes` of a key in parsed form -/
def lmsPkParsed (H : HashFn) (k : LmsKey) : InMemLmsPk :=
  ⟨T H k k.lms.h 1, k.I, k.ots, k.lms, lmsPublicKeyBytes k (T H k k.lms.h 1)⟩

theorem lmsPk_length (H : HashFn) (k : LmsKey) (g : GoodKey H.n k) :
    (lmsPublicKeyBytes k (T H k k.lms.h 1)).length = lms_public_key_length H.n := by
  simp only [lmsPublicKeyBytes, List.length_append, u32be_length, g.I, T_length, lms_public_key_length, ILEN]

/-- the serialised public key parses, also when more bytes follow it -/
theorem lmsPk_parse (H : HashFn) (k : LmsKey) (tail : Bytes) (g : GoodKey H.n k) :
    InMemLmsPk.parse H.n (lmsPublicKeyBytes k (T H k k.lms.h 1) ++ tail) = some (lmsPkParsed H k) := by
  have hot : k.ots.typeId < 2 ^ 32 := by have := typeId_lt g.ots; omega
  have hlt : k.lms.typeId < 2 ^ 32 := by have := lmsTypeId_lt g.lms; omega
  have hT := T_length H k k.lms.h 1
  unfold InMemLmsPk.parse
  have r1 : readAt (lmsPublicKeyBytes k (T H k k.lms.h 1) ++ tail) 4 0 = some (Bytes.u32be k.lms.typeId) :=
    readAt_of_eq (pre := []) (post := Bytes.u32be k.ots.typeId ++ k.I ++ T H k k.lms.h 1 ++ tail)
      (by simp [lmsPublicKeyBytes, List.append_assoc]) rfl (u32be_length _).symm
  have r2 : readAt (lmsPublicKeyBytes k (T H k k.lms.h 1) ++ tail) 4 4 = some (Bytes.u32be k.ots.typeId) :=
    readAt_of_eq (pre := Bytes.u32be k.lms.typeId) (post := k.I ++ T H k k.lms.h 1 ++ tail)
      (by simp [lmsPublicKeyBytes, List.append_assoc]) (u32be_length _).symm (u32be_length _).symm
  have r3 : readAt (lmsPublicKeyBytes k (T H k k.lms.h 1) ++ tail) 16 8 = some k.I :=
    readAt_of_eq (pre := Bytes.u32be k.lms.typeId ++ Bytes.u32be k.ots.typeId) (post := T H k k.lms.h 1 ++ tail)
      (by simp [lmsPublicKeyBytes, List.append_assoc]) (by simp [u32be_length]) g.I.symm
  have r4 : readAt (lmsPublicKeyBytes k (T H k k.lms.h 1) ++ tail) H.n 24 = some (T H k k.lms.h 1) :=
    readAt_of_eq (pre := Bytes.u32be k.lms.typeId ++ Bytes.u32be k.ots.typeId ++ k.I) (post := tail)
      (by simp [lmsPublicKeyBytes, List.append_assoc]) (by simp [u32be_length, g.I]) hT.symm
  have htake : (lmsPublicKeyBytes k (T H k k.lms.h 1) ++ tail).take (24 + H.n)
      = lmsPublicKeyBytes k (T H k k.lms.h 1) := by
    have hl := lmsPk_length H k g
    simp only [lms_public_key_length, ILEN] at hl
    rw [List.take_append_of_le_length (by omega), List.take_of_length_le (by omega)]
  simp only [r1, r2, r3, r4, Option.bind_eq_bind, Option.bind_some, toNat_u32be hot, toNat_u32be hlt, g.ots, g.lms,
    pure, htake, lmsPkParsed]

/-! ### verification -/

/-- the candidate root computed from a released LMS signature is the root of the signer's tree -/
theorem lmsCandidate_released (H : HashFn) (k : LmsKey) (q : Nat) (msg C : Bytes) (g : GoodKey H.n k)
    (hq : q < 2 ^ k.lms.h) :
    lmsCandidate H (lmsSigParsed H k q msg C) (lmsPkParsed H k) msg = .ok (some (T H k k.lms.h 1)) := by
  unfold lmsCandidate
  have hq' : ¬ q ≥ 2 ^ k.lms.h := by omega
  simp only [lmsSigParsed, lmsPkParsed, hq', if_false]
  rw [lmotsCandidate_released H k.I q k.seed k.ots C msg g.row]
  simp only [bind, Except.bind]
  have hleaf : H.h (k.I ++ Bytes.u32be (2 ^ k.lms.h + q) ++ D_LEAF ++
      lmotsPublicKey H k.I (Bytes.u32be q) k.ots (lmotsPrivateKey H k.I (Bytes.u32be q) k.seed k.ots))
      = T H k 0 (2 ^ k.lms.h + q) := by
    simp only [T, leafNode, Nat.add_sub_cancel_left]
  rw [hleaf, climb_reaches_root H k q hq]
  rfl

/-- L3 (closed form): a released LMS signature verifies under the signer's public key -/
theorem lmsVerify_released (H : HashFn) (k : LmsKey) (q : Nat) (msg C : Bytes) (g : GoodKey H.n k)
    (hq : q < 2 ^ k.lms.h) :
    lmsVerify H (lmsSigParsed H k q msg C) (lmsPkParsed H k) msg = .ok true := by
  unfold lmsVerify
  rw [lmsCandidate_released H k q msg C g hq]
  have h1 : ((lmsSigParsed H k q msg C).ots.param != (lmsPkParsed H k).ots) = false := lmotsParam_bne_self _
  have h2 : ((lmsSigParsed H k q msg C).lms != (lmsPkParsed H k).lms) = false := lmsParam_bne_self _
  simp only [h1, h2]
  simp [bind, Except.bind, pure, Except.pure, lmsPkParsed]

/-- L3 in the form of the task: whatever `lmsSign` (no cache) releases parses, the serialised public key
`lmsPublicKeyBytes k (treeNode H k 1 none).1` parses, and the signature verifies under it -/
theorem lms_complete (H : HashFn) (cfg : Config) (k : LmsKey) (q : Nat) (msg C sig : Bytes) (a : Option ExpAux)
    (g : GoodKey H.n k) (hC : C.length = H.n)
    (hs : lmsSign H cfg k q msg C none = .ok (some (sig, a))) :
    ∃ s p, InMemLmsSig.parse H.n sig = some s ∧
      InMemLmsPk.parse H.n (lmsPublicKeyBytes k (treeNode H k 1 none).1) = some p ∧
      lmsVerify H s p msg = .ok true := by
  obtain ⟨hq, rfl, _⟩ := lmsSign_some g.row hC hs
  refine ⟨lmsSigParsed H k q msg C, lmsPkParsed H k, ?_, ?_, lmsVerify_released H k q msg C g hq⟩
  · have := lmsSig_parse H k q msg C [] g hC hq
    simpa using this
  · rw [treeNode_root]
    have := lmsPk_parse H k [] g
    simpa using this

end Lemmas.Complete

/-
Key generation refines the hash-sigs / RFC 8554 specification `Spec.HashSigs`: the in-place patched buffers of
`rootSeedAndId` and `seedDerive` are the concatenations of the specification, the chain starts / chain ends / tree
nodes of the model are the RFC's `x`, `y`, `OTS_PUB`, `T[r]`, and `bytesOfParams` produces the nibble-packed
parameter bytes. Core Lean only.
-/
import HbsLms.Spec.HashSigs
import HbsLms.Lemmas.Layout
import HbsLms.Lemmas.Limits
import HbsLms.Lemmas.VerifyRefine

namespace Lemmas.KeygenRefine

open Impl Generated Lemmas Lemmas.Complete Lemmas.Layout

/-! ### patched buffers -/

/-- overwriting the middle part of `a ++ (m ++ c)` with a string of the same length -/
theorem patch_mid (a m c v : Bytes) (s : Nat) (hs : a.length = s) (hm : m.length = v.length) :
    Bytes.patch (a ++ (m ++ c)) s v = a ++ (v ++ c) := by
  subst hs
  unfold Bytes.patch
  rw [List.take_left, ← hm, ← List.append_assoc a m c, ← List.length_append, List.drop_left, List.append_assoc]

theorem zeros_add (a b : Nat) : Bytes.zeros (a + b) = Bytes.zeros a ++ Bytes.zeros b := by
  simp [Bytes.zeros, List.replicate_append_replicate]

theorem zeros_length (a : Nat) : (Bytes.zeros a).length = a := by simp [Bytes.zeros]

theorem spec_zeros (a : Nat) : Spec.HashSigs.zeros a = Bytes.zeros a := rfl

theorem u64str_eq (v : Nat) : Spec.HashSigs.u64str v = Bytes.u64be v := by
  simp [Spec.HashSigs.u64str, Bytes.u64be, Bytes.be]

/-- the 55-byte zero buffer split at the field boundaries 20 / 22 / 23 / 23+n -/
theorem zeros55 (n : Nat) (hn : n ≤ 32) :
    Bytes.zeros 55 = Bytes.zeros 20 ++ (Bytes.zeros 2 ++ (Bytes.zeros 1 ++ (Bytes.zeros n ++ Bytes.zeros (32 - n)))) := by
  rw [← zeros_add, ← zeros_add, ← zeros_add, ← zeros_add]
  congr 1
  omega

/-- the top-seed buffer of the model, for a payload `s` of at most 32 bytes -/
theorem topseed_buf (s : Bytes) (hs : s.length ≤ 32) :
    Bytes.patch (Bytes.patch (Bytes.zeros TOPSEED_LEN) TOPSEED_D (Bytes.u16be D_TOPSEED)) TOPSEED_SEED s
      = Bytes.zeros 20 ++ ([0xfe, 0xfe] ++ ([0] ++ (s ++ Bytes.zeros (32 - s.length)))) := by
  have hD : Bytes.u16be D_TOPSEED = [0xfe, 0xfe] := by decide
  simp only [TOPSEED_LEN, TOPSEED_D, TOPSEED_SEED, hD]
  rw [zeros55 s.length hs, patch_mid _ _ _ _ 20 (zeros_length _) (by simp [zeros_length])]
  have h1 : Bytes.zeros 1 = [0] := rfl
  rw [h1]
  have e : Bytes.zeros 20 ++ ([0xfe, 0xfe] ++ ([0] ++ (Bytes.zeros s.length ++ Bytes.zeros (32 - s.length))))
      = (Bytes.zeros 20 ++ [0xfe, 0xfe] ++ [0]) ++ (Bytes.zeros s.length ++ Bytes.zeros (32 - s.length)) := by
    simp only [List.append_assoc]
  rw [e, patch_mid _ _ _ _ 23 (by simp [zeros_length]) (zeros_length _)]
  simp only [List.append_assoc]

/-- `generate_root_seed_and_lms_tree_identifier` is the top-seed hashing of hash-sigs -/
theorem rootSeedAndId_eq (H : HashFn) (seed : Bytes) (hs : seed.length = H.n) (hn : H.n ≤ 32) :
    rootSeedAndId H seed = Spec.HashSigs.topSeed H seed := by
  unfold rootSeedAndId
  simp only []
  rw [topseed_buf seed (by omega)]
  have hh : ∀ x, (H.h x).length = seed.length := fun x => by rw [H.len_h, hs]
  have e : Bytes.zeros 20 ++ ([0xfe, 0xfe] ++ ([0] ++ (seed ++ Bytes.zeros (32 - seed.length))))
      = (Bytes.zeros 20 ++ [0xfe, 0xfe] ++ [0]) ++ (seed ++ Bytes.zeros (32 - seed.length)) := by
    simp only [List.append_assoc]
  have e2 : ∀ h1 : Bytes, (Bytes.zeros 20 ++ [0xfe, 0xfe] ++ [0]) ++ (h1 ++ Bytes.zeros (32 - seed.length))
      = (Bytes.zeros 20 ++ [0xfe, 0xfe]) ++ ([0] ++ (h1 ++ Bytes.zeros (32 - seed.length))) := by
    intro h1; simp only [List.append_assoc]
  simp only [TOPSEED_SEED, TOPSEED_WHICH, ILEN]
  rw [e, patch_mid _ _ _ _ 23 (by simp [zeros_length]) (hh _).symm, e2,
    patch_mid _ [0] _ [1] 22 (by simp [zeros_length]) rfl, patch_mid _ [0] _ [2] 22 (by simp [zeros_length]) rfl]
  simp only [Spec.HashSigs.topSeed, Spec.HashSigs.topSeedBuf, Spec.HashSigs.D_TOPSEED, Spec.u8str, spec_zeros,
    Spec.HashSigs.maxSeed, hh, List.append_assoc]
  rfl

/-- `SeedDerive::seed_derive` is the hash-sigs PRNG -/
theorem seedDerive_eq (H : HashFn) (seed I : Bytes) (q j : Nat) (hI : I.length = 16) (hs : seed.length ≤ 32) :
    seedDerive H seed I q j = Spec.HashSigs.prng H seed I q j := by
  unfold seedDerive
  have hz : Bytes.zeros (prng_len MAX_HASH_SIZE) = [] ++ (Bytes.zeros 16 ++ (Bytes.zeros 4 ++ (Bytes.zeros 2 ++
      (Bytes.zeros 1 ++ (Bytes.zeros seed.length ++ Bytes.zeros (32 - seed.length)))))) := by
    rw [List.nil_append, ← zeros_add, ← zeros_add, ← zeros_add, ← zeros_add, ← zeros_add]
    simp only [prng_len, MAX_HASH_SIZE]
    congr 1
    omega
  simp only [PRNG_I, PRNG_Q, PRNG_J, PRNG_FF, PRNG_SEED]
  rw [hz, patch_mid _ _ _ I 0 rfl (by rw [zeros_length, hI]), List.nil_append,
    patch_mid _ _ _ (Bytes.u32be q) 16 hI (by rw [zeros_length, u32be_length])]
  have e1 : ∀ (a b c : Bytes), a ++ (b ++ c) = (a ++ b) ++ c := fun a b c => (List.append_assoc a b c).symm
  rw [e1 I, patch_mid _ _ _ (Bytes.u16be j) 20 (by simp [hI, u32be_length]) (by rw [zeros_length, u16be_length]),
    e1 (I ++ Bytes.u32be q), patch_mid _ (Bytes.zeros 1) _ [0xff] 22 (by simp [hI, u32be_length, u16be_length]) rfl,
    e1 (I ++ Bytes.u32be q ++ Bytes.u16be j),
    patch_mid _ _ _ seed 23 (by simp [hI, u32be_length, u16be_length]) (zeros_length _)]
  simp only [Spec.HashSigs.prng, Refine.u32str_eq, Refine.u16str_eq, Spec.u8str, spec_zeros, Spec.HashSigs.maxSeed,
    List.append_assoc]
  rfl

/-- `generate_child_seed_and_lms_tree_identifier` -/
theorem childSeedAndId_eq (H : HashFn) (seed I : Bytes) (q : Nat) (hI : I.length = 16) (hs : seed.length ≤ 32) :
    childSeedAndId H seed I q = (Spec.HashSigs.childSeed H seed I q, Spec.HashSigs.childI H seed I q) := by
  simp only [childSeedAndId, seedDerive_eq H seed I q _ hI hs, Spec.HashSigs.childSeed, Spec.HashSigs.childI,
    SEED_CHILD_SEED, ILEN]

/-- `generate_signature_randomizer` -/
theorem signatureRandomizer_eq (H : HashFn) (seed I : Bytes) (q : Nat) (hI : I.length = 16) (hs : seed.length ≤ 32) :
    signatureRandomizer H seed I q = Spec.HashSigs.randomizer H seed I q := by
  simp only [signatureRandomizer, seedDerive_eq H seed I q _ hI hs, Spec.HashSigs.randomizer,
    SEED_SIGNATURE_RANDOMIZER_SEED]

/-! ### LM-OTS key pair -/

/-- `lm_ots::keygen::generate_private_key`: the chain starts `x[q][0..p-1]` -/
theorem lmotsPrivateKey_eq (H : HashFn) (I seed : Bytes) (q : Nat) (prm : LmotsParam) :
    lmotsPrivateKey H I (Bytes.u32be q) seed prm = (List.range prm.p).map fun i => Spec.HashSigs.x H I seed q i := by
  unfold lmotsPrivateKey
  simp only [Spec.HashSigs.x, Refine.u32str_eq, Refine.u16str_eq, Spec.u8str]
  rfl

/-- `lm_ots::keygen::generate_public_key` on the generated private key: `OTS_PUB[q]` -/
theorem lmotsPublicKey_eq (H : HashFn) (I seed : Bytes) (q : Nat) (prm : LmotsParam) :
    lmotsPublicKey H I (Bytes.u32be q) prm (lmotsPrivateKey H I (Bytes.u32be q) seed prm)
      = Spec.HashSigs.otsPub H I seed prm.w prm.p q := by
  unfold lmotsPublicKey Spec.HashSigs.otsPub
  simp only [Refine.u32str_eq]
  have hm : (List.range prm.p).map (fun i => chain H I (Bytes.u32be q) i
        ((lmotsPrivateKey H I (Bytes.u32be q) seed prm).getD i []) 0 (2 ^ prm.w - 1))
      = (List.range prm.p).map fun i => Spec.HashSigs.y H I seed prm.w q i := by
    apply List.map_congr_left
    intro i hi
    rw [lmotsPrivateKey_getD H I _ seed prm (List.mem_range.mp hi), Refine.chain_eq]
    simp only [Spec.HashSigs.y, Spec.HashSigs.x, Refine.u32str_eq, Refine.u16str_eq, Spec.u8str]
    rfl
  rw [hm]
  rfl

/-! ### LMS tree -/

/-- the leaf value `T[r]`, `r ≥ 2^h` -/
theorem leafNode_eq (H : HashFn) (k : LmsKey) (r : Nat) :
    leafNode H k r = Spec.HashSigs.T H k.I k.seed k.ots.w k.ots.p k.lms.h 0 r := by
  unfold leafNode
  simp only [lmotsPublicKey_eq, Spec.HashSigs.T, Refine.u32str_eq]
  rfl

/-- the plain recursive tree of `Lemmas.Complete` is the RFC's `T` -/
theorem T_eq (H : HashFn) (k : LmsKey) : ∀ (d r : Nat),
    Complete.T H k d r = Spec.HashSigs.T H k.I k.seed k.ots.w k.ots.p k.lms.h d r := by
  intro d
  induction d with
  | zero => intro r; simp only [Complete.T, leafNode_eq]
  | succ d ih =>
    intro r
    simp only [Complete.T, Spec.HashSigs.T, ih, Refine.u32str_eq]
    rfl

/-- `get_tree_element` without a cache: node `r` on level `j ≤ h` is the RFC's `T[r]` -/
theorem treeNode_eq (H : HashFn) (k : LmsKey) (r j : Nat) (hj : j ≤ k.lms.h) (hlo : 2 ^ j ≤ r) (hhi : r < 2 ^ (j + 1)) :
    treeNode H k r none = (Spec.HashSigs.T H k.I k.seed k.ots.w k.ots.p k.lms.h (k.lms.h - j) r, none) := by
  rw [Complete.treeNode_none H k r j hj hlo hhi, T_eq]

/-- the root `T[1]` -/
theorem treeNode_root_eq (H : HashFn) (k : LmsKey) :
    treeNode H k 1 none = (Spec.HashSigs.root H k.I k.seed k.ots.w k.ots.p k.lms.h, none) := by
  rw [treeNode_root, T_eq]; rfl

/-- the serialised LMS public key of a tree -/
theorem pkBytes_eq (H : HashFn) (k : LmsKey) :
    pkBytes H k = Spec.HashSigs.lmsPublicKey H k.I k.seed ⟨k.ots, k.lms⟩ := by
  simp only [pkBytes, lmsPublicKeyBytes, T_eq, Spec.HashSigs.lmsPublicKey, Spec.HashSigs.root, Refine.u32str_eq]

/-! ### the compressed parameter bytes -/

theorem paramByte_eq {n : Nat} {p : HssParam} (ho : IsOtsRow n p.ots) (hl : IsLmsRow p.lms) :
    Lemmas.paramByte p = Spec.HashSigs.paramByte p.lms.typeId p.ots.typeId := by
  have h1 := (ots_row_rt ho).2
  have h2 := (lms_row_rt hl).2
  simp only [Lemmas.paramByte, Spec.HashSigs.paramByte, Nat.shiftLeft_eq]
  congr 1
  omega

/-- `CompressedParameterSet::from` in closed form -/
theorem bytesOfParams_eq (cfg : Config) (n : Nat) (ps : List HssParam)
    (hrows : ∀ p ∈ ps, IsOtsRow n p.ots ∧ IsLmsRow p.lms)
    (hlen : ps.length ≤ cfg.maxLevels) (hlim : ∀ i (h : i < ps.length), cfg.withinLimits i ps[i] = true)
    (hsl : hssSigLen n ps ≤ 65535) :
    bytesOfParams cfg n ps = .ok (some (ps.map (fun p => Spec.HashSigs.paramByte p.lms.typeId p.ots.typeId) ++
      List.replicate (8 - ps.length) 0xff)) := by
  have hsl' : sigLenSupported n ps = true := by simpa [sigLenSupported] using hsl
  unfold bytesOfParams
  rw [if_neg (by omega)]
  split
  · rename_i hall
    exfalso
    rw [Bool.not_eq_true', ← Bool.not_eq_true] at hall
    apply hall
    apply List.all_eq_true.mpr
    intro i hi
    have hi' : i < ps.length := List.mem_range.mp hi
    simp only [List.getElem?_eq_getElem hi']
    exact hlim i hi'
  · have hm : ∀ x ∈ ps, (do
        let v := ((x.lms.typeId % 256) <<< 4) % 256 + x.ots.typeId % 256
        P.require "hss/reference_impl_private_key.rs:CompressedParameterSet::from u8 overflow" (v < 256)
        pure (UInt8.ofNat v) : P UInt8) = .ok (Lemmas.paramByte x) := by
      intro x hx
      obtain ⟨ho, hl⟩ := hrows x hx
      have h1 := (ots_row_rt ho).2
      have h2 := (lms_row_rt hl).2
      have : ((x.lms.typeId % 256) <<< 4) % 256 + x.ots.typeId % 256 < 256 := by
        rw [Nat.shiftLeft_eq]; omega
      simp [P.require, this, bind, Except.bind, pure, Except.pure, Lemmas.paramByte]
    have hmap : ps.map Lemmas.paramByte = ps.map (fun p => Spec.HashSigs.paramByte p.lms.typeId p.ots.typeId) := by
      apply List.map_congr_left
      intro x hx
      exact paramByte_eq (hrows x hx).1 (hrows x hx).2
    rw [mapM_ok' _ Lemmas.paramByte ps hm]
    simp only [bind, Except.bind, hsl', Bool.not_true, Bool.false_eq_true, if_false, List.length_map, pure, Except.pure,
      REF_IMPL_MAX_ALLOWED_HSS_LEVELS, PARAM_SET_END, hmap]
    rfl

/-! ### the lower levels of an expanded key -/

/-- seed and identifier have the lengths the derivation is laid out for -/
def LevelLens (H : HashFn) (l : Level) : Prop := l.key.I.length = 16 ∧ l.key.seed.length = H.n

/-- every level of `cs` is derived from its predecessor (starting with `parent`) at the predecessor's current leaf -/
def Derived (H : HashFn) : Level → List Level → Prop
  | _, [] => True
  | parent, c :: cs =>
    c.key.seed = Spec.HashSigs.childSeed H parent.key.seed parent.key.I parent.q ∧
    c.key.I = Spec.HashSigs.childI H parent.key.seed parent.key.I parent.q ∧ Derived H c cs

theorem prng_length (H : HashFn) (seed I : Bytes) (q j : Nat) : (Spec.HashSigs.prng H seed I q j).length = H.n :=
  H.len_h _

theorem childLevel_lens (H : HashFn) (h16 : 16 ≤ H.n) (hn : H.n ≤ 32) (parent : Level) (p : HssParam) (q : Nat)
    (hp : LevelLens H parent) :
    LevelLens H (childLevel H parent p q) ∧
    (childLevel H parent p q).key.seed = Spec.HashSigs.childSeed H parent.key.seed parent.key.I parent.q ∧
    (childLevel H parent p q).key.I = Spec.HashSigs.childI H parent.key.seed parent.key.I parent.q := by
  obtain ⟨hI, hs⟩ := hp
  have e := childSeedAndId_eq H parent.key.seed parent.key.I parent.q hI (by omega)
  refine ⟨⟨?_, ?_⟩, ?_, ?_⟩
  · simp only [childLevel, e, Spec.HashSigs.childI, List.length_take, prng_length]; omega
  · simp only [childLevel, e, Spec.HashSigs.childSeed, prng_length]
  · simp only [childLevel, e]
  · simp only [childLevel, e]

theorem childrenOf_derived (H : HashFn) (h16 : 16 ≤ H.n) (hn : H.n ≤ 32) (leaves : List Nat) :
    ∀ (rest : List HssParam) (i : Nat) (parent : Level), LevelLens H parent →
      Derived H parent (childrenOf H leaves i parent rest) ∧ ∀ c ∈ childrenOf H leaves i parent rest, LevelLens H c := by
  intro rest
  induction rest with
  | nil => intro i parent _; simp [childrenOf, Derived]
  | cons p rest ih =>
    intro i parent hp
    obtain ⟨hl, h1, h2⟩ := childLevel_lens H h16 hn parent p (leaves.getD i 0) hp
    obtain ⟨hd, hall⟩ := ih (i + 1) _ hl
    refine ⟨⟨h1, h2, hd⟩, ?_⟩
    intro c hc
    simp only [childrenOf, List.mem_cons] at hc
    rcases hc with rfl | hc
    · exact hl
    · exact hall c hc

/-- `Derived`, level by level -/
theorem derived_getElem (H : HashFn) : ∀ (cs : List Level) (parent : Level), Derived H parent cs →
    ∀ j (hj : j + 1 < (parent :: cs).length),
      (parent :: cs)[j + 1].key.seed = Spec.HashSigs.childSeed H (parent :: cs)[j].key.seed (parent :: cs)[j].key.I
        (parent :: cs)[j].q ∧
      (parent :: cs)[j + 1].key.I = Spec.HashSigs.childI H (parent :: cs)[j].key.seed (parent :: cs)[j].key.I
        (parent :: cs)[j].q := by
  intro cs
  induction cs with
  | nil => intro parent _ j hj; simp at hj
  | cons c cs ih =>
    intro parent hd j hj
    obtain ⟨h1, h2, h3⟩ := hd
    cases j with
    | zero => exact ⟨h1, h2⟩
    | succ j =>
      have := ih c h3 j (by simpa using hj)
      simpa using this

theorem rootKey_eq (H : HashFn) (seed : Bytes) (p0 : HssParam) (hs : seed.length = H.n) (hn : H.n ≤ 32) :
    rootKey H seed p0 = ⟨(Spec.HashSigs.topSeed H seed).2, (Spec.HashSigs.topSeed H seed).1, p0.ots, p0.lms⟩ := by
  simp only [rootKey, rootSeedAndId_eq H seed hs hn]

theorem topLevel_lens (H : HashFn) (seed : Bytes) (p0 : HssParam) (rest : List HssParam) (c : Nat)
    (h16 : 16 ≤ H.n) : LevelLens H (topLevel H seed p0 rest c) := by
  refine ⟨?_, ?_⟩
  · simp only [topLevel, rootKey, rootSeedAndId, List.length_take, H.len_h, ILEN]; omega
  · simp only [topLevel, rootKey, rootSeedAndId, H.len_h]

end Lemmas.KeygenRefine

/-
Completeness, level 1 (LM-OTS): hash chains compose, the signer's and the verifier's digits coincide, the verifier
finishes every chain the signer started, so the candidate computed from a released LM-OTS signature is the
LM-OTS public key. Every statement is for an arbitrary `H : HashFn` (no cryptographic assumption).
-/
import HbsLms.Lemmas.Verify

namespace Lemmas.Complete

open Impl Generated Lemmas

/-! ### byte-level helpers -/

theorem toNat_be (k v : Nat) : Bytes.toNat (Bytes.be k v) = v % 256 ^ k := by
  unfold Bytes.toNat
  suffices h : ∀ a, (Bytes.be k v).foldl (fun a x => a * 256 + x.toNat) a = a * 256 ^ k + v % 256 ^ k by
    simpa using h 0
  induction k with
  | zero => intro a; simp [Bytes.be, Nat.mod_one]
  | succ k ih =>
    intro a
    simp only [Bytes.be, List.foldl_cons]
    rw [ih]
    have h1 : (UInt8.ofNat (v / 256 ^ k % 256)).toNat = v / 256 ^ k % 256 := by
      simp [UInt8.toNat_ofNat']
    rw [h1, Nat.pow_succ, Nat.mod_mul]
    generalize 256 ^ k = X
    generalize v / X % 256 = d
    rw [Nat.add_mul, Nat.mul_assoc, Nat.mul_comm 256 X, Nat.mul_comm d X]
    omega

theorem u32be_length (v : Nat) : (Bytes.u32be v).length = 4 := be_length 4 v

theorem toNat_u32be {v : Nat} (h : v < 2 ^ 32) : Bytes.toNat (Bytes.u32be v) = v := by
  unfold Bytes.u32be
  rw [toNat_be]
  exact Nat.mod_eq_of_lt (by simpa using h)

/-- a checked read of a block that sits at offset `pre.length` -/
theorem readAt_mid (pre b post : Bytes) :
    readAt (pre ++ b ++ post) b.length pre.length = some b := by
  unfold readAt Bytes.slice
  have : pre.length + b.length ≤ (pre ++ b ++ post).length := by
    rw [List.length_append, List.length_append]; omega
  simp [List.append_assoc]

theorem readAt_mid' {pre b post : Bytes} {len idx : Nat} (hi : idx = pre.length) (hl : len = b.length) :
    readAt (pre ++ b ++ post) len idx = some b := by
  subst hi; subst hl; exact readAt_mid pre b post

/-- the `i`-th block of a flattened list of equally long blocks -/
theorem slice_flatten (n : Nat) : ∀ (l : List Bytes) (i : Nat) (hi : i < l.length), (∀ y ∈ l, y.length = n) →
    Bytes.slice l.flatten (n * i) n = l[i] := by
  intro l
  induction l with
  | nil => intro i hi; simp at hi
  | cons a t ih =>
    intro i hi hall
    have ha : a.length = n := hall a (by simp)
    cases i with
    | zero =>
      simp [Bytes.slice, List.flatten_cons, ha]
    | succ j =>
      have hj : j < t.length := by simpa using hi
      have := ih j hj (fun y hy => hall y (by simp [hy]))
      simp only [List.getElem_cons_succ]
      rw [← this]
      unfold Bytes.slice
      rw [List.flatten_cons, Nat.mul_succ, Nat.add_comm, List.drop_append]
      have : List.drop (n + n * j) a = [] := List.drop_eq_nil_of_le (by omega)
      simp [ha, this]

theorem flatten_length_of (n : Nat) : ∀ (l : List Bytes), (∀ y ∈ l, y.length = n) → l.flatten.length = n * l.length := by
  intro l
  induction l with
  | nil => simp
  | cons a t ih =>
    intro hall
    rw [List.flatten_cons, List.length_append, ih (fun y hy => hall y (by simp [hy])), hall a (by simp)]
    simp [Nat.mul_succ, Nat.add_comm]

/-! ### hash chains -/

theorem chainFrom_add (H : HashFn) (I qb : Bytes) (i : Nat) : ∀ (a b j : Nat) (x : Bytes),
    chainFrom H I qb i (a + b) j x = chainFrom H I qb i b (j + a) (chainFrom H I qb i a j x) := by
  intro a
  induction a with
  | zero => intro b j x; simp [chainFrom]
  | succ a ih =>
    intro b j x
    rw [Nat.succ_add]
    simp only [chainFrom]
    rw [ih]
    congr 1
    omega

/-- L1, chain composition: walking `a` steps from 0 and then from step `a` to step `m` is walking `m` steps from 0 -/
theorem chain_compose (H : HashFn) (I qb : Bytes) (i : Nat) (x : Bytes) (a m : Nat) (h : a ≤ m) :
    chain H I qb i (chain H I qb i x 0 a) a m = chain H I qb i x 0 m := by
  unfold chain
  have : m - 0 = (a - 0) + (m - a) := by omega
  rw [this, chainFrom_add]
  simp

theorem chainFrom_length (H : HashFn) (I qb : Bytes) (i : Nat) : ∀ (cnt j : Nat) (x : Bytes), x.length = H.n →
    (chainFrom H I qb i cnt j x).length = H.n := by
  intro cnt
  induction cnt with
  | zero => intro j x hx; simpa [chainFrom] using hx
  | succ c ih =>
    intro j x _
    simp only [chainFrom]
    exact ih _ _ (H.len_h _)

theorem chain_length (H : HashFn) (I qb : Bytes) (i : Nat) (x : Bytes) (a b : Nat) (hx : x.length = H.n) :
    (chain H I qb i x a b).length = H.n := chainFrom_length H I qb i _ _ x hx

/-! ### the private key -/

theorem lmotsPrivateKey_getD (H : HashFn) (I qb seed : Bytes) (prm : LmotsParam) {i : Nat} (hi : i < prm.p) :
    (lmotsPrivateKey H I qb seed prm).getD i [] = H.h (I ++ qb ++ Bytes.u16be i ++ [0xff] ++ seed) := by
  unfold lmotsPrivateKey
  rw [List.getD_eq_getElem?_getD]
  simp [hi]

theorem lmotsPrivateKey_getD_length (H : HashFn) (I qb seed : Bytes) (prm : LmotsParam) {i : Nat} (hi : i < prm.p) :
    ((lmotsPrivateKey H I qb seed prm).getD i []).length = H.n := by
  rw [lmotsPrivateKey_getD H I qb seed prm hi]; exact H.len_h _

/-! ### signing in closed form -/

theorem mapM_ok {α β : Type} (f : α → P β) (g : α → β) (l : List α) (h : ∀ a ∈ l, f a = .ok (g a)) :
    l.mapM f = .ok (l.map g) := by
  induction l with
  | nil => simp [pure, Except.pure]
  | cons a t ih =>
    rw [List.mapM_cons, h a (by simp), ih (fun b hb => h b (by simp [hb]))]
    rfl

/-- digest with its two checksum bytes: the value `append_checksum_to` returns -/
def qcOf (n : Nat) (prm : LmotsParam) (Q : Bytes) : Bytes :=
  match append_checksum_to n prm Q with
  | .ok r => r
  | .error _ => []

theorem append_checksum_eq {n : Nat} {prm : LmotsParam} (hg : OtsRowGood n prm = true) (Q : Bytes) (hl : Q.length = n) :
    append_checksum_to n prm Q = .ok (qcOf n prm Q) := by
  obtain ⟨c, hc⟩ := append_checksum_ok hg Q hl
  simp [qcOf, hc]

theorem qcOf_length {n : Nat} {prm : LmotsParam} (hg : OtsRowGood n prm = true) (Q : Bytes) (hl : Q.length = n) :
    (qcOf n prm Q).length = n + 2 := by
  obtain ⟨c, hc⟩ := append_checksum_ok hg Q hl
  simp [qcOf, hc, u16be_length, hl]

/-- the digit vector both sides use -/
def digitOf (n : Nat) (prm : LmotsParam) (Q : Bytes) (i : Nat) : Nat := coefVal (qcOf n prm Q) i prm.w

theorem digitOf_le (n : Nat) (prm : LmotsParam) (Q : Bytes) (i : Nat) : digitOf n prm Q i ≤ 2 ^ prm.w - 1 := by
  unfold digitOf; rw [← coefMask_eq]; exact coefVal_le _ _ _

theorem digits_eq {n : Nat} {prm : LmotsParam} (hg : OtsRowGood n prm = true) (Q : Bytes) (hl : Q.length = n) :
    digits n prm Q = .ok ((List.range prm.p).map (digitOf n prm Q)) := by
  unfold digits
  rw [append_checksum_eq hg Q hl]
  simp only [bind, Except.bind]
  apply mapM_ok
  intro i hi
  have hi' : i < prm.p := by simpa using hi
  have := all_digit_index hg hi'
  exact coef_eq _ _ _ (by rw [qcOf_length hg Q hl]; exact this)

/-- the message digest of an LM-OTS signature -/
def msgDigest (H : HashFn) (I qb C msg : Bytes) : Bytes := H.h (I ++ qb ++ D_MESG ++ C ++ msg)

/-- the chain values a signature releases -/
def sigChains (H : HashFn) (I qb seed : Bytes) (prm : LmotsParam) (C msg : Bytes) : List Bytes :=
  (List.range prm.p).map fun i =>
    chain H I qb i ((lmotsPrivateKey H I qb seed prm).getD i []) 0 (digitOf H.n prm (msgDigest H I qb C msg) i)

theorem sigChains_length (H : HashFn) (I qb seed : Bytes) (prm : LmotsParam) (C msg : Bytes) :
    (sigChains H I qb seed prm C msg).length = prm.p := by simp [sigChains]

theorem sigChains_mem_length (H : HashFn) (I qb seed : Bytes) (prm : LmotsParam) (C msg : Bytes) :
    ∀ y ∈ sigChains H I qb seed prm C msg, y.length = H.n := by
  intro y hy
  simp only [sigChains, List.mem_map, List.mem_range] at hy
  obtain ⟨i, hi, rfl⟩ := hy
  exact chain_length _ _ _ _ _ _ _ (lmotsPrivateKey_getD_length H I qb seed prm hi)

theorem sigChains_flatten_length (H : HashFn) (I qb seed : Bytes) (prm : LmotsParam) (C msg : Bytes) :
    (sigChains H I qb seed prm C msg).flatten.length = H.n * prm.p := by
  rw [flatten_length_of H.n _ (sigChains_mem_length H I qb seed prm C msg), sigChains_length]

/-- the serialised LM-OTS signature in closed form -/
def lmotsSigBytes (H : HashFn) (I qb seed : Bytes) (prm : LmotsParam) (C msg : Bytes) : Bytes :=
  Bytes.u32be prm.typeId ++ C ++ (sigChains H I qb seed prm C msg).flatten

theorem lmotsSigBytes_length (H : HashFn) (I qb seed : Bytes) (prm : LmotsParam) (C msg : Bytes) (hC : C.length = H.n) :
    (lmotsSigBytes H I qb seed prm C msg).length = 4 + H.n * (1 + prm.p) := by
  simp only [lmotsSigBytes, List.length_append, u32be_length, hC, sigChains_flatten_length]
  rw [Nat.mul_add, Nat.mul_one]; omega

/-- `lmotsSign` never faults for a good row and a randomizer of the hash length, and returns `lmotsSigBytes` -/
theorem lmotsSign_eq (H : HashFn) (I qb seed : Bytes) (prm : LmotsParam) (C msg : Bytes)
    (hg : OtsRowGood H.n prm = true) (hC : C.length = H.n) :
    lmotsSign H I qb seed prm C msg = .ok (lmotsSigBytes H I qb seed prm C msg) := by
  unfold lmotsSign
  dsimp only
  rw [digits_eq hg _ (H.len_h _)]
  simp only [bind, Except.bind, P.require, hC, beq_self_eq_true, if_true, pure, Except.pure]
  unfold lmotsSigBytes sigChains msgDigest
  congr 3
  apply List.map_congr_left
  intro i hi
  have hi' : i < prm.p := by simpa using hi
  congr 1
  rw [List.getD_eq_getElem?_getD]
  simp [hi']

/-! ### parsing a released signature -/

/-- the parsed form of a released LM-OTS signature -/
def lmotsSigParsed (H : HashFn) (I qb seed : Bytes) (prm : LmotsParam) (C msg : Bytes) : InMemLmotsSig :=
  ⟨C, (sigChains H I qb seed prm C msg).flatten, prm⟩

theorem typeId_lt {n t : Nat} {prm : LmotsParam} (h : Params.lmotsGetFromType n t = some prm) : t < 5 := by
  apply Classical.byContradiction
  intro hnot
  have : Generated.lmotsGetFromType.lookup t = none := by
    have h1 : t ≠ 1 := by omega
    have h2 : t ≠ 2 := by omega
    have h3 : t ≠ 3 := by omega
    have h4 : t ≠ 4 := by omega
    simp [Generated.lmotsGetFromType, List.lookup, beq_eq_false_iff_ne.mpr h1, beq_eq_false_iff_ne.mpr h2,
      beq_eq_false_iff_ne.mpr h3, beq_eq_false_iff_ne.mpr h4]
  simp [Params.lmotsGetFromType, this] at h

theorem lmotsSig_parse (H : HashFn) (I qb seed : Bytes) (prm : LmotsParam) (C msg : Bytes)
    (ht : Params.lmotsGetFromType H.n prm.typeId = some prm) (hC : C.length = H.n) :
    InMemLmotsSig.parse H.n (lmotsSigBytes H I qb seed prm C msg) = some (lmotsSigParsed H I qb seed prm C msg) := by
  have hlt : prm.typeId < 2 ^ 32 := by have := typeId_lt ht; omega
  unfold InMemLmotsSig.parse
  have r1 : readAt (lmotsSigBytes H I qb seed prm C msg) 4 0 = some (Bytes.u32be prm.typeId) := by
    have := readAt_mid' (pre := []) (b := Bytes.u32be prm.typeId)
      (post := C ++ (sigChains H I qb seed prm C msg).flatten) (len := 4) (idx := 0) rfl (u32be_length _).symm
    simpa [lmotsSigBytes, List.append_assoc] using this
  have r2 : readAt (lmotsSigBytes H I qb seed prm C msg) H.n 4 = some C := by
    exact readAt_mid' (pre := Bytes.u32be prm.typeId) (b := C) (u32be_length _).symm hC.symm
  have r3 : readAt (lmotsSigBytes H I qb seed prm C msg) (H.n * prm.p) (4 + H.n)
      = some (sigChains H I qb seed prm C msg).flatten := by
    have := readAt_mid' (pre := Bytes.u32be prm.typeId ++ C) (b := (sigChains H I qb seed prm C msg).flatten)
      (post := []) (len := H.n * prm.p) (idx := 4 + H.n) (by simp [u32be_length, hC])
      (sigChains_flatten_length H I qb seed prm C msg).symm
    simpa [lmotsSigBytes] using this
  simp only [r1, Option.bind_eq_bind, Option.bind_some, toNat_u32be hlt, ht, r2, r3, pure, lmotsSigParsed]

/-! ### the verifier's candidate -/

/-- L1: the candidate the verifier computes from a released LM-OTS signature is the LM-OTS public key -/
theorem lmotsCandidate_released (H : HashFn) (I : Bytes) (q : Nat) (seed : Bytes) (prm : LmotsParam) (C msg : Bytes)
    (hg : OtsRowGood H.n prm = true) :
    lmotsCandidate H (lmotsSigParsed H I (Bytes.u32be q) seed prm C msg) I q msg
      = .ok (lmotsPublicKey H I (Bytes.u32be q) prm (lmotsPrivateKey H I (Bytes.u32be q) seed prm)) := by
  obtain ⟨_, _, _, _, _, hcap, _⟩ := row_facts hg
  unfold lmotsCandidate
  simp only [lmotsSigParsed]
  rw [append_checksum_eq hg _ (H.len_h _)]
  simp only [bind, Except.bind]
  rw [foldlM_range_append _ (fun i => chain H I (Bytes.u32be q) i
        ((lmotsPrivateKey H I (Bytes.u32be q) seed prm).getD i []) 0 (2 ^ prm.w - 1))]
  · rfl
  · intro acc i hi hl
    have hidx := all_digit_index hg hi
    have hqc := qcOf_length hg (H.h (I ++ Bytes.u32be q ++ D_MESG ++ C ++ msg)) (H.len_h _)
    rw [coef_eq _ i prm.w (by rw [hqc]; exact hidx)]
    have hlen := sigChains_flatten_length H I (Bytes.u32be q) seed prm C msg
    have hs : H.n * i + H.n ≤ (sigChains H I (Bytes.u32be q) seed prm C msg).flatten.length := by
      rw [hlen]
      calc H.n * i + H.n = H.n * (i + 1) := by rw [Nat.mul_add, Nat.mul_one]
        _ ≤ H.n * prm.p := Nat.mul_le_mul_left _ (by omega)
    have hacc : acc.length < (Params.chains prm.w MAX_HASH_SIZE).getD 0 := by omega
    simp only [P.slice, hs, if_true, P.pushCap, hacc]
    have hi2 : i < (sigChains H I (Bytes.u32be q) seed prm C msg).length := by rw [sigChains_length]; exact hi
    rw [slice_flatten H.n _ i hi2 (sigChains_mem_length H I (Bytes.u32be q) seed prm C msg)]
    have hget : (sigChains H I (Bytes.u32be q) seed prm C msg)[i] =
        chain H I (Bytes.u32be q) i ((lmotsPrivateKey H I (Bytes.u32be q) seed prm).getD i []) 0
          (digitOf H.n prm (msgDigest H I (Bytes.u32be q) C msg) i) := by
      simp [sigChains]
    rw [hget]
    have hd : coefVal (qcOf H.n prm (H.h (I ++ Bytes.u32be q ++ D_MESG ++ C ++ msg))) i prm.w
        = digitOf H.n prm (msgDigest H I (Bytes.u32be q) C msg) i := rfl
    rw [hd, chain_compose _ _ _ _ _ _ _ (digitOf_le _ _ _ _)]

/-- L1 in the form of the task: whatever `lmotsSign` returns parses, and the verifier's candidate is the public key -/
theorem lmots_complete (H : HashFn) (I : Bytes) (q : Nat) (seed : Bytes) (prm : LmotsParam) (C msg sigBytes : Bytes)
    (hg : OtsRowGood H.n prm = true) (ht : Params.lmotsGetFromType H.n prm.typeId = some prm) (hC : C.length = H.n)
    (hs : lmotsSign H I (Bytes.u32be q) seed prm C msg = .ok sigBytes) :
    ∃ s, InMemLmotsSig.parse H.n sigBytes = some s ∧ s.param = prm ∧
      lmotsCandidate H s I q msg
        = .ok (lmotsPublicKey H I (Bytes.u32be q) prm (lmotsPrivateKey H I (Bytes.u32be q) seed prm)) := by
  rw [lmotsSign_eq H I _ seed prm C msg hg hC] at hs
  simp only [Except.ok.injEq] at hs
  subst hs
  exact ⟨_, lmotsSig_parse H I _ seed prm C msg ht hC, rfl, lmotsCandidate_released H I q seed prm C msg hg⟩

end Lemmas.Complete

/-
Life cycle of the auxiliary buffer: buffers written back by `hssKeygen` / `hssSign` for a key are *honest* for that
key - whenever a later operation accepts them (marker set, MAC check passed), the view it gets satisfies `CacheTrue`.
No assumption about the MAC is needed: the cached levels of the re-expanded buffer are literally the byte strings the
previous operation wrote, whatever the MAC bytes are.
-/
import HbsLms.Lemmas.AuxCache
import HbsLms.Lemmas.PrivKey

open Generated Impl

namespace Lemmas.AuxLifecycle

open Lemmas.AuxCache

/-! ### the frame of a view: level word and which levels are present -/

/-- what the tree code never changes: the 4 bytes of the level word and the set of cached levels -/
def frame (e : ExpAux) : Bytes × List Bool := (e.head, e.layers.map Option.isSome)

def oframe (a : Option ExpAux) : Option (Bytes × List Bool) := a.map frame

theorem getD_some_getElem? {l : List (Option Bytes)} {i : Nat} {b : Bytes} (h : l.getD i none = some b) :
    l[i]? = some (some b) := by
  rw [List.getD_eq_getElem?_getD] at h
  cases hq : l[i]? with
  | none => simp [hq] at h
  | some x => simp [hq] at h; rw [h]

theorem frame_save (n : Nat) (e : ExpAux) (r : Nat) (v : Bytes) : frame (hss_save_aux_data n e r v) = frame e := by
  unfold hss_save_aux_data
  dsimp only
  split
  · rfl
  · rename_i layer hL
    have hq := getD_some_getElem? hL
    simp only [frame, Prod.mk.injEq, true_and]
    apply List.ext_getElem?
    intro i
    simp only [List.getElem?_map, List.getElem?_set]
    split
    · rename_i hi
      subst hi
      rw [hq]
      have hlt : log2 r < e.layers.length := (List.getElem?_eq_some_iff.1 hq).1
      simp [hlt]
    · rfl

theorem oframe_map_save (n : Nat) (a : Option ExpAux) (r : Nat) (v : Bytes) :
    oframe (a.map fun e => hss_save_aux_data n e r v) = oframe a := by
  cases a with
  | none => rfl
  | some e => simp [oframe, frame_save]

/-- `getTreeElement` keeps the frame -/
theorem oframe_getTreeElement (H : HashFn) (k : LmsKey) (fuel : Nat) :
    ∀ (r : Nat) (a : Option ExpAux), oframe (getTreeElement H k fuel r a).2 = oframe a := by
  induction fuel with
  | zero =>
    intro r a
    rw [getTreeElement_unfold]
    split
    · rfl
    · dsimp only
      rw [oframe_map_save]
      split <;> rfl
  | succ f ih =>
    intro r a
    rw [getTreeElement_unfold]
    split
    · rfl
    · dsimp only
      rw [oframe_map_save]
      split
      · rfl
      · dsimp only
        rw [ih, ih]

theorem oframe_treeNode (H : HashFn) (k : LmsKey) (r : Nat) (a : Option ExpAux) :
    oframe (treeNode H k r a).2 = oframe a := oframe_getTreeElement H k _ r a

theorem oframe_authPath (H : HashFn) (k : LmsKey) (leaf : Nat) (a : Option ExpAux) :
    oframe (authPath H k leaf a).2 = oframe a := by
  unfold authPath
  suffices h : ∀ m, oframe ((List.range m).foldl (fun (acc : List Bytes × Option ExpAux) i =>
      let (v, a) := treeNode H k ((leaf / 2 ^ i) ^^^ 1) acc.2
      (acc.1 ++ [v], a)) ([], a)).2 = oframe a from h _
  intro m
  induction m with
  | zero => rfl
  | succ m ih =>
    rw [List.range_succ, List.foldl_append]
    simp only [List.foldl_cons, List.foldl_nil]
    rw [oframe_treeNode, ih]

/-! ### shape of a view with respect to its level word -/

/-- the level word has 4 bytes and the levels present are exactly those it announces -/
def Shaped (H : HashFn) (cfg : Config) (e : ExpAux) : Prop :=
  e.head.length = 4 ∧
  e.layers.map Option.isSome = (auxSizes H cfg (Bytes.toNat e.head)).map (fun sz => sz != 0)

theorem shaped_of_frame {H : HashFn} {cfg : Config} {e e' : ExpAux} (h : frame e' = frame e)
    (hs : Shaped H cfg e) : Shaped H cfg e' := by
  simp only [frame, Prod.mk.injEq] at h
  unfold Shaped
  rw [h.1, h.2]
  exact hs

theorem layersOf_isSome (sizes : List Nat) (rest : Bytes) :
    (layersOf sizes rest).map Option.isSome = sizes.map (fun sz => sz != 0) := by
  induction sizes generalizing rest with
  | nil => rfl
  | cons sz t ih =>
    unfold layersOf
    by_cases hz : (sz == 0) = true
    · simp only [hz, if_true, List.map_cons, ih]
      have : sz = 0 := by simpa using hz
      simp [this]
    · simp only [hz, Bool.false_eq_true, if_false, List.map_cons, ih]
      have : sz ≠ 0 := by simpa using hz
      simp [this]

/-- every view handed out by `hss_expand_aux_data` is shaped -/
theorem expand_shaped {H : HashFn} {cfg : Config} {aux : Bytes} {seed : Option Bytes} {e : ExpAux}
    (h : hss_expand_aux_data H cfg aux seed = some e) : Shaped H cfg e := by
  obtain ⟨_, lw, hlw, _, rfl⟩ := expand_some h
  obtain ⟨_, _, hl⟩ := Lemmas.readAt_some hlw
  refine ⟨hl, ?_⟩
  simp only [splitLayers_eq, List.nil_append]
  exact layersOf_isSome _ _

/-- the levels have exactly the announced sizes -/
def Fits : List Nat → List (Option Bytes) → Prop
  | [], [] => True
  | sz :: t, l :: ls => (if sz = 0 then l = none else ∃ b : Bytes, l = some b ∧ b.length = sz) ∧ Fits t ls
  | _, _ => False

theorem fits_of_index (sizes : List Nat) (layers : List (Option Bytes)) (hlen : layers.length = sizes.length)
    (h : ∀ (i sz : Nat) (l : Option Bytes), sizes[i]? = some sz → layers[i]? = some l →
      (if sz = 0 then l = none else ∃ b : Bytes, l = some b ∧ b.length = sz)) : Fits sizes layers := by
  induction sizes generalizing layers with
  | nil =>
    cases layers with
    | nil => trivial
    | cons l ls => simp at hlen
  | cons sz t ih =>
    cases layers with
    | nil => simp at hlen
    | cons l ls =>
      refine ⟨h 0 sz l rfl rfl, ih ls (by simpa using hlen) ?_⟩
      intro i sz' l' h1 h2
      exact h (i + 1) sz' l' (by simpa using h1) (by simpa using h2)

/-- re-cutting the concatenated levels gives the levels back -/
theorem layersOf_flatten (sizes : List Nat) (layers : List (Option Bytes)) (tail : Bytes) (h : Fits sizes layers) :
    layersOf sizes ((layers.map fun l => l.getD []).flatten ++ tail) = layers := by
  induction sizes generalizing layers with
  | nil =>
    cases layers with
    | nil => rfl
    | cons l ls => exact absurd h (by simp [Fits])
  | cons sz t ih =>
    cases layers with
    | nil => exact absurd h (by simp [Fits])
    | cons l ls =>
      obtain ⟨h1, h2⟩ := h
      unfold layersOf
      by_cases hz : sz = 0
      · subst hz
        simp only [if_true] at h1
        subst h1
        simp only [beq_self_eq_true, if_true, List.map_cons, Option.getD_none, List.flatten_cons, List.nil_append]
        rw [ih ls h2]
      · simp only [hz, if_false] at h1
        obtain ⟨b, rfl, hb⟩ := h1
        have hz' : (sz == 0) = false := by simpa using hz
        simp only [hz', Bool.false_eq_true, if_false, List.map_cons, Option.getD_some, List.flatten_cons,
          List.append_assoc]
        rw [List.take_left' hb, List.drop_left' hb, ih ls h2]

/-- shape + cache invariant: the levels have the announced sizes -/
theorem fits_of_cacheTrue {H : HashFn} {cfg : Config} {k : LmsKey} {e : ExpAux} (hs : Shaped H cfg e)
    (hc : CacheTrue H k e) : Fits (auxSizes H cfg (Bytes.toNat e.head)) e.layers := by
  obtain ⟨_, hp⟩ := hs
  apply fits_of_index
  · have := congrArg List.length hp
    simpa using this
  · intro i sz l h1 h2
    have hi := congrArg (fun x => x[i]?) hp
    simp only [List.getElem?_map, h1, h2, Option.map_some, Option.some.injEq] at hi
    by_cases hz : sz = 0
    · subst hz
      simp only [if_true]
      cases l with
      | none => rfl
      | some b => simp at hi
    · simp only [hz, if_false]
      cases l with
      | none => simp [hz] at hi
      | some b =>
        refine ⟨b, rfl, ?_⟩
        have hg : e.layers.getD i none = some b := by
          rw [List.getD_eq_getElem?_getD, h2]; rfl
        rw [(hc i b hg).1, auxSizes_getElem? H cfg _ i sz h1 hz]

theorem cacheTrue_of_layers {H : HashFn} {k : LmsKey} {e e' : ExpAux} (h : e'.layers = e.layers)
    (hc : CacheTrue H k e) : CacheTrue H k e' := by
  unfold CacheTrue
  rw [h]
  exact hc

/-- **round trip.** Expanding the bytes written back for a shaped view that satisfies the invariant gives a view with
the same cached levels - whatever the MAC bytes are. -/
theorem expand_bytes_layers {H : HashFn} {cfg : Config} {k : LmsKey} {e e' : ExpAux} {seed : Option Bytes}
    (hs : Shaped H cfg e) (hc : CacheTrue H k e)
    (h : hss_expand_aux_data H cfg e.bytes seed = some e') : e'.layers = e.layers := by
  have hf := fits_of_cacheTrue hs hc
  obtain ⟨_, lw, hlw, _, rfl⟩ := expand_some h
  obtain ⟨_, hlw', _⟩ := Lemmas.readAt_some hlw
  have hhead : lw = e.head := by
    rw [hlw']
    unfold ExpAux.bytes Bytes.slice
    rw [List.drop_zero, List.append_assoc, List.take_left' hs.1]
  subst hhead
  have hdrop : e.bytes.drop 4 = (e.layers.map fun l => l.getD []).flatten ++ e.hmac := by
    unfold ExpAux.bytes
    rw [List.append_assoc, List.drop_left' hs.1]
  simp only [splitLayers_eq, List.nil_append, hdrop]
  exact layersOf_flatten _ _ _ hf

theorem expand_bytes_cacheTrue {H : HashFn} {cfg : Config} {k : LmsKey} {e e' : ExpAux} {seed : Option Bytes}
    (hs : Shaped H cfg e) (hc : CacheTrue H k e)
    (h : hss_expand_aux_data H cfg e.bytes seed = some e') : CacheTrue H k e' :=
  cacheTrue_of_layers (expand_bytes_layers hs hc h) hc


/-! ### honest buffers -/

/-- A buffer is *honest* for `(seed, p0)`: whenever it is marked as used and `hss_expand_aux_data` accepts it for this
seed (MAC check passed), the view satisfies the cache invariant of the top tree. A buffer that is absent, unmarked or
rejected by the MAC check is trivially honest - it is never read. -/
def Honest (H : HashFn) (cfg : Config) (seed : Bytes) (p0 : HssParam) (aux : Option Bytes) : Prop :=
  ∀ buf e, aux = some buf → hss_is_aux_data_used buf = true →
    hss_expand_aux_data H cfg buf (some seed) = some e → CacheTrue H (topKey H seed p0) e

theorem honest_none (H : HashFn) (cfg : Config) (seed : Bytes) (p0 : HssParam) : Honest H cfg seed p0 none := by
  intro buf e h; cases h

theorem honest_unmarked (H : HashFn) (cfg : Config) (seed : Bytes) (p0 : HssParam) (aux : Option Bytes)
    (h : ∀ b, aux = some b → hss_is_aux_data_used b = false) : Honest H cfg seed p0 aux := by
  intro buf e hb hu _
  rw [h buf hb] at hu; cases hu

theorem honest_rejected (H : HashFn) (cfg : Config) (seed : Bytes) (p0 : HssParam) (buf : Bytes)
    (h : hss_expand_aux_data H cfg buf (some seed) = none) : Honest H cfg seed p0 (some buf) := by
  intro b e hb _ he
  cases hb; rw [h] at he; cases he

/-- the working invariant on views: shaped and true -/
def Inv (H : HashFn) (cfg : Config) (k : LmsKey) (a : Option ExpAux) : Prop :=
  ∀ e, a = some e → Shaped H cfg e ∧ CacheTrue H k e

theorem inv_none (H : HashFn) (cfg : Config) (k : LmsKey) : Inv H cfg k none := by
  intro e h; cases h

theorem inv_good {H : HashFn} {cfg : Config} {k : LmsKey} {a : Option ExpAux} (h : Inv H cfg k a) : AuxGood H k a :=
  fun e he => (h e he).2

/-- a view with the same frame as a shaped one, that satisfies the cache invariant -/
theorem inv_of_frame {H : HashFn} {cfg : Config} {k : LmsKey} {a a' : Option ExpAux} (h : Inv H cfg k a)
    (hf : oframe a' = oframe a) (hg : AuxGood H k a') : Inv H cfg k a' := by
  intro e' he'
  subst he'
  refine ⟨?_, hg e' rfl⟩
  cases a with
  | none => simp [oframe] at hf
  | some e =>
    simp only [oframe, Option.map_some, Option.some.injEq] at hf
    exact shaped_of_frame hf (h e rfl).1

/-- the bytes written back for a view satisfying the working invariant are honest -/
theorem honest_bytes {H : HashFn} {cfg : Config} {seed : Bytes} {p0 : HssParam} {e : ExpAux}
    (hs : Shaped H cfg e) (hc : CacheTrue H (topKey H seed p0) e) : Honest H cfg seed p0 (some e.bytes) := by
  intro buf e' hb _ he
  cases hb
  exact expand_bytes_cacheTrue hs hc he

/-- what `auxAfter` leaves in the caller's buffer -/
theorem auxAfter_honest {H : HashFn} {cfg : Config} {seed : Bytes} {p0 : HssParam} {a : Option ExpAux}
    {buf : Option Bytes} (ha : Inv H cfg (topKey H seed p0) a) (hb : Honest H cfg seed p0 buf) :
    Honest H cfg seed p0 (auxAfter a buf) := by
  cases a with
  | none => cases buf <;> exact hb
  | some e =>
    cases buf with
    | none => exact honest_none _ _ _ _
    | some b => exact honest_bytes (ha e rfl).1 (ha e rfl).2

/-- a view accepted with the seed is the view obtained without the MAC check -/
theorem expand_seed_none {H : HashFn} {cfg : Config} {buf : Bytes} {s : Bytes} {e : ExpAux}
    (h : hss_expand_aux_data H cfg buf (some s) = some e) : hss_expand_aux_data H cfg buf none = some e := by
  obtain ⟨hu, lw, hlw, _, rfl⟩ := expand_some h
  unfold hss_expand_aux_data
  simp only [hu, Bool.not_true, Bool.false_eq_true, if_false, hlw, Option.bind_eq_bind, Option.bind_some, pure]
  rfl

/-- `getExpandedAuxData` on an honest buffer: the view handed to the tree code satisfies the working invariant, and
the visible buffer (what the caller keeps if no view is written back) is honest. -/
theorem gead_inv (H : HashFn) (cfg : Config) (hK : cfg.maxTreeHeight ≤ 30) (aux : Option Bytes) (seed : Bytes)
    (p0 : HssParam) (hh : Honest H cfg seed p0 aux) :
    Inv H cfg (topKey H seed p0) (getExpandedAuxData H cfg aux seed p0.lms.h).1 ∧
    Honest H cfg seed p0 (getExpandedAuxData H cfg aux seed p0.lms.h).2.1 := by
  cases aux with
  | none => exact ⟨inv_none _ _ _, honest_none _ _ _ _⟩
  | some buf =>
    by_cases hne : buf.isEmpty = true
    · unfold getExpandedAuxData
      simp only [hne, if_true]
      exact ⟨inv_none _ _ _, hh⟩
    · by_cases hu : hss_is_aux_data_used buf = true
      · unfold getExpandedAuxData
        simp only [hne, hu, if_true, Bool.false_eq_true, if_false]
        refine ⟨?_, hh⟩
        intro e he
        exact ⟨expand_shaped he, hh buf e rfl hu he⟩
      · have hfresh := fresh_auxOK H cfg hK buf (by simpa using hne) (by simpa using hu) seed p0
        unfold AuxOK at hfresh
        unfold getExpandedAuxData at hfresh ⊢
        simp only [hne, hu, Bool.false_eq_true, if_false] at hfresh ⊢
        refine ⟨fun e he => ⟨expand_shaped he, hfresh e he⟩, ?_⟩
        intro b e hb _ he
        cases hb
        exact hfresh e (expand_seed_none he)

/-! ### the tree code keeps the working invariant -/

theorem treeNode_inv (H : HashFn) (cfg : Config) (k : LmsKey) (a : Option ExpAux) (ha : Inv H cfg k a) :
    Inv H cfg k (treeNode H k 1 a).2 := by
  obtain ⟨a', e1, g, _⟩ := treeNode_root H k a (inv_good ha)
  apply inv_of_frame ha (oframe_treeNode H k 1 a)
  rw [e1]; exact g

theorem finalize_inv (H : HashFn) (cfg : Config) (k : LmsKey) (a : Option ExpAux) (seed : Bytes)
    (ha : Inv H cfg k a) : Inv H cfg k (a.map fun e => hss_finalize_aux_data H cfg e seed) := by
  intro e' he'
  obtain ⟨e, rfl, rfl⟩ := Option.map_eq_some_iff.1 he'
  obtain ⟨h1, h2⟩ := ha e rfl
  exact ⟨shaped_of_frame (e := e) rfl h1, cacheTrue_of_layers (e := e) rfl h2⟩

/-- `lmsSign_transparent` with the frame -/
theorem lmsSign_transparent' (H : HashFn) (cfg : Config) (k : LmsKey) (q : Nat) (msg C : Bytes)
    (a : Option ExpAux) (ha : AuxGood H k a) :
    ∃ a', lmsSign H cfg k q msg C a =
        (lmsSign H cfg k q msg C none).map (Option.map fun p => (p.1, a')) ∧
      AuxGood H k a' ∧ oframe a' = oframe a := by
  unfold lmsSign
  by_cases hq : q ≥ 2 ^ k.lms.h
  · exact ⟨a, by simp only [hq, if_true]; rfl, ha, rfl⟩
  · have h2 : 2 ^ k.lms.h + q < 2 ^ (k.lms.h + 1) := by rw [Nat.pow_succ]; omega
    obtain ⟨a1, e1, g1, _⟩ := authPath_transparent H k (2 ^ k.lms.h + q) a ha (by omega) h2
    obtain ⟨a2, e2, _, _⟩ := authPath_transparent H k (2 ^ k.lms.h + q) none (auxGood_none H k) (by omega) h2
    have hf := oframe_authPath H k (2 ^ k.lms.h + q) a
    rw [e1] at hf
    unfold authPath at e1 e2
    refine ⟨a1, ?_, g1, hf⟩
    simp only [hq, if_false]
    simp only [e1, e2, map_bind']
    rfl

/-- `go_live` with the frame -/
theorem go_live' (H : HashFn) (cfg : Config) (leaves : List Nat) (rest : List HssParam)
    (i : Nat) (parent : Level) (acc : Expanded) (aux : Option ExpAux) (ha : AuxGood H parent.key aux) :
    ∃ a', expandPrivateKey.go H cfg leaves i rest parent acc aux true =
        (expandPrivateKey.go H cfg leaves i rest parent acc none true).map (setAux a') ∧
      AuxGood H parent.key a' ∧ oframe a' = oframe aux := by
  cases rest with
  | nil => exact ⟨aux, rfl, ha, rfl⟩
  | cons p rest' =>
    rw [expandPrivateKey.go.eq_2, expandPrivateKey.go.eq_2]
    dsimp only
    simp only [if_true]
    obtain ⟨a1, e1, g1, f1⟩ := lmsSign_transparent' H cfg parent.key parent.q
      (lmsPublicKeyBytes
        { I := (childSeedAndId H parent.key.seed parent.key.I parent.q).2,
          seed := (childSeedAndId H parent.key.seed parent.key.I parent.q).1, ots := p.ots, lms := p.lms }
        (treeNode H
          { I := (childSeedAndId H parent.key.seed parent.key.I parent.q).2,
            seed := (childSeedAndId H parent.key.seed parent.key.I parent.q).1, ots := p.ots, lms := p.lms } 1 none).1)
      (signatureRandomizer H (childSeedAndId H parent.key.seed parent.key.I parent.q).1
        (childSeedAndId H parent.key.seed parent.key.I parent.q).2 parent.q) aux ha
    refine ⟨a1, ?_, g1, f1⟩
    rw [e1]
    simp only [map_bind', bind_map']
    refine bind_congr fun _ => bind_congr fun r => ?_
    cases r with
    | none => rfl
    | some p =>
      dsimp only [Option.map]
      rw [go_dead, go_dead (aux := p.2), map_map']
      congr 1
      funext x
      cases x <;> rfl

/-- `expandPrivateKey_transparent` with the frame -/
theorem expandPrivateKey_transparent' (H : HashFn) (cfg : Config) (k : RefKey) (aux : Option ExpAux)
    (ha : ∀ p0, signTop H cfg k = some p0 → AuxGood H (topKey H k.seed p0) aux) :
    ∃ a', expandPrivateKey H cfg k aux = (expandPrivateKey H cfg k none).map (setAux a') ∧
      (∀ p0, signTop H cfg k = some p0 → AuxGood H (topKey H k.seed p0) a') ∧ oframe a' = oframe aux := by
  unfold expandPrivateKey
  unfold signTop at ha ⊢
  cases hp : paramsOfBytes cfg H.n k.params with
  | none => exact ⟨aux, rfl, by simp, rfl⟩
  | some ps =>
    dsimp only
    cases hh : ps.head? with
    | none => exact ⟨aux, rfl, by simp [hh], rfl⟩
    | some p0 =>
      dsimp only
      have h0 := ha p0 (by simp [hp, hh])
      obtain ⟨a', e, g, f⟩ := go_live' H cfg (leavesOfCounter (List.map (fun x => x.lms.h) ps) k.counter) ps.tail 1
        ⟨topKey H k.seed p0, (leavesOfCounter (List.map (fun x => x.lms.h) ps) k.counter).getD 0 0⟩
        ⟨[⟨topKey H k.seed p0, (leavesOfCounter (List.map (fun x => x.lms.h) ps) k.counter).getD 0 0⟩], [], []⟩ aux h0
      refine ⟨a', e, ?_, f⟩
      intro p0' hp0'
      simp [hh] at hp0'
      subst hp0'
      exact g


/-! ### key generation -/

/-- `used` in `hssKeygen`: the caller's buffer was marked as used on entry -/
def auxUsed (aux : Option Bytes) : Bool :=
  match aux with
  | some b => hss_is_aux_data_used b
  | none => false

/-- the buffer `hssKeygen` writes back -/
theorem hssKeygen_aux_eq {H : HashFn} {cfg : Config} {ps : List HssParam} {seed : Bytes} {aux : Option Bytes}
    {pb : Bytes} {ps' : List HssParam} {p0 : HssParam} {o : KeygenOutcome}
    (hb : bytesOfParams cfg H.n ps = .ok (some pb)) (hp : paramsOfBytes cfg H.n pb = some ps')
    (hhd : ps'.head? = some p0) (h : hssKeygen H cfg ps seed aux = .ok o) :
    o.aux = auxAfter
      (if auxUsed aux = true
        then (treeNode H (topKey H seed p0) 1 (getExpandedAuxData H cfg aux seed p0.lms.h).1).2
        else (treeNode H (topKey H seed p0) 1 (getExpandedAuxData H cfg aux seed p0.lms.h).1).2.map
          fun e => hss_finalize_aux_data H cfg e seed)
      (getExpandedAuxData H cfg aux seed p0.lms.h).2.1 := by
  unfold hssKeygen at h
  simp only [hb, bind, Except.bind, hp, hhd] at h
  split at h
  · rw [← Except.ok.inj h]; rfl
  · split at h
    · rw [← Except.ok.inj h]; rfl
    · rw [← Except.ok.inj h]; rfl


/-- **T1.** Key generation on an honest buffer writes back an honest buffer. -/
theorem hssKeygen_honest (H : HashFn) (cfg : Config) (hK : cfg.maxTreeHeight ≤ 30) (ps : List HssParam)
    (seed : Bytes) (aux : Option Bytes) (p0 : HssParam) (htop : keygenTop H cfg ps = some p0)
    (hh : Honest H cfg seed p0 aux) (o : KeygenOutcome) (h : hssKeygen H cfg ps seed aux = .ok o) :
    Honest H cfg seed p0 o.aux := by
  unfold keygenTop at htop
  cases hb : bytesOfParams cfg H.n ps with
  | error f => simp [hb] at htop
  | ok ob =>
    cases ob with
    | none => simp [hb] at htop
    | some pb =>
      simp only [hb] at htop
      cases hp : paramsOfBytes cfg H.n pb with
      | none => simp [hp] at htop
      | some ps' =>
        simp only [hp, Option.bind_some] at htop
        rw [hssKeygen_aux_eq hb hp htop h]
        obtain ⟨hi, hv⟩ := gead_inv H cfg hK aux seed p0 hh
        have h1 := treeNode_inv H cfg (topKey H seed p0) _ hi
        apply auxAfter_honest _ hv
        split
        · exact h1
        · exact finalize_inv H cfg _ _ seed h1

/-! ### signing -/

/-- the visible aux buffer a prepared signature carries -/
def prepAux : Prepared → Option Bytes
  | .failed a _ => a
  | .ready _ _ a _ => a

theorem signCommit_aux (n : Nat) (cfg : Config) (cb : Bytes → Bool) (k : RefKey) (p : Prepared) :
    (signCommit n cfg cb k p).aux = prepAux p := by
  cases p with
  | failed a r => rfl
  | ready hs sig a r =>
    unfold signCommit prepAux
    dsimp only
    split
    · rfl
    · split <;> rfl

/-- keys whose parameter bytes do not decode: nothing is touched -/
theorem signPrepare_noTop (H : HashFn) (cfg : Config) (msg : Bytes) (k : RefKey) (aux : Option Bytes)
    (hst : signTop H cfg k = none) : signPrepare H cfg msg k aux = .ok (.failed aux []) := by
  unfold signPrepare
  unfold signTop at hst
  cases hp : paramsOfBytes cfg H.n k.params with
  | none => rfl
  | some ps =>
    cases hh : ps.head? with
    | none => simp only [hh]; rfl
    | some p0 => simp [hp, hh] at hst

theorem require_bind_ok {α : Type} {site : String} {c : Bool} {g : Unit → P α} {r : α}
    (h : (P.require site c >>= g) = .ok r) : g () = .ok r := by
  unfold P.require at h
  split at h
  · exact h
  · cases h

/-- **T2 (core).** Whatever `signPrepare` leaves in the caller's buffer is honest again. -/
theorem signPrepare_honest (H : HashFn) (cfg : Config) (hK : cfg.maxTreeHeight ≤ 30) (msg : Bytes) (k : RefKey)
    (aux : Option Bytes) (p0 : HssParam) (hst : signTop H cfg k = some p0)
    (hh : Honest H cfg k.seed p0 aux) (p : Prepared) (h : signPrepare H cfg msg k aux = .ok p) :
    Honest H cfg k.seed p0 (prepAux p) := by
  unfold signPrepare at h
  cases hp : paramsOfBytes cfg H.n k.params with
  | none => simp [signTop, hp] at hst
  | some ps =>
    cases hhd : ps.head? with
    | none => simp [signTop, hp, hhd] at hst
    | some p0' =>
      have : p0' = p0 := by simpa [signTop, hp, hhd] using hst
      subst this
      simp only [hp, hhd] at h
      obtain ⟨hi, hv⟩ := gead_inv H cfg hK aux k.seed p0' hh
      have h0 : ∀ p0'', signTop H cfg k = some p0'' →
          AuxGood H (topKey H k.seed p0'') (getExpandedAuxData H cfg aux k.seed p0'.lms.h).1 := by
        intro p0'' h'
        rw [hst] at h'; cases h'
        exact inv_good hi
      obtain ⟨a1, e1, g1, f1⟩ := expandPrivateKey_transparent' H cfg k _ h0
      have hi1 : Inv H cfg (topKey H k.seed p0') a1 := inv_of_frame hi f1 (g1 p0' hst)
      generalize getExpandedAuxData H cfg aux k.seed p0'.lms.h = gead at h hi hv e1
      obtain ⟨e0, buf, rest⟩ := gead
      dsimp only at h hi hv e1
      rw [e1] at h
      cases hX : expandPrivateKey H cfg k none with
      | error f => rw [hX] at h; cases h
      | ok v =>
        rw [hX] at h
        cases v with
        | none =>
          have := Except.ok.inj h
          subst this
          exact auxAfter_honest hi hv
        | some pr =>
          obtain ⟨ex, e1n⟩ := pr
          simp only [Except.map, setAux, Option.map, bind, Except.bind] at h
          cases hbt : ex.levels.getLast? with
          | none =>
            simp only [hbt] at h
            have := Except.ok.inj h
            subst this
            exact auxAfter_honest hi1 hv
          | some bottom =>
            simp only [hbt] at h
            generalize signatureRandomizer H bottom.key.seed bottom.key.I bottom.q = C at h
            have key : ∀ bsig e2', lmsSign H cfg bottom.key bottom.q msg C
                (if (ex.levels.length == 1) = true then a1 else none) = .ok (some (bsig, e2')) →
                Inv H cfg (topKey H k.seed p0') (if (ex.levels.length == 1) = true then e2' else a1) := by
              intro bsig e2' hs
              by_cases hL : (ex.levels.length == 1) = true
              · simp only [hL, if_true] at hs ⊢
                obtain ⟨p0'', hp0'', hkey⟩ :=
                  expandPrivateKey_single H cfg k none ex e1n hX (by simpa using hL) bottom hbt
                rw [hst] at hp0''; cases hp0''
                obtain ⟨a2, e2, g2, f2⟩ := lmsSign_transparent' H cfg bottom.key bottom.q msg C a1
                  (hkey ▸ g1 p0' hst)
                rw [e2] at hs
                have : e2' = a2 := by
                  cases hn : lmsSign H cfg bottom.key bottom.q msg C none with
                  | error f => rw [hn] at hs; cases hs
                  | ok r =>
                    rw [hn] at hs
                    cases r with
                    | none => cases hs
                    | some pr =>
                      simp only [Except.map, Option.map, Except.ok.injEq, Option.some.injEq, Prod.mk.injEq] at hs
                      exact hs.2.symm
                subst this
                exact inv_of_frame hi1 f2 (hkey ▸ g2)
              · simp only [hL]
                exact hi1
            cases hS : lmsSign H cfg bottom.key bottom.q msg C
                (if (ex.levels.length == 1) = true then a1 else none) with
            | error f => rw [hS] at h; cases h
            | ok v =>
              rw [hS] at h
              cases v with
              | none =>
                have := Except.ok.inj h
                subst this
                exact auxAfter_honest hi1 hv
              | some pr =>
                obtain ⟨bsig, e2'⟩ := pr
                have hI := key bsig e2' hS
                dsimp only at h
                split at h
                · cases h
                · split at h
                  · cases h
                  · split at h
                    · cases h
                    · have := Except.ok.inj h
                      subst this
                      exact auxAfter_honest hI hv


/-- The key bytes belong to `(seed, p0)`: if they parse and their parameter bytes decode, then the seed is `seed` and
the top-level parameter is `p0`. (Key bytes that do not parse or do not decode - e.g. a wiped key - qualify: signing
with them fails before the aux buffer is looked at.) -/
def KeyFor (H : HashFn) (cfg : Config) (seed : Bytes) (p0 : HssParam) (sk : Bytes) : Prop :=
  ∀ k, RefKey.parse H.n sk = some k → ∀ p, signTop H cfg k = some p → k.seed = seed ∧ p = p0

/-- **T2.** Signing with a key for `(seed, p0)` on an honest buffer writes back an honest buffer. -/
theorem hssSign_honest (H : HashFn) (cfg : Config) (hK : cfg.maxTreeHeight ≤ 30) (msg sk : Bytes)
    (cb : Bytes → Bool) (aux : Option Bytes) (seed : Bytes) (p0 : HssParam) (hk : KeyFor H cfg seed p0 sk)
    (hh : Honest H cfg seed p0 aux) (o : SignOutcome) (h : hssSign H cfg msg sk cb aux = .ok o) :
    Honest H cfg seed p0 o.aux := by
  unfold hssSign at h
  cases hp : RefKey.parse H.n sk with
  | none =>
    simp only [hp] at h
    rw [← Except.ok.inj h]
    exact hh
  | some k =>
    simp only [hp] at h
    cases hs : signPrepare H cfg msg k aux with
    | error f => rw [hs] at h; cases h
    | ok p =>
      rw [hs] at h
      rw [← Except.ok.inj h, signCommit_aux]
      cases hst : signTop H cfg k with
      | none =>
        rw [signPrepare_noTop H cfg msg k aux hst] at hs
        rw [← Except.ok.inj hs]
        exact hh
      | some p' =>
        obtain ⟨h1, h2⟩ := hk k hp p' hst
        subst h1; subst h2
        exact signPrepare_honest H cfg hK msg k aux p' hst hh p hs

/-! ### which key bytes belong to a key -/

theorem parse_blob {n c : Nat} {pb sd : Bytes} {k : RefKey} (hpb : pb.length = 8)
    (h : RefKey.parse n (Bytes.u64be c ++ pb ++ sd) = some k) : k.params = pb ∧ k.seed = sd := by
  obtain ⟨hlen, _, _, hkeq⟩ := parse_some h
  have h8 : (Bytes.u64be c).length = 8 := be_length 8 c
  have hsd : sd.length = n := by
    simp only [List.length_append, h8, hpb] at hlen
    omega
  have hd8 : (Bytes.u64be c ++ pb ++ sd).drop 8 = pb ++ sd := by
    rw [List.append_assoc]; exact List.drop_left' h8
  have hd16 : (Bytes.u64be c ++ pb ++ sd).drop 16 = sd :=
    List.drop_left' (by simp [h8, hpb])
  rw [hkeq]
  simp only [hd8, hd16]
  exact ⟨List.take_left' hpb, List.take_of_length_le (by omega)⟩

theorem signTop_params (H : HashFn) (cfg : Config) (k k' : RefKey) (h : k'.params = k.params) :
    signTop H cfg k' = signTop H cfg k := by
  unfold signTop; rw [h]

theorem paramsOfBytes_wiped (cfg : Config) (n : Nat) :
    paramsOfBytes cfg n (List.replicate REF_IMPL_MAX_ALLOWED_HSS_LEVELS (UInt8.ofNat PARAM_SET_END)) = none := by
  simp [paramsOfBytes, REF_IMPL_MAX_ALLOWED_HSS_LEVELS, PARAM_SET_END, List.replicate, paramsOfBytes.go]

/-- the successor key handed to the update callback belongs to the same key (or is the wiped key) -/
theorem keyFor_increment (H : HashFn) (cfg : Config) (seed : Bytes) (p0 : HssParam) (sk : Bytes) (k : RefKey)
    (hk : KeyFor H cfg seed p0 sk) (hp : RefKey.parse H.n sk = some k) (hs : List Nat) :
    KeyFor H cfg seed p0 (k.increment H.n hs).bytes := by
  obtain ⟨_, hpl, _, _⟩ := parse_some hp
  intro k' hp' p hst
  unfold RefKey.increment at hp'
  cases hc : incrementCounter hs k.counter with
  | some c =>
    simp only [hc, RefKey.bytes] at hp'
    obtain ⟨h1, h2⟩ := parse_blob hpl hp'
    rw [signTop_params H cfg k k' h1] at hst
    rw [h2]
    exact hk k hp p hst
  | none =>
    simp only [hc, RefKey.bytes, RefKey.wiped] at hp'
    obtain ⟨h1, _⟩ := parse_blob (by simp [REF_IMPL_MAX_ALLOWED_HSS_LEVELS]) hp'
    unfold signTop at hst
    rw [h1, paramsOfBytes_wiped] at hst
    cases hst

/-- every key the update callback sees during a signing call belongs to the same key -/
theorem keyFor_trace (H : HashFn) (cfg : Config) (seed : Bytes) (p0 : HssParam) (msg sk : Bytes)
    (cb : Bytes → Bool) (aux : Option Bytes) (hk : KeyFor H cfg seed p0 sk) (o : SignOutcome)
    (h : hssSign H cfg msg sk cb aux = .ok o) : ∀ sk' ∈ o.trace, KeyFor H cfg seed p0 sk' := by
  unfold hssSign at h
  cases hp : RefKey.parse H.n sk with
  | none =>
    simp only [hp] at h
    rw [← Except.ok.inj h]
    intro sk' hm; cases hm
  | some k =>
    simp only [hp] at h
    cases hs : signPrepare H cfg msg k aux with
    | error f => rw [hs] at h; cases h
    | ok p =>
      rw [hs] at h
      rw [← Except.ok.inj h]
      cases p with
      | failed a r => intro sk' hm; cases hm
      | ready hs' sig a r =>
        have hinc := keyFor_increment H cfg seed p0 sk k hk hp hs'
        intro sk' hm
        unfold signCommit at hm
        dsimp only at hm
        have : sk' = (k.increment H.n hs').bytes := by
          split at hm
          · simpa using hm
          · split at hm <;> simpa using hm
        rw [this]
        exact hinc

/-- key bytes with the parameter bytes and the seed of a generated key, any counter -/
theorem keyFor_blob (H : HashFn) (cfg : Config) (seed : Bytes) (p0 : HssParam) (pb : Bytes) (c : Nat)
    (hseed : seed.length = H.n) (htop : (paramsOfBytes cfg H.n pb).bind List.head? = some p0) :
    KeyFor H cfg seed p0 (Bytes.u64be c ++ pb ++ seed) := by
  intro k hp p hst
  obtain ⟨hlen, _, _, _⟩ := parse_some hp
  have h8 : (Bytes.u64be c).length = 8 := be_length 8 c
  have hpl : pb.length = 8 := by
    simp only [List.length_append, h8, hseed] at hlen
    omega
  obtain ⟨h1, h2⟩ := parse_blob hpl hp
  unfold signTop at hst
  rw [h1, htop] at hst
  exact ⟨h2, (Option.some.inj hst).symm⟩

/-- the signing key returned by `hssKeygen` -/
theorem hssKeygen_result {H : HashFn} {cfg : Config} {ps : List HssParam} {seed : Bytes} {aux : Option Bytes}
    {o : KeygenOutcome} {skb vk : Bytes} (h : hssKeygen H cfg ps seed aux = .ok o)
    (hr : o.result = some (skb, vk)) :
    ∃ pb, bytesOfParams cfg H.n ps = .ok (some pb) ∧ skb = Bytes.u64be 0 ++ pb ++ seed := by
  unfold hssKeygen at h
  cases hb : bytesOfParams cfg H.n ps with
  | error f => simp [hb, bind, Except.bind] at h
  | ok ob =>
    cases ob with
    | none =>
      simp only [hb, bind, Except.bind, pure, Except.pure] at h
      rw [← Except.ok.inj h] at hr; cases hr
    | some pb =>
      refine ⟨pb, rfl, ?_⟩
      simp only [hb, bind, Except.bind] at h
      cases hp : paramsOfBytes cfg H.n pb with
      | none =>
        simp only [hp, pure, Except.pure] at h
        rw [← Except.ok.inj h] at hr; cases hr
      | some ps' =>
        cases hhd : ps'.head? with
        | none =>
          simp only [hp, hhd, pure, Except.pure] at h
          rw [← Except.ok.inj h] at hr; cases hr
        | some p0 =>
          simp only [hp, hhd] at h
          split at h
          · rw [← Except.ok.inj h] at hr; cases hr
          · split at h
            · rw [← Except.ok.inj h] at hr; cases hr
            · rw [← Except.ok.inj h] at hr
              simp only [Option.some.injEq, Prod.mk.injEq] at hr
              rw [← hr.1]; rfl

/-- the generated signing key, with its counter bytes replaced by any value, belongs to the generated key -/
theorem keyFor_keygen (H : HashFn) (cfg : Config) (ps : List HssParam) (seed : Bytes) (aux : Option Bytes)
    (p0 : HssParam) (htop : keygenTop H cfg ps = some p0) (hseed : seed.length = H.n) (o : KeygenOutcome)
    (skb vk : Bytes) (h : hssKeygen H cfg ps seed aux = .ok o) (hr : o.result = some (skb, vk)) (c : Nat) :
    KeyFor H cfg seed p0 skb ∧ KeyFor H cfg seed p0 (Bytes.u64be c ++ skb.drop 8) := by
  obtain ⟨pb, hb, rfl⟩ := hssKeygen_result h hr
  unfold keygenTop at htop
  simp only [hb] at htop
  refine ⟨keyFor_blob H cfg seed p0 pb 0 hseed htop, ?_⟩
  have h8 : (Bytes.u64be 0).length = 8 := be_length 8 0
  have : (Bytes.u64be 0 ++ pb ++ seed).drop 8 = pb ++ seed := by
    rw [List.append_assoc]; exact List.drop_left' h8
  rw [this, ← List.append_assoc]
  exact keyFor_blob H cfg seed p0 pb c hseed htop

end Lemmas.AuxLifecycle

/-
Positions of one-time keys in the HSS hierarchy (C03, observable form).

The *position* of level `j` for counter `c` is the path of leaves from the top tree down to the tree that is used at
level `j`: the first `j` mixed-radix digits of `c`. This file proves, on the closed form of the expanded key
(`Lemmas.Layout.topLevel` / `lowerLevels`):

* the tree (whole `LmsKey`: seed, identifier, parameters) used at level `j` depends only on the position of level `j`;
* the content signed at level `j < L-1` (the serialised public key of level `j+1`) depends only on the position of
  level `j+1`, i.e. on the one-time key position (position of level `j`, leaf `q_j`);
* the one-time key position of the bottom level is the whole digit vector and determines the counter;
* `hssSigBytes` written level by level, so that "the content signed at level `j`" is literally the message argument of
  the `j`-th LMS signature in the released bytes;
* every entry of a session log was released by one `hssSign` call of the session.

Core Lean only.
-/
import HbsLms.Lemmas.Layout
import HbsLms.Spec.HashSigs

namespace Lemmas.Positions

open Impl Spec Lemmas Lemmas.Complete Lemmas.Layout

/-! ### positions and leaves -/

/-- the heights `h_0, …, h_{L-1}` of a parameter list -/
def heights (p0 : HssParam) (rest : List HssParam) : List Nat := (p0 :: rest).map (·.lms.h)

/-- position of level `j` under counter `c`: the leaves `q_0, …, q_{j-1}` chosen in the levels above it -/
def pos (hs : List Nat) (c j : Nat) : List Nat := (mixedRadix hs c).take j

/-- the leaf `q_j` used at level `j` under counter `c` -/
def leafAt (hs : List Nat) (c j : Nat) : Nat := (mixedRadix hs c).getD j 0

theorem getD_of_take_eq {l l' : List Nat} {j t : Nat} (h : l.take j = l'.take j) (ht : t < j) :
    l.getD t 0 = l'.getD t 0 := by
  have := congrArg (fun x => x[t]?) h
  simp only [List.getElem?_take_of_lt ht] at this
  simp only [List.getD_eq_getElem?_getD, this]

/-- the position of level `j+1` is the one-time key position of level `j`: its position and its leaf -/
theorem pos_succ_eq (hs : List Nat) (c j : Nat) (hj : j < hs.length) :
    pos hs c (j + 1) = pos hs c j ++ [leafAt hs c j] := by
  have hl : j < (mixedRadix hs c).length := by rw [mixedRadix_length]; exact hj
  simp only [pos, leafAt, List.take_add_one, List.getD_eq_getElem?_getD, List.getElem?_eq_getElem hl,
    Option.toList_some, Option.getD_some]

theorem pos_succ_congr (hs : List Nat) (c c' j : Nat) (hj : j < hs.length) (hp : pos hs c j = pos hs c' j)
    (hq : leafAt hs c j = leafAt hs c' j) : pos hs c (j + 1) = pos hs c' (j + 1) := by
  rw [pos_succ_eq hs c j hj, pos_succ_eq hs c' j hj, hp, hq]

/-- conversely, equal positions of level `j+1` mean equal one-time key positions of level `j` -/
theorem pos_succ_inv (hs : List Nat) (c c' j : Nat) (hj : j < hs.length)
    (h : pos hs c (j + 1) = pos hs c' (j + 1)) : pos hs c j = pos hs c' j ∧ leafAt hs c j = leafAt hs c' j := by
  rw [pos_succ_eq hs c j hj, pos_succ_eq hs c' j hj] at h
  have hlen : (pos hs c j).length = (pos hs c' j).length := by
    simp [pos, mixedRadix_length]
  have := List.append_inj h hlen
  exact ⟨this.1, by simpa using this.2⟩

theorem pos_zero (hs : List Nat) (c : Nat) : pos hs c 0 = [] := rfl

/-- positions are prefixes of each other: equal positions at a level mean equal positions at every level above -/
theorem pos_mono (hs : List Nat) (c c' i j : Nat) (hij : i ≤ j) (h : pos hs c j = pos hs c' j) :
    pos hs c i = pos hs c' i := by
  have := congrArg (List.take i) h
  simpa [pos, List.take_take, Nat.min_eq_left hij] using this

/-- the position of the level below the last is the whole digit vector -/
theorem pos_length (hs : List Nat) (c : Nat) : pos hs c hs.length = mixedRadix hs c := by
  unfold pos
  exact List.take_of_length_le (by rw [mixedRadix_length]; exact Nat.le_refl _)

/-- (c) the one-time key position of the bottom level determines the counter -/
theorem bottom_position_determines_counter (hs : List Nat) (c c' j : Nat) (hj : j + 1 = hs.length)
    (hc : c < 2 ^ hs.sum) (hc' : c' < 2 ^ hs.sum) (hp : pos hs c j = pos hs c' j)
    (hq : leafAt hs c j = leafAt hs c' j) : c = c' := by
  have h := pos_succ_congr hs c c' j (by omega) hp hq
  rw [hj, pos_length, pos_length] at h
  exact mixedRadix_injective hs c c' hc hc' h

/-! ### the levels of the key, by index -/

/-- all levels of the key for counter `c`, top first -/
def levels (H : HashFn) (seed : Bytes) (p0 : HssParam) (rest : List HssParam) (c : Nat) : List Level :=
  topLevel H seed p0 rest c :: lowerLevels H seed p0 rest c

/-- level `j` (levels beyond the last read as the top level; never used for `j < L`) -/
def levelAt (H : HashFn) (seed : Bytes) (p0 : HssParam) (rest : List HssParam) (c j : Nat) : Level :=
  (levels H seed p0 rest c).getD j (topLevel H seed p0 rest c)

/-- the tree identifier `I` of level `j` -/
def idAt (H : HashFn) (seed : Bytes) (p0 : HssParam) (rest : List HssParam) (c j : Nat) : Bytes :=
  (levelAt H seed p0 rest c j).key.I

theorem levels_length (H : HashFn) (seed : Bytes) (p0 : HssParam) (rest : List HssParam) (c : Nat) :
    (levels H seed p0 rest c).length = (p0 :: rest).length := by
  simp [levels, lowerLevels, childrenOf_length]

theorem levelAt_eq_getElem (H : HashFn) (seed : Bytes) (p0 : HssParam) (rest : List HssParam) (c j : Nat)
    (hj : j < (levels H seed p0 rest c).length) : levelAt H seed p0 rest c j = (levels H seed p0 rest c)[j] := by
  simp [levelAt, List.getD_eq_getElem?_getD, List.getElem?_eq_getElem hj]

/-- level `j` uses the leaf `q_j` = digit `j` of the counter and carries parameter `j` of the list -/
theorem levelAt_q (H : HashFn) (seed : Bytes) (p0 : HssParam) (rest : List HssParam) (c j : Nat)
    (hj : j < (p0 :: rest).length) :
    (levelAt H seed p0 rest c j).q = leafAt (heights p0 rest) c j ∧
    (levelAt H seed p0 rest c j).key.ots = (p0 :: rest)[j].ots ∧
    (levelAt H seed p0 rest c j).key.lms = (p0 :: rest)[j].lms := by
  obtain ⟨l, h1, h2, h3, h4⟩ := levels_leaves H seed p0 rest c j hj
  have : levelAt H seed p0 rest c j = l := by
    simp only [levelAt, levels, List.getD_eq_getElem?_getD, h1, Option.getD_some]
  rw [this]
  exact ⟨h4, h2, h3⟩

/-! ### (a) the tree used at a level depends only on the position of that level -/

theorem childLevel_key_congr (H : HashFn) (a b : Level) (p : HssParam) (q q' : Nat) (hk : a.key = b.key)
    (hq : a.q = b.q) : (childLevel H a p q).key = (childLevel H b p q').key := by
  simp only [childLevel, hk, hq]

/-- the keys of the levels below two parents with the same tree and the same leaf coincide as long as the leaf
vectors coincide on the levels in between -/
theorem childrenOf_key_congr (H : HashFn) (lv lv' : List Nat) : ∀ (rest : List HssParam) (i : Nat) (a b : Level)
    (j : Nat), a.key = b.key → a.q = b.q → (∀ t, t < j → lv.getD (i + t) 0 = lv'.getD (i + t) 0) →
    ((childrenOf H lv i a rest)[j]?).map (·.key) = ((childrenOf H lv' i b rest)[j]?).map (·.key) := by
  intro rest
  induction rest with
  | nil => intro i a b j _ _ _; simp [childrenOf]
  | cons p rest ih =>
    intro i a b j hk hq hlv
    cases j with
    | zero =>
      simp only [childrenOf, List.getElem?_cons_zero, Option.map_some]
      rw [childLevel_key_congr H a b p _ _ hk hq]
    | succ j =>
      simp only [childrenOf, List.getElem?_cons_succ]
      refine ih (i + 1) _ _ j (childLevel_key_congr H a b p _ _ hk hq) ?_ ?_
      · have := hlv 0 (Nat.succ_pos j)
        simpa [childLevel] using this
      · intro t ht
        have := hlv (t + 1) (by omega)
        have e : i + 1 + t = i + (t + 1) := by omega
        rw [e]; exact this

/-- (a) If the positions of level `j` under the counters `c` and `c'` coincide, the two expanded keys use the same
tree at level `j`: same seed, same identifier `I`, same parameters. -/
theorem levelAt_key_of_pos (H : HashFn) (seed : Bytes) (p0 : HssParam) (rest : List HssParam) (c c' j : Nat)
    (h : pos (heights p0 rest) c j = pos (heights p0 rest) c' j) :
    (levelAt H seed p0 rest c j).key = (levelAt H seed p0 rest c' j).key := by
  cases j with
  | zero => rfl
  | succ j =>
    have hlv : ∀ t, t < j + 1 →
        (leafVector (p0 :: rest) c).getD t 0 = (leafVector (p0 :: rest) c').getD t 0 :=
      fun t ht => getD_of_take_eq h ht
    have hk := childrenOf_key_congr H (leafVector (p0 :: rest) c) (leafVector (p0 :: rest) c') rest 1
      (topLevel H seed p0 rest c) (topLevel H seed p0 rest c') j rfl (hlv 0 (Nat.succ_pos j))
      (fun t ht => hlv (1 + t) (by omega))
    unfold levelAt levels lowerLevels
    rw [List.getD_cons_succ, List.getD_cons_succ, List.getD_eq_getElem?_getD, List.getD_eq_getElem?_getD]
    cases h1 : (childrenOf H (leafVector (p0 :: rest) c) 1 (topLevel H seed p0 rest c) rest)[j]? <;>
      cases h2 : (childrenOf H (leafVector (p0 :: rest) c') 1 (topLevel H seed p0 rest c') rest)[j]? <;>
      simp only [h1, h2, Option.map_none, Option.map_some, Option.some.injEq, reduceCtorEq] at hk
    · rfl
    · exact hk

/-- (a), identifiers: equal positions give equal tree identifiers -/
theorem idAt_of_pos (H : HashFn) (seed : Bytes) (p0 : HssParam) (rest : List HssParam) (c c' j : Nat)
    (h : pos (heights p0 rest) c j = pos (heights p0 rest) c' j) :
    idAt H seed p0 rest c j = idAt H seed p0 rest c' j := by
  unfold idAt; rw [levelAt_key_of_pos H seed p0 rest c c' j h]

/-! ### (b) the content signed at a level -/

/-- what level `j` signs in the signature released for `(c, msg)`: an upper level (`j < L-1`) signs the serialised LMS
public key of level `j+1`, the bottom level signs the message -/
def signedContent (H : HashFn) (seed : Bytes) (p0 : HssParam) (rest : List HssParam) (c : Nat) (msg : Bytes)
    (j : Nat) : Bytes :=
  if j < rest.length then pkBytes H (levelAt H seed p0 rest c (j + 1)).key else msg

/-- the randomizer with which level `j` signs -/
def randomizerAt (H : HashFn) (seed : Bytes) (p0 : HssParam) (rest : List HssParam) (c j : Nat) : Bytes :=
  if j < rest.length then linkC H (levelAt H seed p0 rest c j) else msgC H (levelAt H seed p0 rest c j)

/-- the LMS signature made by level `j` in the signature released for `(c, msg)` -/
def levelSig (H : HashFn) (seed : Bytes) (p0 : HssParam) (rest : List HssParam) (c : Nat) (msg : Bytes)
    (j : Nat) : Bytes :=
  lmsSigBytes H (levelAt H seed p0 rest c j).key (levelAt H seed p0 rest c j).q
    (signedContent H seed p0 rest c msg j) (randomizerAt H seed p0 rest c j)

/-- (b) the content signed at an upper level depends only on the position of the level below it -/
theorem signedContent_of_pos_succ (H : HashFn) (seed : Bytes) (p0 : HssParam) (rest : List HssParam) (c c' : Nat)
    (msg msg' : Bytes) (j : Nat) (hj : j < rest.length)
    (h : pos (heights p0 rest) c (j + 1) = pos (heights p0 rest) c' (j + 1)) :
    signedContent H seed p0 rest c msg j = signedContent H seed p0 rest c' msg' j := by
  simp only [signedContent, hj, if_true]
  rw [levelAt_key_of_pos H seed p0 rest c c' (j + 1) h]

/-- (b) two signatures whose one-time key position at an upper level `j` coincides (same position, same leaf) sign
the same content at that level -/
theorem signedContent_of_otk_position (H : HashFn) (seed : Bytes) (p0 : HssParam) (rest : List HssParam) (c c' : Nat)
    (msg msg' : Bytes) (j : Nat) (hj : j < rest.length)
    (hp : pos (heights p0 rest) c j = pos (heights p0 rest) c' j)
    (hq : leafAt (heights p0 rest) c j = leafAt (heights p0 rest) c' j) :
    signedContent H seed p0 rest c msg j = signedContent H seed p0 rest c' msg' j :=
  signedContent_of_pos_succ H seed p0 rest c c' msg msg' j hj
    (pos_succ_congr _ c c' j (by simp [heights]; omega) hp hq)

/-- ... and, the randomizer being derived from the tree and the leaf, they carry the very same LMS signature there -/
theorem levelSig_of_otk_position (H : HashFn) (seed : Bytes) (p0 : HssParam) (rest : List HssParam) (c c' : Nat)
    (msg msg' : Bytes) (j : Nat) (hj : j < rest.length)
    (hp : pos (heights p0 rest) c j = pos (heights p0 rest) c' j)
    (hq : leafAt (heights p0 rest) c j = leafAt (heights p0 rest) c' j) :
    levelSig H seed p0 rest c msg j = levelSig H seed p0 rest c' msg' j := by
  have hjL : j < (p0 :: rest).length := by simp; omega
  have hk := levelAt_key_of_pos H seed p0 rest c c' j hp
  have hq' : (levelAt H seed p0 rest c j).q = (levelAt H seed p0 rest c' j).q := by
    rw [(levelAt_q H seed p0 rest c j hjL).1, (levelAt_q H seed p0 rest c' j hjL).1, hq]
  have hc := signedContent_of_otk_position H seed p0 rest c c' msg msg' j hj hp hq
  simp only [levelSig, randomizerAt, hj, if_true, linkC, hk, hq', hc]

/-! ### the released bytes, level by level -/

theorem lastLevel_eq_getD : ∀ (cs : List Level) (parent d : Level),
    lastLevel parent cs = (parent :: cs).getD cs.length d := by
  intro cs
  induction cs with
  | nil => intro _ _; rfl
  | cons c cs ih => intro parent d; simp only [lastLevel, List.length_cons, List.getD_cons_succ]; exact ih c d

theorem bottomLevel_eq_levelAt (H : HashFn) (seed : Bytes) (p0 : HssParam) (rest : List HssParam) (c : Nat) :
    bottomLevel H seed p0 rest c = levelAt H seed p0 rest c rest.length := by
  have hl : (lowerLevels H seed p0 rest c).length = rest.length := childrenOf_length _ _ _ _ _
  unfold bottomLevel levelAt levels
  rw [lastLevel_eq_getD _ _ (topLevel H seed p0 rest c), hl]

/-- The released signature, level by level: `u32 (L-1)`, then for every upper level `i` the LMS signature by level
`i`'s tree at leaf `q_i` over `signedContent i` followed by that content (the public key of level `i+1`), then the LMS
signature by the bottom tree at leaf `q_{L-1}` over `signedContent (L-1)` = the message. -/
theorem hssSigBytes_by_levels (H : HashFn) (seed : Bytes) (p0 : HssParam) (rest : List HssParam) (c : Nat)
    (msg : Bytes) :
    hssSigBytes H seed p0 rest c msg =
      Bytes.u32be rest.length ++
        ((List.range rest.length).map fun i =>
          levelSig H seed p0 rest c msg i ++ signedContent H seed p0 rest c msg i).flatten ++
        levelSig H seed p0 rest c msg rest.length ∧
    signedContent H seed p0 rest c msg rest.length = msg := by
  have hl : (lowerLevels H seed p0 rest c).length = rest.length := childrenOf_length _ _ _ _ _
  refine ⟨?_, by simp [signedContent]⟩
  unfold hssSigBytes
  rw [spkBytes_indexed H _ _ (topLevel H seed p0 rest c), hl, bottomLevel_eq_levelAt]
  have e1 : ((List.range rest.length).map fun i =>
      lmsSigBytes H ((topLevel H seed p0 rest c :: lowerLevels H seed p0 rest c).getD i (topLevel H seed p0 rest c)).key
          ((topLevel H seed p0 rest c :: lowerLevels H seed p0 rest c).getD i (topLevel H seed p0 rest c)).q
          (pkBytes H ((topLevel H seed p0 rest c :: lowerLevels H seed p0 rest c).getD (i + 1) (topLevel H seed p0 rest c)).key)
          (linkC H ((topLevel H seed p0 rest c :: lowerLevels H seed p0 rest c).getD i (topLevel H seed p0 rest c))) ++
        pkBytes H ((topLevel H seed p0 rest c :: lowerLevels H seed p0 rest c).getD (i + 1) (topLevel H seed p0 rest c)).key)
      = (List.range rest.length).map fun i =>
          levelSig H seed p0 rest c msg i ++ signedContent H seed p0 rest c msg i := by
    apply List.map_congr_left
    intro i hi
    have hi' : i < rest.length := List.mem_range.mp hi
    simp only [levelSig, signedContent, randomizerAt, hi', if_true, levelAt, levels]
  have e2 : lmsSigBytes H (levelAt H seed p0 rest c rest.length).key (levelAt H seed p0 rest c rest.length).q msg
      (msgC H (levelAt H seed p0 rest c rest.length)) = levelSig H seed p0 rest c msg rest.length := by
    simp only [levelSig, signedContent, randomizerAt, Nat.lt_irrefl, if_false]
  rw [e1, e2]

/-! ### the tree of a position in closed form (hash-sigs derivation chain) -/

/-- one step down the hierarchy: the child tree below leaf `q` of the tree `(seed, I)` -/
def childTree (H : HashFn) (t : Bytes × Bytes) (q : Nat) : Bytes × Bytes :=
  (Spec.HashSigs.childSeed H t.1 t.2 q, Spec.HashSigs.childI H t.1 t.2 q)

/-- `(SEED, I)` of the tree at a position (a path of leaves from the top tree): iterate the child derivation from the
top seed -/
def treeAt (H : HashFn) (seed : Bytes) (path : List Nat) : Bytes × Bytes :=
  path.foldl (childTree H) (Spec.HashSigs.topSeed H seed)

/-! ### sessions: every log entry was released by one call of the session -/

/-- two lists related element by element -/
inductive Matched {α β : Type} (R : α → β → Prop) : List α → List β → Prop
  | nil : Matched R [] []
  | cons {a : α} {b : β} {as : List α} {bs : List β} : R a b → Matched R as bs → Matched R (a :: as) (b :: bs)

/-- every log entry `(sk, sig)` of a session was released by a call of the session, made with the key `sk`; the
releasing calls form a sublist of the session's calls (same order, each call releasing at most once) -/
theorem session_log_calls (H : HashFn) (cfg : Config) : ∀ (calls : List Call) (sk skN : Bytes)
    (log : List (Bytes × Bytes)), session H cfg sk calls = .ok (skN, log) →
    ∃ rel : List Call, rel.Sublist calls ∧
      Matched (fun (e : Bytes × Bytes) (c : Call) =>
        ∃ o, hssSign H cfg c.msg e.1 c.cb c.aux = .ok o ∧ o.result = some e.2) log rel := by
  intro calls
  induction calls with
  | nil =>
    intro sk skN log h
    simp only [session, pure, Except.pure, Except.ok.injEq, Prod.mk.injEq] at h
    obtain ⟨_, rfl⟩ := h
    exact ⟨[], List.Sublist.refl _, .nil⟩
  | cons c calls ih =>
    intro sk skN log h
    simp only [session, bind, Except.bind, pure, Except.pure] at h
    cases h1 : callOnce H cfg sk c with
    | error e => simp [h1] at h
    | ok r1 =>
      obtain ⟨sk1, r⟩ := r1
      simp only [h1] at h
      cases h2 : session H cfg sk1 calls with
      | error e => simp [h2] at h
      | ok r2 =>
        obtain ⟨sk2, log2⟩ := r2
        simp only [h2, Except.ok.injEq, Prod.mk.injEq] at h
        obtain ⟨_, hlog⟩ := h
        obtain ⟨rel, hsub, hm⟩ := ih sk1 sk2 log2 h2
        cases r with
        | none =>
          refine ⟨rel, List.Sublist.cons _ hsub, ?_⟩
          rw [← hlog]; simpa using hm
        | some sig =>
          refine ⟨c :: rel, List.Sublist.cons_cons _ hsub, ?_⟩
          rw [← hlog]
          simp only [List.cons_append, List.nil_append]
          refine .cons ?_ hm
          unfold callOnce at h1
          cases ho : hssSign H cfg c.msg sk c.cb c.aux with
          | error e => simp [ho, bind, Except.bind] at h1
          | ok o =>
            simp only [ho, bind, Except.bind, pure, Except.pure, Except.ok.injEq, Prod.mk.injEq] at h1
            exact ⟨o, rfl, h1.2⟩

/-- one released signature of a session: the counter of the key it was made with, the signed message, the bytes -/
structure Release where
  counter : Nat
  msg : Bytes
  sig : Bytes

/-- re-pairing: if the keys of the log entries are `f` of the counters `cs`, the log is the image of a list of
releases with these counters, each matched by a releasing call with its message -/
theorem matched_releases {P : Bytes × Bytes → Call → Prop} (f : Nat → Bytes) :
    ∀ (log : List (Bytes × Bytes)) (rel : List Call), Matched P log rel →
    ∀ cs : List Nat, log.map (·.1) = cs.map f →
    ∃ rels : List Release, log = rels.map (fun r => (f r.counter, r.sig)) ∧ rels.map (·.counter) = cs ∧
      ∀ r ∈ rels, ∃ c ∈ rel, c.msg = r.msg ∧ P (f r.counter, r.sig) c := by
  intro log rel hm
  induction hm with
  | nil =>
    intro cs hcs
    cases cs with
    | nil => exact ⟨[], rfl, rfl, by simp⟩
    | cons _ _ => simp at hcs
  | @cons e c log rel hP _ ih =>
    intro cs hcs
    cases cs with
    | nil => simp at hcs
    | cons n cs =>
      simp only [List.map_cons, List.cons.injEq] at hcs
      obtain ⟨he, hcs⟩ := hcs
      obtain ⟨rels, h1, h2, h3⟩ := ih cs hcs
      refine ⟨⟨n, c.msg, e.2⟩ :: rels, ?_, by simp [h2], ?_⟩
      · simp only [List.map_cons, ← h1, ← he]
      · intro r hr
        rcases List.mem_cons.mp hr with rfl | hr
        · refine ⟨c, by simp, rfl, ?_⟩
          simp only [← he]; exact hP
        · obtain ⟨c', hc', h⟩ := h3 r hr
          exact ⟨c', by simp [hc'], h⟩

/-- in a strictly increasing list an element occurs at one index only -/
theorem index_unique_of_pairwise_lt (l : List Nat) (hp : l.Pairwise (· < ·)) (a b : Nat) (x : Nat)
    (ha : l[a]? = some x) (hb : l[b]? = some x) : a = b := by
  rw [List.pairwise_iff_getElem] at hp
  obtain ⟨ha1, ha2⟩ := List.getElem?_eq_some_iff.mp ha
  obtain ⟨hb1, hb2⟩ := List.getElem?_eq_some_iff.mp hb
  rcases Nat.lt_trichotomy a b with h | h | h
  · have := hp a b ha1 hb1 h; omega
  · exact h
  · have := hp b a hb1 ha1 h; omega

end Lemmas.Positions

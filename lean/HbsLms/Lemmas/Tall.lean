/-
All key shapes, including the tall ones (total height 64 and above, e.g. three H25 trees): what the model's
successor (`Impl.incrementCounter`), the abstract key machine (`Spec.step` / `Spec.run`), the lifetime loop
(`Impl.lifetimeOf`) and sessions of `Impl.hssSign` calls do when `2 ^ hs.sum` does not fit the 64-bit counter.

Findings (all proved below):
* successor: `c + 1` while `c + 1 < capacity hs`, wiped afterwards, with `capacity hs = 2 ^ min hs.sum 64`
  (so for tall shapes EVERY value of the 8-byte counter, including `2^64 - 1`, is used for one signature and the
  key is wiped by the signing call made at counter `2^64 - 1`);
* lifetime: `lifetimeOf hs qs = min (life hs qs) (2^64 - 1)` for every shape, i.e. the closed form of
  Lemmas/Lifetime.lean saturated at `u64::MAX`.
-/
import HbsLms.Lemmas.Lifetime
import HbsLms.Lemmas.History

namespace Lemmas

open Impl Spec Generated

/-! ### capacity -/

/-- number of signatures a fresh key of shape `hs` can release in the model: the number of leaves, capped at the
number of values of the 64-bit counter -/
def capacity (hs : List Nat) : Nat := 2 ^ min hs.sum 64

theorem capacity_pos (hs : List Nat) : 0 < capacity hs := Nat.two_pow_pos _

theorem capacity_le63 (hs : List Nat) (h : hs.sum ≤ 63) : capacity hs = 2 ^ hs.sum := by
  unfold capacity
  rw [Nat.min_eq_left (by omega)]

theorem capacity_le64 (hs : List Nat) (h : hs.sum ≤ 64) : capacity hs = 2 ^ hs.sum := by
  unfold capacity
  rw [Nat.min_eq_left h]

theorem capacity_tall (hs : List Nat) (h : 64 ≤ hs.sum) : capacity hs = 2 ^ 64 := by
  unfold capacity
  rw [Nat.min_eq_right h]

theorem capacity_le_u64 (hs : List Nat) : capacity hs ≤ 2 ^ 64 :=
  Nat.pow_le_pow_right (by omega) (Nat.min_le_right _ _)

theorem capacity_le_leaves (hs : List Nat) : capacity hs ≤ 2 ^ hs.sum :=
  Nat.pow_le_pow_right (by omega) (Nat.min_le_left _ _)

theorem capacity_eq_min (hs : List Nat) : capacity hs = min (2 ^ hs.sum) (2 ^ 64) := by
  by_cases h : hs.sum ≤ 64
  · have : 2 ^ hs.sum ≤ 2 ^ 64 := Nat.pow_le_pow_right (by omega) h
    rw [capacity_le64 hs h, Nat.min_eq_left this]
  · have : 2 ^ 64 ≤ 2 ^ hs.sum := Nat.pow_le_pow_right (by omega) (by omega)
    rw [capacity_tall hs (by omega), Nat.min_eq_right this]

/-- shapes of total height 65 and above have strictly more leaves than the counter has values -/
theorem capacity_lt_leaves (hs : List Nat) (h : 65 ≤ hs.sum) : capacity hs < 2 ^ hs.sum := by
  rw [capacity_tall hs (by omega)]
  exact Nat.pow_lt_pow_right (by omega) (by omega)

/-! ### successor and the abstract machine, every shape -/

/-- successor for every shape -/
theorem incrementCounter_all (hs : List Nat) (c : Nat) :
    incrementCounter hs c = if c + 1 < capacity hs then some (c + 1) else none := by
  by_cases h : hs.sum ≤ 63
  · rw [incrementCounter_le63 hs c h, capacity_le63 hs h]
  · rw [incrementCounter_ge64 hs c (by omega), capacity_tall hs (by omega)]

theorem step_accept_all (hs : List Nat) (c : Nat) :
    step hs (.live c) .signAccept
      = (if c + 1 < capacity hs then .live (c + 1) else .wiped, some c) := by
  simp only [step, incrementCounter_all hs c]
  by_cases h : c + 1 < capacity hs <;> simp [h]

/-- every history from a live counter below the capacity, in closed form -/
theorem run_live_all (hs : List Nat) (ops : List Op) (c : Nat) (hc : c < capacity hs) :
    run hs (.live c) ops
      = (if c + min (accepts ops) (capacity hs - c) < capacity hs
          then .live (c + min (accepts ops) (capacity hs - c)) else .wiped,
         List.range' c (min (accepts ops) (capacity hs - c))) := by
  generalize hN : capacity hs = N at hc
  induction ops generalizing c with
  | nil => simp [run_nil, accepts, hc]
  | cons op ops ih =>
    by_cases hop : op = .signAccept
    · subst hop
      rw [run_cons, step_accept_all hs c, hN, accepts_cons_accept]
      by_cases h1 : c + 1 < N
      · simp only [h1, if_true, ih (c + 1) h1, Option.toList_some]
        have hk : min (accepts ops + 1) (N - c) = min (accepts ops) (N - (c + 1)) + 1 := by omega
        rw [hk, List.range'_succ, Nat.add_assoc c, Nat.add_comm 1]
        rfl
      · simp only [h1, if_false, run_wiped, Option.toList_some]
        have hk : min (accepts ops + 1) (N - c) = 1 := by omega
        rw [hk]
        simp [h1]
    · rw [run_cons, step_other hs _ op hop, accepts_cons_other op ops hop]
      simp [ih c hc]

/-- every history of a fresh key, every shape -/
theorem run_fresh_all (hs : List Nat) (ops : List Op) :
    run hs (.live 0) ops
      = (if min (accepts ops) (capacity hs) < capacity hs then .live (min (accepts ops) (capacity hs)) else .wiped,
         List.range (min (accepts ops) (capacity hs))) := by
  rw [run_live_all hs ops 0 (capacity_pos hs)]
  simp [List.range_eq_range']

theorem accepts_replicate (n : Nat) : accepts (List.replicate n Op.signAccept) = n := by
  simp [accepts]

/-! ### lifetime, every shape: the closed form saturated at `u64::MAX` -/

theorem sat_idem (a : Nat) : sat (sat a) = sat a := by
  unfold sat
  omega

theorem sat_add_congr {a a' b b' : Nat} (ha : sat a = sat a') (hb : sat b = sat b') :
    sat (a + b) = sat (a' + b') := by
  unfold sat at *
  omega

theorem sat_sat_mul (a t : Nat) (ht : 0 < t) : sat (sat a * t) = sat (a * t) := by
  unfold sat
  by_cases h : a ≤ 2 ^ 64 - 1
  · rw [Nat.min_eq_left h]
  · have h1 : 2 ^ 64 - 1 ≤ a := by omega
    rw [Nat.min_eq_right h1]
    have h2 : 2 ^ 64 - 1 ≤ (2 ^ 64 - 1) * t := Nat.le_mul_of_pos_right _ ht
    have h3 : a ≤ a * t := Nat.le_mul_of_pos_right _ ht
    rw [Nat.min_eq_right h2, Nat.min_eq_right (Nat.le_trans h1 h3)]

theorem sat_mul_congr {a a' : Nat} (t : Nat) (ht : 0 < t) (ha : sat a = sat a') : sat (a * t) = sat (a' * t) := by
  rw [← sat_sat_mul a t ht, ha, sat_sat_mul a' t ht]

/-- the product loop for every shape: the saturated product -/
theorem foldl_sizes_sat (hs : List Nat) (x : Nat) :
    sat ((sizes hs).foldl (fun f t => sat (f * t)) x) = sat (x * 2 ^ hs.sum) := by
  induction hs with
  | nil => simp [sizes]
  | cons h hs ih =>
    have hs1 : sizes (h :: hs) = sizes hs ++ [2 ^ h] := by simp [sizes]
    have hpow : 2 ^ (h :: hs).sum = 2 ^ hs.sum * 2 ^ h := by
      rw [List.sum_cons, Nat.pow_add, Nat.mul_comm]
    rw [hs1, List.foldl_append]
    simp only [List.foldl_cons, List.foldl_nil]
    rw [sat_idem, sat_mul_congr (2 ^ h) (Nat.two_pow_pos h) ih, hpow, Nat.mul_assoc]

/-- the fold computes the saturated `life` (and the list of tree sizes) for EVERY shape -/
theorem lifeFold_eq_sat (hs qs : List Nat) (hlen : qs.length = hs.length) :
    lifeFold hs.length hs qs hs.length = (sat (life hs qs), sizes hs) := by
  induction hs generalizing qs with
  | nil => simp [lifeFold, life, sizes, sat]
  | cons h hs ih =>
    cases qs with
    | nil => simp at hlen
    | cons q qs =>
      have hlen' : qs.length = hs.length := by simpa using hlen
      rw [List.length_cons, lifeFold_succ, ih qs hlen']
      have hs1 : sizes (h :: hs) = sizes hs ++ [2 ^ h] := by simp [sizes]
      cases hs with
      | nil =>
        simp only [lifeStep, life, sizes, List.length_nil, List.getD_cons_zero]
        simp only [Nat.lt_irrefl, if_false, List.map_nil, List.reverse_nil, List.foldl_nil,
          List.nil_append, List.map_cons, List.reverse_cons]
        have : sat 0 = 0 := by simp [sat]
        rw [this, Nat.zero_add]
      | cons h' hs =>
        have hlt : 0 + 1 < (h' :: hs).length + 1 := by simp
        simp only [lifeStep, hlt, if_true, List.getD_cons_zero, hs1]
        have hl : life (h :: h' :: hs) (q :: qs)
            = (2 ^ h - q - 1) * 2 ^ (h' :: hs).sum + life (h' :: hs) qs := by simp [life]
        have hsub : 2 ^ h - (q + 1) = 2 ^ h - q - 1 := by omega
        rw [hl, hsub, Nat.add_comm ((2 ^ h - q - 1) * 2 ^ (h' :: hs).sum)]
        congr 1
        exact sat_add_congr (sat_idem _) (foldl_sizes_sat _ _)

/-- `lifetimeOf` is the saturated `life` for every shape and every leaf vector of the right length -/
theorem lifetimeOf_eq_sat_life (hs qs : List Nat) (hlen : qs.length = hs.length) :
    lifetimeOf hs qs = sat (life hs qs) := by
  rw [lifetimeOf_eq_lifeFold, lifeFold_eq_sat hs qs hlen]

/-- the reported lifetime of the key with counter `c`, every shape -/
theorem lifetime_all (hs : List Nat) (c : Nat) (hne : hs ≠ []) (hc : c < 2 ^ hs.sum) :
    lifetimeOf hs (mixedRadix hs c) = min (2 ^ hs.sum - c) (2 ^ 64 - 1) := by
  rw [lifetimeOf_eq_sat_life hs _ (mixedRadix_length hs c), life_mixedRadix hs c hne, Nat.mod_eq_of_lt hc]
  rfl

/-! ### sessions of signing calls, every shape -/

/-- the states a key of shape `hs` can be in: a counter below the capacity, or wiped -/
def validStateCap (hs : List Nat) : KeyState → Prop
  | .live c => c < capacity hs
  | .wiped => True

theorem validStateCap_step (hs : List Nat) (s : KeyState) (op : Op) (hv : validStateCap hs s) :
    validStateCap hs (step hs s op).1 := by
  by_cases hop : op = .signAccept
  · subst hop
    cases s with
    | wiped => exact trivial
    | live c =>
      rw [step_accept_all hs c]
      by_cases h : c + 1 < capacity hs
      · simp only [h, if_true]; exact h
      · simp only [h, if_false]; exact trivial
  · rw [step_other hs s op hop]; exact hv

theorem validStateCap_run (hs : List Nat) (ops : List Op) (s : KeyState) (hv : validStateCap hs s) :
    validStateCap hs (run hs s ops).1 := by
  induction ops generalizing s with
  | nil => exact hv
  | cons op ops ih => rw [run_cons]; exact ih _ (validStateCap_step hs s op hv)

theorem parse_keyOfState_cap (n : Nat) (k0 : RefKey) (hs : List Nat) (hp8 : k0.params.length = 8)
    (hseed : k0.seed.length = n) (s : KeyState) (hv : validStateCap hs s) :
    RefKey.parse n (keyOfState k0 n s).bytes = some (keyOfState k0 n s) := by
  cases s with
  | wiped =>
    apply parse_bytes <;> simp [keyOfState, RefKey.wiped, REF_IMPL_MAX_ALLOWED_HSS_LEVELS, Bytes.zeros]
  | live c =>
    have h64 := capacity_le_u64 hs
    have hc : c < capacity hs := hv
    apply parse_bytes
    · exact hp8
    · exact hseed
    · show c < 2 ^ 64
      omega

theorem foldl_toNat_lt (b : Bytes) (a : Nat) :
    b.foldl (fun a x => a * 256 + x.toNat) a < (a + 1) * 256 ^ b.length := by
  induction b generalizing a with
  | nil => simp
  | cons x b ih =>
    simp only [List.foldl_cons, List.length_cons]
    have hx : x.toNat < 256 := UInt8.toNat_lt _
    have h1 := ih (a * 256 + x.toNat)
    have h2 : (a * 256 + x.toNat + 1) * 256 ^ b.length ≤ ((a + 1) * 256) * 256 ^ b.length :=
      Nat.mul_le_mul_right _ (by omega)
    rw [Nat.pow_succ, Nat.mul_comm (256 ^ b.length) 256, ← Nat.mul_assoc]
    omega

/-- the counter of every key blob the parser accepts fits 64 bits -/
theorem parse_counter_lt {n : Nat} {data : Bytes} {k : RefKey} (h : RefKey.parse n data = some k) :
    k.counter < 2 ^ 64 := by
  obtain ⟨hl, _, _, hk⟩ := parse_some h
  subst hk
  show Bytes.toNat (data.take 8) < 2 ^ 64
  have := foldl_toNat_lt (data.take 8) 0
  have hlen : (data.take 8).length = 8 := by simp [List.length_take]; omega
  rw [hlen] at this
  unfold Bytes.toNat
  omega

/-- one call of a session is one step of the abstract machine on the encoded state, for every shape -/
theorem callOnce_sim_all {H : HashFn} {cfg : Config} {k0 : RefKey} {ps : List HssParam}
    (hp8 : k0.params.length = 8) (hseed : k0.seed.length = H.n)
    (hps : paramsOfBytes cfg H.n k0.params = some ps)
    (s : KeyState) (hv : validStateCap (ps.map (·.lms.h)) s) (c : Call) (sk' : Bytes) (r : Option Bytes)
    (h : callOnce H cfg (keyOfState k0 H.n s).bytes c = .ok (sk', r)) :
    ∃ op, sk' = (keyOfState k0 H.n (step (ps.map (·.lms.h)) s op).1).bytes ∧
      ∀ sig, r = some sig → ∃ cnt, s = .live cnt ∧ (step (ps.map (·.lms.h)) s op).2 = some cnt := by
  have hparse := parse_keyOfState_cap H.n k0 _ hp8 hseed s hv
  unfold callOnce at h
  cases ho : hssSign H cfg c.msg (keyOfState k0 H.n s).bytes c.cb c.aux with
  | error e => simp [ho, bind, Except.bind] at h
  | ok o =>
    simp only [ho, bind, Except.bind, pure, Except.pure, Except.ok.injEq, Prod.mk.injEq] at h
    obtain ⟨hsk, hr⟩ := h
    obtain ⟨p, hp, ho'⟩ := hssSign_parsed hparse ho
    cases p with
    | failed a rr =>
      refine ⟨.signFail, ?_, ?_⟩
      · rw [step_other _ _ _ (by decide), ← hsk, ho']; rfl
      · intro sig hsig; rw [← hr, ho'] at hsig; cases hsig
    | ready hs' sig a rr =>
      cases s with
      | wiped =>
        exfalso
        obtain ⟨ps', hps', _⟩ := signPrepare_ready_shape hp
        have : paramsOfBytes cfg H.n (RefKey.wiped H.n).params = some ps' := hps'
        rw [wiped_params_unusable] at this
        cases this
      | live cnt =>
        obtain ⟨ps', hps', _, hhs', _⟩ := signPrepare_ready_shape hp
        have : paramsOfBytes cfg H.n k0.params = some ps' := hps'
        rw [hps] at this
        cases this
        subst hhs'
        have hinc : (keyOfState k0 H.n (.live cnt)).increment H.n (ps.map (·.lms.h))
            = keyOfState k0 H.n (step (ps.map (·.lms.h)) (.live cnt) .signAccept).1 := by
          rw [increment_eq_step]; exact keyOfState_counter k0 H.n cnt _
        by_cases hcb : c.cb ((keyOfState k0 H.n (.live cnt)).increment H.n (ps.map (·.lms.h))).bytes = true
        · refine ⟨.signAccept, ?_, ?_⟩
          · rw [← hsk, ho', ← hinc]
            simp only [signCommit_ready_trace, hcb, if_true]
          · intro sg _
            exact ⟨cnt, rfl, rfl⟩
        · have hf : c.cb ((keyOfState k0 H.n (.live cnt)).increment H.n (ps.map (·.lms.h))).bytes = false := by
            simpa using hcb
          refine ⟨.signReject, ?_, ?_⟩
          · rw [step_other _ _ _ (by decide), ← hsk, ho']
            simp only [signCommit_ready_trace, hf, Bool.false_eq_true, if_false]
          · intro sg hsg
            rw [← hr, ho'] at hsg
            simp [signCommit, hf] at hsg

/-- every session is a history of the abstract machine, for every shape -/
theorem session_sim_all {H : HashFn} {cfg : Config} {k0 : RefKey} {ps : List HssParam}
    (hp8 : k0.params.length = 8) (hseed : k0.seed.length = H.n)
    (hps : paramsOfBytes cfg H.n k0.params = some ps)
    (calls : List Call) :
    ∀ (s : KeyState), validStateCap (ps.map (·.lms.h)) s → ∀ (skN : Bytes) (log : List (Bytes × Bytes)),
      session H cfg (keyOfState k0 H.n s).bytes calls = .ok (skN, log) →
      ∃ (ops : List Op) (cs : List Nat), ops.length = calls.length ∧
        skN = (keyOfState k0 H.n (run (ps.map (·.lms.h)) s ops).1).bytes ∧
        cs.Sublist (run (ps.map (·.lms.h)) s ops).2 ∧
        log.map (·.1) = cs.map (fun c => (keyOfState k0 H.n (.live c)).bytes) := by
  induction calls with
  | nil =>
    intro s _ skN log h
    simp only [session, pure, Except.pure, Except.ok.injEq, Prod.mk.injEq] at h
    obtain ⟨rfl, rfl⟩ := h
    exact ⟨[], [], rfl, rfl, List.Sublist.refl _, rfl⟩
  | cons c calls ih =>
    intro s hv skN log h
    simp only [session, bind, Except.bind, pure, Except.pure] at h
    cases h1 : callOnce H cfg (keyOfState k0 H.n s).bytes c with
    | error e => simp [h1] at h
    | ok r1 =>
      obtain ⟨sk1, r⟩ := r1
      simp only [h1] at h
      obtain ⟨op, hsk1, hrel⟩ := callOnce_sim_all hp8 hseed hps s hv c sk1 r h1
      subst hsk1
      cases h2 : session H cfg (keyOfState k0 H.n (step (ps.map (·.lms.h)) s op).1).bytes calls with
      | error e => simp [h2] at h
      | ok r2 =>
        obtain ⟨sk2, log2⟩ := r2
        simp only [h2, Except.ok.injEq, Prod.mk.injEq] at h
        obtain ⟨rfl, hlog⟩ := h
        obtain ⟨ops, cs, hlen, hsk, hsub, hmap⟩ :=
          ih _ (validStateCap_step _ s op hv) sk2 log2 h2
        cases r with
        | none =>
          refine ⟨op :: ops, cs, by simp [hlen], ?_, ?_, ?_⟩
          · rw [run_cons]; exact hsk
          · rw [run_cons]
            exact List.Sublist.trans hsub (List.sublist_append_right _ _)
          · rw [← hlog]; simpa using hmap
        | some sig =>
          obtain ⟨cnt, rfl, hst⟩ := hrel sig rfl
          refine ⟨op :: ops, cnt :: cs, by simp [hlen], ?_, ?_, ?_⟩
          · rw [run_cons]; exact hsk
          · rw [run_cons, hst]
            exact List.Sublist.cons_cons _ hsub
          · rw [← hlog]; simpa using hmap

end Lemmas

/-
Lemmas for the C16 semantics (`Impl/ZeroizeSem.lean`): list views of the mutual definitions, monotonicity of
`zeroizeVal` / `dropVal`, preservation of typing, the closure property of `owners`, and the two generic
soundness theorems for the side conditions of `Impl/Zeroize.lean`.
-/
import HbsLms.Impl.ZeroizeSem

namespace Impl.ZeroizeSem

open Generated Impl.Zeroize

/-! ### list views -/

theorem zeroizeAll_eq_map (ds : List StructDecl) (vs : List Val) :
    zeroizeAll ds vs = vs.map (zeroizeVal ds) := by
  induction vs with
  | nil => simp [zeroizeAll]
  | cons v vs ih => simp [zeroizeAll, ih]

theorem secretsLeftAll_eq_zero {vs : List Val} :
    secretsLeftAll vs = 0 ↔ ∀ v ∈ vs, secretsLeft v = 0 := by
  induction vs with
  | nil => simp [secretsLeftAll]
  | cons v vs ih => simp [secretsLeftAll, ih]

theorem allFieldWt_iff {ds : List StructDecl} {f : FieldDecl} {vs : List Val} :
    allFieldWt ds f vs = true ↔ ∀ v ∈ vs, fieldWt ds f v = true := by
  induction vs with
  | nil => simp [allFieldWt]
  | cons v vs ih => simp [allFieldWt, ih]

theorem secretsLeftAll_map_le {g : Val → Val} {vs : List Val}
    (h : ∀ v ∈ vs, secretsLeft (g v) ≤ secretsLeft v) :
    secretsLeftAll (vs.map g) ≤ secretsLeftAll vs := by
  induction vs with
  | nil => simp
  | cons v vs ih =>
    simp only [List.map_cons, secretsLeftAll]
    have h1 := h v (by simp)
    have h2 := ih (fun w hw => h w (by simp [hw]))
    omega

theorem secretsLeft_raw_zero (s : Bool) (n : Nat) : secretsLeft (.raw s (List.replicate n 0)) = 0 := by
  simp [secretsLeft, List.countP_replicate]

/-! ### `zeroize()` and `drop` never add secret bytes -/

mutual
theorem secretsLeft_zeroizeVal_le (ds : List StructDecl) :
    ∀ v : Val, secretsLeft (zeroizeVal ds v) ≤ secretsLeft v
  | .raw s n => by rw [zeroizeVal, secretsLeft_raw_zero]; exact Nat.zero_le _
  | .many vs => by
    simp only [zeroizeVal, secretsLeft]
    exact secretsLeftAll_zeroizeAll_le ds vs
  | .struct i fs => by
    unfold zeroizeVal
    split
    · split
      · simp only [secretsLeft]
        exact secretsLeftAll_zeroizeFields_le ds _ fs
      · exact Nat.le_refl _
    · exact Nat.le_refl _
theorem secretsLeftAll_zeroizeAll_le (ds : List StructDecl) :
    ∀ vs : List Val, secretsLeftAll (zeroizeAll ds vs) ≤ secretsLeftAll vs
  | [] => by simp [zeroizeAll]
  | v :: vs => by
    simp only [zeroizeAll, secretsLeftAll]
    have := secretsLeft_zeroizeVal_le ds v
    have := secretsLeftAll_zeroizeAll_le ds vs
    omega
theorem secretsLeftAll_zeroizeFields_le (ds : List StructDecl) :
    ∀ (gs : List FieldDecl) (vs : List Val), secretsLeftAll (zeroizeFields ds gs vs) ≤ secretsLeftAll vs
  | _, [] => by cases ‹List FieldDecl› <;> simp [zeroizeFields]
  | [], _ :: _ => by simp [zeroizeFields]
  | g :: gs, v :: vs => by
    simp only [zeroizeFields, secretsLeftAll]
    have := secretsLeft_zeroizeVal_le ds v
    have := secretsLeftAll_zeroizeFields_le ds gs vs
    split <;> omega
end

theorem secretsLeftAll_preDrop_le (ds : List StructDecl) (i : Nat) (fs : List Val) :
    secretsLeftAll (preDrop ds i fs) ≤ secretsLeftAll fs := by
  unfold preDrop
  split
  · split
    · exact secretsLeftAll_zeroizeFields_le ds _ fs
    · exact Nat.le_refl _
  · exact Nat.le_refl _

theorem secretsLeft_dropVal_le_aux (ds : List StructDecl) :
    ∀ (n : Nat) (v : Val), v.size ≤ n → secretsLeft (dropVal ds v) ≤ secretsLeft v := by
  intro n
  induction n with
  | zero => intro v hv; cases v <;> simp [Val.size] at hv
  | succ n ih =>
    intro v hv
    cases v with
    | raw s bs => rw [dropVal_raw]; exact Nat.le_refl _
    | many vs =>
      rw [dropVal_many]
      simp only [secretsLeft]
      apply secretsLeftAll_map_le
      intro w hw
      apply ih
      have := size_lt_of_mem hw
      simp only [Val.size] at hv
      omega
    | struct i fs =>
      rw [dropVal_struct]
      simp only [secretsLeft]
      refine Nat.le_trans (secretsLeftAll_map_le ?_) (secretsLeftAll_preDrop_le ds i fs)
      intro w hw
      apply ih
      have := size_lt_of_mem hw
      rw [sizeAll_preDrop] at this
      simp only [Val.size] at hv
      omega

/-- dropping a value never adds secret bytes -/
theorem secretsLeft_dropVal_le (ds : List StructDecl) (v : Val) :
    secretsLeft (dropVal ds v) ≤ secretsLeft v :=
  secretsLeft_dropVal_le_aux ds v.size v (Nat.le_refl _)

theorem secretsLeft_dropVal_zero {ds : List StructDecl} {v : Val} (h : secretsLeft v = 0) :
    secretsLeft (dropVal ds v) = 0 :=
  Nat.eq_zero_of_le_zero (h ▸ secretsLeft_dropVal_le ds v)

theorem secretsLeft_zeroizeVal_zero {ds : List StructDecl} {v : Val} (h : secretsLeft v = 0) :
    secretsLeft (zeroizeVal ds v) = 0 :=
  Nat.eq_zero_of_le_zero (h ▸ secretsLeft_zeroizeVal_le ds v)

/-! ### `zeroize()` preserves typing -/

mutual
theorem fieldWt_zeroizeVal (ds : List StructDecl) :
    ∀ (v : Val) (f : FieldDecl), fieldWt ds f (zeroizeVal ds v) = fieldWt ds f v
  | .raw s bs, f => by simp [zeroizeVal, fieldWt]
  | .many vs, f => by
    simp only [zeroizeVal, fieldWt]
    exact allFieldWt_zeroizeAll ds vs f
  | .struct i fs, f => by
    unfold zeroizeVal
    split
    · rename_i d hd
      split
      · simp only [fieldWt, hd, fieldsWt_zeroizeFields ds fs d.fields d.fields]
      · rfl
    · rfl
theorem allFieldWt_zeroizeAll (ds : List StructDecl) :
    ∀ (vs : List Val) (f : FieldDecl), allFieldWt ds f (zeroizeAll ds vs) = allFieldWt ds f vs
  | [], f => by simp [zeroizeAll]
  | v :: vs, f => by
    simp only [zeroizeAll, allFieldWt, fieldWt_zeroizeVal ds v f, allFieldWt_zeroizeAll ds vs f]
theorem fieldsWt_zeroizeFields (ds : List StructDecl) :
    ∀ (vs : List Val) (gs hs : List FieldDecl),
      fieldsWt ds hs (zeroizeFields ds gs vs) = fieldsWt ds hs vs
  | [], gs, hs => by cases gs <;> simp [zeroizeFields]
  | _ :: _, [], hs => by simp [zeroizeFields]
  | v :: vs, g :: gs, [] => by simp [zeroizeFields, fieldsWt]
  | v :: vs, g :: gs, h :: hs => by
    simp only [zeroizeFields, fieldsWt, fieldsWt_zeroizeFields ds vs gs hs]
    split
    · rfl
    · rw [fieldWt_zeroizeVal ds v h]
end

theorem wellTyped_zeroizeVal (ds : List StructDecl) (i : Nat) (fs : List Val) :
    WellTyped ds (zeroizeVal ds (.struct i fs)) = WellTyped ds (.struct i fs) := by
  unfold zeroizeVal
  split
  · rename_i d hd
    split
    · simp only [WellTyped, hd, fieldsWt_zeroizeFields]
    · rfl
  · rfl

/-! ### a `rawSecret` field is cleared completely by `zeroize()` -/

mutual
theorem secretsLeft_zeroizeVal_rawSecret (ds : List StructDecl) (f : FieldDecl) (hf : f.rawSecret = true) :
    ∀ v : Val, fieldWt ds f v = true → secretsLeft (zeroizeVal ds v) = 0
  | .raw s bs, _ => by rw [zeroizeVal, secretsLeft_raw_zero]
  | .many vs, h => by
    simp only [zeroizeVal, secretsLeft]
    simp only [fieldWt] at h
    exact secretsLeftAll_zeroizeAll_rawSecret ds f hf vs h
  | .struct i fs, h => by simp [fieldWt, hf] at h
theorem secretsLeftAll_zeroizeAll_rawSecret (ds : List StructDecl) (f : FieldDecl) (hf : f.rawSecret = true) :
    ∀ vs : List Val, allFieldWt ds f vs = true → secretsLeftAll (zeroizeAll ds vs) = 0
  | [], _ => by simp [zeroizeAll, secretsLeftAll]
  | v :: vs, h => by
    simp only [allFieldWt, Bool.and_eq_true] at h
    simp only [zeroizeAll, secretsLeftAll, secretsLeft_zeroizeVal_rawSecret ds f hf v h.1,
      secretsLeftAll_zeroizeAll_rawSecret ds f hf vs h.2]
end

/-! ### `owners ds` is closed under `ownersStep` (the iteration has reached its fixed point) -/

/-- the selection predicate of `ownersStep` -/
def ownPred (acc : List Nat) (d : StructDecl) : Bool := d.fields.any (fieldSecret acc)

theorem ownersStep_eq (ds : List StructDecl) (acc : List Nat) :
    ownersStep ds acc = (ds.filter (ownPred acc)).map (·.idx) := rfl

theorem ownPred_mono {acc acc' : List Nat} (h : ∀ x ∈ acc, x ∈ acc') {d : StructDecl}
    (hd : ownPred acc d = true) : ownPred acc' d = true := by
  simp only [ownPred, fieldSecret, List.any_eq_true, Bool.or_eq_true, List.contains_iff_mem] at hd ⊢
  obtain ⟨f, hf, h1⟩ := hd
  refine ⟨f, hf, ?_⟩
  rcases h1 with h1 | ⟨j, hj, hj'⟩
  · exact Or.inl h1
  · exact Or.inr ⟨j, hj, h j hj'⟩

/-- stage `k` of the iteration, as a predicate on declarations -/
def stagePred (ds : List StructDecl) : Nat → StructDecl → Bool
  | 0 => fun _ => false
  | k+1 => ownPred ((ds.filter (stagePred ds k)).map (·.idx))

def ownersIter (ds : List StructDecl) (k : Nat) : List Nat :=
  (List.range k).foldl (fun acc _ => ownersStep ds acc) []

theorem ownersIter_succ (ds : List StructDecl) (k : Nat) :
    ownersIter ds (k+1) = ownersStep ds (ownersIter ds k) := by
  simp [ownersIter, List.range_succ, List.foldl_append]

theorem ownersIter_eq (ds : List StructDecl) (k : Nat) :
    ownersIter ds k = (ds.filter (stagePred ds k)).map (·.idx) := by
  induction k with
  | zero => simp [ownersIter, stagePred]
  | succ k ih => rw [ownersIter_succ, ih, ownersStep_eq]; rfl

theorem stagePred_mono (ds : List StructDecl) :
    ∀ (k : Nat) (d : StructDecl), stagePred ds k d = true → stagePred ds (k+1) d = true := by
  intro k
  induction k with
  | zero => intro d h; simp [stagePred] at h
  | succ k ih =>
    intro d h
    refine ownPred_mono ?_ h
    intro x hx
    simp only [List.mem_map, List.mem_filter] at hx ⊢
    obtain ⟨d', ⟨hd', hq⟩, rfl⟩ := hx
    exact ⟨d', ⟨hd', ih d' hq⟩, rfl⟩

theorem filter_length_mono {α : Type} {p p' : α → Bool} (h : ∀ a, p a = true → p' a = true) (l : List α) :
    (l.filter p).length ≤ (l.filter p').length ∧
      ((l.filter p).length = (l.filter p').length → l.filter p = l.filter p') := by
  induction l with
  | nil => simp
  | cons a l ih =>
    obtain ⟨ih1, ih2⟩ := ih
    cases hp : p a <;> cases hp' : p' a
    · simpa [List.filter_cons, hp, hp'] using ⟨ih1, ih2⟩
    · simp only [List.filter_cons, hp, hp', Bool.false_eq_true, ↓reduceIte, List.length_cons]
      refine ⟨by omega, ?_⟩
      intro he
      omega
    · rw [h a hp] at hp'; cases hp'
    · simp only [List.filter_cons, hp, hp', ↓reduceIte, List.length_cons]
      refine ⟨by omega, ?_⟩
      intro he
      rw [ih2 (by omega)]

theorem stage_stable_step (ds : List StructDecl) (k : Nat)
    (h : ds.filter (stagePred ds k) = ds.filter (stagePred ds (k+1))) :
    ds.filter (stagePred ds (k+1)) = ds.filter (stagePred ds (k+2)) := by
  have : stagePred ds (k+2) = stagePred ds (k+1) := by
    show ownPred ((ds.filter (stagePred ds (k+1))).map (·.idx)) = ownPred ((ds.filter (stagePred ds k)).map (·.idx))
    rw [h]
  rw [this]

theorem stage_stable (ds : List StructDecl) (k : Nat)
    (h : ds.filter (stagePred ds k) = ds.filter (stagePred ds (k+1))) :
    ∀ m, ds.filter (stagePred ds (k+m)) = ds.filter (stagePred ds (k+m+1)) := by
  intro m
  induction m with
  | zero => exact h
  | succ m ih => exact stage_stable_step ds (k+m) ih

theorem stage_growth (ds : List StructDecl) :
    ∀ k, (∃ j, j < k ∧ ds.filter (stagePred ds j) = ds.filter (stagePred ds (j+1))) ∨
      k ≤ (ds.filter (stagePred ds k)).length := by
  intro k
  induction k with
  | zero => exact Or.inr (Nat.zero_le _)
  | succ k ih =>
    rcases ih with ⟨j, hj, he⟩ | hk
    · exact Or.inl ⟨j, by omega, he⟩
    · have hm := filter_length_mono (stagePred_mono ds k) ds
      by_cases he : ds.filter (stagePred ds k) = ds.filter (stagePred ds (k+1))
      · exact Or.inl ⟨k, by omega, he⟩
      · right
        have : (ds.filter (stagePred ds k)).length ≠ (ds.filter (stagePred ds (k+1))).length :=
          fun hl => he (hm.2 hl)
        omega

/-- the closure has converged after `ds.length` steps: one more step changes nothing -/
theorem ownersStep_owners (ds : List StructDecl) : ownersStep ds (owners ds) = owners ds := by
  have h1 : owners ds = ownersIter ds ds.length := rfl
  rw [h1, ← ownersIter_succ, ownersIter_eq, ownersIter_eq]
  rcases stage_growth ds (ds.length + 1) with ⟨j, hj, he⟩ | hk
  · have := stage_stable ds j he (ds.length - j)
    have e : j + (ds.length - j) = ds.length := by omega
    rw [e] at this
    rw [this]
  · have := List.length_filter_le (stagePred ds (ds.length + 1)) ds
    omega

theorem declAt_some {ds : List StructDecl} {i : Nat} {d : StructDecl} (h : declAt ds i = some d) :
    d ∈ ds ∧ d.idx = i := by
  unfold declAt at h
  refine ⟨List.mem_of_find?_eq_some h, ?_⟩
  have := List.find?_some h
  simpa using this

/-- a declared struct with a secret-carrying field is in `owners ds` -/
theorem mem_owners_of_fieldSecret {ds : List StructDecl} {i : Nat} {d : StructDecl}
    (h : declAt ds i = some d) {f : FieldDecl} (hf : f ∈ d.fields)
    (hs : fieldSecret (owners ds) f = true) : i ∈ owners ds := by
  obtain ⟨hd, hi⟩ := declAt_some h
  rw [← ownersStep_owners, ownersStep_eq]
  simp only [List.mem_map, List.mem_filter]
  refine ⟨d, ⟨hd, ?_⟩, hi⟩
  simp only [ownPred, List.any_eq_true]
  exact ⟨f, hf, hs⟩

theorem fieldSecret_false_of_not_mem {ds : List StructDecl} {i : Nat} {d : StructDecl}
    (h : declAt ds i = some d) (hi : ¬ i ∈ owners ds) {f : FieldDecl} (hf : f ∈ d.fields) :
    fieldSecret (owners ds) f = false := by
  cases hs : fieldSecret (owners ds) f
  · rfl
  · exact absurd (mem_owners_of_fieldSecret h hf hs) hi

/-! ### a struct outside `owners ds` holds no secret byte -/

theorem not_mem_of_fieldSecret_false {own : List Nat} {f : FieldDecl} (hs : fieldSecret own f = false)
    {i : Nat} (hi : i ∈ f.owns) : ¬ i ∈ own := by
  intro h
  have : fieldSecret own f = true := by
    simp only [fieldSecret, Bool.or_eq_true, List.any_eq_true, List.contains_iff_mem]
    exact Or.inr ⟨i, hi, h⟩
  rw [hs] at this
  cases this

theorem rawSecret_false_of_fieldSecret_false {own : List Nat} {f : FieldDecl}
    (hs : fieldSecret own f = false) : f.rawSecret = false := by
  cases h : f.rawSecret
  · rfl
  · simp [fieldSecret, h] at hs

mutual
theorem secretsLeft_of_fieldSecret_false (ds : List StructDecl) :
    ∀ (v : Val) (f : FieldDecl), fieldWt ds f v = true → fieldSecret (owners ds) f = false →
      secretsLeft v = 0
  | .raw s bs, f, h, hs => by
    have := rawSecret_false_of_fieldSecret_false hs
    simp only [fieldWt, this, beq_iff_eq] at h
    simp [secretsLeft, h]
  | .many vs, f, h, hs => by
    simp only [fieldWt] at h
    simp only [secretsLeft]
    exact secretsLeftAll_of_fieldSecret_false ds vs f h hs
  | .struct i fs, f, h, hs => by
    simp only [fieldWt, Bool.and_eq_true, List.contains_iff_mem] at h
    obtain ⟨⟨_, hi⟩, h⟩ := h
    cases hd : declAt ds i with
    | none => rw [hd] at h; cases h
    | some d =>
      rw [hd] at h
      simp only [secretsLeft]
      exact secretsLeftAll_fields_of_fieldSecret_false ds fs d.fields h
        (fun g hg => fieldSecret_false_of_not_mem hd (not_mem_of_fieldSecret_false hs hi) hg)
theorem secretsLeftAll_of_fieldSecret_false (ds : List StructDecl) :
    ∀ (vs : List Val) (f : FieldDecl), allFieldWt ds f vs = true → fieldSecret (owners ds) f = false →
      secretsLeftAll vs = 0
  | [], _, _, _ => by simp [secretsLeftAll]
  | v :: vs, f, h, hs => by
    simp only [allFieldWt, Bool.and_eq_true] at h
    simp only [secretsLeftAll, secretsLeft_of_fieldSecret_false ds v f h.1 hs,
      secretsLeftAll_of_fieldSecret_false ds vs f h.2 hs]
theorem secretsLeftAll_fields_of_fieldSecret_false (ds : List StructDecl) :
    ∀ (vs : List Val) (gs : List FieldDecl), fieldsWt ds gs vs = true →
      (∀ g ∈ gs, fieldSecret (owners ds) g = false) → secretsLeftAll vs = 0
  | [], _, _, _ => by simp [secretsLeftAll]
  | v :: vs, [], h, _ => by simp [fieldsWt] at h
  | v :: vs, g :: gs, h, hs => by
    simp only [fieldsWt, Bool.and_eq_true] at h
    simp only [secretsLeftAll, secretsLeft_of_fieldSecret_false ds v g h.1 (hs g (by simp)),
      secretsLeftAll_fields_of_fieldSecret_false ds vs gs h.2 (fun g' hg' => hs g' (by simp [hg']))]
end

/-- Soundness of the closure: a well-typed value of a struct that is not in `owners ds` contains no secret byte
(so the structs outside `owners` need no wiping). -/
theorem secretsLeft_of_not_mem_owners (ds : List StructDecl) (i : Nat) (fs : List Val)
    (hwt : WellTyped ds (.struct i fs) = true) (hi : ¬ i ∈ owners ds) :
    secretsLeft (.struct i fs) = 0 := by
  simp only [WellTyped] at hwt
  cases hd : declAt ds i with
  | none => rw [hd] at hwt; cases hwt
  | some d =>
    rw [hd] at hwt
    simp only [secretsLeft]
    exact secretsLeftAll_fields_of_fieldSecret_false ds fs d.fields hwt
      (fun g hg => fieldSecret_false_of_not_mem hd hi hg)

/-! ### S1: `wipedOnDrop` is sound for `dropVal` -/

/-- struct `i` passes the `wipedOnDrop` check (with some fuel) -/
def Wiped (ds : List StructDecl) (i : Nat) : Prop := ∃ fuel, wipedOnDrop ds (owners ds) fuel i = true

/-- what is proved by induction on the size of the value: a field content whose directly stored secret bytes are
already cleared and whose owned secret-bearing structs pass `wipedOnDrop` leaves no secret byte when dropped -/
def FieldDropOk (ds : List StructDecl) (v : Val) : Prop :=
  ∀ f : FieldDecl, fieldWt ds f v = true → (f.rawSecret = true → secretsLeft v = 0) →
    (∀ j ∈ f.owns, j ∈ owners ds → Wiped ds j) → secretsLeft (dropVal ds v) = 0

theorem deriveSound_use {ds : List StructDecl} (hD : DeriveSound ds = true) {d : StructDecl} (hd : d ∈ ds)
    (hz : (d.zeroize && d.zeroizeOnDrop) = true) {g : FieldDecl} (hg : g ∈ d.fields) (hs : g.skip = false)
    {j : Nat} (hj : j ∈ g.owns) (hjo : j ∈ owners ds) : Wiped ds j := by
  simp only [DeriveSound, List.all_eq_true, Bool.or_eq_true, Bool.not_eq_true', List.mem_filter,
    List.contains_iff_mem] at hD
  rcases hD d hd with h | h
  · rw [hz] at h; cases h
  · rcases h g hg with h | h
    · rw [hs] at h; cases h
    · exact ⟨ds.length, h j ⟨hj, hjo⟩⟩

/-- fields of a `Zeroize + ZeroizeOnDrop` struct: zeroized unless skipped, then dropped -/
theorem drop_zeroized_fields (ds : List StructDecl) (n : Nat)
    (ih : ∀ v : Val, v.size ≤ n → FieldDropOk ds v) :
    ∀ (vs : List Val) (gs : List FieldDecl), sizeAll vs ≤ n → fieldsWt ds gs vs = true →
      (∀ g ∈ gs, (fieldSecret (owners ds) g && g.skip) = false) →
      (∀ g ∈ gs, g.skip = false → ∀ j ∈ g.owns, j ∈ owners ds → Wiped ds j) →
      secretsLeftAll ((zeroizeFields ds gs vs).map (dropVal ds)) = 0 := by
  intro vs
  induction vs with
  | nil => intro gs _ _ _ _; cases gs <;> simp [zeroizeFields, secretsLeftAll]
  | cons w vs ihl =>
    intro gs hsz hwt hns hown
    cases gs with
    | nil => simp [fieldsWt] at hwt
    | cons g gs =>
      simp only [fieldsWt, Bool.and_eq_true] at hwt
      simp only [sizeAll] at hsz
      simp only [zeroizeFields, List.map_cons, secretsLeftAll]
      have htl := ihl gs (by omega) hwt.2 (fun g' hg' => hns g' (by simp [hg']))
        (fun g' hg' => hown g' (by simp [hg']))
      rw [htl]
      have hg := hns g (by simp)
      cases hsk : g.skip with
      | true =>
        simp only [hsk, Bool.and_true] at hg
        simp only [if_true]
        rw [secretsLeft_dropVal_zero (secretsLeft_of_fieldSecret_false ds w g hwt.1 hg)]
      | false =>
        simp only [Bool.false_eq_true, if_false]
        have := ih (zeroizeVal ds w) (by rw [size_zeroizeVal]; omega) g
          (by rw [fieldWt_zeroizeVal]; exact hwt.1)
          (fun hr => secretsLeft_zeroizeVal_rawSecret ds g hr w hwt.1)
          (hown g (by simp) hsk)
        rw [this]

/-- fields of a struct without `ZeroizeOnDrop`: just dropped -/
theorem drop_plain_fields (ds : List StructDecl) (n : Nat)
    (ih : ∀ v : Val, v.size ≤ n → FieldDropOk ds v) :
    ∀ (vs : List Val) (gs : List FieldDecl), sizeAll vs ≤ n → fieldsWt ds gs vs = true →
      (∀ g ∈ gs, g.rawSecret = false ∧ ∀ j ∈ g.owns, j ∈ owners ds → Wiped ds j) →
      secretsLeftAll (vs.map (dropVal ds)) = 0 := by
  intro vs
  induction vs with
  | nil => intro gs _ _ _; simp [secretsLeftAll]
  | cons w vs ihl =>
    intro gs hsz hwt hg
    cases gs with
    | nil => simp [fieldsWt] at hwt
    | cons g gs =>
      simp only [fieldsWt, Bool.and_eq_true] at hwt
      simp only [sizeAll] at hsz
      simp only [List.map_cons, secretsLeftAll]
      rw [ihl gs (by omega) hwt.2 (fun g' hg' => hg g' (by simp [hg']))]
      have hg0 := hg g (by simp)
      rw [ih w (by omega) g hwt.1 (fun hr => by rw [hg0.1] at hr; cases hr) hg0.2]

theorem wipedOnDrop_unfold {ds : List StructDecl} {own : List Nat} {fuel i : Nat} {d : StructDecl}
    (hd : declAt ds i = some d) :
    wipedOnDrop ds own (fuel+1) i =
      if d.zeroize && d.zeroizeOnDrop then
        d.fields.all fun f => !(fieldSecret own f && f.skip)
      else
        d.fields.all fun f =>
          !f.rawSecret && (f.owns.filter (own.contains ·)).all fun j => wipedOnDrop ds own fuel j := by
  rw [wipedOnDrop, hd]

theorem fieldDropOk_all (ds : List StructDecl) (hD : DeriveSound ds = true) :
    ∀ (n : Nat) (v : Val), v.size ≤ n → FieldDropOk ds v := by
  intro n
  induction n with
  | zero => intro v hv; cases v <;> simp [Val.size] at hv
  | succ n ih =>
    intro v hv f hwt hraw hown
    cases v with
    | raw s bs =>
      rw [dropVal_raw]
      cases s with
      | false => simp [secretsLeft]
      | true =>
        simp only [fieldWt, beq_iff_eq] at hwt
        exact hraw hwt.symm
    | many vs =>
      rw [dropVal_many]
      simp only [fieldWt] at hwt
      rw [allFieldWt_iff] at hwt
      simp only [secretsLeft, secretsLeftAll_eq_zero, List.mem_map] at hraw ⊢
      rintro _ ⟨w, hw, rfl⟩
      have hsz := size_lt_of_mem hw
      simp only [Val.size] at hv
      exact ih w (by omega) f (hwt w hw) (fun hr => hraw hr w hw) hown
    | struct i fs =>
      by_cases hi : i ∈ owners ds
      · simp only [fieldWt, Bool.and_eq_true, List.contains_iff_mem] at hwt
        obtain ⟨⟨_, hif⟩, hwt⟩ := hwt
        cases hd : declAt ds i with
        | none => rw [hd] at hwt; cases hwt
        | some d =>
          rw [hd] at hwt
          simp only [Val.size] at hv
          obtain ⟨fuel, hw⟩ := hown i hif hi
          cases fuel with
          | zero => simp [wipedOnDrop] at hw
          | succ fuel =>
            rw [wipedOnDrop_unfold hd] at hw
            rw [dropVal_struct]
            simp only [secretsLeft, preDrop, hd]
            cases hz : (d.zeroize && d.zeroizeOnDrop) with
            | true =>
              simp only [hz, if_true, List.all_eq_true, Bool.not_eq_true'] at hw
              simp only [if_true]
              exact drop_zeroized_fields ds n ih fs d.fields (by omega) hwt hw
                (fun g hg hs j hj hjo => deriveSound_use hD (declAt_some hd).1 hz hg hs hj hjo)
            | false =>
              simp only [hz, Bool.false_eq_true, if_false, List.all_eq_true, Bool.and_eq_true,
                Bool.not_eq_true', List.mem_filter, List.contains_iff_mem] at hw
              simp only [Bool.false_eq_true, if_false]
              exact drop_plain_fields ds n ih fs d.fields (by omega) hwt
                (fun g hg => ⟨(hw g hg).1, fun j hj hjo => ⟨fuel, (hw g hg).2 j ⟨hj, hjo⟩⟩⟩)
      · have hwt' : WellTyped ds (.struct i fs) = true := by
          simp only [fieldWt, Bool.and_eq_true] at hwt
          simpa only [WellTyped] using hwt.2
        exact secretsLeft_dropVal_zero (secretsLeft_of_not_mem_owners ds i fs hwt' hi)

/-- **S1.** For every declaration table whose derives are sound (`DeriveSound`, implied by `SecretsCovered`):
if struct `i` passes `wipedOnDrop` (with any fuel), then no secret byte of a well-typed value of struct `i`
survives its drop. -/
theorem wipedOnDrop_sound (ds : List StructDecl) (hD : DeriveSound ds = true) (fuel i : Nat)
    (hw : wipedOnDrop ds (owners ds) fuel i = true) (fs : List Val)
    (hwt : WellTyped ds (.struct i fs) = true) :
    secretsLeft (dropVal ds (.struct i fs)) = 0 := by
  refine fieldDropOk_all ds hD _ _ (Nat.le_refl _) ⟨"", "", false, [i], false⟩ ?_ ?_ ?_
  · simp only [WellTyped] at hwt
    simp [fieldWt, hwt]
  · intro h; cases h
  · intro j hj _
    simp only [List.mem_singleton] at hj
    subst hj
    exact ⟨fuel, hw⟩

theorem deriveSound_of_secretsCovered {ds : List StructDecl} (h : SecretsCovered ds = true) :
    DeriveSound ds = true := by
  simp only [SecretsCovered, List.all_eq_true] at h
  simp only [DeriveSound, List.all_eq_true]
  intro d _
  cases hz : (d.zeroize && d.zeroizeOnDrop) with
  | false => rfl
  | true =>
    simp only [Bool.not_true, Bool.false_or, List.all_eq_true, Bool.or_eq_true, List.mem_filter,
      List.contains_iff_mem]
    intro g _
    right
    intro j hj
    exact h j hj.2

/-! ### S2: `wipedByZeroize` is sound for `zeroizeVal` -/

theorem zeroizeSound_use {ds : List StructDecl} (hZ : ZeroizeSound ds = true) {d : StructDecl} (hd : d ∈ ds)
    (hz : d.zeroize = true) {g : FieldDecl} (hg : g ∈ d.fields) (hs : g.skip = false)
    {j : Nat} (hj : j ∈ g.owns) (hjo : j ∈ owners ds) : wipedByZeroize ds (owners ds) j = true := by
  simp only [ZeroizeSound, List.all_eq_true, Bool.or_eq_true, Bool.not_eq_true', List.mem_filter,
    List.contains_iff_mem] at hZ
  rcases hZ d hd with h | h
  · rw [hz] at h; cases h
  · rcases h g hg with h | h
    · rw [hs] at h; cases h
    · exact h j ⟨hj, hjo⟩

theorem wipedByZeroize_unfold {ds : List StructDecl} {own : List Nat} {i : Nat} {d : StructDecl}
    (hd : declAt ds i = some d) :
    wipedByZeroize ds own i = (d.zeroize && d.fields.all fun f => !(fieldSecret own f && f.skip)) := by
  rw [wipedByZeroize, hd]

mutual
theorem zeroizeOk_val (ds : List StructDecl) (hZ : ZeroizeSound ds = true) :
    ∀ (v : Val) (f : FieldDecl), fieldWt ds f v = true →
      (∀ j ∈ f.owns, j ∈ owners ds → wipedByZeroize ds (owners ds) j = true) →
      secretsLeft (zeroizeVal ds v) = 0
  | .raw s bs, _, _, _ => by rw [zeroizeVal, secretsLeft_raw_zero]
  | .many vs, f, h, ho => by
    simp only [fieldWt] at h
    simp only [zeroizeVal, secretsLeft]
    exact zeroizeOk_all ds hZ vs f h ho
  | .struct i fs, f, h, ho => by
    by_cases hi : i ∈ owners ds
    · simp only [fieldWt, Bool.and_eq_true, List.contains_iff_mem] at h
      obtain ⟨⟨_, hif⟩, h⟩ := h
      cases hd : declAt ds i with
      | none => rw [hd] at h; cases h
      | some d =>
        rw [hd] at h
        have hw := ho i hif hi
        rw [wipedByZeroize_unfold hd] at hw
        simp only [Bool.and_eq_true, List.all_eq_true, Bool.not_eq_true'] at hw
        simp only [zeroizeVal, hd, hw.1, if_true, secretsLeft]
        exact zeroizeOk_fields ds hZ fs d.fields h hw.2
          (fun g hg hs j hj hjo => zeroizeSound_use hZ (declAt_some hd).1 hw.1 hg hs hj hjo)
    · have hwt' : WellTyped ds (.struct i fs) = true := by
        simp only [fieldWt, Bool.and_eq_true] at h
        simpa only [WellTyped] using h.2
      exact secretsLeft_zeroizeVal_zero (secretsLeft_of_not_mem_owners ds i fs hwt' hi)
theorem zeroizeOk_all (ds : List StructDecl) (hZ : ZeroizeSound ds = true) :
    ∀ (vs : List Val) (f : FieldDecl), allFieldWt ds f vs = true →
      (∀ j ∈ f.owns, j ∈ owners ds → wipedByZeroize ds (owners ds) j = true) →
      secretsLeftAll (zeroizeAll ds vs) = 0
  | [], _, _, _ => by simp [zeroizeAll, secretsLeftAll]
  | v :: vs, f, h, ho => by
    simp only [allFieldWt, Bool.and_eq_true] at h
    simp only [zeroizeAll, secretsLeftAll, zeroizeOk_val ds hZ v f h.1 ho, zeroizeOk_all ds hZ vs f h.2 ho]
theorem zeroizeOk_fields (ds : List StructDecl) (hZ : ZeroizeSound ds = true) :
    ∀ (vs : List Val) (gs : List FieldDecl), fieldsWt ds gs vs = true →
      (∀ g ∈ gs, (fieldSecret (owners ds) g && g.skip) = false) →
      (∀ g ∈ gs, g.skip = false → ∀ j ∈ g.owns, j ∈ owners ds → wipedByZeroize ds (owners ds) j = true) →
      secretsLeftAll (zeroizeFields ds gs vs) = 0
  | [], gs, _, _, _ => by cases gs <;> simp [zeroizeFields, secretsLeftAll]
  | v :: vs, [], h, _, _ => by simp [fieldsWt] at h
  | v :: vs, g :: gs, h, hns, ho => by
    simp only [fieldsWt, Bool.and_eq_true] at h
    simp only [zeroizeFields, secretsLeftAll]
    rw [zeroizeOk_fields ds hZ vs gs h.2 (fun g' hg' => hns g' (by simp [hg']))
      (fun g' hg' => ho g' (by simp [hg']))]
    have hg := hns g (by simp)
    cases hsk : g.skip with
    | true =>
      simp only [hsk, Bool.and_true] at hg
      simp only [if_true]
      rw [secretsLeft_of_fieldSecret_false ds v g h.1 hg]
    | false =>
      simp only [Bool.false_eq_true, if_false]
      rw [zeroizeOk_val ds hZ v g h.1 (ho g (by simp) hsk)]
end

/-- **S2.** For every declaration table whose `Zeroize` derives are sound (`ZeroizeSound`): if struct `i` passes
`wipedByZeroize`, then `zeroize()` clears every secret byte of a well-typed value of struct `i`. -/
theorem wipedByZeroize_sound (ds : List StructDecl) (hZ : ZeroizeSound ds = true) (i : Nat)
    (hw : wipedByZeroize ds (owners ds) i = true) (fs : List Val)
    (hwt : WellTyped ds (.struct i fs) = true) :
    secretsLeft (zeroizeVal ds (.struct i fs)) = 0 := by
  refine zeroizeOk_val ds hZ _ ⟨"", "", false, [i], false⟩ ?_ ?_
  · simp only [WellTyped] at hwt
    simp [fieldWt, hwt]
  · intro j hj _
    simp only [List.mem_singleton] at hj
    subst hj
    exact hw

/-! ### S2 without any assumption on the table: what `wipedByZeroize` gives on its own -/

theorem zeroizeFields_direct (ds : List StructDecl) :
    ∀ (vs : List Val) (gs : List FieldDecl), fieldsWt ds gs vs = true →
      (∀ g ∈ gs, (fieldSecret (owners ds) g && g.skip) = false) →
      ∀ p ∈ List.zip gs (zeroizeFields ds gs vs),
        (p.1.rawSecret = true ∨ fieldSecret (owners ds) p.1 = false) → secretsLeft p.2 = 0 := by
  intro vs
  induction vs with
  | nil => intro gs _ _ p hp; cases gs <;> simp [zeroizeFields] at hp
  | cons v vs ih =>
    intro gs hwt hns p hp hc
    cases gs with
    | nil => simp [fieldsWt] at hwt
    | cons g gs =>
      simp only [fieldsWt, Bool.and_eq_true] at hwt
      simp only [zeroizeFields, List.zip_cons_cons, List.mem_cons] at hp
      rcases hp with rfl | hp
      · have hg := hns g (by simp)
        simp only at hc ⊢
        rcases hc with hr | hf
        · have hsk : g.skip = false := by
            cases hsk : g.skip
            · rfl
            · simp [fieldSecret, hr, hsk] at hg
          simp only [hsk, Bool.false_eq_true, if_false]
          exact secretsLeft_zeroizeVal_rawSecret ds g hr v hwt.1
        · have h0 := secretsLeft_of_fieldSecret_false ds v g hwt.1 hf
          split
          · exact h0
          · exact secretsLeft_zeroizeVal_zero h0
      · exact ih gs hwt.2 (fun g' hg' => hns g' (by simp [hg'])) p hp hc

/-- **S2, unconditional part.** If struct `i` passes `wipedByZeroize`, then `zeroize()` rewrites every field that
is not skipped, and afterwards every field that stores secret bytes itself (`rawSecret`) and every field that
carries no secret at all holds no secret byte. (What remains is inside owned secret-bearing structs; these are
cleared as far as they pass `wipedByZeroize` themselves - `wipedByZeroize_sound`.) -/
theorem wipedByZeroize_direct (ds : List StructDecl) (i : Nat) (d : StructDecl) (hd : declAt ds i = some d)
    (hw : wipedByZeroize ds (owners ds) i = true) (fs : List Val)
    (hwt : WellTyped ds (.struct i fs) = true) :
    zeroizeVal ds (.struct i fs) = .struct i (zeroizeFields ds d.fields fs) ∧
      ∀ p ∈ List.zip d.fields (zeroizeFields ds d.fields fs),
        (p.1.rawSecret = true ∨ fieldSecret (owners ds) p.1 = false) → secretsLeft p.2 = 0 := by
  rw [wipedByZeroize_unfold hd] at hw
  simp only [Bool.and_eq_true, List.all_eq_true, Bool.not_eq_true'] at hw
  simp only [WellTyped, hd] at hwt
  refine ⟨by simp only [zeroizeVal, hd, hw.1, if_true], ?_⟩
  exact zeroizeFields_direct ds fs d.fields hwt hw.2

end Impl.ZeroizeSem

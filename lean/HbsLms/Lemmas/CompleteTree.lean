/-
Completeness, level 2 (Merkle tree): without a cache `getTreeElement` computes the plain recursive tree `T`,
the authentication path built by the signer consists of the siblings along the leaf-to-root walk, and the
verifier's climb from the leaf value along that path ends in the root `T[1]`.
-/
import HbsLms.Lemmas.CompleteOts

namespace Lemmas.Complete

open Impl Generated Lemmas

/-- the plain recursive Merkle tree: `T d r` is the value of node `r` whose subtree has depth `d` -/
def T (H : HashFn) (k : LmsKey) : Nat → Nat → Bytes
  | 0, r => leafNode H k r
  | d+1, r => H.h (k.I ++ Bytes.u32be r ++ D_INTR ++ T H k d (2 * r) ++ T H k d (2 * r + 1))

theorem T_length (H : HashFn) (k : LmsKey) (d r : Nat) : (T H k d r).length = H.n := by
  cases d with
  | zero => simp only [T, leafNode]; exact H.len_h _
  | succ d => simp only [T]; exact H.len_h _

/-- without a cache, `getTreeElement` is `T`: node `r` on level `j` with `fuel = h - j` -/
theorem getTreeElement_none (H : HashFn) (k : LmsKey) : ∀ (fuel r j : Nat), j + fuel = k.lms.h → 2 ^ j ≤ r →
    r < 2 ^ (j + 1) → getTreeElement H k fuel r none = (T H k fuel r, none) := by
  intro fuel
  induction fuel with
  | zero =>
    intro r j hj hlo _
    have : r ≥ 2 ^ k.lms.h := by rw [← hj]; simpa using hlo
    unfold getTreeElement
    simp [this, T]
  | succ f ih =>
    intro r j hj hlo hhi
    have hlt : ¬ r ≥ 2 ^ k.lms.h := by
      have : 2 ^ (j + 1) ≤ 2 ^ k.lms.h := Nat.pow_le_pow_right (by omega) (by omega)
      omega
    have h1 := ih (2 * r) (j + 1) (by omega) (by rw [Nat.pow_succ]; omega) (by rw [Nat.pow_succ]; omega)
    have h2 := ih (2 * r + 1) (j + 1) (by omega) (by rw [Nat.pow_succ]; omega)
      (by have : 2 ^ (j + 1 + 1) = 2 ^ (j + 1) * 2 := Nat.pow_succ _ _; omega)
    unfold getTreeElement
    simp [hlt, h1, h2, T]

theorem log2_of_level {r j : Nat} (hlo : 2 ^ j ≤ r) (hhi : r < 2 ^ (j + 1)) : log2 r = j := by
  unfold log2
  have hr : r ≠ 0 := by have := Nat.two_pow_pos j; omega
  exact (Nat.log2_eq_iff hr).mpr ⟨hlo, hhi⟩

/-- `T[r]` through `treeNode` without a cache, for a node on level `j ≤ h` -/
theorem treeNode_none (H : HashFn) (k : LmsKey) (r j : Nat) (hj : j ≤ k.lms.h) (hlo : 2 ^ j ≤ r)
    (hhi : r < 2 ^ (j + 1)) : treeNode H k r none = (T H k (k.lms.h - j) r, none) := by
  unfold treeNode
  rw [log2_of_level hlo hhi]
  exact getTreeElement_none H k _ r j (by omega) hlo hhi

/-- the root -/
theorem treeNode_root (H : HashFn) (k : LmsKey) : treeNode H k 1 none = (T H k k.lms.h 1, none) := by
  have := treeNode_none H k 1 0 (by omega) (by simp) (by simp)
  simpa using this

/-- the sibling of `x`: `x ^^^ 1` is `x - 1` for odd `x` and `x + 1` for even `x` -/
theorem xor_one (x : Nat) : x ^^^ 1 = if x % 2 = 1 then x - 1 else x + 1 := by
  have h1 : (x ^^^ 1) / 2 = x / 2 := by rw [Nat.xor_div_two]; simp
  have h2 := @Nat.xor_mod_two_eq_one x 1
  have h3 := Nat.div_add_mod (x ^^^ 1) 2
  have h4 := Nat.div_add_mod x 2
  split
  · rename_i hx
    have : ¬ (x ^^^ 1) % 2 = 1 := by rw [h2]; simp [hx]
    omega
  · rename_i hx
    have : (x ^^^ 1) % 2 = 1 := by rw [h2]; simp [hx]
    omega

/-- node `(2^h + q) / 2^i` lies on level `h - i` -/
theorem node_level {h q i : Nat} (hq : q < 2 ^ h) (hi : i ≤ h) :
    2 ^ (h - i) ≤ (2 ^ h + q) / 2 ^ i ∧ (2 ^ h + q) / 2 ^ i < 2 ^ (h - i + 1) := by
  have hp : 2 ^ h = 2 ^ (h - i) * 2 ^ i := by rw [← Nat.pow_add]; congr 1; omega
  have hpos : 0 < 2 ^ i := Nat.two_pow_pos i
  constructor
  · rw [Nat.le_div_iff_mul_le hpos, ← hp]; omega
  · rw [Nat.div_lt_iff_lt_mul hpos, Nat.pow_succ, Nat.mul_assoc, Nat.mul_comm 2, ← Nat.mul_assoc, ← hp]; omega

theorem node_half (x i : Nat) : x / 2 ^ i / 2 = x / 2 ^ (i + 1) := by
  rw [Nat.div_div_eq_div_mul, Nat.pow_succ]

/-- the authentication path in closed form: the siblings of the nodes on the walk from leaf `2^h + q` to the root -/
def authPath (H : HashFn) (k : LmsKey) (q : Nat) : List Bytes :=
  (List.range k.lms.h).map fun i => T H k i (((2 ^ k.lms.h + q) / 2 ^ i) ^^^ 1)

theorem authPath_length (H : HashFn) (k : LmsKey) (q : Nat) : (authPath H k q).length = k.lms.h := by
  simp [authPath]

theorem authPath_mem_length (H : HashFn) (k : LmsKey) (q : Nat) : ∀ y ∈ authPath H k q, y.length = H.n := by
  intro y hy
  simp only [authPath, List.mem_map] at hy
  obtain ⟨i, _, rfl⟩ := hy
  exact T_length H k _ _

theorem authPath_flatten_length (H : HashFn) (k : LmsKey) (q : Nat) :
    (authPath H k q).flatten.length = H.n * k.lms.h := by
  rw [flatten_length_of H.n _ (authPath_mem_length H k q), authPath_length]

/-- sibling of a non-root node on the walk is on the same level -/
theorem sibling_level {h q i : Nat} (hq : q < 2 ^ h) (hi : i < h) :
    2 ^ (h - i) ≤ ((2 ^ h + q) / 2 ^ i) ^^^ 1 ∧ ((2 ^ h + q) / 2 ^ i) ^^^ 1 < 2 ^ (h - i + 1) := by
  obtain ⟨hlo, hhi⟩ := node_level hq (Nat.le_of_lt hi)
  have hpow : 2 ^ (h - i) = 2 * 2 ^ (h - i - 1) := by
    rw [Nat.mul_comm, ← Nat.pow_succ]; congr 1; omega
  have hpow2 : 2 ^ (h - i + 1) = 2 * 2 ^ (h - i) := by rw [Nat.pow_succ, Nat.mul_comm]
  rw [xor_one]
  split <;> omega

/-- the fold in `lmsSign` that collects the authentication path, without a cache -/
theorem authPath_fold (H : HashFn) (k : LmsKey) (q : Nat) (hq : q < 2 ^ k.lms.h) :
    (List.range k.lms.h).foldl (fun (acc : List Bytes × Option ExpAux) i =>
      let (v, a) := treeNode H k (((2 ^ k.lms.h + q) / 2 ^ i) ^^^ 1) acc.2
      (acc.1 ++ [v], a)) ([], none) = (authPath H k q, none) := by
  unfold authPath
  suffices h : ∀ m, m ≤ k.lms.h →
      (List.range m).foldl (fun (acc : List Bytes × Option ExpAux) i =>
        let (v, a) := treeNode H k (((2 ^ k.lms.h + q) / 2 ^ i) ^^^ 1) acc.2
        (acc.1 ++ [v], a)) ([], none)
      = ((List.range m).map fun i => T H k i (((2 ^ k.lms.h + q) / 2 ^ i) ^^^ 1), none) from h _ (Nat.le_refl _)
  intro m
  induction m with
  | zero => intro _; simp
  | succ m ih =>
    intro hm
    rw [List.range_succ, List.foldl_append, ih (by omega)]
    obtain ⟨hlo, hhi⟩ := sibling_level hq (show m < k.lms.h by omega)
    have := treeNode_none H k _ (k.lms.h - m) (by omega) hlo hhi
    have hsub : k.lms.h - (k.lms.h - m) = m := by omega
    rw [hsub] at this
    simp [this]

/-- L2: the climb. After `i` steps the walk is at node `(2^h + q) / 2^i` holding its value `T i _`; it ends in the root -/
theorem climb_authPath (H : HashFn) (k : LmsKey) (q : Nat) (hq : q < 2 ^ k.lms.h) :
    ∀ (d i : Nat), i + d = k.lms.h →
      climb H k.I (authPath H k q).flatten (d + 1) ((2 ^ k.lms.h + q) / 2 ^ i) i
        (T H k i ((2 ^ k.lms.h + q) / 2 ^ i)) = .ok (T H k k.lms.h 1) := by
  intro d
  induction d with
  | zero =>
    intro i hi
    have hi' : i = k.lms.h := by omega
    subst hi'
    obtain ⟨hlo, hhi⟩ := node_level hq (Nat.le_refl k.lms.h)
    have h1 : (2 ^ k.lms.h + q) / 2 ^ k.lms.h = 1 := by simp at hlo hhi; omega
    rw [h1]
    simp [climb, pure, Except.pure]
  | succ d ih =>
    intro i hi
    obtain ⟨hlo, hhi⟩ := node_level hq (show i ≤ k.lms.h by omega)
    have hgt : (2 ^ k.lms.h + q) / 2 ^ i > 1 := by
      have : 2 ≤ 2 ^ (k.lms.h - i) := by
        have : 2 ^ 1 ≤ 2 ^ (k.lms.h - i) := Nat.pow_le_pow_right (by omega) (by omega)
        simpa using this
      omega
    have hlen := authPath_flatten_length H k q
    have hs : H.n * i + H.n ≤ (authPath H k q).flatten.length := by
      rw [hlen]
      calc H.n * i + H.n = H.n * (i + 1) := by rw [Nat.mul_add, Nat.mul_one]
        _ ≤ H.n * k.lms.h := Nat.mul_le_mul_left _ (by omega)
    have hsl : Bytes.slice (authPath H k q).flatten (H.n * i) H.n
        = T H k i (((2 ^ k.lms.h + q) / 2 ^ i) ^^^ 1) := by
      rw [slice_flatten H.n _ i (by rw [authPath_length]; omega) (authPath_mem_length H k q)]
      simp [authPath]
    have hrec := ih (i + 1) (by omega)
    rw [← node_half] at hrec
    rw [climb]
    simp only [hgt, if_true, P.slice, hs, bind, Except.bind, hsl]
    rw [← hrec]
    congr 1
    generalize (2 ^ k.lms.h + q) / 2 ^ i = x
    have hx := Nat.div_add_mod x 2
    rw [xor_one]
    by_cases hodd : x % 2 = 1
    · have e1 : x - 1 = 2 * (x / 2) := by omega
      have e2 : x = 2 * (x / 2) + 1 := by omega
      simp only [hodd, beq_self_eq_true, if_true, T, e1]
      rw [← e2]
    · have e1 : x + 1 = 2 * (x / 2) + 1 := by omega
      have e2 : x = 2 * (x / 2) := by omega
      have hb : (x % 2 == 1) = false := by simp [hodd]
      simp only [hodd, hb, if_false, T, e1]
      rw [← e2]
      simp

/-- L2 as stated in the task: from the leaf value along the authentication path to the root -/
theorem climb_reaches_root (H : HashFn) (k : LmsKey) (q : Nat) (hq : q < 2 ^ k.lms.h) :
    climb H k.I (authPath H k q).flatten (k.lms.h + 1) (2 ^ k.lms.h + q) 0 (T H k 0 (2 ^ k.lms.h + q))
      = .ok (T H k k.lms.h 1) := by
  have := climb_authPath H k q hq k.lms.h 0 (by omega)
  simpa using this

end Lemmas.Complete

/-
Byte strings and big-endian integer codecs. Core Lean only (the driver links against this).
-/

abbrev Bytes := List UInt8

namespace Bytes

/-- big-endian encoding of `v` on exactly `k` bytes (truncating, like an `as` cast followed by `to_be_bytes`) -/
def be : (k : Nat) → (v : Nat) → Bytes
  | 0, _ => []
  | k+1, v => UInt8.ofNat ((v / 256 ^ k) % 256) :: be k v

/-- big-endian decoding -/
def toNat (b : Bytes) : Nat := b.foldl (fun a x => a * 256 + x.toNat) 0

def u16be (v : Nat) : Bytes := be 2 v
def u32be (v : Nat) : Bytes := be 4 v
def u64be (v : Nat) : Bytes := be 8 v

def zeros (n : Nat) : Bytes := List.replicate n 0

def allZero (b : Bytes) : Bool := b.all (· == 0)

def xorByte (k : UInt8) (b : Bytes) : Bytes := b.map (· ^^^ k)

/-- `b[start .. start+len]` -/
def slice (b : Bytes) (start len : Nat) : Bytes := (b.drop start).take len

/-- overwrite `b[start .. start+v.length]` with `v` (caller guarantees the range is inside `b`) -/
def patch (b : Bytes) (start : Nat) (v : Bytes) : Bytes :=
  b.take start ++ v ++ b.drop (start + v.length)

private def hexDigit (n : Nat) : Char :=
  if n < 10 then Char.ofNat (48 + n) else Char.ofNat (87 + n)

def toHex (b : Bytes) : String :=
  if b.isEmpty then "-" else
  String.ofList (b.foldr (fun x acc => hexDigit (x.toNat / 16) :: hexDigit (x.toNat % 16) :: acc) [])

private def hexVal (c : Char) : Option Nat :=
  if '0' ≤ c ∧ c ≤ '9' then some (c.toNat - 48)
  else if 'a' ≤ c ∧ c ≤ 'f' then some (c.toNat - 87)
  else if 'A' ≤ c ∧ c ≤ 'F' then some (c.toNat - 55)
  else none

private def ofHexAux : List Char → Option Bytes
  | [] => some []
  | [_] => none
  | a :: b :: rest => do
    let h ← hexVal a
    let l ← hexVal b
    let r ← ofHexAux rest
    pure (UInt8.ofNat (h * 16 + l) :: r)

def ofHex (s : String) : Option Bytes :=
  if s == "-" then some [] else ofHexAux s.toList

end Bytes

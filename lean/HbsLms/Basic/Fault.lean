/-
Panic-aware computations. `P α := Except Fault α`; a `Fault.panic site` is produced exactly where
the Rust code would panic (slice/index out of range, ArrayVec capacity, copy_from_slice length
mismatch, checked arithmetic). Parsers that return `Option` in Rust are `Option` here.
-/
import HbsLms.Basic.Bytes

inductive Fault where
  | panic (site : String)
deriving Repr, DecidableEq

abbrev P := Except Fault

namespace P

def panic {α} (site : String) : P α := .error (.panic site)

/-- `l[i]` -/
def idx {α} (site : String) (l : List α) (i : Nat) : P α :=
  match l[i]? with
  | some x => .ok x
  | none => panic site

/-- `&b[start .. start+len]` -/
def slice (site : String) (b : Bytes) (start len : Nat) : P Bytes :=
  if start + len ≤ b.length then .ok (Bytes.slice b start len) else panic site

/-- `ArrayVec::push` on an ArrayVec of capacity `cap` -/
def pushCap {α} (site : String) (cap : Nat) (l : List α) (x : α) : P (List α) :=
  if l.length < cap then .ok (l ++ [x]) else panic site

/-- `ArrayVec::extend_from_slice` on a byte ArrayVec of capacity `cap` -/
def extendCap (site : String) (cap : Nat) (l : Bytes) (x : Bytes) : P Bytes :=
  if l.length + x.length ≤ cap then .ok (l ++ x) else panic site

def require (site : String) (c : Bool) : P Unit :=
  if c then .ok () else panic site

def isOk {α} : P α → Bool
  | .ok _ => true
  | .error _ => false

end P

/-- checked read used by the byte-level parsers (`util::helper::read`): `None` when out of range -/
def readAt (src : Bytes) (len idx : Nat) : Option Bytes :=
  if idx + len ≤ src.length then some (Bytes.slice src idx len) else none

/-
Specification of the counter interpretation (RFC 8554 / hash-sigs): the 64-bit counter written in
mixed radix with the per-level tree sizes 2^h_i as radices, bottom level least significant.
-/

namespace Spec

/-- digit `i` of `c`: `(c / 2^(h_{i+1} + … + h_{L-1})) % 2^{h_i}`, top level first -/
def mixedRadix : List Nat → Nat → List Nat
  | [], _ => []
  | h :: hs, c => (c / 2 ^ hs.sum) % 2 ^ h :: mixedRadix hs c

/-- value of a digit vector -/
def radixValue : List Nat → List Nat → Nat
  | h :: hs, d :: ds => d * 2 ^ hs.sum + radixValue hs ds
  | _, _ => 0

/-- number of leaves of a key shape -/
def leavesTotal (hs : List Nat) : Nat := 2 ^ hs.sum

end Spec

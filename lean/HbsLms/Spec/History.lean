/-
An abstract state machine for the life of one private key: which counters are ever released in a signature,
over arbitrary histories of accepted signatures, rejected callbacks, failed attempts and lifetime queries.
The successor function is the implementation model's `Impl.incrementCounter`.
-/
import HbsLms.Impl.Hss

namespace Spec

/-- the persisted key: a counter, or the wiped key (`ReferenceImplPrivateKey::wipe`) -/
inductive KeyState where
  | live (c : Nat)
  | wiped
deriving Repr, DecidableEq

/-- what can happen to a key -/
inductive Op where
  /-- a signature was assembled, the successor key was handed to the callback, the callback accepted -/
  | signAccept
  /-- the callback reported failure: the successor key is not persisted and no signature is returned -/
  | signReject
  /-- signing failed before the callback (malformed key, unusable parameters, retry after an error) -/
  | signFail
  /-- lifetime query, key reload, anything read-only -/
  | query
deriving Repr, DecidableEq

/-- one operation: new persisted state and the counter released in a signature, if any -/
def step (hs : List Nat) : KeyState → Op → KeyState × Option Nat
  | .live c, .signAccept =>
    (match Impl.incrementCounter hs c with
      | some c' => .live c'
      | none => .wiped, some c)
  | .live c, _ => (.live c, none)
  | .wiped, _ => (.wiped, none)

/-- a history: final state and the released counters in order of release -/
def run (hs : List Nat) : KeyState → List Op → KeyState × List Nat
  | s, [] => (s, [])
  | s, op :: ops =>
    let r := step hs s op
    let rest := run hs r.1 ops
    (rest.1, r.2.toList ++ rest.2)

/-- number of accepted signing operations in a history -/
def accepts (ops : List Op) : Nat := ops.count .signAccept

/-! ### the caller's side: a session of signing calls on the implementation model -/

/-- one signing request: message, the caller's key-update callback (returns `true` iff it persisted the key it
was handed), and the aux buffer passed in -/
structure Call where
  msg : Bytes
  cb : Bytes → Bool
  aux : Option Bytes

/-- One `hssSign` call by a caller that holds the persisted key `sk`: afterwards the persisted key is the one the
callback accepted (if it was invoked and accepted), otherwise still `sk`. Returns the persisted key and the
released signature, if any. -/
def callOnce (H : HashFn) (cfg : Config) (sk : Bytes) (c : Call) : P (Bytes × Option Bytes) := do
  let o ← Impl.hssSign H cfg c.msg sk c.cb c.aux
  let sk' := match o.trace with
    | [k'] => if c.cb k' then k' else sk
    | _ => sk
  pure (sk', o.result)

/-- A session: calls made one after the other, each with the currently persisted key. Returns the finally persisted
key and the log of released signatures, each with the key bytes it was produced from. -/
def session (H : HashFn) (cfg : Config) : Bytes → List Call → P (Bytes × List (Bytes × Bytes))
  | sk, [] => pure (sk, [])
  | sk, c :: cs => do
    let r ← callOnce H cfg sk c
    let rest ← session H cfg r.1 cs
    pure (rest.1, (match r.2 with | some sig => [(sk, sig)] | none => []) ++ rest.2)

end Spec

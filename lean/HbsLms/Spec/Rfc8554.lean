/-
RFC 8554 signature verification, written from the RFC text (sections 3.1, 4.6 / Algorithm 4b,
5.4.2 / Algorithms 6 and 6a, 6.3) as plain total functions on byte strings. Nothing here refers to the
`Impl` model: no `P` monad, no parsed structures; the integer codecs of section 3.1.2 are restated.
`coef` and `Cksm` come from `Spec.AppendixB` (RFC sections 3.1.3 and 4.4). Core Lean only.

The hash function `H` (output length `n = m = H.n`) is the "selected hash function"; the parameter
tables are an argument, so the specification does not depend on the generated library tables.
-/
import HbsLms.Spec.AppendixB

namespace Spec

open Spec.AppendixB

/-- type code ↦ parameters: LM-OTS `(w, p, ls)` (RFC Table 1) and LMS `h` (RFC Table 2) -/
structure Tables where
  ots : Nat → Option LmotsParam
  lms : Nat → Option LmsParam

/-! ### section 3.1: byte strings and integer codecs -/

/-- `u32str(v)`: 4-byte big-endian -/
def u32str (v : Nat) : Bytes :=
  [UInt8.ofNat (v / 2 ^ 24 % 256), UInt8.ofNat (v / 2 ^ 16 % 256), UInt8.ofNat (v / 2 ^ 8 % 256), UInt8.ofNat (v % 256)]

/-- `u16str(v)` -/
def u16str (v : Nat) : Bytes := [UInt8.ofNat (v / 2 ^ 8 % 256), UInt8.ofNat (v % 256)]

/-- `u8str(v)` -/
def u8str (v : Nat) : Bytes := [UInt8.ofNat v]

/-- `strTou32(b)` of a 4-byte string (literal factors first, so that unfolding never recurses on `2^24`) -/
def strTou32 (b : Bytes) : Nat :=
  2 ^ 24 * (b.getD 0 0).toNat + 2 ^ 16 * (b.getD 1 0).toNat + 2 ^ 8 * (b.getD 2 0).toNat + (b.getD 3 0).toNat

/-- the `len` bytes of `s` starting at byte offset `start` -/
def bytesAt (s : Bytes) (start len : Nat) : Bytes := (s.drop start).take len

/-- domain separators (section 4.5 / 5.3), as `u16str` values -/
def D_PBLC : Bytes := [0x80, 0x80]
def D_MESG : Bytes := [0x81, 0x81]
def D_LEAF : Bytes := [0x82, 0x82]
def D_INTR : Bytes := [0x83, 0x83]

/-! ### section 4.6, Algorithm 4b: LM-OTS public key candidate -/

/-- `tmp = y; for (j = a; j < e; j++) tmp = H(I ‖ u32str(q) ‖ u16str(i) ‖ u8str(j) ‖ tmp)` -/
def chainRfc (H : HashFn) (I : Bytes) (q i a e : Nat) (y : Bytes) : Bytes :=
  (List.range' a (e - a)).foldl (fun tmp j => H.h (I ++ u32str q ++ u16str i ++ u8str j ++ tmp)) y

/-- Algorithm 4b. `none` = INVALID. The comparison of the signature's type code with the public key's is made by the
caller (Algorithm 6a step 2b compares them before calling). -/
def lmotsKc (H : HashFn) (T : Tables) (I : Bytes) (q : Nat) (msg sig : Bytes) : Option Bytes :=
  -- 2a. at least four bytes
  if sig.length < 4 then none else
  -- 2b/2c. sigtype, its parameters
  match T.ots (strTou32 (bytesAt sig 0 4)) with
  | none => none
  | some prm =>
    let n := H.n
    -- 2d. exactly 4 + n*(p+1) bytes
    if sig.length ≠ 4 + n * (prm.p + 1) then none else
    -- 2e. C, y[0..p-1]
    let C := bytesAt sig 4 n
    let y := fun i => bytesAt sig (4 + n * (i + 1)) n
    -- 3.
    let Q := H.h (I ++ u32str q ++ D_MESG ++ C ++ msg)
    let Qc := Q ++ u16str (cksm n prm.w prm.ls Q)
    let z := (List.range prm.p).map fun i => chainRfc H I q i (rfcCoef Qc i prm.w) (2 ^ prm.w - 1) (y i)
    some (H.h (I ++ u32str q ++ D_PBLC ++ z.flatten))

/-! ### section 5.4.2, Algorithms 6a and 6: LMS -/

/-- the `while (node_num > 1)` loop of Algorithm 6a step 4, one iteration per path element -/
def rootFrom (H : HashFn) (I : Bytes) : (path : List Bytes) → (nodeNum : Nat) → (tmp : Bytes) → Bytes
  | [], _, tmp => tmp
  | s :: rest, nodeNum, tmp =>
    rootFrom H I rest (nodeNum / 2)
      (if nodeNum % 2 = 1 then H.h (I ++ u32str (nodeNum / 2) ++ D_INTR ++ s ++ tmp)
       else H.h (I ++ u32str (nodeNum / 2) ++ D_INTR ++ tmp ++ s))

/-- Algorithm 6a: LMS public key candidate `Tc` from a signature, a message, the identifier `I` and the two type
codes of the public key. `none` = INVALID. -/
def lmsRootCandidate (H : HashFn) (T : Tables) (msg sig I : Bytes) (pubtype otsPubtype : Nat) : Option Bytes :=
  let n := H.n
  -- 1. at least eight bytes
  if sig.length < 8 then none else
  -- 2a/2b. q, otssigtype; must equal the public key's LM-OTS type
  let q := strTou32 (bytesAt sig 0 4)
  let otssigtype := strTou32 (bytesAt sig 4 4)
  if otssigtype ≠ otsPubtype then none else
  -- 2c. n, p
  match T.ots otssigtype with
  | none => none
  | some op =>
    let otsLen := 4 + n * (op.p + 1)
    -- 2d. at least 12 + n*(p+1) bytes
    if sig.length < 8 + otsLen then none else
    -- 2e/2f/2g. lmots_signature, sigtype; must equal the public key's LMS type
    let lmotsSig := bytesAt sig 4 otsLen
    let sigtype := strTou32 (bytesAt sig (4 + otsLen) 4)
    if sigtype ≠ pubtype then none else
    -- 2h. m, h
    match T.lms sigtype with
    | none => none
    | some lp =>
      -- 2i. q < 2^h and exactly 12 + n*(p+1) + m*h bytes
      if q ≥ 2 ^ lp.h ∨ sig.length ≠ 8 + otsLen + n * lp.h then none else
      -- 2j. path
      let path := (List.range lp.h).map fun i => bytesAt sig (8 + otsLen + n * i) n
      -- 3. Kc
      match lmotsKc H T I q msg lmotsSig with
      | none => none
      | some Kc =>
        -- 4. root candidate
        let nodeNum := 2 ^ lp.h + q
        let tmp := H.h (I ++ u32str nodeNum ++ D_LEAF ++ Kc)
        some (rootFrom H I path nodeNum tmp)

/-- Algorithm 6: LMS signature verification -/
def lmsValid (H : HashFn) (T : Tables) (msg sig pk : Bytes) : Bool :=
  -- 1. at least eight bytes
  if pk.length < 8 then false else
  -- 2a/2b. pubtype, ots_typecode
  let pubtype := strTou32 (bytesAt pk 0 4)
  let otsPubtype := strTou32 (bytesAt pk 4 4)
  -- 2c/2d. m (= n for the selected hash function); exactly 24 + m bytes
  match T.lms pubtype with
  | none => false
  | some _ =>
    if pk.length ≠ 24 + H.n then false else
    -- 2e/2f. I, T[1]
    let I := bytesAt pk 8 16
    let T1 := bytesAt pk 24 H.n
    -- 3/4.
    match lmsRootCandidate H T msg sig I pubtype otsPubtype with
    | none => false
    | some Tc => Tc == T1

/-! ### section 6.3: HSS -/

/-- length of the LMS signature at the head of `s`, determined by its two type codes ("next LMS signature parsed
from S"); `none` when a type code is unknown or cannot be read -/
def lmsSigLen (n : Nat) (T : Tables) (s : Bytes) : Option Nat :=
  if s.length < 8 then none else
  match T.ots (strTou32 (bytesAt s 4 4)) with
  | none => none
  | some op =>
    let otsLen := 4 + n * (op.p + 1)
    if s.length < 8 + otsLen then none else
    match T.lms (strTou32 (bytesAt s (4 + otsLen) 4)) with
    | none => none
    | some lp => some (8 + otsLen + n * lp.h)

/-- `for (i = 0; i < Nspk; i++) { siglist[i] = next LMS signature; publist[i+1] = next LMS public key }`:
the list of (signature, public key) byte strings and what is left of `S`. The public key takes `24 + m` bytes. -/
def splitSigned (n : Nat) (T : Tables) : (k : Nat) → (rest : Bytes) → Option (List (Bytes × Bytes) × Bytes)
  | 0, rest => some ([], rest)
  | k+1, rest =>
    match lmsSigLen n T rest with
    | none => none
    | some sl =>
      if rest.length < sl + (24 + n) then none else
      match splitSigned n T k (rest.drop (sl + (24 + n))) with
      | none => none
      | some (l, r) => some ((bytesAt rest 0 sl, bytesAt rest sl (24 + n)) :: l, r)

/-- `key = pub; for i < Nspk: if lms_verify(publist[i+1], key, siglist[i]) ≠ VALID return INVALID; key = publist[i+1]`
and finally `lms_verify(message, key, siglist[Nspk])` -/
def chainValid (H : HashFn) (T : Tables) : List (Bytes × Bytes) → (key last msg : Bytes) → Bool
  | [], key, last, msg => lmsValid H T msg last key
  | (sg, pb) :: l, key, last, msg => lmsValid H T pb sg key && chainValid H T l pb last msg

/-- section 6.3 HSS signature verification. `maxLevels` is the build limit on `L`. The last LMS signature is
everything that follows the signed public keys, so trailing bytes make it invalid (Algorithm 6a step 2i). -/
def hssValid (H : HashFn) (T : Tables) (maxLevels : Nat) (msg sig pk : Bytes) : Bool :=
  if pk.length < 4 ∨ sig.length < 4 then false else
  let L := strTou32 (bytesAt pk 0 4)
  let Nspk := strTou32 (bytesAt sig 0 4)
  if Nspk + 1 ≠ L then false else
  if Nspk > maxLevels - 1 then false else
  match splitSigned H.n T Nspk (sig.drop 4) with
  | none => false
  | some (signed, last) => chainValid H T signed (pk.drop 4) last msg

end Spec

/-
Key generation of the cisco hash-sigs reference implementation (the key format and the seed derivation that
`hbs-lms` follows) together with RFC 8554 section 4.3 (LM-OTS public key), section 5.3 (LMS public key) and
section 6.1 (HSS public key), written as plain formulas on byte strings.

Nothing here refers to the `Impl` model: no `P` monad, no buffers that are patched in place, no caches.
The integer codecs `u32str`, `u16str`, `u8str`, the domain separators and the RFC's hash-chain loop `chainRfc`
are the ones of `Spec.Rfc8554` (written from RFC 8554 section 3.1 / Algorithm 4b). Core Lean only.

`H` is the selected hash function with output length `n = H.n ≤ 32`; seeds have `n` bytes, identifiers 16 bytes.
-/
import HbsLms.Spec.Rfc8554

namespace Spec.HashSigs

open Spec

/-! ### codecs -/

/-- `u64str(v)`: 8-byte big-endian -/
def u64str (v : Nat) : Bytes :=
  [UInt8.ofNat (v / 2 ^ 56 % 256), UInt8.ofNat (v / 2 ^ 48 % 256), UInt8.ofNat (v / 2 ^ 40 % 256),
   UInt8.ofNat (v / 2 ^ 32 % 256), UInt8.ofNat (v / 2 ^ 24 % 256), UInt8.ofNat (v / 2 ^ 16 % 256),
   UInt8.ofNat (v / 2 ^ 8 % 256), UInt8.ofNat (v % 256)]

/-- `k` zero bytes -/
def zeros (k : Nat) : Bytes := List.replicate k 0

/-- longest seed / hash the fixed-size buffers of hash-sigs are laid out for -/
def maxSeed : Nat := 32

/-! ### hash-sigs: the "top seed" (`hss_generate_root_seed_I_value`) -/

/-- domain separator of the top-seed hashing, `D_TOPSEED = 0xfefe` -/
def D_TOPSEED : Bytes := [0xfe, 0xfe]

/-- The top-seed buffer, 55 = 23 + 32 bytes:
bytes 0..19 zero (the place of `I` and `q`), bytes 20,21 = `0xfe 0xfe`, byte 22 = `which`,
bytes 23.. = `s`, zero padding up to 55 bytes. -/
def topSeedBuf (which : Nat) (s : Bytes) : Bytes :=
  zeros 20 ++ D_TOPSEED ++ u8str which ++ s ++ zeros (maxSeed - s.length)

/-- `(SEED, I)` of the top-level LMS tree from the master seed of the key blob:
`h1 = H(buf(0, seed))`, `SEED = H(buf(1, h1))`, `I = first 16 bytes of H(buf(2, h1))`. -/
def topSeed (H : HashFn) (seed : Bytes) : Bytes × Bytes :=
  let h1 := H.h (topSeedBuf 0 seed)
  (H.h (topSeedBuf 1 h1), (H.h (topSeedBuf 2 h1)).take 16)

/-! ### hash-sigs: seed derivation (`lm_ots_common.c`/`hss_derive.c`, non-"secret-method" PRNG) -/

/-- `prng(SEED, I, q, j) = H(I ‖ u32str(q) ‖ u16str(j) ‖ 0xff ‖ SEED ‖ 0…0)`, the buffer padded with zeros to
55 = 23 + 32 bytes -/
def prng (H : HashFn) (seed I : Bytes) (q j : Nat) : Bytes :=
  H.h (I ++ u32str q ++ u16str j ++ u8str 0xff ++ seed ++ zeros (maxSeed - seed.length))

/-- seed of the child tree that hangs below leaf `q` of the tree `(seed, I)`: `j = 0xfffe` -/
def childSeed (H : HashFn) (seed I : Bytes) (q : Nat) : Bytes := prng H seed I q 0xfffe

/-- identifier of that child tree: `j = 0xffff`, first 16 bytes -/
def childI (H : HashFn) (seed I : Bytes) (q : Nat) : Bytes := (prng H seed I q 0xffff).take 16

/-- the randomizer `C` of the signature made with leaf `q`: `j = 0xfffd` -/
def randomizer (H : HashFn) (seed I : Bytes) (q : Nat) : Bytes := prng H seed I q 0xfffd

/-! ### LM-OTS key pair of leaf `q` (RFC 8554 section 4.2 / Appendix A, section 4.3) -/

/-- chain start (Appendix A): `x[q][i] = H(I ‖ u32str(q) ‖ u16str(i) ‖ u8str(0xff) ‖ SEED)` -/
def x (H : HashFn) (I seed : Bytes) (q i : Nat) : Bytes :=
  H.h (I ++ u32str q ++ u16str i ++ u8str 0xff ++ seed)

/-- chain end (Algorithm 1 step 4): `tmp = x[i]; for j = 0 .. 2^w - 2: tmp = H(I ‖ u32str(q) ‖ u16str(i) ‖ u8str(j) ‖ tmp)` -/
def y (H : HashFn) (I seed : Bytes) (w q i : Nat) : Bytes :=
  chainRfc H I q i 0 (2 ^ w - 1) (x H I seed q i)

/-- Algorithm 1 step 5: `K = OTS_PUB[q] = H(I ‖ u32str(q) ‖ D_PBLC ‖ y[0] ‖ … ‖ y[p-1])` -/
def otsPub (H : HashFn) (I seed : Bytes) (w p q : Nat) : Bytes :=
  H.h (I ++ u32str q ++ D_PBLC ++ ((List.range p).map fun i => y H I seed w q i).flatten)

/-! ### LMS tree (RFC 8554 section 5.3) -/

/-- `T d r` = `T[r]` for a node `r` that has `d` levels below it in the tree of height `h`:
`T[r] = H(I ‖ u32str(r) ‖ D_LEAF ‖ OTS_PUB[r - 2^h])` for a leaf (`r ≥ 2^h`, `d = 0`),
`T[r] = H(I ‖ u32str(r) ‖ D_INTR ‖ T[2r] ‖ T[2r+1])` otherwise. -/
def T (H : HashFn) (I seed : Bytes) (w p h : Nat) : (d : Nat) → (r : Nat) → Bytes
  | 0, r => H.h (I ++ u32str r ++ D_LEAF ++ otsPub H I seed w p (r - 2 ^ h))
  | d+1, r => H.h (I ++ u32str r ++ D_INTR ++ T H I seed w p h d (2 * r) ++ T H I seed w p h d (2 * r + 1))

/-- the root `T[1]` of the tree of height `h` -/
def root (H : HashFn) (I seed : Bytes) (w p h : Nat) : Bytes := T H I seed w p h h 1

/-- LMS public key (section 5.3): `u32str(lms type) ‖ u32str(ots type) ‖ I ‖ T[1]` -/
def lmsPublicKey (H : HashFn) (I seed : Bytes) (prm : HssParam) : Bytes :=
  u32str prm.lms.typeId ++ u32str prm.ots.typeId ++ I ++ root H I seed prm.ots.w prm.ots.p prm.lms.h

/-! ### the key pair -/

/-- compressed parameter byte of one level: LMS type code in the high nibble, LM-OTS type code in the low nibble -/
def paramByte (lmsType otsType : Nat) : UInt8 := UInt8.ofNat (lmsType * 16 + otsType)

/-- number of parameter bytes in the private key blob -/
def maxLevels : Nat := 8

/-- the private key: `u64str(0) ‖ parameter bytes ‖ 0xff padding to 8 bytes ‖ seed` -/
def blob (ps : List HssParam) (seed : Bytes) : Bytes :=
  u64str 0 ++ ps.map (fun p => paramByte p.lms.typeId p.ots.typeId) ++
    List.replicate (maxLevels - ps.length) 0xff ++ seed

/-- the HSS public key (section 6.1): `u32str(L) ‖ LMS public key of the top tree`, whose seed and identifier
are the top seed of the master seed; empty for an empty parameter list -/
def publicKey (H : HashFn) (ps : List HssParam) (seed : Bytes) : Bytes :=
  match ps with
  | [] => []
  | p0 :: _ => u32str ps.length ++ lmsPublicKey H (topSeed H seed).2 (topSeed H seed).1 p0

end Spec.HashSigs

/-
RFC 8554 section 3.1.3 (`coef`), section 4.4 / Algorithm 2 (`Cksm`) and Appendix B (the derived
parameters `u`, `v`, `ls`, `p`), written independently of the `Impl` functions. Core Lean only.
-/
import HbsLms.Impl.Params

namespace Spec.AppendixB

/-- number of `w`-bit digits of an `n`-byte digest -/
def u (n w : Nat) : Nat := 8 * n / w

/-- number of `w`-bit digits of the checksum: `ceil((floor(log2(u*(2^w-1)))+1)/w)` -/
def v (n w : Nat) : Nat := (Nat.log2 (u n w * (2 ^ w - 1)) + 1 + (w - 1)) / w

/-- left shift of the checksum inside its 16-bit field: `16 - v*w` -/
def lsRfc (n w : Nat) : Nat := 16 - v n w * w

/-- number of hash chains `p = u + v` -/
def pRfc (n w : Nat) : Nat := u n w + v n w

/-- RFC 8554 section 3.1.3: `coef(S, i, w) = (2^w - 1) AND (byte(S, floor(i*w/8)) >> (8 - (w*(i % (8/w)) + w)))` -/
def rfcCoef (S : Bytes) (i w : Nat) : Nat :=
  (2 ^ w - 1) &&& ((S.getD (i * w / 8) 0).toNat >>> (8 - (w * (i % (8 / w)) + w)))

/-- the unshifted checksum sum `Σ_{i<u} (2^w - 1 - coef(Q, i, w))` -/
def cksmSum (n w : Nat) (Q : Bytes) : Nat :=
  ((List.range (u n w)).map fun i => 2 ^ w - 1 - rfcCoef Q i w).sum

/-- RFC 8554 Algorithm 2 (`Cksm`), a 16-bit value -/
def cksm (n w ls : Nat) (Q : Bytes) : Nat :=
  ((((List.range (u n w)).map fun i => 2 ^ w - 1 - rfcCoef Q i w).sum) <<< ls) % 65536

/-- the `p` chain positions for the digest `Q`: `coef(Q ‖ Cksm(Q), i, w)` for `i < p` -/
def digitsSpec (n w ls : Nat) (Q : Bytes) : List Nat :=
  (List.range (pRfc n w)).map fun i => rfcCoef (Q ++ Bytes.u16be (cksm n w ls Q)) i w

/-- value of a digit list in base `b`, most significant digit first -/
def ofDigits (b : Nat) (l : List Nat) : Nat := l.foldl (fun a x => a * b + x) 0

/-- `ds` is component-wise below `ds'` on the first `p` positions -/
def DominatedBy (p : Nat) (ds ds' : List Nat) : Prop := ∀ i, i < p → ds.getD i 0 ≤ ds'.getD i 0

instance (p : Nat) (ds ds' : List Nat) : Decidable (DominatedBy p ds ds') := by
  unfold DominatedBy; exact Nat.decidableBallLT _ _

/-- a library parameter row agrees with Appendix B -/
def RowOk (n : Nat) (prm : LmotsParam) : Bool :=
  prm.w ∈ [1, 2, 4, 8] && prm.p == pRfc n prm.w && prm.ls == lsRfc n prm.w

/-- a library parameter row has the Appendix B shape (`w`, `p`), whatever its `ls` (at most 8) -/
def RowShapeOk (n : Nat) (prm : LmotsParam) : Bool :=
  prm.w ∈ [1, 2, 4, 8] && prm.p == pRfc n prm.w && prm.ls ≤ 8

end Spec.AppendixB

/-
Executable SHAKE256 (FIPS 202), first 32 output bytes. Same status as `Sha256`: run, not reasoned about;
checked against the `sha3` crate by the correspondence check. The round function is unrolled over 25
scalar fields (arrays of UInt64 are boxed in Lean and an order of magnitude slower).
-/
import HbsLms.Basic.Bytes

namespace Keccak

private def RC : Array UInt64 := #[
  0x0000000000000001, 0x0000000000008082, 0x800000000000808a, 0x8000000080008000,
  0x000000000000808b, 0x0000000080000001, 0x8000000080008081, 0x8000000000008009,
  0x000000000000008a, 0x0000000000000088, 0x0000000080008009, 0x000000008000000a,
  0x000000008000808b, 0x800000000000008b, 0x8000000000008089, 0x8000000000008003,
  0x8000000000008002, 0x8000000000000080, 0x000000000000800a, 0x800000008000000a,
  0x8000000080008081, 0x8000000000008080, 0x0000000080000001, 0x8000000080008008]

@[inline] private def rotl (x : UInt64) (n : UInt64) : UInt64 := (x <<< n) ||| (x >>> (64 - n))

structure St where
  a0 : UInt64 := 0
  a1 : UInt64 := 0
  a2 : UInt64 := 0
  a3 : UInt64 := 0
  a4 : UInt64 := 0
  a5 : UInt64 := 0
  a6 : UInt64 := 0
  a7 : UInt64 := 0
  a8 : UInt64 := 0
  a9 : UInt64 := 0
  a10 : UInt64 := 0
  a11 : UInt64 := 0
  a12 : UInt64 := 0
  a13 : UInt64 := 0
  a14 : UInt64 := 0
  a15 : UInt64 := 0
  a16 : UInt64 := 0
  a17 : UInt64 := 0
  a18 : UInt64 := 0
  a19 : UInt64 := 0
  a20 : UInt64 := 0
  a21 : UInt64 := 0
  a22 : UInt64 := 0
  a23 : UInt64 := 0
  a24 : UInt64 := 0

/-- one round; lane index = x + 5*y -/
private def round (s : St) (rc : UInt64) : St :=
  let c0 := s.a0 ^^^ s.a5 ^^^ s.a10 ^^^ s.a15 ^^^ s.a20
  let c1 := s.a1 ^^^ s.a6 ^^^ s.a11 ^^^ s.a16 ^^^ s.a21
  let c2 := s.a2 ^^^ s.a7 ^^^ s.a12 ^^^ s.a17 ^^^ s.a22
  let c3 := s.a3 ^^^ s.a8 ^^^ s.a13 ^^^ s.a18 ^^^ s.a23
  let c4 := s.a4 ^^^ s.a9 ^^^ s.a14 ^^^ s.a19 ^^^ s.a24
  let d0 := c4 ^^^ rotl c1 1
  let d1 := c0 ^^^ rotl c2 1
  let d2 := c1 ^^^ rotl c3 1
  let d3 := c2 ^^^ rotl c4 1
  let d4 := c3 ^^^ rotl c0 1
  let b0 := s.a0 ^^^ d0
  let b16 := rotl (s.a5 ^^^ d0) 36
  let b7 := rotl (s.a10 ^^^ d0) 3
  let b23 := rotl (s.a15 ^^^ d0) 41
  let b14 := rotl (s.a20 ^^^ d0) 18
  let b10 := rotl (s.a1 ^^^ d1) 1
  let b1 := rotl (s.a6 ^^^ d1) 44
  let b17 := rotl (s.a11 ^^^ d1) 10
  let b8 := rotl (s.a16 ^^^ d1) 45
  let b24 := rotl (s.a21 ^^^ d1) 2
  let b20 := rotl (s.a2 ^^^ d2) 62
  let b11 := rotl (s.a7 ^^^ d2) 6
  let b2 := rotl (s.a12 ^^^ d2) 43
  let b18 := rotl (s.a17 ^^^ d2) 15
  let b9 := rotl (s.a22 ^^^ d2) 61
  let b5 := rotl (s.a3 ^^^ d3) 28
  let b21 := rotl (s.a8 ^^^ d3) 55
  let b12 := rotl (s.a13 ^^^ d3) 25
  let b3 := rotl (s.a18 ^^^ d3) 21
  let b19 := rotl (s.a23 ^^^ d3) 56
  let b15 := rotl (s.a4 ^^^ d4) 27
  let b6 := rotl (s.a9 ^^^ d4) 20
  let b22 := rotl (s.a14 ^^^ d4) 39
  let b13 := rotl (s.a19 ^^^ d4) 8
  let b4 := rotl (s.a24 ^^^ d4) 14
  { a0 := (b0 ^^^ ((~~~ b1) &&& b2)) ^^^ rc,
    a1 := b1 ^^^ ((~~~ b2) &&& b3),
    a2 := b2 ^^^ ((~~~ b3) &&& b4),
    a3 := b3 ^^^ ((~~~ b4) &&& b0),
    a4 := b4 ^^^ ((~~~ b0) &&& b1),
    a5 := b5 ^^^ ((~~~ b6) &&& b7),
    a6 := b6 ^^^ ((~~~ b7) &&& b8),
    a7 := b7 ^^^ ((~~~ b8) &&& b9),
    a8 := b8 ^^^ ((~~~ b9) &&& b5),
    a9 := b9 ^^^ ((~~~ b5) &&& b6),
    a10 := b10 ^^^ ((~~~ b11) &&& b12),
    a11 := b11 ^^^ ((~~~ b12) &&& b13),
    a12 := b12 ^^^ ((~~~ b13) &&& b14),
    a13 := b13 ^^^ ((~~~ b14) &&& b10),
    a14 := b14 ^^^ ((~~~ b10) &&& b11),
    a15 := b15 ^^^ ((~~~ b16) &&& b17),
    a16 := b16 ^^^ ((~~~ b17) &&& b18),
    a17 := b17 ^^^ ((~~~ b18) &&& b19),
    a18 := b18 ^^^ ((~~~ b19) &&& b15),
    a19 := b19 ^^^ ((~~~ b15) &&& b16),
    a20 := b20 ^^^ ((~~~ b21) &&& b22),
    a21 := b21 ^^^ ((~~~ b22) &&& b23),
    a22 := b22 ^^^ ((~~~ b23) &&& b24),
    a23 := b23 ^^^ ((~~~ b24) &&& b20),
    a24 := b24 ^^^ ((~~~ b20) &&& b21) }

private def f1600 (s0 : St) : St := Id.run do
  let mut s := s0
  for r in [0:24] do
    s := round s RC[r]!
  return s

private def rate : Nat := 136

@[inline] private def lane (blk : ByteArray) (off : Nat) : UInt64 :=
  blk[off]!.toUInt64 ||| (blk[off+1]!.toUInt64 <<< 8) ||| (blk[off+2]!.toUInt64 <<< 16) ||| (blk[off+3]!.toUInt64 <<< 24) |||
  (blk[off+4]!.toUInt64 <<< 32) ||| (blk[off+5]!.toUInt64 <<< 40) ||| (blk[off+6]!.toUInt64 <<< 48) ||| (blk[off+7]!.toUInt64 <<< 56)

private def absorbBlock (s : St) (blk : ByteArray) (o : Nat) : St :=
  f1600 { s with
    a0 := s.a0 ^^^ lane blk (o + 0),
    a1 := s.a1 ^^^ lane blk (o + 8),
    a2 := s.a2 ^^^ lane blk (o + 16),
    a3 := s.a3 ^^^ lane blk (o + 24),
    a4 := s.a4 ^^^ lane blk (o + 32),
    a5 := s.a5 ^^^ lane blk (o + 40),
    a6 := s.a6 ^^^ lane blk (o + 48),
    a7 := s.a7 ^^^ lane blk (o + 56),
    a8 := s.a8 ^^^ lane blk (o + 64),
    a9 := s.a9 ^^^ lane blk (o + 72),
    a10 := s.a10 ^^^ lane blk (o + 80),
    a11 := s.a11 ^^^ lane blk (o + 88),
    a12 := s.a12 ^^^ lane blk (o + 96),
    a13 := s.a13 ^^^ lane blk (o + 104),
    a14 := s.a14 ^^^ lane blk (o + 112),
    a15 := s.a15 ^^^ lane blk (o + 120),
    a16 := s.a16 ^^^ lane blk (o + 128) }

private def pushLane (out : ByteArray) (v : UInt64) : ByteArray := Id.run do
  let mut o := out
  for j in [0:8] do
    o := o.push (v >>> (8 * j).toUInt64).toUInt8
  return o

def shake256_32BA (msg : ByteArray) : ByteArray := Id.run do
  let mut p := msg.push 0x1f
  while p.size % rate != 0 do
    p := p.push 0
  p := p.set! (p.size - 1) (p[p.size - 1]! ||| 0x80)
  let mut s : St := {}
  for i in [0:p.size / rate] do
    s := absorbBlock s p (rate * i)
  return pushLane (pushLane (pushLane (pushLane ByteArray.empty s.a0) s.a1) s.a2) s.a3

def shake256_32 (msg : Bytes) : Bytes := (shake256_32BA (ByteArray.mk msg.toArray)).toList

end Keccak

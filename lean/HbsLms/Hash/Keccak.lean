/-
Executable SHAKE256 (FIPS 202), first 32 output bytes. Same status as `Sha256`: run, not reasoned about;
checked against the `sha3` crate by the correspondence check.
-/
import HbsLms.Basic.Bytes

namespace Keccak

private def RC : Array UInt64 := #[
  0x0000000000000001, 0x0000000000008082, 0x800000000000808a, 0x8000000080008000,
  0x000000000000808b, 0x0000000080000001, 0x8000000080008081, 0x8000000000008009,
  0x000000000000008a, 0x0000000000000088, 0x0000000080008009, 0x000000008000000a,
  0x000000008000808b, 0x800000000000008b, 0x8000000000008089, 0x8000000000008003,
  0x8000000000008002, 0x8000000000000080, 0x000000000000800a, 0x800000008000000a,
  0x8000000080008081, 0x8000000000008080, 0x0000000080000001, 0x8000000080008008]

private def ROT : Array UInt64 := #[
   0,  1, 62, 28, 27,
  36, 44,  6, 55, 20,
   3, 10, 43, 25, 39,
  41, 45, 15, 21,  8,
  18,  2, 61, 56, 14]

@[inline] private def rotl (x : UInt64) (n : UInt64) : UInt64 :=
  if n == 0 then x else (x <<< n) ||| (x >>> (64 - n))

/-- state index: x + 5*y -/
private def f1600 (s0 : Array UInt64) : Array UInt64 := Id.run do
  let mut s := s0
  for r in [0:24] do
    -- theta
    let mut c : Array UInt64 := Array.replicate 5 0
    for x in [0:5] do
      c := c.set! x (s[x]! ^^^ s[x+5]! ^^^ s[x+10]! ^^^ s[x+15]! ^^^ s[x+20]!)
    for x in [0:5] do
      let d := c[(x+4)%5]! ^^^ rotl c[(x+1)%5]! 1
      for y in [0:5] do
        s := s.set! (x + 5*y) (s[x + 5*y]! ^^^ d)
    -- rho + pi
    let mut b : Array UInt64 := Array.replicate 25 0
    for x in [0:5] do
      for y in [0:5] do
        b := b.set! (y + 5 * ((2*x + 3*y) % 5)) (rotl s[x + 5*y]! ROT[x + 5*y]!)
    -- chi
    for x in [0:5] do
      for y in [0:5] do
        s := s.set! (x + 5*y) (b[x + 5*y]! ^^^ ((~~~ b[(x+1)%5 + 5*y]!) &&& b[(x+2)%5 + 5*y]!))
    -- iota
    s := s.set! 0 (s[0]! ^^^ RC[r]!)
  return s

private def rate : Nat := 136

private def absorbBlock (s : Array UInt64) (blk : ByteArray) (off : Nat) : Array UInt64 := Id.run do
  let mut s := s
  for i in [0:rate/8] do
    let mut v : UInt64 := 0
    for j in [0:8] do
      v := v ||| (blk[off + 8*i + j]!.toUInt64 <<< (8 * j).toUInt64)
    s := s.set! i (s[i]! ^^^ v)
  return f1600 s

def shake256_32BA (msg : ByteArray) : ByteArray := Id.run do
  let mut p := msg.push 0x1f
  while p.size % rate != 0 do
    p := p.push 0
  p := p.set! (p.size - 1) (p[p.size - 1]! ||| 0x80)
  let mut s : Array UInt64 := Array.replicate 25 0
  for i in [0:p.size / rate] do
    s := absorbBlock s p (rate * i)
  let mut out := ByteArray.empty
  for i in [0:4] do
    for j in [0:8] do
      out := out.push (s[i]! >>> (8 * j).toUInt64).toUInt8
  return out

def shake256_32 (msg : Bytes) : Bytes := (shake256_32BA (ByteArray.mk msg.toArray)).toList

end Keccak

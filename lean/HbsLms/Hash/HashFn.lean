/-
The hash abstraction. Every theorem is for an arbitrary `H : HashFn`: a function on byte strings
with a fixed output length `n`. The six concrete instances are only used to run the model.
-/
import HbsLms.Hash.Sha256
import HbsLms.Hash.Keccak

structure HashFn where
  n : Nat
  h : Bytes → Bytes
  len_h : ∀ x, (h x).length = n

/-- pad/truncate to exactly `n` bytes (at run time the input always has ≥ n bytes, so this is truncation) -/
def fixLen (n : Nat) (l : Bytes) : Bytes := l.take n ++ List.replicate (n - l.length) 0

theorem fixLen_length (n : Nat) (l : Bytes) : (fixLen n l).length = n := by
  simp [fixLen, List.length_take]; omega

def HashFn.sha256 (n : Nat) : HashFn := ⟨n, fun x => fixLen n (Sha256.hash x), fun _ => fixLen_length _ _⟩
def HashFn.shake256 (n : Nat) : HashFn := ⟨n, fun x => fixLen n (Keccak.shake256_32 x), fun _ => fixLen_length _ _⟩

def HashFn.ofName : String → Option HashFn
  | "S32" => some (.sha256 32)
  | "S24" => some (.sha256 24)
  | "S16" => some (.sha256 16)
  | "K32" => some (.shake256 32)
  | "K24" => some (.shake256 24)
  | "K16" => some (.shake256 16)
  | _ => none

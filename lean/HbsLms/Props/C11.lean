/-
C11 - key generation, signing and lifetime queries never panic, whatever the parameter list, private-key bytes
and auxiliary buffer; on the error paths the update callback is not invoked and no signature is released.

The statements are for every hash function `H`, every build configuration `cfg` that `build.rs` accepts and whose
Winternitz values are table values (`Config.wellFormed`), every message, every private-key byte string (any length,
any content), every aux buffer (absent, empty, fresh, in use, corrupted) and every callback.
`.ok o` means "the Rust function returned" (`o.result = none` is `Err`), `.error (Fault.panic site)` means "the Rust
function panicked at `site`": the theorems say the second never happens.
-/
import HbsLms.Lemmas.SignTotal
import HbsLms.Props.C04

namespace Props.C11

open Impl Lemmas

/-! ### T1 - no panic -/

/-- signing: any private-key bytes (wrong length, invalid parameter bytes, wiped, exhausted), any aux buffer -/
theorem sign_never_panics (H : HashFn) (cfg : Config) (hwf : cfg.wellFormed = true) (msg sk : Bytes)
    (cb : Bytes → Bool) (aux : Option Bytes) : ∃ o, hssSign H cfg msg sk cb aux = .ok o :=
  hssSign_ok H cfg hwf msg sk cb aux

/-- in terms of faults: no panic site is reachable -/
theorem sign_no_fault (H : HashFn) (cfg : Config) (hwf : cfg.wellFormed = true) (msg sk : Bytes)
    (cb : Bytes → Bool) (aux : Option Bytes) (site : String) :
    hssSign H cfg msg sk cb aux ≠ .error (Fault.panic site) := by
  obtain ⟨o, ho⟩ := sign_never_panics H cfg hwf msg sk cb aux
  rw [ho]; simp

/-- key generation: ANY list of table rows - empty, longer than eight levels, beyond the build limits -, any seed
(any length), any aux buffer, and any configuration (well-formed or not) -/
theorem keygen_never_panics (H : HashFn) (cfg : Config) (ps : List HssParam) (seed : Bytes) (aux : Option Bytes)
    (hrows : ∀ p ∈ ps, IsOtsRow H.n p.ots ∧ IsLmsRow p.lms) : ∃ o, hssKeygen H cfg ps seed aux = .ok o :=
  hssKeygen_ok H cfg ps seed aux (rows_type_lt hrows)

/-- the parameter values an application can construct: `HssParameter::new(LmotsAlgorithm, LmsAlgorithm)` for the
type codes of the tables -/
theorem keygen_never_panics_of_types (H : HashFn) (cfg : Config) (ts : List (Nat × Nat)) (ps : List HssParam)
    (seed : Bytes) (aux : Option Bytes)
    (hps : ts.mapM (fun t => do
      let o ← Params.lmotsGetFromType H.n t.1
      let l ← Params.lmsGetFromType t.2
      pure (⟨o, l⟩ : HssParam)) = some ps) : ∃ o, hssKeygen H cfg ps seed aux = .ok o := by
  apply keygen_never_panics
  induction ts generalizing ps with
  | nil => simp at hps; subst hps; simp
  | cons t ts ih =>
    simp only [List.mapM_cons, Option.bind_eq_bind, Option.bind_eq_some_iff, Option.pure_def, Option.some.injEq] at hps
    obtain ⟨p, ⟨o, ho, l, hl, rfl⟩, ps', hps', rfl⟩ := hps
    intro q hq
    rcases List.mem_cons.mp hq with rfl | hq
    · exact ⟨isOtsRow_of_getFromType ho, isLmsRow_of_getFromType hl⟩
    · exact ih ps' hps' q hq

/-- lifetime query: any private-key bytes -/
theorem lifetime_never_panics (H : HashFn) (cfg : Config) (hwf : cfg.wellFormed = true) (sk : Bytes) :
    ∃ r, getLifetime H cfg sk = .ok r :=
  getLifetime_ok H cfg hwf sk

/-- `SigningKey::try_sign_with_aux`: the closure's `copy_from_slice` always gets a key of the right length -/
theorem trySign_never_panics (H : HashFn) (cfg : Config) (hwf : cfg.wellFormed = true) (msg sk : Bytes)
    (aux : Option Bytes) : ∃ r, trySign H cfg msg sk aux = .ok r := by
  unfold trySign
  split
  · exact ⟨_, rfl⟩
  · obtain ⟨o, ho⟩ := hssSign_ok H cfg hwf msg sk (fun _ => true) aux
    simp only [ho, bind, Except.bind]
    split
    · rename_i k' htr
      have hlen : k'.length = sk.length := by
        rcases C04.hssSign_cases ho with ⟨_, rfl⟩ | ⟨k, p, hk, _, rfl⟩
        · simp at htr
        · cases p with
          | failed a r => simp [signCommit] at htr
          | ready hs sig a r =>
            simp only [signCommit, Bool.not_true, Bool.false_eq_true, if_false] at htr
            have hk' : k' = (k.increment H.n hs).bytes := by
              split at htr <;> simp at htr <;> exact htr.symm
            rw [hk']
            exact C04.successor_key_same_length H.n sk k hs hk
      simp only [P.require, hlen, beq_self_eq_true, if_true, pure, Except.pure]
      exact ⟨_, rfl⟩
    · exact ⟨_, rfl⟩

/-! ### T2 - the error paths are clean: no callback, no signature -/

/-- Every outcome of signing is one of: (a) an error before the callback - the callback was not invoked, nothing is
released, and for a key that does not even parse the aux buffer is untouched; (b) the callback was invoked exactly
once with the successor key and the signature is released iff it accepted. -/
theorem sign_outcomes (H : HashFn) (cfg : Config) (hwf : cfg.wellFormed = true) (msg sk : Bytes)
    (cb : Bytes → Bool) (aux : Option Bytes) :
    ∃ o, hssSign H cfg msg sk cb aux = .ok o ∧
      ((o.result = none ∧ o.trace = []) ∨
       (∃ k hs, RefKey.parse H.n sk = some k ∧ o.trace = [(k.increment H.n hs).bytes] ∧
          (o.result ≠ none ↔ cb (k.increment H.n hs).bytes = true))) := by
  obtain ⟨o, ho⟩ := hssSign_ok H cfg hwf msg sk cb aux
  refine ⟨o, ho, ?_⟩
  rcases C04.hssSign_cases ho with ⟨_, rfl⟩ | ⟨k, p, hk, hp, rfl⟩
  · exact Or.inl ⟨rfl, rfl⟩
  · cases p with
    | failed a r => exact Or.inl ⟨rfl, rfl⟩
    | ready hs sig a r =>
      right
      obtain ⟨_, hkp, hks, _⟩ := parse_some hk
      obtain ⟨p', hp', hb⟩ := signPrepare_ok H cfg hwf msg k aux hkp hks
      rw [hp] at hp'
      simp only [Except.ok.injEq] at hp'
      obtain ⟨ps, _, _, h2, h3⟩ := hb hs sig a r hp'.symm
      refine ⟨k, hs, hk, ?_, ?_⟩
      · simp only [signCommit]
        split
        · rfl
        · split <;> rfl
      · have hno : ¬ (sig.length > 65535 ∨ sig.length > cfg.maxHssSigLen) := by omega
        by_cases hcb : cb (k.increment H.n hs).bytes = true
        · simp [signCommit, hcb, hno]
        · simp [signCommit, hcb]

/-- no signature is ever released without an accepted callback -/
theorem no_signature_without_callback (H : HashFn) (cfg : Config) (msg sk : Bytes) (cb : Bytes → Bool)
    (aux : Option Bytes) (o : SignOutcome) (h : hssSign H cfg msg sk cb aux = .ok o) (ht : o.trace = []) :
    o.result = none := by
  cases hr : o.result with
  | none => rfl
  | some sig =>
    obtain ⟨k, hs, _, htr, _⟩ := C04.signature_only_after_accepted_callback H cfg msg sk cb aux o sig h hr
    rw [ht] at htr
    simp at htr

/-- wrong length (truncated, extended, empty key): error, no callback, aux untouched -/
theorem wrong_length_key (H : HashFn) (cfg : Config) (msg sk : Bytes) (cb : Bytes → Bool) (aux : Option Bytes)
    (hl : sk.length ≠ 16 + H.n) : hssSign H cfg msg sk cb aux = .ok ⟨none, [], aux, []⟩ :=
  C04.wrong_length_key_fails_before_callback H cfg msg sk cb aux
    (by simpa [Generated.REF_IMPL_MAX_PRIVATE_KEY_SIZE, Generated.MAX_SEED_LEN] using hl)

/-- invalid parameter bytes (unknown type codes, beyond the build limits, no level at all, signature too long):
error, no callback, aux untouched -/
theorem invalid_parameter_bytes (H : HashFn) (cfg : Config) (msg sk : Bytes) (cb : Bytes → Bool) (aux : Option Bytes)
    (k : RefKey) (hk : RefKey.parse H.n sk = some k) (hp : paramsOfBytes cfg H.n k.params = none) :
    hssSign H cfg msg sk cb aux = .ok ⟨none, [], aux, []⟩ :=
  C04.unusable_parameters_fail_before_callback H cfg msg sk cb aux k hk hp

/-- the wiped key - what an exhausted key is replaced by - has no usable parameter set -/
theorem wiped_params_refused (cfg : Config) (n : Nat) : paramsOfBytes cfg n (RefKey.wiped n).params = none := by
  simp [RefKey.wiped, paramsOfBytes, Generated.REF_IMPL_MAX_ALLOWED_HSS_LEVELS, List.replicate, paramsOfBytes.go,
    Generated.PARAM_SET_END]

/-- signing with a wiped / exhausted key: error, no callback, aux untouched -/
theorem wiped_key (H : HashFn) (cfg : Config) (msg : Bytes) (cb : Bytes → Bool) (aux : Option Bytes)
    (sk : Bytes) (k : RefKey) (hk : RefKey.parse H.n sk = some k) (hw : k.params = (RefKey.wiped H.n).params) :
    hssSign H cfg msg sk cb aux = .ok ⟨none, [], aux, []⟩ :=
  invalid_parameter_bytes H cfg msg sk cb aux k hk (by rw [hw]; exact wiped_params_refused cfg H.n)

/-- lifetime query on a key of the wrong length or with unusable parameter bytes: `Err`, not a panic -/
theorem lifetime_errors (H : HashFn) (cfg : Config) (sk : Bytes)
    (h : RefKey.parse H.n sk = none ∨ ∃ k, RefKey.parse H.n sk = some k ∧ paramsOfBytes cfg H.n k.params = none) :
    getLifetime H cfg sk = .ok none := by
  unfold getLifetime
  split
  · rfl
  · rcases h with h | ⟨k, hk, hp⟩
    · simp [h, pure, Except.pure]
    · simp [hk, expandPrivateKey, hp, bind, Except.bind, pure, Except.pure]

/-- key generation with a refused parameter list (empty, too many levels, beyond the limits, signature too long):
error, aux untouched -/
theorem keygen_refused (H : HashFn) (cfg : Config) (ps : List HssParam) (seed : Bytes) (aux : Option Bytes)
    (h : bytesOfParams cfg H.n ps = .ok none) : hssKeygen H cfg ps seed aux = .ok ⟨none, aux, []⟩ :=
  hssKeygen_refused H cfg ps seed aux h

/-- more than `maxLevels` levels (in particular more than eight) are refused -/
theorem keygen_too_many_levels (H : HashFn) (cfg : Config) (ps : List HssParam) (seed : Bytes) (aux : Option Bytes)
    (h : ps.length > cfg.maxLevels) : hssKeygen H cfg ps seed aux = .ok ⟨none, aux, []⟩ := by
  apply keygen_refused
  unfold bytesOfParams
  simp [h, pure, Except.pure]

/-- the empty parameter list is refused -/
theorem keygen_empty (H : HashFn) (cfg : Config) (seed : Bytes) (aux : Option Bytes) :
    hssKeygen H cfg [] seed aux = .ok ⟨none, aux, []⟩ := by
  unfold hssKeygen
  simp [bytesOfParams, bind, Except.bind, pure, Except.pure, sigLenSupported, Generated.REF_IMPL_MAX_ALLOWED_HSS_LEVELS,
    List.replicate, paramsOfBytes, paramsOfBytes.go, Generated.PARAM_SET_END, hssSigLen]

/-! ### the hypotheses are satisfiable -/

example : Config.default.wellFormed = true := by decide
example : (Config.mk 3 [5, 10, 5] [8, 4, 2]).wellFormed = true := by decide

end Props.C11

#print axioms Props.C11.sign_never_panics
#print axioms Props.C11.sign_no_fault
#print axioms Props.C11.keygen_never_panics
#print axioms Props.C11.keygen_never_panics_of_types
#print axioms Props.C11.lifetime_never_panics
#print axioms Props.C11.trySign_never_panics
#print axioms Props.C11.sign_outcomes
#print axioms Props.C11.no_signature_without_callback
#print axioms Props.C11.wrong_length_key
#print axioms Props.C11.invalid_parameter_bytes
#print axioms Props.C11.wiped_params_refused
#print axioms Props.C11.wiped_key
#print axioms Props.C11.lifetime_errors
#print axioms Props.C11.keygen_refused
#print axioms Props.C11.keygen_too_many_levels
#print axioms Props.C11.keygen_empty

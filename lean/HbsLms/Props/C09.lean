/-
C09 - key generation and signing are pure functions of their inputs.
-/
import HbsLms.Impl.Hss
import HbsLms.Generated.Decls

namespace Props.C09

open Impl

/-- Kernel-checked verdict on the inventory regenerated from the current sources: outside `cfg(test)` and outside the
`fast_verify` feature the library contains no `static`, no interior mutability (`Cell`, `RefCell`, atomics, locks),
no random number generator, no clock, no environment or file access and no `unsafe`. -/
theorem no_ambient_state_outside_fast_verify :
    Generated.ambientSites.filter (fun s => !s.fastVerifyOnly) = [] := by decide +kernel

/-- A world with arbitrarily many keys, buffers and earlier operations: the log of everything that happened. -/
inductive Op where
  | keygen (H : HashFn) (cfg : Config) (ps : List HssParam) (seed : Bytes) (aux : Option Bytes)
  | sign (H : HashFn) (cfg : Config) (msg sk : Bytes) (accept : Bool) (aux : Option Bytes)
  | trySign (H : HashFn) (cfg : Config) (msg sk : Bytes) (aux : Option Bytes)
  | verify (H : HashFn) (cfg : Config) (msg sig pk : Bytes)

inductive Out where
  | keygen (r : P KeygenOutcome)
  | sign (r : P SignOutcome)
  | trySign (r : P (Option (SignOutcome × Bytes)))
  | verify (r : P Bool)

/-- what an operation returns: a function of its explicit arguments only -/
def eval : Op → Out
  | .keygen H cfg ps seed aux => .keygen (hssKeygen H cfg ps seed aux)
  | .sign H cfg msg sk accept aux => .sign (hssSign H cfg msg sk (fun _ => accept) aux)
  | .trySign H cfg msg sk aux => .trySign (trySign H cfg msg sk aux)
  | .verify H cfg msg sig pk => .verify (hssVerify H cfg msg sig pk)

/-- the world is the history of operations and their outputs -/
abbrev World := List (Op × Out)

def step (w : World) (op : Op) : World × Out := (w ++ [(op, eval op)], eval op)

def runOps (w : World) (ops : List Op) : World := ops.foldl (fun w op => (step w op).1) w

/-- For every history of operations on arbitrarily many keys (any interleaving of key generations, signatures
and verifications before it), the output of an operation is the same function of its own arguments. -/
theorem output_independent_of_history (w : World) (ops : List Op) (op : Op) :
    (step (runOps w ops) op).2 = (step w op).2 := rfl

/-- The in-memory signing key and the byte-level function agree: `try_sign` on key bytes `sk` releases exactly what
`sign` with an accepting callback releases, and the key it keeps is exactly the key the callback would have been
handed - so a key reloaded from storage continues like the one that stayed in memory. -/
theorem try_sign_is_sign (H : HashFn) (cfg : Config) (msg sk : Bytes) (aux : Option Bytes) (o : SignOutcome)
    (hcap : sk.length ≤ Config.maxPrivKeyLen)
    (ho : hssSign H cfg msg sk (fun _ => true) aux = .ok o)
    (hlen : ∀ k', o.trace = [k'] → k'.length = sk.length) :
    trySign H cfg msg sk aux = .ok (some (o, match o.trace with | [k'] => k' | _ => sk)) := by
  unfold trySign
  have : ¬ sk.length > Config.maxPrivKeyLen := by omega
  simp only [this, if_false, ho, bind, Except.bind]
  match hm : o.trace with
  | [] => simp [pure, Except.pure]
  | [k'] =>
    have := hlen k' hm
    simp [P.require, this, pure, Except.pure, bind, Except.bind]
  | _ :: _ :: _ => simp [pure, Except.pure]

end Props.C09

#print axioms Props.C09.no_ambient_state_outside_fast_verify
#print axioms Props.C09.output_independent_of_history
#print axioms Props.C09.try_sign_is_sign

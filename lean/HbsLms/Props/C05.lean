/-
C05 - lifetime accounting and key-state advance.
Part 1: `Impl.lifetimeOf` (the model of `HssPrivateKey::get_lifetime`: bottom-up loop over the levels with
saturating `u64` arithmetic) reports exactly the number of counters that are left, for every key shape with total
height at most 63 and every counter below the number of leaves.
Part 2: one `Impl.hssSign` call realises one step of the abstract key state machine `Spec.step`
(Spec/History.lean), whose histories are characterised in Props/C03.lean.
Property theorems only; proofs in Lemmas/Lifetime.lean and Lemmas/History.lean.
-/
import HbsLms.Lemmas.Lifetime
import HbsLms.Lemmas.History
import HbsLms.Props.C04

namespace Props.C05

open Impl Spec

/-! ### Part 1: lifetime -/

/-- The lifetime reported for the key with counter `c` is `2^(h_0+…+h_{L-1}) - c`: for every non-empty list of
tree heights with total height at most 63 and every counter below the number of leaves. -/
theorem lifetime_eq (hs : List Nat) (c : Nat) (hne : hs ≠ []) (hsum : hs.sum ≤ 63) (hc : c < 2 ^ hs.sum) :
    lifetimeOf hs (mixedRadix hs c) = 2 ^ hs.sum - c :=
  Lemmas.lifetime_eq hs c hne hsum hc

/-- the same on the leaf vector the library itself derives from the counter -/
theorem lifetime_of_counter (hs : List Nat) (c : Nat) (hne : hs ≠ []) (hsum : hs.sum ≤ 63)
    (hc : c < leavesTotal hs) :
    lifetimeOf hs (leavesOfCounter hs c) = leavesTotal hs - c := by
  rw [Lemmas.leavesOfCounter_eq]
  exact Lemmas.lifetime_eq hs c hne hsum hc

/-- A fresh key reports the full number of leaves. -/
theorem fresh_key_lifetime (hs : List Nat) (hne : hs ≠ []) (hsum : hs.sum ≤ 63) :
    lifetimeOf hs (leavesOfCounter hs 0) = leavesTotal hs := by
  rw [lifetime_of_counter hs 0 hne hsum (Nat.two_pow_pos _)]
  rfl

/-- Each advance of the counter lowers the reported lifetime by exactly one. -/
theorem lifetime_decreases_by_one (hs : List Nat) (c : Nat) (hne : hs ≠ []) (hsum : hs.sum ≤ 63)
    (hc : c + 1 < leavesTotal hs) :
    lifetimeOf hs (leavesOfCounter hs (c + 1)) + 1 = lifetimeOf hs (leavesOfCounter hs c) := by
  rw [lifetime_of_counter hs (c + 1) hne hsum hc, lifetime_of_counter hs c hne hsum (by omega)]
  omega

/-- The key at its last counter reports one remaining signature (never zero while it can still sign). -/
theorem last_counter_lifetime_one (hs : List Nat) (hne : hs ≠ []) (hsum : hs.sum ≤ 63) :
    lifetimeOf hs (leavesOfCounter hs (leavesTotal hs - 1)) = 1 := by
  have hp : 0 < leavesTotal hs := Nat.two_pow_pos _
  rw [lifetime_of_counter hs _ hne hsum (by omega)]
  omega

/-- The loop computes the closed form `Lemmas.life` for EVERY leaf vector with one entry per level (not only
digit vectors of counters): bottom tree `2^h - q` leaves, every tree above it `2^h - q - 1` further subtrees. -/
theorem lifetime_closed_form (hs qs : List Nat) (hlen : qs.length = hs.length) (hsum : hs.sum ≤ 63) :
    lifetimeOf hs qs = Lemmas.life hs qs :=
  Lemmas.lifetimeOf_eq_life hs qs hlen hsum

/-- `get_lifetime` never overflows: for every shape (any total height) and every leaf vector the result fits the
`u64` it is returned in. (`lifetimeOf` is a total function: there is no panicking path.) -/
theorem lifetime_never_panics (hs qs : List Nat) : lifetimeOf hs qs ≤ 2 ^ 64 - 1 :=
  Lemmas.lifetimeOf_le_u64 hs qs

/-- Accounting over histories: after ANY history of a fresh key that leaves it live, the reported lifetime plus
the number of signatures released so far is the number of leaves. -/
theorem lifetime_plus_released_is_total (hs : List Nat) (hne : hs ≠ []) (hsum : hs.sum ≤ 63) (ops : List Op)
    (c : Nat) (hlive : (run hs (.live 0) ops).1 = .live c) :
    lifetimeOf hs (leavesOfCounter hs c) + (run hs (.live 0) ops).2.length = leavesTotal hs := by
  rw [Lemmas.run_fresh hs hsum ops] at hlive ⊢
  simp only [List.length_range]
  by_cases h : min (accepts ops) (2 ^ hs.sum) < 2 ^ hs.sum
  · simp only [h, if_true, KeyState.live.injEq] at hlive
    subst hlive
    rw [lifetime_of_counter hs _ hne hsum h]
    simp only [leavesTotal]
    omega
  · simp [h] at hlive

/-- `SigningKey::get_lifetime` on key bytes: whenever it answers, the answer is the number of counters left,
`2^(h_0+…+h_{L-1}) - counter`, with the heights of the key's own parameter bytes (total height at most 63, counter
below the number of leaves). -/
theorem getLifetime_reports_remaining {H : HashFn} {cfg : Config} {sk : Bytes} {L : Nat}
    (h : getLifetime H cfg sk = .ok (some L)) :
    ∃ k ps, RefKey.parse H.n sk = some k ∧ paramsOfBytes cfg H.n k.params = some ps ∧
      L = lifetimeOf (ps.map (·.lms.h)) (leavesOfCounter (ps.map (·.lms.h)) k.counter) ∧
      ((ps.map (·.lms.h)).sum ≤ 63 → k.counter < leavesTotal (ps.map (·.lms.h)) →
        L = leavesTotal (ps.map (·.lms.h)) - k.counter) := by
  obtain ⟨k, ps, hk, hps, hne, hL⟩ := Lemmas.getLifetime_value h
  refine ⟨k, ps, hk, hps, hL, fun hsum hc => ?_⟩
  rw [hL]
  exact lifetime_of_counter _ _ (by simpa using hne) hsum hc

/-! ### Part 2: one signing call is one step of the key state machine -/

/-- One `hssSign` call realises one `Spec.step` on the parsed key. Whatever the inputs and the callback, exactly
one of the following happened:
* `signFail`: the key did not parse or a step before the hand-over failed - the callback was not invoked,
  nothing was released (the caller still holds the old key: state unchanged);
* otherwise the callback was invoked exactly once, with the bytes of the key that represents the successor state
  `(step hs (live k.counter) signAccept).1` (`c+1`, or the wiped key after the last counter), and
  - `signReject`: it reported failure and nothing was released, or
  - `signAccept`: it accepted and the signature assembled for counter `k.counter` was released, or
  - it accepted but the signature does not fit the signature object (`> 65535` bytes or above the configured
    maximum; excluded for accepted parameter sets by the limits, C14): the key advanced, nothing was released
    (a skipped counter, never a reused one). -/
theorem hssSign_realises_step {H : HashFn} {cfg : Config} {msg sk : Bytes} {cb : Bytes → Bool}
    {aux : Option Bytes} {o : SignOutcome} (h : hssSign H cfg msg sk cb aux = .ok o) :
    (o.result = none ∧ o.trace = []) ∨
    ∃ k hs sig a r, RefKey.parse H.n sk = some k ∧
      signPrepare H cfg msg k aux = .ok (.ready hs sig a r) ∧
      o.trace = [(Lemmas.keyOfState k H.n (step hs (.live k.counter) .signAccept).1).bytes] ∧
      ((cb (Lemmas.keyOfState k H.n (step hs (.live k.counter) .signAccept).1).bytes = false ∧ o.result = none) ∨
       (cb (Lemmas.keyOfState k H.n (step hs (.live k.counter) .signAccept).1).bytes = true ∧
          o.result = some sig ∧ (step hs (.live k.counter) .signAccept).2 = some k.counter) ∨
       (cb (Lemmas.keyOfState k H.n (step hs (.live k.counter) .signAccept).1).bytes = true ∧
          o.result = none ∧ (sig.length > 65535 ∨ sig.length > cfg.maxHssSigLen))) := by
  rcases C04.hssSign_cases h with ⟨_, rfl⟩ | ⟨k, p, hk, hp, rfl⟩
  · exact Or.inl ⟨rfl, rfl⟩
  · cases p with
    | failed a r => exact Or.inl ⟨rfl, rfl⟩
    | ready hs sig a r =>
      refine Or.inr ⟨k, hs, sig, a, r, hk, hp, ?_⟩
      rw [← Lemmas.increment_eq_step]
      by_cases hcb : cb (k.increment H.n hs).bytes = true
      · by_cases hlen : (decide (sig.length > 65535) || decide (sig.length > cfg.maxHssSigLen)) = true
        · have hsc : signCommit H.n cfg cb k (.ready hs sig a r) = ⟨none, [(k.increment H.n hs).bytes], a, r⟩ := by
            simp only [signCommit, hcb, hlen, Bool.not_true, Bool.false_eq_true, if_false, if_true]
          rw [hsc]
          exact ⟨rfl, Or.inr (Or.inr ⟨hcb, rfl, by simpa using hlen⟩)⟩
        · have hsc : signCommit H.n cfg cb k (.ready hs sig a r) = ⟨some sig, [(k.increment H.n hs).bytes], a, r⟩ := by
            simp only [signCommit, hcb, hlen, Bool.not_true, Bool.false_eq_true, if_false]
          rw [hsc]
          exact ⟨rfl, Or.inr (Or.inl ⟨hcb, rfl, rfl⟩)⟩
      · have hf : cb (k.increment H.n hs).bytes = false := by simpa using hcb
        have hsc : signCommit H.n cfg cb k (.ready hs sig a r) = ⟨none, [(k.increment H.n hs).bytes], a, r⟩ := by
          simp only [signCommit, hf, Bool.not_false, if_true]
        rw [hsc]
        exact ⟨rfl, Or.inl ⟨hf, rfl⟩⟩

/-- A released signature always comes with the accepted successor state: if `hssSign` returns a signature, the
callback accepted the key of the state after `signAccept`, and the released counter is the parsed key's counter. -/
theorem release_implies_accepted_successor {H : HashFn} {cfg : Config} {msg sk : Bytes} {cb : Bytes → Bool}
    {aux : Option Bytes} {o : SignOutcome} {sig : Bytes}
    (h : hssSign H cfg msg sk cb aux = .ok o) (hs : o.result = some sig) :
    ∃ k hts, RefKey.parse H.n sk = some k ∧
      o.trace = [(Lemmas.keyOfState k H.n (step hts (.live k.counter) .signAccept).1).bytes] ∧
      cb (Lemmas.keyOfState k H.n (step hts (.live k.counter) .signAccept).1).bytes = true ∧
      (step hts (.live k.counter) .signAccept).2 = some k.counter := by
  obtain ⟨k, hts, hk, ht, hcb⟩ := C04.signature_only_after_accepted_callback H cfg msg sk cb aux o sig h hs
  rw [Lemmas.increment_eq_step] at ht hcb
  exact ⟨k, hts, hk, ht, hcb, rfl⟩

/-- If the callback rejects or is never invoked, no new key was accepted and nothing is released: the persisted
state is unchanged (`signReject` / `signFail`). -/
theorem no_acceptance_no_release {H : HashFn} {cfg : Config} {msg sk : Bytes} {cb : Bytes → Bool}
    {aux : Option Bytes} {o : SignOutcome} (h : hssSign H cfg msg sk cb aux = .ok o)
    (hno : ∀ k', k' ∈ o.trace → cb k' = false) : o.result = none := by
  rcases hssSign_realises_step h with ⟨hr, _⟩ | ⟨k, hs, sig, a, r, _, _, ht, hcase⟩
  · exact hr
  · have hf := hno _ (by rw [ht]; exact List.mem_singleton.mpr rfl)
    rcases hcase with ⟨_, hr⟩ | ⟨ht', _⟩ | ⟨_, hr, _⟩
    · exact hr
    · rw [hf] at ht'; cases ht'
    · exact hr

/-- The heights `hs` with which a signing call advances the counter are the heights of the key's own parameter
bytes (so they are the same in every call on the same key: `increment` changes the counter only), and the signature
was assembled on the expanded key whose per-level leaves are the mixed-radix digits of the key's counter. -/
theorem signing_uses_key_heights_and_counter_leaves {H : HashFn} {cfg : Config} {msg : Bytes} {k : RefKey}
    {aux : Option Bytes} {hs : List Nat} {sig : Bytes} {a : Option Bytes} {r : Bytes}
    (h : signPrepare H cfg msg k aux = .ok (.ready hs sig a r)) :
    ∃ ps, paramsOfBytes cfg H.n k.params = some ps ∧ hs = ps.map (·.lms.h) ∧
      ∃ e0 ex e1, expandPrivateKey H cfg k e0 = .ok (some (ex, e1)) ∧
        ex.levels.map (·.q) = mixedRadix hs k.counter := by
  obtain ⟨ps, hps, _, hhs, e0, ex, e1, hex, hq⟩ := Lemmas.signPrepare_ready_shape h
  exact ⟨ps, hps, hhs, e0, ex, e1, hex, by rw [hq, Lemmas.leavesOfCounter_eq]⟩

-- non-vacuity
example : lifetimeOf [5, 10, 2] (leavesOfCounter [5, 10, 2] 0) = 2 ^ 17 := by decide
example : lifetimeOf [5, 10, 2] (leavesOfCounter [5, 10, 2] (3 * 4096 + 7 * 4 + 1)) = 2 ^ 17 - (3 * 4096 + 7 * 4 + 1) := by
  decide
example : ([5, 10, 2] : List Nat) ≠ [] ∧ ([5, 10, 2] : List Nat).sum ≤ 63 ∧ 3 * 4096 + 7 * 4 + 1 < 2 ^ ([5, 10, 2] : List Nat).sum := by
  decide
example : lifetimeOf [20, 20, 20] (leavesOfCounter [20, 20, 20] (2 ^ 60 - 1)) = 1 := by decide

end Props.C05

#print axioms Props.C05.lifetime_eq
#print axioms Props.C05.lifetime_of_counter
#print axioms Props.C05.fresh_key_lifetime
#print axioms Props.C05.lifetime_decreases_by_one
#print axioms Props.C05.last_counter_lifetime_one
#print axioms Props.C05.lifetime_closed_form
#print axioms Props.C05.lifetime_never_panics
#print axioms Props.C05.lifetime_plus_released_is_total
#print axioms Props.C05.getLifetime_reports_remaining
#print axioms Props.C05.hssSign_realises_step
#print axioms Props.C05.release_implies_accepted_successor
#print axioms Props.C05.no_acceptance_no_release
#print axioms Props.C05.signing_uses_key_heights_and_counter_leaves

/-
C12 - the chain positions used to sign a digest are the RFC 8554 base-2^w digits of the digest
followed by the digits of its checksum, with the Appendix B values of `ls` and `p`; hence the
checksum digits encode the full checksum and no digest's digit vector dominates that of another.

`Spec.AppendixB` is the RFC side (written without reference to the model), `Impl.digits` the model of
`append_checksum_to` + `coef`. `n` is the hash output length in bytes.
-/
import HbsLms.Lemmas.Digits

namespace Props.C12

open Spec.AppendixB Lemmas.Digits

/-! ### T0 - verdict on the generated parameter table (kernel-checked) -/

/-- every row of the library table has the Appendix B shape: `w ∈ {1,2,4,8}`, `p = u + v`, `ls ≤ 8` -/
theorem table_shape_ok : ∀ n ∈ [16, 24, 32], ∀ t ∈ [1, 2, 3, 4],
    (Params.lmotsGetFromType n t).map (RowShapeOk n) = some true := by decide +kernel

/-- a row has the Appendix B left shift exactly when it is not one of (n=24,w=1), (n=16,w=1), (n=16,w=2) -/
theorem table_rows_ok : ∀ n ∈ [16, 24, 32], ∀ t ∈ [1, 2, 3, 4],
    (Params.lmotsGetFromType n t).map (RowOk n) = some (!decide ((n, t) ∈ [(24, 1), (16, 1), (16, 2)])) := by
  decide +kernel

theorem row_32_1_ok : (Params.lmotsGetFromType 32 1).map (RowOk 32) = some true := by decide +kernel
theorem row_32_2_ok : (Params.lmotsGetFromType 32 2).map (RowOk 32) = some true := by decide +kernel
theorem row_32_3_ok : (Params.lmotsGetFromType 32 3).map (RowOk 32) = some true := by decide +kernel
theorem row_32_4_ok : (Params.lmotsGetFromType 32 4).map (RowOk 32) = some true := by decide +kernel
theorem row_24_2_ok : (Params.lmotsGetFromType 24 2).map (RowOk 24) = some true := by decide +kernel
theorem row_24_3_ok : (Params.lmotsGetFromType 24 3).map (RowOk 24) = some true := by decide +kernel
theorem row_24_4_ok : (Params.lmotsGetFromType 24 4).map (RowOk 24) = some true := by decide +kernel
theorem row_16_3_ok : (Params.lmotsGetFromType 16 3).map (RowOk 16) = some true := by decide +kernel
theorem row_16_4_ok : (Params.lmotsGetFromType 16 4).map (RowOk 16) = some true := by decide +kernel

/-- the three rows whose left shift is not the Appendix B value -/
theorem row_24_1_bad : (Params.lmotsGetFromType 24 1).map (RowOk 24) = some false ∧
    (Params.lmotsGetFromType 24 1).map (·.ls) = some 7 ∧ lsRfc 24 1 = 8 := by decide +kernel
theorem row_16_1_bad : (Params.lmotsGetFromType 16 1).map (RowOk 16) = some false ∧
    (Params.lmotsGetFromType 16 1).map (·.ls) = some 7 ∧ lsRfc 16 1 = 8 := by decide +kernel
theorem row_16_2_bad : (Params.lmotsGetFromType 16 2).map (RowOk 16) = some false ∧
    (Params.lmotsGetFromType 16 2).map (·.ls) = some 6 ∧ lsRfc 16 2 = 8 := by decide +kernel

/-- the Appendix B table itself: `(u, v, ls, p)` for `n = 32, 24, 16` and `w = 1, 2, 4, 8` -/
theorem appendixB_values :
    [32, 24, 16].map (fun n => [1, 2, 4, 8].map fun w => (u n w, v n w, lsRfc n w, pRfc n w)) =
      [[(256, 9, 7, 265), (128, 5, 6, 133), (64, 3, 4, 67), (32, 2, 0, 34)],
       [(192, 8, 8, 200), (96, 5, 6, 101), (48, 3, 4, 51), (24, 2, 0, 26)],
       [(128, 8, 8, 136), (64, 4, 8, 68), (32, 3, 4, 35), (16, 2, 0, 18)]] := by decide +kernel

/-- only the four type codes of the table exist -/
theorem library_type_mem {n t : Nat} {prm : LmotsParam} (h : Params.lmotsGetFromType n t = some prm) :
    t ∈ [1, 2, 3, 4] := by
  apply Classical.byContradiction
  intro hnot
  simp only [List.mem_cons, List.mem_nil_iff, or_false, not_or] at hnot
  obtain ⟨h1, h2, h3, h4⟩ := hnot
  have : Generated.lmotsGetFromType.lookup t = none := by
    simp [Generated.lmotsGetFromType, List.lookup, beq_eq_false_iff_ne.mpr h1, beq_eq_false_iff_ne.mpr h2,
      beq_eq_false_iff_ne.mpr h3, beq_eq_false_iff_ne.mpr h4]
  simp [Params.lmotsGetFromType, this] at h

/-- any parameter the library hands out for `n ∈ {16,24,32}` has the Appendix B shape -/
theorem library_row_shape {n t : Nat} {prm : LmotsParam} (hn : n = 16 ∨ n = 24 ∨ n = 32)
    (h : Params.lmotsGetFromType n t = some prm) : RowShapeOk n prm = true := by
  have := table_shape_ok n (mem_of_hn hn) t (library_type_mem h)
  rw [h] at this
  simpa using this

/-- … and, apart from the three rows above, the Appendix B left shift -/
theorem library_row_ok {n t : Nat} {prm : LmotsParam} (hn : n = 16 ∨ n = 24 ∨ n = 32)
    (h : Params.lmotsGetFromType n t = some prm) (hgood : (n, t) ∉ [(24, 1), (16, 1), (16, 2)]) :
    RowOk n prm = true := by
  have := table_rows_ok n (mem_of_hn hn) t (library_type_mem h)
  rw [h, decide_eq_false hgood] at this
  simpa using this

/-! ### T1 - the model computes the RFC digits, for all `2^(8n)` digests, without a fault -/

/-- `Impl.digits` (checksum loop on `u16`, `append_checksum_to` on an ArrayVec of capacity 34, `coef` with the
`!i & (8/w-1)` shift) returns exactly `coef(Q ‖ Cksm(Q), i, w)` for `i < p`; in particular it never faults. -/
theorem digits_eq_spec (n : Nat) (prm : LmotsParam) (Q : Bytes) (hn : n = 16 ∨ n = 24 ∨ n = 32)
    (hrow : RowShapeOk n prm = true) (hQ : Q.length = n) :
    Impl.digits n prm Q = .ok (digitsSpec n prm.w prm.ls Q) := by
  obtain ⟨hw, hp, _⟩ := rowShapeOk_iff.mp hrow
  have hnum := t1Num_all n (mem_of_hn hn) prm.w hw
  simp only [T1Num, Bool.and_eq_true, decide_eq_true_eq] at hnum
  obtain ⟨⟨h1, h2⟩, h3⟩ := hnum
  exact digits_eq_spec_of prm Q hw hQ (by omega) hp h1 h2 h3

/-- the same for every parameter set the library can construct -/
theorem digits_eq_spec_library (n t : Nat) (prm : LmotsParam) (Q : Bytes) (hn : n = 16 ∨ n = 24 ∨ n = 32)
    (hprm : Params.lmotsGetFromType n t = some prm) (hQ : Q.length = n) :
    Impl.digits n prm Q = .ok (digitsSpec n prm.w prm.ls Q) :=
  digits_eq_spec n prm Q hn (library_row_shape hn hprm) hQ

/-- digit extraction alone: inside the byte string `Impl.coef` is the RFC `coef` … -/
theorem coef_eq_spec (bs : Bytes) (i w : Nat) (hw : w ∈ [1, 2, 4, 8]) (hi : i < 65536) (hidx : i * w / 8 < bs.length) :
    Impl.coef bs i w = .ok (rfcCoef bs i w) := coef_eq_rfcCoef hw hi hidx

/-- … and `p` was chosen so that all `p` digits lie inside `Q ‖ cksm` (`p*w ≤ 8n + 16`), the `u16` checksum cannot
overflow (`u*(2^w-1) ≤ 8160`) and the ArrayVec of capacity 34 suffices (`n + 2 ≤ 34`). -/
theorem no_fault_bounds : ∀ n ∈ [16, 24, 32], ∀ w ∈ [1, 2, 4, 8],
    pRfc n w * w ≤ 8 * n + 16 ∧ u n w * (2 ^ w - 1) ≤ 8160 ∧ n + 2 ≤ Generated.MAX_HASH_SIZE + 2 := by decide +kernel

/-! ### T2 - the checksum digits encode the full checksum -/

/-- With the Appendix B shift, the last `v` digits read as a base-`2^w` number (most significant first) are the
unshifted checksum sum `S = Σ_{i<u} (2^w-1 - ds[i])`; `S < 2^(v*w)` and the 16-bit field holds `S * 2^ls` untruncated. -/
theorem checksum_digits_encode (n : Nat) (prm : LmotsParam) (Q : Bytes) (hn : n = 16 ∨ n = 24 ∨ n = 32)
    (hrow : RowOk n prm = true) (hQ : Q.length = n) :
    let ds := digitsSpec n prm.w prm.ls Q
    let S := ((List.range (u n prm.w)).map fun i => 2 ^ prm.w - 1 - ds.getD i 0).sum
    ofDigits (2 ^ prm.w) (ds.drop (u n prm.w)) = S ∧ S < 2 ^ (v n prm.w * prm.w) ∧
      cksm n prm.w prm.ls Q = S * 2 ^ prm.ls := by
  obtain ⟨hw, _, hls⟩ := rowOk_iff.mp hrow
  have hN := numOk_all n (mem_of_hn hn) prm.w hw
  intro ds S
  have hS : S = cksmSum n prm.w Q := cksmSum_eq_of_digits hw prm.ls hQ
  obtain ⟨hc, hlt⟩ := cksm_eq_mul hN Q
  rw [hS]
  refine ⟨?_, hlt, by rw [hls]; exact hc⟩
  show ofDigits (2 ^ prm.w) ((digitsSpec n prm.w prm.ls Q).drop (u n prm.w)) = _
  rw [digitsSpec_drop, ofDigits_range _ _ prm.w _ rfl, hls]
  exact cksm_digits_value hw hN hQ

/-! ### T3 - the digit vector determines the digest -/

theorem digitsSpec_injective (n w ls : Nat) (Q Q' : Bytes) (hw : w ∈ [1, 2, 4, 8])
    (hQ : Q.length = n) (hQ' : Q'.length = n) (h : digitsSpec n w ls Q = digitsSpec n w ls Q') : Q = Q' :=
  digitsSpec_injective' hw hQ hQ' (fun i _ => by rw [h])

/-! ### T4 - no digit vector is component-wise ≥ that of a different digest -/

/-- `DominatedBy p ds ds'` is `∀ i < p, ds[i] ≤ ds'[i]` -/
theorem domination_free (n : Nat) (prm : LmotsParam) (Q Q' : Bytes) (hn : n = 16 ∨ n = 24 ∨ n = 32)
    (hrow : RowOk n prm = true) (hQ : Q.length = n) (hQ' : Q'.length = n) (hne : Q ≠ Q') :
    ¬ (∀ i, i < pRfc n prm.w →
        (digitsSpec n prm.w prm.ls Q).getD i 0 ≤ (digitsSpec n prm.w prm.ls Q').getD i 0) := by
  obtain ⟨hw, _, hls⟩ := rowOk_iff.mp hrow
  have hN := numOk_all n (mem_of_hn hn) prm.w hw
  rw [hls]
  exact not_dominated hw hN hQ hQ' hne

/-- the same about the model: for an Appendix B row, the chain positions the model signs with for `Q` are never all
≤ those for a different digest `Q'` (so a signature on `Q` cannot be advanced to one on `Q'`). -/
theorem domination_free_impl (n : Nat) (prm : LmotsParam) (Q Q' : Bytes) (ds ds' : List Nat)
    (hn : n = 16 ∨ n = 24 ∨ n = 32) (hrow : RowOk n prm = true) (hQ : Q.length = n) (hQ' : Q'.length = n)
    (hne : Q ≠ Q') (hd : Impl.digits n prm Q = .ok ds) (hd' : Impl.digits n prm Q' = .ok ds') :
    ds.length = prm.p ∧ ds'.length = prm.p ∧ ¬ (∀ i, i < prm.p → ds.getD i 0 ≤ ds'.getD i 0) := by
  obtain ⟨_, hp, _⟩ := rowOk_iff.mp hrow
  have hshape : RowShapeOk n prm = true := rowShapeOk_of_rowOk hn hrow
  rw [digits_eq_spec n prm Q hn hshape hQ] at hd
  rw [digits_eq_spec n prm Q' hn hshape hQ'] at hd'
  cases hd; cases hd'
  rw [hp]
  exact ⟨digitsSpec_length _ _ _ _, digitsSpec_length _ _ _ _, domination_free n prm Q Q' hn hrow hQ hQ' hne⟩

/-! ### T5 - the three rows with a too small shift do admit domination (concrete witnesses) -/

/-- all-`0xff` digest except the last byte `0xfe` (checksum sum 1) -/
def Qlo (n : Nat) : Bytes := List.replicate (n - 1) 0xff ++ [0xfe]
/-- all-`0xff` digest (checksum sum 0) -/
def Qhi (n : Nat) : Bytes := List.replicate n 0xff

/-- n = 16, w = 2, library `ls = 6` (Appendix B: 8): checksum sums 1 and 0 differ only in bits dropped by the shift -/
theorem dominated_16_2 : Qlo 16 ≠ Qhi 16 ∧ (Qlo 16).length = 16 ∧ (Qhi 16).length = 16 ∧
    ∀ i, i < pRfc 16 2 → (digitsSpec 16 2 6 (Qlo 16)).getD i 0 ≤ (digitsSpec 16 2 6 (Qhi 16)).getD i 0 := by
  decide +kernel

/-- n = 24, w = 1, library `ls = 7` (Appendix B: 8) -/
theorem dominated_24_1 : Qlo 24 ≠ Qhi 24 ∧ (Qlo 24).length = 24 ∧ (Qhi 24).length = 24 ∧
    ∀ i, i < pRfc 24 1 → (digitsSpec 24 1 7 (Qlo 24)).getD i 0 ≤ (digitsSpec 24 1 7 (Qhi 24)).getD i 0 := by
  decide +kernel

/-- n = 16, w = 1, library `ls = 7` (Appendix B: 8) -/
theorem dominated_16_1 : Qlo 16 ≠ Qhi 16 ∧ (Qlo 16).length = 16 ∧ (Qhi 16).length = 16 ∧
    ∀ i, i < pRfc 16 1 → (digitsSpec 16 1 7 (Qlo 16)).getD i 0 ≤ (digitsSpec 16 1 7 (Qhi 16)).getD i 0 := by
  decide +kernel

/-- the witnesses at the level of the model, for the parameter rows the library really uses -/
theorem dominated_impl : ∀ nt ∈ [(16, 2), (24, 1), (16, 1)],
    ∃ prm ds ds', Params.lmotsGetFromType nt.1 nt.2 = some prm ∧
      Impl.digits nt.1 prm (Qlo nt.1) = .ok ds ∧ Impl.digits nt.1 prm (Qhi nt.1) = .ok ds' ∧
      Qlo nt.1 ≠ Qhi nt.1 ∧ ∀ i, i < prm.p → ds.getD i 0 ≤ ds'.getD i 0 := by
  intro nt hnt
  simp only [List.mem_cons, List.mem_nil_iff, or_false] at hnt
  rcases hnt with rfl | rfl | rfl
  · refine ⟨⟨2, 2, 68, 6⟩, _, _, by decide +kernel,
      digits_eq_spec 16 _ _ (by decide) (by decide +kernel) (by decide),
      digits_eq_spec 16 _ _ (by decide) (by decide +kernel) (by decide), dominated_16_2.1, dominated_16_2.2.2.2⟩
  · refine ⟨⟨1, 1, 200, 7⟩, _, _, by decide +kernel,
      digits_eq_spec 24 _ _ (by decide) (by decide +kernel) (by decide),
      digits_eq_spec 24 _ _ (by decide) (by decide +kernel) (by decide), dominated_24_1.1, dominated_24_1.2.2.2⟩
  · refine ⟨⟨1, 1, 136, 7⟩, _, _, by decide +kernel,
      digits_eq_spec 16 _ _ (by decide) (by decide +kernel) (by decide),
      digits_eq_spec 16 _ _ (by decide) (by decide +kernel) (by decide), dominated_16_1.1, dominated_16_1.2.2.2⟩

/-! ### the hypotheses are satisfiable -/

example : RowOk 32 ⟨4, 8, 34, 0⟩ = true ∧ RowShapeOk 32 ⟨4, 8, 34, 0⟩ = true := by decide +kernel
example : RowShapeOk 16 ⟨2, 2, 68, 6⟩ = true ∧ RowOk 16 ⟨2, 2, 68, 6⟩ = false := by decide +kernel
example : ∃ prm, Params.lmotsGetFromType 32 1 = some prm ∧ RowOk 32 prm = true := ⟨⟨1, 1, 265, 7⟩, by decide +kernel⟩
example : ∃ Q Q' : Bytes, Q.length = 32 ∧ Q'.length = 32 ∧ Q ≠ Q' :=
  ⟨List.replicate 32 0, List.replicate 32 1, by decide⟩
example : Impl.digits 16 ⟨4, 8, 18, 0⟩ (Qhi 16) = .ok (List.replicate 16 255 ++ [0, 0]) := by
  rw [digits_eq_spec 16 _ _ (by decide) (by decide +kernel) (by decide)]
  exact congrArg _ (by decide +kernel)

end Props.C12

#print axioms Props.C12.table_shape_ok
#print axioms Props.C12.table_rows_ok
#print axioms Props.C12.row_24_1_bad
#print axioms Props.C12.row_16_1_bad
#print axioms Props.C12.row_16_2_bad
#print axioms Props.C12.appendixB_values
#print axioms Props.C12.library_row_shape
#print axioms Props.C12.library_row_ok
#print axioms Props.C12.digits_eq_spec
#print axioms Props.C12.digits_eq_spec_library
#print axioms Props.C12.coef_eq_spec
#print axioms Props.C12.no_fault_bounds
#print axioms Props.C12.checksum_digits_encode
#print axioms Props.C12.digitsSpec_injective
#print axioms Props.C12.domination_free
#print axioms Props.C12.domination_free_impl
#print axioms Props.C12.dominated_16_2
#print axioms Props.C12.dominated_24_1
#print axioms Props.C12.dominated_16_1
#print axioms Props.C12.dominated_impl

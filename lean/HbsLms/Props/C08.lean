/-
C08 - keys are derived and encoded exactly as the hash-sigs reference does (encoding part; the derivation is
compared byte for byte by the correspondence check against an independent transcription).
-/
import HbsLms.Lemmas.PrivKey

namespace Props.C08

open Impl Lemmas

theorem toNat_be (k v : Nat) : Bytes.toNat (Bytes.be k v) = v % 256 ^ k := by
  unfold Bytes.toNat
  suffices h : ∀ a, (Bytes.be k v).foldl (fun a x => a * 256 + x.toNat) a = a * 256 ^ k + v % 256 ^ k by
    simpa using h 0
  induction k with
  | zero => intro a; simp [Bytes.be, Nat.mod_one]
  | succ k ih =>
    intro a
    simp only [Bytes.be, List.foldl_cons]
    rw [ih]
    have h1 : (UInt8.ofNat (v / 256 ^ k % 256)).toNat = v / 256 ^ k % 256 := by
      simp [UInt8.toNat_ofNat']
    rw [h1, Nat.pow_succ, Nat.mod_mul]
    generalize 256 ^ k = X
    generalize v / X % 256 = d
    rw [Nat.add_mul, Nat.mul_assoc, Nat.mul_comm 256 X, Nat.mul_comm d X]
    omega

/-- The private key blob is `counter (8 bytes, big-endian) ‖ 8 parameter bytes ‖ seed`, and parsing is its inverse:
for every counter below 2^64, every 8 parameter bytes and every seed of the hash's length. -/
theorem blob_round_trip (n : Nat) (k : RefKey) (hc : k.counter < 2 ^ 64) (hp : k.params.length = 8)
    (hs : k.seed.length = n) : RefKey.parse n k.bytes = some k := by
  rw [parse_eq]
  have hl : k.bytes.length = 16 + n := by rw [bytes_length, hp, hs]
  simp only [hl, if_true]
  have hb : (Bytes.be 8 k.counter).length = 8 := be_length 8 _
  have e1 : k.bytes.take 8 = Bytes.be 8 k.counter := by
    simp [RefKey.bytes, Bytes.u64be, List.take_append_of_le_length, hb]
  have e2 : (k.bytes.drop 8).take 8 = k.params := by
    simp [RefKey.bytes, Bytes.u64be, List.drop_append, hb, hp]
  have e3 : (k.bytes.drop 16).take n = k.seed := by
    have : List.drop 16 (Bytes.be 8 k.counter) = [] := by
      apply List.drop_eq_nil_of_le; rw [hb]; omega
    simp [RefKey.bytes, Bytes.u64be, List.drop_append, hb, hp, this, ← hs]
  rw [e1, e2, e3, toNat_be]
  have : k.counter % 256 ^ 8 = k.counter := Nat.mod_eq_of_lt (by simpa using hc)
  rw [this]

/-- layout of the blob -/
theorem blob_layout (k : RefKey) : k.bytes = Bytes.be 8 k.counter ++ k.params ++ k.seed := rfl

/-- parsing is injective on what it accepts: the bytes determine counter, parameter bytes and seed -/
theorem parse_determines_bytes (n : Nat) (data : Bytes) (k : RefKey) (h : RefKey.parse n data = some k)
    (hc : True) : k.params = (data.drop 8).take 8 ∧ k.seed = (data.drop 16).take n ∧
      k.counter = Bytes.toNat (data.take 8) := by
  obtain ⟨_, _, _, rfl⟩ := parse_some h
  exact ⟨rfl, rfl, rfl⟩

example : RefKey.parse 2 (RefKey.bytes ⟨300, [0x54, 0x13, 0xff, 0xff, 0xff, 0xff, 0xff, 0xff], [7, 9]⟩)
    = some ⟨300, [0x54, 0x13, 0xff, 0xff, 0xff, 0xff, 0xff, 0xff], [7, 9]⟩ := by decide

end Props.C08

#print axioms Props.C08.toNat_be
#print axioms Props.C08.blob_round_trip
#print axioms Props.C08.parse_determines_bytes

/-
C06 - verification is total: arbitrary untrusted bytes never crash the verifier.
The model is panic-aware: every slice, index, `ArrayVec` capacity and checked-arithmetic site of the verification
path is a `P` primitive that yields `Fault.panic` exactly where the Rust code would panic, and the only loop that is
not structurally recursive (the Merkle root climb) runs on fuel with a fault if the fuel were to run out.
-/
import HbsLms.Lemmas.Verify

namespace Props.C06

open Impl

/-- For EVERY message, signature and public-key byte string - of any length, empty, truncated at any offset, with
unknown type codes, absurd level counts or trailing data - every hash function and every build configuration,
through each of the three verification entry points, the verifier returns success or error; it never faults
(no out-of-range slice or index, no capacity overflow, no arithmetic failure, no fuel exhaustion). -/
theorem verification_is_total (e : Entry) (H : HashFn) (cfg : Config) (msg sig pk : Bytes) :
    verifyEntry e H cfg msg sig pk = .ok true ∨ verifyEntry e H cfg msg sig pk = .ok false := by
  obtain ⟨b, hb⟩ := Lemmas.verifyEntry_total e H cfg msg sig pk
  cases b
  · right; exact hb
  · left; exact hb

/-- in particular `hss_verify` itself -/
theorem hss_verify_is_total (H : HashFn) (cfg : Config) (msg sig pk : Bytes) :
    ∃ b, hssVerify H cfg msg sig pk = .ok b := Lemmas.hssVerify_total H cfg msg sig pk

/-- Signatures shorter than their level-count field are rejected (not a fault). -/
theorem short_signature_rejected (H : HashFn) (cfg : Config) (msg sig pk : Bytes) (h : sig.length < 4) :
    hssVerify H cfg msg sig pk = .ok false := by
  unfold hssVerify
  have : InMemHssSig.parse cfg H.n sig = none := by
    simp only [InMemHssSig.parse, readAt]
    have : ¬ (0 + 4 ≤ sig.length) := by omega
    simp [this]
  simp [this, pure, Except.pure]

/-- An absurd level count (more signed public keys than the build supports) is rejected before anything is parsed. -/
theorem absurd_level_count_rejected (H : HashFn) (cfg : Config) (msg sig pk : Bytes)
    (h : 4 ≤ sig.length) (hl : Bytes.toNat (Bytes.slice sig 0 4) > cfg.maxLevels - 1) :
    hssVerify H cfg msg sig pk = .ok false := by
  unfold hssVerify
  have : InMemHssSig.parse cfg H.n sig = none := by
    simp only [InMemHssSig.parse, readAt]
    have h4 : 0 + 4 ≤ sig.length := by omega
    simp [h4, hl]
  simp [this, pure, Except.pure]

/-- A public key shorter than its fixed header is rejected (not a fault). -/
theorem short_public_key_rejected (H : HashFn) (cfg : Config) (msg sig pk : Bytes) (h : pk.length < 4) :
    hssVerify H cfg msg sig pk = .ok false := by
  unfold hssVerify
  have : parseHssPk H.n pk = none := by
    simp only [parseHssPk, readAt, Option.bind_eq_bind]
    have : ¬ (0 + 4 ≤ pk.length) := by omega
    simp [this]
  cases InMemHssSig.parse cfg H.n sig <;> simp [this, pure, Except.pure]

-- non-vacuity: the empty inputs are instances
example (H : HashFn) (cfg : Config) : hssVerify H cfg [] [] [] = .ok false :=
  short_signature_rejected H cfg [] [] [] (by simp)

end Props.C06

#print axioms Props.C06.verification_is_total
#print axioms Props.C06.hss_verify_is_total
#print axioms Props.C06.short_signature_rejected
#print axioms Props.C06.absurd_level_count_rejected
#print axioms Props.C06.short_public_key_rejected

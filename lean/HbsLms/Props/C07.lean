/-
C07 - the released signature has the RFC 8554 layout.

"The signature released for a private key with counter c is exactly: level count minus one, then for every upper
level an RFC 8554 LMS signature by that level's current leaf over the next level's LMS public key followed by that
public key, then the LMS signature of the message by the bottom tree's current leaf; every LM-OTS part uses the
Appendix-B parameters (n, w, p, ls) of its type code, every length equals the RFC formula, and the randomizer is the
seed-derived per-leaf value."

All statements are for an arbitrary hash function `H : HashFn` (a function with a fixed output length), without aux
data, and for whatever parameter bytes `CompressedParameterSet::to` (`paramsOfBytes`) accepts.

* T1 (`*_exact_length`): exact lengths of LM-OTS, LMS and HSS signatures.
* T2 (`*_layout`, `*_eq`): the released bytes as an explicit function `hssSigBytes` of (seed, parameter list,
  counter, message), and the defining equations of every part of it.
* T3 (`*_appendixB`): the LM-OTS parameters of every level are the Appendix B values of the type code.
-/
import HbsLms.Lemmas.Layout
import HbsLms.Props.C04
import HbsLms.Props.C12

namespace Props.C07

open Impl Generated Lemmas Lemmas.Complete Lemmas.Layout Spec Spec.AppendixB

/-! ## T1 - exact lengths -/

/-- T1a. Whatever `LmotsSignature::sign` + `to_binary_representation` returns - for any parameters and inputs - has
exactly `lmots_signature_length(n, p) = 4 + n + n*p` bytes, and the randomizer had exactly `n` bytes. -/
theorem lmots_signature_exact_length {H : HashFn} {I qb seed : Bytes} {prm : LmotsParam} {C msg o : Bytes}
    (h : lmotsSign H I qb seed prm C msg = .ok o) :
    o.length = 4 + H.n + H.n * prm.p ∧ C.length = H.n := lmotsSign_length h

/-- T1b. Whatever `LmsSignature::sign` + `to_binary_representation` releases (no aux data) has exactly
`lms_signature_length(n, p, h) = 4 + (4 + n + n*p) + 4 + n*h` bytes; its leaf lies inside the tree. -/
theorem lms_signature_exact_length {H : HashFn} {cfg : Config} {k : LmsKey} {q : Nat} {msg C sig : Bytes}
    {a : Option ExpAux} (h : lmsSign H cfg k q msg C none = .ok (some (sig, a))) :
    sig.length = 4 + (4 + H.n + H.n * k.ots.p) + 4 + H.n * k.lms.h ∧ C.length = H.n ∧ q < 2 ^ k.lms.h :=
  lmsSign_length h

/-- the serialised LMS public key of a tree with a 16-byte identifier has `4 + 4 + 16 + n` bytes -/
theorem lms_public_key_exact_length (H : HashFn) (k : LmsKey) (hI : k.I.length = 16) :
    (pkBytes H k).length = 4 + 4 + 16 + H.n := pkBytes_length H k hI

/-- the length formula of the model is the RFC 8554 one:
`4 + Σ_i (12 + n*(p_i + 1) + n*h_i) + (L - 1) * (24 + n)` -/
theorem hssSigLen_rfc (n : Nat) (ps : List HssParam) :
    hssSigLen n ps =
      4 + (ps.map fun p => 12 + n * (p.ots.p + 1) + n * p.lms.h).sum + (ps.length - 1) * (24 + n) := by
  rw [hssSigLen_eq_sum]
  have : (fun p : HssParam => lms_signature_length n p.ots.p p.lms.h)
      = fun p : HssParam => 12 + n * (p.ots.p + 1) + n * p.lms.h := by
    funext p
    simp only [lms_signature_length, lmots_signature_length, Nat.mul_add, Nat.mul_one]
    omega
  rw [this]
  simp only [lms_public_key_length, ILEN]

/-- T1c. The signature assembled by `hss_sign_core` has exactly `hssSigLen n ps` bytes. -/
theorem prepared_signature_exact_length {H : HashFn} {cfg : Config} {msg : Bytes} {k : RefKey} {hs : List Nat}
    {sig : Bytes} {a : Option Bytes} {r : Bytes} (h : signPrepare H cfg msg k none = .ok (.ready hs sig a r)) :
    ∃ ps, paramsOfBytes cfg H.n k.params = some ps ∧ sig.length = hssSigLen H.n ps := signPrepare_length h

/-- what `hssSign` releases is what `signPrepare` assembled for the parsed key -/
theorem released_is_prepared {H : HashFn} {cfg : Config} {msg sk : Bytes} {cb : Bytes → Bool} {aux : Option Bytes}
    {o : SignOutcome} {sig : Bytes} (h : hssSign H cfg msg sk cb aux = .ok o) (hr : o.result = some sig) :
    ∃ k hs a r, RefKey.parse H.n sk = some k ∧ signPrepare H cfg msg k aux = .ok (.ready hs sig a r) := by
  rcases Props.C04.hssSign_cases h with ⟨_, rfl⟩ | ⟨k, p, hk, hp, rfl⟩
  · simp at hr
  · cases p with
    | failed a r => simp [signCommit] at hr
    | ready hs sig' a r =>
      refine ⟨k, hs, a, r, hk, ?_⟩
      simp only [signCommit] at hr
      split at hr
      · simp at hr
      · split at hr
        · simp at hr
        · simp only [Option.some.injEq] at hr
          rw [← hr]; exact hp

/-- T1. Every signature released by `hss_sign_core` (no aux data; any key bytes, message and callback) has exactly
the RFC 8554 length for the key's parameter list. -/
theorem released_signature_exact_length {H : HashFn} {cfg : Config} {msg sk : Bytes} {cb : Bytes → Bool}
    {o : SignOutcome} {sig : Bytes} (h : hssSign H cfg msg sk cb none = .ok o) (hr : o.result = some sig) :
    ∃ k ps, RefKey.parse H.n sk = some k ∧ paramsOfBytes cfg H.n k.params = some ps ∧
      sig.length = 4 + (ps.map fun p => 12 + H.n * (p.ots.p + 1) + H.n * p.lms.h).sum + (ps.length - 1) * (24 + H.n) := by
  obtain ⟨k, hs, a, r, hk, hp⟩ := released_is_prepared h hr
  obtain ⟨ps, hps, hl⟩ := signPrepare_length hp
  exact ⟨k, ps, hk, hps, by rw [hl, hssSigLen_rfc]⟩

/-! ## T2 - layout -/

/-- T2 (core). The signature assembled by `hss_sign_core` for the key blob `(counter, params, seed)` is
`hssSigBytes H seed p0 rest counter msg`, where `p0 :: rest` is the decoded parameter list; `HssPrivateKey::from`
returned `expandedOf …`; every level has table parameters and a 16-byte identifier, and every level's current leaf
lies inside its tree. -/
theorem prepared_signature_layout {H : HashFn} {cfg : Config} {msg : Bytes} {k : RefKey} {hs : List Nat} {sig : Bytes}
    {a : Option Bytes} {r : Bytes} (h : signPrepare H cfg msg k none = .ok (.ready hs sig a r)) :
    ∃ p0 rest, paramsOfBytes cfg H.n k.params = some (p0 :: rest) ∧
      hs = (p0 :: rest).map (·.lms.h) ∧
      sig = hssSigBytes H k.seed p0 rest k.counter msg ∧
      GoodKey H.n (topLevel H k.seed p0 rest k.counter).key ∧
      (∀ c ∈ lowerLevels H k.seed p0 rest k.counter, GoodKey H.n c.key) ∧
      qsOk (topLevel H k.seed p0 rest k.counter) (lowerLevels H k.seed p0 rest k.counter) ∧
      (bottomLevel H k.seed p0 rest k.counter).q < 2 ^ (bottomLevel H k.seed p0 rest k.counter).key.lms.h ∧
      expandPrivateKey H cfg k none = .ok (some (expandedOf H k.seed p0 rest k.counter, none)) :=
  signPrepare_layout h

/-- T2. Every signature released by `hss_sign_core` (no aux data; any key bytes, message, callback) is `hssSigBytes`
of the parsed blob's seed, parameter list and counter. -/
theorem released_signature_layout {H : HashFn} {cfg : Config} {msg sk : Bytes} {cb : Bytes → Bool}
    {o : SignOutcome} {sig : Bytes} (h : hssSign H cfg msg sk cb none = .ok o) (hr : o.result = some sig) :
    ∃ k p0 rest, RefKey.parse H.n sk = some k ∧ paramsOfBytes cfg H.n k.params = some (p0 :: rest) ∧
      sig = hssSigBytes H k.seed p0 rest k.counter msg := by
  obtain ⟨k, hs, a, r, hk, hp⟩ := released_is_prepared h hr
  obtain ⟨p0, rest, hps, _, hsig, _⟩ := signPrepare_layout hp
  exact ⟨k, p0, rest, hk, hps, hsig⟩

/-! ### the defining equations of `hssSigBytes` and of its parts

The levels: `topLevel` is the tree derived from the blob's seed (`rootKey`), `lowerLevels` the trees below it
(`childLevel`), `bottomLevel` the last of them. -/

/-- the whole signature: `u32 (L-1) ‖ signed public keys ‖ LMS signature of the message by the bottom level` -/
theorem hssSigBytes_eq (H : HashFn) (seed : Bytes) (p0 : HssParam) (rest : List HssParam) (c : Nat) (msg : Bytes) :
    hssSigBytes H seed p0 rest c msg =
      Bytes.u32be ((p0 :: rest).length - 1) ++
        spkBytes H (topLevel H seed p0 rest c) (lowerLevels H seed p0 rest c) ++
        lmsSigBytes H (bottomLevel H seed p0 rest c).key (bottomLevel H seed p0 rest c).q msg
          (signatureRandomizer H (bottomLevel H seed p0 rest c).key.seed (bottomLevel H seed p0 rest c).key.I
            (bottomLevel H seed p0 rest c).q) := rfl

/-- the same in terms of the `Expanded` structure computed by `HssPrivateKey::from`:
`u32 (L-1) ‖ (sigs[i] ‖ pubs[i])_i ‖ bottom signature`, the bottom level being the last of `levels` -/
theorem hssSigBytes_expanded_eq (H : HashFn) (seed : Bytes) (p0 : HssParam) (rest : List HssParam) (c : Nat) (msg : Bytes) :
    hssSigBytes H seed p0 rest c msg =
      Bytes.u32be ((expandedOf H seed p0 rest c).levels.length - 1) ++
        (List.zipWith (· ++ ·) (expandedOf H seed p0 rest c).sigs (expandedOf H seed p0 rest c).pubs).flatten ++
        lmsSigBytes H (bottomLevel H seed p0 rest c).key (bottomLevel H seed p0 rest c).q msg
          (msgC H (bottomLevel H seed p0 rest c)) ∧
      (expandedOf H seed p0 rest c).levels.getLast? = some (bottomLevel H seed p0 rest c) :=
  hssSigBytes_expanded H seed p0 rest c msg

/-- the `Expanded` structure: the levels, the public keys of levels `1 … L-1`, the signatures by levels `0 … L-2` -/
theorem expandedOf_eq (H : HashFn) (seed : Bytes) (p0 : HssParam) (rest : List HssParam) (c : Nat) :
    expandedOf H seed p0 rest c =
      ⟨topLevel H seed p0 rest c :: lowerLevels H seed p0 rest c,
       (lowerLevels H seed p0 rest c).map (fun l => pkBytes H l.key),
       sigsOf H (topLevel H seed p0 rest c) (lowerLevels H seed p0 rest c)⟩ := rfl

/-- the signed public keys, for every upper level `i < L-1` (levels = `top :: lower`): the LMS signature by level `i`
at its current leaf over the serialised LMS public key of level `i+1`, followed by that public key -/
theorem signed_public_keys_eq (H : HashFn) (top : Level) (lower : List Level) (d : Level) :
    spkBytes H top lower = ((List.range lower.length).map fun i =>
      lmsSigBytes H ((top :: lower).getD i d).key ((top :: lower).getD i d).q
          (pkBytes H ((top :: lower).getD (i + 1) d).key) (linkC H ((top :: lower).getD i d)) ++
        pkBytes H ((top :: lower).getD (i + 1) d).key).flatten := spkBytes_indexed H lower top d

/-- an LMS signature: `u32 q ‖ LM-OTS signature ‖ u32 LMS type ‖ path[0] ‖ … ‖ path[h-1]`, the path being the siblings
`T[(2^h + q) / 2^i xor 1]` of the nodes on the walk from the leaf to the root -/
theorem lms_signature_eq (H : HashFn) (k : LmsKey) (q : Nat) (msg C : Bytes) :
    lmsSigBytes H k q msg C =
      Bytes.u32be q ++ lmotsSigBytes H k.I (Bytes.u32be q) k.seed k.ots C msg ++ Bytes.u32be k.lms.typeId ++
        ((List.range k.lms.h).map fun i => T H k i (((2 ^ k.lms.h + q) / 2 ^ i) ^^^ 1)).flatten := rfl

/-- an LMS public key: `u32 LMS type ‖ u32 LM-OTS type ‖ I ‖ T[1]` -/
theorem lms_public_key_eq (H : HashFn) (k : LmsKey) :
    pkBytes H k = Bytes.u32be k.lms.typeId ++ Bytes.u32be k.ots.typeId ++ k.I ++ T H k k.lms.h 1 := rfl

/-- the Merkle tree: leaves `H(I ‖ u32 r ‖ D_LEAF ‖ OTS_PUB[r - 2^h])`, inner nodes `H(I ‖ u32 r ‖ D_INTR ‖ T[2r] ‖ T[2r+1])` -/
theorem tree_eq (H : HashFn) (k : LmsKey) (d r : Nat) :
    T H k 0 r = leafNode H k r ∧
    T H k (d + 1) r = H.h (k.I ++ Bytes.u32be r ++ D_INTR ++ T H k d (2 * r) ++ T H k d (2 * r + 1)) := ⟨rfl, rfl⟩

/-- the randomizers: the bottom level signs the message with `SeedDerive(seed, I, q, 0xfffd)` of its own tree at its
current leaf; an upper level signs its child's public key with `SeedDerive(child seed, child I, q, 0xfffd)`, where
`q` is the upper level's current leaf and (child seed, child I) are derived from the upper level's seed, `I` and `q` -/
theorem randomizers_eq (H : HashFn) (l : Level) :
    msgC H l = seedDerive H l.key.seed l.key.I l.q SEED_SIGNATURE_RANDOMIZER_SEED ∧
    linkC H l = seedDerive H (seedDerive H l.key.seed l.key.I l.q SEED_CHILD_SEED)
        ((seedDerive H l.key.seed l.key.I l.q (SEED_CHILD_SEED + 1)).take 16) l.q SEED_SIGNATURE_RANDOMIZER_SEED :=
  ⟨rfl, rfl⟩

/-- the trees: level 0 is derived from the blob's seed; the tree below `parent` gets
`seed = SeedDerive(parent seed, parent I, parent q, 0xfffe)`, `I = SeedDerive(…, 0xffff)[0..16]` -/
theorem levels_eq (H : HashFn) (seed : Bytes) (p0 p : HssParam) (parent : Level) (q : Nat) :
    rootKey H seed p0 = ⟨(rootSeedAndId H seed).2, (rootSeedAndId H seed).1, p0.ots, p0.lms⟩ ∧
    childLevel H parent p q =
      ⟨⟨(seedDerive H parent.key.seed parent.key.I parent.q (SEED_CHILD_SEED + 1)).take 16,
        seedDerive H parent.key.seed parent.key.I parent.q SEED_CHILD_SEED, p.ots, p.lms⟩, q⟩ := ⟨rfl, rfl⟩

/-- the chain of levels: each lower level is the `childLevel` of the one above it -/
theorem lowerLevels_eq (H : HashFn) (leaves : List Nat) (i : Nat) (parent : Level) (p : HssParam) (rest : List HssParam) :
    childrenOf H leaves i parent [] = [] ∧
    childrenOf H leaves i parent (p :: rest) =
      childLevel H parent p (leaves.getD i 0) ::
        childrenOf H leaves (i + 1) (childLevel H parent p (leaves.getD i 0)) rest := ⟨rfl, rfl⟩

/-- digit `i` of the mixed-radix representation: `(c / 2^(h_{i+1} + … + h_{L-1})) mod 2^(h_i)` -/
theorem mixedRadix_getD (hs : List Nat) (c : Nat) : ∀ i, i < hs.length →
    (mixedRadix hs c).getD i 0 = c / 2 ^ (hs.drop (i + 1)).sum % 2 ^ hs.getD i 0 := by
  induction hs with
  | nil => intro i hi; simp at hi
  | cons h hs ih =>
    intro i hi
    cases i with
    | zero => simp [mixedRadix]
    | succ j =>
      have := ih j (by simpa using hi)
      simpa [mixedRadix] using this

/-- level `j` of the key carries the `j`-th parameter pair of the blob and, as current leaf, digit `j` of the counter
written in mixed radix with the tree sizes `2^(h_i)` as radices (bottom level least significant) -/
theorem level_params_and_leaf (H : HashFn) (seed : Bytes) (p0 : HssParam) (rest : List HssParam) (c : Nat)
    (j : Nat) (hj : j < (p0 :: rest).length) :
    ∃ l, (topLevel H seed p0 rest c :: lowerLevels H seed p0 rest c)[j]? = some l ∧
      l.key.ots = (p0 :: rest)[j].ots ∧ l.key.lms = (p0 :: rest)[j].lms ∧
      l.q = c / 2 ^ (((p0 :: rest).map (·.lms.h)).drop (j + 1)).sum % 2 ^ (p0 :: rest)[j].lms.h := by
  obtain ⟨l, h1, h2, h3, h4⟩ := levels_leaves H seed p0 rest c j hj
  refine ⟨l, h1, h2, h3, ?_⟩
  rw [h4, leafVector, mixedRadix_getD _ _ j (by simpa using hj)]
  congr 2
  simp only [List.getD_eq_getElem?_getD, List.getElem?_map, List.getElem?_eq_getElem hj, Option.map_some,
    Option.getD_some]

/-- number of levels: `L = ` length of the parameter list -/
theorem levels_count (H : HashFn) (seed : Bytes) (p0 : HssParam) (rest : List HssParam) (c : Nat) :
    (topLevel H seed p0 rest c :: lowerLevels H seed p0 rest c).length = (p0 :: rest).length := by
  simp [lowerLevels, childrenOf_length]

/-! ### the LM-OTS part -/

/-- the digits with which a library row signs are the RFC 8554 digits `coef(Q ‖ Cksm(Q), i, w)` -/
theorem digitOf_eq_spec (n : Nat) (prm : LmotsParam) (Q : Bytes) (hn : n = 16 ∨ n = 24 ∨ n = 32)
    (ht : Params.lmotsGetFromType n prm.typeId = some prm) (hQ : Q.length = n) {i : Nat} (hi : i < prm.p) :
    digitOf n prm Q i = (digitsSpec n prm.w prm.ls Q).getD i 0 := by
  have h1 := digits_eq (ots_row_good ht) Q hQ
  have h2 := Props.C12.digits_eq_spec_library n prm.typeId prm Q hn ht hQ
  rw [h1] at h2
  have e := Except.ok.inj h2
  rw [← e]
  simp [List.getD_eq_getElem?_getD, hi]

/-- T2 (LM-OTS part). For a library row (`n ∈ {16, 24, 32}`), the LM-OTS signature inside an LMS signature is
`u32 type ‖ C ‖ y[0] ‖ … ‖ y[p-1]` with `y[i] = chain^{d_i}(x_i)`, `x_i = H(I ‖ u32 q ‖ u16 i ‖ 0xff ‖ SEED)`, and
`d = digitsSpec n w ls (H(I ‖ u32 q ‖ D_MESG ‖ C ‖ content))` the RFC 8554 digit vector of the message digest. -/
theorem lmots_signature_eq (H : HashFn) (I qb seed : Bytes) (prm : LmotsParam) (C msg : Bytes)
    (hn : H.n = 16 ∨ H.n = 24 ∨ H.n = 32) (ht : Params.lmotsGetFromType H.n prm.typeId = some prm) :
    lmotsSigBytes H I qb seed prm C msg =
      Bytes.u32be prm.typeId ++ C ++
        ((List.range prm.p).map fun i =>
          chain H I qb i (H.h (I ++ qb ++ Bytes.u16be i ++ [0xff] ++ seed)) 0
            ((digitsSpec H.n prm.w prm.ls (H.h (I ++ qb ++ D_MESG ++ C ++ msg))).getD i 0)).flatten := by
  unfold lmotsSigBytes sigChains
  congr 2
  apply List.map_congr_left
  intro i hi
  have hi' : i < prm.p := List.mem_range.mp hi
  rw [lmotsPrivateKey_getD H I qb seed prm hi',
    digitOf_eq_spec H.n prm _ hn ht (by unfold msgDigest; exact H.len_h _) hi']
  rfl

/-- what `lmotsSign` returns for a library row is that closed form -/
theorem lmotsSign_eq_spec (H : HashFn) (I qb seed : Bytes) (prm : LmotsParam) (C msg o : Bytes)
    (hn : H.n = 16 ∨ H.n = 24 ∨ H.n = 32) (ht : Params.lmotsGetFromType H.n prm.typeId = some prm)
    (h : lmotsSign H I qb seed prm C msg = .ok o) :
    o = Bytes.u32be prm.typeId ++ C ++
        ((List.range prm.p).map fun i =>
          chain H I qb i (H.h (I ++ qb ++ Bytes.u16be i ++ [0xff] ++ seed)) 0
            ((digitsSpec H.n prm.w prm.ls (H.h (I ++ qb ++ D_MESG ++ C ++ msg))).getD i 0)).flatten := by
  have hC := (lmotsSign_length h).2
  rw [lmotsSign_eq H I qb seed prm C msg (ots_row_good ht) hC] at h
  rw [← Except.ok.inj h]
  exact lmots_signature_eq H I qb seed prm C msg hn ht

/-- a hash chain: `chain x a b` applies `H(I ‖ u32 q ‖ u16 i ‖ u8 j ‖ ·)` for `j = a, …, b-1` -/
theorem chain_eq (H : HashFn) (I qb : Bytes) (i : Nat) (x : Bytes) (j cnt : Nat) :
    chain H I qb i x j j = x ∧
    chainFrom H I qb i (cnt + 1) j x =
      chainFrom H I qb i cnt (j + 1) (H.h (I ++ qb ++ Bytes.u16be i ++ [UInt8.ofNat j] ++ x)) := by
  refine ⟨?_, rfl⟩
  simp [chain, chainFrom]

/-- every level of a chain whose upper levels satisfy `qsOk` and whose last level is inside its tree has its current
leaf inside its tree -/
theorem levels_q_lt : ∀ (cs : List Level) (parent : Level), qsOk parent cs →
    (lastLevel parent cs).q < 2 ^ (lastLevel parent cs).key.lms.h →
    ∀ l ∈ parent :: cs, l.q < 2 ^ l.key.lms.h := by
  intro cs
  induction cs with
  | nil =>
    intro parent _ hb l hl
    simp only [List.mem_singleton] at hl
    subst hl
    exact hb
  | cons c cs ih =>
    intro parent hqs hb l hl
    rcases List.mem_cons.mp hl with rfl | hl
    · exact hqs.1
    · exact ih c hqs.2 hb l hl

/-! ## T3 - Appendix B parameters -/

/-- the library table: type code `t ∈ {1,2,3,4}` means `w = 2^(t-1)`; the stored left shift is the Appendix B value
except for the rows (n,t) = (24,1), (16,1), (16,2), where it is smaller -/
theorem table_type_codes : ∀ n ∈ [16, 24, 32], ∀ t ∈ [1, 2, 3, 4],
    (Params.lmotsGetFromType n t).map (fun r => decide (r.typeId = t) && decide (r.w = 2 ^ (t - 1)) &&
      (if (n, t) ∈ [(24, 1), (16, 1), (16, 2)] then decide (r.ls < lsRfc n r.w) else decide (r.ls = lsRfc n r.w)))
      = some true := by decide +kernel

/-- the LMS table: type codes 5 … 9 mean `h = 5, 10, 15, 20, 25` (RFC 8554); type code 1 (`h = 2`) exists only
through the verification hook -/
theorem table_lms_type_codes : ∀ t ∈ [1, 5, 6, 7, 8, 9],
    (Params.lmsGetFromType t).map (fun r => decide (r.typeId = t) && decide (r.h = if t = 1 then 2 else 5 * (t - 4)))
      = some true := by decide +kernel

theorem lms_type_mem {t : Nat} {p : LmsParam} (h : Params.lmsGetFromType t = some p) : t ∈ [1, 5, 6, 7, 8, 9] := by
  apply Classical.byContradiction
  intro hnot
  simp only [List.mem_cons, List.mem_nil_iff, or_false, not_or] at hnot
  obtain ⟨h1, h5, h6, h7, h8, h9⟩ := hnot
  have : Generated.lmsGetFromType.lookup t = none := by
    simp [Generated.lmsGetFromType, List.lookup, beq_eq_false_iff_ne.mpr h1, beq_eq_false_iff_ne.mpr h5,
      beq_eq_false_iff_ne.mpr h6, beq_eq_false_iff_ne.mpr h7, beq_eq_false_iff_ne.mpr h8,
      beq_eq_false_iff_ne.mpr h9]
  simp [Params.lmsGetFromType, this] at h

/-- what "Appendix-B parameters of its type code" means for one level: the LM-OTS row is the table row of its own type
code, `w = 2^(type-1) ∈ {1,2,4,8}`, `p = u + v` (Appendix B), `ls ≤ 8` and `ls` = the Appendix B value `16 - v*w`
unless (n, type) is one of (24,1), (16,1), (16,2), where it is strictly smaller; the LMS row is the table row of its
type code with the RFC height -/
structure LevelAppendixB (n : Nat) (ots : LmotsParam) (lms : LmsParam) : Prop where
  otsRow : Params.lmotsGetFromType n ots.typeId = some ots
  otsType : ots.typeId ∈ [1, 2, 3, 4]
  w : ots.w = 2 ^ (ots.typeId - 1)
  wMem : ots.w ∈ [1, 2, 4, 8]
  p : ots.p = pRfc n ots.w
  lsLe : ots.ls ≤ 8
  ls : (n, ots.typeId) ∉ [(24, 1), (16, 1), (16, 2)] → ots.ls = lsRfc n ots.w
  lsBad : (n, ots.typeId) ∈ [(24, 1), (16, 1), (16, 2)] → ots.ls < lsRfc n ots.w
  lmsRow : Params.lmsGetFromType lms.typeId = some lms
  lmsType : lms.typeId ∈ [1, 5, 6, 7, 8, 9]
  h : lms.h = if lms.typeId = 1 then 2 else 5 * (lms.typeId - 4)

theorem levelAppendixB_of_rows {n : Nat} {ots : LmotsParam} {lms : LmsParam} (hn : n = 16 ∨ n = 24 ∨ n = 32)
    (ho : Params.lmotsGetFromType n ots.typeId = some ots) (hl : Params.lmsGetFromType lms.typeId = some lms) :
    LevelAppendixB n ots lms := by
  have htm := Props.C12.library_type_mem ho
  obtain ⟨hw, hp, hls⟩ := Lemmas.Digits.rowShapeOk_iff.mp (Props.C12.library_row_shape hn ho)
  have ht := table_type_codes n (Lemmas.Digits.mem_of_hn hn) ots.typeId htm
  rw [ho] at ht
  simp only [Option.map_some, Option.some.injEq, Bool.and_eq_true, decide_eq_true_eq] at ht
  obtain ⟨⟨_, hw2⟩, hif⟩ := ht
  have hlm := lms_type_mem hl
  have hlt := table_lms_type_codes lms.typeId hlm
  rw [hl] at hlt
  simp only [Option.map_some, Option.some.injEq, Bool.and_eq_true, decide_eq_true_eq] at hlt
  refine ⟨ho, htm, hw2, hw, hp, hls, ?_, ?_, hl, hlm, hlt.2⟩
  · intro hgood
    rw [if_neg hgood] at hif
    exact of_decide_eq_true hif
  · intro hbad
    rw [if_pos hbad] at hif
    exact of_decide_eq_true hif

/-- T3 (parameter list). Whatever `CompressedParameterSet::to` accepts: `n ∈ {16, 24, 32}` and every level has the
Appendix B LM-OTS parameters of its type code and the RFC tree height of its LMS type code. -/
theorem accepted_params_appendixB {cfg : Config} {n : Nat} {bs : Bytes} {ps : List HssParam}
    (h : paramsOfBytes cfg n bs = some ps) :
    (n = 16 ∨ n = 24 ∨ n = 32) ∧ ∀ p ∈ ps, LevelAppendixB n p.ots p.lms := by
  have hn := params_n (paramsOfBytes_ok h)
  obtain ⟨_, _, hgood, _⟩ := paramsOfBytes_inv h
  exact ⟨hn, fun p hp => levelAppendixB_of_rows hn (hgood p hp).ots (hgood p hp).lms⟩

/-- T3 (levels of the key). Every level of the key with which a signature was assembled - i.e. every LM-OTS part
and every LMS part of the released signature - uses the Appendix B parameters of its type code. -/
theorem levels_appendixB {H : HashFn} {cfg : Config} {msg : Bytes} {k : RefKey} {hs : List Nat} {sig : Bytes}
    {a : Option Bytes} {r : Bytes} (h : signPrepare H cfg msg k none = .ok (.ready hs sig a r)) :
    ∃ p0 rest, paramsOfBytes cfg H.n k.params = some (p0 :: rest) ∧
      sig = hssSigBytes H k.seed p0 rest k.counter msg ∧
      (H.n = 16 ∨ H.n = 24 ∨ H.n = 32) ∧
      ∀ l ∈ topLevel H k.seed p0 rest k.counter :: lowerLevels H k.seed p0 rest k.counter,
        LevelAppendixB H.n l.key.ots l.key.lms ∧ l.key.I.length = 16 := by
  obtain ⟨p0, rest, hps, _, hsig, gt, hall, _, _, _⟩ := signPrepare_layout h
  obtain ⟨hn, _⟩ := accepted_params_appendixB hps
  refine ⟨p0, rest, hps, hsig, hn, ?_⟩
  intro l hl
  have g : GoodKey H.n l.key := by
    rcases List.mem_cons.mp hl with rfl | hl
    · exact gt
    · exact hall l hl
  exact ⟨levelAppendixB_of_rows hn g.ots g.lms, g.I⟩

/-- C07, assembled. Every signature released by `hss_sign_core` (no aux data; any key bytes, message and callback):
it is `hssSigBytes` of the parsed blob (layout), has exactly the RFC 8554 length, the hash length is a table length,
and every level of the key - hence every LMS / LM-OTS part of the signature - carries a 16-byte identifier and the
Appendix B parameters of its type codes. -/
theorem released_signature_spec {H : HashFn} {cfg : Config} {msg sk : Bytes} {cb : Bytes → Bool}
    {o : SignOutcome} {sig : Bytes} (h : hssSign H cfg msg sk cb none = .ok o) (hr : o.result = some sig) :
    ∃ k p0 rest, RefKey.parse H.n sk = some k ∧ paramsOfBytes cfg H.n k.params = some (p0 :: rest) ∧
      sig = hssSigBytes H k.seed p0 rest k.counter msg ∧
      sig.length = 4 + ((p0 :: rest).map fun p => 12 + H.n * (p.ots.p + 1) + H.n * p.lms.h).sum +
        ((p0 :: rest).length - 1) * (24 + H.n) ∧
      (H.n = 16 ∨ H.n = 24 ∨ H.n = 32) ∧
      ∀ l ∈ topLevel H k.seed p0 rest k.counter :: lowerLevels H k.seed p0 rest k.counter,
        LevelAppendixB H.n l.key.ots l.key.lms ∧ l.key.I.length = 16 ∧ l.q < 2 ^ l.key.lms.h := by
  obtain ⟨k, hs, a, r, hk, hp⟩ := released_is_prepared h hr
  obtain ⟨p0, rest, hps, hsig, hn, hlv⟩ := levels_appendixB hp
  obtain ⟨p0', rest', hps', _, _, _, _, hqs, hqb, _⟩ := signPrepare_layout hp
  rw [hps] at hps'
  simp only [Option.some.injEq, List.cons.injEq] at hps'
  obtain ⟨rfl, rfl⟩ := hps'
  obtain ⟨ps, hps2, hl⟩ := signPrepare_length hp
  rw [hps] at hps2
  cases hps2
  refine ⟨k, p0, rest, hk, hps, hsig, by rw [hl, hssSigLen_rfc], hn, ?_⟩
  intro l hl
  exact ⟨(hlv l hl).1, (hlv l hl).2, levels_q_lt _ _ hqs hqb l hl⟩

/-- the Appendix B table itself: `(u, v, ls, p)` for `n = 32, 24, 16` and `w = 1, 2, 4, 8` -/
theorem appendixB_values :
    [32, 24, 16].map (fun n => [1, 2, 4, 8].map fun w => (u n w, v n w, lsRfc n w, pRfc n w)) =
      [[(256, 9, 7, 265), (128, 5, 6, 133), (64, 3, 4, 67), (32, 2, 0, 34)],
       [(192, 8, 8, 200), (96, 5, 6, 101), (48, 3, 4, 51), (24, 2, 0, 26)],
       [(128, 8, 8, 136), (64, 4, 8, 68), (32, 3, 4, 35), (16, 2, 0, 18)]] := Props.C12.appendixB_values

/-! ## the statements are not vacuous -/

/-- a two-level instance of the length formula: `n = 32`, `(w=8, h=5)` over `(w=4, h=10)` gives 3860 bytes -/
example : hssSigLen 32 [⟨⟨4, 8, 34, 0⟩, ⟨5, 5⟩⟩, ⟨⟨3, 4, 67, 4⟩, ⟨6, 10⟩⟩] = 4 + (1292 + 56) + 2508 := by decide

example : LevelAppendixB 32 ⟨4, 8, 34, 0⟩ ⟨5, 5⟩ :=
  levelAppendixB_of_rows (Or.inr (Or.inr rfl)) (by decide +kernel) (by decide +kernel)

end Props.C07

#print axioms Props.C07.lmots_signature_exact_length
#print axioms Props.C07.lms_signature_exact_length
#print axioms Props.C07.lms_public_key_exact_length
#print axioms Props.C07.hssSigLen_rfc
#print axioms Props.C07.prepared_signature_exact_length
#print axioms Props.C07.released_is_prepared
#print axioms Props.C07.released_signature_exact_length
#print axioms Props.C07.prepared_signature_layout
#print axioms Props.C07.released_signature_layout
#print axioms Props.C07.hssSigBytes_eq
#print axioms Props.C07.hssSigBytes_expanded_eq
#print axioms Props.C07.expandedOf_eq
#print axioms Props.C07.signed_public_keys_eq
#print axioms Props.C07.lms_signature_eq
#print axioms Props.C07.lms_public_key_eq
#print axioms Props.C07.tree_eq
#print axioms Props.C07.randomizers_eq
#print axioms Props.C07.levels_eq
#print axioms Props.C07.lowerLevels_eq
#print axioms Props.C07.mixedRadix_getD
#print axioms Props.C07.level_params_and_leaf
#print axioms Props.C07.levels_count
#print axioms Props.C07.digitOf_eq_spec
#print axioms Props.C07.lmots_signature_eq
#print axioms Props.C07.lmotsSign_eq_spec
#print axioms Props.C07.chain_eq
#print axioms Props.C07.table_type_codes
#print axioms Props.C07.table_lms_type_codes
#print axioms Props.C07.levelAppendixB_of_rows
#print axioms Props.C07.accepted_params_appendixB
#print axioms Props.C07.levels_appendixB
#print axioms Props.C07.released_signature_spec
#print axioms Props.C07.appendixB_values

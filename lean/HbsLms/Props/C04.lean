/-
C04 - a signature is released only after the advanced key was handed over and accepted.
All statements are for every hash function, configuration, message, private-key byte string,
aux buffer and callback (an arbitrary function of the key bytes it is handed).
-/
import HbsLms.Lemmas.PrivKey

namespace Props.C04

open Impl

/-- `hssSign` either fails to parse the key (nothing happens), or is `signCommit` after `signPrepare`:
the callback is consulted only in the last step, on the parsed key advanced by `increment`. -/
theorem hssSign_cases {H : HashFn} {cfg : Config} {msg sk : Bytes} {cb : Bytes → Bool} {aux : Option Bytes}
    {o : SignOutcome} (h : hssSign H cfg msg sk cb aux = .ok o) :
    (RefKey.parse H.n sk = none ∧ o = ⟨none, [], aux, []⟩) ∨
    ∃ k p, RefKey.parse H.n sk = some k ∧ signPrepare H cfg msg k aux = .ok p ∧ o = signCommit H.n cfg cb k p := by
  unfold hssSign at h
  cases hk : RefKey.parse H.n sk with
  | none =>
    simp [hk, pure, Except.pure] at h
    exact Or.inl ⟨rfl, h.symm⟩
  | some k =>
    simp only [hk] at h
    cases hp : signPrepare H cfg msg k aux with
    | error e => simp [hp, bind, Except.bind] at h
    | ok p =>
      simp [hp, bind, Except.bind, pure, Except.pure] at h
      exact Or.inr ⟨k, p, rfl, hp, h.symm⟩

/-- The callback is never invoked more than once per call. -/
theorem callback_at_most_once (H : HashFn) (cfg : Config) (msg sk : Bytes) (cb : Bytes → Bool) (aux : Option Bytes)
    (o : SignOutcome) (h : hssSign H cfg msg sk cb aux = .ok o) : o.trace.length ≤ 1 := by
  rcases hssSign_cases h with ⟨_, rfl⟩ | ⟨k, p, _, _, rfl⟩
  · simp
  · cases p with
    | failed a r => simp [signCommit]
    | ready hs sig a r =>
      simp only [signCommit]
      split
      · simp
      · split <;> simp

/-- Signing returns a signature only if the callback was invoked exactly once, with the complete successor
private key (the parsed key with its counter advanced by `increment`: `c+1`, or the wiped key after the last
leaf), and reported success. -/
theorem signature_only_after_accepted_callback (H : HashFn) (cfg : Config) (msg sk : Bytes) (cb : Bytes → Bool)
    (aux : Option Bytes) (o : SignOutcome) (sig : Bytes)
    (h : hssSign H cfg msg sk cb aux = .ok o) (hs : o.result = some sig) :
    ∃ k heights, RefKey.parse H.n sk = some k ∧
      o.trace = [(k.increment H.n heights).bytes] ∧ cb (k.increment H.n heights).bytes = true := by
  rcases hssSign_cases h with ⟨_, rfl⟩ | ⟨k, p, hk, _, rfl⟩
  · simp at hs
  · cases p with
    | failed a r => simp [signCommit] at hs
    | ready hts sg a r =>
      refine ⟨k, hts, hk, ?_⟩
      simp only [signCommit] at hs ⊢
      by_cases hcb : cb (k.increment H.n hts).bytes = true
      · simp only [hcb, Bool.not_true, Bool.false_eq_true, if_false] at hs ⊢
        split at hs
        · simp at hs
        · rename_i hl
          simp [hl]
      · simp [hcb] at hs

/-- the successor key handed to the callback has the same length as the key that was passed in -/
theorem successor_key_same_length (n : Nat) (sk : Bytes) (k : RefKey) (hs : List Nat)
    (hk : RefKey.parse n sk = some k) : (k.increment n hs).bytes.length = sk.length := by
  obtain ⟨hl, hp, hsd, _⟩ := Lemmas.parse_some hk
  unfold RefKey.increment
  split
  · simp [Lemmas.bytes_length, hp, hsd, hl]
  · rw [Lemmas.wiped_bytes_length, hl]

/-- If the callback reports failure, no signature bytes are returned. -/
theorem rejected_callback_releases_nothing (H : HashFn) (cfg : Config) (msg sk : Bytes) (cb : Bytes → Bool)
    (aux : Option Bytes) (o : SignOutcome) (h : hssSign H cfg msg sk cb aux = .ok o)
    (hrej : ∀ k, cb k = false) : o.result = none := by
  rcases hssSign_cases h with ⟨_, rfl⟩ | ⟨k, p, _, _, rfl⟩
  · rfl
  · cases p with
    | failed a r => simp [signCommit]
    | ready hs sig a r => simp [signCommit, hrej]

/-- The callback is never invoked when no signature could be produced: whenever a step before the hand-over fails
(invalid parameter bytes, wiped key, unusable leaf, ...), the trace is empty and nothing is released, whatever the
callback would have answered. -/
theorem no_callback_when_preparation_fails (H : HashFn) (cfg : Config) (msg sk : Bytes) (cb : Bytes → Bool)
    (aux : Option Bytes) (k : RefKey) (a : Option Bytes) (r : Bytes)
    (hk : RefKey.parse H.n sk = some k) (hp : signPrepare H cfg msg k aux = .ok (.failed a r)) :
    hssSign H cfg msg sk cb aux = .ok ⟨none, [], a, r⟩ := by
  unfold hssSign
  simp [hk, hp, bind, Except.bind, pure, Except.pure, signCommit]

/-- a key of the wrong length (truncated, extended, empty) fails before anything else happens -/
theorem wrong_length_key_fails_before_callback (H : HashFn) (cfg : Config) (msg sk : Bytes) (cb : Bytes → Bool)
    (aux : Option Bytes)
    (hl : sk.length ≠ Generated.REF_IMPL_MAX_PRIVATE_KEY_SIZE - Generated.MAX_SEED_LEN + H.n) :
    hssSign H cfg msg sk cb aux = .ok ⟨none, [], aux, []⟩ := by
  have : RefKey.parse H.n sk = none := by
    unfold RefKey.parse
    simp [hl]
  unfold hssSign
  simp [this, pure, Except.pure]

/-- the wiped key (and any key whose parameter bytes do not describe a supported parameter set) fails before the callback -/
theorem unusable_parameters_fail_before_callback (H : HashFn) (cfg : Config) (msg sk : Bytes) (cb : Bytes → Bool)
    (aux : Option Bytes) (k : RefKey) (hk : RefKey.parse H.n sk = some k)
    (hp : paramsOfBytes cfg H.n k.params = none) :
    hssSign H cfg msg sk cb aux = .ok ⟨none, [], aux, []⟩ := by
  apply no_callback_when_preparation_fails (k := k) (hk := hk)
  unfold signPrepare
  simp [hp, pure, Except.pure]

/-- An error after the callback was consulted means the callback rejected, or the signature does not fit the
signature object (excluded for accepted parameter sets by the limits, C14). -/
theorem error_with_callback_means_rejection (H : HashFn) (cfg : Config) (msg sk : Bytes) (cb : Bytes → Bool)
    (aux : Option Bytes) (o : SignOutcome) (k' : Bytes)
    (h : hssSign H cfg msg sk cb aux = .ok o) (hr : o.result = none) (ht : o.trace = [k']) :
    cb k' = false ∨ ∃ k hs sig a r, signPrepare H cfg msg k aux = .ok (.ready hs sig a r) ∧
        (sig.length > 65535 ∨ sig.length > cfg.maxHssSigLen) := by
  rcases hssSign_cases h with ⟨_, rfl⟩ | ⟨k, p, _, hp, rfl⟩
  · simp at ht
  · cases p with
    | failed a r => simp [signCommit] at ht
    | ready hs sig a r =>
      simp only [signCommit] at hr ht
      by_cases hcb : cb (k.increment H.n hs).bytes = true
      · simp only [hcb, Bool.not_true, Bool.false_eq_true, if_false] at hr ht
        split at hr
        · rename_i hlen
          right
          exact ⟨k, hs, sig, a, r, hp, by simpa using hlen⟩
        · simp at hr
      · left
        simp only [hcb] at ht
        simp at ht
        rw [← ht]
        simpa using hcb

end Props.C04

#print axioms Props.C04.hssSign_cases
#print axioms Props.C04.callback_at_most_once
#print axioms Props.C04.signature_only_after_accepted_callback
#print axioms Props.C04.successor_key_same_length
#print axioms Props.C04.rejected_callback_releases_nothing
#print axioms Props.C04.no_callback_when_preparation_fails
#print axioms Props.C04.wrong_length_key_fails_before_callback
#print axioms Props.C04.unusable_parameters_fail_before_callback
#print axioms Props.C04.error_with_callback_means_rejection

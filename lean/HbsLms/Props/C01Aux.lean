/-
C01 with auxiliary data: composition of completeness (Props/C01, aux-free) with cache transparency (Props/C10).
Whatever the auxiliary buffers passed to key generation and to signing contain, a released signature verifies under
the generated public key - the only assumption concerns buffers that the MAC check accepted for this seed: their
non-zero slots hold true nodes of the top tree (this replaces MAC unforgeability, which is never assumed).
-/
import HbsLms.Props.C01
import HbsLms.Props.C10

namespace Props.C01

open Impl Lemmas Lemmas.AuxCache

/-- key generation with any aux buffer + signing with any aux buffer, then verification -/
theorem released_signature_verifies_with_aux (H : HashFn) (cfg : Config) (hK : cfg.maxTreeHeight ≤ 30)
    (ps0 : List HssParam) (seed msg : Bytes) (c : Nat) (cb : Bytes → Bool)
    (auxK auxS : Option Bytes) (ko : KeygenOutcome) (skb vk : Bytes) (o : SignOutcome) (sig : Bytes)
    (hseed : seed.length = H.n)
    (hk : hssKeygen H cfg ps0 seed auxK = .ok ko) (hkr : ko.result = some (skb, vk))
    (hsign : hssSign H cfg msg (blobWithCounter skb c) cb auxS = .ok o) (hres : o.result = some sig)
    -- buffers accepted by the MAC check hold true nodes (keygen side / sign side)
    (husedK : ∀ p0 buf e, keygenTop H cfg ps0 = some p0 → auxK = some buf → hss_is_aux_data_used buf = true →
      hss_expand_aux_data H cfg buf (some seed) = some e → CacheTrue H (topKey H seed p0) e)
    (husedS : ∀ k p0 buf e, RefKey.parse H.n (blobWithCounter skb c) = some k → signTop H cfg k = some p0 →
      auxS = some buf → hss_is_aux_data_used buf = true →
      hss_expand_aux_data H cfg buf (some k.seed) = some e → CacheTrue H (topKey H k.seed p0) e) :
    hssVerify H cfg msg sig vk = .ok true := by
  -- keygen without aux returns the same key pair
  have hkeq := Props.C10.C10_keygen H cfg hK ps0 seed auxK husedK
  rw [hk] at hkeq
  simp only [Except.map] at hkeq
  cases hk0 : hssKeygen H cfg ps0 seed none with
  | error e => rw [hk0] at hkeq; simp [Except.map] at hkeq
  | ok ko0 =>
    rw [hk0] at hkeq
    simp only [Except.map, Except.ok.injEq] at hkeq
    -- signing without aux releases the same signature
    have hseq := Props.C10.C10_sign H cfg hK msg (blobWithCounter skb c) cb auxS husedS
    rw [hsign] at hseq
    simp only [Except.map] at hseq
    cases hs0 : hssSign H cfg msg (blobWithCounter skb c) cb none with
    | error e => rw [hs0] at hseq; simp [Except.map] at hseq
    | ok o0 =>
      rw [hs0] at hseq
      simp only [Except.map, Except.ok.injEq, Prod.mk.injEq] at hseq
      obtain ⟨a0, r0, hko0⟩ : ∃ a0 r0, ko0 = ⟨some (skb, vk), a0, r0⟩ := by
        cases ko0 with
        | mk res a0 r0 => exact ⟨a0, r0, by simp only [] at hkeq; rw [← hkeq, hkr]⟩
      rw [hko0] at hk0
      exact released_signature_verifies H cfg ps0 seed msg c cb skb vk a0 r0 o0 sig hseed hk0 hs0
        (by rw [← hseq.1]; exact hres)

/-- in particular: unmarked buffers (first byte 0, or empty), of any length and content, on both sides -/
theorem released_signature_verifies_unmarked_aux (H : HashFn) (cfg : Config) (hK : cfg.maxTreeHeight ≤ 30)
    (ps0 : List HssParam) (seed msg : Bytes) (c : Nat) (cb : Bytes → Bool)
    (bufK bufS : Bytes) (ko : KeygenOutcome) (skb vk : Bytes) (o : SignOutcome) (sig : Bytes)
    (hseed : seed.length = H.n)
    (hunK : hss_is_aux_data_used bufK = false) (hunS : hss_is_aux_data_used bufS = false)
    (hk : hssKeygen H cfg ps0 seed (some bufK) = .ok ko) (hkr : ko.result = some (skb, vk))
    (hsign : hssSign H cfg msg (blobWithCounter skb c) cb (some bufS) = .ok o) (hres : o.result = some sig) :
    hssVerify H cfg msg sig vk = .ok true :=
  released_signature_verifies_with_aux H cfg hK ps0 seed msg c cb (some bufK) (some bufS) ko skb vk o sig hseed hk hkr
    hsign hres
    (fun _ b _ _ hb hu _ => by cases hb; rw [hunK] at hu; cases hu)
    (fun _ _ b _ _ _ hb hu _ => by cases hb; rw [hunS] at hu; cases hu)

end Props.C01

#print axioms Props.C01.released_signature_verifies_with_aux
#print axioms Props.C01.released_signature_verifies_unmarked_aux

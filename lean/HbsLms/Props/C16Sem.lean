/-
C16, semantic justification of the side conditions: for EVERY declaration table, the decidable checks of
`Impl/Zeroize.lean` imply that no secret byte survives in the value model of `Impl/ZeroizeSem.lean`
(values = trees of structs / containers / byte leaves; `zeroizeVal` = `zeroize()`; `dropVal` = drop glue with
`ZeroizeOnDrop`; `secretsLeft` = number of non-zero secret bytes still in memory).

Reading guide.
* `owners_closed`, `non_owner_holds_no_secret`: the closure `owners ds` is a fixed point and contains every struct
  that can (transitively, by value) contain a secret byte in a well-typed value.
* `S1_wipedOnDrop_sound`: `wipedOnDrop` ⇒ nothing survives `drop` (per index; needs `DeriveSound`, see below).
* `S1_secretsCovered_sound`: `SecretsCovered ds` ⇒ nothing survives the drop of ANY well-typed struct value.
* `S2_wipedByZeroize_sound`, `S2_wipedByZeroize_direct`: the same for an explicit `zeroize()`.
* `S3_*`: the instances for the table regenerated from the sources.
* `S4`: non-vacuity examples (good values of the generated table; bad tables where secrets survive).

Why `DeriveSound` / `ZeroizeSound`.  Case (a) of `wipedOnDrop` ("derives Zeroize + ZeroizeOnDrop and skips no
secret field") does not look at the types of the non-skipped fields.  In Rust the derive only compiles if these
types implement `Zeroize`; in the model a struct type that does not derive it is left unchanged by `zeroize()`.
So the per-index statement needs that the secret-bearing structs owned by non-skipped fields of such a struct are
themselves wiped (`DeriveSound`, a decidable condition implied by `SecretsCovered`); without it the per-index
statement is false in the model (`S1_needs_deriveSound` below).  No acyclicity assumption and no assumption on the
fuel is needed: the proof is by induction on the value, not on the fuel.
-/
import HbsLms.Lemmas.ZeroizeSem
import HbsLms.Props.C16

namespace Props.C16Sem

open Generated Impl.Zeroize Impl.ZeroizeSem

/-! ## the closure -/

/-- `owners ds` is a fixed point of the closure step, for every table (so `ds.length` iterations suffice). -/
theorem owners_closed (ds : List StructDecl) : ownersStep ds (owners ds) = owners ds :=
  ownersStep_owners ds

/-- Every struct that can hold a secret byte is in `owners ds`: a well-typed value of a struct outside the closure
contains no secret byte at all, at any depth. -/
theorem non_owner_holds_no_secret (ds : List StructDecl) (i : Nat) (fs : List Val)
    (hwt : WellTyped ds (.struct i fs) = true) (hi : ¬ i ∈ owners ds) :
    secretsLeft (.struct i fs) = 0 :=
  secretsLeft_of_not_mem_owners ds i fs hwt hi

/-- `zeroize()` and `drop` never create secret bytes (any table, any value, typed or not). -/
theorem zeroize_and_drop_monotone (ds : List StructDecl) (v : Val) :
    secretsLeft (zeroizeVal ds v) ≤ secretsLeft v ∧ secretsLeft (dropVal ds v) ≤ secretsLeft v :=
  ⟨secretsLeft_zeroizeVal_le ds v, secretsLeft_dropVal_le ds v⟩

/-! ## S1 -/

/-- **S1.** Every table `ds` with sound derives, every index `i`, every fuel (in particular `ds.length`), every
well-typed value of struct `i`: if `wipedOnDrop` accepts `i`, no secret byte survives the drop. -/
theorem S1_wipedOnDrop_sound (ds : List StructDecl) (hD : DeriveSound ds = true) (i : Nat)
    (hw : wipedOnDrop ds (owners ds) ds.length i = true) (fs : List Val)
    (hwt : WellTyped ds (.struct i fs) = true) :
    secretsLeft (dropVal ds (.struct i fs)) = 0 :=
  wipedOnDrop_sound ds hD ds.length i hw fs hwt

/-- `SecretsCovered` implies the extra condition of S1. -/
theorem secretsCovered_deriveSound (ds : List StructDecl) (h : SecretsCovered ds = true) :
    DeriveSound ds = true :=
  deriveSound_of_secretsCovered h

/-- **S1, global form.** If the side condition `SecretsCovered ds` holds, then dropping ANY well-typed struct value
(secret-bearing or not) leaves no secret byte behind. -/
theorem S1_secretsCovered_sound (ds : List StructDecl) (h : SecretsCovered ds = true) (i : Nat) (fs : List Val)
    (hwt : WellTyped ds (.struct i fs) = true) :
    secretsLeft (dropVal ds (.struct i fs)) = 0 := by
  by_cases hi : i ∈ owners ds
  · have hw : wipedOnDrop ds (owners ds) ds.length i = true := by
      simp only [SecretsCovered, List.all_eq_true] at h
      exact h i hi
    exact S1_wipedOnDrop_sound ds (secretsCovered_deriveSound ds h) i hw fs hwt
  · exact secretsLeft_dropVal_zero (non_owner_holds_no_secret ds i fs hwt hi)

/-! ## S2 -/

/-- **S2.** Every table with sound `Zeroize` derives, every index `i` accepted by `wipedByZeroize`, every well-typed
value of struct `i`: `zeroize()` clears every secret byte (the raw secrets the struct holds directly and those of
all owned structs, which `ZeroizeSound` requires to pass `wipedByZeroize` themselves). -/
theorem S2_wipedByZeroize_sound (ds : List StructDecl) (hZ : ZeroizeSound ds = true) (i : Nat)
    (hw : wipedByZeroize ds (owners ds) i = true) (fs : List Val)
    (hwt : WellTyped ds (.struct i fs) = true) :
    secretsLeft (zeroizeVal ds (.struct i fs)) = 0 :=
  wipedByZeroize_sound ds hZ i hw fs hwt

/-- **S2 with no assumption on the table.** `wipedByZeroize` alone: `zeroize()` processes every non-skipped field,
and afterwards each field that stores secret bytes itself, and each field that carries no secret, is free of
secret bytes.  (Fields owning secret-bearing structs are cleared as far as those structs are `wipedByZeroize`.) -/
theorem S2_wipedByZeroize_direct (ds : List StructDecl) (i : Nat) (d : StructDecl) (hd : declAt ds i = some d)
    (hw : wipedByZeroize ds (owners ds) i = true) (fs : List Val)
    (hwt : WellTyped ds (.struct i fs) = true) :
    zeroizeVal ds (.struct i fs) = .struct i (zeroizeFields ds d.fields fs) ∧
      ∀ p ∈ List.zip d.fields (zeroizeFields ds d.fields fs),
        (p.1.rawSecret = true ∨ fieldSecret (owners ds) p.1 = false) → secretsLeft p.2 = 0 :=
  wipedByZeroize_direct ds i d hd hw fs hwt

/-! ## S3: the table regenerated from the sources -/

/-- **S3.** For the generated table: every well-typed value of a secret-bearing struct leaves no secret byte behind
when it goes out of scope. -/
theorem S3_generated_wiped_on_drop (i : Nat) (_hi : i ∈ owners structDecls) (fs : List Val)
    (hwt : WellTyped structDecls (.struct i fs) = true) :
    secretsLeft (dropVal structDecls (.struct i fs)) = 0 :=
  S1_secretsCovered_sound structDecls Props.C16.secrets_covered_on_drop i fs hwt

/-- ... and in fact every well-typed struct value of the generated table. -/
theorem S3_generated_wiped_on_drop_all (i : Nat) (fs : List Val)
    (hwt : WellTyped structDecls (.struct i fs) = true) :
    secretsLeft (dropVal structDecls (.struct i fs)) = 0 :=
  S1_secretsCovered_sound structDecls Props.C16.secrets_covered_on_drop i fs hwt

theorem generated_zeroizeSound : ZeroizeSound structDecls = true := by decide +kernel

theorem generated_deriveSound : DeriveSound structDecls = true := by decide +kernel

/-- **S3 for `zeroize()`.** For the generated table: every struct accepted by `wipedByZeroize` is cleared completely
by an explicit `zeroize()`. -/
theorem S3_generated_wiped_by_zeroize (i : Nat)
    (hw : wipedByZeroize structDecls (owners structDecls) i = true) (fs : List Val)
    (hwt : WellTyped structDecls (.struct i fs) = true) :
    secretsLeft (zeroizeVal structDecls (.struct i fs)) = 0 :=
  S2_wipedByZeroize_sound structDecls generated_zeroizeSound i hw fs hwt

/-- the structs this applies to: every secret-bearing struct that derives `Zeroize` or stores secret bytes itself
(`Props.C16.secrets_covered_by_zeroize`) -/
theorem S3_generated_zeroize_covered (i : Nat) (hi : i ∈ owners structDecls) (d : StructDecl)
    (hd : declAt structDecls i = some d) (hz : (d.zeroize || d.fields.any (·.rawSecret)) = true)
    (fs : List Val) (hwt : WellTyped structDecls (.struct i fs) = true) :
    secretsLeft (zeroizeVal structDecls (.struct i fs)) = 0 := by
  have h := Props.C16.secrets_covered_by_zeroize
  simp only [ZeroizeCovered, List.all_eq_true] at h
  have hi' := h i hi
  rw [hd] at hi'
  simp only [hz, if_true] at hi'
  exact S3_generated_wiped_by_zeroize i hi' fs hwt

/-! ## S4: non-vacuity

The examples are built *from the generated table* (no struct index, name or field order is written down here), so that a
behaviour-preserving rearrangement of the declarations in the Rust sources leaves them valid. -/

/-- field values of a populated instance of the struct declared as `d`: every raw-secret field holds two non-zero secret
bytes, every owning field holds a container with a populated value of a struct it owns (a secret-bearing one if there is
one), every other field holds non-secret bytes -/
def sampleFields (ds : List StructDecl) (own : List Nat) : Nat → List FieldDecl → List Val
  | 0, fs => fs.map fun f => if f.rawSecret then .raw true [9, 5] else .raw false [1, 2]
  | fuel + 1, fs => fs.map fun f =>
      if f.rawSecret then .raw true [9, 5]
      else match (f.owns.find? (own.contains ·)).orElse (fun _ => f.owns.head?) with
        | none => .raw false [1, 2]
        | some j =>
          match declAt ds j with
          | none => .raw false [1, 2]
          | some d => .many [.struct j (sampleFields ds own fuel d.fields)]

/-- a populated value of every secret-bearing struct of the generated table -/
def samples : List (Nat × List Val) :=
  (owners structDecls).filterMap fun i =>
    (declAt structDecls i).map fun d => (i, sampleFields structDecls (owners structDecls) structDecls.length d.fields)

/-- there are secret-bearing structs, every sample is a well-typed value of its struct and does contain secret bytes -/
theorem samples_nonvacuous :
    2 ≤ samples.length ∧
    samples.all (fun p => WellTyped structDecls (.struct p.1 p.2) && decide (0 < secretsLeft (.struct p.1 p.2))) = true := by
  decide +kernel

/-- the secrets are gone after the drop (S3 applied to concrete values that do contain secret bytes) -/
theorem samples_wiped_on_drop : ∀ p ∈ samples, 0 < secretsLeft (.struct p.1 p.2) ∧
    secretsLeft (dropVal structDecls (.struct p.1 p.2)) = 0 := by
  intro p hp
  have h := samples_nonvacuous.2
  rw [List.all_eq_true] at h
  have hp' := h p hp
  simp only [Bool.and_eq_true, decide_eq_true_eq] at hp'
  exact ⟨hp'.2, S3_generated_wiped_on_drop_all p.1 p.2 hp'.1⟩

/-- ... and after an explicit `zeroize()` of every sampled struct that `wipedByZeroize` covers; there is at least one -/
theorem samples_wiped_by_zeroize : ∀ p ∈ samples, wipedByZeroize structDecls (owners structDecls) p.1 = true →
    secretsLeft (zeroizeVal structDecls (.struct p.1 p.2)) = 0 := by
  intro p hp hw
  have h := samples_nonvacuous.2
  rw [List.all_eq_true] at h
  have hp' := h p hp
  simp only [Bool.and_eq_true, decide_eq_true_eq] at hp'
  exact S3_generated_wiped_by_zeroize p.1 hw p.2 hp'.1

example : (samples.filter fun p => wipedByZeroize structDecls (owners structDecls) p.1).length ≥ 1 := by decide +kernel

/-! ### the model computes (frozen illustration table: a seed wrapper, a parameter struct, a key that skips its parameters) -/

def illu : List StructDecl :=
  [⟨0, "illu.rs", "Seed", ["Zeroize", "ZeroizeOnDrop"], true, true, [⟨"data", "ArrayVecZeroize<u8, 32>", false, [], true⟩, ⟨"phantom", "PhantomData<H>", false, [], false⟩]⟩,
   ⟨1, "illu.rs", "Param", [], false, false, [⟨"type_id", "u32", false, [], false⟩]⟩,
   ⟨2, "illu.rs", "PrivateKey", ["Zeroize", "ZeroizeOnDrop"], true, true,
     [⟨"id", "[u8; 4]", false, [], false⟩, ⟨"used", "u32", false, [], false⟩, ⟨"seed", "Seed<H>", false, [0], false⟩, ⟨"param", "Param", true, [1], false⟩]⟩]

def illuParam : Val := .struct 1 [.raw false [0, 0, 0, 5]]
def illuSeed : Val := .struct 0 [.raw true [0x17, 0x2a, 0xff], .raw false []]
def illuKey : Val := .struct 2 [.raw false [1, 2, 3, 4], .raw false [0, 0, 0, 7], illuSeed, illuParam]

example : WellTyped illu illuKey = true ∧ secretsLeft illuKey = 3 ∧ SecretsCovered illu = true := by decide +kernel

/-- `zeroize()` clears the non-skipped fields (also the non-secret ones) and leaves the skipped parameter field alone -/
example : zeroizeVal illu illuKey =
    .struct 2 [.raw false [0, 0, 0, 0], .raw false [0, 0, 0, 0], .struct 0 [.raw true [0, 0, 0], .raw false []], illuParam] := by rfl

example : secretsLeft (dropVal illu illuKey) = 0 :=
  S1_secretsCovered_sound illu (by decide +kernel) 2 _ (by decide +kernel)

/-! ### bad tables: the side condition fails and a secret survives -/

/-- a struct that marks its secret field `#[zeroize(skip)]` -/
def badSkip : List StructDecl :=
  [⟨0, "bad.rs", "Leaky", ["Zeroize", "ZeroizeOnDrop"], true, true, [⟨"key", "[u8; 32]", true, [], true⟩]⟩]

/-- a struct that stores secret bytes and derives nothing -/
def badPlain : List StructDecl :=
  [⟨0, "bad.rs", "Plain", [], false, false, [⟨"key", "[u8; 32]", false, [], true⟩]⟩]

/-- a `Zeroize + ZeroizeOnDrop` wrapper around a struct that stores secret bytes and derives nothing
(does not compile in Rust; in the model `zeroize()` leaves the inner struct unchanged) -/
def badWrap : List StructDecl :=
  [⟨0, "bad.rs", "Wrapper", ["Zeroize", "ZeroizeOnDrop"], true, true, [⟨"inner", "Plain", false, [1], false⟩]⟩,
   ⟨1, "bad.rs", "Plain", [], false, false, [⟨"key", "[u8; 32]", false, [], true⟩]⟩]

def leakyVal : Val := .struct 0 [.raw true [7]]
def wrapVal : Val := .struct 0 [.struct 1 [.raw true [7]]]

example : SecretsCovered badSkip = false ∧ WellTyped badSkip leakyVal = true ∧
    secretsLeft (dropVal badSkip leakyVal) = 1 := by
  refine ⟨by decide +kernel, by decide +kernel, ?_⟩
  simp [leakyVal, badSkip, dropVal_struct, dropVal_raw, preDrop, declAt, zeroizeFields, secretsLeft,
    secretsLeftAll]

example : SecretsCovered badPlain = false ∧ WellTyped badPlain leakyVal = true ∧
    secretsLeft (dropVal badPlain leakyVal) = 1 := by
  refine ⟨by decide +kernel, by decide +kernel, ?_⟩
  simp [leakyVal, badPlain, dropVal_struct, dropVal_raw, preDrop, declAt, secretsLeft, secretsLeftAll]

/-- The per-index S1 really needs `DeriveSound`: in `badWrap`, struct 0 passes `wipedOnDrop` (it derives both traits
and skips nothing), yet the secret of the inner struct survives - and `DeriveSound` / `SecretsCovered` are false. -/
theorem S1_needs_deriveSound :
    wipedOnDrop badWrap (owners badWrap) badWrap.length 0 = true ∧ WellTyped badWrap wrapVal = true ∧
      secretsLeft (dropVal badWrap wrapVal) = 1 ∧ DeriveSound badWrap = false ∧
      SecretsCovered badWrap = false := by
  refine ⟨by decide +kernel, by decide +kernel, ?_, by decide +kernel, by decide +kernel⟩
  simp [wrapVal, badWrap, dropVal_struct, dropVal_raw, preDrop, declAt, zeroizeFields, zeroizeVal, secretsLeft,
    secretsLeftAll]

end Props.C16Sem

#print axioms Props.C16Sem.owners_closed
#print axioms Props.C16Sem.non_owner_holds_no_secret
#print axioms Props.C16Sem.zeroize_and_drop_monotone
#print axioms Props.C16Sem.S1_wipedOnDrop_sound
#print axioms Props.C16Sem.secretsCovered_deriveSound
#print axioms Props.C16Sem.S1_secretsCovered_sound
#print axioms Props.C16Sem.S2_wipedByZeroize_sound
#print axioms Props.C16Sem.S2_wipedByZeroize_direct
#print axioms Props.C16Sem.S3_generated_wiped_on_drop
#print axioms Props.C16Sem.S3_generated_wiped_on_drop_all
#print axioms Props.C16Sem.generated_zeroizeSound
#print axioms Props.C16Sem.generated_deriveSound
#print axioms Props.C16Sem.S3_generated_wiped_by_zeroize
#print axioms Props.C16Sem.S3_generated_zeroize_covered
#print axioms Props.C16Sem.S1_needs_deriveSound
#print axioms Props.C16Sem.samples_nonvacuous
#print axioms Props.C16Sem.samples_wiped_on_drop
#print axioms Props.C16Sem.samples_wiped_by_zeroize

/-
C16, semantic justification of the side conditions: for EVERY declaration table, the decidable checks of
`Impl/Zeroize.lean` imply that no secret byte survives in the value model of `Impl/ZeroizeSem.lean`
(values = trees of structs / containers / byte leaves; `zeroizeVal` = `zeroize()`; `dropVal` = drop glue with
`ZeroizeOnDrop`; `secretsLeft` = number of non-zero secret bytes still in memory).

Reading guide.
* `owners_closed`, `non_owner_holds_no_secret`: the closure `owners ds` is a fixed point and contains every struct
  that can (transitively, by value) contain a secret byte in a well-typed value.
* `S1_wipedOnDrop_sound`: `wipedOnDrop` ⇒ nothing survives `drop` (per index; needs `DeriveSound`, see below).
* `S1_secretsCovered_sound`: `SecretsCovered ds` ⇒ nothing survives the drop of ANY well-typed struct value.
* `S2_wipedByZeroize_sound`, `S2_wipedByZeroize_direct`: the same for an explicit `zeroize()`.
* `S3_*`: the instances for the table regenerated from the sources.
* `S4`: non-vacuity examples (good values of the generated table; bad tables where secrets survive).

Why `DeriveSound` / `ZeroizeSound`.  Case (a) of `wipedOnDrop` ("derives Zeroize + ZeroizeOnDrop and skips no
secret field") does not look at the types of the non-skipped fields.  In Rust the derive only compiles if these
types implement `Zeroize`; in the model a struct type that does not derive it is left unchanged by `zeroize()`.
So the per-index statement needs that the secret-bearing structs owned by non-skipped fields of such a struct are
themselves wiped (`DeriveSound`, a decidable condition implied by `SecretsCovered`); without it the per-index
statement is false in the model (`S1_needs_deriveSound` below).  No acyclicity assumption and no assumption on the
fuel is needed: the proof is by induction on the value, not on the fuel.
-/
import HbsLms.Lemmas.ZeroizeSem
import HbsLms.Props.C16

namespace Props.C16Sem

open Generated Impl.Zeroize Impl.ZeroizeSem

/-! ## the closure -/

/-- `owners ds` is a fixed point of the closure step, for every table (so `ds.length` iterations suffice). -/
theorem owners_closed (ds : List StructDecl) : ownersStep ds (owners ds) = owners ds :=
  ownersStep_owners ds

/-- Every struct that can hold a secret byte is in `owners ds`: a well-typed value of a struct outside the closure
contains no secret byte at all, at any depth. -/
theorem non_owner_holds_no_secret (ds : List StructDecl) (i : Nat) (fs : List Val)
    (hwt : WellTyped ds (.struct i fs) = true) (hi : ¬ i ∈ owners ds) :
    secretsLeft (.struct i fs) = 0 :=
  secretsLeft_of_not_mem_owners ds i fs hwt hi

/-- `zeroize()` and `drop` never create secret bytes (any table, any value, typed or not). -/
theorem zeroize_and_drop_monotone (ds : List StructDecl) (v : Val) :
    secretsLeft (zeroizeVal ds v) ≤ secretsLeft v ∧ secretsLeft (dropVal ds v) ≤ secretsLeft v :=
  ⟨secretsLeft_zeroizeVal_le ds v, secretsLeft_dropVal_le ds v⟩

/-! ## S1 -/

/-- **S1.** Every table `ds` with sound derives, every index `i`, every fuel (in particular `ds.length`), every
well-typed value of struct `i`: if `wipedOnDrop` accepts `i`, no secret byte survives the drop. -/
theorem S1_wipedOnDrop_sound (ds : List StructDecl) (hD : DeriveSound ds = true) (i : Nat)
    (hw : wipedOnDrop ds (owners ds) ds.length i = true) (fs : List Val)
    (hwt : WellTyped ds (.struct i fs) = true) :
    secretsLeft (dropVal ds (.struct i fs)) = 0 :=
  wipedOnDrop_sound ds hD ds.length i hw fs hwt

/-- `SecretsCovered` implies the extra condition of S1. -/
theorem secretsCovered_deriveSound (ds : List StructDecl) (h : SecretsCovered ds = true) :
    DeriveSound ds = true :=
  deriveSound_of_secretsCovered h

/-- **S1, global form.** If the side condition `SecretsCovered ds` holds, then dropping ANY well-typed struct value
(secret-bearing or not) leaves no secret byte behind. -/
theorem S1_secretsCovered_sound (ds : List StructDecl) (h : SecretsCovered ds = true) (i : Nat) (fs : List Val)
    (hwt : WellTyped ds (.struct i fs) = true) :
    secretsLeft (dropVal ds (.struct i fs)) = 0 := by
  by_cases hi : i ∈ owners ds
  · have hw : wipedOnDrop ds (owners ds) ds.length i = true := by
      simp only [SecretsCovered, List.all_eq_true] at h
      exact h i hi
    exact S1_wipedOnDrop_sound ds (secretsCovered_deriveSound ds h) i hw fs hwt
  · exact secretsLeft_dropVal_zero (non_owner_holds_no_secret ds i fs hwt hi)

/-! ## S2 -/

/-- **S2.** Every table with sound `Zeroize` derives, every index `i` accepted by `wipedByZeroize`, every well-typed
value of struct `i`: `zeroize()` clears every secret byte (the raw secrets the struct holds directly and those of
all owned structs, which `ZeroizeSound` requires to pass `wipedByZeroize` themselves). -/
theorem S2_wipedByZeroize_sound (ds : List StructDecl) (hZ : ZeroizeSound ds = true) (i : Nat)
    (hw : wipedByZeroize ds (owners ds) i = true) (fs : List Val)
    (hwt : WellTyped ds (.struct i fs) = true) :
    secretsLeft (zeroizeVal ds (.struct i fs)) = 0 :=
  wipedByZeroize_sound ds hZ i hw fs hwt

/-- **S2 with no assumption on the table.** `wipedByZeroize` alone: `zeroize()` processes every non-skipped field,
and afterwards each field that stores secret bytes itself, and each field that carries no secret, is free of
secret bytes.  (Fields owning secret-bearing structs are cleared as far as those structs are `wipedByZeroize`.) -/
theorem S2_wipedByZeroize_direct (ds : List StructDecl) (i : Nat) (d : StructDecl) (hd : declAt ds i = some d)
    (hw : wipedByZeroize ds (owners ds) i = true) (fs : List Val)
    (hwt : WellTyped ds (.struct i fs) = true) :
    zeroizeVal ds (.struct i fs) = .struct i (zeroizeFields ds d.fields fs) ∧
      ∀ p ∈ List.zip d.fields (zeroizeFields ds d.fields fs),
        (p.1.rawSecret = true ∨ fieldSecret (owners ds) p.1 = false) → secretsLeft p.2 = 0 :=
  wipedByZeroize_direct ds i d hd hw fs hwt

/-! ## S3: the table regenerated from the sources -/

/-- **S3.** For the generated table: every well-typed value of a secret-bearing struct leaves no secret byte behind
when it goes out of scope. -/
theorem S3_generated_wiped_on_drop (i : Nat) (_hi : i ∈ owners structDecls) (fs : List Val)
    (hwt : WellTyped structDecls (.struct i fs) = true) :
    secretsLeft (dropVal structDecls (.struct i fs)) = 0 :=
  S1_secretsCovered_sound structDecls Props.C16.secrets_covered_on_drop i fs hwt

/-- ... and in fact every well-typed struct value of the generated table. -/
theorem S3_generated_wiped_on_drop_all (i : Nat) (fs : List Val)
    (hwt : WellTyped structDecls (.struct i fs) = true) :
    secretsLeft (dropVal structDecls (.struct i fs)) = 0 :=
  S1_secretsCovered_sound structDecls Props.C16.secrets_covered_on_drop i fs hwt

theorem generated_zeroizeSound : ZeroizeSound structDecls = true := by decide +kernel

theorem generated_deriveSound : DeriveSound structDecls = true := by decide +kernel

/-- **S3 for `zeroize()`.** For the generated table: every struct accepted by `wipedByZeroize` is cleared completely
by an explicit `zeroize()`. -/
theorem S3_generated_wiped_by_zeroize (i : Nat)
    (hw : wipedByZeroize structDecls (owners structDecls) i = true) (fs : List Val)
    (hwt : WellTyped structDecls (.struct i fs) = true) :
    secretsLeft (zeroizeVal structDecls (.struct i fs)) = 0 :=
  S2_wipedByZeroize_sound structDecls generated_zeroizeSound i hw fs hwt

/-- the structs this applies to: every secret-bearing struct that derives `Zeroize` or stores secret bytes itself
(`Props.C16.secrets_covered_by_zeroize`) -/
theorem S3_generated_zeroize_covered (i : Nat) (hi : i ∈ owners structDecls) (d : StructDecl)
    (hd : declAt structDecls i = some d) (hz : (d.zeroize || d.fields.any (·.rawSecret)) = true)
    (fs : List Val) (hwt : WellTyped structDecls (.struct i fs) = true) :
    secretsLeft (zeroizeVal structDecls (.struct i fs)) = 0 := by
  have h := Props.C16.secrets_covered_by_zeroize
  simp only [ZeroizeCovered, List.all_eq_true] at h
  have hi' := h i hi
  rw [hd] at hi'
  simp only [hz, if_true] at hi'
  exact S3_generated_wiped_by_zeroize i hi' fs hwt

/-! ## S4: non-vacuity -/

def idxOf (name : String) : Option Nat := (structDecls.find? (·.name == name)).map (·.idx)

example : idxOf "Seed" = some 8 ∧ idxOf "LmsPrivateKey" = some 25 ∧ idxOf "LmotsPrivateKey" = some 20 ∧
    idxOf "LmotsParameter" = some 22 ∧ idxOf "LmsParameter" = some 29 ∧ idxOf "HssPrivateKey" = some 2 := by
  decide +kernel

/-- a `Seed` value with three non-zero seed bytes: `data` (secret bytes), `phantom` -/
def seedVal : Val := .struct 8 [.raw true [0x17, 0x2a, 0xff], .raw false []]

def lmotsParamVal : Val :=
  .struct 22 [.raw false [0, 0, 0, 4], .raw false [8], .raw false [0, 34], .raw false [0], .raw false []]

def lmsParamVal : Val := .struct 29 [.raw false [0, 0, 0, 5], .raw false [5], .raw false []]

/-- an `LmsPrivateKey` value: tree identifier, used-leafs index, seed, (skipped) parameters -/
def lmsPrivVal : Val :=
  .struct 25 [.raw false [1, 2, 3, 4], .raw false [0, 0, 0, 7], seedVal, lmotsParamVal, lmsParamVal]

/-- an `LmotsPrivateKey` value with two chain values -/
def lmotsPrivVal : Val :=
  .struct 20 [.raw false [1, 2, 3, 4], .raw false [0, 0, 0, 7],
    .many [.raw true [9, 9], .raw true [0, 5]], lmotsParamVal]

/-- an `HssPrivateKey` value (derives nothing, wiped through its fields): two levels of private keys -/
def hssPrivVal : Val := .struct 2 [.many [lmsPrivVal, lmsPrivVal], .many [], .many []]

example : WellTyped structDecls seedVal = true ∧ WellTyped structDecls lmsPrivVal = true ∧
    WellTyped structDecls lmotsPrivVal = true ∧ WellTyped structDecls hssPrivVal = true := by decide +kernel

example : secretsLeft seedVal = 3 ∧ secretsLeft lmsPrivVal = 3 ∧ secretsLeft lmotsPrivVal = 3 ∧
    secretsLeft hssPrivVal = 6 := by decide +kernel

example : 8 ∈ owners structDecls ∧ 25 ∈ owners structDecls ∧ 20 ∈ owners structDecls ∧
    2 ∈ owners structDecls := by decide +kernel

/-- the secrets are gone after the drop (S3 applied to concrete values that do contain secret bytes) -/
example : secretsLeft (dropVal structDecls seedVal) = 0 ∧ secretsLeft (dropVal structDecls lmsPrivVal) = 0 ∧
    secretsLeft (dropVal structDecls lmotsPrivVal) = 0 ∧ secretsLeft (dropVal structDecls hssPrivVal) = 0 :=
  ⟨S3_generated_wiped_on_drop_all 8 _ (by decide +kernel), S3_generated_wiped_on_drop_all 25 _ (by decide +kernel),
   S3_generated_wiped_on_drop_all 20 _ (by decide +kernel), S3_generated_wiped_on_drop_all 2 _ (by decide +kernel)⟩

/-- ... and after an explicit `zeroize()` of the key structs -/
example : secretsLeft (zeroizeVal structDecls seedVal) = 0 ∧ secretsLeft (zeroizeVal structDecls lmsPrivVal) = 0 ∧
    secretsLeft (zeroizeVal structDecls lmotsPrivVal) = 0 :=
  ⟨S3_generated_wiped_by_zeroize 8 (by decide +kernel) _ (by decide +kernel),
   S3_generated_wiped_by_zeroize 25 (by decide +kernel) _ (by decide +kernel),
   S3_generated_wiped_by_zeroize 20 (by decide +kernel) _ (by decide +kernel)⟩

/-- the model computes: `zeroize()` on the `LmsPrivateKey` value clears the non-skipped fields (also the non-secret
ones) and leaves the skipped parameter fields alone -/
example : zeroizeVal structDecls lmsPrivVal =
    .struct 25 [.raw false [0, 0, 0, 0], .raw false [0, 0, 0, 0],
      .struct 8 [.raw true [0, 0, 0], .raw false []], lmotsParamVal, lmsParamVal] := by rfl

/-- ... and so does `drop`: `ZeroizeOnDrop` runs `zeroize()` first, then the fields are dropped (the inner `Seed` is
zeroized a second time by its own `ZeroizeOnDrop`; the skipped parameter structs are left as they are) -/
example : dropVal structDecls lmsPrivVal =
    .struct 25 [.raw false [0, 0, 0, 0], .raw false [0, 0, 0, 0],
      .struct 8 [.raw true [0, 0, 0], .raw false []], lmotsParamVal, lmsParamVal] := by
  have h25 : preDrop structDecls 25 [.raw false [1, 2, 3, 4], .raw false [0, 0, 0, 7], seedVal, lmotsParamVal,
      lmsParamVal] = [.raw false [0, 0, 0, 0], .raw false [0, 0, 0, 0],
      .struct 8 [.raw true [0, 0, 0], .raw false []], lmotsParamVal, lmsParamVal] := by rfl
  have h8 : preDrop structDecls 8 [.raw true [0, 0, 0], .raw false []] =
      [.raw true [0, 0, 0], .raw false []] := by rfl
  have h22 : ∀ fs, preDrop structDecls 22 fs = fs := fun _ => rfl
  have h29 : ∀ fs, preDrop structDecls 29 fs = fs := fun _ => rfl
  have d22 : dropVal structDecls lmotsParamVal = lmotsParamVal := by
    simp [lmotsParamVal, dropVal_struct, dropVal_raw, h22]
  have d29 : dropVal structDecls lmsParamVal = lmsParamVal := by
    simp [lmsParamVal, dropVal_struct, dropVal_raw, h29]
  have d8 : dropVal structDecls (.struct 8 [.raw true [0, 0, 0], .raw false []]) =
      .struct 8 [.raw true [0, 0, 0], .raw false []] := by
    simp [dropVal_struct, dropVal_raw, h8]
  rw [lmsPrivVal, dropVal_struct, h25]
  simp [dropVal_raw, d22, d29, d8]

/-! ### bad tables: the side condition fails and a secret survives -/

/-- a struct that marks its secret field `#[zeroize(skip)]` -/
def badSkip : List StructDecl :=
  [⟨0, "bad.rs", "Leaky", ["Zeroize", "ZeroizeOnDrop"], true, true, [⟨"key", "[u8; 32]", true, [], true⟩]⟩]

/-- a struct that stores secret bytes and derives nothing -/
def badPlain : List StructDecl :=
  [⟨0, "bad.rs", "Plain", [], false, false, [⟨"key", "[u8; 32]", false, [], true⟩]⟩]

/-- a `Zeroize + ZeroizeOnDrop` wrapper around a struct that stores secret bytes and derives nothing
(does not compile in Rust; in the model `zeroize()` leaves the inner struct unchanged) -/
def badWrap : List StructDecl :=
  [⟨0, "bad.rs", "Wrapper", ["Zeroize", "ZeroizeOnDrop"], true, true, [⟨"inner", "Plain", false, [1], false⟩]⟩,
   ⟨1, "bad.rs", "Plain", [], false, false, [⟨"key", "[u8; 32]", false, [], true⟩]⟩]

def leakyVal : Val := .struct 0 [.raw true [7]]
def wrapVal : Val := .struct 0 [.struct 1 [.raw true [7]]]

example : SecretsCovered badSkip = false ∧ WellTyped badSkip leakyVal = true ∧
    secretsLeft (dropVal badSkip leakyVal) = 1 := by
  refine ⟨by decide +kernel, by decide +kernel, ?_⟩
  simp [leakyVal, badSkip, dropVal_struct, dropVal_raw, preDrop, declAt, zeroizeFields, secretsLeft,
    secretsLeftAll]

example : SecretsCovered badPlain = false ∧ WellTyped badPlain leakyVal = true ∧
    secretsLeft (dropVal badPlain leakyVal) = 1 := by
  refine ⟨by decide +kernel, by decide +kernel, ?_⟩
  simp [leakyVal, badPlain, dropVal_struct, dropVal_raw, preDrop, declAt, secretsLeft, secretsLeftAll]

/-- The per-index S1 really needs `DeriveSound`: in `badWrap`, struct 0 passes `wipedOnDrop` (it derives both traits
and skips nothing), yet the secret of the inner struct survives - and `DeriveSound` / `SecretsCovered` are false. -/
theorem S1_needs_deriveSound :
    wipedOnDrop badWrap (owners badWrap) badWrap.length 0 = true ∧ WellTyped badWrap wrapVal = true ∧
      secretsLeft (dropVal badWrap wrapVal) = 1 ∧ DeriveSound badWrap = false ∧
      SecretsCovered badWrap = false := by
  refine ⟨by decide +kernel, by decide +kernel, ?_, by decide +kernel, by decide +kernel⟩
  simp [wrapVal, badWrap, dropVal_struct, dropVal_raw, preDrop, declAt, zeroizeFields, zeroizeVal, secretsLeft,
    secretsLeftAll]

end Props.C16Sem

#print axioms Props.C16Sem.owners_closed
#print axioms Props.C16Sem.non_owner_holds_no_secret
#print axioms Props.C16Sem.zeroize_and_drop_monotone
#print axioms Props.C16Sem.S1_wipedOnDrop_sound
#print axioms Props.C16Sem.secretsCovered_deriveSound
#print axioms Props.C16Sem.S1_secretsCovered_sound
#print axioms Props.C16Sem.S2_wipedByZeroize_sound
#print axioms Props.C16Sem.S2_wipedByZeroize_direct
#print axioms Props.C16Sem.S3_generated_wiped_on_drop
#print axioms Props.C16Sem.S3_generated_wiped_on_drop_all
#print axioms Props.C16Sem.generated_zeroizeSound
#print axioms Props.C16Sem.generated_deriveSound
#print axioms Props.C16Sem.S3_generated_wiped_by_zeroize
#print axioms Props.C16Sem.S3_generated_zeroize_covered
#print axioms Props.C16Sem.S1_needs_deriveSound

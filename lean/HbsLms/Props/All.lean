-- all property theorem modules
import HbsLms.Props.C01
import HbsLms.Props.C02
import HbsLms.Props.C03
import HbsLms.Props.C04
import HbsLms.Props.C05
import HbsLms.Props.C06
import HbsLms.Props.C07
import HbsLms.Props.C07Rfc
import HbsLms.Props.C08
import HbsLms.Props.C09
import HbsLms.Props.C10
import HbsLms.Props.C11
import HbsLms.Props.C12
import HbsLms.Props.C13
import HbsLms.Props.C14
import HbsLms.Props.C15
import HbsLms.Props.C16

/-
C16 - secret-bearing values are wiped when dropped or exhausted.
-/
import HbsLms.Impl.Zeroize
import HbsLms.Impl.Hss

namespace Props.C16

open Impl Impl.Zeroize

/-- Kernel-checked verdict on the declaration table regenerated from the current sources: every struct that owns
seed bytes, a per-tree seed or chain values (directly, or through fields it owns by value) is wiped when it goes
out of scope. -/
theorem secrets_covered_on_drop : SecretsCovered Generated.structDecls = true := by decide +kernel

/-- ... and every such struct that is wiped by its own derive clears all of its secret fields when `zeroize()`d. -/
theorem secrets_covered_by_zeroize : ZeroizeCovered Generated.structDecls = true := by decide +kernel

/-- the secret-bearing structs the closure finds (so that the verdict above is not about an empty set) -/
theorem secret_bearing_structs_found :
    (owners Generated.structDecls).length ≥ 5 := by decide +kernel

/-- The exhausted private key handed to the callback contains no seed bytes: it is `0^8 ‖ ff^8 ‖ 0^n` for every
seed the key had. -/
theorem wiped_key_has_no_seed_bytes (n : Nat) :
    (RefKey.wiped n).bytes = Bytes.zeros 8 ++ List.replicate 8 0xff ++ Bytes.zeros n := by
  simp [RefKey.wiped, RefKey.bytes, Bytes.u64be, Bytes.be, Bytes.zeros, Generated.REF_IMPL_MAX_ALLOWED_HSS_LEVELS,
    Generated.PARAM_SET_END]

/-- Using the last leaf yields the wiped key whatever the seed was. -/
theorem last_leaf_wipes (k : RefKey) (n : Nat) (hs : List Nat) (h : incrementCounter hs k.counter = none) :
    (k.increment n hs).bytes = Bytes.zeros 8 ++ List.replicate 8 0xff ++ Bytes.zeros n := by
  unfold RefKey.increment
  rw [h]
  exact wiped_key_has_no_seed_bytes n

-- non-vacuity: the closure really contains the named types
example : "Seed" ∈ ownerNames Generated.structDecls ∧ "LmotsPrivateKey" ∈ ownerNames Generated.structDecls ∧
    "LmsPrivateKey" ∈ ownerNames Generated.structDecls ∧ "ReferenceImplPrivateKey" ∈ ownerNames Generated.structDecls ∧
    "SeedAndLmsTreeIdentifier" ∈ ownerNames Generated.structDecls := by decide +kernel

end Props.C16

#print axioms Props.C16.secrets_covered_on_drop
#print axioms Props.C16.secrets_covered_by_zeroize
#print axioms Props.C16.secret_bearing_structs_found
#print axioms Props.C16.wiped_key_has_no_seed_bytes
#print axioms Props.C16.last_leaf_wipes

/-
C02 - verification returns success if and only if the RFC 8554 HSS verification algorithm accepts.

`Spec.hssValid` (`HbsLms/Spec/Rfc8554.lean`) is RFC 8554 section 6.3 with Algorithms 4b, 6 and 6a, written from the
RFC text as total functions on byte strings, exact-length checks included, parameterised by the type-code tables.
`Impl.hssVerify` is the panic-aware model of `hss_verify` (zero-copy parsers `InMemory*::new`, `lm_ots::verify`,
`lms::verify`, `hss::verify`). The theorem is an equality of results for ALL message, signature and public-key byte
strings, every hash function and every build configuration; it contains totality (the left-hand side is `.ok _`).
-/
import HbsLms.Lemmas.VerifyRefine

namespace Props.C02

open Impl Lemmas Lemmas.Refine

/-- `libTables n` (defined in `Lemmas/VerifyRefine.lean`) is the library's type-code tables for hash output length
`n`, as the specification's `Tables` -/
theorem libTables_eq (n : Nat) : libTables n = ⟨Params.lmotsGetFromType n, Params.lmsGetFromType⟩ := rfl

/-! ### domain separators -/

theorem d_pblc : Generated.D_PBLC = [0x80, 0x80] ∧ Spec.D_PBLC = Generated.D_PBLC := ⟨rfl, rfl⟩
theorem d_mesg : Generated.D_MESG = [0x81, 0x81] ∧ Spec.D_MESG = Generated.D_MESG := ⟨rfl, rfl⟩
theorem d_leaf : Generated.D_LEAF = [0x82, 0x82] ∧ Spec.D_LEAF = Generated.D_LEAF := ⟨rfl, rfl⟩
theorem d_intr : Generated.D_INTR = [0x83, 0x83] ∧ Spec.D_INTR = Generated.D_INTR := ⟨rfl, rfl⟩

/-! ### the refinement theorem -/

/-- MAIN THEOREM. For every hash function, build configuration, message, signature and public key (arbitrary byte
strings), `hss_verify` returns exactly the verdict of the RFC 8554 algorithm with the library's parameter tables;
in particular it never faults. -/
theorem verify_iff_rfc (H : HashFn) (cfg : Config) (msg sig pk : Bytes) :
    Impl.hssVerify H cfg msg sig pk = .ok (Spec.hssValid H (libTables H.n) cfg.maxLevels msg sig pk) :=
  hss_refine H cfg msg sig pk

theorem verify_accepts_iff (H : HashFn) (cfg : Config) (msg sig pk : Bytes) :
    Impl.hssVerify H cfg msg sig pk = .ok true ↔ Spec.hssValid H (libTables H.n) cfg.maxLevels msg sig pk = true := by
  rw [verify_iff_rfc]
  constructor
  · intro h; exact Except.ok.inj h
  · intro h; rw [h]

theorem verify_rejects_iff (H : HashFn) (cfg : Config) (msg sig pk : Bytes) :
    Impl.hssVerify H cfg msg sig pk = .ok false ↔ Spec.hssValid H (libTables H.n) cfg.maxLevels msg sig pk = false := by
  rw [verify_iff_rfc]
  constructor
  · intro h; exact Except.ok.inj h
  · intro h; rw [h]

/-! ### the three entry points -/

theorem maxHssPkLen_eq : Config.maxHssPkLen = 60 := rfl

/-- `hss_verify` called directly -/
theorem verifyEntry_fn (H : HashFn) (cfg : Config) (msg sig pk : Bytes) :
    verifyEntry .fn H cfg msg sig pk = .ok (Spec.hssValid H (libTables H.n) cfg.maxLevels msg sig pk) :=
  verify_iff_rfc H cfg msg sig pk

/-- a public key longer than `VerifyingKey` can hold is never RFC-valid for the library's hash lengths, so the
capacity check of `VerifyingKey::from_bytes` does not change the verdict -/
theorem long_pk_invalid (H : HashFn) (maxLevels : Nat) (msg sig pk : Bytes) (h : pk.length > 60) :
    Spec.hssValid H (libTables H.n) maxLevels msg sig pk = false := by
  cases hv : Spec.hssValid H (libTables H.n) maxLevels msg sig pk with
  | false => rfl
  | true =>
    obtain ⟨h1, h2⟩ := hssValid_pk_len H maxLevels msg sig pk hv
    simp only [List.mem_cons, List.mem_nil_iff, or_false] at h2
    omega

/-- `VerifierSignature` + `VerifyingKey`: unconditional -/
theorem verifyEntry_viaVerifierSignature (H : HashFn) (cfg : Config) (msg sig pk : Bytes) :
    verifyEntry .viaVerifierSignature H cfg msg sig pk =
      .ok (Spec.hssValid H (libTables H.n) cfg.maxLevels msg sig pk) := by
  simp only [verifyEntry]
  by_cases h : pk.length > Config.maxHssPkLen
  · rw [if_pos h, long_pk_invalid H cfg.maxLevels msg sig pk (by rw [maxHssPkLen_eq] at h; exact h)]; rfl
  · rw [if_neg h]; exact verify_iff_rfc H cfg msg sig pk

/-- `Signature` + `VerifyingKey`: the signature must additionally fit the `Signature` buffer (tinyvec `u16` length and
the build's `MAX_HSS_SIGNATURE_LENGTH`); exact statement -/
theorem verifyEntry_viaSignature_exact (H : HashFn) (cfg : Config) (msg sig pk : Bytes) :
    verifyEntry .viaSignature H cfg msg sig pk =
      .ok (decide (sig.length ≤ 65535 ∧ sig.length ≤ cfg.maxHssSigLen) &&
        Spec.hssValid H (libTables H.n) cfg.maxLevels msg sig pk) := by
  simp only [verifyEntry]
  by_cases hc : (sig.length > 65535 || sig.length > cfg.maxHssSigLen || pk.length > Config.maxHssPkLen) = true
  · rw [if_pos hc]
    simp only [Bool.or_eq_true, decide_eq_true_eq, maxHssPkLen_eq] at hc
    by_cases hs : sig.length ≤ 65535 ∧ sig.length ≤ cfg.maxHssSigLen
    · have hp : pk.length > 60 := by
        rcases hc with (h1 | h1) | h1
        · exact absurd hs.1 (by omega)
        · exact absurd hs.2 (by omega)
        · exact of_decide_eq_true h1
      rw [long_pk_invalid H cfg.maxLevels msg sig pk hp, Bool.and_false]; rfl
    · rw [decide_eq_false hs, Bool.false_and]; rfl
  · rw [if_neg hc]
    simp only [Bool.or_eq_true, decide_eq_true_eq, not_or, Nat.not_lt] at hc
    have hs : sig.length ≤ 65535 ∧ sig.length ≤ cfg.maxHssSigLen := ⟨by omega, by omega⟩
    rw [decide_eq_true hs, Bool.true_and]
    exact verify_iff_rfc H cfg msg sig pk

/-- all three entry points return the RFC verdict (for the `Signature` entry point: on signatures that fit its buffer) -/
theorem verifyEntry_iff_rfc (e : Entry) (H : HashFn) (cfg : Config) (msg sig pk : Bytes)
    (hsig : e = .viaSignature → sig.length ≤ 65535 ∧ sig.length ≤ cfg.maxHssSigLen) :
    verifyEntry e H cfg msg sig pk = .ok (Spec.hssValid H (libTables H.n) cfg.maxLevels msg sig pk) := by
  cases e with
  | fn => exact verifyEntry_fn H cfg msg sig pk
  | viaSignature =>
    rw [verifyEntry_viaSignature_exact, decide_eq_true (hsig rfl), Bool.true_and]
  | viaVerifierSignature => exact verifyEntry_viaVerifierSignature H cfg msg sig pk

/-- the statement with the size hypotheses of the task description -/
theorem verifyEntry_iff_rfc' (e : Entry) (H : HashFn) (cfg : Config) (msg sig pk : Bytes)
    (_hs : sig.length ≤ 65535 ∧ sig.length ≤ cfg.maxHssSigLen) (_hp : pk.length ≤ 60) :
    verifyEntry e H cfg msg sig pk = .ok (Spec.hssValid H (libTables H.n) cfg.maxLevels msg sig pk) :=
  verifyEntry_iff_rfc e H cfg msg sig pk (fun _ => _hs)

/-! ### the three levels separately -/

/-- level (a), LM-OTS: `InMemoryLmotsSignature::new` + exact length + `generate_public_key_candidate` = Algorithm 4b -/
theorem lmots_level (H : HashFn) (I : Bytes) (q : Nat) (msg ob : Bytes) :
    (match InMemLmotsSig.parse H.n ob with
     | some s =>
       if ob.length = 4 + H.n * (s.param.p + 1) then (lmotsCandidate H s I q msg).map some else pure none
     | none => pure none) = .ok (Spec.lmotsKc H (libTables H.n) I q msg ob) :=
  lmots_refine H I q msg ob

/-- level (a) on parsed input, as an equivalence -/
theorem lmots_level_parsed (H : HashFn) (I : Bytes) (q : Nat) (msg ob kc : Bytes) (s : InMemLmotsSig)
    (hs : InMemLmotsSig.parse H.n ob = some s) (hl : ob.length = 4 + H.n * (s.param.p + 1)) :
    lmotsCandidate H s I q msg = .ok kc ↔ Spec.lmotsKc H (libTables H.n) I q msg ob = some kc := by
  obtain ⟨kc', h1, h2⟩ := lmotsKc_eq H I q msg ob s hs hl
  rw [h1, h2]
  constructor
  · intro h; rw [Except.ok.inj h]
  · intro h; rw [Option.some.inj h]

/-- level (b), LMS: both parsers + no left-over bytes + `lms::verify::verify` = Algorithm 6 (with 6a) -/
theorem lms_level (H : HashFn) (msg d kb : Bytes) :
    (match InMemLmsSig.parse H.n d, InMemLmsPk.parse H.n kb with
     | some s, some key =>
       if d.length = s.len H.n ∧ kb.length = 24 + H.n then lmsVerify H s key msg else pure false
     | _, _ => pure false) = .ok (Spec.lmsValid H (libTables H.n) msg d kb) :=
  lms_refine H msg d kb

/-- level (b) on parsed input -/
theorem lms_level_parsed (H : HashFn) (msg d kb : Bytes) (s : InMemLmsSig) (key : InMemLmsPk)
    (hs : InMemLmsSig.parse H.n d = some s) (hd : d.length = s.len H.n)
    (hk : InMemLmsPk.parse H.n kb = some key) (hkl : kb.length = 24 + H.n) :
    lmsVerify H s key msg = .ok (Spec.lmsValid H (libTables H.n) msg d kb) :=
  lmsVerify_eq H msg d kb s key hs hd hk hkl

/-! ### corollaries: what is rejected (each for all inputs) -/

/-- the level count announced by the signature (`Nspk`) -/
abbrev sigLevels (sig : Bytes) : Nat := Spec.strTou32 (Spec.bytesAt sig 0 4)
/-- the level count of the public key (`L`) -/
abbrev pkLevels (pk : Bytes) : Nat := Spec.strTou32 (Spec.bytesAt pk 0 4)

/-- wrong level count: `Nspk + 1 ≠ L` -/
theorem wrong_level_count_rejected (H : HashFn) (cfg : Config) (msg sig pk : Bytes)
    (h : sigLevels sig + 1 ≠ pkLevels pk) : Impl.hssVerify H cfg msg sig pk = .ok false := by
  rw [verify_rejects_iff]
  cases hv : Spec.hssValid H (libTables H.n) cfg.maxLevels msg sig pk with
  | false => rfl
  | true => exact absurd (hssValid_true H _ msg sig pk hv).2.2.1 h

/-- more levels than the build supports -/
theorem too_many_levels_rejected (H : HashFn) (cfg : Config) (msg sig pk : Bytes)
    (h : sigLevels sig > cfg.maxLevels - 1) : Impl.hssVerify H cfg msg sig pk = .ok false := by
  rw [verify_rejects_iff]
  cases hv : Spec.hssValid H (libTables H.n) cfg.maxLevels msg sig pk with
  | false => rfl
  | true =>
    have := (hssValid_true H _ msg sig pk hv).2.2.2.1
    simp only [sigLevels] at h
    omega

/-- a public key that is not exactly `4 + 24 + n` bytes long -/
theorem pk_length_rejected (H : HashFn) (cfg : Config) (msg sig pk : Bytes) (h : pk.length ≠ 28 + H.n) :
    Impl.hssVerify H cfg msg sig pk = .ok false := by
  rw [verify_rejects_iff]
  cases hv : Spec.hssValid H (libTables H.n) cfg.maxLevels msg sig pk with
  | false => rfl
  | true => exact absurd (hssValid_pk_len H _ msg sig pk hv).1 h

/-- an accepted signature has exactly the RFC length: after `Nspk` signed public keys, what remains is one LMS
signature whose length is the one its type codes announce (nothing missing, nothing trailing) -/
theorem accepted_length_exact (H : HashFn) (cfg : Config) (msg sig pk : Bytes)
    (h : Impl.hssVerify H cfg msg sig pk = .ok true) :
    ∃ l last, Spec.splitSigned H.n (libTables H.n) (sigLevels sig) (sig.drop 4) = some (l, last) ∧
      Spec.lmsSigLen H.n (libTables H.n) last = some last.length :=
  hssValid_last_len H cfg.maxLevels msg sig pk ((verify_accepts_iff H cfg msg sig pk).mp h)

/-- … so a signature whose tail after the signed public keys is shorter or longer than that is rejected -/
theorem wrong_length_rejected (H : HashFn) (cfg : Config) (msg sig pk : Bytes) (l : List (Bytes × Bytes)) (last : Bytes)
    (hsp : Spec.splitSigned H.n (libTables H.n) (sigLevels sig) (sig.drop 4) = some (l, last))
    (hlen : Spec.lmsSigLen H.n (libTables H.n) last ≠ some last.length) :
    Impl.hssVerify H cfg msg sig pk = .ok false := by
  rw [verify_rejects_iff]
  cases hv : Spec.hssValid H (libTables H.n) cfg.maxLevels msg sig pk with
  | false => rfl
  | true =>
    obtain ⟨l', last', hsp', hlen'⟩ := hssValid_last_len H cfg.maxLevels msg sig pk hv
    rw [hsp] at hsp'
    simp only [Option.some.injEq, Prod.mk.injEq] at hsp'
    rw [← hsp'.2] at hlen'
    exact absurd hlen' hlen

/-- … and a signature that cannot even be split into `Nspk` signed public keys is rejected -/
theorem unsplittable_rejected (H : HashFn) (cfg : Config) (msg sig pk : Bytes)
    (hsp : Spec.splitSigned H.n (libTables H.n) (sigLevels sig) (sig.drop 4) = none) :
    Impl.hssVerify H cfg msg sig pk = .ok false := by
  rw [verify_rejects_iff]
  cases hv : Spec.hssValid H (libTables H.n) cfg.maxLevels msg sig pk with
  | false => rfl
  | true =>
    obtain ⟨l', last', hsp', _⟩ := hssValid_last_len H cfg.maxLevels msg sig pk hv
    rw [hsp] at hsp'; simp at hsp'

/-- extended: an accepted signature followed by any non-empty byte string is rejected -/
theorem trailing_bytes_rejected (H : HashFn) (cfg : Config) (msg sig pk extra : Bytes)
    (h : Impl.hssVerify H cfg msg sig pk = .ok true) (he : extra ≠ []) :
    Impl.hssVerify H cfg msg (sig ++ extra) pk = .ok false := by
  rw [verify_rejects_iff]
  exact hssValid_extend H cfg.maxLevels msg sig pk extra ((verify_accepts_iff H cfg msg sig pk).mp h) he

/-- truncated: every proper prefix of an accepted signature is rejected -/
theorem truncated_rejected (H : HashFn) (cfg : Config) (msg sig pk : Bytes) (m : Nat)
    (h : Impl.hssVerify H cfg msg sig pk = .ok true) (hm : m < sig.length) :
    Impl.hssVerify H cfg msg (sig.take m) pk = .ok false := by
  rw [verify_rejects_iff]
  cases hv : Spec.hssValid H (libTables H.n) cfg.maxLevels msg (sig.take m) pk with
  | false => rfl
  | true =>
    have hne : sig.drop m ≠ [] := by
      intro h0
      have := congrArg List.length h0
      rw [List.length_drop] at this
      simp at this; omega
    have := hssValid_extend H cfg.maxLevels msg (sig.take m) pk (sig.drop m) hv hne
    rw [List.take_append_drop] at this
    rw [(verify_accepts_iff H cfg msg sig pk).mp h] at this
    exact absurd this (by simp)

/-- unknown LMS type code in the public key -/
theorem unknown_lms_type_in_pk_rejected (H : HashFn) (cfg : Config) (msg sig pk : Bytes)
    (h : Params.lmsGetFromType (Spec.strTou32 (Spec.bytesAt pk 4 4)) = none) :
    Impl.hssVerify H cfg msg sig pk = .ok false := by
  by_cases hl : pk.length = 28 + H.n
  · rw [verify_rejects_iff, hssValid_eq]
    have t : Spec.strTou32 (Spec.bytesAt pk 4 4) = Bytes.toNat (Bytes.slice (pk.drop 4) 0 4) := by
      rw [slice_drop]; exact strTou32_eq _ (slice_len (by omega))
    have hk : InMemLmsPk.parse H.n (pk.drop 4) = none := by
      rw [pk_parse_eq, if_pos (by rw [List.length_drop]; omega), ← t, h]
    rw [specTail_bad_key H msg _ _ _ (Or.inl hk)]
    simp
  · exact pk_length_rejected H cfg msg sig pk hl

/-- unknown LM-OTS type code in the public key -/
theorem unknown_lmots_type_in_pk_rejected (H : HashFn) (cfg : Config) (msg sig pk : Bytes)
    (h : Params.lmotsGetFromType H.n (Spec.strTou32 (Spec.bytesAt pk 8 4)) = none) :
    Impl.hssVerify H cfg msg sig pk = .ok false := by
  by_cases hl : pk.length = 28 + H.n
  · rw [verify_rejects_iff, hssValid_eq]
    have t : Spec.strTou32 (Spec.bytesAt pk 8 4) = Bytes.toNat (Bytes.slice (pk.drop 4) 4 4) := by
      rw [slice_drop]; exact strTou32_eq _ (slice_len (by omega))
    have hk : InMemLmsPk.parse H.n (pk.drop 4) = none := by
      rw [pk_parse_eq, if_pos (by rw [List.length_drop]; omega), ← t, h]
      cases Params.lmsGetFromType (Bytes.toNat (Bytes.slice (pk.drop 4) 0 4)) <;> rfl
    rw [specTail_bad_key H msg _ _ _ (Or.inl hk)]
    simp
  · exact pk_length_rejected H cfg msg sig pk hl

/-- Algorithm 6, LMS level: a signature whose LM-OTS type code differs from the public key's is rejected -/
theorem lms_ots_type_mismatch_rejected (H : HashFn) (T : Spec.Tables) (msg d kb : Bytes)
    (h : Spec.strTou32 (Spec.bytesAt d 4 4) ≠ Spec.strTou32 (Spec.bytesAt kb 4 4)) :
    Spec.lmsValid H T msg d kb = false := by
  cases hv : Spec.lmsValid H T msg d kb with
  | false => rfl
  | true => exact absurd (lmsValid_types H T msg d kb hv).1 h

/-- Algorithm 6, LMS level: a signature whose LMS type code (read behind the LM-OTS signature) differs from the public
key's is rejected -/
theorem lms_type_mismatch_rejected (H : HashFn) (T : Spec.Tables) (msg d kb : Bytes) (op : LmotsParam)
    (hop : T.ots (Spec.strTou32 (Spec.bytesAt d 4 4)) = some op)
    (h : Spec.strTou32 (Spec.bytesAt d (4 + (4 + H.n * (op.p + 1))) 4) ≠ Spec.strTou32 (Spec.bytesAt kb 0 4)) :
    Spec.lmsValid H T msg d kb = false := by
  cases hv : Spec.lmsValid H T msg d kb with
  | false => rfl
  | true =>
    obtain ⟨_, op', hop', h'⟩ := lmsValid_types H T msg d kb hv
    rw [hop] at hop'; cases hop'
    exact absurd h' h

/-- HSS level: the LM-OTS type code of the last LMS signature differs from the one in the key that verifies it
(the last signed public key, or the HSS public key itself for a one-level signature) -/
theorem last_sig_ots_type_mismatch_rejected (H : HashFn) (cfg : Config) (msg sig pk : Bytes)
    (l : List (Bytes × Bytes)) (last : Bytes)
    (hsp : Spec.splitSigned H.n (libTables H.n) (sigLevels sig) (sig.drop 4) = some (l, last))
    (h : Spec.strTou32 (Spec.bytesAt last 4 4) ≠ Spec.strTou32 (Spec.bytesAt (lastKey l (pk.drop 4)) 4 4)) :
    Impl.hssVerify H cfg msg sig pk = .ok false := by
  rw [verify_rejects_iff]
  cases hv : Spec.hssValid H (libTables H.n) cfg.maxLevels msg sig pk with
  | false => rfl
  | true =>
    obtain ⟨_, _, _, _, l', last', hsp', hcv⟩ := hssValid_true H cfg.maxLevels msg sig pk hv
    rw [hsp] at hsp'
    simp only [Option.some.injEq, Prod.mk.injEq] at hsp'
    rw [← hsp'.1, ← hsp'.2] at hcv
    exact absurd (lmsValid_types H _ msg last _ (chainValid_last H _ msg last l _ hcv)).1 h

/-- HSS level: the LMS type code of the last LMS signature differs from the one in the key that verifies it -/
theorem last_sig_lms_type_mismatch_rejected (H : HashFn) (cfg : Config) (msg sig pk : Bytes)
    (l : List (Bytes × Bytes)) (last : Bytes) (op : LmotsParam)
    (hsp : Spec.splitSigned H.n (libTables H.n) (sigLevels sig) (sig.drop 4) = some (l, last))
    (hop : Params.lmotsGetFromType H.n (Spec.strTou32 (Spec.bytesAt last 4 4)) = some op)
    (h : Spec.strTou32 (Spec.bytesAt last (4 + (4 + H.n * (op.p + 1))) 4) ≠
      Spec.strTou32 (Spec.bytesAt (lastKey l (pk.drop 4)) 0 4)) :
    Impl.hssVerify H cfg msg sig pk = .ok false := by
  rw [verify_rejects_iff]
  cases hv : Spec.hssValid H (libTables H.n) cfg.maxLevels msg sig pk with
  | false => rfl
  | true =>
    obtain ⟨_, _, _, _, l', last', hsp', hcv⟩ := hssValid_true H cfg.maxLevels msg sig pk hv
    rw [hsp] at hsp'
    simp only [Option.some.injEq, Prod.mk.injEq] at hsp'
    rw [← hsp'.1, ← hsp'.2] at hcv
    obtain ⟨_, op', hop', h'⟩ := lmsValid_types H _ msg last _ (chainValid_last H _ msg last l _ hcv)
    have : (libTables H.n).ots (Spec.strTou32 (Spec.bytesAt last 4 4)) = some op := hop
    rw [this] at hop'; cases hop'
    exact absurd h' h

/-- one-level instance: `Nspk = 0`, the signature's LM-OTS type code (bytes 8..11) against the public key's (bytes 8..11) -/
theorem one_level_ots_type_mismatch_rejected (H : HashFn) (cfg : Config) (msg sig pk : Bytes)
    (h0 : sigLevels sig = 0)
    (h : Spec.strTou32 (Spec.bytesAt (sig.drop 4) 4 4) ≠ Spec.strTou32 (Spec.bytesAt (pk.drop 4) 4 4)) :
    Impl.hssVerify H cfg msg sig pk = .ok false :=
  last_sig_ots_type_mismatch_rejected H cfg msg sig pk [] (sig.drop 4) (by rw [h0]; rfl) h

/-! ### the hypotheses are satisfiable / the statements are not vacuous -/

example : (libTables 32).ots 4 = some ⟨4, 8, 34, 0⟩ ∧ (libTables 32).lms 5 = some ⟨5, 5⟩ := by decide +kernel
example : Spec.strTou32 [0, 0, 1, 2] = 258 ∧ Spec.u32str 258 = [0, 0, 1, 2] := by decide
example (H : HashFn) (cfg : Config) (msg : Bytes) : Impl.hssVerify H cfg msg [] [] = .ok false := by
  rw [verify_iff_rfc]; rfl

end Props.C02

#print axioms Props.C02.verify_iff_rfc
#print axioms Props.C02.verify_accepts_iff
#print axioms Props.C02.verifyEntry_iff_rfc
#print axioms Props.C02.verifyEntry_viaSignature_exact
#print axioms Props.C02.verifyEntry_viaVerifierSignature
#print axioms Props.C02.lmots_level
#print axioms Props.C02.lms_level
#print axioms Props.C02.wrong_level_count_rejected
#print axioms Props.C02.too_many_levels_rejected
#print axioms Props.C02.pk_length_rejected
#print axioms Props.C02.accepted_length_exact
#print axioms Props.C02.wrong_length_rejected
#print axioms Props.C02.unsplittable_rejected
#print axioms Props.C02.trailing_bytes_rejected
#print axioms Props.C02.truncated_rejected
#print axioms Props.C02.unknown_lms_type_in_pk_rejected
#print axioms Props.C02.unknown_lmots_type_in_pk_rejected
#print axioms Props.C02.lms_ots_type_mismatch_rejected
#print axioms Props.C02.lms_type_mismatch_rejected
#print axioms Props.C02.last_sig_ots_type_mismatch_rejected
#print axioms Props.C02.last_sig_lms_type_mismatch_rejected
#print axioms Props.C02.one_level_ots_type_mismatch_rejected

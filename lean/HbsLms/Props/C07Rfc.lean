/-
C07, last sentence: "An independent implementation of RFC 8554 verification therefore accepts every released
signature." The RFC 8554 specification `Spec.hssValid` (Spec/Rfc8554.lean, written from the RFC text and itself
cross-checked against an independent Python implementation on every run) accepts every signature the signer
model releases: composition of completeness (C01) with the refinement of the verifier to the specification (C02).
-/
import HbsLms.Props.C01
import HbsLms.Props.C02

namespace Props.C07

open Impl Lemmas

/-- For every hash function, configuration, parameter list, seed, message, callback and counter: if key generation
returns `(sk, vk)` and signing (with `sk`'s counter set to `c`) releases `sig`, then the RFC 8554 HSS verification
algorithm accepts `(msg, sig, vk)`.

The specification is instantiated with the library's type-code table `libTables H.n`. Its rows carry the Appendix-B
values (w, p, ls) for 9 of the 12 (n, w) combinations (`Props.C12.table_rows_ok`); for the three rows (24,W1), (16,W1),
(16,W2) the table's `ls` differs from Appendix B (known finding C12/C07), so for keys using those rows this theorem
speaks about RFC verification *with the library's shift*, and a verifier using the Appendix-B shift may reject. -/
theorem rfc_verification_accepts_released_signature (H : HashFn) (cfg : Config) (ps0 : List HssParam)
    (seed msg : Bytes) (c : Nat) (cb : Bytes → Bool) (skb vk : Bytes) (a0 : Option Bytes) (r0 : Bytes)
    (o : SignOutcome) (sig : Bytes)
    (hseed : seed.length = H.n)
    (hk : hssKeygen H cfg ps0 seed none = .ok ⟨some (skb, vk), a0, r0⟩)
    (hsign : hssSign H cfg msg (Props.C01.blobWithCounter skb c) cb none = .ok o)
    (hres : o.result = some sig) :
    Spec.hssValid H (libTables H.n) cfg.maxLevels msg sig vk = true := by
  have h1 := Props.C01.released_signature_verifies H cfg ps0 seed msg c cb skb vk a0 r0 o sig hseed hk hsign hres
  rw [Props.C02.verify_iff_rfc] at h1
  simpa using h1

end Props.C07

#print axioms Props.C07.rfc_verification_accepts_released_signature

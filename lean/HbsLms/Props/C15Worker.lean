/-
C15, worker side - `thread_optimize_message_hash`, `optimize_message_hash` and `fast_verify_eval`
(feature `fast_verify`): the search for a trailer never faults, scores a trial by the number of chain
iterations its digest costs, and hands `sign_mut` a trailer of exactly the hash output length.

Model: `Impl/FastVerifyWorker.lean` (`workerStep`, `workerLoop`, `workerRun`, `optimizeTrailer`) and
`Impl.fastVerifyEval`. All theorems are for an arbitrary hash function `H` and an arbitrary parameter row
`prm` with `Lemmas.OtsRowGood H.n prm = true` (every row a table lookup can return, `Lemmas.ots_row_good`).
The worker's random start value `start` (OsRng), the bytes `pre` hashed before the trailer and the number of
iterations are universally quantified; no length hypothesis on `start` or `pre` is needed.
-/
import HbsLms.Props.C15
import HbsLms.Lemmas.FastVerify

namespace Props.C15Worker

open Impl Lemmas Lemmas.FastVerify

/-! ### W1 - `fast_verify_eval` never faults (the repaired `index - n`) -/

/-- every checksum digit (`n*8/w ≤ i < p`) has `coef` index `≥ n`, and `index - n` addresses one of the two
checksum bytes: the repaired subtraction `index - HASH_FUNCTION_OUTPUT_SIZE` neither underflows nor indexes
out of range -/
theorem checksum_digit_index_ge_n {n : Nat} {prm : LmotsParam} (hg : OtsRowGood n prm = true) {i : Nat}
    (hlo : n * 8 / prm.w ≤ i) (hhi : i < prm.p) : n ≤ coefIndex i prm.w ∧ coefIndex i prm.w - n < 2 :=
  ck_digit_index hg hlo hhi

/-- REMARK (pre-repair code `index - 32`): for a hash output shorter than 31 bytes (`n = 24`, `n = 16`) every
digit index is `< n + 2 ≤ 32`, so `index - 32` on `usize` underflows for every checksum digit -/
theorem prerepair_index_below_32 {n : Nat} {prm : LmotsParam} (hg : OtsRowGood n prm = true) (hn : n + 2 ≤ 32)
    {i : Nat} (hi : i < prm.p) : coefIndex i prm.w < 32 := by
  have := all_digit_index hg hi
  omega

/-- the rows with `n = 24, 16` do have checksum digits (so the pre-repair underflow was reachable) -/
theorem short_hash_rows_have_checksum_digits : ∀ n ∈ [24, 16], ∀ t ∈ [1, 2, 3, 4],
    (Params.lmotsGetFromType n t).map (fun prm => decide (n * 8 / prm.w < prm.p)) = some true := by decide +kernel

/-- W1: `fast_verify_eval` returns a value on every `n`-byte string, for every table row -/
theorem fast_verify_eval_never_faults {n : Nat} {prm : LmotsParam} (hg : OtsRowGood n prm = true) (bs : Bytes)
    (hl : bs.length = n) : ∃ v, fastVerifyEval n prm bs = .ok v :=
  ⟨_, fastVerifyEval_eq hg bs hl⟩

/-- W1 for digests: every hash output can be scored -/
theorem fast_verify_eval_never_faults_on_digest (H : HashFn) {prm : LmotsParam} (hg : OtsRowGood H.n prm = true)
    (x : Bytes) : ∃ v, fastVerifyEval H.n prm (H.h x) = .ok v :=
  fast_verify_eval_never_faults hg _ (H.len_h x)

/-! ### W2 - the score is the total number of chain iterations -/

/-- W2: `fast_verify_eval` is the sum of the digit vector `Impl.digits` (message digits and checksum digits),
the positions the signer walks its chains to; this sum is what `sign_core` records as `hash_iterations` -/
theorem score_is_sum_of_digits {n : Nat} {prm : LmotsParam} (hg : OtsRowGood n prm = true) (bs : Bytes)
    (hl : bs.length = n) :
    ∃ ds, digits n prm bs = .ok ds ∧ ds.length = prm.p ∧ fastVerifyEval n prm bs = .ok ds.sum := by
  refine ⟨_, digits_eq hg bs hl, by simp, ?_⟩
  rw [fastVerifyEval_eq hg bs hl, fvScore_eq_digits_sum hg bs hl]

/-- the same, as an equation between the two computations -/
theorem fast_verify_eval_eq_digits_sum {n : Nat} {prm : LmotsParam} (hg : OtsRowGood n prm = true) (bs : Bytes)
    (hl : bs.length = n) : fastVerifyEval n prm bs = (digits n prm bs).map List.sum := by
  obtain ⟨ds, h1, _, h2⟩ := score_is_sum_of_digits hg bs hl
  rw [h1, h2]; rfl

/-- the score is at most `p * (2^w - 1) < 2^16`: the `u16` accumulator of `fast_verify_eval` cannot overflow -/
theorem score_fits_u16 {n : Nat} {prm : LmotsParam} (hg : OtsRowGood n prm = true) (bs : Bytes)
    (hl : bs.length = n) : ∃ v, fastVerifyEval n prm bs = .ok v ∧ v ≤ prm.p * (2 ^ prm.w - 1) ∧ v < 65536 := by
  have h1 := fvScore_le hg bs hl
  have h2 := Lemmas.FastVerify.score_fits_u16 hg
  exact ⟨_, fastVerifyEval_eq hg bs hl, h1, by omega⟩

/-! ### W3 - the worker loop -/

/-- the `j`-th value of `trial_randomizer` is `H` applied `j` times to the start value -/
theorem trialSeq_zero (H : HashFn) (t : Bytes) : trialSeq H t 0 = t := rfl
theorem trialSeq_succ (H : HashFn) (t : Bytes) (j : Nat) : trialSeq H t (j + 1) = trialSeq H (H.h t) j := rfl

theorem trialSeq_succ' (H : HashFn) (t : Bytes) (j : Nat) : trialSeq H t (j + 1) = H.h (trialSeq H t j) := by
  induction j generalizing t with
  | zero => rfl
  | succ j ih => rw [trialSeq_succ, ih (H.h t)]; rfl

/-- the score of iteration `j` (0-based): `fast_verify_eval(H(pre ‖ H^(j+1)(start)))` -/
theorem trialScore_spec (H : HashFn) {prm : LmotsParam} (hg : OtsRowGood H.n prm = true) (pre start : Bytes) (j : Nat) :
    fastVerifyEval H.n prm (H.h (pre ++ trialSeq H start (j + 1))) = .ok (trialScore H prm pre start j) :=
  fastVerifyEval_eq hg _ (H.len_h _)

/-- W3: for every start value and every number of iterations the worker returns a pair `(score, randomizer)`;
the randomizer has the hash output length; `score` is an upper bound of the scores of all iterations; and either
nothing beat the initial 0 and the randomizer is still the initial all-zero value, or the randomizer is the trial
value `H^(j+1)(start)` of an iteration `j`, `score` is exactly `fast_verify_eval(H(pre ‖ randomizer))` (so the
returned score is the maximum over the iterations), and `j` is the first iteration attaining it. -/
theorem worker_never_faults_returns_best (H : HashFn) {prm : LmotsParam} (hg : OtsRowGood H.n prm = true)
    (pre start : Bytes) (iters : Nat) :
    ∃ score r, workerRun H prm pre start iters = .ok (score, r) ∧ r.length = H.n ∧
      (∀ j, j < iters → ∃ v, fastVerifyEval H.n prm (H.h (pre ++ trialSeq H start (j + 1))) = .ok v ∧ v ≤ score) ∧
      ((score = 0 ∧ r = Bytes.zeros H.n) ∨
       (0 < score ∧ fastVerifyEval H.n prm (H.h (pre ++ r)) = .ok score ∧
         ∃ j, j < iters ∧ r = trialSeq H start (j + 1) ∧
           ∀ j', j' < j → ∃ v, fastVerifyEval H.n prm (H.h (pre ++ trialSeq H start (j' + 1))) = .ok v ∧ v < score)) := by
  obtain ⟨st', h1, h2, _, _, h5, h6⟩ := workerLoop_inv H hg pre iters ⟨start, 0, Bytes.zeros H.n⟩
    (by simp [Bytes.zeros])
  simp only [] at h5 h6
  refine ⟨st'.best, st'.randomizer, ?_, h2, ?_, ?_⟩
  · simp only [workerRun, h1, bind, Except.bind, pure, Except.pure]
  · intro j hj
    exact ⟨_, trialScore_spec H hg pre start j, h5 j hj⟩
  · rcases h6 with ⟨e1, e2⟩ | ⟨e1, j, hj, e2, e3, e4⟩
    · exact Or.inl ⟨e1, e2⟩
    · refine Or.inr ⟨e1, ?_, j, hj, e2, fun j' hj' => ⟨_, trialScore_spec H hg pre start j', e4 j' hj'⟩⟩
      rw [e2, e3]; exact trialScore_spec H hg pre start j

/-- W3, short form: the worker never faults and its randomizer has length `n` -/
theorem worker_result_length (H : HashFn) {prm : LmotsParam} (hg : OtsRowGood H.n prm = true)
    (pre start : Bytes) (iters : Nat) {r : Nat × Bytes} (h : workerRun H prm pre start iters = .ok r) :
    r.2.length = H.n := by
  obtain ⟨score, x, h1, h2, _⟩ := worker_never_faults_returns_best H hg pre start iters
  rw [h1] at h
  cases h
  exact h2

/-! ### W5 - no iterations -/

/-- W5: with 0 iterations (`MAX_HASH_OPTIMIZATIONS < THREADS`) a worker returns `(0, zeros)` -/
theorem worker_zero_iterations (H : HashFn) (prm : LmotsParam) (pre start : Bytes) :
    workerRun H prm pre start 0 = .ok (0, Bytes.zeros H.n) := rfl

/-- W5: with 0 iterations the trailer stays all zero, for every number of workers -/
theorem optimize_zero_iterations (H : HashFn) (prm : LmotsParam) (pre : Bytes) (starts : List Bytes) :
    optimizeTrailer H prm pre starts 0 = .ok (Bytes.zeros H.n) := by
  unfold optimizeTrailer
  rw [Digits.mapM_ok _ (fun _ => (0, Bytes.zeros H.n)) starts (fun s _ => worker_zero_iterations H prm pre s)]
  simp only [bind, Except.bind, pure, Except.pure]
  rw [selectTrailer_all_zero]
  intro r hr
  obtain ⟨_, _, rfl⟩ := List.mem_map.mp hr
  rfl

/-! ### W4 - the optimisation as a whole -/

/-- all workers return; each result is a worker's pair and carries an `n`-byte randomizer -/
theorem workers_all_return (H : HashFn) {prm : LmotsParam} (hg : OtsRowGood H.n prm = true)
    (pre : Bytes) (starts : List Bytes) (iters : Nat) :
    ∃ results, starts.mapM (fun start => workerRun H prm pre start iters) = .ok results ∧
      results.length = starts.length ∧
      ∀ r ∈ results, r.2.length = H.n ∧ ∃ s ∈ starts, workerRun H prm pre s iters = .ok r := by
  obtain ⟨results, h1, h2, h3⟩ := mapM_ok_of_forall (fun start => workerRun H prm pre start iters) starts
    (fun s _ => by
      obtain ⟨score, r, h, _⟩ := worker_never_faults_returns_best H hg pre s iters
      exact ⟨_, h⟩)
  refine ⟨results, h1, h2, fun r hr => ?_⟩
  obtain ⟨s, hs, hrs⟩ := h3 r hr
  exact ⟨worker_result_length H hg pre s iters hrs, s, hs, hrs⟩

/-- W4 for EVERY arrival order: whatever permutation `arrivals` of the workers' results the channel delivers, the
trailer the receiving loop ends with has exactly `n` bytes and is all-zero or the randomizer returned by one of
the workers -/
theorem trailer_any_schedule (H : HashFn) {prm : LmotsParam} (hg : OtsRowGood H.n prm = true)
    (pre : Bytes) (starts : List Bytes) (iters : Nat) (results arrivals : List (Nat × Bytes))
    (hres : starts.mapM (fun start => workerRun H prm pre start iters) = .ok results)
    (hperm : arrivals.Perm results) :
    (selectTrailer arrivals (Bytes.zeros H.n)).length = H.n ∧
    (selectTrailer arrivals (Bytes.zeros H.n) = Bytes.zeros H.n ∨
     ∃ s ∈ starts, ∃ score, workerRun H prm pre s iters = .ok (score, selectTrailer arrivals (Bytes.zeros H.n))) := by
  obtain ⟨results', h1, _, h3⟩ := workers_all_return H hg pre starts iters
  rw [hres] at h1
  cases h1
  have hz : (Bytes.zeros H.n).length = H.n := by simp [Bytes.zeros]
  rcases Props.C15.selected_trailer_any_schedule results arrivals (Bytes.zeros H.n) hperm with h | h
  · exact ⟨by rw [h]; exact hz, Or.inl h⟩
  · obtain ⟨r, hr, heq⟩ := List.mem_map.mp h
    obtain ⟨hl, s, hs, hrs⟩ := h3 r hr
    refine ⟨by rw [← heq]; exact hl, Or.inr ⟨s, hs, r.1, ?_⟩⟩
    rw [← heq]; exact hrs

/-- W4: `optimize_message_hash` never faults, returns a trailer of exactly `n` bytes, and the trailer is all-zero or
the randomizer returned by one of the workers -/
theorem optimize_never_faults (H : HashFn) {prm : LmotsParam} (hg : OtsRowGood H.n prm = true)
    (pre : Bytes) (starts : List Bytes) (iters : Nat) :
    ∃ t, optimizeTrailer H prm pre starts iters = .ok t ∧ t.length = H.n ∧
      (t = Bytes.zeros H.n ∨ ∃ s ∈ starts, ∃ score, workerRun H prm pre s iters = .ok (score, t)) := by
  obtain ⟨results, h1, _, _⟩ := workers_all_return H hg pre starts iters
  obtain ⟨h2, h3⟩ := trailer_any_schedule H hg pre starts iters results results h1 (List.Perm.refl _)
  refine ⟨selectTrailer results (Bytes.zeros H.n), ?_, h2, h3⟩
  simp only [optimizeTrailer, h1, bind, Except.bind, pure, Except.pure]

/-- a selected worker randomizer really is a trial value whose digest scores what the worker reported: the
trailer is all-zero or `H^(j+1)(start)` for one of the start values, and then its (positive) score is
`fast_verify_eval(H(pre ‖ trailer))` -/
theorem trailer_is_zero_or_a_scored_trial (H : HashFn) {prm : LmotsParam} (hg : OtsRowGood H.n prm = true)
    (pre : Bytes) (starts : List Bytes) (iters : Nat) :
    ∃ t, optimizeTrailer H prm pre starts iters = .ok t ∧
      (t = Bytes.zeros H.n ∨ ∃ s ∈ starts, ∃ j, j < iters ∧ t = trialSeq H s (j + 1) ∧
        ∃ score, 0 < score ∧ fastVerifyEval H.n prm (H.h (pre ++ t)) = .ok score) := by
  obtain ⟨t, h1, _, h3⟩ := optimize_never_faults H hg pre starts iters
  refine ⟨t, h1, ?_⟩
  rcases h3 with h | ⟨s, hs, score, hw⟩
  · exact Or.inl h
  · obtain ⟨score', r, e1, _, _, e4⟩ := worker_never_faults_returns_best H hg pre s iters
    rw [e1] at hw
    cases hw
    rcases e4 with ⟨_, e⟩ | ⟨hpos, hsc, j, hj, hr, _⟩
    · exact Or.inl e
    · exact Or.inr ⟨s, hs, j, hj, hr, score, hpos, hsc⟩

/-- Conclusion: the hypothesis `trailer.length = H.n` of `Props.C15.accepted_is_ordinary_signing_of_returned_message`
holds for every trailer the optimisation can produce (every arrival order), hence `sign_mut` with that trailer is
ordinary signing of `prefix ‖ trailer` and in particular does not fault at `copy_from_slice`. -/
theorem sign_mut_with_optimized_trailer_is_ordinary_signing (H : HashFn) (cfg : Config) {prm : LmotsParam}
    (hg : OtsRowGood H.n prm = true) (pre : Bytes) (starts : List Bytes) (iters : Nat)
    (results arrivals : List (Nat × Bytes))
    (hres : starts.mapM (fun start => workerRun H prm pre start iters) = .ok results)
    (hperm : arrivals.Perm results)
    (msg sk : Bytes) (cb : Bytes → Bool) (k : RefKey) (ps : List HssParam)
    (hl : ¬ msg.length ≤ H.n) (hz : Bytes.allZero (msg.drop (msg.length - H.n)) = true)
    (hk : RefKey.parse H.n sk = some k) (hp : paramsOfBytes cfg H.n k.params = some ps) :
    hssSignMut H cfg msg (selectTrailer arrivals (Bytes.zeros H.n)) sk cb =
      (hssSign H cfg (msg.take (msg.length - H.n) ++ selectTrailer arrivals (Bytes.zeros H.n)) sk cb none).map
        (fun o => (o, msg.take (msg.length - H.n) ++ selectTrailer arrivals (Bytes.zeros H.n))) :=
  Props.C15.accepted_is_ordinary_signing_of_returned_message H cfg msg _ sk cb k ps hl hz hk hp
    (trailer_any_schedule H hg pre starts iters results arrivals hres hperm).1

/-- the same for the list-order model `optimizeTrailer` -/
theorem sign_mut_with_optimizeTrailer_is_ordinary_signing (H : HashFn) (cfg : Config) {prm : LmotsParam}
    (hg : OtsRowGood H.n prm = true) (pre : Bytes) (starts : List Bytes) (iters : Nat) (t : Bytes)
    (ht : optimizeTrailer H prm pre starts iters = .ok t)
    (msg sk : Bytes) (cb : Bytes → Bool) (k : RefKey) (ps : List HssParam)
    (hl : ¬ msg.length ≤ H.n) (hz : Bytes.allZero (msg.drop (msg.length - H.n)) = true)
    (hk : RefKey.parse H.n sk = some k) (hp : paramsOfBytes cfg H.n k.params = some ps) :
    hssSignMut H cfg msg t sk cb =
      (hssSign H cfg (msg.take (msg.length - H.n) ++ t) sk cb none).map
        (fun o => (o, msg.take (msg.length - H.n) ++ t)) := by
  obtain ⟨t', h1, h2, _⟩ := optimize_never_faults H hg pre starts iters
  rw [h1] at ht
  cases ht
  exact Props.C15.accepted_is_ordinary_signing_of_returned_message H cfg msg _ sk cb k ps hl hz hk hp h2

/-! ### non-vacuity -/

/-- the hypothesis `OtsRowGood` is satisfied by every table row -/
example {n t : Nat} {prm : LmotsParam} (h : Params.lmotsGetFromType n t = some prm) : OtsRowGood n prm = true :=
  ots_row_good h

-- n = 16, w = 8 (p = 18, ls = 0): the all-zero digest has message digits 0 and checksum 16*255 = 0x0ff0
example : (fastVerifyEval 16 ⟨4, 8, 18, 0⟩ (Bytes.zeros 16)).toOption = some (0x0f + 0xf0) := by decide +kernel
-- n = 24, w = 4 (p = 51, ls = 4): the all-ones digest has 48 digits 15 and checksum 0
example : (fastVerifyEval 24 ⟨3, 4, 51, 4⟩ (List.replicate 24 0xff)).toOption = some (48 * 15) := by decide +kernel

example : Params.lmotsGetFromType 16 4 = some ⟨4, 8, 18, 0⟩ ∧ Params.lmotsGetFromType 24 3 = some ⟨3, 4, 51, 4⟩ := by
  decide +kernel

/-- a toy 16-byte "hash" (add 1 to every byte, truncate / pad to 16) to run the worker model in the kernel -/
def toyHash : HashFn := ⟨16, fun x => fixLen 16 (x.map (· + 1)), fun _ => fixLen_length _ _⟩

-- two iterations from the all-zero start: both trials score 255, the first one is kept (strict comparison)
example : (workerRun toyHash ⟨4, 8, 18, 0⟩ [7] (Bytes.zeros 16) 2).toOption = some (255, List.replicate 16 1) := by
  decide +kernel
-- two workers: the receiving loop ends with the first worker's randomizer (non-zero trailer)
example : (optimizeTrailer toyHash ⟨4, 8, 18, 0⟩ [7] [Bytes.zeros 16, List.replicate 16 9] 2).toOption =
    some (List.replicate 16 1) := by decide +kernel

end Props.C15Worker

#print axioms Props.C15Worker.checksum_digit_index_ge_n
#print axioms Props.C15Worker.prerepair_index_below_32
#print axioms Props.C15Worker.short_hash_rows_have_checksum_digits
#print axioms Props.C15Worker.fast_verify_eval_never_faults
#print axioms Props.C15Worker.fast_verify_eval_never_faults_on_digest
#print axioms Props.C15Worker.score_is_sum_of_digits
#print axioms Props.C15Worker.fast_verify_eval_eq_digits_sum
#print axioms Props.C15Worker.score_fits_u16
#print axioms Props.C15Worker.trialScore_spec
#print axioms Props.C15Worker.worker_never_faults_returns_best
#print axioms Props.C15Worker.worker_result_length
#print axioms Props.C15Worker.worker_zero_iterations
#print axioms Props.C15Worker.optimize_zero_iterations
#print axioms Props.C15Worker.workers_all_return
#print axioms Props.C15Worker.trailer_any_schedule
#print axioms Props.C15Worker.optimize_never_faults
#print axioms Props.C15Worker.trailer_is_zero_or_a_scored_trial
#print axioms Props.C15Worker.sign_mut_with_optimized_trailer_is_ordinary_signing
#print axioms Props.C15Worker.sign_mut_with_optimizeTrailer_is_ordinary_signing

/-
C03, observable form - "no LM-OTS key (tree identifier, leaf index) at any HSS level is used in released signatures
for two different signed contents."

Props/C03.lean proves the positional form: the released signatures of a session come from strictly increasing
counters, whose leaf vectors are pairwise different. Here the statement is lifted to what the signatures contain.

Vocabulary (Lemmas/Positions.lean), for a key blob `(seed, p0 :: rest)` with heights `hs = heights p0 rest` and a
counter `c`:
* `pos hs c j`      - the *position* of level `j`: the leaves `q_0 … q_{j-1}` chosen above it (first `j` digits of `c`);
* `leafAt hs c j`   - the leaf `q_j` used at level `j`; a one-time key *position* is the pair `(pos hs c j, leafAt hs c j)`;
* `levelAt … c j`   - level `j` of the expanded key (`Lemmas.Layout.topLevel / lowerLevels`), `idAt … c j` its identifier;
* `signedContent … c msg j` - what level `j` signs in the signature released for `(c, msg)`: the serialised LMS public
  key of level `j+1` for an upper level, `msg` for the bottom level (`released_bytes_by_levels` shows that this is
  literally the message argument of the `j`-th LMS signature inside the released bytes);
* `levelSig … c msg j` - that LMS signature.

P1 (positions, no hypothesis on the hash function):
  (a) `tree_depends_only_on_position`, `tree_at_position`;
  (b) `signed_content_depends_only_on_position`, `same_otk_position_same_content`;
  (c) `bottom_otk_position_determines_counter`;
  `otk_position_determines_content` (two counters), `no_position_signs_two_contents` (sessions).
P2 (identifiers, under the explicit hypothesis `IdsDistinguishPositions` - an explicit hypothesis of the theorems, nothing is postulated):
  `identifier_leaf_determines_content` (two counters), `no_identifier_leaf_signs_two_contents` (sessions),
  and examples of a hash function for which the hypothesis fails resp. holds.
-/
import HbsLms.Lemmas.Positions
import HbsLms.Props.C03
import HbsLms.Props.C07
import HbsLms.Props.C08Derive

namespace Props.C03Ids

open Impl Spec Lemmas Lemmas.Layout Lemmas.Complete Lemmas.Positions

/-! ## P1 - positions -/

/-- (a) The tree used at level `j` depends only on the position of level `j`: if the positions under the counters `c`
and `c'` coincide, the two expanded keys have the same LMS tree at level `j` - same seed, same identifier, same
LM-OTS and LMS parameters. Any hash function, any seed, any parameter list, any counters. -/
theorem tree_depends_only_on_position (H : HashFn) (seed : Bytes) (p0 : HssParam) (rest : List HssParam)
    (c c' j : Nat) (h : pos (heights p0 rest) c j = pos (heights p0 rest) c' j) :
    (levelAt H seed p0 rest c j).key = (levelAt H seed p0 rest c' j).key ∧
    idAt H seed p0 rest c j = idAt H seed p0 rest c' j :=
  ⟨levelAt_key_of_pos H seed p0 rest c c' j h, idAt_of_pos H seed p0 rest c c' j h⟩

/-- (a), in closed form, through the derivation chain of `Props.C08Derive.levels_derivation`: the `(SEED, I)` of the
tree at level `j` is `treeAt H seed (pos hs c j)` - the hash-sigs child seed / child identifier derivation iterated
from the top seed along the position. -/
theorem tree_at_position (H : HashFn) (seed : Bytes) (p0 : HssParam) (rest : List HssParam) (c : Nat)
    (hs : seed.length = H.n) (h16 : 16 ≤ H.n) (hn : H.n ≤ 32) : ∀ j, j < (p0 :: rest).length →
    ((levelAt H seed p0 rest c j).key.seed, (levelAt H seed p0 rest c j).key.I)
      = treeAt H seed (pos (heights p0 rest) c j) := by
  obtain ⟨h1, h2, h3⟩ := Props.C08Derive.levels_derivation H seed p0 rest c hs h16 hn
  intro j
  induction j with
  | zero => intro _; exact Prod.ext h1 h2
  | succ j ih =>
    intro hj
    have hjl : j + 1 < (topLevel H seed p0 rest c :: lowerLevels H seed p0 rest c).length := by
      have := levels_length H seed p0 rest c
      unfold levels at this
      rw [this]; exact hj
    have ih' := ih (by omega)
    obtain ⟨e1, e2⟩ := h3 j hjl
    have a1 : levelAt H seed p0 rest c (j + 1) = (topLevel H seed p0 rest c :: lowerLevels H seed p0 rest c)[j + 1] :=
      levelAt_eq_getElem H seed p0 rest c (j + 1) hjl
    have a0 : levelAt H seed p0 rest c j = (topLevel H seed p0 rest c :: lowerLevels H seed p0 rest c)[j] :=
      levelAt_eq_getElem H seed p0 rest c j (Nat.lt_trans (Nat.lt_succ_self j) hjl)
    have hq := (levelAt_q H seed p0 rest c j (by omega)).1
    rw [pos_succ_eq _ c j (by simp only [heights, List.length_map]; omega)]
    simp only [treeAt, List.foldl_append, List.foldl_cons, List.foldl_nil]
    have ih'' : List.foldl (childTree H) (Spec.HashSigs.topSeed H seed) (pos (heights p0 rest) c j)
        = ((levelAt H seed p0 rest c j).key.seed, (levelAt H seed p0 rest c j).key.I) := ih'.symm
    rw [ih'', a1, e1, e2, ← a0, hq]
    rfl

/-- (b) The content signed at an upper level `j < L-1` - the serialised public key of level `j+1` - depends only on
the position of level `j+1`. -/
theorem signed_content_depends_only_on_position (H : HashFn) (seed : Bytes) (p0 : HssParam) (rest : List HssParam)
    (c c' : Nat) (msg msg' : Bytes) (j : Nat) (hj : j < rest.length)
    (h : pos (heights p0 rest) c (j + 1) = pos (heights p0 rest) c' (j + 1)) :
    signedContent H seed p0 rest c msg j = signedContent H seed p0 rest c' msg' j :=
  signedContent_of_pos_succ H seed p0 rest c c' msg msg' j hj h

/-- (b) Two signatures whose one-time key position at an upper level `j < L-1` coincides (same position of the tree,
same leaf) sign the SAME content at that level - and carry the same LMS signature there, the randomizer being derived
from the tree and the leaf. -/
theorem same_otk_position_same_content (H : HashFn) (seed : Bytes) (p0 : HssParam) (rest : List HssParam)
    (c c' : Nat) (msg msg' : Bytes) (j : Nat) (hj : j < rest.length)
    (hp : pos (heights p0 rest) c j = pos (heights p0 rest) c' j)
    (hq : leafAt (heights p0 rest) c j = leafAt (heights p0 rest) c' j) :
    signedContent H seed p0 rest c msg j = signedContent H seed p0 rest c' msg' j ∧
    levelSig H seed p0 rest c msg j = levelSig H seed p0 rest c' msg' j :=
  ⟨signedContent_of_otk_position H seed p0 rest c c' msg msg' j hj hp hq,
   levelSig_of_otk_position H seed p0 rest c c' msg msg' j hj hp hq⟩

/-- (c) At the bottom level `L-1` the one-time key position is the whole digit vector, which determines the counter
below the number of leaves. -/
theorem bottom_otk_position_determines_counter (hs : List Nat) (c c' j : Nat) (hj : j + 1 = hs.length)
    (hc : c < leavesTotal hs) (hc' : c' < leavesTotal hs) (hp : pos hs c j = pos hs c' j)
    (hq : leafAt hs c j = leafAt hs c' j) : c = c' :=
  bottom_position_determines_counter hs c c' j hj hc hc' hp hq

/-- "the content signed at level `j`" is what the released bytes contain: `hssSigBytes` (the released signature, see
`Props.C07.released_signature_layout`) is `u32 (L-1)`, then for every upper level `i` the LMS signature `levelSig i`
by level `i`'s tree at leaf `q_i` over `signedContent i`, followed by `signedContent i` itself, then `levelSig (L-1)`,
the LMS signature of `signedContent (L-1) = msg`; and each `levelSig` is an LMS signature under the tree `levelAt j`
(identifier `idAt j`) at the leaf `leafAt j`. -/
theorem released_bytes_by_levels (H : HashFn) (seed : Bytes) (p0 : HssParam) (rest : List HssParam) (c : Nat)
    (msg : Bytes) :
    hssSigBytes H seed p0 rest c msg =
      Bytes.u32be rest.length ++
        ((List.range rest.length).map fun i =>
          levelSig H seed p0 rest c msg i ++ signedContent H seed p0 rest c msg i).flatten ++
        levelSig H seed p0 rest c msg rest.length ∧
    signedContent H seed p0 rest c msg rest.length = msg ∧
    ∀ j, j < (p0 :: rest).length →
      levelSig H seed p0 rest c msg j =
        lmsSigBytes H (levelAt H seed p0 rest c j).key (leafAt (heights p0 rest) c j)
          (signedContent H seed p0 rest c msg j) (randomizerAt H seed p0 rest c j) ∧
      (levelAt H seed p0 rest c j).key.I = idAt H seed p0 rest c j := by
  obtain ⟨h1, h2⟩ := hssSigBytes_by_levels H seed p0 rest c msg
  refine ⟨h1, h2, ?_⟩
  intro j hj
  refine ⟨?_, rfl⟩
  unfold levelSig
  rw [(levelAt_q H seed p0 rest c j hj).1]

/-- P1 for two counters below the number of leaves: equal one-time key positions at level `j` give equal signed
contents at level `j` for an upper level, and the same counter for the bottom level. -/
theorem otk_position_determines_content (H : HashFn) (seed : Bytes) (p0 : HssParam) (rest : List HssParam)
    (c c' : Nat) (msg msg' : Bytes) (j : Nat) (_hj : j < (p0 :: rest).length)
    (hc : c < leavesTotal (heights p0 rest)) (hc' : c' < leavesTotal (heights p0 rest))
    (hp : pos (heights p0 rest) c j = pos (heights p0 rest) c' j)
    (hq : leafAt (heights p0 rest) c j = leafAt (heights p0 rest) c' j) :
    (j < rest.length → signedContent H seed p0 rest c msg j = signedContent H seed p0 rest c' msg' j ∧
      levelSig H seed p0 rest c msg j = levelSig H seed p0 rest c' msg' j) ∧
    (j = rest.length → c = c') := by
  refine ⟨fun hjr => same_otk_position_same_content H seed p0 rest c c' msg msg' j hjr hp hq, ?_⟩
  intro hjr
  exact bottom_position_determines_counter (heights p0 rest) c c' j
    (by simp only [heights, List.length_map, List.length_cons]; omega) hc hc' hp hq

/-! ### sessions -/

/-- The released signatures of a session (calls without aux data), as a list of releases `(counter, message, bytes)`:
the log is the image of that list, the counters are strictly increasing (Props.C03), every release was made for the
message of one of the session's calls, with a counter below the number of leaves, and its bytes are `hssSigBytes` of
the key's seed and parameter list, its counter and its message (Props.C07). -/
theorem session_releases {H : HashFn} {cfg : Config} {k0 : RefKey} {p0 : HssParam} {rest : List HssParam}
    (hp8 : k0.params.length = 8) (hseed : k0.seed.length = H.n)
    (hps : paramsOfBytes cfg H.n k0.params = some (p0 :: rest)) (hsum : (heights p0 rest).sum ≤ 63)
    (hc0 : k0.counter < leavesTotal (heights p0 rest))
    (calls : List Call) (hnoaux : ∀ c ∈ calls, c.aux = none) (skN : Bytes) (log : List (Bytes × Bytes))
    (h : session H cfg k0.bytes calls = .ok (skN, log)) :
    ∃ rels : List Release,
      log = rels.map (fun r => (({ k0 with counter := r.counter } : RefKey).bytes, r.sig)) ∧
      (rels.map (·.counter)).Pairwise (· < ·) ∧
      ∀ r ∈ rels, k0.counter ≤ r.counter ∧ r.counter < leavesTotal (heights p0 rest) ∧
        (∃ c ∈ calls, c.msg = r.msg) ∧ r.sig = hssSigBytes H k0.seed p0 rest r.counter r.msg := by
  obtain ⟨cs, final, hmap, hpw, hmem, _, _, _, _⟩ :=
    Props.C03.session_never_reuses_a_leaf hp8 hseed hps hsum hc0 calls skN log h
  obtain ⟨rel, hsub, hm⟩ := session_log_calls H cfg calls _ skN log h
  obtain ⟨rels, h1, h2, h3⟩ :=
    matched_releases (fun c => ({ k0 with counter := c } : RefKey).bytes) log rel hm cs hmap
  refine ⟨rels, h1, by rw [h2]; exact hpw, ?_⟩
  intro r hr
  have hrc : r.counter ∈ cs := by
    rw [← h2]; exact List.mem_map.mpr ⟨r, hr, rfl⟩
  obtain ⟨hlo, hhi⟩ := hmem _ hrc
  obtain ⟨c, hc, hmsg, o, ho, hres⟩ := h3 r hr
  have hcall : c ∈ calls := hsub.subset hc
  rw [hnoaux c hcall] at ho
  obtain ⟨k, p0', rest', hk, hps', hsig⟩ := Props.C07.released_signature_layout ho hres
  have h63 : 2 ^ (heights p0 rest).sum ≤ 2 ^ 63 := Nat.pow_le_pow_right (by omega) hsum
  have hparse : RefKey.parse H.n ({ k0 with counter := r.counter } : RefKey).bytes
      = some { k0 with counter := r.counter } := by
    have hlt : r.counter < 2 ^ 64 := by
      have : r.counter < 2 ^ (heights p0 rest).sum := hhi
      omega
    exact Lemmas.parse_bytes H.n ({ k0 with counter := r.counter } : RefKey) hp8 hseed hlt
  simp only at hk hsig
  rw [hparse] at hk
  cases hk
  simp only at hps' hsig
  rw [hps] at hps'
  simp only [Option.some.injEq, List.cons.injEq] at hps'
  obtain ⟨rfl, rfl⟩ := hps'
  refine ⟨hlo, hhi, ⟨c, hcall, hmsg⟩, ?_⟩
  rw [← hmsg]; exact hsig

/-- the content clause shared by the two session theorems: for two releases `ra` (index `a`) and `rb` (index `b`) and a
level `j`, level `j` signs the same content in both (and makes the same LMS signature); at the bottom level the two
releases are the same release (same index, same message) -/
def SameContentAt (H : HashFn) (seed : Bytes) (p0 : HssParam) (rest : List HssParam) (a b : Nat) (ra rb : Release)
    (j : Nat) : Prop :=
  signedContent H seed p0 rest ra.counter ra.msg j = signedContent H seed p0 rest rb.counter rb.msg j ∧
  levelSig H seed p0 rest ra.counter ra.msg j = levelSig H seed p0 rest rb.counter rb.msg j ∧
  (j = rest.length → a = b ∧ ra = rb)

theorem sameContentAt_of_position {H : HashFn} {seed : Bytes} {p0 : HssParam} {rest : List HssParam}
    (rels : List Release) (hpw : (rels.map (·.counter)).Pairwise (· < ·))
    (hlt : ∀ r ∈ rels, r.counter < leavesTotal (heights p0 rest))
    (a b : Nat) (ra rb : Release) (ha : rels[a]? = some ra) (hb : rels[b]? = some rb) (j : Nat)
    (hj : j < (p0 :: rest).length)
    (hp : pos (heights p0 rest) ra.counter j = pos (heights p0 rest) rb.counter j)
    (hq : leafAt (heights p0 rest) ra.counter j = leafAt (heights p0 rest) rb.counter j) :
    SameContentAt H seed p0 rest a b ra rb j := by
  have hra : ra ∈ rels := List.mem_of_getElem? ha
  have hrb : rb ∈ rels := List.mem_of_getElem? hb
  obtain ⟨h1, h2⟩ := otk_position_determines_content H seed p0 rest ra.counter rb.counter ra.msg rb.msg j hj
    (hlt ra hra) (hlt rb hrb) hp hq
  by_cases hjr : j < rest.length
  · obtain ⟨e1, e2⟩ := h1 hjr
    exact ⟨e1, e2, fun hje => by omega⟩
  · have hje : j = rest.length := by simp only [List.length_cons] at hj; omega
    have hcc := h2 hje
    have hab : a = b := by
      refine index_unique_of_pairwise_lt _ hpw a b ra.counter ?_ ?_
      · simp [List.getElem?_map, ha]
      · simp [List.getElem?_map, hb, hcc]
    subst hab
    rw [ha] at hb
    cases hb
    exact ⟨rfl, rfl, fun _ => ⟨rfl, rfl⟩⟩

/-- P1. NO ONE-TIME KEY POSITION SIGNS TWO CONTENTS. In any session on a key blob `(counter, p0 :: rest, seed)` (total
height at most 63, counter below the number of leaves; any messages and callbacks, no aux data), the released
signatures are described by a list of releases as in `session_releases`, and for any two of them (`ra` at index `a`,
`rb` at index `b`) and any level `j`: if the one-time key positions at level `j` coincide (same position of the tree,
same leaf) then level `j` signs the same content in both - the same child public key bytes for an upper level; for
the bottom level the two releases are the same release (`a = b`), hence the same message. -/
theorem no_position_signs_two_contents {H : HashFn} {cfg : Config} {k0 : RefKey} {p0 : HssParam} {rest : List HssParam}
    (hp8 : k0.params.length = 8) (hseed : k0.seed.length = H.n)
    (hps : paramsOfBytes cfg H.n k0.params = some (p0 :: rest)) (hsum : (heights p0 rest).sum ≤ 63)
    (hc0 : k0.counter < leavesTotal (heights p0 rest))
    (calls : List Call) (hnoaux : ∀ c ∈ calls, c.aux = none) (skN : Bytes) (log : List (Bytes × Bytes))
    (h : session H cfg k0.bytes calls = .ok (skN, log)) :
    ∃ rels : List Release,
      log = rels.map (fun r => (({ k0 with counter := r.counter } : RefKey).bytes, r.sig)) ∧
      (∀ r ∈ rels, r.counter < leavesTotal (heights p0 rest) ∧ (∃ c ∈ calls, c.msg = r.msg) ∧
        r.sig = hssSigBytes H k0.seed p0 rest r.counter r.msg) ∧
      ∀ (a b : Nat) (ra rb : Release), rels[a]? = some ra → rels[b]? = some rb →
        ∀ j, j < (p0 :: rest).length →
          pos (heights p0 rest) ra.counter j = pos (heights p0 rest) rb.counter j →
          leafAt (heights p0 rest) ra.counter j = leafAt (heights p0 rest) rb.counter j →
          SameContentAt H k0.seed p0 rest a b ra rb j := by
  obtain ⟨rels, h1, hpw, hall⟩ := session_releases hp8 hseed hps hsum hc0 calls hnoaux skN log h
  refine ⟨rels, h1, fun r hr => ⟨(hall r hr).2.1, (hall r hr).2.2.1, (hall r hr).2.2.2⟩, ?_⟩
  intro a b ra rb ha hb j hj hp hq
  exact sameContentAt_of_position rels hpw (fun r hr => (hall r hr).2.1) a b ra rb ha hb j hj hp hq

/-! ## P2 - identifiers -/

/-- The identifiers of the key `(seed, p0 :: rest)` under `H` distinguish positions: two counters below the number of
leaves whose level-`j` tree identifiers coincide have the same level-`j` position. This is collision-freeness of the
identifier derivation chain (`treeAt`, see `tree_at_position`) of `H` on the positions of this key; it is a
HYPOTHESIS of the theorems below (it fails for some `H`, see the examples); nothing is postulated. -/
def IdsDistinguishPositions (H : HashFn) (seed : Bytes) (p0 : HssParam) (rest : List HssParam) : Prop :=
  ∀ c c', c < leavesTotal (heights p0 rest) → c' < leavesTotal (heights p0 rest) →
    ∀ j, j < (p0 :: rest).length →
      idAt H seed p0 rest c j = idAt H seed p0 rest c' j →
      pos (heights p0 rest) c j = pos (heights p0 rest) c' j

/-- P2 for two counters: under `IdsDistinguishPositions`, equal (level, tree identifier, leaf index) give equal signed
contents at that level (upper level) resp. the same counter (bottom level). -/
theorem identifier_leaf_determines_content (H : HashFn) (seed : Bytes) (p0 : HssParam) (rest : List HssParam)
    (hid : IdsDistinguishPositions H seed p0 rest)
    (c c' : Nat) (msg msg' : Bytes) (j : Nat) (hj : j < (p0 :: rest).length)
    (hc : c < leavesTotal (heights p0 rest)) (hc' : c' < leavesTotal (heights p0 rest))
    (hI : idAt H seed p0 rest c j = idAt H seed p0 rest c' j)
    (hq : leafAt (heights p0 rest) c j = leafAt (heights p0 rest) c' j) :
    (j < rest.length → signedContent H seed p0 rest c msg j = signedContent H seed p0 rest c' msg' j ∧
      levelSig H seed p0 rest c msg j = levelSig H seed p0 rest c' msg' j) ∧
    (j = rest.length → c = c') :=
  otk_position_determines_content H seed p0 rest c c' msg msg' j hj hc hc' (hid c c' hc hc' j hj hI) hq

/-- P2. NO (TREE IDENTIFIER, LEAF INDEX) SIGNS TWO CONTENTS. In any session as in `no_position_signs_two_contents`, if
the identifiers of the key distinguish positions, then for any two released signatures and any level `j`: equal
(level `j`, tree identifier `I_j`, leaf index `q_j`) imply that level `j` signs the same content in both - the same
child public key for an upper level; at the bottom level the two releases are the same release, hence the same
message. -/
theorem no_identifier_leaf_signs_two_contents {H : HashFn} {cfg : Config} {k0 : RefKey} {p0 : HssParam}
    {rest : List HssParam}
    (hp8 : k0.params.length = 8) (hseed : k0.seed.length = H.n)
    (hps : paramsOfBytes cfg H.n k0.params = some (p0 :: rest)) (hsum : (heights p0 rest).sum ≤ 63)
    (hc0 : k0.counter < leavesTotal (heights p0 rest))
    (hid : IdsDistinguishPositions H k0.seed p0 rest)
    (calls : List Call) (hnoaux : ∀ c ∈ calls, c.aux = none) (skN : Bytes) (log : List (Bytes × Bytes))
    (h : session H cfg k0.bytes calls = .ok (skN, log)) :
    ∃ rels : List Release,
      log = rels.map (fun r => (({ k0 with counter := r.counter } : RefKey).bytes, r.sig)) ∧
      (∀ r ∈ rels, r.counter < leavesTotal (heights p0 rest) ∧ (∃ c ∈ calls, c.msg = r.msg) ∧
        r.sig = hssSigBytes H k0.seed p0 rest r.counter r.msg) ∧
      ∀ (a b : Nat) (ra rb : Release), rels[a]? = some ra → rels[b]? = some rb →
        ∀ j, j < (p0 :: rest).length →
          idAt H k0.seed p0 rest ra.counter j = idAt H k0.seed p0 rest rb.counter j →
          leafAt (heights p0 rest) ra.counter j = leafAt (heights p0 rest) rb.counter j →
          SameContentAt H k0.seed p0 rest a b ra rb j := by
  obtain ⟨rels, h1, hpw, hall⟩ := session_releases hp8 hseed hps hsum hc0 calls hnoaux skN log h
  refine ⟨rels, h1, fun r hr => ⟨(hall r hr).2.1, (hall r hr).2.2.1, (hall r hr).2.2.2⟩, ?_⟩
  intro a b ra rb ha hb j hj hI hq
  have hra : ra ∈ rels := List.mem_of_getElem? ha
  have hrb : rb ∈ rels := List.mem_of_getElem? hb
  exact sameContentAt_of_position rels hpw (fun r hr => (hall r hr).2.1) a b ra rb ha hb j hj
    (hid ra.counter rb.counter (hall ra hra).2.1 (hall rb hrb).2.1 j hj hI) hq

/-- the converse direction needs no hypothesis: equal positions give equal identifiers (this is (a)); so under
`IdsDistinguishPositions` the pair (identifier, leaf) and the one-time key position determine each other -/
theorem ids_iff_positions (H : HashFn) (seed : Bytes) (p0 : HssParam) (rest : List HssParam)
    (hid : IdsDistinguishPositions H seed p0 rest) (c c' j : Nat) (hj : j < (p0 :: rest).length)
    (hc : c < leavesTotal (heights p0 rest)) (hc' : c' < leavesTotal (heights p0 rest)) :
    idAt H seed p0 rest c j = idAt H seed p0 rest c' j ↔
      pos (heights p0 rest) c j = pos (heights p0 rest) c' j :=
  ⟨hid c c' hc hc' j hj, idAt_of_pos H seed p0 rest c c' j⟩

/-! ### the hypothesis is neither vacuous nor automatic -/

/-- a constant hash function -/
def constHash : HashFn := ⟨16, fun _ => List.replicate 16 7, fun _ => by simp⟩

/-- For a constant hash function every tree of a level has the same identifier, so identifiers do NOT distinguish
positions: already for two levels of the 4-leaf test tree, the counters 0 and 4 use different second-level trees
(positions `[0]` and `[1]`) with the same identifier. -/
example (seed : Bytes) :
    ¬ IdsDistinguishPositions constHash seed Props.C08Derive.toySmall [Props.C08Derive.toySmall] := by
  intro hid
  have := hid 0 4 (by decide) (by decide) 1 (by decide) rfl
  revert this
  decide

/-- a single-level key has only one tree: the hypothesis holds for every hash function -/
example (H : HashFn) (seed : Bytes) (p0 : HssParam) : IdsDistinguishPositions H seed p0 [] := by
  intro c c' _ _ j hj _
  have : j = 0 := by simpa using hj
  subst this
  rfl

/-- the four second-level trees of the two-level toy key of `Props.C08Derive` (hash `toyMix`, seed `toySeed`, 4-leaf
trees, 16 counters) have four different identifiers -/
theorem toy_ids_distinguish :
    ∀ c, c < 16 → ∀ c', c' < 16 → ∀ j, j < 2 →
      idAt Props.C08Derive.toyMix Props.C08Derive.toySeed Props.C08Derive.toySmall [Props.C08Derive.toySmall] c j
        = idAt Props.C08Derive.toyMix Props.C08Derive.toySeed Props.C08Derive.toySmall [Props.C08Derive.toySmall] c' j →
      pos [2, 2] c j = pos [2, 2] c' j := by decide +kernel

/-- ... so for this key the hypothesis holds -/
example : IdsDistinguishPositions Props.C08Derive.toyMix Props.C08Derive.toySeed Props.C08Derive.toySmall
    [Props.C08Derive.toySmall] :=
  fun c c' hc hc' j hj hI => toy_ids_distinguish c hc c' hc' j hj hI

end Props.C03Ids

#print axioms Props.C03Ids.tree_depends_only_on_position
#print axioms Props.C03Ids.tree_at_position
#print axioms Props.C03Ids.signed_content_depends_only_on_position
#print axioms Props.C03Ids.same_otk_position_same_content
#print axioms Props.C03Ids.bottom_otk_position_determines_counter
#print axioms Props.C03Ids.released_bytes_by_levels
#print axioms Props.C03Ids.otk_position_determines_content
#print axioms Props.C03Ids.session_releases
#print axioms Props.C03Ids.sameContentAt_of_position
#print axioms Props.C03Ids.no_position_signs_two_contents
#print axioms Props.C03Ids.identifier_leaf_determines_content
#print axioms Props.C03Ids.no_identifier_leaf_signs_two_contents
#print axioms Props.C03Ids.ids_iff_positions
#print axioms Props.C03Ids.toy_ids_distinguish

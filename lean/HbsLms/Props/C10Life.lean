/-
C10, life cycle - discharging the `hused` hypothesis of `Props.C10.C10_keygen` / `C10_sign` for *honest* buffers, i.e.
buffers that the library itself wrote for the same key.

`Honest H cfg seed p0 aux` is literally the `hused` hypothesis for one buffer. It holds for absent, unmarked and
MAC-rejected buffers (they are never read), it is preserved by `hssKeygen` (T1) and by `hssSign` (T2), and therefore
along any session that starts from an unmarked caller buffer, every call returns exactly what the same call returns
without auxiliary data (T3) - with no hypothesis about MACs or cache contents.

Why no MAC reasoning is needed: what an operation writes back is `ExpAux.bytes e` for a view `e` that satisfies the
cache invariant and whose cached levels are exactly those announced by its level word; re-expanding those bytes gives
back the same level byte strings (`roundtrip_layers`), whatever the MAC bytes behind them are. So if a later call
accepts the buffer, it reads true nodes; if it rejects it (stale MAC: `hssSign` never re-MACs, `hssKeygen` re-MACs only
buffers that were unmarked on entry), the buffer is ignored. Both cases are covered.

The only side condition is `cfg.maxTreeHeight ≤ 30` (inherited from `fresh_auxOK`; the library supports ≤ 25).
-/
import HbsLms.Lemmas.AuxLifecycle
import HbsLms.Props.C10

namespace Props.C10Life

open Impl Generated Lemmas.AuxCache Lemmas.AuxLifecycle

/-! ## Honest buffers -/

/-- `Honest`, spelled out: exactly the shape of the `hused` hypothesis of `C10_keygen` / `C10_sign` for one buffer. -/
theorem honest_def (H : HashFn) (cfg : Config) (seed : Bytes) (p0 : HssParam) (aux : Option Bytes) :
    Honest H cfg seed p0 aux ↔
      ∀ buf e, aux = some buf → hss_is_aux_data_used buf = true →
        hss_expand_aux_data H cfg buf (some seed) = some e → CacheTrue H (topKey H seed p0) e := Iff.rfl

/-- no buffer -/
theorem honest_absent (H : HashFn) (cfg : Config) (seed : Bytes) (p0 : HssParam) : Honest H cfg seed p0 none :=
  honest_none H cfg seed p0

/-- unmarked buffers (empty, or first byte 0 followed by anything) -/
theorem honest_of_unmarked (H : HashFn) (cfg : Config) (seed : Bytes) (p0 : HssParam) (buf : Bytes)
    (hun : hss_is_aux_data_used buf = false) : Honest H cfg seed p0 (some buf) :=
  honest_unmarked H cfg seed p0 (some buf) fun b hb => by cases hb; exact hun

/-- buffers rejected by `hss_expand_aux_data` for this seed (wrong MAC, truncated, ...) -/
theorem honest_of_rejected (H : HashFn) (cfg : Config) (seed : Bytes) (p0 : HssParam) (buf : Bytes)
    (hbad : hss_expand_aux_data H cfg buf (some seed) = none) : Honest H cfg seed p0 (some buf) :=
  honest_rejected H cfg seed p0 buf hbad

/-- **Round trip.** Let `e` be a view whose level word has 4 bytes, whose present levels are exactly those announced by
the level word, and which satisfies the cache invariant. Whatever `hss_expand_aux_data` (with or without MAC check)
makes of the bytes written back for `e`, it has the same cached levels. -/
theorem roundtrip_layers (H : HashFn) (cfg : Config) (k : LmsKey) (e e' : ExpAux) (seed : Option Bytes)
    (h4 : e.head.length = 4)
    (hpat : e.layers.map Option.isSome = (auxSizes H cfg (Bytes.toNat e.head)).map (fun sz => sz != 0))
    (hc : CacheTrue H k e) (h : hss_expand_aux_data H cfg e.bytes seed = some e') : e'.layers = e.layers :=
  expand_bytes_layers ⟨h4, hpat⟩ hc h

/-- every view handed out by `hss_expand_aux_data` has that shape -/
theorem expanded_view_shape (H : HashFn) (cfg : Config) (aux : Bytes) (seed : Option Bytes) (e : ExpAux)
    (h : hss_expand_aux_data H cfg aux seed = some e) :
    e.head.length = 4 ∧
    e.layers.map Option.isSome = (auxSizes H cfg (Bytes.toNat e.head)).map (fun sz => sz != 0) :=
  expand_shaped h

/-- the tree code changes neither the level word nor the set of cached levels -/
theorem treeNode_keeps_frame (H : HashFn) (k : LmsKey) (r : Nat) (e : ExpAux) :
    ∃ e', (treeNode H k r (some e)).2 = some e' ∧ e'.head = e.head ∧
      e'.layers.map Option.isSome = e.layers.map Option.isSome := by
  have h := oframe_treeNode H k r (some e)
  cases hq : (treeNode H k r (some e)).2 with
  | none => rw [hq] at h; simp [oframe] at h
  | some e' =>
    rw [hq] at h
    simp only [oframe, Option.map_some, Option.some.injEq, frame, Prod.mk.injEq] at h
    exact ⟨e', rfl, h.1, h.2⟩

/-! ## T1 - key generation writes back an honest buffer -/

/-- **T1.** If the buffer passed to `hssKeygen` is honest for `(seed, p0)`, so is the buffer it writes back. -/
theorem keygen_output_honest (H : HashFn) (cfg : Config) (hK : cfg.maxTreeHeight ≤ 30) (ps : List HssParam)
    (seed : Bytes) (aux : Option Bytes) (p0 : HssParam) (o : KeygenOutcome)
    (htop : keygenTop H cfg ps = some p0) (hh : Honest H cfg seed p0 aux)
    (h : hssKeygen H cfg ps seed aux = .ok o) : Honest H cfg seed p0 o.aux :=
  hssKeygen_honest H cfg hK ps seed aux p0 htop hh o h

/-- **T1, no hypothesis on contents.** For ANY caller buffer that is absent or not marked as used (any length, any
content behind the marker byte), the buffer written back by `hssKeygen` is honest. -/
theorem keygen_output_honest_fresh (H : HashFn) (cfg : Config) (hK : cfg.maxTreeHeight ≤ 30) (ps : List HssParam)
    (seed : Bytes) (aux : Option Bytes) (p0 : HssParam) (o : KeygenOutcome)
    (htop : keygenTop H cfg ps = some p0) (hun : ∀ b, aux = some b → hss_is_aux_data_used b = false)
    (h : hssKeygen H cfg ps seed aux = .ok o) : Honest H cfg seed p0 o.aux :=
  hssKeygen_honest H cfg hK ps seed aux p0 htop (honest_unmarked H cfg seed p0 aux hun) o h

/-- ... and for ANY marked buffer that `hss_expand_aux_data` rejects for this seed. -/
theorem keygen_output_honest_rejected (H : HashFn) (cfg : Config) (hK : cfg.maxTreeHeight ≤ 30) (ps : List HssParam)
    (seed buf : Bytes) (p0 : HssParam) (o : KeygenOutcome)
    (htop : keygenTop H cfg ps = some p0) (hbad : hss_expand_aux_data H cfg buf (some seed) = none)
    (h : hssKeygen H cfg ps seed (some buf) = .ok o) : Honest H cfg seed p0 o.aux :=
  hssKeygen_honest H cfg hK ps seed (some buf) p0 htop (honest_rejected H cfg seed p0 buf hbad) o h

/-! ## T2 - signing writes back an honest buffer -/

/-- **T2.** If the buffer passed to `hssSign` is honest for the key being used, so is the buffer it writes back (on
every exit: released signature, `Err`, rejected by the callback). -/
theorem sign_output_honest (H : HashFn) (cfg : Config) (hK : cfg.maxTreeHeight ≤ 30) (msg sk : Bytes)
    (cb : Bytes → Bool) (aux : Option Bytes) (k : RefKey) (p0 : HssParam) (o : SignOutcome)
    (hk : RefKey.parse H.n sk = some k) (hst : signTop H cfg k = some p0)
    (hh : Honest H cfg k.seed p0 aux) (h : hssSign H cfg msg sk cb aux = .ok o) :
    Honest H cfg k.seed p0 o.aux := by
  apply hssSign_honest H cfg hK msg sk cb aux k.seed p0 _ hh o h
  intro k' hk' p hp
  rw [hk] at hk'; cases hk'
  rw [hst] at hp; cases hp
  exact ⟨rfl, rfl⟩

/-- T2 for key bytes that belong to `(seed, p0)` in the sense of `KeyFor` (this includes key bytes that do not parse or
whose parameter bytes do not decode, e.g. the wiped key: the buffer is handed back untouched). -/
theorem sign_output_honest_keyFor (H : HashFn) (cfg : Config) (hK : cfg.maxTreeHeight ≤ 30) (msg sk : Bytes)
    (cb : Bytes → Bool) (aux : Option Bytes) (seed : Bytes) (p0 : HssParam) (o : SignOutcome)
    (hk : KeyFor H cfg seed p0 sk) (hh : Honest H cfg seed p0 aux) (h : hssSign H cfg msg sk cb aux = .ok o) :
    Honest H cfg seed p0 o.aux :=
  hssSign_honest H cfg hK msg sk cb aux seed p0 hk hh o h

/-- `KeyFor`, spelled out -/
theorem keyFor_def (H : HashFn) (cfg : Config) (seed : Bytes) (p0 : HssParam) (sk : Bytes) :
    KeyFor H cfg seed p0 sk ↔
      ∀ k, RefKey.parse H.n sk = some k → ∀ p, signTop H cfg k = some p → k.seed = seed ∧ p = p0 := Iff.rfl

/-- The signing key returned by `hssKeygen` belongs to the generated key, with any value in its 8 counter bytes. -/
theorem generated_key_keyFor (H : HashFn) (cfg : Config) (ps : List HssParam) (seed : Bytes) (aux : Option Bytes)
    (p0 : HssParam) (o : KeygenOutcome) (skb vk : Bytes) (c : Nat)
    (htop : keygenTop H cfg ps = some p0) (hseed : seed.length = H.n)
    (h : hssKeygen H cfg ps seed aux = .ok o) (hr : o.result = some (skb, vk)) :
    KeyFor H cfg seed p0 skb ∧ KeyFor H cfg seed p0 (Bytes.u64be c ++ skb.drop 8) :=
  keyFor_keygen H cfg ps seed aux p0 htop hseed o skb vk h hr c

/-- Every key handed to the update callback by a signing call belongs to the same key again (it is the key with an
advanced counter, or the wiped key). -/
theorem callback_key_keyFor (H : HashFn) (cfg : Config) (seed : Bytes) (p0 : HssParam) (msg sk : Bytes)
    (cb : Bytes → Bool) (aux : Option Bytes) (o : SignOutcome) (hk : KeyFor H cfg seed p0 sk)
    (h : hssSign H cfg msg sk cb aux = .ok o) : ∀ sk' ∈ o.trace, KeyFor H cfg seed p0 sk' :=
  keyFor_trace H cfg seed p0 msg sk cb aux hk o h

/-! ## Honest buffers are transparent (C10 without the `hused` hypothesis) -/

/-- key generation with an honest buffer returns what key generation without auxiliary data returns -/
theorem keygen_honest_transparent (H : HashFn) (cfg : Config) (hK : cfg.maxTreeHeight ≤ 30) (ps : List HssParam)
    (seed : Bytes) (aux : Option Bytes)
    (hh : ∀ p0, keygenTop H cfg ps = some p0 → Honest H cfg seed p0 aux) :
    (hssKeygen H cfg ps seed aux).map (·.result) = (hssKeygen H cfg ps seed none).map (·.result) :=
  Props.C10.C10_keygen H cfg hK ps seed aux fun p0 buf e hp0 hb hu he => hh p0 hp0 buf e hb hu he

/-- signing with an honest buffer returns the signature / error / panic and hands the callback the successor key that
signing without auxiliary data does -/
theorem sign_honest_transparent (H : HashFn) (cfg : Config) (hK : cfg.maxTreeHeight ≤ 30) (msg sk : Bytes)
    (cb : Bytes → Bool) (aux : Option Bytes) (seed : Bytes) (p0 : HssParam)
    (hk : KeyFor H cfg seed p0 sk) (hh : Honest H cfg seed p0 aux) :
    (hssSign H cfg msg sk cb aux).map (fun o => (o.result, o.trace)) =
      (hssSign H cfg msg sk cb none).map (fun o => (o.result, o.trace)) :=
  Props.C10.C10_sign H cfg hK msg sk cb aux fun k p buf e hp hst hb hu he => by
    obtain ⟨h1, h2⟩ := hk k hp p hst
    subst h1; subst h2
    exact hh buf e hb hu he

/-- the same, on outcomes: the call without auxiliary data succeeds as well and returns the same signature bytes and
the same callback invocations -/
theorem sign_honest_same_signature (H : HashFn) (cfg : Config) (hK : cfg.maxTreeHeight ≤ 30) (msg sk : Bytes)
    (cb : Bytes → Bool) (aux : Option Bytes) (seed : Bytes) (p0 : HssParam) (o : SignOutcome)
    (hk : KeyFor H cfg seed p0 sk) (hh : Honest H cfg seed p0 aux) (h : hssSign H cfg msg sk cb aux = .ok o) :
    ∃ o', hssSign H cfg msg sk cb none = .ok o' ∧ o'.result = o.result ∧ o'.trace = o.trace := by
  have ht := sign_honest_transparent H cfg hK msg sk cb aux seed p0 hk hh
  rw [h] at ht
  cases h2 : hssSign H cfg msg sk cb none with
  | error f => rw [h2] at ht; cases ht
  | ok o' =>
    rw [h2] at ht
    simp only [Except.map, Except.ok.injEq, Prod.mk.injEq] at ht
    exact ⟨o', rfl, ht.1.symm, ht.2.symm⟩

/-! ## T3 - sessions -/

/-- Buffers that can occur in the life of the key `(ps, seed)`: what the caller starts with (absent, unmarked, or
rejected by the MAC check for this seed), and whatever `hssKeygen` for this key or `hssSign` with key bytes of this key
wrote back into such a buffer - in any order, any number of times. -/
inductive Reachable (H : HashFn) (cfg : Config) (ps : List HssParam) (seed : Bytes) (p0 : HssParam) :
    Option Bytes → Prop
  | fresh (aux : Option Bytes) :
      (∀ b, aux = some b → hss_is_aux_data_used b = false) → Reachable H cfg ps seed p0 aux
  | rejected (buf : Bytes) :
      hss_expand_aux_data H cfg buf (some seed) = none → Reachable H cfg ps seed p0 (some buf)
  | keygen (aux : Option Bytes) (o : KeygenOutcome) :
      Reachable H cfg ps seed p0 aux → hssKeygen H cfg ps seed aux = .ok o → Reachable H cfg ps seed p0 o.aux
  | sign (aux : Option Bytes) (msg sk : Bytes) (cb : Bytes → Bool) (o : SignOutcome) :
      Reachable H cfg ps seed p0 aux → KeyFor H cfg seed p0 sk → hssSign H cfg msg sk cb aux = .ok o →
      Reachable H cfg ps seed p0 o.aux

/-- every reachable buffer is honest -/
theorem reachable_honest (H : HashFn) (cfg : Config) (hK : cfg.maxTreeHeight ≤ 30) (ps : List HssParam)
    (seed : Bytes) (p0 : HssParam) (htop : keygenTop H cfg ps = some p0) (aux : Option Bytes)
    (hr : Reachable H cfg ps seed p0 aux) : Honest H cfg seed p0 aux := by
  induction hr with
  | fresh aux hun => exact honest_unmarked H cfg seed p0 aux hun
  | rejected buf hbad => exact honest_rejected H cfg seed p0 buf hbad
  | keygen aux o _ h ih => exact hssKeygen_honest H cfg hK ps seed aux p0 htop ih o h
  | sign aux msg sk cb o _ hk h ih => exact hssSign_honest H cfg hK msg sk cb aux seed p0 hk ih o h

/-- **T3 (any interleaving), signing.** On every reachable buffer, every signing call with key bytes of this key
returns the same `(result, trace)` - signature or error, callback invocations - or the same panic as the same call
without auxiliary data. No hypothesis about MACs or cache contents. -/
theorem reachable_sign_transparent (H : HashFn) (cfg : Config) (hK : cfg.maxTreeHeight ≤ 30) (ps : List HssParam)
    (seed : Bytes) (p0 : HssParam) (htop : keygenTop H cfg ps = some p0) (aux : Option Bytes)
    (hr : Reachable H cfg ps seed p0 aux) (msg sk : Bytes) (cb : Bytes → Bool) (hk : KeyFor H cfg seed p0 sk) :
    (hssSign H cfg msg sk cb aux).map (fun o => (o.result, o.trace)) =
      (hssSign H cfg msg sk cb none).map (fun o => (o.result, o.trace)) :=
  sign_honest_transparent H cfg hK msg sk cb aux seed p0 hk (reachable_honest H cfg hK ps seed p0 htop aux hr)

/-- **T3 (any interleaving), key generation.** Re-running key generation on a reachable buffer returns the same key
pair as without auxiliary data. -/
theorem reachable_keygen_transparent (H : HashFn) (cfg : Config) (hK : cfg.maxTreeHeight ≤ 30) (ps : List HssParam)
    (seed : Bytes) (p0 : HssParam) (htop : keygenTop H cfg ps = some p0) (aux : Option Bytes)
    (hr : Reachable H cfg ps seed p0 aux) :
    (hssKeygen H cfg ps seed aux).map (·.result) = (hssKeygen H cfg ps seed none).map (·.result) :=
  keygen_honest_transparent H cfg hK ps seed aux fun p0' hp0' => by
    rw [htop] at hp0'; cases hp0'
    exact reachable_honest H cfg hK ps seed p0 htop aux hr

/-- one signing call of a session -/
structure Call where
  msg : Bytes
  sk : Bytes
  cb : Bytes → Bool

/-- a session: every call gets the aux buffer WRITTEN BACK by the previous call; collected are `(result, trace)` -/
def runSession (H : HashFn) (cfg : Config) : List Call → Option Bytes → P (List (Option Bytes × List Bytes))
  | [], _ => pure []
  | c :: cs, aux => do
    let o ← hssSign H cfg c.msg c.sk c.cb aux
    let r ← runSession H cfg cs o.aux
    pure ((o.result, o.trace) :: r)

/-- the same calls, each without auxiliary data -/
def runNoAux (H : HashFn) (cfg : Config) : List Call → P (List (Option Bytes × List Bytes))
  | [] => pure []
  | c :: cs => do
    let o ← hssSign H cfg c.msg c.sk c.cb none
    let r ← runNoAux H cfg cs
    pure ((o.result, o.trace) :: r)

/-- a session on an honest buffer -/
theorem session_honest_transparent (H : HashFn) (cfg : Config) (hK : cfg.maxTreeHeight ≤ 30) (seed : Bytes)
    (p0 : HssParam) (calls : List Call) (hk : ∀ c ∈ calls, KeyFor H cfg seed p0 c.sk) (aux : Option Bytes)
    (hh : Honest H cfg seed p0 aux) : runSession H cfg calls aux = runNoAux H cfg calls := by
  induction calls generalizing aux with
  | nil => rfl
  | cons c cs ih =>
    have hkc := hk c List.mem_cons_self
    have ht := sign_honest_transparent H cfg hK c.msg c.sk c.cb aux seed p0 hkc hh
    unfold runSession runNoAux
    cases h1 : hssSign H cfg c.msg c.sk c.cb aux with
    | error f =>
      rw [h1] at ht
      cases h2 : hssSign H cfg c.msg c.sk c.cb none with
      | error f' => rw [h2] at ht; cases ht; rfl
      | ok o' => rw [h2] at ht; cases ht
    | ok o =>
      rw [h1] at ht
      cases h2 : hssSign H cfg c.msg c.sk c.cb none with
      | error f' => rw [h2] at ht; cases ht
      | ok o' =>
        rw [h2] at ht
        simp only [Except.map, Except.ok.injEq] at ht
        have hho := hssSign_honest H cfg hK c.msg c.sk c.cb aux seed p0 hkc hh o h1
        have := ih (fun c' hc' => hk c' (List.mem_cons_of_mem _ hc')) o.aux hho
        simp only [bind, Except.bind]
        rw [this, ht]

/-- **T3 (threaded session).** Key generation on ANY absent or unmarked caller buffer, then any list of signing calls,
each with key bytes of the generated key (any counter; also keys that no longer parse/decode) and with the aux buffer
written back by the previous operation: every call returns the same `(result, trace)` as the same call without
auxiliary data (and the session panics at the same call with the same panic, if any). -/
theorem session_after_keygen (H : HashFn) (cfg : Config) (hK : cfg.maxTreeHeight ≤ 30) (ps : List HssParam)
    (seed : Bytes) (aux0 : Option Bytes) (p0 : HssParam) (o0 : KeygenOutcome) (calls : List Call)
    (htop : keygenTop H cfg ps = some p0)
    (hun : ∀ b, aux0 = some b → hss_is_aux_data_used b = false)
    (hkg : hssKeygen H cfg ps seed aux0 = .ok o0)
    (hk : ∀ c ∈ calls, KeyFor H cfg seed p0 c.sk) :
    runSession H cfg calls o0.aux = runNoAux H cfg calls :=
  session_honest_transparent H cfg hK seed p0 calls hk o0.aux
    (keygen_output_honest_fresh H cfg hK ps seed aux0 p0 o0 htop hun hkg)

/-- The same with the key bytes made explicit: the generated signing key `skb` with its 8 counter bytes set to any
value `c` (this is `Props.C01.blobWithCounter skb c`). -/
theorem session_after_keygen_counters (H : HashFn) (cfg : Config) (hK : cfg.maxTreeHeight ≤ 30) (ps : List HssParam)
    (seed : Bytes) (aux0 : Option Bytes) (p0 : HssParam) (o0 : KeygenOutcome) (skb vk : Bytes)
    (calls : List (Bytes × Nat × (Bytes → Bool)))
    (htop : keygenTop H cfg ps = some p0) (hseed : seed.length = H.n)
    (hun : ∀ b, aux0 = some b → hss_is_aux_data_used b = false)
    (hkg : hssKeygen H cfg ps seed aux0 = .ok o0) (hres : o0.result = some (skb, vk)) :
    runSession H cfg (calls.map fun c => ⟨c.1, Bytes.u64be c.2.1 ++ skb.drop 8, c.2.2⟩) o0.aux =
      runNoAux H cfg (calls.map fun c => ⟨c.1, Bytes.u64be c.2.1 ++ skb.drop 8, c.2.2⟩) := by
  apply session_after_keygen H cfg hK ps seed aux0 p0 o0 _ htop hun hkg
  intro c hc
  obtain ⟨c', _, rfl⟩ := List.mem_map.1 hc
  exact (keyFor_keygen H cfg ps seed aux0 p0 htop hseed o0 skb vk hkg hres c'.2.1).2

/-! ### the key threaded through the update callback -/

/-- the key the caller holds after a call: the successor key if the update callback was invoked and accepted it
(as in `trySign`), else the old one -/
def nextKey (cb : Bytes → Bool) (sk : Bytes) (trace : List Bytes) : Bytes :=
  match trace with
  | [k'] => if cb k' then k' else sk
  | _ => sk

/-- a fully threaded session: both the key (through the update callback) and the aux buffer are carried over -/
def runThreaded (H : HashFn) (cfg : Config) :
    List (Bytes × (Bytes → Bool)) → Bytes → Option Bytes → P (List (Option Bytes × List Bytes))
  | [], _, _ => pure []
  | c :: cs, sk, aux => do
    let o ← hssSign H cfg c.1 sk c.2 aux
    let r ← runThreaded H cfg cs (nextKey c.2 sk o.trace) o.aux
    pure ((o.result, o.trace) :: r)

/-- the same session without auxiliary data -/
def runThreadedNoAux (H : HashFn) (cfg : Config) :
    List (Bytes × (Bytes → Bool)) → Bytes → P (List (Option Bytes × List Bytes))
  | [], _ => pure []
  | c :: cs, sk => do
    let o ← hssSign H cfg c.1 sk c.2 none
    let r ← runThreadedNoAux H cfg cs (nextKey c.2 sk o.trace)
    pure ((o.result, o.trace) :: r)

theorem nextKey_keyFor (H : HashFn) (cfg : Config) (seed : Bytes) (p0 : HssParam) (cb : Bytes → Bool) (sk : Bytes)
    (trace : List Bytes) (hk : KeyFor H cfg seed p0 sk) (ht : ∀ sk' ∈ trace, KeyFor H cfg seed p0 sk') :
    KeyFor H cfg seed p0 (nextKey cb sk trace) := by
  unfold nextKey
  split
  · rename_i k'
    split
    · exact ht k' (by simp)
    · exact hk
  · exact hk

theorem threaded_honest_transparent (H : HashFn) (cfg : Config) (hK : cfg.maxTreeHeight ≤ 30) (seed : Bytes)
    (p0 : HssParam) (calls : List (Bytes × (Bytes → Bool))) (sk : Bytes) (hk : KeyFor H cfg seed p0 sk)
    (aux : Option Bytes) (hh : Honest H cfg seed p0 aux) :
    runThreaded H cfg calls sk aux = runThreadedNoAux H cfg calls sk := by
  induction calls generalizing sk aux with
  | nil => rfl
  | cons c cs ih =>
    have ht := sign_honest_transparent H cfg hK c.1 sk c.2 aux seed p0 hk hh
    unfold runThreaded runThreadedNoAux
    cases h1 : hssSign H cfg c.1 sk c.2 aux with
    | error f =>
      rw [h1] at ht
      cases h2 : hssSign H cfg c.1 sk c.2 none with
      | error f' => rw [h2] at ht; cases ht; rfl
      | ok o' => rw [h2] at ht; cases ht
    | ok o =>
      rw [h1] at ht
      cases h2 : hssSign H cfg c.1 sk c.2 none with
      | error f' => rw [h2] at ht; cases ht
      | ok o' =>
        rw [h2] at ht
        simp only [Except.map, Except.ok.injEq, Prod.mk.injEq] at ht
        have hho := hssSign_honest H cfg hK c.1 sk c.2 aux seed p0 hk hh o h1
        have hkn := nextKey_keyFor H cfg seed p0 c.2 sk o.trace hk
          (keyFor_trace H cfg seed p0 c.1 sk c.2 aux hk o h1)
        have := ih (nextKey c.2 sk o.trace) hkn o.aux hho
        simp only [bind, Except.bind]
        rw [this, ht.1, ht.2]

/-- **T3 (fully threaded).** `hssKeygen` on ANY absent or unmarked caller buffer, then any list of `(msg, callback)`
signing calls in which each call uses the key accepted by the previous callback and the aux buffer written back by the
previous operation: every call returns the same `(result, trace)` - in particular the same signature bytes and the same
successor key - as in the session run without auxiliary data. No hypothesis about MACs or cache contents. -/
theorem threaded_session_after_keygen (H : HashFn) (cfg : Config) (hK : cfg.maxTreeHeight ≤ 30) (ps : List HssParam)
    (seed : Bytes) (aux0 : Option Bytes) (p0 : HssParam) (o0 : KeygenOutcome) (skb vk : Bytes)
    (calls : List (Bytes × (Bytes → Bool)))
    (htop : keygenTop H cfg ps = some p0) (hseed : seed.length = H.n)
    (hun : ∀ b, aux0 = some b → hss_is_aux_data_used b = false)
    (hkg : hssKeygen H cfg ps seed aux0 = .ok o0) (hres : o0.result = some (skb, vk)) :
    runThreaded H cfg calls skb o0.aux = runThreadedNoAux H cfg calls skb :=
  threaded_honest_transparent H cfg hK seed p0 calls skb
    (keyFor_keygen H cfg ps seed aux0 p0 htop hseed o0 skb vk hkg hres 0).1 o0.aux
    (keygen_output_honest_fresh H cfg hK ps seed aux0 p0 o0 htop hun hkg)

/-- Corollary (signature bytes, C07-style): in a session after key generation, a call that releases a signature
releases exactly the bytes the aux-free call releases. -/
theorem session_call_same_signature (H : HashFn) (cfg : Config) (hK : cfg.maxTreeHeight ≤ 30) (ps : List HssParam)
    (seed : Bytes) (p0 : HssParam) (htop : keygenTop H cfg ps = some p0) (aux : Option Bytes)
    (hr : Reachable H cfg ps seed p0 aux) (msg sk : Bytes) (cb : Bytes → Bool) (hk : KeyFor H cfg seed p0 sk)
    (o : SignOutcome) (sig : Bytes) (h : hssSign H cfg msg sk cb aux = .ok o) (hres : o.result = some sig) :
    ∃ o', hssSign H cfg msg sk cb none = .ok o' ∧ o'.result = some sig ∧ o'.trace = o.trace := by
  obtain ⟨o', h1, h2, h3⟩ := sign_honest_same_signature H cfg hK msg sk cb aux seed p0 o hk
    (reachable_honest H cfg hK ps seed p0 htop aux hr) h
  exact ⟨o', h1, by rw [h2, hres], h3⟩

/-! ## Non-vacuity: the buffer written back by key generation IS accepted by the next operation -/

/-- a toy hash function (one-byte polynomial checksum of the input, repeated 16 times) -/
def toyHash : HashFn :=
  ⟨16, fun x => List.replicate 16 (UInt8.ofNat (x.foldl (fun a b => (31 * a + b.toNat) % 251) 7)), fun x => by simp⟩

/-- LM-OTS `w = 2` for a 16-byte hash over the 4-leaf test tree -/
def toyParam : HssParam := ⟨⟨2, 2, 68, 6⟩, ⟨1, 2⟩⟩

def toySeed : Bytes := [1, 2, 3, 4, 5, 6, 7, 8, 9, 10, 11, 12, 13, 14, 15, 16]

/-- marked as used and accepted (level word, length and MAC check) by `hss_expand_aux_data` for the toy seed -/
def toyAccepted (aux : Option Bytes) : Bool :=
  match aux with
  | some b => hss_is_aux_data_used b && (hss_expand_aux_data toyHash Config.default b (some toySeed)).isSome
  | none => false

/-- `Honest` is not satisfied only vacuously along a session: key generation on a zeroed 200-byte buffer writes back a
buffer that is marked as used and passes the MAC check of `hss_expand_aux_data` for the same seed, i.e. the next
operation really reads the cached levels back (evaluated by the kernel on the toy instance). -/
theorem keygen_output_is_accepted_toy :
    (match hssKeygen toyHash Config.default [toyParam] toySeed (some (List.replicate 200 0)) with
      | .ok o => toyAccepted o.aux
      | .error _ => false) = true := by decide +kernel

end Props.C10Life

#print axioms Props.C10Life.roundtrip_layers
#print axioms Props.C10Life.expanded_view_shape
#print axioms Props.C10Life.treeNode_keeps_frame
#print axioms Props.C10Life.keygen_output_honest
#print axioms Props.C10Life.keygen_output_honest_fresh
#print axioms Props.C10Life.keygen_output_honest_rejected
#print axioms Props.C10Life.sign_output_honest
#print axioms Props.C10Life.sign_output_honest_keyFor
#print axioms Props.C10Life.generated_key_keyFor
#print axioms Props.C10Life.callback_key_keyFor
#print axioms Props.C10Life.keygen_honest_transparent
#print axioms Props.C10Life.sign_honest_transparent
#print axioms Props.C10Life.sign_honest_same_signature
#print axioms Props.C10Life.reachable_honest
#print axioms Props.C10Life.reachable_sign_transparent
#print axioms Props.C10Life.reachable_keygen_transparent
#print axioms Props.C10Life.session_honest_transparent
#print axioms Props.C10Life.session_after_keygen
#print axioms Props.C10Life.session_after_keygen_counters
#print axioms Props.C10Life.threaded_honest_transparent
#print axioms Props.C10Life.threaded_session_after_keygen
#print axioms Props.C10Life.session_call_same_signature
#print axioms Props.C10Life.keygen_output_is_accepted_toy
